(* Recover/ProofsStepA.v — the invariant is preserved by the raft loop, the apply loop and the backup loop. *)
From Coq Require Import NArith List Bool Lia Arith.
From Coq Require Import ZifyN ZifyNat ZifyBool.
From ZV Require Import Recover.Consts Recover.Path Recover.ProofsWal Recover.ProofsLists Recover.ProofsInv.
Import ListNotations.
Open Scope N_scope.

Arguments N.add : simpl never.
Arguments N.sub : simpl never.
Arguments N.max : simpl never.
Arguments N.to_nat : simpl never.

(* ---------- the raft loop ---------- *)

Lemma ready_records_eq : forall r,
  ready_records r = map REnt (if 0 <? r_n r then range (r_first r - 1) (r_last r) else []) ++ (if r_hs r then [RState (r_commit r)] else []).
Proof. reflexivity. Qed.

Lemma ready_ok_spec : forall s r, r_snap r = 0 -> ready_ok s r = true ->
  (0 < r_n r -> r_first r = rs_last s + 1 /\ r_last r + 1 = r_first r + r_n r /\ (wstate s = true \/ r_hs r = true))
  /\ (0 < r_cn r -> r_cfirst r = published s + 1 /\ r_clast r + 1 = r_cfirst r + r_cn r
                    /\ r_clast r <= rlast s r /\ r_clast r <= (if r_hs r then r_commit r else hcommit s))
  /\ (r_hs r = true -> hcommit s <= r_commit r /\ last_commit (all_recs (segs s)) <= r_commit r /\ r_commit r <= rlast s r).
Proof.
  intros s r Hs0 H. unfold ready_ok in H. unfold rlast. rewrite Hs0 in H. change (0 <? 0) with false in H. cbv iota in H.
  apply andb_true_iff in H. destruct H as [H _].
  apply andb_true_iff in H. destruct H as [H H3]. apply andb_true_iff in H. destruct H as [H1 H2].
  split; [|split].
  - intros Hn. destruct (0 <? r_n r) eqn:Q; [|lia].
    apply andb_true_iff in H1. destruct H1 as [H1 Hw]. apply andb_true_iff in H1. destruct H1 as [Ha Hb].
    apply orb_true_iff in Hw. split; [lia|]. split; [lia|]. exact Hw.
  - intros Hn. destruct (0 <? r_cn r) eqn:Q; [|lia].
    apply andb_true_iff in H2. destruct H2 as [H2 Hd]. apply andb_true_iff in H2. destruct H2 as [H2 Hc].
    apply andb_true_iff in H2. destruct H2 as [Ha Hb].
    destruct (0 <? r_n r); destruct (r_hs r); repeat split; lia.
  - intros Hh. rewrite Hh in H3.
    apply andb_true_iff in H3. destruct H3 as [H3 Hc]. apply andb_true_iff in H3. destruct H3 as [Ha Hb].
    destruct (0 <? r_n r); repeat split; lia.
Qed.

(* what the acceptor has checked of a Ready that carries an incoming snapshot *)
Lemma ready_ok_snap : forall s r, 0 < r_snap r -> ready_ok s r = true ->
  r_n r = 0 /\ r_cn r = 0 /\ r_hs r = true /\ r_commit r = r_snap r /\ rs_last s < r_snap r /\ published s < r_snap r
  /\ lc_all_lt s (r_snap r) /\ has_flushed_state s = true.
Proof.
  intros s r Hs H. unfold ready_ok in H. assert (Q : (0 <? r_snap r) = true) by lia. rewrite Q in H.
  apply andb_true_iff in H. destruct H as [_ H].
  repeat (apply andb_true_iff in H; let X := fresh "X" in destruct H as [H X]).
  assert (L : lc_all_lt s (r_snap r)).
  { intros j Hj. unfold lc_images_lt in X0. rewrite forallb_forall in X0.
    specialize (X0 j). rewrite in_seq in X0. specialize (X0 ltac:(lia)). lia. }
  repeat split; try lia; auto.
Qed.

(* a hard state in the image that lost all buffered records is in every image *)
Lemma flushed_state_of : forall s hi, PInv s hi -> has_flushed_state s = true -> flushed_state s.
Proof.
  intros s hi P H j Hj. unfold has_flushed_state in H. fold (has_state (all_recs (drop_tail (segs s) (unflushed s)))) in H.
  destruct (p_tail _ _ P) as [pre [sl [body [tl [Ess [Esl [Etl [Hst _]]]]]]]].
  rewrite Ess, drop_tail_snoc, all_recs_snoc in *. simpl in *. rewrite Esl in *.
  rewrite <- Etl in H. replace (length (body ++ tl) - length tl)%nat with (length body) in H by (rewrite app_length; lia).
  rewrite firstn_app, firstn_all, Nat.sub_diag in H. simpl in H. rewrite app_nil_r in H.
  unfold has_state in *. rewrite existsb_app in *. apply orb_true_iff in H. apply orb_true_iff. destruct H as [H|H]; [left; exact H | right].
  rewrite app_length. replace (length body + length tl - j)%nat with (length body + (length tl - j))%nat by lia.
  rewrite firstn_app_2, existsb_app. apply orb_true_iff. left. exact H.
Qed.

Lemma step_rd_begin : forall c s s' r, Inv c s -> step c s (EvRdBegin r) = Ok s' -> Inv c s'.
Proof.
  intros c s s' r HI H. start_step H hi HP HV.
  apply negb_false_iff in E0. apply negb_false_iff in E1. rewrite E0 in HV.
  unfold running in *. destruct (rc s) eqn:R; try discriminate.
  assert (Hidle : hi = rs_last s /\ published s <= last_commit (all_recs (segs s))).
  { destruct HV. unfold rd_inv in v_rd. rewrite E in v_rd. exact v_rd. }
  assert (Hp0 : pend_idx s = 0) by (unfold pend_idx, pend_r, pending; rewrite E; reflexivity).
  destruct (0 <? r_snap r) eqn:Qs.
  - (* a Ready with an incoming snapshot *)
    assert (Hs : 0 < r_snap r) by (apply N.ltb_lt; exact Qs).
    destruct (ready_ok_snap _ _ Hs E1) as [S1 [S2 [S3 [S4 [S5 [S6 [S7 S8]]]]]]].
    exists hi. split.
    + destruct HP. constructor; proj; auto. lia.
    + unfold running. proj. rewrite R.
      assert (Hp1 : pend_idx (set_proposed (set_rdseq (set_rdp s (RdBegun r false false)) (rdseq s + 1))
                                 (N.max (proposed s) (r_snap r))) = r_snap r).
      { unfold pend_idx, pend_r, pending. proj. rewrite Qs. reflexivity. }
      destruct HV. constructor; unfold snap_pend, snap_done, snap_mid, snap_busy in *; proj; rewrite ?Hp1; rewrite ?Hp0 in *; auto.
      * unfold rd_inv. proj. rewrite Qs. destruct Hidle as [A B].
        split; [unfold snapfacts; proj; repeat split; auto; lia|]. split; [exact S7|]. split; [exact (flushed_state_of s hi HP S8)|].
        split; [exact B | exact S6].
      * lia.
      * destruct v_latest as [[A|[A _]] B]; [split; [left; exact A | exact B]|].
        exfalso. unfold in_window in A. rewrite E in A. discriminate.
      * eapply Forall_impl; [|exact v_queue]. simpl. intros b [Hb1 Hb2]. split; [exact Hb1|].
        intros Hb. destruct (Hb2 Hb) as [_ [_ [X _]]]. lia.
      * destruct (app s); auto; destruct v_app as [A1 [A2 A3]]; try (destruct A3 as [_ [X _]]; lia).
        split; [exact A1|]. split; [exact A2|]. destruct A3 as [[_ [X _]]|[A3|[_ [X _]]]]; [lia | right; left; exact A3 | lia].
      * intros f Hf Hn. destruct (v_files f Hf Hn) as [X|[X _]]; [left; exact X | left].
        exfalso. rewrite X in Hf. exact (p_nozero _ _ HP Hf).
      * intros i Hi. destruct (v_unval i Hi) as [X|[X|[X X']]]; auto. lia.
  - (* an ordinary Ready *)
    assert (Hs0 : r_snap r = 0) by (apply N.ltb_ge in Qs; lia).
    destruct (ready_ok_spec _ _ Hs0 E1) as [R1 [R2 R3]].
    exists hi. split.
    + destruct HP. constructor; proj; auto. lia.
    + unfold running. proj. rewrite R.
      assert (Hp1 : forall x, pend_idx (set_proposed (set_rdseq (set_rdp s (RdBegun r false false)) (rdseq s + 1)) x) = 0).
      { intros x. unfold pend_idx, pend_r, pending. proj. rewrite Qs. reflexivity. }
      destruct HV. constructor; unfold snap_pend, snap_done, snap_mid, snap_busy in *; proj; rewrite ?Hp1; rewrite ?Hp0 in *; auto.
      unfold rd_inv. proj. rewrite Qs. destruct Hidle as [Hhi Hpub]. unfold rlast in *. proj.
      split; [split|split; [split; [|split; [|split]]|split]].
      * intros Hn. destruct (R1 Hn) as [A [B _]]. repeat split; auto.
        assert (Q : (0 <? r_n r) = true) by lia. rewrite Q. lia.
      * intros Hn. apply R2. exact Hn.
      * exact Hhi.
      * intros Hn. apply R1. exact Hn.
      * intros Hh. destruct (R3 Hh) as [_ [A B]]. split; auto.
      * intros Hn. apply R2. exact Hn.
      * unfold pubcl. proj. split; [exact Hpub|]. intros Hn. destruct (R2 Hn) as [A [B _]]. lia.
      * intros; discriminate.
      * destruct v_latest as [[A|[A _]] B]; [split; [left; exact A | exact B]|].
        exfalso. unfold in_window in A. rewrite E in A. discriminate.
      * intros f Hf Hn. destruct (v_files f Hf Hn) as [X|[X _]]; [left; exact X|].
        exfalso. rewrite X in Hf. exact (p_nozero _ _ HP Hf).
Qed.

Lemma step_rd_save_before : forall c s s', Inv c s -> step c s EvRdSaveBefore = Ok s' -> Inv c s'.
Proof.
  intros c s s' HI H. start_step H hi HP HV.
  - exists hi. split; [pframe s|].
    unfold running in *. proj. destruct (rc s) eqn:R; try (not_running HV).
    apply vinv_set_rdp; [exact HV | | pend_eq E | pend_eq E].
    destruct HV. unfold rd_inv, pubcl in *. proj. rewrite E in v_rd. rewrite E1 in *. exact v_rd.
  - (* the hard state of a Ready whose incoming snapshot has just been saved *)
    exists hi. split; [pframe s|].
    unfold running in *. proj. destruct (rc s) eqn:R; try (not_running HV).
    pose proof (v_rd _ _ _ HV) as v_rd. unfold rd_inv in v_rd. rewrite E in v_rd. destruct v_rd as [Hs [F [L [Pb W]]]].
    assert (Q : (0 <? r_snap r) = true) by (apply N.ltb_lt; exact Hs).
    apply vinv_set_rdp; [exact HV | | pend_eq E | pend_eq E].
    unfold rd_inv. proj. rewrite Q. auto.
Qed.

(* what appending the records of a Ready changes in the views the invariant takes of the WAL *)
Lemma rr_markers : forall r, pmarkers (ready_records r) = [].
Proof. intros. rewrite ready_records_eq. apply pmarkers_ents_state. Qed.

Lemma rr_entries : forall r, entries (ready_records r) = if 0 <? r_n r then range (r_first r - 1) (r_last r) else [].
Proof. intros. rewrite ready_records_eq. apply entries_ents_state. Qed.

Lemma save_newest : forall ss r, ss <> [] -> newest (app_tail ss (ready_records r)) = newest ss.
Proof. intros. apply newest_app_tail_nomark; auto. apply rr_markers. Qed.

Lemma save_markers : forall ss r, ss <> [] -> pmarkers (all_recs (app_tail ss (ready_records r))) = pmarkers (all_recs ss).
Proof. intros. rewrite app_tail_recs by auto. rewrite pmarkers_app, rr_markers, app_nil_r. reflexivity. Qed.

Lemma save_unvalidated : forall ss r, ss <> [] -> unvalidated (all_recs (app_tail ss (ready_records r))) = unvalidated (all_recs ss).
Proof.
  intros. rewrite app_tail_recs by auto. rewrite unvalidated_app, ready_records_eq.
  rewrite (unvalidated_local _ (local_ents_state _ _ _)), app_nil_r. reflexivity.
Qed.

Lemma save_lc : forall ss r, ss <> [] ->
  last_commit (all_recs (app_tail ss (ready_records r))) = if r_hs r then r_commit r else last_commit (all_recs ss).
Proof. intros. rewrite app_tail_recs by auto. rewrite ready_records_eq. apply last_commit_ents_state. Qed.

(* the Ready's records continue the log: entries hi+1 .. rlast *)
Lemma save_entries_range : forall s r hi,
  hi = rs_last s -> (0 < r_n r -> r_first r = rs_last s + 1 /\ r_last r + 1 = r_first r + r_n r /\ r_last r <= proposed s) ->
  (if 0 <? r_n r then range (r_first r - 1) (r_last r) else []) = range hi (rlast s r) /\ hi <= rlast s r.
Proof.
  intros s r hi Hhi F. unfold rlast. destruct (0 <? r_n r) eqn:Q.
  - destruct (F ltac:(lia)) as [A [B _]]. split; [f_equal; lia | lia].
  - split; [rewrite range_nil by lia; reflexivity | lia].
Qed.

Lemma nth_sfirst_app_tail : forall ss rs n, sfirst (nth n (app_tail ss rs) (mkSeg 0 [])) = sfirst (nth n ss (mkSeg 0 [])).
Proof. intros. apply nth_app_tail_first. Qed.

Lemma pinv_last_entry : forall s hi, PInv s hi -> last_entry (all_recs (segs s)) = hi.
Proof.
  intros s hi P. eapply last_entry_chain_gen; [apply (p_jumps _ _ P) | apply (p_chain _ _ P)|].
  pose proof (p_first _ _ P) as F. pose proof (pinv_newest_le_hi _ _ P) as L.
  unfold lo_of, hd_first in *. lia.
Qed.

Lemma snap_tail_app : forall s x hi i rs, segs s <> [] -> segs x = app_tail (segs s) rs -> forallb tail_rec rs = true ->
  snap_tail s hi i -> snap_tail x hi i.
Proof.
  intros s x hi i rs Hne Es Hrs [pre [sl [a [b [E1 [E2 E3]]]]]]. rewrite E1 in Es. rewrite app_tail_snoc in Es.
  exists pre, (mkSeg (sfirst sl) (srecs sl ++ rs)), a, (b ++ rs). split; [exact Es|]. split.
  - simpl. rewrite E2, <- app_assoc. reflexivity.
  - rewrite forallb_app, E3, Hrs. reflexivity.
Qed.

Lemma nth_map_sfirst : forall (l l' : list seg) n, map sfirst l' = map sfirst l ->
  sfirst (nth n l' (mkSeg 0 [])) = sfirst (nth n l (mkSeg 0 [])).
Proof.
  intros l l' n H. change 0 with (sfirst (mkSeg 0 [])) at 1.
  rewrite <- (map_nth sfirst l'), <- (map_nth sfirst l), H. reflexivity.
Qed.

(* the Save of the hard state behind the record of an incoming snapshot cuts the segment: records and hard state are
   flushed into the old segment, the record is valid from here on (the log ends at the snapshot) *)
Lemma cut_before_snap : forall c s r pb idx hi,
  PInv s hi -> VInv c s hi -> rc s = RcRunning -> rdp s = RdSaving r pb false -> (0 <? r_snap r) = true ->
  idx = r_snap r + 1 -> forallb (fun b => b_snap b =? 0) (queue s) = true ->
  Inv c (set_rdp (set_unsynced (set_unflushed (set_segs (save_records s r) (validated (r_snap r) (app_tail (segs s) (ready_records r)))) 0)
                    (if opt_fsync c then (unsynced s + length (ready_records r))%nat else 0%nat)) (RdSnapCut r 0 idx)).
Proof.
  intros c s r pb idx hi HP HV R E Qs Hidx Gq.
  pose proof (pinv_segs_nonempty _ _ HP) as Hne.
  pose proof (v_rd _ _ _ HV) as V. unfold rd_inv in V. rewrite E, Qs in V.
  destruct V as [Hpb [SF [Lc [Pb W]]]]. subst pb.
  destruct SF as [Sn [Scn [Shs [Scm [Shi [Slt Spr]]]]]].
  destruct W as [W1 [W2 [W3 W4]]].
  assert (Q0 : 0 < r_snap r) by (apply N.ltb_lt; exact Qs).
  assert (Hrr : ready_records r = [RState (r_snap r)]).
  { rewrite ready_records_eq. assert (Q : (0 <? r_n r) = false) by lia. rewrite Q, Shs, Scm. reflexivity. }
  assert (Hp : pend_idx s = r_snap r) by (unfold pend_idx, pend_r, pending; rewrite E, Qs; reflexivity).
  assert (Hw : in_window s = 1%nat) by (unfold in_window; rewrite E, Qs; reflexivity).
  (* the records are in the file *)
  set (sA := set_unflushed (save_records s r) 0).
  assert (HPA : PInv sA hi).
  { apply (pinv_save s sA hi hi [] true (r_snap r) true); auto; try (unfold sA; proj; reflexivity).
    - unfold sA. proj. rewrite Hrr. reflexivity.
    - rewrite range_nil by lia. reflexivity.
    - destruct HP; lia.
    - intros _. specialize (Lc 0%nat ltac:(lia)). rewrite drop_tail_0 in Lc. lia. }
  assert (HtA : snap_tail sA hi (r_snap r)).
  { apply (snap_tail_app s sA hi (r_snap r) (ready_records r)); auto. rewrite Hrr. reflexivity. }
  assert (HlcA : last_commit (all_recs (segs sA)) = r_snap r).
  { unfold sA. proj. rewrite save_lc by auto. rewrite Shs. exact Scm. }
  match goal with |- Inv c ?st => set (s1 := st) end.
  destruct (pinv_validate sA s1 hi (r_snap r) HPA HtA Slt) as [HP' [Hnw [Hlc [Hun [Hpm Hsf]]]]]; try reflexivity; auto; try lia.
  pose proof (pinv_newest_le_hi _ _ HP) as Hnh.
  exists (r_snap r). split; [exact HP'|].
  unfold running. unfold s1 at 1. proj. rewrite R.
  assert (Hp' : pend_idx s1 = r_snap r) by reflexivity.
  assert (Hw' : in_window s1 = 0%nat) by reflexivity.
  assert (Hlen : length (segs s1) = length (segs s)).
  { rewrite <- (map_length sfirst), Hsf, map_length. unfold sA. proj. apply app_tail_length. }
  assert (HunS : forall u, In u (unvalidated (all_recs (segs s1))) -> In u (unvalidated (all_recs (segs s)))).
  { intros u Hu. apply Hun in Hu. unfold sA in Hu. proj. rewrite save_unvalidated in Hu by auto. exact Hu. }
  assert (HpmS : forall m, In m (pmarkers (all_recs (segs s1))) <-> m = r_snap r \/ In m (pmarkers (all_recs (segs s)))).
  { intros m. rewrite Hpm. unfold sA. proj. rewrite save_markers by auto. reflexivity. }
  rewrite HlcA in Hlc.
  destruct HV; constructor; unfold snap_pend, snap_done, snap_mid, snap_busy in *; rewrite ?Hp', ?Hw', ?Hnw, ?Hlc, ?Hlen; rewrite ?Hp, ?Hw in *;
    unfold s1; proj; fold s1; try assumption; try exact I.
  - unfold rd_inv. rewrite Hnw. unfold s1. proj. rewrite Shs, orb_true_r. destruct v_done as [D1 [D2 D3]]. repeat split; auto; lia.
  - lia.
  - destruct v_nrel as [N1 N2]. split; [exact N1|].
    change (validated (r_snap r) (app_tail (segs s) (ready_records r))) with (segs s1). rewrite (nth_map_sfirst _ _ _ Hsf).
    unfold sA. proj. rewrite nth_sfirst_app_tail. lia.
  - destruct v_latest as [[L1|[_ L1]] L2]; (split; [left; lia | intros lat Hl; specialize (L2 lat Hl); lia]).
  - rewrite Shs, Scm, orb_true_r. split; [intros; reflexivity | lia].
  - destruct v_done as [D1 [D2 D3]]. lia.
  - rewrite forallb_forall in Gq. rewrite Forall_forall in *. intros b Hin. destruct (v_queue b Hin) as [B1 B2].
    split; [destruct B1 as [B1|B1]; [left; exact B1 | right; lia]|].
    intros Hb. exfalso. specialize (Gq b Hin). apply N.eqb_eq in Gq. lia.
  - rewrite W4 in *. destruct v_app as [A1 [A2 A3]]. split; [exact A1|]. split; [exact A2|]. right. right. repeat split; auto.
  - rewrite W4. split; [tauto | right; exact I].
  - intros j p Hl. destruct (v_sns j p Hl) as [S1 [S2 [S3 [S4 [S5 [S6 S7]]]]]].
    rewrite W4 in v_app. destruct v_app as [A1 [A2 A3]]. destruct v_snapi as [I1 I2].
    change (validated (r_snap r) (app_tail (segs s) (ready_records r))) with (segs s1).
    split; [exact S1|]. split; [exact S2|]. split; [exact S3|]. split; [|split; [|split]]; try (intros; lia).
    intros Hb Hin. apply HpmS in Hin. destruct Hin as [->|Hin]; [lia | exact (S4 Hb Hin)].
  - intros f Hin Hn. destruct (v_files f Hin ltac:(lia)) as [X|[X _]]; [left; exact X | lia].
  - intros f Hf. specialize (v_pgsnap f Hf). lia.
  - intros u Hu. change (validated (r_snap r) (app_tail (segs s) (ready_records r))) with (segs s1) in Hu. apply HunS in Hu.
    destruct (v_unval u Hu) as [X|[X|X]]; [left; lia | right; left; exact X | left; lia].
  - destruct (ckp s) eqn:Ec; try exact I. destruct v_ck as [K1 [[K2 K2'] [K3 [K4 K5]]]].
    split; [exact K1|]. split; [split; lia|]. split; [exact K3|]. split; [exact K4 | exact K5].
Qed.

Lemma step_cut_before : forall c s s' idx, Inv c s -> step c s (EvCutBefore idx) = Ok s' -> Inv c s'.
Proof.
  intros c s s' idx HI H. start_step H hi HP HV.
  all: norm_guards.
  all: match goal with G : (_ || _) = true |- _ => rename G into G0 end.
  1: { (* the Save of the hard state behind an incoming snapshot's record cuts the segment *)
    unfold running in *. proj. destruct (rc s) eqn:R; try (not_running HV).
    match goal with G : (idx =? _) = true |- _ => apply N.eqb_eq in G; rename G into G1 end.
    eapply cut_before_snap; eauto. }
  match goal with G : (idx =? _) = true |- _ => rename G into G1 end.
  unfold running in *. proj. destruct (rc s) eqn:R; try (not_running HV).
  pose proof (pinv_segs_nonempty _ _ HP) as Hne.
  pose proof HV as HV0. destruct HV0 as [v_rd _ _ _ v_ws _ _ _ _ _ _ _ _ _ _ _ _].
  unfold rd_inv in v_rd. rewrite E in v_rd.
  match goal with G : (0 <? r_snap r) = false |- _ => rename G into Qs end. rewrite Qs in v_rd.
  destruct v_rd as [[F1 F2] [[Uhi [Uw [Uh Uc]]] [Pp Pov]]].
  assert (Hp0 : pend_idx s = 0) by (unfold pend_idx, pend_r, pending; rewrite E, Qs; reflexivity).
  destruct (save_entries_range s r hi Uhi F1) as [Erange Lrange].
  assert (HP' : PInv (set_rdp (set_unsynced (set_unflushed (save_records s r) 0) (if opt_fsync c then unsynced (save_records s r) else 0%nat)) (RdCutting r pb idx)) (rlast s r)).
  { apply (pinv_save s _ hi (rlast s r) (if 0 <? r_n r then range (r_first r - 1) (r_last r) else []) (r_hs r) (r_commit r) true);
      try reflexivity; auto.
    - intros; discriminate.
    - unfold rlast. destruct (0 <? r_n r) eqn:Q; [apply F1; lia | destruct HP; lia].
    - intros Hh. apply Uh. exact Hh. }
  exists (rlast s r). split; [exact HP'|].
  unfold running. proj. rewrite R.
  assert (Hlc' : last_commit (all_recs (app_tail (segs s) (ready_records r))) = if r_hs r then r_commit r else last_commit (all_recs (segs s))) by (apply save_lc; auto).
  assert (Hlcge : last_commit (all_recs (segs s)) <= last_commit (all_recs (app_tail (segs s) (ready_records r)))).
  { rewrite Hlc'. destruct (r_hs r) eqn:Qh; [apply Uh; reflexivity | lia]. }
  pose proof (vinv_app_inv _ _ _ HV) as Hai. pose proof (vinv_queue_inv _ _ _ HV) as Hqi.
  match goal with |- VInv c ?st _ => set (s1 := st) end.
  assert (Hp1 : pend_idx s1 = 0) by (unfold pend_idx, pend_r, pending, s1; proj; rewrite Qs; reflexivity).
  assert (Hai' : app_inv s1 (rlast s r)).
  { apply (app_inv_grow s s1 hi (rlast s r)); auto; unfold s1; proj; auto. apply save_newest; auto. }
  assert (Hqi' : queue_inv s1 (rlast s r)) by (apply (queue_inv_grow s s1 hi (rlast s r)); auto).
  unfold app_inv, queue_inv, snap_pend, snap_done, snap_mid in Hai', Hqi'. rewrite Hp1 in Hai', Hqi'. unfold s1 in *. clear s1. proj.
  vinv_split HV; unfold snap_pend, snap_done, snap_mid in *; proj; pend_goal0 Qs; rewrite ?Hp0 in *;
    rewrite ?save_newest, ?save_markers, ?save_unvalidated, ?app_tail_length, ?nth_sfirst_app_tail by auto; try assumption.
  - (* raft loop *)
    unfold rd_inv. proj. rewrite Qs. unfold rlast in *. proj.
    split; [split; assumption|]. split; [split|].
    + reflexivity.
    + intros Hcn. rewrite Hlc'. specialize (Uc Hcn). destruct (r_hs r); [exact Uc|]. destruct v_ws. lia.
    + split.
      * (* idx = hi' + 1 *)
        pose proof (pinv_last_entry _ _ HP') as Hle. proj. rewrite Hle in G1. unfold rlast in G1. lia.
      * split; [reflexivity|]. split.
        -- apply orb_true_iff in G0. destruct G0 as [G0|G0]; [|rewrite G0; apply orb_true_r].
           destruct (Uw ltac:(lia)) as [W|W]; rewrite W; [reflexivity | apply orb_true_r].
        -- unfold pubcl in *. proj. destruct pb.
           ++ destruct (0 <? r_cn r) eqn:Qc; [exact Pp | lia].
           ++ destruct Pp as [Pp1 Pp2]. split; [lia | exact Pp2].
  - lia.
  - destruct v_latest as [[A|[A _]] B]; [split; [left; exact A | exact B]|].
    exfalso. unfold in_window in A. rewrite E, Qs in A. discriminate.
  - (* wstate *)
    destruct v_wstate as [W1 W2]. rewrite Hlc'. split.
    + intros Hw. destruct (r_hs r) eqn:Qh; [reflexivity|]. rewrite orb_false_r in Hw. auto.
    + destruct (r_hs r); lia.
  - destruct v_done as [D1 [D2 D3]]. repeat split; lia.
  - rewrite ?save_newest in Hai' by auto. exact Hai'.
  - files_local.
  - apply (ck_inv_grow s hi (rlast s r)); assumption.
Qed.

Lemma newest_snoc_state : forall ss x c, newest (ss ++ [mkSeg x [RState c]]) = newest ss.
Proof. intros. unfold newest. rewrite all_recs_snoc, pmarkers_app. simpl. rewrite app_nil_r. reflexivity. Qed.

Lemma markers_snoc_state : forall ss x c, pmarkers (all_recs (ss ++ [mkSeg x [RState c]])) = pmarkers (all_recs ss).
Proof. intros. rewrite all_recs_snoc, pmarkers_app. simpl. rewrite app_nil_r. reflexivity. Qed.

Lemma unvalidated_snoc_state : forall ss x c, unvalidated (all_recs (ss ++ [mkSeg x [RState c]])) = unvalidated (all_recs ss).
Proof. intros. rewrite all_recs_snoc, unvalidated_app. simpl. rewrite app_nil_r. reflexivity. Qed.

Lemma lc_snoc_state : forall ss x c, last_commit (all_recs (ss ++ [mkSeg x [RState c]])) = c.
Proof. intros. rewrite all_recs_snoc. simpl. apply last_commit_snoc_state. Qed.

Lemma nth_sfirst_snoc : forall ss x n, (n < length ss)%nat ->
  sfirst (nth n (ss ++ [x]) (mkSeg 0 [])) = sfirst (nth n ss (mkSeg 0 [])).
Proof. intros. rewrite app_nth1 by exact H. reflexivity. Qed.

(* the new segment of a cut inside the Save of an incoming snapshot's hard state *)
Lemma cut_after_snap : forall c s r idx hi,
  PInv s hi -> VInv c s hi -> rc s = RcRunning -> rdp s = RdSnapCut r 0 idx ->
  Inv c (set_rdp (set_unsynced (set_unflushed (set_segs s (segs s ++ [mkSeg idx (if wstate s then [RState (wcommit s)] else [])])) 0)
                    (if opt_fsync c then (unsynced s + (if wstate s then 1 else 0))%nat else 0%nat)) (RdSnapCut r 1 idx)).
Proof.
  intros c s r idx hi HP HV R E.
  pose proof (pinv_segs_nonempty _ _ HP) as Hne.
  pose proof (v_rd _ _ _ HV) as V. unfold rd_inv in V. rewrite E in V.
  destruct V as [V0 [V1 [V2 [V3 [V4 [V5 [V6 [V7 [V8 V9]]]]]]]]].
  pose proof (v_wstate _ _ _ HV) as [W1 W2]. rewrite V7 in *. specialize (W1 eq_refl). subst idx.
  exists hi. split.
  - eapply (pinv_cut s _ hi (wcommit s)); eauto; try reflexivity.
  - unfold running. proj. rewrite R.
    assert (Hpe : forall t x, rdp t = RdSnapCut r x (hi + 1) -> pend_idx t = r_snap r) by (intros t x Ht; unfold pend_idx, pend_r; rewrite Ht; reflexivity).
    assert (Hwe : forall t x, rdp t = RdSnapCut r x (hi + 1) -> in_window t = 0%nat) by (intros t x Ht; unfold in_window; rewrite Ht; reflexivity).
    assert (Hp : pend_idx s = r_snap r) by (apply (Hpe s 0%nat); exact E).
    assert (Hw : in_window s = 0%nat) by (apply (Hwe s 0%nat); exact E).
    destruct HV; constructor; unfold snap_pend, snap_done, snap_mid, snap_busy in *; proj;
      rewrite ?(Hpe _ 1%nat), ?(Hwe _ 1%nat) by reflexivity; rewrite ?Hp, ?Hw in *;
      rewrite ?newest_snoc_state, ?markers_snoc_state, ?unvalidated_snoc_state, ?lc_snoc_state, ?app_length; try assumption; try exact I.
    + unfold rd_inv. proj. rewrite newest_snoc_state. repeat split; auto.
    + destruct v_nrel as [N1 N2]. split; [simpl; lia|]. rewrite nth_sfirst_snoc by exact N1. exact N2.
    + split; [intros; reflexivity | lia].
    + rewrite <- W1 in v_done. exact v_done.
Qed.

Lemma step_cut_after : forall c s s' idx, Inv c s -> step c s (EvCutAfter idx) = Ok s' -> Inv c s'.
Proof.
  intros c s s' idx HI H. start_step H hi HP HV. all: norm_guards.
  2: { unfold running in *. proj. destruct (rc s) eqn:R; try (not_running HV).
       match goal with G : (idx =? _) = true |- _ => apply N.eqb_eq in G; subst end. eapply cut_after_snap; eauto. }
  match goal with G : (idx =? _) = true |- _ => rename G into G1 end.
  unfold running in *. proj. destruct (rc s) eqn:R; try (not_running HV).
  pose proof (pinv_segs_nonempty _ _ HP) as Hne.
  pose proof HV as HV0. destruct HV0 as [v_rd _ _ _ v_ws _ _ _ _ _ _ _ _ _ _ _ _].
  unfold rd_inv in v_rd. rewrite E in v_rd. destruct (0 <? r_snap r) eqn:Qs; [contradiction|].
  destruct v_rd as [F [[Shi Sc] [Hidx [Huf [Hws Pp]]]]].
  assert (Hp0 : pend_idx s = 0) by (unfold pend_idx, pend_r, pending; rewrite E, Qs; reflexivity).
  rewrite Hws in *. destruct v_ws as [W1 W2]. specialize (W1 eq_refl).
  assert (Ei : idx = hi + 1) by lia. subst idx.
  exists hi. split.
  - eapply (pinv_cut s _ hi (wcommit s)); eauto; try reflexivity.
  - unfold running. proj. rewrite R.
    vinv_split HV; unfold snap_pend, snap_done, snap_mid in *; proj; pend_goal0 Qs; rewrite ?Hp0 in *;
      rewrite ?newest_snoc_state, ?markers_snoc_state, ?unvalidated_snoc_state, ?lc_snoc_state, ?app_length; try assumption.
    + unfold rd_inv. proj. rewrite Qs. rewrite lc_snoc_state. unfold rlast in *. proj.
      split; [exact F|]. split; [split; [exact Shi | intros; rewrite W1; auto]|]. split; [exact Hws|].
      unfold pubcl in *. proj. rewrite W1. exact Pp.
    + destruct v_nrel as [N1 N2]. split; [simpl; lia|]. rewrite nth_sfirst_snoc by exact N1. exact N2.
    + destruct v_latest as [[A|[A _]] B]; [split; [left; exact A | exact B]|].
      exfalso. unfold in_window in A. rewrite E, Qs in A. discriminate.
    + split; [intros; reflexivity | lia].
    + rewrite <- W1 in v_done. exact v_done.
    + files_local.
Qed.

(* a flush: the buffered records reach the file *)
Lemma pinv_flush : forall s s' hi,
  PInv s hi -> segs s' = segs s -> unflushed s' = 0%nat ->
  snapfiles s' = snapfiles s -> ckpts s' = ckpts s -> acked s' = acked s -> proposed s' = proposed s ->
  PInv s' hi.
Proof.
  intros s s' hi P Es Eu Esf Eck Eac Epr.
  destruct P as [C Ha Hp Ht Hh Hcm Hni Hf Hfile Hz Hnd Hfl Hck Hjm].
  destruct Ht as [pre [sl [body [tl [Ess [Esl [Etl [Hst Hhead]]]]]]]].
  constructor; rewrite ?Es, ?Esf, ?Eck, ?Eac, ?Epr, ?Eu; auto.
  - exists pre, sl, (body ++ tl), []. rewrite app_nil_r. repeat split; auto.
    intros Hp'. destruct (Hhead Hp') as [c0 [b' Eb]]. rewrite Eb. simpl. eauto.
  - intros j Hj. assert (j = 0%nat) by lia. subst j. apply Hcm. lia.
  - intros f Hfin. destruct (Hfl f Hfin) as [A|A]; [left; exact A | right].
    intros j Hj. rewrite Eu in Hj. assert (j = 0%nat) by lia. subst j. rewrite Es. apply A. lia.
Qed.

(* the state x differs from s in the WAL, the WAL state, the raft loop's pc (and in unflushed / unsynced) *)
Definition save_frame (s x : state) (r : ready) (ss : list seg) (ws : bool) (wc hc : N) (pc : rd_pc) : Prop :=
  segs x = ss /\ rc x = rc s /\ wstate x = ws /\ wcommit x = wc /\ hcommit x = hc /\
  latest x = latest s /\ rs_last x = rs_last s /\ published x = published s /\ rd_done x = rd_done s /\ queue x = queue s /\
  app x = app s /\ applied x = applied s /\ snapi x = snapi s /\ sns x = sns s /\ ckp x = ckp s /\ pg_snap x = pg_snap s /\
  nrel x = nrel s /\ snapfiles x = snapfiles s /\ ckpts x = ckpts s /\ engine x = engine s /\ proposed x = proposed s /\
  pg_wal x = pg_wal s /\ cache x = cache s /\ restoring x = restoring s /\ rdp x = pc.

Ltac frame_eqs X :=
  destruct X as [X1 [X2 [X3 [X4 [X5 [X6 [X7 [X8 [X9 [X10 [X11 [X12 [X13 [X14 [X15 [X16 [X17 [X18 [X19 [X20 [X21 [X23 [X24 [X25 X22]]]]]]]]]]]]]]]]]]]]]]]].


(* the end of a Save that cut the segment behind an incoming snapshot's record: the new segment is flushed when the Save has to *)
Lemma save_after_snapcut : forall c s r idx hi (fl sy : bool),
  PInv s hi -> VInv c s hi -> rc s = RcRunning -> rdp s = RdSnapCut r 1 idx ->
  Inv c (set_rdp (if fl && sy then set_unsynced (if fl then set_unflushed s 0 else s) 0 else (if fl then set_unflushed s 0 else s)) (RdSnapCut r 2 idx)).
Proof.
  intros c s r idx hi fl sy HP HV R E.
  exists hi. split.
  - destruct fl; [destruct sy|]; simpl; [apply (pinv_flush s); auto | apply (pinv_flush s); auto | pframe s].
  - unfold running.
    assert (Hpe : forall t x, rdp t = RdSnapCut r x idx -> pend_idx t = r_snap r) by (intros t x Ht; unfold pend_idx, pend_r; rewrite Ht; reflexivity).
    assert (Hwe : forall t x, rdp t = RdSnapCut r x idx -> in_window t = 0%nat) by (intros t x Ht; unfold in_window; rewrite Ht; reflexivity).
    assert (Hp : pend_idx s = r_snap r) by (apply (Hpe s 1%nat); exact E).
    assert (Hw : in_window s = 0%nat) by (apply (Hwe s 1%nat); exact E).
    pose proof (v_rd _ _ _ HV) as V. unfold rd_inv in V. rewrite E in V.
    destruct fl; [destruct sy|]; simpl; proj; rewrite R;
      (destruct HV; constructor; unfold snap_pend, snap_done, snap_mid, snap_busy in *; proj;
       rewrite ?(Hpe _ 2%nat), ?(Hwe _ 2%nat) by reflexivity; rewrite ?Hp, ?Hw in *; try assumption; try exact I).
    all: unfold rd_inv; proj; exact V.
Qed.

Lemma step_rd_save_after : forall c s s', Inv c s -> step c s EvRdSaveAfter = Ok s' -> Inv c s'.
Proof.
  intros c s s' HI H. start_step H hi HP HV.
  2: { unfold running in *. proj. destruct (rc s) eqn:R; try (not_running HV). eapply save_after_snapcut; eauto. }
  unfold running in *. proj. destruct (rc s) eqn:R; try (not_running HV).
  pose proof (pinv_segs_nonempty _ _ HP) as Hne.
  pose proof (v_rd _ _ _ HV) as v_rd. pose proof (v_wstate _ _ _ HV) as v_ws.
  unfold rd_inv in v_rd. rewrite E in v_rd.
  pose proof (vinv_app_inv _ _ _ HV) as Hai. pose proof (vinv_queue_inv _ _ _ HV) as Hqi.
  destruct (0 <? r_snap r) eqn:Qs.
  { (* the hard state of a Ready with an incoming snapshot: the snapshot's record becomes valid once it is in the file *)
    destruct apd; [contradiction|]. destruct v_rd as [Hpb [SF [Lc [Pb W]]]]. subst pb.
    destruct SF as [Sn [Scn [Shs [Scm [Shi [Slt Spr]]]]]].
    assert (Hrr : ready_records r = [RState (r_snap r)]).
    { rewrite ready_records_eq. assert (Q : (0 <? r_n r) = false) by lia. rewrite Q, Shs, Scm. reflexivity. }
    set (ms := (0 <? r_n r) || r_hs r && r_tv r).
    assert (Hp0 : pend_idx s = r_snap r) by (unfold pend_idx, pend_r, pending; rewrite E, Qs; reflexivity).
    assert (Hlc' : last_commit (all_recs (app_tail (segs s) (ready_records r))) = r_snap r).
    { rewrite save_lc by auto. rewrite Shs. exact Scm. }
    assert (G : forall x : state,
               save_frame s x r (app_tail (segs s) (ready_records r)) (wstate s || r_hs r)
                          (if r_hs r then r_commit r else wcommit s) (if r_hs r then r_commit r else hcommit s) (RdBegun r true true) ->
               unflushed x = (if ms then 0 else unflushed s + length (ready_records r))%nat -> acked x = acked s ->
               PInv x hi /\ (if running x then VInv c x hi else RInv x)).
    { intros x X Xu Xa. frame_eqs X. split.
      - apply (pinv_save s x hi hi [] true (r_snap r) ms); auto.
        + rewrite X1, Hrr. reflexivity.
        + rewrite Xu, Hrr. reflexivity.
        + rewrite range_nil by lia. reflexivity.
        + lia.
        + destruct HP; lia.
        + intros _. specialize (Lc 0%nat ltac:(lia)). rewrite drop_tail_0 in Lc. lia.
      - unfold running. rewrite X2, R.
        assert (Hpx : pend_idx x = r_snap r) by (unfold pend_idx, pend_r, pending; rewrite X22, Qs; reflexivity).
        destruct HV. constructor; unfold snap_pend, snap_done, snap_mid, snap_busy in *; rewrite ?Hpx; rewrite ?Hp0 in *; rewrite ?X1, ?X3, ?X4, ?X5, ?X6, ?X7, ?X8, ?X9, ?X10, ?X11, ?X12, ?X13, ?X14, ?X15, ?X16, ?X17, ?X18, ?X19, ?X20, ?X21, ?X23, ?X24, ?X25;
          rewrite ?save_newest, ?save_markers, ?save_unvalidated, ?app_tail_length, ?nth_sfirst_app_tail by auto; auto.
        + (* raft loop *)
          unfold rd_inv. rewrite X22, Qs. split; [reflexivity|].
          split; [unfold snapfacts; rewrite X7, X21; repeat split; auto|]. split; [rewrite X8; exact Pb|].
          destruct W as [W1 [W2 [W4 W5]]].
          split; [unfold window, ckpt_ok; rewrite X19, X18, X11; repeat split; auto; eapply (snap_tail_app s x); eauto; rewrite Hrr; reflexivity|].
          split; [rewrite X1; exact Hlc'|].
          intros j Hj. rewrite X1, Hrr.
          destruct (exists_last_seg (segs s) Hne) as [pre [sl Es]]. rewrite Es.
          assert (Hj1 : (length [RState (r_snap r)] <= j)%nat) by (cbn [length]; lia).
          rewrite drop_tail_app_tail_ge by exact Hj1. rewrite <- Es. apply Lc. rewrite Xu, Hrr in Hj. cbn [length] in *. destruct ms; lia.
        + destruct v_latest as [[A|[A A']] B]; (split; [|exact B]); [left; exact A | right].
          split; [unfold in_window; rewrite X22, Qs; reflexivity | exact A'].
        + (* wstate *)
          destruct v_wstate as [A B]. rewrite Hlc', Shs, Scm. split; [intros; reflexivity | lia]. 
        + (* done *)
          destruct v_done as [D1 [D2 D3]]. rewrite Hlc'. repeat split; lia.
        + intros f Hf Hn. destruct (v_files f Hf Hn) as [A|[A A']]; [left; exact A | right].
          split; [exact A | unfold in_window; rewrite X22, Qs; reflexivity]. }
    fold ms. destruct ms; [destruct (negb (opt_fsync c) || r_hs r && r_tv r)|]; simpl;
      match goal with |- Inv c ?st => destruct (G st) as [G1 G2]; [unfold save_frame; proj; repeat split; reflexivity | proj; reflexivity | reflexivity | exists hi; split; assumption] end. }
  assert (Hp0 : pend_idx s = 0) by (unfold pend_idx, pend_r, pending; rewrite E, Qs; reflexivity).
  destruct apd.
  - (* the records were encoded before the cut: only the flush remains *)
    destruct v_rd as [F [[Shi Sc] [Hws Pp]]].
    exists hi. split.
    + destruct ((0 <? r_n r) || r_hs r && r_tv r) eqn:MS.
      * destruct (negb (opt_fsync c) || r_hs r && r_tv r); simpl; apply (pinv_flush s); auto.
      * simpl. pframe s.
    + assert (G : forall x : state,
                 save_frame s x r (segs s) (wstate s) (wcommit s) (hcommit s) (RdBegun r true pb) ->
                 (if running x then VInv c x hi else RInv x)).
      { intros x X. frame_eqs X. unfold running. rewrite X2, R.
        assert (Hpx : pend_idx x = 0) by (unfold pend_idx, pend_r, pending; rewrite X22, Qs; reflexivity).
        destruct HV. constructor; unfold snap_pend, snap_done, snap_mid, snap_busy in *; rewrite ?Hpx; rewrite ?Hp0 in *; rewrite ?X1, ?X3, ?X4, ?X5, ?X6, ?X7, ?X8, ?X9, ?X10, ?X11, ?X12, ?X13, ?X14, ?X15, ?X16, ?X17, ?X18, ?X19, ?X20, ?X21, ?X23, ?X24, ?X25; auto.
        unfold rd_inv. rewrite X22, Qs, X1, X8. unfold rlast in *. rewrite X7, X21. unfold pubcl in *. rewrite X8.
        2:{ destruct v_latest as [[A|[A _]] B]; [split; [left; exact A | exact B]|].
            exfalso. unfold in_window in A. rewrite E, Qs in A. discriminate. }
        2:{ files_local. }
        split; [exact F|]. split; [split; assumption|]. split.
        - destruct pb; [|tauto]. destruct (0 <? r_cn r) eqn:Qc; [rewrite Pp; apply Sc; lia | exact Pp].
        - exact Pp. }
      destruct ((0 <? r_n r) || r_hs r && r_tv r); destruct (negb (opt_fsync c) || r_hs r && r_tv r); simpl; apply G;
        unfold save_frame; proj; repeat split; reflexivity.
  - (* plain save *)
    destruct v_rd as [[F1 F2] [[Uhi [Uw [Uh Uc]]] [Pp Pov]]].
    destruct (save_entries_range s r hi Uhi F1) as [Erange Lrange].
    assert (Hlc' : last_commit (all_recs (app_tail (segs s) (ready_records r))) = if r_hs r then r_commit r else last_commit (all_recs (segs s))) by (apply save_lc; auto).
    assert (Hlcge : last_commit (all_recs (segs s)) <= last_commit (all_recs (app_tail (segs s) (ready_records r)))).
    { rewrite Hlc'. destruct (r_hs r) eqn:Qh; [apply Uh; reflexivity | lia]. }
    set (ms := (0 <? r_n r) || r_hs r && r_tv r).
    assert (HPs : forall x : state, segs x = app_tail (segs s) (ready_records r) ->
               unflushed x = (if ms then 0 else unflushed s + length (ready_records r))%nat ->
               snapfiles x = snapfiles s -> ckpts x = ckpts s -> acked x = acked s -> proposed x = proposed s -> PInv x (rlast s r)).
    { intros x X1 X2 X3 X4 X5 X6.
      apply (pinv_save s x hi (rlast s r) (if 0 <? r_n r then range (r_first r - 1) (r_last r) else []) (r_hs r) (r_commit r) ms); auto.
      - intros Hms. subst ms. apply orb_false_iff in Hms. destruct Hms as [Hn _]. rewrite Hn. reflexivity.
      - unfold rlast. destruct (0 <? r_n r) eqn:Q; [apply F1; lia | destruct HP; lia].
      - intros Hh. apply Uh. exact Hh. }
    exists (rlast s r). split.
    + fold ms. destruct ms eqn:MS; [destruct (negb (opt_fsync c) || r_hs r && r_tv r)|]; simpl; apply HPs; proj; try reflexivity; rewrite ?MS; reflexivity.
    + assert (G : forall x : state,
                 save_frame s x r (app_tail (segs s) (ready_records r)) (wstate s || r_hs r)
                            (if r_hs r then r_commit r else wcommit s) (if r_hs r then r_commit r else hcommit s) (RdBegun r true pb) ->
                 (if running x then VInv c x (rlast s r) else RInv x)).
      { intros x X. frame_eqs X. unfold running. rewrite X2, R.
        assert (Hpx : pend_idx x = 0) by (unfold pend_idx, pend_r, pending; rewrite X22, Qs; reflexivity).
        assert (Hai' : app_inv x (rlast s r)).
        { apply (app_inv_grow s x hi (rlast s r)); auto. rewrite X1. apply save_newest; auto. }
        assert (Hqi' : queue_inv x (rlast s r)) by (apply (queue_inv_grow s x hi (rlast s r)); auto).
        destruct HV. constructor; try exact Hai'; try exact Hqi'; unfold snap_pend, snap_done, snap_mid, snap_busy in *; rewrite ?Hpx; rewrite ?Hp0 in *; rewrite ?X1, ?X3, ?X4, ?X5, ?X6, ?X7, ?X8, ?X9, ?X10, ?X11, ?X12, ?X13, ?X14, ?X15, ?X16, ?X17, ?X18, ?X19, ?X20, ?X21, ?X23, ?X24, ?X25;
          rewrite ?save_newest, ?save_markers, ?save_unvalidated, ?app_tail_length, ?nth_sfirst_app_tail by auto; auto;
          try (unfold rd_inv; rewrite X22, Qs, X1, X8; unfold rlast in *; rewrite X7, X21; rewrite Hlc'; unfold pubcl in *; rewrite X8);
          clear X1 X2 X3 X4 X5 X6 X7 X8 X9 X10 X11 X12 X13 X14 X15 X16 X17 X18 X19 X20 X21 X22 X23 X24 X25.
        - split; [split; assumption|]. split; [split|].
          + reflexivity.
          + intros Hcn. specialize (Uc Hcn). destruct (r_hs r); [exact Uc|]. destruct v_ws. lia.
          + assert (Hcl : 0 < r_cn r -> r_clast r <= (if r_hs r then r_commit r else last_commit (all_recs (segs s)))).
            { intros Hcn. specialize (Uc Hcn). destruct (r_hs r); [exact Uc|]. destruct v_ws. lia. }
            assert (Hlcm : last_commit (all_recs (segs s)) <= (if r_hs r then r_commit r else last_commit (all_recs (segs s)))).
            { destruct (r_hs r) eqn:Qh; [destruct (Uh eq_refl); lia | lia]. }
            split.
            * destruct pb.
              -- destruct (0 <? r_cn r) eqn:Qc; [rewrite Pp; apply Hcl; lia | lia].
              -- destruct Pp as [Pp1 Pp2]. lia.
            * destruct pb.
              -- destruct (0 <? r_cn r) eqn:Qc; [exact Pp | lia].
              -- destruct Pp as [Pp1 Pp2]. split; [lia | exact Pp2].
        - lia.
        - destruct v_latest as [[A|[A _]] B]; [split; [left; exact A | exact B]|].
          exfalso. unfold in_window in A. rewrite E, Qs in A. discriminate.
        - destruct v_wstate as [W1 W2]. rewrite Hlc'. split.
          + intros Hw. destruct (r_hs r) eqn:Qh; [reflexivity|]. rewrite orb_false_r in Hw. auto.
          + destruct (r_hs r); lia.
        - destruct v_done as [D1 [D2 D3]]. repeat split; lia.
        - files_local.
        - apply (ck_inv_grow s hi (rlast s r)); assumption. }
      fold ms. destruct ms; [destruct (negb (opt_fsync c) || r_hs r && r_tv r)|]; simpl; apply G; unfold save_frame; proj; repeat split; reflexivity.
Qed.

Lemma overlap_false_clast : forall s r, overlap r = false -> 0 < r_cn r ->
  (0 < r_n r -> r_first r = rs_last s + 1) -> r_clast r <= rlast s r -> r_clast r <= rs_last s.
Proof.
  intros s r Ho Hc Hf Hl. unfold overlap in Ho. unfold rlast in Hl.
  destruct (0 <? r_cn r) eqn:Q1; [|lia]. destruct (0 <? r_n r) eqn:Q2; simpl in Ho; [|lia].
  specialize (Hf ltac:(lia)). lia.
Qed.

Lemma step_rd_publish : forall c s s' n lastp sn, fixed c -> Inv c s -> step c s (EvRdPublish n lastp sn) = Ok s' -> Inv c s'.
Proof.
  intros c s s' n lastp sn [Hfx _] HI H. start_step H hi HP HV. norm_guards.
  match goal with G : persist_first c && overlap r && negb sv = false |- _ => rewrite Hfx in G; simpl in G; rename G into Gov end.
  exists hi. split; [pframe s|].
  unfold running in *. proj. destruct (rc s) eqn:R; try (not_running HV).
  pose proof (v_rd _ _ _ HV) as v_rd.
  unfold rd_inv in v_rd. rewrite E in v_rd.
  pose proof (vinv_app_inv _ _ _ HV) as Hai. pose proof (vinv_queue_inv _ _ _ HV) as Hqi.
  match goal with |- VInv c ?st _ => set (s1 := st) end.
  destruct (0 <? r_snap r) eqn:Qs.
  - (* the incoming snapshot goes to the apply loop *)
    destruct sv; [destruct v_rd as [X _]; discriminate|]. destruct v_rd as [SF [Lc [Fs [Pl Plt]]]].
    assert (Hp0 : pend_idx s = r_snap r) by (unfold pend_idx, pend_r, pending; rewrite E, Qs; reflexivity).
    assert (Hp1 : pend_idx s1 = r_snap r) by (unfold pend_idx, pend_r, pending, s1; proj; rewrite Qs; reflexivity).
    assert (Hpub1 : published s1 = r_snap r) by (unfold s1; proj; rewrite ?Qs; reflexivity).
    assert (Hai' : app_inv s1 hi).
    { apply (app_inv_pub s s1 hi); auto; try (unfold s1; proj; reflexivity); try lia. }
    assert (Hqi' : queue_inv (set_queue s1 (queue s)) hi).
    { apply (queue_inv_pub s (set_queue s1 (queue s)) hi); auto; try (unfold s1; proj; reflexivity); try lia.
      all: try (unfold pend_idx, pend_r, pending, s1; proj; rewrite ?E, ?Qs; reflexivity).
      all: try (unfold s1; proj; rewrite ?Qs; lia). }
    destruct SF as [Sn [Scn [Shs [Scm [Shi [Slt Spr]]]]]].
    assert (Hp1q : pend_idx (set_queue s1 (queue s)) = r_snap r) by (unfold pend_idx, pend_r, pending, s1; proj; rewrite ?Qs; reflexivity).
    unfold app_inv, queue_inv, snap_pend, snap_done, snap_mid in Hai', Hqi'. rewrite Hp1 in Hai'. rewrite Hp1q in Hqi'. unfold s1 in *. clear s1. proj. rewrite ?Qs in *.
    vinv_split HV; unfold snap_pend, snap_done, snap_mid in *; proj; rewrite ?Qs;
      repeat match goal with |- context [pend_idx ?t] => tryif is_var t then fail else replace (pend_idx t) with (r_snap r) by (unfold pend_idx, pend_r, pending; proj; rewrite ?Qs; reflexivity) end;
      rewrite ?Hp0 in *; try assumption.
    + unfold rd_inv. proj. rewrite Qs. unfold snapfacts in *. proj. repeat split; auto.
    + lia.
    + destruct v_latest as [[A|[A _]] B]; [split; [left; exact A | exact B]|].
      exfalso. unfold in_window in A. rewrite E in A. discriminate.
    + destruct v_done as [D1 [D2 D3]]. repeat split; lia.
    + apply Forall_app. split; [exact Hqi'|]. constructor; [|constructor]. simpl. split; [left; lia|]. intros _. repeat split; auto; lia.
    + pose proof v_applied. lia.
    + intros f Hf Hn. destruct (v_files f Hf Hn) as [A|[_ A]]; [left; exact A|].
      exfalso. unfold in_window in A. rewrite E in A. discriminate.
  - (* committed entries *)
    assert (Hp0 : pend_idx s = 0) by (unfold pend_idx, pend_r, pending; rewrite E, Qs; reflexivity).
    assert (Hp1 : pend_idx s1 = 0) by (unfold pend_idx, pend_r, pending, s1; proj; rewrite Qs; reflexivity).
    assert (Hpubge : published s <= (if 0 <? r_cn r then r_clast r else published s)
                     /\ (if 0 <? r_cn r then r_clast r else published s) <= hi
                     /\ (sv = true -> (if 0 <? r_cn r then r_clast r else published s) <= last_commit (all_recs (segs s)))).
    { destruct HV. rewrite Hp0 in *. destruct sv.
      - destruct v_rd as [[F1 F2] [[Shi Sc] [Pl Pp]]]. unfold pubcl in Pp. destruct Pp as [Pp1 Pp2].
        destruct (0 <? r_cn r) eqn:Qc; [|repeat split; auto; lia].
        specialize (F2 ltac:(lia)). specialize (Sc ltac:(lia)). specialize (Pp2 ltac:(lia)). repeat split; auto; lia.
      - destruct v_rd as [[F1 F2] [[Uhi [Uw [Uh Uc]]] [Pp Pov]]]. unfold pubcl in Pp. destruct Pp as [Pp1 Pp2].
        destruct (0 <? r_cn r) eqn:Qc; [|split; [lia|]; split; [lia|]; intros; discriminate].
        assert (Ho : overlap r = false) by (destruct (overlap r); simpl in Gov; [discriminate | reflexivity]).
        pose proof (overlap_false_clast s r Ho ltac:(lia) (fun h => proj1 (F1 h)) (F2 ltac:(lia))).
        specialize (Pp2 ltac:(lia)). split; [lia|]. split; [lia|]. intros; discriminate. }
    destruct Hpubge as [G1 [G2 G3]].
    assert (Hai' : app_inv s1 hi).
    { apply (app_inv_pub s s1 hi); auto; try (unfold s1; proj; reflexivity); try lia; try (unfold s1; proj; rewrite ?Qs; exact G1). }
    assert (Hqi' : queue_inv (set_queue s1 (queue s)) hi).
    { apply (queue_inv_pub s (set_queue s1 (queue s)) hi); auto; try (unfold s1; proj; reflexivity); try lia.
      all: try (unfold pend_idx, pend_r, pending, s1; proj; rewrite ?E, ?Qs; reflexivity).
      all: try (unfold s1; proj; rewrite ?Qs; first [exact G1 | lia]). }
    assert (Hp1q : pend_idx (set_queue s1 (queue s)) = 0) by (unfold pend_idx, pend_r, pending, s1; proj; rewrite ?Qs; reflexivity).
    unfold app_inv, queue_inv, snap_pend, snap_done, snap_mid in Hai', Hqi'. rewrite Hp1 in Hai'. rewrite Hp1q in Hqi'. unfold s1 in *. clear s1. proj. rewrite ?Qs in *.
    vinv_split HV; unfold snap_pend, snap_done, snap_mid in *; proj; rewrite ?Qs; pend_goal0 Qs; rewrite ?Hp0 in *; try assumption.
    + unfold rd_inv, pubcl in *. proj. rewrite Qs. unfold rlast in *. proj. destruct sv.
      * destruct v_rd as [Fx [Sx [Pl Pp]]]. split; [exact Fx|]. split; [exact Sx|]. split; [apply G3; reflexivity|].
        destruct (0 <? r_cn r); [reflexivity | apply G3; reflexivity].
      * destruct v_rd as [Fx [Ux [Pp Pov]]]. split; [exact Fx|]. split; [exact Ux|]. split.
        -- destruct (0 <? r_cn r); [reflexivity | tauto].
        -- intros _. destruct (overlap r); simpl in Gov; [discriminate | reflexivity].
    + lia.
    + destruct v_latest as [[A|[A _]] B]; [split; [left; exact A | exact B]|].
      exfalso. unfold in_window in A. rewrite E in A. rewrite ?Qs in A. destruct sv; discriminate.
    + destruct v_done as [D1 [D2 D3]]. repeat split; lia.
    + apply Forall_app. split; [exact Hqi'|]. constructor; [|constructor]. simpl.
      assert (Hs0 : r_snap r = 0) by (apply N.ltb_ge in Qs; lia). rewrite Hs0.
      split; [destruct (0 <? r_cn r) eqn:Qc; [right; lia | left; lia] | intros; lia].
    + lia.
    + files_local.
Qed.

Lemma step_rd_append_after : forall c s s', Inv c s -> step c s EvRdAppendAfter = Ok s' -> Inv c s'.
Proof.
  intros c s s' HI H. start_step H hi HP HV; norm_guards.
  - exists hi. split; [pframe s|].
    unfold running in *. proj. destruct (rc s) eqn:R; try (not_running HV).
    match goal with G : (0 <? r_snap r) = false |- _ => rename G into Qs end.
    pose proof (v_rd _ _ _ HV) as v_rd.
    unfold rd_inv in v_rd. rewrite E, Qs in v_rd. destruct v_rd as [[F1 F2] [[Shi Sc] [Pl Pp]]].
    destruct (v_done _ _ _ HV) as [D1 [D2 D3]].
    assert (Hp0 : pend_idx s = 0) by (unfold pend_idx, pend_r, pending; rewrite E, Qs; reflexivity).
    pose proof (vinv_app_inv _ _ _ HV) as Hai. pose proof (vinv_queue_inv _ _ _ HV) as Hqi.
    match goal with |- VInv c ?st _ => set (s1 := st) end.
    assert (Hp1 : pend_idx s1 = 0) by (unfold pend_idx, pend_r, pending, s1; proj; reflexivity).
    assert (Hai' : app_inv s1 hi) by (apply (app_inv_done s s1 hi); auto; try (left; congruence); unfold s1; proj; lia).
    assert (Hqi' : queue_inv s1 hi) by (apply (queue_inv_same s s1 hi); auto; left; congruence).
    unfold app_inv, queue_inv, snap_pend, snap_done, snap_mid in Hai', Hqi'. rewrite Hp1 in Hai', Hqi'. unfold s1 in *. clear s1. proj.
    vinv_split HV; unfold snap_pend, snap_done, snap_mid in *; proj; pend_goal0 Qs; rewrite ?Hp0 in *; try assumption.
    + unfold rd_inv. proj. unfold rlast in Shi. split; [exact Shi | exact Pl].
    + destruct v_latest as [[A|[A _]] B]; [split; [left; exact A | exact B]|].
      exfalso. unfold in_window in A. rewrite E, Qs in A. discriminate.
    + pose proof v_pub. repeat split; lia.
    + intros i p Hl. destruct (v_sns i p Hl) as [S1 [S2 S3]]. split; [exact S1|]. split; [lia | exact S3].
    + files_local.
  - (* the end of a Ready with an incoming snapshot: the log now ends at the snapshot *)
    exists hi. split; [pframe s|].
    unfold running in *. proj. destruct (rc s) eqn:R; try (not_running HV).
    pose proof (v_rd _ _ _ HV) as v_rd.
    unfold rd_inv in v_rd. rewrite E in v_rd. destruct v_rd as [Hs [Hhi [Hpub [Hrl Hnw]]]].
    destruct (v_done _ _ _ HV) as [D1 [D2 D3]].
    pose proof (pinv_lc0 _ _ HP) as Hlc.
    assert (Hp0 : pend_idx s = 0) by (unfold pend_idx, pend_r, pending; rewrite E; reflexivity).
    pose proof (vinv_app_inv _ _ _ HV) as Hai. pose proof (vinv_queue_inv _ _ _ HV) as Hqi.
    match goal with |- VInv c ?st _ => set (s1 := st) end.
    assert (Hp1 : pend_idx s1 = 0) by (unfold pend_idx, pend_r, pending, s1; proj; reflexivity).
    assert (Hai' : app_inv s1 hi) by (apply (app_inv_done s s1 hi); auto; try (left; congruence); unfold s1; proj; lia).
    assert (Hqi' : queue_inv s1 hi) by (apply (queue_inv_same s s1 hi); auto; left; congruence).
    unfold app_inv, queue_inv, snap_pend, snap_done, snap_mid in Hai', Hqi'. rewrite Hp1 in Hai', Hqi'. unfold s1 in *. clear s1. proj.
    vinv_split HV; unfold snap_pend, snap_done, snap_mid in *; proj; pend_goal0 E; rewrite ?Hp0 in *; try assumption.
    + unfold rd_inv. proj. split; [exact Hhi | lia].
    + destruct v_latest as [[A|[A _]] B]; [split; [left; exact A | exact B]|].
      exfalso. unfold in_window in A. rewrite E in A. discriminate.
    + repeat split; lia.
    + intros i p Hl. destruct (v_sns i p Hl) as [S1 [S2 S3]]. split; [exact S1|]. split; [lia | exact S3].
    + files_local.
Qed.

(* ---------- the apply loop ---------- *)

Lemma step_ap_before : forall c s s' a n sn, Inv c s -> step c s (EvApBefore a n sn) = Ok s' -> Inv c s'.
Proof.
  intros c s s' a n sn HI H. start_step H hi HP HV; norm_guards.
  - (* the incoming snapshot is taken from the queue: applySnapshot begins with PrepareSnapshot *)
    exists hi. split; [pframe s|].
    unfold running in *. proj. destruct (rc s) eqn:R; try discriminate.
    destruct (v_done _ _ _ HV) as [D1 [D2 D3]].
    assert (Hq : (b_n b = 0 \/ b_last b <= published s /\ b_last b <= hi) /\ (0 < b_snap b -> b_n b = 0 /\ snap_pend s hi (b_snap b))).
    { pose proof (v_queue _ _ _ HV) as Q. rewrite E0 in Q. inversion Q; assumption. }
    destruct Hq as [_ Hq]. match goal with G : (0 <? b_snap b) = true |- _ => apply N.ltb_lt in G; specialize (Hq G) end.
    destruct Hq as [_ Hsp].
    vinv_split HV; unfold snap_pend, snap_done, snap_mid in *; proj;
      repeat match goal with |- context [pend_idx ?t] => tryif is_var t then fail else replace (pend_idx t) with (pend_idx s) by (unfold pend_idx, pend_r, pending; proj; reflexivity) end;
      try assumption.
    + rewrite E0 in v_queue. inversion v_queue; assumption.
    + rewrite E in v_app. destruct Hsp as [X1 [X2 X3]]. repeat split; auto; lia.
  - exists hi. split; [pframe s|].
    unfold running in *. proj. destruct (rc s) eqn:R; try discriminate.
    vinv_split HV; unfold snap_pend, snap_done, snap_mid in *; proj;
      repeat match goal with |- context [pend_idx ?t] => tryif is_var t then fail else replace (pend_idx t) with (pend_idx s) by (unfold pend_idx, pend_r, pending; proj; reflexivity) end;
      try assumption.
    + rewrite E0 in v_queue. inversion v_queue; assumption.
    + rewrite E in v_app. rewrite E0 in v_queue. inversion v_queue as [|x y [X1 X2] Y]; subst. split; assumption.
Qed.

Lemma step_ap_after : forall c s s' a, Inv c s -> step c s (EvApAfter a) = Ok s' -> Inv c s'.
Proof.
  intros c s s' a HI H. start_step H hi HP HV; norm_guards.
  - (* empty batch *)
    exists hi. split; [pframe s|].
    unfold running in *. proj. destruct (rc s) eqn:R; try (not_running HV).
    vinv_split HV. rewrite E in v_app. destruct v_app as [A1 A2]. split; [intros; exact A1 | lia].
  - unfold running in *. proj. destruct (rc s) eqn:R; try (not_running HV).
    pose proof (v_app _ _ _ HV) as v_app. pose proof (v_engine _ _ _ HV) as v_engine. pose proof (v_snapi _ _ _ HV) as v_snapi.
    rewrite E in v_app, v_engine. destruct v_app as [A1 A2].
    assert (Hbn : b_n b <> 0) by (apply N.eqb_neq; assumption).
    assert (Hbl : b_last b <= published s /\ b_last b <= hi) by (destruct A2; [contradiction | assumption]).
    destruct (v_done _ _ _ HV) as [D1 [D2 D3]].
    exists hi. split.
    + destruct HP. constructor; proj; auto. lia.
    + unfold running. proj. rewrite R. vinv_split HV.
      * pose proof v_applied. lia.
      * split; [intros; contradiction | lia].
      * intros l0 Hl0. injection Hl0 as <-. rewrite (v_engine l E2). symmetry. apply range_app; lia.
      * destruct v_snapi0 as [S1 [S2|S2]]; [split; [lia | left; exact S2]|].
        unfold snap_busy in S2. rewrite E in S2. contradiction.
Qed.

Lemma step_ap_raftdone : forall c s s' a, Inv c s -> step c s (EvApRaftDone a) = Ok s' -> Inv c s'.
Proof.
  intros c s s' a HI H. start_step H hi HP HV. norm_guards.
  exists hi. split; [pframe s|].
  unfold running in *. proj. destruct (rc s) eqn:R; try (not_running HV).
  vinv_split HV. rewrite E in v_app. destruct v_app as [A1 A2].
  apply orb_true_iff in E0. destruct E0 as [G|G]; [apply A1; lia | lia].
Qed.

Lemma step_ap_trigger_before : forall c s s' a sn, Inv c s -> step c s (EvApTriggerBefore a sn) = Ok s' -> Inv c s'.
Proof.
  intros c s s' a sn HI H. start_step H hi HP HV. norm_guards.
  exists hi. split; [pframe s|].
  unfold running in *. proj. destruct (rc s) eqn:R; try (not_running HV).
  vinv_split HV. rewrite E in v_app. exact v_app.
Qed.

Lemma step_ap_trigger_after : forall c s s' a sn, Inv c s -> step c s (EvApTriggerAfter a sn) = Ok s' -> Inv c s'.
Proof.
  intros c s s' a sn HI H. start_step H hi HP HV; norm_guards;
  (exists hi; split; [pframe s|];
   unfold running in *; proj; destruct (rc s) eqn:R; try (not_running HV);
   vinv_split HV; rewrite E in v_app; first [exact v_app | destruct v_app; assumption]).
Qed.

(* ---------- the backup loop (checkpoints) ---------- *)

Lemma lookup_cons : forall j i v t, lookup j ((i, v) :: t) = if j =? i then v else lookup j t.
Proof. reflexivity. Qed.

Lemma lookup_set_ne : forall j i v cks, j <> i -> lookup j ((i, v) :: remove_ckpt i cks) = lookup j cks.
Proof. intros. rewrite lookup_cons. destruct (j =? i) eqn:Q; [lia|]. apply lookup_remove_ckpt_ne. exact H. Qed.

Lemma filter_not_in_nil : forall l : list N, filter (fun i => negb (memN i [])) l = l.
Proof. induction l; simpl; auto. f_equal. exact IHl. Qed.

Lemma step_ck_flush : forall c s s', Inv c s -> step c s EvCkFlush = Ok s' -> Inv c s'.
Proof.
  intros c s s' HI H. start_step H hi HP HV; norm_guards;
  (exists hi; split; [pframe s|]; unfold running, RInv in *; proj; destruct (rc s) eqn:R; try exact HV;
   try (exfalso; destruct HV as [_ [_ [Hap _]]]; congruence)).
  all: vinv_split HV; rewrite ?E; rewrite E in v_app; try exact v_app; try (split; [exact v_app | reflexivity]);
       try (destruct v_app; split; [assumption | reflexivity]).
Qed.

Lemma step_ck_save_before : forall c s s', fixed c -> Inv c s -> step c s EvCkSaveBefore = Ok s' -> Inv c s'.
Proof.
  intros c s s' [_ [_ Hfl]] HI H. start_step H hi HP HV. norm_guards.
  match goal with G : _ && _ = true |- _ => apply andb_true_iff in G; destruct G as [Gapp Glt] end.
  rewrite Hfl in Gapp. simpl in Gapp.
  destruct (app s) eqn:Eapp; try discriminate.
  unfold running in *. proj. destruct (rc s) eqn:R; try (not_running HV).
  pose proof HV as HV0. destruct HV0 as [_ _ _ _ _ _ _ _ v_app v_engine v_snapi v_sns _ _ _ _ _].
  rewrite Eapp in v_app, v_engine. destruct v_app as [Aap Acache].
  assert (Hnn : newest (segs s) < applied s).
  { destruct v_snapi as [S1 [S2|S2]]; [lia|]. unfold snap_busy in S2. rewrite Eapp in S2. contradiction. }
  rewrite Acache, filter_not_in_nil.
  exists hi. split.
  - apply (pinv_files s); try reflexivity; auto; proj; try (destruct HP; assumption).
    + intros Hp. destruct (p_file _ _ HP Hp) as [A B]. split; [exact A|].
      rewrite lookup_remove_ckpt_ne by lia. exact B.
    + intros i l0 Hl. destruct (N.eq_dec i (applied s)) as [->|Hne].
      * rewrite lookup_remove_ckpt_eq in Hl. discriminate.
      * rewrite lookup_remove_ckpt_ne in Hl by exact Hne. eapply p_ckpts; eauto.
  - unfold running. proj. rewrite R. destruct (v_done _ _ _ HV) as [D1 [D2 D3]]. vinv_split HV.
    + apply (rd_inv_files s); auto; [right; intros; congruence|]. unfold ckpt_ok. proj. intros i Hi Ei Hc. rewrite lookup_remove_ckpt_ne; [exact Hc|].
      pose proof (pend_above _ _ v_rd ltac:(lia)). lia.
    + destruct v_latest as [L1 L2]. split; [exact L1 | intros; discriminate].
    + split; [reflexivity|]. split; [exact Aap | lia].
    + intros i p Hl. destruct (v_sns i p Hl) as [S1 [S2 [S3 [S4 [S5 [S6 S7]]]]]].
      repeat split; auto. intros Hn Hp. rewrite lookup_remove_ckpt_ne by lia. auto.
    + split; [apply v_engine; assumption|]. split; [lia|]. split.
      * intros k p Hl. destruct (v_sns k p Hl) as [S1 [S2 [S3 _]]]. split; [lia | intros; lia].
      * split; [apply lookup_remove_ckpt_eq | intros j Hj; injection Hj as <-; reflexivity].
Qed.

Lemma step_ck_save_after : forall c s s', Inv c s -> step c s EvCkSaveAfter = Ok s' -> Inv c s'.
Proof.
  intros c s s' HI H. start_step H hi HP HV.
  unfold running in *. proj. destruct (rc s) eqn:R; try (not_running HV).
  pose proof HV as HV0. destruct HV0 as [_ _ _ _ _ _ _ _ _ _ _ v_sns _ _ _ _ v_ck].
  rewrite E in v_ck. destruct v_ck as [K1 [[K2 K2'] [K3 [K4 K5]]]].
  exists hi. split.
  - apply (pinv_files s); try reflexivity; auto; proj; try (destruct HP; assumption).
    + intros Hp. destruct (p_file _ _ HP Hp) as [A B]. split; [exact A|]. rewrite lookup_set_ne by lia. exact B.
    + intros j l0 Hl. destruct (N.eq_dec j i) as [->|Hne].
      * rewrite lookup_cons, N.eqb_refl in Hl. injection Hl as <-. exact K1.
      * rewrite lookup_set_ne in Hl by exact Hne. eapply p_ckpts; eauto.
  - unfold running. proj. rewrite R. vinv_split HV.
    + apply (rd_inv_files s); auto. unfold ckpt_ok. proj. intros j Hj Ej Hc. rewrite lookup_set_ne; [exact Hc|].
      pose proof (pend_above _ _ v_rd ltac:(lia)). lia.
    + destruct v_latest as [L1 L2]. split; [exact L1 | intros; discriminate].
    + intros j p Hl. destruct (v_sns j p Hl) as [S1 [S2 [S3 [S4 [S5 [S6 S7]]]]]].
      repeat split; auto. intros Hn Hp. destruct (N.eq_dec j i) as [->|Hne].
      * rewrite lookup_cons, N.eqb_refl. rewrite K1. reflexivity.
      * rewrite lookup_set_ne by exact Hne. auto.
Qed.

Lemma step_ck_partial : forall c s s', Inv c s -> step c s EvCkPartial = Ok s' -> Inv c s'.
Proof.
  intros c s s' HI H. start_step H hi HP HV.
  unfold running in *. proj. destruct (rc s) eqn:R; try (not_running HV).
  pose proof HV as HV0. destruct HV0 as [_ _ _ _ _ _ _ _ _ _ _ v_sns _ _ _ _ v_ck].
  rewrite E in v_ck. destruct v_ck as [K1 [[K2 K2'] [K3 [K4 K5]]]].
  exists hi. split.
  - apply (pinv_files s); try reflexivity; auto; proj; try (destruct HP; assumption).
    + intros Hp. destruct (p_file _ _ HP Hp) as [A B]. split; [exact A|]. rewrite lookup_set_ne by lia. exact B.
    + intros j l0 Hl. destruct (N.eq_dec j i) as [->|Hne].
      * rewrite lookup_cons, N.eqb_refl in Hl. discriminate.
      * rewrite lookup_set_ne in Hl by exact Hne. eapply p_ckpts; eauto.
  - unfold running. proj. rewrite R. vinv_split HV.
    + apply (rd_inv_files s); auto. unfold ckpt_ok. proj. intros j Hj Ej Hc. rewrite lookup_set_ne; [exact Hc|].
      pose proof (pend_above _ _ v_rd ltac:(lia)). lia.
    + intros j p Hl. destruct (v_sns j p Hl) as [S1 [S2 [S3 [S4 [S5 [S6 S7]]]]]].
      repeat split; auto. intros Hn Hp. destruct (N.eq_dec j i) as [->|Hne].
      * destruct (K3 i p Hl) as [_ K]. specialize (K eq_refl). contradiction.
      * rewrite lookup_set_ne by exact Hne. auto.
    + rewrite E. split; [exact K1|]. split; [split; assumption|]. split; [exact K3|]. split; [|exact K5].
      rewrite lookup_cons, N.eqb_refl. reflexivity.
Qed.

(* the purge takes the latest snapshot index as its bound: by the schedule hypothesis not the index of an incoming
   snapshot whose record is not valid yet *)
Lemma step_ck_purge_before : forall c s s', in_window s = 0%nat -> Inv c s -> step c s EvCkPurgeBefore = Ok s' -> Inv c s'.
Proof.
  intros c s s' Hw HI H. start_step H hi HP HV.
  exists hi. split; [pframe s|].
  unfold running in *. proj. destruct (rc s) eqn:R; try (not_running HV).
  vinv_split HV. destruct v_latest as [L1 L2]. split; [exact L1|]. intros lat Hl. injection Hl as <-.
  destruct L1 as [L1|[L1 _]]; [exact L1 | rewrite Hw in L1; discriminate].
Qed.

Lemma step_ck_purge_one : forall c s s', Inv c s -> step c s EvCkPurgeOne = Ok s' -> Inv c s'.
Proof.
  intros c s s' HI H. start_step H hi HP HV.
  unfold running in *. proj. destruct (rc s) eqn:R; try (not_running HV).
  pose proof HV as HV0. destruct HV0 as [_ _ _ v_latest _ _ _ _ _ _ _ v_sns _ _ _ _ _].
  destruct v_latest as [L1 L2]. specialize (L2 lat E).
  match goal with G : purge_next _ _ _ = Some ?x |- _ => destruct (purge_next_spec _ _ _ _ G) as [Px _]; rename x into vx end.
  exists hi. split.
  - apply (pinv_files s); try reflexivity; auto; proj; try (destruct HP; assumption).
    + intros Hp. destruct (p_file _ _ HP Hp) as [A B]. split; [exact A|]. rewrite lookup_remove_ckpt_ne by lia. exact B.
    + intros j l0 Hl. destruct (N.eq_dec j vx) as [->|Hne].
      * rewrite lookup_remove_ckpt_eq in Hl. discriminate.
      * rewrite lookup_remove_ckpt_ne in Hl by exact Hne. eapply p_ckpts; eauto.
  - unfold running. proj. rewrite R. pose proof (pinv_newest_le_hi _ _ HP) as Hnh. vinv_split HV.
    + apply (rd_inv_files s); auto. unfold ckpt_ok. proj. intros j Hj Ej Hc. rewrite lookup_remove_ckpt_ne; [exact Hc|].
      pose proof (pend_above _ _ v_rd ltac:(lia)). lia.
    + intros j p Hl. destruct (v_sns j p Hl) as [S1 [S2 [S3 [S4 [S5 [S6 S7]]]]]].
      repeat split; auto. intros Hn Hp. rewrite lookup_remove_ckpt_ne by lia. auto.
Qed.

Lemma step_ck_purge_after : forall c s s', Inv c s -> step c s EvCkPurgeAfter = Ok s' -> Inv c s'.
Proof.
  intros c s s' HI H. start_step H hi HP HV.
  unfold running in *. proj. destruct (rc s) eqn:R; try (not_running HV).
  pose proof HV as HV0. destruct HV0 as [_ _ _ v_latest _ _ _ _ _ _ _ v_sns _ _ _ _ _].
  destruct v_latest as [L1 L2]. specialize (L2 lat E).
  assert (Hv : forall j, newest (segs s) <= j -> ~ In j (purge_victims (eff_keep_ckpt c) lat (map fst (ckpts s)))).
  { intros j Hj Hin. apply purge_victims_lt in Hin. lia. }
  exists hi. split.
  - apply (pinv_files s); try reflexivity; auto; proj; try (destruct HP; assumption).
    + intros Hp. destruct (p_file _ _ HP Hp) as [A B]. split; [exact A|]. rewrite lookup_purge_ckpts by (apply Hv; lia). exact B.
    + intros j l0 Hl. apply lookup_purge_ckpts_some in Hl. eapply p_ckpts; eauto.
  - unfold running. proj. rewrite R. pose proof (pinv_newest_le_hi _ _ HP) as Hnh. vinv_split HV.
    + apply (rd_inv_files s); auto. unfold ckpt_ok. proj. intros j Hj Ej Hc. rewrite lookup_purge_ckpts; [exact Hc|].
      apply Hv. pose proof (pend_above _ _ v_rd ltac:(lia)). lia.
    + split; [exact L1 | intros; discriminate].
    + intros j p Hl. destruct (v_sns j p Hl) as [S1 [S2 [S3 [S4 [S5 [S6 S7]]]]]].
      repeat split; auto. intros Hn Hp. rewrite lookup_purge_ckpts by (apply Hv; lia). auto.
Qed.

