(* Recover/Proofs.v — proofs about the C06 path model (coq/Recover/Path.v). *)
From Coq Require Import NArith List Bool Lia.
From ZV Require Import Recover.Consts Recover.Path Recover.ProofsWal Recover.ProofsInv Recover.ProofsMain.
Import ListNotations.
Open Scope N_scope.

(* a process can die in every state: the crash event is enabled with nothing lost and nothing extra *)
Lemma crash_enabled : forall c s, exists s', step c s (EvCrash 0 0) = Ok s'.
Proof.
  intros c s. unfold step, image. simpl. eexists. reflexivity.
Qed.

(* ---------- traces of a single-replica group (used in examples and refutations) ---------- *)

Definition cfg2 (opt : bool) : config := mkConfig 2 2 opt true true true.

Definition rdy (i : N) (tv : bool) : ready := mkReady 1 i i true tv i 1 i i 0.

(* one client write at index i (fixed code: the Ready's entry is committed in the same Ready, so it is saved
   before it is published); sn = np.snapi *)
Definition ev_rd (i : N) (tv : bool) (cut : bool) : list event :=
  [EvRdBegin (rdy i tv); EvRdSaveBefore] ++ (if cut then [EvCutBefore (i + 1); EvCutAfter (i + 1)] else [])
  ++ [EvRdSaveAfter; EvRdPublish 1 i 0; EvRdAppendAfter; EvRdAdvance].
Definition ev_ap (i sn : N) : list event := [EvApBefore (i - 1) 1 0; EvApAfter i; EvApRaftDone i; EvApTriggerBefore i sn].
Definition ev_write (i sn : N) (tv cut : bool) : list event := ev_rd i tv cut ++ ev_ap i sn ++ [EvApTriggerAfter i sn].
(* the same with a snapshot triggered at i: checkpoint taken, goroutine started *)
Definition ev_write_snap (i sn : N) (tv cut : bool) : list event :=
  ev_rd i tv cut ++ ev_ap i sn ++ [EvCkFlush; EvCkSaveBefore; EvCkSaveAfter; EvCkPurgeBefore; EvCkPurgeAfter; EvSnStarted i; EvApTriggerAfter i i].
Definition ev_sn_to_file (i : N) : list event := [EvSnCkDone i; EvSnCreated i; EvSnFile i].
Definition ev_sn_rest (i : N) : list event := [EvSnMarked i; EvSnSynced i; EvSnReleased i; EvSnUpdated i; EvSnCompacted i].

(* W1: two acknowledged writes; the second is flushed but, with optimizedFsync, not fdatasync'ed *)
Definition trace_w1 : list event := ev_write 1 0 true false ++ ev_write 2 0 false false.

(* with optimizedFsync a power loss (unsynced records lost) loses an acknowledged write ... *)
Lemma powerloss_refuted :
  exists evs s j l, run (cfg2 true) init_state evs = Ok s /\ (j <= unsynced s)%nat
    /\ recover_state_powerloss s j = Ok l /\ acked s = 2 /\ l = [1].
Proof. exists trace_w1. eexists. exists 2%nat. eexists. split; [vm_compute; reflexivity|]. split; [vm_compute; lia|]. split; [vm_compute; reflexivity|]. split; reflexivity. Qed.

(* ... a process death does not, and without optimizedFsync neither does a power loss *)
Lemma powerloss_example_ok :
  exists s, run (cfg2 true) init_state trace_w1 = Ok s /\ recover_state s 0 0 = Ok [1; 2]
  /\ exists s', run (cfg2 false) init_state trace_w1 = Ok s' /\ unsynced s' = 0%nat.
Proof. eexists. split; [vm_compute; reflexivity|]. split; [vm_compute; reflexivity|]. eexists. split; vm_compute; reflexivity. Qed.

(* a crossing of several snapshot / cut / release / purge boundaries, with a crash at the end and a complete restart *)
Definition trace_cycle : list event :=
  ev_write 1 0 true false ++ ev_write 2 0 false true ++ ev_write 3 0 false false ++ ev_write 4 0 false true
  ++ ev_write_snap 5 0 false false ++ ev_sn_to_file 5 ++ ev_sn_rest 5
  ++ [EvPgBefore 3; EvPgAfter 3]
  ++ ev_write 6 5 false false
  ++ [EvCrash 0 0; EvRcChosen 5; EvRsRemoved 5; EvRsCopied 5; EvRcRestored 5; EvRcReplay 1 6 6].

Lemma cycle_example :
  exists s, run (cfg2 true) init_state trace_cycle = Ok s /\ engine s = Some [1; 2; 3; 4; 5]
    /\ map sfirst (segs s) = [3; 5] /\ applied s = 5 /\ rs_last s = 6 /\ acked s = 6
    /\ recover_state s 0 0 = Ok [1; 2; 3; 4; 5; 6].
Proof. eexists. vm_compute. repeat split; reflexivity. Qed.

(* two snapshot goroutines between "snap file written" and "WAL marker written" at the moment the purge of the
   snap directory runs (KeepBackup = 2): the only snapshot the WAL records is evicted and, its first WAL segment
   being purged already, the node cannot restart. The purge is timer driven in the code (start + every 10 min),
   so this needs two stalled goroutines at a purge tick; the theorems below assume at most one goroutine in
   that window. *)
Definition trace_two_windows : list event :=
  ev_write 1 0 true false ++ ev_write 2 0 false true ++ ev_write 3 0 false false ++ ev_write 4 0 false true
  ++ ev_write_snap 5 0 false false ++ ev_sn_to_file 5 ++ ev_sn_rest 5
  ++ [EvPgBefore 3; EvPgAfter 3]
  ++ ev_write_snap 6 5 false false ++ ev_sn_to_file 6
  ++ ev_write_snap 7 6 false false ++ ev_sn_to_file 7
  ++ [EvPgBefore 4; EvPgAfter 4].

Lemma two_windows_refuted :
  exists s, run (cfg2 true) init_state trace_two_windows = Ok s
    /\ sns s = [(7, SnFile); (6, SnFile)] /\ acked s = 7
    /\ recover_state s 0 0 = Err E_FILE_NOT_FOUND.
Proof. eexists. vm_compute. repeat split; reflexivity. Qed.

(* the hypotheses of the invariant theorems are satisfiable by non-trivial runs: the cycle above (and the trace with
   one snapshot in flight) respects the schedule hypothesis; the trace with two snapshots in flight does not *)
Lemma cycle_sched : sched_ok (cfg2 true) init_state trace_cycle.
Proof. apply sched_okb_ok. vm_compute. reflexivity. Qed.

Lemma two_windows_not_sched : sched_okb (cfg2 true) init_state trace_two_windows = false.
Proof. vm_compute. reflexivity. Qed.

(* the function the acceptor evaluates on real runs rejects exactly that trace (and accepts the cycle) *)
Lemma two_windows_rejected_by_acceptor_check : sched_holds_run (cfg2 true) init_state trace_two_windows = false.
Proof. vm_compute. reflexivity. Qed.
Lemma cycle_passes_acceptor_check : sched_holds_run (cfg2 true) init_state trace_cycle = true.
Proof. vm_compute. reflexivity. Qed.

(* ---------- the code before the fixes, in the model ---------- *)

(* before b025328: processReady published the committed entries before persistRaftState although they were
   committed in the same Ready: the apply loop answers the client, the process dies before the WAL write *)
Definition cfg_before_b025328 : config := mkConfig 2 2 true false true true.
Definition trace_ack_before_save : list event := [EvRdBegin (rdy 1 true); EvRdPublish 1 1 0; EvApBefore 0 1 0; EvApAfter 1].

Lemma ack_before_save_refuted :
  exists s, run cfg_before_b025328 init_state trace_ack_before_save = Ok s
    /\ sched_okb cfg_before_b025328 init_state trace_ack_before_save = true
    /\ acked s = 1 /\ recover_state s 0 0 = Ok [].
Proof. eexists. vm_compute. repeat split; reflexivity. Qed.

(* the code as it is rejects that order: the publication of entries committed in the same Ready is not enabled
   before the save *)
Lemma ack_before_save_rejected_now :
  snd (run_from (cfg2 true) init_state trace_ack_before_save 0) = Some (1, R_GUARD).
Proof. vm_compute. reflexivity. Qed.

(* before c523023: two process deaths in a row between "snap file written" and "WAL marker written" (one goroutine
   in the window each time: the schedule hypothesis holds), the snap directory purge at the second restart evicts
   the only snapshot the WAL records; the first WAL segment being purged already, the node cannot restart *)
Definition cfg_before_c523023 : config := mkConfig 2 2 true true false true.
Definition ev_restart (S L : N) : list event :=
  [EvCrash 0 0; EvRcChosen S; EvRsRemoved S; EvRsCopied S; EvRcRestored S; EvRcReplay (L - S) (if L - S =? 0 then 0 else L) L].
Definition ev_replay_apply (S L : N) : list event :=
  [EvRdBegin (mkReady 0 0 0 false false 0 (L - S) (S + 1) L 0); EvRdPublish (L - S) L 0; EvRdSaveBefore; EvRdSaveAfter; EvRdAppendAfter; EvRdAdvance;
   EvApBefore S (L - S) 0; EvApAfter L; EvApRaftDone L; EvApTriggerBefore L S; EvApTriggerAfter L S].
Definition trace_orphans : list event :=
  ev_write 1 0 true false ++ ev_write 2 0 false true ++ ev_write 3 0 false false ++ ev_write 4 0 false true
  ++ ev_write_snap 5 0 false false ++ ev_sn_to_file 5 ++ ev_sn_rest 5
  ++ [EvPgBefore 3; EvPgAfter 3]
  ++ ev_write_snap 6 5 false false ++ ev_sn_to_file 6
  ++ ev_restart 5 6 ++ ev_replay_apply 5 6
  ++ ev_write_snap 7 5 true false ++ ev_sn_to_file 7
  ++ ev_restart 5 7 ++ [EvPgBefore 4; EvPgAfter 4].

Lemma orphans_refuted :
  exists s, run cfg_before_c523023 init_state trace_orphans = Ok s
    /\ sched_okb cfg_before_c523023 init_state trace_orphans = true
    /\ acked s = 7 /\ snapfiles s = [7; 6] /\ recover_state s 0 0 = Err E_FILE_NOT_FOUND.
Proof. eexists. vm_compute. repeat split; reflexivity. Qed.

(* with the orphaned files removed at startup the purge has nothing to evict *)
Lemma orphans_rejected_now :
  snd (run_from (cfg2 true) init_state trace_orphans 0) = Some (138, R_GUARD).
Proof. vm_compute. reflexivity. Qed.

(* I5: the engine content found after a process death is never used: the death leaves it untrusted, the restart
   value [recover] is a function of WAL, snap files and checkpoints only, and the only steps that make the engine
   usable again are CleanData (no snapshot / fresh WAL) and the restore from the chosen snapshot's checkpoint *)
Lemma engine_untrusted_after_crash : forall c s j extra s', step c s (EvCrash j extra) = Ok s' -> engine s' = None /\ rc s' = RcStart.
Proof.
  intros c s j extra s' H. unfold step in H. destruct (image s j extra); [|discriminate]. injection H as <-. split; reflexivity.
Qed.

Lemma engine_trusted_only_after_clean_or_restore : forall c s ev s' l,
  engine s = None -> step c s ev = Ok s' -> engine s' = Some l ->
  (ev = EvRcNone /\ l = []) \/ (ev = EvRcFresh /\ l = []) \/ (exists i, ev = EvRsCopied i /\ lookup i (ckpts s) = Some l).
Proof.
  intros c s ev s' l He H Hs'. destruct ev; unfold step in H; cbv zeta in H.
  all: try (unfold sn_step in H).
  all: repeat (match type of H with
               | (match ?x with _ => _ end) = _ => destruct x eqn:?
               | (if ?x then _ else _) = _ => destruct x eqn:?
               end; try discriminate H).
  all: try discriminate H.
  all: try (injection H as <-; cbn in Hs'; try congruence).
  all: try (left; split; [reflexivity | congruence]).
  all: try (right; left; split; [reflexivity | congruence]).
  all: try (right; right; eexists; split; [reflexivity|]; apply N.eqb_eq in Heqb || idtac; congruence).
  - exfalso. destruct apd; destruct ((0 <? r_n r) || r_hs r && r_tv r); destruct (negb (opt_fsync c) || r_hs r && r_tv r);
      cbn in Hs'; congruence.
  - right; right; eexists; split; [reflexivity|];
    match goal with G : negb (_ =? _) = false |- _ => apply negb_false_iff in G; apply N.eqb_eq in G; subst end; congruence.
  - right; right; eexists; split; [reflexivity|];
    match goal with G : negb (_ =? _) = false |- _ => apply negb_false_iff in G; apply N.eqb_eq in G; subst end; congruence.
  - right; right; eexists; split; [reflexivity|];
    match goal with G : negb (_ =? _) = false |- _ => apply negb_false_iff in G; apply N.eqb_eq in G; subst end; congruence.
Qed.

(* capture before flush: if RockDB.Backup did not flush the write-back cache (HyperLogLog) before the checkpoint is
   queued, the checkpoint named i lacks the acknowledged writes that sit only in the cache; the snapshot is recorded,
   the node dies, restores that checkpoint and replays only the entries above i: the cached writes are gone *)
Definition cfg_no_flush : config := mkConfig 2 2 true true true false.
Definition ev_write_snap_noflush (i sn : N) : list event :=
  ev_rd i false false ++ ev_ap i sn ++ [EvCkSaveBefore; EvCkSaveAfter; EvCkPurgeBefore; EvCkPurgeAfter; EvSnStarted i; EvApTriggerAfter i i].
Definition trace_capture_before_flush : list event :=
  ev_write 1 0 true false ++ ev_write 2 0 false false ++ ev_write 3 0 false false ++ ev_write 4 0 false false
  ++ ev_write_snap_noflush 5 0 ++ ev_sn_to_file 5 ++ ev_sn_rest 5 ++ ev_write 6 5 false false.

Lemma capture_before_flush_refuted :
  exists s, run cfg_no_flush init_state trace_capture_before_flush = Ok s
    /\ sched_okb cfg_no_flush init_state trace_capture_before_flush = true
    /\ acked s = 6 /\ recover_state s 0 0 = Ok [6].
Proof. eexists. vm_compute. repeat split; reflexivity. Qed.

(* the code as it is flushes first: without the flush event the checkpoint request is not enabled *)
Lemma capture_before_flush_rejected_now :
  snd (run_from (cfg2 true) init_state trace_capture_before_flush 0) = Some (54, R_PC).
Proof. vm_compute. reflexivity. Qed.
