(* Recover/Proofs.v — proofs about the C06 path model (coq/Recover/Path.v). *)
From Coq Require Import NArith List Bool Lia.
From ZV Require Import Recover.Consts Recover.Path Recover.ProofsWal Recover.ProofsInv Recover.ProofsMain.
Import ListNotations.
Open Scope N_scope.

(* a process can die in every state: the crash event is enabled with nothing lost and nothing extra *)
Lemma crash_enabled : forall c s, exists s', step c s (EvCrash 0 0) = Ok s'.
Proof.
  intros c s. unfold step, image. simpl. eexists. reflexivity.
Qed.

(* ---------- traces of a single-replica group (used in examples and refutations) ---------- *)

Definition cfg2 (opt : bool) : config := mkConfig 2 2 opt true true true.

Definition rdy (i : N) (tv : bool) : ready := mkReady 1 i i true tv i 1 i i 0.

(* one client write at index i (fixed code: the Ready's entry is committed in the same Ready, so it is saved
   before it is published); sn = np.snapi *)
Definition ev_rd (i : N) (tv : bool) (cut : bool) : list event :=
  [EvRdBegin (rdy i tv); EvRdSaveBefore] ++ (if cut then [EvCutBefore (i + 1); EvCutAfter (i + 1)] else [])
  ++ [EvRdSaveAfter; EvRdPublish 1 i 0; EvRdAppendAfter; EvRdAdvance].
Definition ev_ap (i sn : N) : list event := [EvApBefore (i - 1) 1 0; EvApAfter i; EvApRaftDone i; EvApTriggerBefore i sn].
Definition ev_write (i sn : N) (tv cut : bool) : list event := ev_rd i tv cut ++ ev_ap i sn ++ [EvApTriggerAfter i sn].
(* the same with a snapshot triggered at i: checkpoint taken, goroutine started *)
Definition ev_write_snap (i sn : N) (tv cut : bool) : list event :=
  ev_rd i tv cut ++ ev_ap i sn ++ [EvCkFlush; EvCkSaveBefore; EvCkSaveAfter; EvCkPurgeBefore; EvCkPurgeAfter; EvSnStarted i; EvApTriggerAfter i i].
Definition ev_sn_to_file (i : N) : list event := [EvSnCkDone i; EvSnCreated i; EvSnFile i].
Definition ev_sn_rest (i : N) : list event := [EvSnMarked i; EvSnSynced i; EvSnReleased i; EvSnUpdated i; EvSnCompacted i].

(* W1: two acknowledged writes; the second is flushed but, with optimizedFsync, not fdatasync'ed *)
Definition trace_w1 : list event := ev_write 1 0 true false ++ ev_write 2 0 false false.

(* with optimizedFsync a power loss (unsynced records lost) loses an acknowledged write ... *)
Lemma powerloss_refuted :
  exists evs s j l, run (cfg2 true) init_state evs = Ok s /\ (j <= unsynced s)%nat
    /\ recover_state_powerloss s j = Ok l /\ acked s = 2 /\ l = [1].
Proof. exists trace_w1. eexists. exists 2%nat. eexists. split; [vm_compute; reflexivity|]. split; [vm_compute; lia|]. split; [vm_compute; reflexivity|]. split; reflexivity. Qed.

(* ... a process death does not, and without optimizedFsync neither does a power loss *)
Lemma powerloss_example_ok :
  exists s, run (cfg2 true) init_state trace_w1 = Ok s /\ recover_state s 0 0 = Ok [1; 2]
  /\ exists s', run (cfg2 false) init_state trace_w1 = Ok s' /\ unsynced s' = 0%nat.
Proof. eexists. split; [vm_compute; reflexivity|]. split; [vm_compute; reflexivity|]. eexists. split; vm_compute; reflexivity. Qed.

(* a crossing of several snapshot / cut / release / purge boundaries, with a crash at the end and a complete restart *)
Definition trace_cycle : list event :=
  ev_write 1 0 true false ++ ev_write 2 0 false true ++ ev_write 3 0 false false ++ ev_write 4 0 false true
  ++ ev_write_snap 5 0 false false ++ ev_sn_to_file 5 ++ ev_sn_rest 5
  ++ [EvPgBefore 3; EvPgAfter 3]
  ++ ev_write 6 5 false false
  ++ [EvCrash 0 0; EvRcChosen 5; EvRsRemoved 5; EvRsCopied 5; EvRcRestored 5; EvRcReplay 1 6 6].

Lemma cycle_example :
  exists s, run (cfg2 true) init_state trace_cycle = Ok s /\ engine s = Some [1; 2; 3; 4; 5]
    /\ map sfirst (segs s) = [3; 5] /\ applied s = 5 /\ rs_last s = 6 /\ acked s = 6
    /\ recover_state s 0 0 = Ok [1; 2; 3; 4; 5; 6].
Proof. eexists. vm_compute. repeat split; reflexivity. Qed.

(* two snapshot goroutines between "snap file written" and "WAL marker written" at the moment the purge of the
   snap directory runs (KeepBackup = 2): the only snapshot the WAL records is evicted and, its first WAL segment
   being purged already, the node cannot restart. The purge is timer driven in the code (start + every 10 min),
   so this needs two stalled goroutines at a purge tick; the theorems below assume at most one goroutine in
   that window. *)
Definition trace_two_windows : list event :=
  ev_write 1 0 true false ++ ev_write 2 0 false true ++ ev_write 3 0 false false ++ ev_write 4 0 false true
  ++ ev_write_snap 5 0 false false ++ ev_sn_to_file 5 ++ ev_sn_rest 5
  ++ [EvPgBefore 3; EvPgAfter 3]
  ++ ev_write_snap 6 5 false false ++ ev_sn_to_file 6
  ++ ev_write_snap 7 6 false false ++ ev_sn_to_file 7
  ++ [EvPgBefore 4; EvPgAfter 4].

Lemma two_windows_refuted :
  exists s, run (cfg2 true) init_state trace_two_windows = Ok s
    /\ sns s = [(7, SnFile); (6, SnFile)] /\ acked s = 7
    /\ recover_state s 0 0 = Err E_FILE_NOT_FOUND.
Proof. eexists. vm_compute. repeat split; reflexivity. Qed.

(* the hypotheses of the invariant theorems are satisfiable by non-trivial runs: the cycle above (and the trace with
   one snapshot in flight) respects the schedule hypothesis; the trace with two snapshots in flight does not *)
Lemma cycle_sched : sched_ok (cfg2 true) init_state trace_cycle.
Proof. apply sched_okb_ok. vm_compute. reflexivity. Qed.

Lemma two_windows_not_sched : sched_okb (cfg2 true) init_state trace_two_windows = false.
Proof. vm_compute. reflexivity. Qed.

(* the function the acceptor evaluates on real runs rejects exactly that trace (and accepts the cycle) *)
Lemma two_windows_rejected_by_acceptor_check : sched_holds_run (cfg2 true) init_state trace_two_windows = false.
Proof. vm_compute. reflexivity. Qed.
Lemma cycle_passes_acceptor_check : sched_holds_run (cfg2 true) init_state trace_cycle = true.
Proof. vm_compute. reflexivity. Qed.

(* ---------- the code before the fixes, in the model ---------- *)

(* before b025328: processReady published the committed entries before persistRaftState although they were
   committed in the same Ready: the apply loop answers the client, the process dies before the WAL write *)
Definition cfg_before_b025328 : config := mkConfig 2 2 true false true true.
Definition trace_ack_before_save : list event := [EvRdBegin (rdy 1 true); EvRdPublish 1 1 0; EvApBefore 0 1 0; EvApAfter 1].

Lemma ack_before_save_refuted :
  exists s, run cfg_before_b025328 init_state trace_ack_before_save = Ok s
    /\ sched_okb cfg_before_b025328 init_state trace_ack_before_save = true
    /\ acked s = 1 /\ recover_state s 0 0 = Ok [].
Proof. eexists. vm_compute. repeat split; reflexivity. Qed.

(* the code as it is rejects that order: the publication of entries committed in the same Ready is not enabled
   before the save *)
Lemma ack_before_save_rejected_now :
  snd (run_from (cfg2 true) init_state trace_ack_before_save 0) = Some (1, R_GUARD).
Proof. vm_compute. reflexivity. Qed.

(* before c523023: two process deaths in a row between "snap file written" and "WAL marker written" (one goroutine
   in the window each time: the schedule hypothesis holds), the snap directory purge at the second restart evicts
   the only snapshot the WAL records; the first WAL segment being purged already, the node cannot restart *)
Definition cfg_before_c523023 : config := mkConfig 2 2 true true false true.
Definition ev_restart (S L : N) : list event :=
  [EvCrash 0 0; EvRcChosen S; EvRsRemoved S; EvRsCopied S; EvRcRestored S; EvRcReplay (L - S) (if L - S =? 0 then 0 else L) L].
Definition ev_replay_apply (S L : N) : list event :=
  [EvRdBegin (mkReady 0 0 0 false false 0 (L - S) (S + 1) L 0); EvRdPublish (L - S) L 0; EvRdSaveBefore; EvRdSaveAfter; EvRdAppendAfter; EvRdAdvance;
   EvApBefore S (L - S) 0; EvApAfter L; EvApRaftDone L; EvApTriggerBefore L S; EvApTriggerAfter L S].
Definition trace_orphans : list event :=
  ev_write 1 0 true false ++ ev_write 2 0 false true ++ ev_write 3 0 false false ++ ev_write 4 0 false true
  ++ ev_write_snap 5 0 false false ++ ev_sn_to_file 5 ++ ev_sn_rest 5
  ++ [EvPgBefore 3; EvPgAfter 3]
  ++ ev_write_snap 6 5 false false ++ ev_sn_to_file 6
  ++ ev_restart 5 6 ++ ev_replay_apply 5 6
  ++ ev_write_snap 7 5 true false ++ ev_sn_to_file 7
  ++ ev_restart 5 7 ++ [EvPgBefore 4; EvPgAfter 4].

Lemma orphans_refuted :
  exists s, run cfg_before_c523023 init_state trace_orphans = Ok s
    /\ sched_okb cfg_before_c523023 init_state trace_orphans = true
    /\ acked s = 7 /\ snapfiles s = [7; 6] /\ recover_state s 0 0 = Err E_FILE_NOT_FOUND.
Proof. eexists. vm_compute. repeat split; reflexivity. Qed.

(* with the orphaned files removed at startup the purge has nothing to evict *)
Lemma orphans_rejected_now :
  snd (run_from (cfg2 true) init_state trace_orphans 0) = Some (138, R_GUARD).
Proof. vm_compute. reflexivity. Qed.

(* I5: the engine content found after a process death is never used: the death leaves it untrusted, the restart
   value [recover] is a function of WAL, snap files and checkpoints only, and the only steps that make the engine
   usable again are CleanData (no snapshot / fresh WAL) and the restore from the chosen snapshot's checkpoint *)
Lemma engine_untrusted_after_crash : forall c s j extra s', step c s (EvCrash j extra) = Ok s' -> engine s' = None /\ rc s' = RcStart.
Proof.
  intros c s j extra s' H. unfold step in H. destruct (image s j extra); [|discriminate]. injection H as <-. split; reflexivity.
Qed.

Lemma engine_trusted_only_after_clean_or_restore : forall c s ev s' l,
  engine s = None -> step c s ev = Ok s' -> engine s' = Some l ->
  (ev = EvRcNone /\ l = []) \/ (ev = EvRcFresh /\ l = []) \/ (exists i, ev = EvRsCopied i /\ lookup i (ckpts s) = Some l).
Proof.
  intros c s ev s' l He H Hs'. destruct ev; unfold step in H; cbv zeta in H.
  all: try (unfold sn_step in H).
  all: repeat (match type of H with
               | (match ?x with _ => _ end) = _ => destruct x eqn:?
               | (if ?x then _ else _) = _ => destruct x eqn:?
               end; try discriminate H).
  all: try discriminate H.
  all: try (injection H as <-; cbn in Hs'; try congruence).
  all: try (left; split; [reflexivity | congruence]).
  all: try (right; left; split; [reflexivity | congruence]).
  all: try (right; right; eexists; split; [reflexivity|]; apply N.eqb_eq in Heqb || idtac; congruence).
  - exfalso. destruct apd; destruct ((0 <? r_n r) || r_hs r && r_tv r); destruct (negb (opt_fsync c) || r_hs r && r_tv r);
      cbn in Hs'; congruence.
  - exfalso. destruct ((0 <? r_n r) || r_hs r && r_tv r); destruct (negb (opt_fsync c) || r_hs r && r_tv r);
      cbn in Hs'; congruence.
  - right; right; eexists; split; [reflexivity|];
    match goal with G : negb (_ =? _) = false |- _ => apply negb_false_iff in G; apply N.eqb_eq in G; subst end; congruence.
  - right; right; eexists; split; [reflexivity|];
    match goal with G : negb (_ =? _) = false |- _ => apply negb_false_iff in G; apply N.eqb_eq in G; subst end; congruence.
  - right; right; eexists; split; [reflexivity|];
    match goal with G : negb (_ =? _) = false |- _ => apply negb_false_iff in G; apply N.eqb_eq in G; subst end; congruence.
Qed.

(* capture before flush: if RockDB.Backup did not flush the write-back cache (HyperLogLog) before the checkpoint is
   queued, the checkpoint named i lacks the acknowledged writes that sit only in the cache; the snapshot is recorded,
   the node dies, restores that checkpoint and replays only the entries above i: the cached writes are gone *)
Definition cfg_no_flush : config := mkConfig 2 2 true true true false.
Definition ev_write_snap_noflush (i sn : N) : list event :=
  ev_rd i false false ++ ev_ap i sn ++ [EvCkSaveBefore; EvCkSaveAfter; EvCkPurgeBefore; EvCkPurgeAfter; EvSnStarted i; EvApTriggerAfter i i].
Definition trace_capture_before_flush : list event :=
  ev_write 1 0 true false ++ ev_write 2 0 false false ++ ev_write 3 0 false false ++ ev_write 4 0 false false
  ++ ev_write_snap_noflush 5 0 ++ ev_sn_to_file 5 ++ ev_sn_rest 5 ++ ev_write 6 5 false false.

Lemma capture_before_flush_refuted :
  exists s, run cfg_no_flush init_state trace_capture_before_flush = Ok s
    /\ sched_okb cfg_no_flush init_state trace_capture_before_flush = true
    /\ acked s = 6 /\ recover_state s 0 0 = Ok [6].
Proof. eexists. vm_compute. repeat split; reflexivity. Qed.

(* the code as it is flushes first: without the flush event the checkpoint request is not enabled *)
Lemma capture_before_flush_rejected_now :
  snd (run_from (cfg2 true) init_state trace_capture_before_flush 0) = Some (54, R_PC).
Proof. vm_compute. reflexivity. Qed.

(* ---------- a follower behind its leader's compacted log: the snapshot the leader sends is installed ---------- *)

(* the Ready that carries the incoming snapshot (and the new commit index, nothing else) *)
Definition rdy_snap (i : N) : ready := mkReady 0 0 0 true false i 0 0 0 i.
(* processReady / applySnapshot / persistRaftState / RestoreFromSnapshot / raftStorage.ApplySnapshot, in the order
   one installation takes when nothing else interleaves (the event lists of ProofsMain.install_completes);
   a = the applied index before; fetch = ev_fetch i (the checkpoint is copied from a replica that has it) or
   [EvFsLocalOk i] (it is found on the local disk) *)
Definition ev_install (a i : N) (fetch : list event) : list event :=
  ev_install_head a (rdy_snap i) ++ fetch ++ ev_install_tail i ++ ev_install_end i.

(* a replica with a local snapshot at 5 and the entry 6, whose leader has compacted its log up to 9 *)
Definition trace_follower_base : list event :=
  ev_write 1 0 true false ++ ev_write 2 0 false true ++ ev_write 3 0 false false ++ ev_write 4 0 false true
  ++ ev_write_snap 5 0 false false ++ ev_sn_to_file 5 ++ ev_sn_rest 5
  ++ [EvPgBefore 3; EvPgAfter 3]
  ++ ev_write 6 5 false false.
Definition trace_install : list event := trace_follower_base ++ ev_install 6 9 (ev_fetch 9).

Lemma install_example :
  exists s, run (cfg2 true) init_state trace_install = Ok s
    /\ sched_holds_run (cfg2 true) init_state trace_install = true
    /\ engine s = Some [1; 2; 3; 4; 5; 6; 7; 8; 9] /\ applied s = 9 /\ rs_last s = 9 /\ snapfiles s = [9; 5]
    /\ recover_state s 0 0 = Ok [1; 2; 3; 4; 5; 6; 7; 8; 9].
Proof. eexists. vm_compute. repeat split; reflexivity. Qed.

(* the events of startRaft on the state a process death left (what [restart_succeeds] shows to be enabled) *)
Definition restart_evs (s : state) : list event :=
  let pre := match restoring s, engine s with Some i, None => [EvRsRemoved i; EvRsCopied i] | _, _ => [] end in
  match choose_snapshot (segs s) (snapfiles s) with
  | Some m =>
    match read_all (segs s) m with
    | Ok (ents, cm) => pre ++ [EvRcChosen m; EvRsRemoved m; EvRsCopied m; EvRcRestored m; EvRcReplay (N.of_nat (length ents)) (last_of ents) cm]
    | Err _ => []
    end
  | None =>
    match read_all (segs s) 0 with
    | Ok (ents, cm) => pre ++ [EvRcNone; EvRcReplay (N.of_nat (length ents)) (last_of ents) cm]
    | Err _ => []
    end
  end.
Definition crash_restart (c : config) (s : state) (j extra : nat) : result state :=
  match step c s (EvCrash j extra) with Ok s1 => run c s1 (restart_evs s1) | Err e => Err e end.
(* the leader sends its snapshot (again) unless the replica holds it already *)
Definition converge (c : config) (s : state) (i : N) : result state :=
  if i <=? applied s then Ok s
  else run c s (ev_install (applied s) i (match lookup i (ckpts s) with Some _ => [EvFsLocalOk i] | None => ev_fetch i end)).

Definition eq_listN (a b : list N) : bool := Nat.eqb (length a) (length b) && forallb (fun p => fst p =? snd p) (combine a b).
Definition serves (s : state) (k : N) : bool :=
  running s && (applied s =? k) && match engine s with Some l => eq_listN l (range 0 k) | None => false end.

(* killed after the first n events of the installation (every n), with every crash image of that instant (j buffered
   records lost, extra records of a Save in flight written): the restarted replica serves the state at 5 or at 9,
   and after the leader's snapshot is installed (again, if need be) it serves the leader's state at 9, which is
   also what a further restart would serve *)
Definition install_crash_check (n j extra : nat) : bool :=
  match run (cfg2 true) init_state (trace_follower_base ++ firstn n (ev_install 6 9 (ev_fetch 9))) with
  | Err _ => false
  | Ok s =>
    match image s j extra with
    | None => true
    | Some _ =>
      match crash_restart (cfg2 true) s j extra with
      | Err _ => false
      | Ok s1 =>
        (serves s1 5 || serves s1 9)
        && match converge (cfg2 true) s1 9 with
           | Ok s2 => serves s2 9 && match recover_state s2 0 0 with Ok l => eq_listN l (range 0 9) | Err _ => false end
           | Err _ => false
           end
      end
    end
  end.

Lemma install_converges_at_every_crash_point :
  forallb (fun n => forallb (fun j => forallb (fun extra => install_crash_check n j extra) (seq 0 3)) (seq 0 3))
          (seq 0 (S (length (ev_install 6 9 (ev_fetch 9))))) = true.
Proof. vm_compute. reflexivity. Qed.

(* ---------- what the model of the installation does not cover, and why its hypotheses are needed ---------- *)

(* OPEN FINDING (known_findings.d/recover.jsonl). The path model follows Readys in which an incoming snapshot comes
   alone (ready_ok); the raft library may also hand out a Ready with the snapshot S AND entries above S, which
   persistRaftState writes in one wal.Save: snapshot record, entries, hard state. A death between the entry records
   and the hard state leaves the WAL image below: the record of 9 is not valid (the last saved commit is 2), the
   restart reads from the older snapshot and meets entry 10 after entry 2: index out of range, the node does not
   start (with the hard state written, or without the entries, it does) *)
Definition wal_snapshot_and_entries (hs : bool) : list seg :=
  [mkSeg 0 ([RSnap 0; REnt 1; REnt 2; RState 2; RSnapIn false 2 9; REnt 10; REnt 11] ++ (if hs then [RState 11] else []))].
Definition wal_snapshot_alone : list seg := [mkSeg 0 [RSnap 0; REnt 1; REnt 2; RState 2; RSnapIn false 2 9]].

Lemma snapshot_and_entries_refuted :
  recover (wal_snapshot_and_entries false) [9] [(9, Some (range 0 9))] = Err E_OUT_OF_RANGE
  /\ recover_isolated (wal_snapshot_and_entries false) [9] [(9, Some (range 0 9))] = Err E_OUT_OF_RANGE
  /\ recover (wal_snapshot_and_entries true) [9] [(9, Some (range 0 9))] = Ok (range 0 11)
  /\ recover wal_snapshot_alone [9] [(9, Some (range 0 9))] = Ok [1; 2].
Proof. vm_compute. repeat split; reflexivity. Qed.

(* the second schedule hypothesis is needed: the backup loop's purgeOldCheckpoint takes the latest snapshot index as
   the bound below which it removes; UpdateSnapshotState sets it to the incoming snapshot's index when the snap file
   and the WAL record are written, before the hard state that makes the record valid. With two local checkpoints whose
   snapshot goroutines have not written their markers yet (6, 7) and the purge starting in that window, the checkpoint
   of the newest valid snapshot (5) is removed; the process dies before the hard state: no backup to restore from.
   The acceptor's check is false on this run *)
Definition trace_ckpt_purge_in_window : list event :=
  ev_write 1 0 true false ++ ev_write 2 0 false true ++ ev_write 3 0 false false ++ ev_write 4 0 false true
  ++ ev_write_snap 5 0 false false ++ ev_sn_to_file 5 ++ ev_sn_rest 5
  ++ [EvPgBefore 3; EvPgAfter 3]
  ++ ev_write_snap 6 5 false false
  ++ ev_rd 7 false false ++ ev_ap 7 6 ++ [EvCkFlush; EvCkSaveBefore; EvCkSaveAfter; EvSnStarted 7; EvApTriggerAfter 7 7]
  ++ [EvRdBegin (rdy_snap 9); EvRdPublish 0 9 9; EvApBefore 7 0 9] ++ ev_fetch 9
  ++ [EvAsPrepared 9; EvRdSaveSnapBefore 9; EvRdSnapFile 9; EvRdSaveSnapAfter 9; EvCkPurgeBefore; EvCkPurgeAfter].

Lemma ckpt_purge_in_window_refuted :
  exists s, run (cfg2 true) init_state trace_ckpt_purge_in_window = Ok s
    /\ acked s = 7 /\ map fst (ckpts s) = [9; 7; 6] /\ recover_state s 0 0 = Err E_NO_BACKUP
    /\ sched_holds_run (cfg2 true) init_state trace_ckpt_purge_in_window = false.
Proof. eexists. vm_compute. repeat split; reflexivity. Qed.

(* ---------- replay does not depend on how the entries are grouped ---------- *)

(* the state the model serves is the list of the applied indices; applying the entries a+1..b and then b+1..c (two
   Readys, two apply batches) gives what applying a+1..c at once gives, so what a restart serves does not depend on how
   raft groups the replayed entries into Readys nor on how the apply loop groups them into batches. That a batch of
   commands written as one engine write batch equals the commands applied one by one is C07 (coq/Determ: batch_equiv,
   coq/Data/Batch.v): the model's engine takes it as its interface *)
Lemma replay_grouping : forall a b c, a <= b -> b <= c -> range a b ++ range b c = range a c.
Proof. intros a b c H1 H2. symmetry. apply range_app; assumption. Qed.

(* ---------- the same installation when the Save of the hard state cuts the WAL segment ---------- *)

(* wal.Save finds the tail segment over its size after it has encoded the hard state: cut() flushes the old segment
   (the record of the snapshot is valid from here on) and starts a new one named after the snapshot's index *)
Definition ev_install_cut (a i : N) (fetch : list event) : list event :=
  ev_install_head a (rdy_snap i) ++ fetch ++
  [EvAsPrepared i; EvRdSaveSnapBefore i; EvRdSnapFile i; EvRdSaveSnapAfter i; EvRdSaveBefore; EvCutBefore (i + 1); EvCutAfter (i + 1); EvRdSaveAfter;
   EvRdApplySnapBefore i; EvAsRaftDone i; EvRsRemoved i; EvRsCopied i; EvRsMarkerGone; EvAsRestored i;
   EvRdApplySnapAfter i; EvRdReleaseAfter i; EvRdAppendAfter; EvRdAdvance] ++ ev_install_end i.

Lemma install_cut_example :
  exists s, run (cfg2 true) init_state (trace_follower_base ++ ev_install_cut 6 9 (ev_fetch 9)) = Ok s
    /\ sched_holds_run (cfg2 true) init_state (trace_follower_base ++ ev_install_cut 6 9 (ev_fetch 9)) = true
    /\ engine s = Some [1; 2; 3; 4; 5; 6; 7; 8; 9] /\ applied s = 9 /\ rs_last s = 9 /\ map sfirst (segs s) = [3; 5; 10]
    /\ recover_state s 0 0 = Ok [1; 2; 3; 4; 5; 6; 7; 8; 9].
Proof. eexists. vm_compute. repeat split; reflexivity. Qed.

Definition install_cut_crash_check (n j extra : nat) : bool :=
  match run (cfg2 true) init_state (trace_follower_base ++ firstn n (ev_install_cut 6 9 (ev_fetch 9))) with
  | Err _ => false
  | Ok s =>
    match image s j extra with
    | None => true
    | Some _ =>
      match crash_restart (cfg2 true) s j extra with
      | Err _ => false
      | Ok s1 =>
        (serves s1 5 || serves s1 9)
        && match converge (cfg2 true) s1 9 with
           | Ok s2 => serves s2 9 && match recover_state s2 0 0 with Ok l => eq_listN l (range 0 9) | Err _ => false end
           | Err _ => false
           end
      end
    end
  end.

Lemma install_cut_converges_at_every_crash_point :
  forallb (fun n => forallb (fun j => forallb (fun extra => install_cut_crash_check n j extra) (seq 0 3)) (seq 0 3))
          (seq 0 (S (length (ev_install_cut 6 9 (ev_fetch 9))))) = true.
Proof. vm_compute. reflexivity. Qed.
