(* Recover/Proofs.v — proofs about the C06 path model (coq/Recover/Path.v). *)
From Coq Require Import NArith List Bool Lia.
From ZV Require Import Recover.Consts Recover.Path.
Import ListNotations.
Open Scope N_scope.

(* a process can die in every state: the crash event is enabled with nothing lost and nothing extra *)
Lemma crash_enabled : forall c s, exists s', step c s (EvCrash 0 0) = Ok s'.
Proof.
  intros c s. unfold step, image. simpl. eexists. reflexivity.
Qed.
