(* Recover/ProofsStepB.v — the invariant is preserved by the snapshot goroutines and the purge loops. *)
From Coq Require Import NArith List Bool Lia Arith FinFun.
From Coq Require Import ZifyN ZifyNat ZifyBool.
From ZV Require Import Recover.Consts Recover.Path Recover.ProofsWal Recover.ProofsLists Recover.ProofsInv Recover.ProofsStepA.
Import ListNotations.
Open Scope N_scope.

Arguments N.add : simpl never.
Arguments N.sub : simpl never.
Arguments N.max : simpl never.
Arguments N.to_nat : simpl never.

(* ---------- the snapshot goroutines ---------- *)

Lemma sn_pc_eqb_eq : forall a b, sn_pc_eqb a b = true -> a = b.
Proof. destruct a, b; simpl; intros; try discriminate; reflexivity. Qed.

Lemma sn_pc_eq_dec : forall a b : sn_pc, {a = b} + {a <> b}.
Proof. decide equality. Qed.

Lemma sn_step_inv : forall s i from to f s',
  sn_step s i from to f = Ok s' ->
  sn_lookup i (sns s) = Some from /\ s' = set_sns (f s) (sn_set i to (sns (f s))).
Proof.
  intros s i from to f s' H. unfold sn_step in H.
  destruct (sn_lookup i (sns s)) as [p|] eqn:L; [|discriminate].
  destruct (sn_pc_eqb p from) eqn:Q; [|discriminate].
  apply sn_pc_eqb_eq in Q. subst p. injection H as <-. split; reflexivity.
Qed.

(* a pure change of one goroutine's program counter (between two states before the marker, or two after it) *)
Lemma vinv_sn_pc : forall c s hi i from to,
  VInv c s hi -> sn_lookup i (sns s) = Some from ->
  from <> SnFile -> to <> SnFile -> to <> SnStarted -> sn_before_marker to = sn_before_marker from ->
  (from = SnStarted -> lookup i (ckpts s) = Some (range 0 i)) ->
  (forall l, ckp s = CkSaving i l -> from <> SnStarted) ->
  VInv c (set_sns s (sn_set i to (sns s))) hi.
Proof.
  intros c s hi i from to HV Hl Hf Ht Hts Hbm Hck Hcs.
  vinv_split HV.
  - intros k p Hk. destruct (N.eq_dec k i) as [->|Hne].
    + rewrite sn_lookup_set_eq in Hk. injection Hk as <-.
      destruct (v_sns i from Hl) as [S1 [S2 [S3 [S4 [S5 [S6 S7]]]]]].
      repeat split; auto.
      * rewrite Hbm. exact S4.
      * intros Hn _. destruct (sn_pc_eq_dec from SnStarted) as [->|Hns]; [apply Hck; reflexivity | apply S5; assumption].
      * intros Hn Hp. contradiction.
      * rewrite Hbm. exact S7.
    + rewrite sn_lookup_set_ne in Hk by exact Hne. apply v_sns. exact Hk.
  - intros f Hin Hn. destruct (v_files f Hin Hn) as [X|X]; [|right; exact X]. destruct (N.eq_dec f i) as [->|Hne].
    + rewrite X in Hl. injection Hl as <-. contradiction.
    + left. rewrite sn_lookup_set_ne by exact Hne. exact X.
  - destruct (ckp s) eqn:Ec; try exact I. destruct v_ck as [K1 [K2 [K3 [K4 K5]]]].
    split; [exact K1|]. split; [exact K2|]. split; [|split; [exact K4 | exact K5]].
    intros k p Hk. destruct (N.eq_dec k i) as [->|Hne].
    + rewrite sn_lookup_set_eq in Hk. injection Hk as <-.
      destruct (K3 i from Hl) as [A B]. split; [exact A|]. intros ->. specialize (B eq_refl).
      exfalso. eapply Hcs; eauto.
    + rewrite sn_lookup_set_ne in Hk by exact Hne. apply K3. exact Hk.
Qed.

Lemma step_sn_ckdone : forall c s s' i, Inv c s -> step c s (EvSnCkDone i) = Ok s' -> Inv c s'.
Proof.
  intros c s s' i [hi [HP HV]] H. unfold step in H.
  destruct (lookup i (ckpts s)) as [l0|] eqn:L; [|discriminate].
  apply sn_step_inv in H. destruct H as [Hl ->].
  exists hi. split; [pframe s|].
  unfold running in *. proj. destruct (rc s) eqn:R; try (destruct HV as [_ [_ [_ [Hs _]]]]; rewrite Hs in Hl; discriminate).
  apply (vinv_sn_pc c s hi i SnStarted SnCkDone); auto; try discriminate.
  - intros _. rewrite L. f_equal. eapply p_ckpts; eauto.
  - intros l Hc _. destruct HV. rewrite Hc in v_ck. destruct v_ck as [_ [_ [_ [K4 _]]]]. congruence.
Qed.

Lemma step_sn_created : forall c s s' i, Inv c s -> step c s (EvSnCreated i) = Ok s' -> Inv c s'.
Proof.
  intros c s s' i [hi [HP HV]] H. unfold step in H.
  apply sn_step_inv in H. destruct H as [Hl ->].
  exists hi. split; [pframe s|].
  unfold running in *. proj. destruct (rc s) eqn:R; try (destruct HV as [_ [_ [_ [Hs _]]]]; rewrite Hs in Hl; discriminate).
  apply (vinv_sn_pc c s hi i SnCkDone SnCreated); auto; try discriminate.
Qed.

Lemma step_sn_started : forall c s s' i, Inv c s -> step c s (EvSnStarted i) = Ok s' -> Inv c s'.
Proof.
  intros c s s' i HI H. start_step H hi HP HV.
  match goal with G : (i =? _) = true |- _ => apply N.eqb_eq in G; subst i end.
  exists hi. split; [pframe s|].
  unfold running in *. proj. destruct (rc s) eqn:R; try (not_running HV).
  pose proof HV as HV0. destruct HV0 as [_ _ _ _ _ _ _ _ v_app _ v_snapi v_sns _ _ _ _ _].
  rewrite E in v_app. destruct v_app as [A1 [A2 A3]]. subst i0.
  assert (Hfresh : forall k p, sn_lookup k (sns s) = Some p -> k < applied s).
  { intros k p Hk. destruct (v_sns k p Hk) as [_ [_ [S3 _]]]. lia. }
  assert (Hnw : newest (segs s) <= snapi s).
  { destruct v_snapi as [_ [X|X]]; [exact X|]. unfold snap_busy in X. rewrite E in X. contradiction. }
  vinv_split HV.
  - split; [lia | left; lia].
  - intros k p Hk. destruct (N.eq_dec k (applied s)) as [->|Hne].
    + rewrite sn_lookup_set_eq in Hk. injection Hk as <-.
      split; [lia|]. split; [exact A2|]. split; [lia|]. split; [|split; [|split]].
      * intros _ Hin. apply newest_ge in Hin. lia.
      * intros _ Hp. contradiction.
      * intros _ Hp. discriminate.
      * intros Hp. discriminate.
    + rewrite sn_lookup_set_ne in Hk by exact Hne.
      destruct (v_sns k p Hk) as [S1 [S2 [S3 S4]]]. split; [exact S1|]. split; [exact S2|]. split; [lia | exact S4].
  - intros f Hin Hn. destruct (v_files f Hin Hn) as [X|X]; [|right; exact X]. destruct (N.eq_dec f (applied s)) as [->|Hne].
    + apply Hfresh in X. lia.
    + left. rewrite sn_lookup_set_ne by exact Hne. exact X.
  - destruct (ckp s) eqn:Ec; try exact I. destruct v_ck as [K1 [K2 [K3 [K4 K5]]]].
    specialize (K5 _ E). subst i.
    split; [exact K1|]. split; [exact K2|]. split; [|split; [exact K4 | intros; discriminate]].
    intros k p Hk. destruct (N.eq_dec k (applied s)) as [->|Hne].
    + rewrite sn_lookup_set_eq in Hk. injection Hk as <-. split; [lia | reflexivity].
    + rewrite sn_lookup_set_ne in Hk by exact Hne. apply K3. exact Hk.
Qed.

Lemma step_sn_file : forall c s s' i, Inv c s -> step c s (EvSnFile i) = Ok s' -> Inv c s'.
Proof.
  intros c s s' i [hi [HP HV]] H. unfold step in H.
  destruct (memN i (unvalidated (all_recs (segs s)))) eqn:Hst; [discriminate|].
  apply sn_step_inv in H. destruct H as [Hl ->].
  unfold running in *. proj. destruct (rc s) eqn:R; try (destruct HV as [_ [_ [_ [Hs _]]]]; rewrite Hs in Hl; discriminate).
  pose proof HV as HV0. destruct HV0 as [_ _ _ _ _ _ _ _ _ _ _ v_sns _ _ _ _ _].
  destruct (v_sns i _ Hl) as [S1 [S2 [S3 [S4 [S5 [S6 S7]]]]]].
  exists hi. split.
  - apply (pinv_files s); try reflexivity; auto; proj.
    + intros Hp. destruct (p_file _ _ HP Hp) as [A B]. split; [|exact B].
      destruct (N.eq_dec (newest (segs s)) i) as [->|Hne]; [left; reflexivity | right; apply removeN_In; split; auto].
    + intros [Hz|Hz]; [lia|]. apply removeN_In in Hz. destruct Hz as [Hz _]. exact (p_nozero _ _ HP Hz).
    + apply cons_removeN_NoDup. exact (p_nodup _ _ HP).
    + intros f [<-|Hin]; [left; destruct (v_done _ _ _ HV); lia|]. apply removeN_In in Hin. destruct Hin as [Hin _]. exact (p_files_le _ _ HP f Hin).
    + exact (p_ckpts _ _ HP).
  - unfold running. proj. rewrite R.
    vinv_split HV.
    + apply (rd_inv_files s); auto. proj. intros j Hj Ej Hin. destruct (N.eq_dec j i) as [->|Hne]; [left; reflexivity | right; apply removeN_In; split; auto].
    + intros k p Hk. destruct (N.eq_dec k i) as [->|Hne].
      * rewrite sn_lookup_set_eq in Hk. injection Hk as <-.
        split; [exact S1|]. split; [exact S2|]. split; [exact S3|]. split; [exact S4|]. split; [|split].
        -- intros Hn _. apply S5; [exact Hn | discriminate].
        -- intros _ _. left. reflexivity.
        -- intros Hp. discriminate.
      * rewrite sn_lookup_set_ne in Hk by exact Hne.
        destruct (v_sns k p Hk) as [T1 [T2 [T3 [T4 [T5 [T6 T7]]]]]].
        repeat split; auto. intros Hn Hp. right. apply removeN_In. split; auto.
    + intros f [<-|Hin] Hn.
      * left. apply sn_lookup_set_eq.
      * apply removeN_In in Hin. destruct Hin as [Hin Hne]. rewrite sn_lookup_set_ne by exact Hne. apply v_files; assumption.
    + intros u Hu. destruct (v_unval u Hu) as [X|[X|X]]; auto. right. left. intros [<-|Hin].
      * assert (Hm : memN i (unvalidated (all_recs (segs s))) = true) by (apply memN_In; exact Hu). congruence.
      * apply removeN_In in Hin. tauto.
    + destruct (ckp s) eqn:Ec; try exact I. destruct v_ck as [K1 [K2 [K3 [K4 K5]]]].
      split; [exact K1|]. split; [exact K2|]. split; [|split; [exact K4 | exact K5]].
      intros k p Hk. destruct (N.eq_dec k i) as [->|Hne].
      * rewrite sn_lookup_set_eq in Hk. injection Hk as <-.
        destruct (K3 i _ Hl) as [A B]. split; [exact A|]. intros ->. specialize (B eq_refl). discriminate.
      * rewrite sn_lookup_set_ne in Hk by exact Hne. apply K3. exact Hk.
Qed.

Lemma marker_markers : forall ss i, ss <> [] ->
  pmarkers (all_recs (app_tail ss [RSnap i])) = pmarkers (all_recs ss) ++ [i].
Proof. intros. rewrite app_tail_recs by auto. rewrite pmarkers_app. reflexivity. Qed.

Lemma marker_unvalidated : forall ss i, ss <> [] ->
  unvalidated (all_recs (app_tail ss [RSnap i])) = unvalidated (all_recs ss).
Proof. intros. rewrite app_tail_recs by auto. rewrite unvalidated_app. simpl. rewrite app_nil_r. reflexivity. Qed.

Lemma marker_lc : forall ss i, ss <> [] -> last_commit (all_recs (app_tail ss [RSnap i])) = last_commit (all_recs ss).
Proof. intros. rewrite app_tail_recs by auto. apply last_commit_nostate. reflexivity. Qed.

(* the raft loop's clause when a local snapshot's marker is appended to the WAL (and the WAL is flushed) *)
Lemma rd_inv_marker : forall s s' hi i,
  segs s <> [] -> rd_inv s hi -> segs s' = app_tail (segs s) [RSnap i] -> unflushed s' = 0%nat ->
  rdp s' = rdp s -> rs_last s' = rs_last s -> published s' = published s -> wstate s' = wstate s -> hcommit s' = hcommit s ->
  proposed s' = proposed s -> ckpts s' = ckpts s -> snapfiles s' = snapfiles s -> app s' = app s ->
  rd_done s' = rd_done s -> i <= applied s -> (forall j, app s = ApSnapPrepared j -> applied s < j) -> rd_inv s' hi.
Proof.
  intros s s' hi i Hne H Es Eu E3 E4 E5 E6 E7 E8 E10 E11 Eap Erd Hia Hapj.
  assert (H1 : last_commit (all_recs (segs s')) = last_commit (all_recs (segs s))) by (rewrite Es; apply marker_lc; auto).
  assert (H2 : forall i0, lc_all_lt s i0 -> lc_all_lt s' i0).
  { intros i0 L j Hj. rewrite Eu in Hj. assert (j = 0%nat) by lia. subst j. rewrite drop_tail_0, H1.
    specialize (L 0%nat ltac:(lia)). rewrite drop_tail_0 in L. exact L. }
  assert (H3 : flushed_state s -> flushed_state s').
  { intros F j Hj. rewrite Eu in Hj. assert (j = 0%nat) by lia. subst j. rewrite drop_tail_0, Es, app_tail_recs by auto.
    apply has_state_app_l. specialize (F 0%nat ltac:(lia)). rewrite drop_tail_0 in F. exact F. }
  assert (H4 : forall i0, snap_tail s hi i0 -> snap_tail s' hi i0).
  { intros i0 T. eapply (snap_tail_app s s'); eauto. }
  assert (H5 : forall i0 : N, (forall j, (0 < j <= unflushed s')%nat -> last_commit (all_recs (drop_tail (segs s') j)) < i0)).
  { intros i0 j Hj. rewrite Eu in Hj. lia. }
  unfold rd_inv, window, snapfacts, ckpt_ok, pubcl, rlast in *.
  rewrite E3, E4, E5, E6, E7, E8, E10, E11, H1, Eap.
  destruct (rdp s) as [|r sv pb|r pb apd|r pb idx|r|r fl|r|r k|r k cidx]; auto.
  - destruct (0 <? r_snap r); destruct sv; intuition.
  - destruct (0 <? r_snap r); destruct apd; intuition.
  - destruct (0 <? r_snap r); intuition.
  - intuition.
  - intuition.
  - destruct H as [A [B [C [D E]]]]. repeat split; auto. rewrite Es, newest_app_tail_marker by auto. lia.
  - destruct H as [A0 [A1 [A2 [A3 [A4 [A5 [A6 [A7 A8]]]]]]]]. specialize (Hapj _ A6).
    rewrite Erd, Eu. repeat split; auto; [rewrite Es, newest_app_tail_marker by auto; lia | destruct k; auto; tauto].
Qed.

Lemma step_sn_marked : forall c s s' i, Inv c s -> step c s (EvSnMarked i) = Ok s' -> Inv c s'.
Proof.
  intros c s s' i [hi [HP HV]] H. unfold step in H.
  apply sn_step_inv in H. destruct H as [Hl ->].
  unfold running in *. proj. destruct (rc s) eqn:R; try (destruct HV as [_ [_ [_ [Hs _]]]]; rewrite Hs in Hl; discriminate).
  pose proof (pinv_segs_nonempty _ _ HP) as Hne.
  pose proof HV as HV0. destruct HV0 as [_ _ _ _ _ v_done _ _ _ _ _ v_sns _ _ _ _ _].
  destruct (v_sns i _ Hl) as [S1 [S2 [S3 [S4 [S5 [S6 S7]]]]]].
  destruct v_done as [D1 [D2 D3]].
  exists hi. split.
  - apply (pinv_marker s _ hi i); try reflexivity; auto; try lia.
    intros Hn. split; [apply S6; auto | apply S5; auto; discriminate].
  - unfold running. proj. rewrite R.
    assert (Hnw : newest (app_tail (segs s) [RSnap i]) = N.max (newest (segs s)) i) by (apply newest_app_tail_marker; auto).
    assert (Hnb : newest (segs s) <= snapi s \/ snap_busy s) by (destruct (v_snapi _ _ _ HV); assumption).
    assert (Hsa : snapi s <= applied s) by (destruct (v_snapi _ _ _ HV); assumption).
    pose proof (vinv_app_inv _ _ _ HV) as Hai.
    match goal with |- VInv c ?st _ => set (s1 := st) end.
    assert (Hai' : app_inv s1 hi).
    { apply (app_inv_marker s s1 hi i); auto; try (unfold s1; proj; reflexivity); try lia.
      all: try (unfold pend_idx, pend_r, pending, s1; proj; reflexivity).
      all: try (unfold s1; proj; exact Hnw). }
    unfold app_inv, snap_pend, snap_done, snap_mid in Hai'.
    replace (pend_idx s1) with (pend_idx s) in Hai' by (unfold pend_idx, pend_r, pending, s1; proj; reflexivity).
    unfold s1 in *. clear s1. proj. rewrite Hnw in Hai'.
    vinv_split HV; rewrite ?Hnw, ?marker_lc, ?marker_unvalidated, ?app_tail_length, ?nth_sfirst_app_tail by auto; try assumption.
    + (* raft loop: only the unflushed counter and the WAL view changed *)
      apply (rd_inv_marker s _ hi i); auto; [lia|].
      intros j Hj. rewrite Hj in v_app. tauto.
    + destruct v_nrel as [N1 N2]. split; [exact N1 | lia].
    + destruct v_latest as [L1 L2]. split; [destruct L1 as [L1|L1]; [left; lia | right; exact L1]|]. intros lat Hlat. specialize (L2 lat Hlat). lia.
    + destruct v_snapi as [A B]. split; [exact A|]. destruct B as [B|B]; [left; lia | right; exact B].
    + intros k p Hk. rewrite marker_markers by auto. destruct (N.eq_dec k i) as [->|Hnk].
      * rewrite sn_lookup_set_eq in Hk. injection Hk as <-.
        split; [exact S1|]. split; [exact S2|]. split; [exact S3|]. split; [intros; discriminate|].
        split; [intros; lia|]. split; [intros; lia | intros; lia].
      * rewrite sn_lookup_set_ne in Hk by exact Hnk.
        destruct (v_sns k p Hk) as [T1 [T2 [T3 [T4 [T5 [T6 T7]]]]]].
        split; [exact T1|]. split; [exact T2|]. split; [exact T3|]. split; [|split; [|split]].
        -- intros Hb Hin. apply in_app_or in Hin. destruct Hin as [Hin|[Hin|[]]]; [exact (T4 Hb Hin) | congruence].
        -- intros Hn Hp. apply T5; [lia | exact Hp].
        -- intros Hn Hp. apply T6; [lia | exact Hp].
        -- intros Hb. specialize (T7 Hb). lia.
    + intros f Hin Hn. destruct (N.eq_dec f i) as [->|Hnf]; [lia|].
      destruct (v_files f Hin ltac:(lia)) as [X|X]; [left; rewrite sn_lookup_set_ne by exact Hnf; exact X | right; exact X].
    + intros f Hf. specialize (v_pgsnap f Hf). lia.
    + intros u Hu. destruct (v_unval u Hu) as [X|[X|X]]; auto. left. lia.
    + destruct (ckp s) eqn:Ec; try exact I. destruct v_ck as [K1 [[K2 K2'] [K3 [K4 K5]]]].
      destruct (K3 i _ Hl) as [A B].
      assert (i <> i0) by (intros ->; specialize (B eq_refl); discriminate).
      split; [exact K1|]. split; [split; [lia | exact K2']|]. split; [|split; [exact K4 | exact K5]].
      intros k p Hk. destruct (N.eq_dec k i) as [->|Hnk].
      * rewrite sn_lookup_set_eq in Hk. injection Hk as <-. split; [exact A | intros; contradiction].
      * rewrite sn_lookup_set_ne in Hk by exact Hnk. apply K3. exact Hk.
Qed.

(* wal.ReleaseLockTo *)
Lemma first_ge_spec : forall ls i pos,
  match first_ge ls i pos with
  | Some p => (pos <= p < pos + length ls)%nat /\ (forall q, (q < p - pos)%nat -> sfirst (nth q ls (mkSeg 0 [])) < i)
  | None => forall q, (q < length ls)%nat -> sfirst (nth q ls (mkSeg 0 [])) < i
  end.
Proof.
  induction ls as [|x t IH]; intros i pos; simpl.
  - intros q Hq. lia.
  - destruct (i <=? sfirst x) eqn:Q.
    + split; [lia|]. intros q Hq. lia.
    + specialize (IH i (S pos)). destruct (first_ge t i (S pos)) as [p|].
      * destruct IH as [A B]. split; [lia|]. intros q Hq. destruct q; [lia|]. apply B. lia.
      * intros q Hq. destruct q; [lia|]. apply IH. lia.
Qed.

Lemma release_to_spec : forall ss nrel i, (nrel < length ss)%nat ->
  (nrel <= release_to ss nrel i < length ss)%nat
  /\ (release_to ss nrel i = nrel \/ sfirst (nth (release_to ss nrel i) ss (mkSeg 0 [])) < i).
Proof.
  intros ss nrel i Hn. unfold release_to.
  assert (Hlen : length (skipn nrel ss) = (length ss - nrel)%nat) by apply skipn_length.
  assert (Hnth : forall q, nth q (skipn nrel ss) (mkSeg 0 []) = nth (nrel + q) ss (mkSeg 0 [])).
  { intros q. rewrite <- (firstn_skipn nrel ss) at 2. rewrite app_nth2; rewrite firstn_length_le by lia; [|lia].
    f_equal. lia. }
  pose proof (first_ge_spec (skipn nrel ss) i 0) as S.
  destruct (first_ge (skipn nrel ss) i 0) as [p|].
  - destruct S as [A B]. split; [lia|]. destruct p as [|p']; [left; simpl; lia|].
    right. simpl. rewrite <- Hnth. apply B. lia.
  - split; [lia|]. destruct (length (skipn nrel ss)) as [|n'] eqn:L; [lia|].
    destruct n' as [|n'']; [left; simpl; lia|].
    right. simpl. rewrite <- Hnth. apply S. lia.
Qed.

Lemma step_sn_synced : forall c s s' i, Inv c s -> step c s (EvSnSynced i) = Ok s' -> Inv c s'.
Proof.
  intros c s s' i [hi [HP HV]] H. unfold step in H.
  apply sn_step_inv in H. destruct H as [Hl ->].
  unfold running in *. proj. destruct (rc s) eqn:R; try (destruct HV as [_ [_ [_ [Hs _]]]]; rewrite Hs in Hl; discriminate).
  exists hi. split; [pframe s|].
  unfold running. proj. rewrite R.
  apply (vinv_sn_pc c _ hi i SnMarked SnSynced HV); auto; try discriminate.
Qed.

Lemma step_sn_released : forall c s s' i, Inv c s -> step c s (EvSnReleased i) = Ok s' -> Inv c s'.
Proof.
  intros c s s' i [hi [HP HV]] H. unfold step in H.
  apply sn_step_inv in H. destruct H as [Hl ->].
  unfold running in *. proj. destruct (rc s) eqn:R; try (destruct HV as [_ [_ [_ [Hs _]]]]; rewrite Hs in Hl; discriminate).
  exists hi. split; [pframe s|].
  unfold running. proj. rewrite R.
  assert (HV' : VInv c (set_nrel s (release_to (segs s) (nrel s) i)) hi).
  { pose proof HV as HV0. destruct HV0 as [_ _ v_nrel _ _ _ _ _ _ _ _ v_sns _ _ _ _ _].
    destruct (v_sns i _ Hl) as [_ [_ [_ [_ [_ [_ S7]]]]]]. specialize (S7 eq_refl).
    destruct v_nrel as [N1 N2]. destruct (release_to_spec (segs s) (nrel s) i N1) as [A [B|B]].
    - rewrite B. vinv_split HV.
    - vinv_split HV; [split; lia | destruct v_pgwal as [Pw Pr]; split; [intros Hw; specialize (Pw Hw); lia | exact Pr]]. }
  apply (vinv_sn_pc c _ hi i SnSynced SnReleased HV'); auto; try discriminate.
Qed.

Lemma step_sn_updated : forall c s s' i, Inv c s -> step c s (EvSnUpdated i) = Ok s' -> Inv c s'.
Proof.
  intros c s s' i [hi [HP HV]] H. unfold step in H.
  apply sn_step_inv in H. destruct H as [Hl ->].
  unfold running in *. proj. destruct (rc s) eqn:R; try (destruct HV as [_ [_ [_ [Hs _]]]]; rewrite Hs in Hl; discriminate).
  exists hi. split; [pframe s|].
  unfold running. proj. rewrite R.
  assert (HV' : VInv c (set_latest s i) hi).
  { pose proof HV as HV0. destruct HV0 as [_ _ _ _ _ _ _ _ _ _ _ v_sns _ _ _ _ _].
    destruct (v_sns i _ Hl) as [_ [_ [_ [_ [_ [_ S7]]]]]]. specialize (S7 eq_refl).
    vinv_split HV. destruct v_latest as [L1 L2]. split; [left; exact S7 | exact L2]. }
  apply (vinv_sn_pc c _ hi i SnReleased SnUpdated HV'); auto; try discriminate.
Qed.

Lemma step_sn_compacted : forall c s s' i, Inv c s -> step c s (EvSnCompacted i) = Ok s' -> Inv c s'.
Proof.
  intros c s s' i HI H. start_step H hi HP HV.
  exists hi. split; [pframe s|].
  unfold running in *. proj. destruct (rc s) eqn:R; try (not_running HV).
  vinv_split HV.
  - intros k p Hk. destruct (N.eq_dec k i) as [->|Hne].
    + rewrite sn_lookup_remove_eq in Hk. discriminate.
    + rewrite sn_lookup_remove_ne in Hk by exact Hne. apply v_sns. exact Hk.
  - intros f Hin Hn. destruct (v_files f Hin Hn) as [X|X]; [|right; exact X]. destruct (N.eq_dec f i) as [->|Hne].
    + congruence.
    + left. rewrite sn_lookup_remove_ne by exact Hne. exact X.
  - destruct (ckp s) eqn:Ec; try exact I. destruct v_ck as [K1 [K2 [K3 [K4 K5]]]].
    split; [exact K1|]. split; [exact K2|]. split; [|split; [exact K4 | exact K5]].
    intros k p Hk. destruct (N.eq_dec k i) as [->|Hne].
    + rewrite sn_lookup_remove_eq in Hk. discriminate.
    + rewrite sn_lookup_remove_ne in Hk by exact Hne. apply K3. exact Hk.
Qed.

(* ---------- the purge loops ---------- *)

Lemma eff_keep_snap_ge2 : forall c, (2 <= eff_keep_snap c)%nat.
Proof.
  intros c. unfold eff_keep_snap. destruct (Nat.leb (keep_backup c) 1) eqn:Q.
  - unfold default_keep_backup. lia.
  - apply Nat.leb_gt in Q. lia.
Qed.

Lemma sn_lookup_in : forall i p l, sn_lookup i l = Some p -> In (i, p) l.
Proof.
  induction l as [|[j q] t IH]; simpl; intros H; [discriminate|].
  destruct (i =? j) eqn:E; [injection H as <-; apply N.eqb_eq in E; subst; left; reflexivity | right; auto].
Qed.

(* distinct snap files that all belong to goroutines in the window: there are at least that many goroutines there *)
Lemma count_window_files : forall (l : list N) sns0,
  NoDup l -> (forall f, In f l -> sn_lookup f sns0 = Some SnFile) -> (length l <= win_count sns0)%nat.
Proof.
  intros l sns0 Hnd Hall. unfold win_count.
  rewrite <- (map_length (fun f => (f, SnFile)) l).
  apply NoDup_incl_length.
  - apply FinFun.Injective_map_NoDup; [|exact Hnd]. intros x y E. injection E as ->. reflexivity.
  - intros q Hq. apply in_map_iff in Hq. destruct Hq as [f [<- Hf]]. apply filter_In. split; [|reflexivity].
    apply sn_lookup_in. apply Hall. exact Hf.
Qed.

Lemma removeN_length : forall m l, NoDup l -> In m l -> S (length (removeN m l)) = length l.
Proof.
  induction l as [|a t IH]; intros Hnd Hin; [destruct Hin|].
  inversion Hnd as [|? ? Hna Hnt]; subst. unfold removeN in *. simpl.
  destruct (m =? a) eqn:E.
  - apply N.eqb_eq in E. subst a. simpl. f_equal.
    assert (G : forall l0, ~ In m l0 -> filter (fun y => negb (m =? y)) l0 = l0).
    { induction l0 as [|b u IHu]; simpl; intros Hn; auto. destruct (m =? b) eqn:Eb.
      - apply N.eqb_eq in Eb. subst. exfalso. apply Hn. left. reflexivity.
      - simpl. f_equal. apply IHu. intros Hx. apply Hn. right. exact Hx. }
    rewrite G by exact Hna. reflexivity.
  - simpl. f_equal. apply IH; auto. destruct Hin as [->|Hin]; [rewrite N.eqb_refl in E; discriminate | exact Hin].
Qed.

(* the same with the file of an incoming snapshot whose record is not valid yet *)
Lemma count_window_files2 : forall (l : list N) sns0 p (w : nat),
  NoDup l -> (forall f, In f l -> sn_lookup f sns0 = Some SnFile \/ (f = p /\ w = 1%nat)) -> (length l <= win_count sns0 + w)%nat.
Proof.
  intros l sns0 p w Hnd Hall.
  destruct (in_dec N.eq_dec p l) as [Hin|Hnin].
  - destruct (Hall p Hin) as [X|[_ X]].
    + assert (length l <= win_count sns0)%nat; [|lia]. apply count_window_files; auto.
      intros f Hf. destruct (Hall f Hf) as [Y|[Y _]]; [exact Y | subst f; exact X].
    + subst w. pose proof (removeN_length p l Hnd Hin) as Hl.
      assert (length (removeN p l) <= win_count sns0)%nat; [|lia].
      apply count_window_files; [apply removeN_NoDup; exact Hnd|].
      intros f Hf. apply removeN_In in Hf. destruct Hf as [Hf Hne]. destruct (Hall f Hf) as [Y|[Y _]]; [exact Y | congruence].
  - assert (length l <= win_count sns0)%nat; [|lia]. apply count_window_files; auto.
    intros f Hf. destruct (Hall f Hf) as [Y|[Y _]]; [exact Y | subst f; contradiction].
Qed.

Lemma step_pg_before : forall c s s' k, Inv c s -> (k = 4 -> window_ok c s) -> step c s (EvPgBefore k) = Ok s' -> Inv c s'.
Proof.
  intros c s s' k HI SW0 H. start_step H hi HP HV; norm_guards.
  - (* wal *)
    exists hi. split; [pframe s|].
    unfold running in *. proj. destruct (rc s) eqn:R; try discriminate.
    vinv_split HV. destruct v_pgwal as [Pw Pr]. split; [intros _|exact Pr].
    match goal with G : _ && _ = true |- _ => apply andb_true_iff in G; destruct G as [_ G]; apply Nat.ltb_lt in G; exact G end.
  - (* snap *)
    exists hi. split; [pframe s|].
    unfold running in *. proj. destruct (rc s) eqn:R; try discriminate.
    match goal with G : minl _ = Some ?m |- _ => rename m into mn; rename G into Gm end.
    match goal with G : Nat.ltb _ _ = true |- _ => apply Nat.ltb_lt in G; rename G into Glen end.
    destruct (minl_spec _ _ Gm) as [Min Mle].
    assert (SW : window_ok c s).
    { apply SW0. match goal with G : (k =? 4) = true |- _ => apply N.eqb_eq in G; exact G end. }
    assert (Hlt : mn < newest (segs s)).
    { destruct (N.lt_ge_cases mn (newest (segs s))) as [L|L]; [exact L|exfalso].
      destruct HV.
      (* every other file is newer than the newest marker, hence belongs to a goroutine in the window *)
      assert (Hcnt : (length (removeN mn (snapfiles s)) <= win_count (sns s) + in_window s)%nat).
      { apply (count_window_files2 _ _ (pend_idx s)).
        - apply removeN_NoDup. exact (p_nodup _ _ HP).
        - intros f Hf. apply removeN_In in Hf. destruct Hf as [Hf Hne]. apply v_files; [exact Hf|].
          specialize (Mle f Hf). lia. }
      pose proof (removeN_length mn (snapfiles s) (p_nodup _ _ HP) Min). unfold window_ok in SW. lia. }
    vinv_split HV. intros f Hf. injection Hf as <-. exact Hlt.
Qed.

Lemma chain_second_le : forall x y t lo hi n, seg_chain lo (x :: y :: t) hi -> (n < length (y :: t))%nat ->
  sfirst y <= sfirst (nth n (y :: t) (mkSeg 0 [])).
Proof.
  intros x y t lo hi n C Hn. destruct C as [mid [_ [_ [_ [F C]]]]].
  destruct n; [simpl; lia|]. simpl.
  assert (In (nth n t (mkSeg 0 [])) t) by (apply nth_In; simpl in Hn; lia).
  pose proof (seg_chain_firsts_ge _ _ _ _ _ C H). lia.
Qed.

Lemma tl_views : forall s hi x y t, PInv s hi -> segs s = x :: y :: t ->
  last_commit (all_recs (y :: t)) = last_commit (all_recs (x :: y :: t))
  /\ (forall i, In i (pmarkers (all_recs (y :: t))) -> In i (pmarkers (all_recs (x :: y :: t))))
  /\ (forall i, In i (unvalidated (all_recs (y :: t))) -> In i (unvalidated (all_recs (x :: y :: t)))).
Proof.
  intros s hi x y t P E. split; [|split].
  - rewrite (all_recs_cons x). symmetry. apply last_commit_suffix.
    destruct (p_heads _ _ P [x] y t ltac:(rewrite E; reflexivity) ltac:(congruence)) as [c0 [rest Er]].
    rewrite all_recs_cons, Er. reflexivity.
  - intros i Hi. rewrite (all_recs_cons x), pmarkers_app. apply in_or_app. right. exact Hi.
  - intros i Hi. rewrite (all_recs_cons x), unvalidated_app. apply in_or_app. right. exact Hi.
Qed.

Lemma step_pg_after : forall c s s' k, Inv c s -> step c s (EvPgAfter k) = Ok s' -> Inv c s'.
Proof.
  intros c s s' k HI H. start_step H hi HP HV; norm_guards.
  - (* wal: the oldest segment goes *)
    unfold running in *. proj. destruct (rc s) eqn:R; try (not_running HV).
    pose proof HV as HV0. destruct HV0 as [_ _ v_nrel _ _ _ _ _ _ _ _ _ _ _ _ v_pgwal _].
    destruct v_pgwal as [v_pgwal Prs]. match goal with G : pg_wal s = true |- _ => specialize (v_pgwal G) end.
    destruct v_nrel as [N1 N2].
    assert (Hex : exists x y t, segs s = x :: y :: t).
    { destruct (segs s) as [|x [|y t]]; simpl in N1; try lia. eauto. }
    destruct Hex as [x [y [t Ess]]].
    assert (Etl : tl (segs s) = y :: t) by (rewrite Ess; reflexivity). rewrite Etl.
    assert (Hy : sfirst y <= newest (segs s)).
    { pose proof (p_chain _ _ HP) as C. rewrite Ess in C, N1, N2.
      destruct (nrel s) as [|n'] eqn:En; [lia|]. simpl in N1.
      change (nth (S n') (x :: y :: t) (mkSeg 0 [])) with (nth n' (y :: t) (mkSeg 0 [])) in N2.
      pose proof (chain_second_le x y t _ hi n' C ltac:(simpl; lia)). rewrite Ess. lia. }
    destruct (pinv_purge_wal s (set_pg_wal (set_nrel (set_segs s (y :: t)) (Nat.pred (nrel s))) false) hi x y t HP Ess) as [HP' Hnw]; try reflexivity; auto.
    destruct (tl_views s hi x y t HP Ess) as [Hlc [Hmk Hun]].
    exists hi. split; [exact HP'|].
    unfold running. proj. rewrite R. cbn [segs set_pg_wal set_nrel set_segs] in Hnw. rewrite <- Ess in Hlc.
    assert (Hmk' : forall i, In i (pmarkers (all_recs (y :: t))) -> In i (pmarkers (all_recs (segs s)))) by (rewrite Ess; exact Hmk).
    assert (Hun' : forall i, In i (unvalidated (all_recs (y :: t))) -> In i (unvalidated (all_recs (segs s)))) by (rewrite Ess; exact Hun).
    pose proof (vinv_app_inv _ _ _ HV) as Hai.
    match goal with |- VInv c ?st _ => set (s1 := st) end.
    assert (Hai' : app_inv s1 hi).
    { apply (app_inv_marker s s1 hi 0); auto; try (unfold s1; proj; reflexivity); try lia.
      all: try (unfold pend_idx, pend_r, pending, s1; proj; reflexivity).
      unfold s1. proj. rewrite Hnw. lia. }
    unfold app_inv, snap_pend, snap_done, snap_mid in Hai'.
    replace (pend_idx s1) with (pend_idx s) in Hai' by (unfold pend_idx, pend_r, pending, s1; proj; reflexivity).
    unfold s1 in *. clear s1. proj. rewrite ?Hnw in Hai'.
    vinv_split HV; proj; rewrite ?Hlc, ?Hnw; try assumption.
    + apply (rd_inv_purge_wal s _ hi x y t); auto.
    + rewrite Ess in N1. rewrite Ess in N2 at 1. destruct (nrel s) as [|n'] eqn:En; [lia|]. simpl in N1. split; [simpl; lia|].
      change (nth (S n') (x :: y :: t) (mkSeg 0 [])) with (nth n' (y :: t) (mkSeg 0 [])) in N2. exact N2.
    + intros i p Hl. destruct (v_sns i p Hl) as [S1 [S2 [S3 [S4 [S5 [S6 S7]]]]]].
      repeat split; auto. intros Hb Hin. apply (S4 Hb). apply Hmk'. exact Hin.
    + intros u Hu. apply v_unval. apply Hun'. exact Hu.
    + split; [intros; discriminate | exact Prs].
  - (* snap: the file chosen at "before" goes *)
    unfold running in *. proj. destruct (rc s) eqn:R; try (not_running HV).
    pose proof HV as HV0. destruct HV0 as [_ _ _ _ _ _ _ _ _ _ _ _ _ v_pgsnap _ _ _].
    match goal with G : pg_snap s = Some ?m |- _ => specialize (v_pgsnap _ G); rename m into mn end.
    exists hi. split.
    + apply (pinv_files s); try reflexivity; auto; proj.
      * intros Hp. destruct (p_file _ _ HP Hp) as [A B]. split; [|exact B]. apply removeN_In. split; [exact A | lia].
      * intros Hz. apply removeN_In in Hz. destruct Hz as [Hz _]. exact (p_nozero _ _ HP Hz).
      * apply removeN_NoDup. exact (p_nodup _ _ HP).
      * intros f Hin. apply removeN_In in Hin. destruct Hin as [Hin _]. exact (p_files_le _ _ HP f Hin).
      * exact (p_ckpts _ _ HP).
    + unfold running. proj. rewrite R. pose proof (pinv_newest_le_hi _ _ HP) as Hnh. vinv_split HV.
      * apply (rd_inv_files s); auto. proj. intros j Hj Ej Hin. apply removeN_In. split; [exact Hin|].
        pose proof (pend_above _ _ v_rd ltac:(lia)). lia.
      * intros i p Hl. destruct (v_sns i p Hl) as [S1 [S2 [S3 [S4 [S5 [S6 S7]]]]]].
        repeat split; auto. intros Hn Hp. apply removeN_In. split; [auto | lia].
      * intros f Hin Hn. apply removeN_In in Hin. destruct Hin as [Hin _]. apply v_files; assumption.
      * intros; discriminate.
      * intros u Hu. destruct (v_unval u Hu) as [X|[X|X]]; auto. right. left. intros Hin. apply removeN_In in Hin. tauto.
Qed.
