(* Recover/ProofsMain.v — the invariant holds along every run of the path model (all interleavings, all crash
   points, any number of crash / restart cycles), and what follows from it for a restart. *)
From Coq Require Import NArith List Bool Lia Arith.
From Coq Require Import ZifyN ZifyNat ZifyBool.
From ZV Require Import Recover.Consts Recover.Path Recover.ProofsWal Recover.ProofsLists Recover.ProofsWal2 Recover.ProofsInv
  Recover.ProofsStepA Recover.ProofsStepB Recover.ProofsStepC.
Import ListNotations.
Open Scope N_scope.

(* the events of a replica that never receives a snapshot from its leader (MsgSnap): no Ready carries one, and the
   sub-steps of a snapshot's installation do not occur *)
Definition is_local (e : event) : bool :=
  match e with
  | EvRdBegin r => r_snap r =? 0
  | EvFsMark _ | EvFsCopy _ | EvFsComplete _ | EvFsLocalOk _ | EvAsPrepared _ | EvAsRaftDone _ | EvAsRestored _
  | EvRdSaveSnapBefore _ | EvRdSnapFile _ | EvRdSaveSnapAfter _ | EvRdApplySnapBefore _ | EvRdApplySnapAfter _
  | EvRdReleaseAfter _ => false
  | _ => true
  end.
Definition local_only (evs : list event) : Prop := forallb is_local evs = true.

Lemma inv_step : forall c s ev s', fixed c -> is_local ev = true -> Inv c s -> (ev = EvPgBefore 4 -> window_ok c s) -> step c s ev = Ok s' -> Inv c s'.
Proof.
  intros c s ev s' Hfx Hloc HI SW H. destruct ev; try discriminate Hloc.
  - eapply step_rd_begin; eauto. simpl in Hloc. apply N.eqb_eq in Hloc. exact Hloc.
  - eapply step_rd_save_before; eauto.
  - eapply step_rd_save_after; eauto.
  - eapply step_cut_before; eauto.
  - eapply step_cut_after; eauto.
  - eapply step_rd_publish; eauto.
  - eapply step_rd_append_after; eauto.
  - eapply step_rd_advance; eauto.
  - eapply step_ap_before; eauto.
  - eapply step_ap_after; eauto.
  - eapply step_ap_raftdone; eauto.
  - eapply step_ap_trigger_before; eauto.
  - eapply step_ap_trigger_after; eauto.
  - eapply step_ck_flush; eauto.
  - eapply step_ck_save_before; eauto.
  - eapply step_ck_save_after; eauto.
  - eapply step_ck_purge_before; eauto.
  - eapply step_ck_purge_after; eauto.
  - eapply step_ck_partial; eauto.
  - eapply step_ck_purge_one; eauto.
  - eapply step_sn_started; eauto.
  - eapply step_sn_ckdone; eauto.
  - eapply step_sn_created; eauto.
  - eapply step_sn_file; eauto.
  - eapply step_sn_marked; eauto.
  - eapply step_sn_synced; eauto.
  - eapply step_sn_released; eauto.
  - eapply step_sn_updated; eauto.
  - eapply step_sn_compacted; eauto.
  - eapply step_pg_before; eauto. intros ->. apply SW. reflexivity.
  - eapply step_pg_after; eauto.
  - eapply step_crash; eauto.
  - eapply step_rc_fresh; eauto.
  - eapply step_rc_chosen; eauto.
  - eapply step_rc_none; eauto.
  - eapply step_rs_removed; eauto.
  - eapply step_rs_copied; eauto.
  - eapply step_rc_restored; eauto.
  - eapply step_rs_marker_gone; eauto.
  - eapply step_rc_replay; eauto.
Qed.

(* the schedule hypothesis along a run: whenever the snap directory purge decides to remove a file, fewer snapshot
   goroutines than snap files it keeps (>= 2) are between "snap file written" and "WAL marker written" *)
Fixpoint sched_ok (c : config) (s : state) (evs : list event) : Prop :=
  match evs with
  | [] => True
  | e :: t => (e = EvPgBefore 4 -> window_ok c s) /\ match step c s e with Ok s' => sched_ok c s' t | Err _ => True end
  end.

(* the acceptor evaluates [sched_holds] before every event of every real run and rejects the log when it is false:
   the hypothesis of the theorems is checked, not assumed, on the runs the correspondence is established on *)
Lemma sched_holds_ok : forall c s e, sched_holds c s e = true -> (e = EvPgBefore 4 -> window_ok c s).
Proof. intros c s e H ->. unfold sched_holds in H. unfold window_ok, win_count. apply Nat.ltb_lt in H. lia. Qed.

Fixpoint sched_holds_run (c : config) (s : state) (evs : list event) : bool :=
  match evs with
  | [] => true
  | e :: t => sched_holds c s e && match step c s e with Ok s' => sched_holds_run c s' t | Err _ => true end
  end.

Lemma sched_holds_run_ok : forall c evs s, sched_holds_run c s evs = true -> sched_ok c s evs.
Proof.
  induction evs as [|e t IH]; intros s H; simpl in *; auto.
  apply andb_true_iff in H. destruct H as [H1 H2]. split.
  - apply sched_holds_ok. exact H1.
  - destruct (step c s e); auto.
Qed.

Lemma inv_run : forall c evs s s', fixed c -> local_only evs -> Inv c s -> sched_ok c s evs -> run c s evs = Ok s' -> Inv c s'.
Proof.
  intros c evs s s' Hfx. revert s s'. induction evs as [|e t IH]; intros s s' HL HI HS H; simpl in H.
  - injection H as <-. exact HI.
  - simpl in HS. destruct HS as [SW HS]. destruct (step c s e) as [s1|] eqn:E; [|discriminate].
    unfold local_only in HL. simpl in HL. apply andb_true_iff in HL. destruct HL as [HL1 HL2].
    eapply IH; [exact HL2 | eapply inv_step; eauto | exact HS | exact H].
Qed.

Lemma inv_reachable : forall c evs s, fixed c -> local_only evs -> sched_ok c init_state evs -> run c init_state evs = Ok s -> Inv c s.
Proof. intros. eapply inv_run; eauto. apply inv_init. Qed.

(* what a restart serves from the crash image of a state that satisfies the invariant *)
Lemma inv_recover : forall c s j extra ss,
  Inv c s -> image s j extra = Some ss ->
  exists k, recover ss (snapfiles s) (ckpts s) = Ok (range 0 k) /\ acked s <= k <= proposed s.
Proof.
  intros c s j extra ss HI Him.
  assert (Hst : step c s (EvCrash j extra) = Ok (reset_volatile (set_segs s ss))).
  { unfold step. rewrite Him. reflexivity. }
  pose proof (step_crash c s _ j extra HI Hst) as [hi [HP _]].
  exists hi. split.
  - pose proof (p_commit _ _ HP 0%nat ltac:(simpl; lia)) as Hc. rewrite drop_tail_0 in Hc.
    apply (recover_chain2 ss (lo_of ss) hi (snapfiles s) (ckpts s) (newest ss)).
    + exact (p_local _ _ HP).
    + exact (p_chain _ _ HP).
    + reflexivity.
    + exact (p_new_in _ _ HP).
    + intros i Hi. apply newest_ge. exact Hi.
    + exact Hc.
    + exact (p_first _ _ HP).
    + exact (p_nozero _ _ HP).
    + exact (p_file _ _ HP).
  - split; [exact (p_acked _ _ HP) | exact (p_prop _ _ HP)].
Qed.

(* C06 on the path model: along every run (any interleaving of the raft loop, the apply loop, the snapshot
   goroutines, the backup loop and the purge loops; any number of earlier crash/restart cycles, also crashes
   during a restart), whatever the instant of the process death and whatever part of the buffered WAL records
   reached the file: the restart procedure succeeds on the crash image and the state it serves is the result of
   applying entries 1..k in order, for a k between the last acknowledged and the last proposed index *)
Theorem recover_correct : forall c evs s, fixed c -> local_only evs ->
  run c init_state evs = Ok s -> sched_ok c init_state evs ->
  forall j extra ss, image s j extra = Some ss ->
  exists k, recover ss (snapfiles s) (ckpts s) = Ok (range 0 k) /\ acked s <= k <= proposed s.
Proof.
  intros c evs s Hfx Hlo Hrun Hs j extra ss Him. eapply inv_recover; eauto. eapply inv_reachable; eauto.
Qed.

(* the ordering invariants by name (for every reachable state) *)
Definition I1_I2_newest_marker_has_file_and_checkpoint (s : state) : Prop :=
  0 < newest (segs s) ->
  In (newest (segs s)) (snapfiles s) /\ lookup (newest (segs s)) (ckpts s) = Some (range 0 (newest (segs s))).
Definition I3_wal_not_purged_past_newest_snapshot (s : state) : Prop :=
  sfirst (hd (mkSeg 0 []) (segs s)) <= newest (segs s) /\ In (newest (segs s)) (markers (all_recs (segs s))).
Definition I4_acknowledged_entries_are_in_every_crash_image (s : state) : Prop :=
  forall j, (j <= unflushed s)%nat -> acked s <= last_entry (all_recs (drop_tail (segs s) j)).

Theorem ordering_invariants : forall c evs s, fixed c -> local_only evs ->
  run c init_state evs = Ok s -> sched_ok c init_state evs ->
  I1_I2_newest_marker_has_file_and_checkpoint s /\ I3_wal_not_purged_past_newest_snapshot s
  /\ I4_acknowledged_entries_are_in_every_crash_image s.
Proof.
  intros c evs s Hfx Hlo Hrun Hs. pose proof (inv_reachable c evs s Hfx Hlo Hs Hrun) as HI.
  destruct HI as [hi [HP HV]]. split; [|split].
  - exact (p_file _ _ HP).
  - split; [exact (p_first _ _ HP) | exact (p_new_in _ _ HP)].
  - intros j Hj.
    assert (Hst : step c s (EvCrash j 0) = Ok (reset_volatile (set_segs s (drop_tail (segs s) j)))).
    { unfold step, image, norm_image. rewrite (pending_none c s hi HV). apply Nat.leb_le in Hj. rewrite Hj. reflexivity. }
    pose proof (step_crash c s _ j 0%nat (ex_intro _ hi (conj HP HV)) Hst) as [hi' [HP' _]].
    pose proof (pinv_last_entry _ _ HP') as Hle. pose proof (p_acked _ _ HP') as Hak. simpl in Hle, Hak. rewrite Hle. exact Hak.
Qed.

(* ---------- a computable form of the schedule hypothesis (for examples) ---------- *)

Fixpoint sched_okb (c : config) (s : state) (evs : list event) : bool :=
  match evs with
  | [] => true
  | e :: t => (match e with EvPgBefore 4 => Nat.ltb (win_count (sns s)) (eff_keep_snap c) | _ => true end)
              && match step c s e with Ok s' => sched_okb c s' t | Err _ => true end
  end.

Lemma sched_okb_ok : forall c evs s, sched_okb c s evs = true -> sched_ok c s evs.
Proof.
  induction evs as [|e t IH]; intros s H; simpl in *; auto.
  apply andb_true_iff in H. destruct H as [H1 H2]. split.
  - intros ->. unfold window_ok. apply Nat.ltb_lt. exact H1.
  - destruct (step c s e); auto.
Qed.

(* ---------- the restart goes through, step by step ---------- *)

(* from the state right after a process death of a state that satisfies the invariant, the events of startRaft are
   enabled one after the other up to the running node: snapshot chosen, engine restored from its checkpoint,
   WAL read back and replayed from the snapshot index; no step needs a manual repair *)
Lemma restart_succeeds_np : forall c s,
  Inv c s -> rc s = RcStart -> restore_pending s = false ->
  exists evs s', run c s evs = Ok s' /\ running s' = true
    /\ applied s' = newest (segs s) /\ engine s' = Some (range 0 (newest (segs s)))
    /\ range (applied s') (rs_last s') = range (newest (segs s)) (rs_last s') /\ acked s <= rs_last s' <= proposed s.
Proof.
  intros c s [hi [HP HV]] R Hrp.
  unfold running in HV. rewrite R in HV. cbv iota in HV. unfold RInv in HV. rewrite R in HV.
  destruct HV as [U [Hrd [Hap [Hsn [Hck [Hpw [Hps [Hq [Hws [Hrst [Hlat Heng]]]]]]]]]]].
  pose proof (pinv_choose _ _ HP U) as Hch.
  pose proof (p_new_in _ _ HP) as Hin.
  pose proof (p_first _ _ HP) as Hf. unfold hd_first in Hf.
  pose proof (pinv_newest_le_hi _ _ HP) as Hle.
  set (m := newest (segs s)) in *.
  destruct (read_all_chain _ _ _ m (p_local _ _ HP) (p_chain _ _ HP) ltac:(unfold lo_of; lia) Hf Hin) as [cm Ra].
  destruct (read_all_commit _ _ _ _ Ra) as [p [Hcov _]].
  assert (Hrs : (if N.of_nat (length (range m hi)) =? 0 then m else last_of (range m hi)) = hi).
  { rewrite range_length. destruct (N.of_nat (N.to_nat (hi - m)) =? 0) eqn:Qn.
    - apply N.eqb_eq in Qn. lia.
    - apply N.eqb_neq in Qn. apply last_of_range. lia. }
  destruct (0 <? m) eqn:Qm.
  - (* a snapshot is chosen *)
    destruct (p_file _ _ HP ltac:(lia)) as [Hsf Hck0]. fold m in Hsf, Hck0.
    exists [EvRcChosen m; EvRsRemoved m; EvRsCopied m; EvRcRestored m;
            EvRcReplay (N.of_nat (length (range m hi))) (last_of (range m hi)) cm].
    eexists. split; [|].
    + cbn [run]. unfold step at 1. rewrite R, Hrp, Hch, N.eqb_refl.
      unfold step at 1. proj. rewrite N.eqb_refl. cbn [negb]. rewrite Hck0.
      unfold step at 1. proj. rewrite N.eqb_refl. cbn [negb]. rewrite Hck0.
      unfold step at 1. proj. rewrite N.eqb_refl. cbn [negb].
      unfold step at 1. cbv zeta. proj. rewrite Ra, Hcov, !N.eqb_refl. cbn [negb orb]. reflexivity.
    + unfold running. proj. rewrite Hrs.
      split; [reflexivity|]. split; [reflexivity|]. split; [reflexivity|]. split; [reflexivity|].
      split; [exact (p_acked _ _ HP) | exact (p_prop _ _ HP)].
  - (* no snapshot yet: the whole log is replayed *)
    assert (Hm0 : m = 0) by lia. rewrite Hm0 in Ra, Hcov, Hrs.
    exists [EvRcNone; EvRcReplay (N.of_nat (length (range 0 hi))) (last_of (range 0 hi)) cm].
    eexists. split.
    + cbn [run]. unfold step at 1. rewrite R, Hrp, Hch.
      unfold step at 1. cbv zeta. proj. rewrite Ra, Hcov, !N.eqb_refl. cbn [negb orb]. reflexivity.
    + unfold running. proj. rewrite Hrs. rewrite Hm0.
      split; [reflexivity|]. split; [reflexivity|]. split; [reflexivity|]. split; [reflexivity|].
      split; [exact (p_acked _ _ HP) | exact (p_prop _ _ HP)].
Qed.

(* the same when the process died inside restoreFromPath (rockredis fix d2f1422): the marker file the interrupted
   restore left makes OpenRockDB copy the checkpoint again before startRaft looks at the engine *)
Theorem restart_succeeds : forall c s,
  Inv c s -> rc s = RcStart ->
  exists evs s', run c s evs = Ok s' /\ running s' = true
    /\ applied s' = newest (segs s) /\ engine s' = Some (range 0 (newest (segs s)))
    /\ range (applied s') (rs_last s') = range (newest (segs s)) (rs_last s') /\ acked s <= rs_last s' <= proposed s.
Proof.
  intros c s HI R. destruct (restore_pending s) eqn:Hrp; [|apply restart_succeeds_np; assumption].
  unfold restore_pending in Hrp.
  destruct (restoring s) as [i|] eqn:Rs; [|discriminate]. destruct (engine s) eqn:En; [discriminate|].
  pose proof HI as [hi [HP HV]].
  unfold running in HV. rewrite R in HV. cbv iota in HV. unfold RInv in HV. rewrite R in HV.
  destruct HV as [_ [_ [_ [_ [_ [_ [_ [_ [_ [Hrst _]]]]]]]]]].
  destruct (Hrst i Rs) as [Hi Hpos].
  destruct (p_file _ _ HP ltac:(lia)) as [_ Hck0]. rewrite <- Hi in Hck0.
  assert (S1 : step c s (EvRsRemoved i) = Ok (set_engine s None)).
  { unfold step. rewrite R, Rs, N.eqb_refl. cbn [negb]. rewrite Hck0. reflexivity. }
  assert (S2 : step c (set_engine s None) (EvRsCopied i) = Ok (set_engine (set_engine s None) (Some (range 0 i)))).
  { unfold step. proj. rewrite R, Rs, N.eqb_refl. cbn [negb]. rewrite Hck0. reflexivity. }
  pose proof (step_rs_removed _ _ _ _ HI S1) as HI1.
  pose proof (step_rs_copied _ _ _ _ HI1 S2) as HI2.
  destruct (restart_succeeds_np c _ HI2) as [evs [s' [Hrun Hrest]]].
  - proj. exact R.
  - unfold restore_pending. proj. rewrite Rs. reflexivity.
  - exists (EvRsRemoved i :: EvRsCopied i :: evs), s'. split.
    + cbn [run]. rewrite S1, S2. exact Hrun.
    + revert Hrest. proj. auto.
Qed.
