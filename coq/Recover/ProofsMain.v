(* Recover/ProofsMain.v — the invariant holds along every run of the path model (all interleavings, all crash
   points, any number of crash / restart cycles), and what follows from it for a restart. *)
From Coq Require Import NArith List Bool Lia Arith.
From Coq Require Import ZifyN ZifyNat ZifyBool.
From ZV Require Import Recover.Consts Recover.Path Recover.ProofsWal Recover.ProofsLists Recover.ProofsWal2 Recover.ProofsInv
  Recover.ProofsStepA Recover.ProofsStepB Recover.ProofsStepC Recover.ProofsStepD.
Import ListNotations.
Open Scope N_scope.

Lemma inv_step : forall c s ev s', fixed c -> Inv c s ->
  (ev = EvPgBefore 4 -> window_ok c s) -> (ev = EvCkPurgeBefore -> in_window s = 0%nat) ->
  step c s ev = Ok s' -> Inv c s'.
Proof.
  intros c s ev s' Hfx HI SW SC H. destruct ev.
  - eapply step_rd_begin; eauto.
  - eapply step_rd_save_before; eauto.
  - eapply step_rd_save_after; eauto.
  - eapply step_cut_before; eauto.
  - eapply step_cut_after; eauto.
  - eapply step_rd_publish; eauto.
  - eapply step_rd_append_after; eauto.
  - eapply step_rd_advance; eauto.
  - eapply step_ap_before; eauto.
  - eapply step_ap_after; eauto.
  - eapply step_ap_raftdone; eauto.
  - eapply step_ap_trigger_before; eauto.
  - eapply step_ap_trigger_after; eauto.
  - eapply step_ck_flush; eauto.
  - eapply step_ck_save_before; eauto.
  - eapply step_ck_save_after; eauto.
  - eapply step_ck_purge_before; eauto.
  - eapply step_ck_purge_after; eauto.
  - eapply step_ck_partial; eauto.
  - eapply step_ck_purge_one; eauto.
  - eapply step_sn_started; eauto.
  - eapply step_sn_ckdone; eauto.
  - eapply step_sn_created; eauto.
  - eapply step_sn_file; eauto.
  - eapply step_sn_marked; eauto.
  - eapply step_sn_synced; eauto.
  - eapply step_sn_released; eauto.
  - eapply step_sn_updated; eauto.
  - eapply step_sn_compacted; eauto.
  - eapply step_pg_before; eauto. intros ->. apply SW. reflexivity.
  - eapply step_pg_after; eauto.
  - eapply step_crash; eauto.
  - eapply step_rc_fresh; eauto.
  - eapply step_rc_chosen; eauto.
  - eapply step_rc_none; eauto.
  - eapply step_rs_removed; eauto.
  - eapply step_rs_copied; eauto.
  - eapply step_rc_restored; eauto.
  - eapply step_rs_marker_gone; eauto.
  - eapply step_rc_replay; eauto.
  - eapply step_fs_mark; eauto.
  - eapply step_fs_copy; eauto.
  - eapply step_fs_complete; eauto.
  - eapply step_fs_local_ok; eauto.
  - eapply step_as_prepared; eauto.
  - eapply step_as_raftdone; eauto.
  - eapply step_as_restored; eauto.
  - eapply step_rd_savesnap_before; eauto.
  - eapply step_rd_snapfile; eauto.
  - eapply step_rd_savesnap_after; eauto.
  - eapply step_rd_applysnap_before; eauto.
  - eapply step_rd_applysnap_after; eauto.
  - eapply step_rd_release_after; eauto.
Qed.

(* the schedule hypotheses along a run. (1) Whenever the snap directory purge decides to remove a file, fewer
   snapshots than snap files it keeps (>= 2) are between "snap file written" and "WAL marker valid" (the goroutines of
   local snapshots, and the raft loop persisting an incoming one). (2) The checkpoint purge of the backup loop does
   not start while the raft loop is between the snap file of an incoming snapshot and the hard state that makes its
   WAL record valid (it would take that snapshot's index as the bound below which it removes) *)
Fixpoint sched_ok (c : config) (s : state) (evs : list event) : Prop :=
  match evs with
  | [] => True
  | e :: t => (e = EvPgBefore 4 -> window_ok c s) /\ (e = EvCkPurgeBefore -> in_window s = 0%nat)
              /\ match step c s e with Ok s' => sched_ok c s' t | Err _ => True end
  end.

(* the acceptor evaluates [sched_holds] before every event of every real run and rejects the log when it is false:
   the hypothesis of the theorems is checked, not assumed, on the runs the correspondence is established on *)
Lemma sched_holds_ok : forall c s e, sched_holds c s e = true ->
  (e = EvPgBefore 4 -> window_ok c s) /\ (e = EvCkPurgeBefore -> in_window s = 0%nat).
Proof.
  intros c s e H. split; intros ->; unfold sched_holds in H.
  - unfold window_ok, win_count. apply Nat.ltb_lt in H. lia.
  - apply Nat.eqb_eq in H. exact H.
Qed.

Fixpoint sched_holds_run (c : config) (s : state) (evs : list event) : bool :=
  match evs with
  | [] => true
  | e :: t => sched_holds c s e && match step c s e with Ok s' => sched_holds_run c s' t | Err _ => true end
  end.

Lemma sched_holds_run_ok : forall c evs s, sched_holds_run c s evs = true -> sched_ok c s evs.
Proof.
  induction evs as [|e t IH]; intros s H; simpl in *; auto.
  apply andb_true_iff in H. destruct H as [H1 H2]. destruct (sched_holds_ok _ _ _ H1) as [A B].
  split; [exact A|]. split; [exact B|]. destruct (step c s e); auto.
Qed.

Lemma inv_run : forall c evs s s', fixed c -> Inv c s -> sched_ok c s evs -> run c s evs = Ok s' -> Inv c s'.
Proof.
  intros c evs s s' Hfx. revert s s'. induction evs as [|e t IH]; intros s s' HI HS H; simpl in H.
  - injection H as <-. exact HI.
  - simpl in HS. destruct HS as [SW [SC HS]]. destruct (step c s e) as [s1|] eqn:E; [|discriminate].
    eapply IH; [eapply inv_step; eauto | exact HS | exact H].
Qed.

Lemma inv_reachable : forall c evs s, fixed c -> sched_ok c init_state evs -> run c init_state evs = Ok s -> Inv c s.
Proof. intros. eapply inv_run; eauto. apply inv_init. Qed.

(* the state right after a process death *)
Lemma crash_state_inv : forall c s j extra ss, Inv c s -> image s j extra = Some ss ->
  exists hi, PInv (reset_volatile (set_segs s ss)) hi /\ RInv (reset_volatile (set_segs s ss)).
Proof.
  intros c s j extra ss HI Him.
  assert (Hst : step c s (EvCrash j extra) = Ok (reset_volatile (set_segs s ss))).
  { unfold step. rewrite Him. reflexivity. }
  destruct (step_crash c s _ j extra HI Hst) as [hi [HP HV]]. exists hi. split; [exact HP|exact HV].
Qed.

Lemma crash_world : forall c s j extra ss, Inv c s -> image s j extra = Some ss ->
  exists hi, hi = last_entry (all_recs ss) /\ acked s <= hi <= proposed s /\
    (forall h m0, In (h, m0) (jumps (all_recs ss)) -> m0 <= newest ss /\ h < m0) /\
    seg_chain (lo_of ss) ss hi /\ In (newest ss) (pmarkers (all_recs ss)) /\
    (forall f, In f (snapfiles s) -> In f (valid_markers ss) -> f <= newest ss) /\
    newest ss <= last_commit (all_recs ss) /\ sfirst (hd (mkSeg 0 []) ss) <= newest ss /\ ~ In 0 (snapfiles s) /\
    (0 < newest ss -> In (newest ss) (snapfiles s) /\ lookup (newest ss) (ckpts s) = Some (range 0 (newest ss))).
Proof.
  intros c s j extra ss HI Him. destruct (crash_state_inv c s j extra ss HI Him) as [hi [HP HV]].
  exists hi. pose proof (pinv_last_entry _ _ HP) as Hle. simpl in Hle.
  pose proof (p_commit _ _ HP 0%nat ltac:(simpl; lia)) as Hc. rewrite drop_tail_0 in Hc.
  split; [symmetry; exact Hle|]. split; [split; [exact (p_acked _ _ HP) | exact (p_prop _ _ HP)]|].
  split; [exact (pinv_jumps _ _ HP)|]. split; [exact (p_chain _ _ HP)|]. split; [exact (p_new_in _ _ HP)|].
  split.
  { intros f Hf Hv. apply (valid_file_le_newest (reset_volatile (set_segs s ss)) f); auto.
    intros u Hu. unfold RInv in HV. destruct HV as [_ [_ [_ [_ [_ [_ [_ [_ [_ [_ [Hun _]]]]]]]]]]].
    destruct (Hun u Hu) as [A|[A|[_ A]]]; auto. }
  split; [exact Hc|]. split; [exact (p_first _ _ HP)|]. split; [exact (p_nozero _ _ HP) | exact (p_file _ _ HP)].
Qed.

(* what a restart serves from the crash image of a state that satisfies the invariant: every entry the WAL image
   holds (a single-replica group commits its whole log by itself) *)
Lemma inv_recover : forall c s j extra ss,
  Inv c s -> image s j extra = Some ss ->
  recover ss (snapfiles s) (ckpts s) = Ok (range 0 (last_entry (all_recs ss))) /\ acked s <= last_entry (all_recs ss) <= proposed s.
Proof.
  intros c s j extra ss HI Him.
  destruct (crash_world c s j extra ss HI Him) as [hi [Hhi [Hb [HJ [HC [Hin [Hmax [Hc [Hf [Hz Hfile]]]]]]]]]].
  rewrite <- Hhi. split; [|exact Hb].
  apply (recover_chain2 ss (lo_of ss) hi (snapfiles s) (ckpts s) (newest ss)); auto.
Qed.

(* what a replica of a group restarted WITHOUT its peers serves: the entries up to the commit index found in the WAL
   image, at least the state of the newest valid snapshot: a prefix-state *)
Lemma inv_recover_isolated : forall c s j extra ss,
  Inv c s -> image s j extra = Some ss ->
  exists k, recover_isolated ss (snapfiles s) (ckpts s) = Ok (range 0 k) /\ newest ss <= k <= last_entry (all_recs ss)
            /\ last_entry (all_recs ss) <= proposed s.
Proof.
  intros c s j extra ss HI Him.
  destruct (crash_world c s j extra ss HI Him) as [hi [Hhi [Hb [HJ [HC [Hin [Hmax [Hc [Hf [Hz Hfile]]]]]]]]]].
  rewrite <- Hhi.
  destruct (recover_isolated_chain ss (lo_of ss) hi (snapfiles s) (ckpts s) (newest ss)) as [k [Hk Hkk]]; auto.
  exists k. split; [exact Hk|]. split; [exact Hkk | lia].
Qed.

(* C06 on the path model: along every run (any interleaving of the raft loop, the apply loop, the snapshot
   goroutines, the backup loop, the purge loops and the installation of snapshots received from a leader; any number
   of earlier crash/restart cycles, also crashes during a restart), whatever the instant of the process death and
   whatever part of the buffered WAL records reached the file: the restart procedure succeeds on the crash image and
   the state it serves is the result of applying entries 1..k in order, for a k between the last acknowledged and the
   last proposed index *)
Theorem recover_correct : forall c evs s, fixed c ->
  run c init_state evs = Ok s -> sched_ok c init_state evs ->
  forall j extra ss, image s j extra = Some ss ->
  exists k, recover ss (snapfiles s) (ckpts s) = Ok (range 0 k) /\ acked s <= k <= proposed s.
Proof.
  intros c evs s Hfx Hrun Hs j extra ss Him.
  destruct (inv_recover c s j extra ss (inv_reachable c evs s Hfx Hs Hrun) Him) as [A B]. eauto.
Qed.

(* a follower killed anywhere (also anywhere inside the installation of a snapshot its leader sent) and restarted
   before it hears of its peers serves a prefix-state: entries 1..k in order, k not below its newest valid snapshot
   and not above what was proposed; never a mixture of the old engine and a half-copied checkpoint *)
Theorem follower_restart_prefix_state : forall c evs s, fixed c ->
  run c init_state evs = Ok s -> sched_ok c init_state evs ->
  forall j extra ss, image s j extra = Some ss ->
  exists k, recover_isolated ss (snapfiles s) (ckpts s) = Ok (range 0 k) /\ newest ss <= k <= proposed s.
Proof.
  intros c evs s Hfx Hrun Hs j extra ss Him.
  destruct (inv_recover_isolated c s j extra ss (inv_reachable c evs s Hfx Hs Hrun) Him) as [k [A [B C]]].
  exists k. split; [exact A | lia].
Qed.

(* the ordering invariants by name (for every reachable state) *)
Definition I1_I2_newest_marker_has_file_and_checkpoint (s : state) : Prop :=
  0 < newest (segs s) ->
  In (newest (segs s)) (snapfiles s) /\ lookup (newest (segs s)) (ckpts s) = Some (range 0 (newest (segs s))).
Definition I3_wal_not_purged_past_newest_snapshot (s : state) : Prop :=
  sfirst (hd (mkSeg 0 []) (segs s)) <= newest (segs s) /\ In (newest (segs s)) (markers (all_recs (segs s))).
Definition I4_acknowledged_entries_are_in_every_crash_image (s : state) : Prop :=
  forall j extra ss, image s j extra = Some ss -> acked s <= last_entry (all_recs ss).

Theorem ordering_invariants : forall c evs s, fixed c ->
  run c init_state evs = Ok s -> sched_ok c init_state evs ->
  I1_I2_newest_marker_has_file_and_checkpoint s /\ I3_wal_not_purged_past_newest_snapshot s
  /\ I4_acknowledged_entries_are_in_every_crash_image s.
Proof.
  intros c evs s Hfx Hrun Hs. pose proof (inv_reachable c evs s Hfx Hs Hrun) as HI.
  pose proof HI as [hi [HP HV]]. split; [|split].
  - exact (p_file _ _ HP).
  - split; [exact (p_first _ _ HP) | apply pmarkers_sub; exact (p_new_in _ _ HP)].
  - intros j extra ss Him. destruct (inv_recover c s j extra ss HI Him) as [_ [A _]]. exact A.
Qed.

(* ---------- a computable form of the schedule hypothesis (for examples) ---------- *)

Definition sched_okb := sched_holds_run.

Lemma sched_okb_ok : forall c evs s, sched_okb c s evs = true -> sched_ok c s evs.
Proof. exact sched_holds_run_ok. Qed.

(* ---------- the restart goes through, step by step ---------- *)

(* from the state right after a process death of a state that satisfies the invariant, the events of startRaft are
   enabled one after the other up to the running node: snapshot chosen, engine restored from its checkpoint,
   WAL read back and replayed from the snapshot index; no step needs a manual repair *)
(* the events of startRaft, and what they leave alone: the WAL is not written, the loops are idle when the node runs *)
Definition is_restart_ev (e : event) : Prop :=
  match e with
  | EvRcChosen _ | EvRcNone | EvRsRemoved _ | EvRsCopied _ | EvRcRestored _ | EvRcReplay _ _ _ => True
  | _ => False
  end.
Definition quiet_restart (evs : list event) (s s' : state) : Prop :=
  Forall is_restart_ev evs /\ segs s' = segs s /\ unflushed s' = 0%nat /\ rdp s' = RdIdle.

Lemma restart_succeeds_np : forall c s,
  Inv c s -> rc s = RcStart -> restore_pending s = false ->
  exists evs s', run c s evs = Ok s' /\ running s' = true
    /\ applied s' = newest (segs s) /\ engine s' = Some (range 0 (newest (segs s)))
    /\ range (applied s') (rs_last s') = range (newest (segs s)) (rs_last s') /\ acked s <= rs_last s' <= proposed s
    /\ quiet_restart evs s s'.
Proof.
  intros c s [hi [HP HV]] R Hrp.
  unfold running in HV. rewrite R in HV. cbv iota in HV. unfold RInv in HV. rewrite R in HV.
  destruct HV as [U [Hrd [Hap [Hsn [Hck [Hpw [Hps [Hq [Hws [Hrst [Hun Hlat]]]]]]]]]]].
  assert (J : forall i, In i (unvalidated (all_recs (segs s))) ->
               i <= newest (segs s) \/ ~ In i (snapfiles s) \/ last_commit (all_recs (segs s)) < i).
  { intros u Hu. destruct (Hun u Hu) as [A|[A|[_ A]]]; auto. }
  pose proof (pinv_choose _ _ HP U J) as Hch.
  pose proof (pinv_jumps _ _ HP) as HJ.
  pose proof (p_new_in _ _ HP) as Hin.
  pose proof (p_first _ _ HP) as Hf. unfold hd_first in Hf.
  pose proof (pinv_newest_le_hi _ _ HP) as Hle.
  set (m := newest (segs s)) in *.
  destruct (read_all_chain _ _ _ m HJ (p_chain _ _ HP) ltac:(unfold lo_of; lia) Hf Hin) as [cm Ra].
  destruct (read_all_commit _ _ _ _ Ra) as [p [Hcov _]].
  assert (Hrs : (if N.of_nat (length (range m hi)) =? 0 then m else last_of (range m hi)) = hi).
  { rewrite range_length. destruct (N.of_nat (N.to_nat (hi - m)) =? 0) eqn:Qn.
    - apply N.eqb_eq in Qn. lia.
    - apply N.eqb_neq in Qn. apply last_of_range. lia. }
  destruct (0 <? m) eqn:Qm.
  - (* a snapshot is chosen *)
    destruct (p_file _ _ HP ltac:(lia)) as [Hsf Hck0]. fold m in Hsf, Hck0.
    exists [EvRcChosen m; EvRsRemoved m; EvRsCopied m; EvRcRestored m;
            EvRcReplay (N.of_nat (length (range m hi))) (last_of (range m hi)) cm].
    eexists. split; [|].
    + cbn [run]. unfold step at 1. rewrite R, Hrp, Hch, N.eqb_refl.
      unfold step at 1. proj. rewrite N.eqb_refl. cbn [negb]. rewrite Hck0.
      unfold step at 1. proj. rewrite N.eqb_refl. cbn [negb]. rewrite Hck0.
      unfold step at 1. proj. rewrite N.eqb_refl. cbn [negb].
      unfold step at 1. cbv zeta. proj. rewrite Ra, Hcov, !N.eqb_refl. cbn [negb orb]. reflexivity.
    + unfold running. proj. rewrite Hrs.
      split; [reflexivity|]. split; [reflexivity|]. split; [reflexivity|]. split; [reflexivity|].
      split; [split; [exact (p_acked _ _ HP) | exact (p_prop _ _ HP)]|].
      unfold quiet_restart. proj. split; [repeat constructor|]. split; [reflexivity|]. split; [exact U | exact Hrd].
  - (* no snapshot yet: the whole log is replayed *)
    assert (Hm0 : m = 0) by lia. rewrite Hm0 in Ra, Hcov, Hrs.
    exists [EvRcNone; EvRcReplay (N.of_nat (length (range 0 hi))) (last_of (range 0 hi)) cm].
    eexists. split.
    + cbn [run]. unfold step at 1. rewrite R, Hrp, Hch.
      unfold step at 1. cbv zeta. proj. rewrite Ra, Hcov, !N.eqb_refl. cbn [negb orb]. reflexivity.
    + unfold running. proj. rewrite Hrs. rewrite Hm0.
      split; [reflexivity|]. split; [reflexivity|]. split; [reflexivity|]. split; [reflexivity|].
      split; [split; [exact (p_acked _ _ HP) | exact (p_prop _ _ HP)]|].
      unfold quiet_restart. proj. split; [repeat constructor|]. split; [reflexivity|]. split; [exact U | exact Hrd].
Qed.

(* the same when the process died inside restoreFromPath (rockredis fix d2f1422): the marker file the interrupted
   restore left makes OpenRockDB copy the checkpoint again before startRaft looks at the engine *)
Theorem restart_succeeds : forall c s,
  Inv c s -> rc s = RcStart ->
  exists evs s', run c s evs = Ok s' /\ running s' = true
    /\ applied s' = newest (segs s) /\ engine s' = Some (range 0 (newest (segs s)))
    /\ range (applied s') (rs_last s') = range (newest (segs s)) (rs_last s') /\ acked s <= rs_last s' <= proposed s
    /\ quiet_restart evs s s'.
Proof.
  intros c s HI R. destruct (restore_pending s) eqn:Hrp; [|apply restart_succeeds_np; assumption].
  unfold restore_pending in Hrp.
  destruct (restoring s) as [i|] eqn:Rs; [|discriminate]. destruct (engine s) eqn:En; [discriminate|].
  pose proof HI as [hi [HP HV]].
  unfold running in HV. rewrite R in HV. cbv iota in HV. unfold RInv in HV. rewrite R in HV.
  destruct HV as [_ [_ [_ [_ [_ [_ [_ [_ [_ [Hrst _]]]]]]]]]].
  destruct (Hrst i Rs) as [Hi Hpos].
  destruct (p_file _ _ HP ltac:(lia)) as [_ Hck0]. rewrite <- Hi in Hck0.
  assert (S1 : step c s (EvRsRemoved i) = Ok (set_engine s None)).
  { unfold step. rewrite R, Rs, N.eqb_refl. cbn [negb]. rewrite Hck0. reflexivity. }
  assert (S2 : step c (set_engine s None) (EvRsCopied i) = Ok (set_engine (set_engine s None) (Some (range 0 i)))).
  { unfold step. proj. rewrite R, Rs, N.eqb_refl. cbn [negb]. rewrite Hck0. reflexivity. }
  pose proof (step_rs_removed _ _ _ _ HI S1) as HI1.
  pose proof (step_rs_copied _ _ _ _ HI1 S2) as HI2.
  destruct (restart_succeeds_np c _ HI2) as [evs [s' [Hrun Hrest]]].
  - proj. exact R.
  - unfold restore_pending. proj. rewrite Rs. reflexivity.
  - exists (EvRsRemoved i :: EvRsCopied i :: evs), s'. split.
    + cbn [run]. rewrite S1, S2. exact Hrun.
    + revert Hrest. unfold quiet_restart. proj. intros [A1 [A2 [A3 [A4 [A5 [A6 A8]]]]]].
      repeat (split; [assumption|]). split; [|exact A8]. constructor; [exact I|]. constructor; [exact I | exact A6].
Qed.

(* ---------- recovering twice in a row ---------- *)

(* the purge loops of raftNode.purgeFile (their first pass runs when the node starts) *)
Definition is_purge (e : event) : bool := match e with EvPgBefore _ | EvPgAfter _ => true | _ => false end.

Lemma sched_ok_restart : forall c evs s, Forall is_restart_ev evs -> sched_ok c s evs.
Proof.
  induction evs as [|e t IH]; intros s H; simpl; auto. inversion H as [|? ? He Ht]; subst.
  split; [intros ->; destruct He|]. split; [intros ->; destruct He|]. destruct (step c s e); auto.
Qed.

(* a step of a purge loop removes files the restart does not read: the WAL image keeps its last entry *)
Lemma purge_step_keeps : forall c s e s', Inv c s -> is_purge e = true -> step c s e = Ok s' ->
  last_entry (all_recs (segs s')) = last_entry (all_recs (segs s)) /\ unflushed s' = unflushed s /\ rdp s' = rdp s.
Proof.
  intros c s e s' HI Hp H. destruct e; try discriminate Hp.
  - unfold step in H. step_inv H; proj; auto.
  - pose proof HI as HI0. start_step H hi HP HV; norm_guards; proj; auto.
    unfold running in *. destruct (rc s) eqn:R; try (not_running HV).
    pose proof HV as HV0. destruct HV0 as [_ _ v_nrel _ _ _ _ _ _ _ _ _ _ _ _ v_pgwal _].
    destruct v_pgwal as [v_pgwal Prs]. match goal with G : pg_wal s = true |- _ => specialize (v_pgwal G) end.
    destruct v_nrel as [N1 N2].
    assert (Hex : exists x y t, segs s = x :: y :: t).
    { destruct (segs s) as [|x [|y t]]; simpl in N1; try lia. eauto. }
    destruct Hex as [x [y [t Ess]]].
    assert (Etl : tl (segs s) = y :: t) by (rewrite Ess; reflexivity). rewrite Etl.
    assert (Hy : sfirst y <= newest (segs s)).
    { pose proof (p_chain _ _ HP) as C. rewrite Ess in C, N1, N2.
      destruct (nrel s) as [|n'] eqn:En; [lia|]. simpl in N1.
      change (nth (S n') (x :: y :: t) (mkSeg 0 [])) with (nth n' (y :: t) (mkSeg 0 [])) in N2.
      pose proof (chain_second_le x y t _ hi n' C ltac:(simpl; lia)). rewrite Ess. lia. }
    destruct (pinv_purge_wal s (set_pg_wal (set_nrel (set_segs s (y :: t)) (Nat.pred (nrel s))) false) hi x y t HP Ess) as [HP' Hnw]; try reflexivity; auto.
    pose proof (pinv_last_entry _ _ HP') as L1. pose proof (pinv_last_entry _ _ HP) as L2. proj. rewrite L1, L2. auto.
Qed.

Lemma purge_run_keeps : forall c pg s s2, fixed c -> Inv c s -> forallb is_purge pg = true -> sched_ok c s pg -> run c s pg = Ok s2 ->
  Inv c s2 /\ last_entry (all_recs (segs s2)) = last_entry (all_recs (segs s)) /\ unflushed s2 = unflushed s /\ rdp s2 = rdp s.
Proof.
  intros c pg. induction pg as [|e t IH]; intros s s2 Hfx HI Hp HS H; simpl in H.
  - injection H as <-. auto.
  - simpl in Hp. apply andb_true_iff in Hp. destruct Hp as [Hp1 Hp2].
    simpl in HS. destruct HS as [SW [SC HS]]. destruct (step c s e) as [s1|] eqn:E; [|discriminate].
    destruct (purge_step_keeps c s e s1 HI Hp1 E) as [A1 [A2 A3]].
    destruct (IH s1 s2 Hfx (inv_step c s e s1 Hfx HI SW SC E) Hp2 HS H) as [B0 [B1 [B2 B3]]].
    split; [exact B0|]. split; [congruence|]. split; congruence.
Qed.

(* a node that died is restarted (any death, also one inside a restart or inside the installation of a snapshot),
   the purge loops run (their first pass is at the start; any number of their steps), it dies again before it
   has written anything, and is restarted again: the second restart serves what the first one served *)
Theorem recover_idempotent : forall c s, fixed c -> Inv c s -> rc s = RcStart ->
  exists evs s', run c s evs = Ok s' /\ running s' = true /\
    forall pg s2, forallb is_purge pg = true -> sched_ok c s' pg -> run c s' pg = Ok s2 ->
    forall j extra ss2, image s2 j extra = Some ss2 ->
      recover ss2 (snapfiles s2) (ckpts s2) = recover (segs s) (snapfiles s) (ckpts s)
      /\ recover (segs s) (snapfiles s) (ckpts s) = Ok (range 0 (last_entry (all_recs (segs s)))).
Proof.
  intros c s Hfx HI R.
  destruct (restart_succeeds c s HI R) as [evs [s' [Hrun [Hrn [_ [_ [_ [_ [Hev [Hsg [Hu Hrd]]]]]]]]]]].
  exists evs, s'. split; [exact Hrun|]. split; [exact Hrn|].
  intros pg s2 Hpg HS Hrun2 j extra ss2 Him.
  pose proof (inv_run c evs s s' Hfx HI (sched_ok_restart c evs s Hev) Hrun) as HI'.
  destruct (purge_run_keeps c pg s' s2 Hfx HI' Hpg HS Hrun2) as [HI2 [L [U2 Rd2]]].
  (* the first restart *)
  assert (Him1 : image s 0 0 = Some (segs s)).
  { destruct HI as [hi [HP HV]]. unfold running in HV. rewrite R in HV. destruct HV as [U [Hr _]].
    unfold image, norm_image, pending. rewrite Hr, U. simpl. rewrite drop_tail_0. reflexivity. }
  destruct (inv_recover c s 0%nat 0%nat (segs s) HI Him1) as [E1 _].
  (* the second one *)
  assert (Hss : ss2 = segs s2).
  { unfold image, norm_image, pending in Him. rewrite Rd2, Hrd, U2, Hu in Him. destruct extra; [|discriminate].
    destruct j; [|discriminate]. simpl in Him. rewrite drop_tail_0 in Him. injection Him as <-. reflexivity. }
  destruct (inv_recover c s2 j extra ss2 HI2 Him) as [E2 _].
  split; [|exact E1]. rewrite E2, E1, Hss, L, Hsg. reflexivity.
Qed.

(* ---------- the installation of an incoming snapshot goes through; convergence ---------- *)

(* such a Ready is outside the model: the acceptor rejects its event (reason R_ENV: a Ready the model assumes raft does not produce), it does not pass *)
Lemma snapshot_ready_carries_no_entries : forall s r, ready_ok s r = true -> 0 < r_snap r -> r_n r = 0 /\ r_cn r = 0.
Proof.
  intros s r H Hs. unfold ready_ok in H. apply N.ltb_lt in Hs. rewrite Hs in H.
  repeat (apply andb_true_iff in H; destruct H as [H ?]).
  repeat match goal with G : _ && _ = true |- _ => apply andb_true_iff in G; destruct G end.
  repeat match goal with G : (_ =? _) = true |- _ => apply N.eqb_eq in G end. auto.
Qed.

Definition ev_install_tail (i : N) : list event :=
  [EvAsPrepared i; EvRdSaveSnapBefore i; EvRdSnapFile i; EvRdSaveSnapAfter i; EvRdSaveBefore; EvRdSaveAfter;
   EvRdApplySnapBefore i; EvAsRaftDone i; EvRsRemoved i; EvRsCopied i; EvRsMarkerGone; EvAsRestored i;
   EvRdApplySnapAfter i; EvRdReleaseAfter i; EvRdAppendAfter; EvRdAdvance].

(* the installation from the moment the checkpoint is on the local disk *)
Lemma install_tail_runs : forall c s r i l,
  rc s = RcRunning -> rdp s = RdBegun r false true -> app s = ApSnapPrepare i -> r_snap r = i -> 0 < i ->
  r_n r = 0 -> r_cn r = 0 -> r_hs r = true -> r_commit r = i ->
  lookup i (ckpts s) = Some l -> restoring s = None -> engine s <> None -> queue s = [] ->
  exists s', run c s (ev_install_tail i) = Ok s' /\ applied s' = i /\ engine s' = Some l /\ rdp s' = RdIdle /\ rs_last s' = i
    /\ rc s' = RcRunning /\ restoring s' = None /\ app s' = ApApplying (mkBatch 0 0 0 i) /\ queue s' = [] /\ snapi s' = i.
Proof.
  intros c s r i l R Erd Eap Ers Hi Hn Hcn Hhs Hcm Hck Hrs Hen Hq.
  assert (Qi : (0 <? i) = true) by (apply N.ltb_lt; exact Hi).
  destruct (engine s) as [l0|] eqn:En; [|congruence].
  destruct (r_tv r) eqn:Tv; destruct (opt_fsync c) eqn:Of.
  all: eexists; split;
    [ unfold ev_install_tail; cbn [run];
      (* EvAsPrepared, EvRdSaveSnapBefore, EvRdSnapFile, EvRdSaveSnapAfter *)
      unfold step at 1; rewrite Eap, Hck, N.eqb_refl;
      unfold step at 1; proj; rewrite Erd, Ers, N.eqb_refl, Qi; cbn [negb orb]; rewrite Hck;
      unfold step at 1; proj; rewrite Ers, N.eqb_refl; cbn [negb];
      unfold step at 1; proj; rewrite Ers, N.eqb_refl; cbn [negb];
      (* EvRdSaveBefore, EvRdSaveAfter *)
      unfold step at 1; proj;
      unfold step at 1; proj; cbv zeta; rewrite Hn, Hhs, Tv, ?Of; cbn [N.ltb N.compare orb andb negb];
      (* EvRdApplySnapBefore *)
      unfold step at 1; proj; rewrite Ers, Qi, N.eqb_refl; cbn [negb]; rewrite Hq; cbn [forallb negb];
      (* EvAsRaftDone, EvRsRemoved, EvRsCopied, EvRsMarkerGone, EvAsRestored *)
      unfold step at 1; proj; rewrite N.eqb_refl, N.leb_refl; cbn [negb];
      unfold step at 1; proj; rewrite R, N.eqb_refl, Hck; cbn [negb];
      unfold step at 1; proj; rewrite R, N.eqb_refl, Hck; cbn [negb];
      unfold step at 1; proj; unfold running; proj; rewrite R; cbn [negb andb];
      unfold step at 1; proj; rewrite N.eqb_refl; cbn [negb];
      (* EvRdApplySnapAfter, EvRdReleaseAfter, EvRdAppendAfter, EvRdAdvance *)
      unfold step at 1; proj; rewrite Ers, N.eqb_refl;
      unfold step at 1; proj; rewrite Ers, N.eqb_refl;
      unfold step at 1; proj;
      unfold step at 1; proj; reflexivity
    | proj; rewrite ?Ers; repeat split; auto ].
Qed.

Lemma run_app : forall c a b s, run c s (a ++ b) = match run c s a with Ok s1 => run c s1 b | Err e => Err e end.
Proof. induction a as [|e t IH]; intros b s; simpl; [reflexivity|]. destruct (step c s e); [apply IH | reflexivity]. Qed.

Definition ev_install_head (a : N) (r : ready) : list event := [EvRdBegin r; EvRdPublish 0 (r_snap r) (r_snap r); EvApBefore a 0 (r_snap r)].
Definition ev_install_end (i : N) : list event := [EvApAfter i; EvApRaftDone i; EvApTriggerBefore i i; EvApTriggerAfter i i].
Definition ev_fetch (i : N) : list event := [EvFsMark i; EvFsCopy i; EvFsComplete i].

Lemma install_head_runs : forall c s r i,
  rc s = RcRunning -> rdp s = RdIdle -> app s = ApIdle -> queue s = [] -> ready_ok s r = true -> r_snap r = i -> 0 < i ->
  exists s', run c s (ev_install_head (applied s) r) = Ok s' /\ rc s' = RcRunning /\ rdp s' = RdBegun r false true
    /\ app s' = ApSnapPrepare i /\ queue s' = [] /\ ckpts s' = ckpts s /\ restoring s' = restoring s /\ engine s' = engine s /\ ckp s' = ckp s.
Proof.
  intros c s r i R Erd Eap Hq Hok Ers Hi.
  assert (Qi : (0 <? i) = true) by (apply N.ltb_lt; exact Hi).
  destruct (snapshot_ready_carries_no_entries s r Hok ltac:(lia)) as [Hn Hcn].
  eexists. split.
  - unfold ev_install_head. cbn [run].
    unfold step at 1. rewrite Erd. unfold running. rewrite R, Hok. cbn [negb].
    unfold step at 1. proj. unfold overlap. rewrite Hcn, Ers, Qi, !N.eqb_refl. cbn [N.ltb N.compare N.eqb andb orb negb].
    rewrite andb_false_r. cbn [andb].
    unfold step at 1. proj. rewrite Eap, Hq. cbn [app]. unfold running. proj. rewrite R. cbn [negb b_n b_snap].
    rewrite !N.eqb_refl. cbn [negb orb].
    change ([] ++ [mkBatch (r_cfirst r) (r_clast r) 0 i]) with [mkBatch (r_cfirst r) (r_clast r) 0 i].
    cbn iota. cbn [b_n b_snap]. rewrite Ers, !N.eqb_refl, Qi. cbn [negb orb N.eqb]. reflexivity.
  - proj. repeat split; auto.
Qed.

(* the checkpoint of the incoming snapshot gets to the local disk: found there, or fetched *)
Lemma install_fetch_runs : forall c s i, 0 < i -> fs_clash s i = false ->
  exists evs s' l, run c s evs = Ok s' /\ lookup i (ckpts s') = Some l
    /\ (lookup i (ckpts s) = None -> l = range 0 i) /\ (forall l0, lookup i (ckpts s) = Some l0 -> l = l0)
    /\ rc s' = rc s /\ rdp s' = rdp s /\ app s' = app s /\ queue s' = queue s /\ restoring s' = restoring s /\ engine s' = engine s
    /\ (evs = [EvFsLocalOk i] \/ evs = ev_fetch i).
Proof.
  intros c s i Hi Fc. assert (Qi : (0 <? i) = true) by (apply N.ltb_lt; exact Hi).
  destruct (lookup i (ckpts s)) as [l|] eqn:L.
  - exists [EvFsLocalOk i], s, l. cbn [run]. unfold step. rewrite L. repeat split; auto; try congruence.
  - exists (ev_fetch i). eexists. exists (range 0 i). split; [|split].
    + unfold ev_fetch. cbn [run].
      unfold step at 1. rewrite L, Qi.
      unfold step at 1. rewrite Fc, L, Qi.
      unfold step at 1. proj. unfold fs_clash in *. proj. rewrite Fc.
      rewrite lookup_cons, N.eqb_refl. cbn [map fst memN existsb]. rewrite N.eqb_refl. cbn [orb]. reflexivity.
    + proj. rewrite lookup_cons, N.eqb_refl. reflexivity.
    + proj. repeat split; auto. intros; discriminate.
Qed.

Lemma install_end_runs : forall c s i,
  app s = ApApplying (mkBatch 0 0 0 i) -> applied s = i -> snapi s = i ->
  exists s', run c s (ev_install_end i) = Ok s' /\ app s' = ApIdle /\ applied s' = i /\ engine s' = engine s /\ rdp s' = rdp s
    /\ rs_last s' = rs_last s /\ rc s' = rc s /\ queue s' = queue s /\ restoring s' = restoring s.
Proof.
  intros c s i Ea Hap Hsn. eexists. split.
  - unfold ev_install_end. cbn [run].
    unfold step at 1. rewrite Ea. cbn [b_n]. rewrite Hap, !N.eqb_refl.
    unfold step at 1. proj. cbn [b_n N.eqb orb].
    unfold step at 1. proj. rewrite Hap, Hsn, !N.eqb_refl. cbn [andb].
    unfold step at 1. proj. rewrite Hap, Hsn, !N.eqb_refl. cbn [andb]. reflexivity.
  - proj. repeat split; auto.
Qed.

Definition unscheduled (e : event) : Prop := e <> EvPgBefore 4 /\ e <> EvCkPurgeBefore.
Lemma sched_ok_free : forall c evs s, Forall unscheduled evs -> sched_ok c s evs.
Proof.
  induction evs as [|e t IH]; intros s H; simpl; auto. inversion H as [|? ? [H1 H2] Ht]; subst.
  split; [intros ->; congruence|]. split; [intros ->; congruence|]. destruct (step c s e); auto.
Qed.

(* the installation of an incoming snapshot goes through: from a node whose loops are idle, for every Ready with a
   snapshot the raft library may hand out, the sub-steps are enabled one after the other (checkpoint found or fetched,
   snap file, WAL record, hard state, engine replaced, raft storage updated) and the node ends serving the state at
   the snapshot's index *)
Theorem install_completes : forall c s r,
  Inv c s -> rc s = RcRunning -> rdp s = RdIdle -> app s = ApIdle -> queue s = [] -> fs_clash s (r_snap r) = false ->
  engine s <> None -> ready_ok s r = true -> 0 < r_snap r ->
  exists evs s', run c s evs = Ok s' /\ sched_ok c s evs
    /\ applied s' = r_snap r /\ engine s' = Some (range 0 (r_snap r)) /\ rs_last s' = r_snap r
    /\ rc s' = RcRunning /\ rdp s' = RdIdle /\ app s' = ApIdle /\ queue s' = [].
Proof.
  intros c s r HI R Erd Eap Hq Fc Hen Hok Hi.
  set (i := r_snap r) in *.
  destruct (snapshot_ready_carries_no_entries s r Hok Hi) as [Hn Hcn].
  assert (Hr : r_hs r = true /\ r_commit r = i).
  { unfold ready_ok in Hok. assert (Q : (0 <? r_snap r) = true) by (apply N.ltb_lt; exact Hi). rewrite Q in Hok.
    repeat (apply andb_true_iff in Hok; destruct Hok as [Hok ?]).
    repeat match goal with G : _ && _ = true |- _ => apply andb_true_iff in G; destruct G end.
    repeat match goal with G : (_ =? _) = true |- _ => apply N.eqb_eq in G end. auto. }
  destruct Hr as [Hhs Hcm].
  assert (Hrs : restoring s = None /\ forall l, lookup i (ckpts s) = Some l -> l = range 0 i).
  { destruct HI as [hi [HP HV]]. unfold running in HV. rewrite R in HV. split; [|intros l Hl; eapply p_ckpts; eauto].
    destruct (restoring s) as [j|] eqn:Rs; [|reflexivity]. destruct (proj2 (v_pgwal _ _ _ HV) j Rs) as [k Hk]. congruence. }
  destruct Hrs as [Hrs Hckr].
  destruct (install_head_runs c s r i R Erd Eap Hq Hok eq_refl Hi) as [s1 [Run1 [R1 [Rd1 [Ap1 [Q1 [Ck1 [Rs1 [En1 Cp1]]]]]]]]].
  assert (Fc1 : fs_clash s1 i = false) by (unfold fs_clash in *; rewrite Cp1; exact Fc).
  destruct (install_fetch_runs c s1 i Hi Fc1) as [evf [s2 [l [Run2 [L2 [LN [LS [R2 [Rd2 [Ap2 [Q2 [Rs2 [En2 Hevf]]]]]]]]]]]]].
  assert (Hl : l = range 0 i).
  { destruct (lookup i (ckpts s1)) as [l0|] eqn:L1; [|apply LN; reflexivity]. rewrite (LS l0 eq_refl). apply Hckr. rewrite <- Ck1. exact L1. }
  subst l.
  destruct (install_tail_runs c s2 r i (range 0 i)) as [s3 [Run3 [A3 [E3 [Rd3 [Rl3 [R3 [Rs3 [Ap3 [Q3 Sn3]]]]]]]]]]; [first [congruence | exact Hi | reflexivity] .. |].
  destruct (install_end_runs c s3 i Ap3 A3 Sn3) as [s4 [Run4 [Ap4 [A4 [E4 [Rd4 [Rl4 [R4 [Q4 Rs4]]]]]]]]].
  exists (ev_install_head (applied s) r ++ evf ++ ev_install_tail i ++ ev_install_end i), s4.
  split; [rewrite run_app, Run1, run_app, Run2, run_app, Run3; exact Run4|].
  split.
  { apply sched_ok_free. unfold ev_install_head, ev_install_tail, ev_install_end.
    repeat (apply Forall_app; split); try (destruct Hevf as [-> | ->]; unfold ev_fetch);
      repeat constructor; discriminate. }
  repeat split; congruence.
Qed.

(* startRaft leaves the apply loop, its queue and the backup loop as the death left them: idle *)
Lemma restart_ev_keeps : forall c s e s', is_restart_ev e -> app s = ApIdle -> step c s e = Ok s' ->
  app s' = ApIdle /\ queue s' = queue s /\ ckp s' = ckp s.
Proof.
  intros c s e s' He Ea H. destruct e; try destruct He; unfold step in H; step_inv H; proj; auto; congruence.
Qed.

Lemma restart_evs_keep : forall c evs s s', Forall is_restart_ev evs -> app s = ApIdle -> run c s evs = Ok s' ->
  app s' = ApIdle /\ queue s' = queue s /\ ckp s' = ckp s.
Proof.
  induction evs as [|e t IH]; intros s s' Hf Ea H; simpl in H; [injection H as <-; auto|].
  inversion Hf as [|? ? He Ht]; subst. destruct (step c s e) as [s1|] eqn:E; [|discriminate].
  destruct (restart_ev_keeps c s e s1 He Ea E) as [A [B C]]. destruct (IH s1 s' Ht A H) as [A' [B' C']].
  repeat split; congruence.
Qed.

(* CONVERGENCE. A replica killed anywhere, also anywhere inside the installation of a snapshot, restarts (no manual
   repair), and from the restarted node the installation of every snapshot its leader may send (every Ready with a
   snapshot that the raft library may hand out in that state: the snapshot is ahead of the local log) goes through and
   ends with the replica serving the leader's state at the snapshot's index; the invariant holds again, so this
   repeats after any further death *)
Theorem follower_converges : forall c s, fixed c -> Inv c s -> rc s = RcStart ->
  exists evs1 s1, run c s evs1 = Ok s1 /\ running s1 = true /\ Inv c s1 /\
    forall r, ready_ok s1 r = true -> 0 < r_snap r ->
    exists evs2 s2, run c s1 evs2 = Ok s2 /\ applied s2 = r_snap r /\ engine s2 = Some (range 0 (r_snap r))
                    /\ rs_last s2 = r_snap r /\ running s2 = true /\ Inv c s2.
Proof.
  intros c s Hfx HI R.
  destruct (restart_succeeds c s HI R) as [evs [s1 [Hrun [Hrn [_ [Hen [_ [_ [Hev [Hsg [Hu Hrd]]]]]]]]]]].
  pose proof (inv_run c evs s s1 Hfx HI (sched_ok_restart c evs s Hev) Hrun) as HI1.
  assert (Hidle : app s = ApIdle /\ queue s = [] /\ ckp s = CkIdle).
  { destruct HI as [hi [HP HV]]. unfold running in HV. rewrite R in HV. destruct HV as [_ [_ [A [_ [B [_ [_ [C _]]]]]]]]. auto. }
  destruct Hidle as [Ia [Iq Ic]].
  destruct (restart_evs_keep c evs s s1 Hev Ia Hrun) as [Ka [Kq Kc]].
  exists evs, s1. split; [exact Hrun|]. split; [exact Hrn|]. split; [exact HI1|].
  intros r Hok Hi.
  assert (R1 : rc s1 = RcRunning) by (apply running_true; exact Hrn).
  destruct (install_completes c s1 r HI1 R1 Hrd) as [evs2 [s2 [Run2 [Sch [A2 [E2 [L2 [R2 _]]]]]]]]; auto; try congruence.
  { unfold fs_clash. rewrite Kc, Ic. reflexivity. }
  exists evs2, s2. split; [exact Run2|]. split; [exact A2|]. split; [exact E2|]. split; [exact L2|].
  split; [unfold running; rewrite R2; reflexivity|]. eapply inv_run; eauto.
Qed.
