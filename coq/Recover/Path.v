(* Recover/Path.v — C06 path model: the persistent world of one raft group replica
   (WAL segments, snapshot files, engine checkpoints, engine data) and the step sequences of the
   Go code that change it, with every sub-step a separately observable event (= named crash point).

   Transcribes (working tree of /repo, after fixes b025328 and c523023):
     node/raft.go        processReady / shouldPersistBeforeApply / persistRaftState   events rd.*
                         beginSnapshot and its goroutine                                events sn.*
                         startRaft / replayWAL / openWAL                                events rc.*
     node/raft_storage.go SaveSnap (snap file, then WAL record), Release                event ps.snapfile.after
     node/node.go        applyCommits / applyAll / applyEntries / maybeTriggerSnapshot   events ap.*
     rockredis/rockredis.go backupLoop, purgeOldCheckpoint, restoreFromPath             events ck.*, rs.*
     wal/wal.go          Save (flush / fsync decision, optimizedFsync), SaveSnapshot, cut, ReleaseLockTo,
                         ValidSnapshotEntries, Open (searchIndex), ReadAll               events wl.cut.*
     snap/snapshotter.go SaveSnap, LoadNewestAvailable, RemoveOrphans
     pkg/fileutil/purge.go purgeFile                                                    events pg.remove.*

   Abstractions (stated in the manifest): a log entry is its index (append-only log of a replica that
   never has a suffix overwritten; terms are not modelled, the harness checks that an index never
   changes its term); the state machine state is the list of applied indices; a checkpoint named i
   holds the engine content of the moment the apply loop asked for it; WAL bytes are records.
   No proofs here. *)
From Coq Require Import NArith List Bool.
From ZV Require Import Recover.Consts.
Import ListNotations.
Open Scope N_scope.

(* ---------- persistent data ---------- *)

Inductive rec :=
| REnt (i : N)                (* entryType *)
| RState (c : N)              (* stateType: hard state, only the commit index is followed *)
| RSnap (i : N)               (* snapshotType: marker of the raft snapshot at index i (written by a local snapshot) *)
| RSnapIn (v : bool) (h i : N).
    (* snapshotType written by persistRaftState for an INCOMING snapshot i (a follower that is behind the leader's
       compacted log). The code does not distinguish it from RSnap: every function the restart uses treats it as the
       marker of i. v and h are ghost fields for the proofs: h = the last log index when it was written, v = the hard
       state with commit >= i that makes the marker valid has been saved behind it (until then a restart ignores it) *)

Record seg := mkSeg { sfirst : N; srecs : list rec }.   (* <seq>-<sfirst>.wal *)

Inductive result (A : Type) := Ok (a : A) | Err (e : N).
Arguments Ok {A} a.
Arguments Err {A} e.

(* error codes (projected like the harness does) *)
Definition E_FILE_NOT_FOUND : N := 1.     (* wal: file not found *)
Definition E_SNAP_NOT_FOUND : N := 2.     (* wal: snapshot not found *)
Definition E_OUT_OF_RANGE : N := 3.       (* index out of range, corrupt data *)
Definition E_NO_BACKUP : N := 4.          (* no backup for restore / cluster info is not available *)
Definition E_DIRTY_ENGINE : N := 5.       (* model only: engine content used without clean/restore *)

Record config := mkConfig {
  keep_wal : nat;        (* MachineConfig.KeepWAL as given *)
  keep_backup : nat;     (* MachineConfig.KeepBackup as given *)
  opt_fsync : bool;      (* optimizedFsync *)
  (* the code as it is has both set; false = the code before the fix (kept to show what the fix is needed for) *)
  persist_first : bool;  (* fix b025328: a Ready's entries are saved before they are published when they are committed in the same Ready *)
  clean_orphans : bool;  (* fix c523023: startRaft removes snap files newer than the chosen snapshot that the WAL does not record *)
  flush_first : bool     (* RockDB.Backup flushes the write-back cache (HyperLogLog) before the checkpoint is queued; false = not *)
}.

(* raftNode.purgeFile: keep <= 1 means the default *)
Definition eff_keep_wal (c : config) : nat := if Nat.leb (keep_wal c) 1 then default_keep_wal else keep_wal c.
Definition eff_keep_snap (c : config) : nat := if Nat.leb (keep_backup c) 1 then default_keep_backup else keep_backup c.
(* RockDB.backupLoop: KeepBackup > 0 else MaxCheckpointNum *)
Definition eff_keep_ckpt (c : config) : nat := if Nat.ltb 0 (keep_backup c) then keep_backup c else max_checkpoint_num.

(* ---------- list helpers ---------- *)

Fixpoint seqN (a : N) (n : nat) : list N :=
  match n with O => [] | S k => a :: seqN (a + 1) k end.

(* indices a+1 .. b *)
Definition range (a b : N) : list N := seqN (a + 1) (N.to_nat (b - a)).

Definition all_recs (ss : list seg) : list rec := concat (map srecs ss).

Fixpoint app_tail (ss : list seg) (rs : list rec) : list seg :=
  match ss with
  | [] => []
  | [s] => [mkSeg (sfirst s) (srecs s ++ rs)]
  | s :: t => s :: app_tail t rs
  end.

Fixpoint drop_tail (ss : list seg) (j : nat) : list seg :=
  match ss with
  | [] => []
  | [s] => [mkSeg (sfirst s) (firstn (length (srecs s) - j) (srecs s))]
  | s :: t => s :: drop_tail t j
  end.

Definition markers (rs : list rec) : list N :=
  flat_map (fun r => match r with RSnap i => [i] | RSnapIn _ _ i => [i] | _ => [] end) rs.

(* the incoming markers that were never made valid (a crash between the record and its hard state) *)
Definition unvalidated (rs : list rec) : list N :=
  flat_map (fun r => match r with RSnapIn false _ i => [i] | _ => [] end) rs.

(* proof-level views (not used by any step): the markers without the incoming ones that were never made valid, and
   the log indices the WAL accounts for (an incoming snapshot that became valid stands for the indices h+1 .. i) *)
Definition pmarkers (rs : list rec) : list N :=
  flat_map (fun r => match r with RSnap i => [i] | RSnapIn true _ i => [i] | _ => [] end) rs.

Definition entries (rs : list rec) : list N :=
  flat_map (fun r => match r with REnt i => [i] | RSnapIn true h i => seqN (h + 1) (N.to_nat (i - h)) | _ => [] end) rs.

Definition last_commit (rs : list rec) : N :=
  fold_left (fun acc r => match r with RState c => c | _ => acc end) rs 0.

(* WAL.enti: the index of the last entry saved; SaveSnapshot raises it to the snapshot index when that is ahead (an
   incoming snapshot's record that was left invalid by a crash is not an entry for the ReadAll of the next start) *)
Definition last_entry (rs : list rec) : N :=
  fold_left (fun acc r => match r with REnt i => i | RSnapIn true _ i => N.max acc i | _ => acc end) rs 0.

Definition memN (x : N) (l : list N) : bool := existsb (N.eqb x) l.

Definition maxl (l : list N) : option N :=
  fold_left (fun acc x => match acc with None => Some x | Some m => Some (N.max m x) end) l None.

Definition minl (l : list N) : option N :=
  fold_left (fun acc x => match acc with None => Some x | Some m => Some (N.min m x) end) l None.

Definition removeN (x : N) (l : list N) : list N := filter (fun y => negb (N.eqb x y)) l.

(* ---------- reading the persistent world (restart) ---------- *)

(* wal.ValidSnapshotEntries: all markers of the existing segments whose index is <= the commit of the
   last hard state record *)
Definition valid_markers (ss : list seg) : list N :=
  let rs := all_recs ss in
  filter (fun i => i <=? last_commit rs) (markers rs).

(* snap.LoadNewestAvailable: the newest snapshot file that is in walSnaps *)
Definition choose_snapshot (ss : list seg) (snapfiles : list N) : option N :=
  let v := valid_markers ss in
  maxl (filter (fun f => memN f v) snapfiles).

(* snap.RemoveOrphans (fix c523023): files newer than the chosen one without a WAL record go *)
Definition remove_orphans (ss : list seg) (snapfiles : list N) (chosen : option N) : list N :=
  let v := valid_markers ss in
  filter (fun f => memN f v || match chosen with Some c => f <=? c | None => false end) snapfiles.

(* wal.searchIndex: position of the last segment whose name index is <= i *)
Fixpoint covering_from (ss : list seg) (i : N) (pos : nat) (best : option nat) : option nat :=
  match ss with
  | [] => best
  | s :: t => covering_from t i (S pos) (if sfirst s <=? i then Some pos else best)
  end.
Definition covering (ss : list seg) (i : N) : option nat := covering_from ss i 0%nat None.

(* wal.ReadAll from snapshot index i over the records of the selected segments:
   entries above i are placed by index (a later one replaces and truncates), the marker of i must be met *)
Record readst := mkReadst { rd_ents : list N; rd_commit : N; rd_match : bool }.

Definition read_step (i : N) (acc : result readst) (r : rec) : result readst :=
  match acc with
  | Err e => Err e
  | Ok st =>
    match r with
    | REnt e =>
      if i <? e then
        let up := N.to_nat (e - i - 1) in
        if Nat.ltb (length (rd_ents st)) up then Err E_OUT_OF_RANGE
        else Ok (mkReadst (firstn up (rd_ents st) ++ [e]) (rd_commit st) (rd_match st))
      else Ok (mkReadst [] (rd_commit st) (rd_match st))   (* an entry at or before i written after later ones: they are stale *)
    | RState c => Ok (mkReadst (rd_ents st) c (rd_match st))
    | RSnap m | RSnapIn _ _ m => if m =? i then Ok (mkReadst (rd_ents st) (rd_commit st) true) else Ok st
    end
  end.

Definition read_all (ss : list seg) (i : N) : result (list N * N) :=
  match covering ss i with
  | None => Err E_FILE_NOT_FOUND
  | Some p =>
    match fold_left (read_step i) (all_recs (skipn p ss)) (Ok (mkReadst [] 0 false)) with
    | Err e => Err e
    | Ok st => if rd_match st then Ok (rd_ents st, rd_commit st) else Err E_SNAP_NOT_FOUND
    end
  end.

(* a checkpoint directory can be opened (rockredis isBackupOKInPath) only when it was written completely *)
Fixpoint lookup (i : N) (cks : list (N * option (list N))) : option (list N) :=
  match cks with
  | [] => None
  | (j, l) :: t => if i =? j then l else lookup i t
  end.

Definition remove_ckpt (i : N) (cks : list (N * option (list N))) : list (N * option (list N)) :=
  filter (fun p => negb (i =? fst p)) cks.

(* rockredis.purgeOldCheckpoint(keepNum, dir, latestSnapIndex) on the names sorted by index:
   for i < len-keepNum: if index(name[i+keepNum]) >= latest then stop, else remove name[i] *)
Fixpoint insert_sorted (x : N) (l : list N) : list N :=
  match l with
  | [] => [x]
  | y :: t => if x <=? y then x :: l else y :: insert_sorted x t
  end.
Definition sortN (l : list N) : list N := fold_right insert_sorted [] l.

Fixpoint purge_victims_loop (sorted ahead : list N) (latest : N) : list N :=
  (* sorted = names from position i on; ahead = names from position i+keepNum on *)
  match sorted, ahead with
  | x :: st, a :: at' => if latest <=? a then [] else x :: purge_victims_loop st at' latest
  | _, _ => []
  end.

Definition purge_victims (keep : nat) (latest : N) (keys : list N) : list N :=
  let s := sortN keys in purge_victims_loop s (skipn keep s) latest.

Definition purge_ckpts (keep : nat) (latest : N) (cks : list (N * option (list N))) : list (N * option (list N)) :=
  let v := purge_victims keep latest (map fst cks) in
  filter (fun p => negb (memN (fst p) v)) cks.

(* the next directory purgeOldCheckpoint removes, if any *)
Definition purge_next (keep : nat) (latest : N) (cks : list (N * option (list N))) : option N :=
  match purge_victims keep latest (map fst cks) with
  | x :: _ => Some x
  | [] => None
  end.

(* the whole restart as one function of the persistent world: the engine content that is served once
   every entry found in the WAL has been replayed (a single-replica group commits its whole log) *)
Definition recover (ss : list seg) (snapfiles : list N) (cks : list (N * option (list N))) : result (list N) :=
  match choose_snapshot ss snapfiles with
  | None =>
    match read_all ss 0 with
    | Err e => Err e
    | Ok (ents, _) => Ok ents                    (* CleanData, then replay from index 1 *)
    end
  | Some i =>
    match lookup i cks with
    | None => Err E_NO_BACKUP
    | Some l =>
      match read_all ss i with
      | Err e => Err e
      | Ok (ents, _) => Ok (l ++ ents)
      end
    end
  end.

(* ---------- running state ---------- *)

Record ready := mkReady {
  r_n : N; r_first : N; r_last : N;          (* rd.Entries *)
  r_hs : bool; r_tv : bool; r_commit : N;    (* rd.HardState non-empty / its term or vote differs from WAL.state / Commit *)
  r_cn : N; r_cfirst : N; r_clast : N;       (* rd.CommittedEntries *)
  r_snap : N                                 (* rd.Snapshot.Metadata.Index (0 = no snapshot in this Ready) *)
}.

Record batch := mkBatch { b_first : N; b_last : N; b_n : N; b_snap : N }.

Inductive rd_pc :=
| RdIdle
| RdBegun (r : ready) (sv pb : bool)          (* the Ready's records are saved / its committed entries are published *)
| RdSaving (r : ready) (pb apd : bool)         (* inside wal.Save; apd: the records are encoded already (a cut is going on) *)
| RdCutting (r : ready) (pb : bool) (idx : N)
| RdAppended (r : ready)
(* a Ready that carries an incoming snapshot *)
| RdSnapSaving (r : ready) (fl : bool)       (* inside SaveSnap (persistRaftState); fl: the snap file is written *)
| RdSnapSaved (r : ready)                    (* snap file and WAL record written, the hard state not yet *)
| RdSnapApply (r : ready) (k : nat)          (* after the save: 0 raftDone signalled, 1 ApplySnapshot done, 2 WAL released *)
| RdSnapCut (r : ready) (k : nat) (idx : N). (* the Save of the hard state behind an incoming snapshot's record cut the segment: the records (and the
                                                hard state: the record is valid from here on) are flushed into the old segment;
                                                0 the new segment is not created yet, 1 it is, 2 the Save has returned *)

Inductive ap_pc :=
| ApIdle
| ApApplying (b : batch)
| ApApplied (b : batch)
| ApDone
| ApTrigger
| ApFlushed                 (* Backup() has flushed the write-back cache *)
| ApTriggered (i : N)
| ApTriggerDone
(* applySnapshot (incoming snapshot i) *)
| ApSnapPrepare (i : N)       (* inside PrepareSnapshot: the checkpoint of i is looked for / fetched *)
| ApSnapPrepared (i : N)      (* the transfer result is handed to the raft loop; waiting for raftDone *)
| ApSnapRestoring (i : N) (k : nat).
    (* raft has persisted the snapshot; inside RestoreFromSnapshot: k = 0 not begun, 1 data directory emptied, 2 checkpoint copied *)

Inductive sn_pc := SnStarted | SnCkDone | SnCreated | SnFile | SnMarked | SnSynced | SnReleased | SnUpdated.

Inductive ck_pc := CkIdle | CkSaving (i : N) (content : list N) | CkSaved | CkPurging (lat : N).

Inductive rc_pc := RcStart | RcChosen (i : N) | RcRestored (i : N) | RcNone | RcRunning.

(* persistent: segs (live WAL segments, oldest first), unflushed / unsynced (trailing records of the tail
   segment still in the process buffer / not fdatasync'ed), snapfiles, ckpts (complete checkpoints with
   their content), engine (None: content not to be trusted), cache (the applied indices whose effect sits only in
   the store's write-back cache; volatile: lost with the process, part of what the engine serves), restoring (the
   marker file of restoreFromPath: the checkpoint whose files are being copied into the data directory; persistent).
   volatile: rc (restart program), nrel (the first nrel live segments are not locked by this process),
   wstate/wcommit (WAL.state), hcommit (commit of the last hard state saved or read back), latest
   (RockDB.latestSnapIndex), rdp/rdseq/rs_last/published (raft loop), rd_done (highest published index whose
   Ready has finished its disk writes: raftDone sent), queue (commitC),
   app/applied/snapi (apply loop), sns (snapshot goroutines), ckp (backup loop), pg_* (purge loops).
   ghost: acked (highest index whose result reached the client), proposed (highest index handed out). *)
Record state := mkState {
  segs : list seg;
  unflushed : nat;
  unsynced : nat;
  snapfiles : list N;
  ckpts : list (N * option (list N));
  engine : option (list N);
  cache : list N;
  restoring : option N;
  rc : rc_pc;
  nrel : nat;
  wstate : bool;
  wcommit : N;
  hcommit : N;
  latest : N;
  rdp : rd_pc;
  rdseq : N;
  rd_done : N;
  rs_last : N;
  published : N;
  queue : list batch;
  app : ap_pc;
  applied : N;
  snapi : N;
  sns : list (N * sn_pc);
  ckp : ck_pc;
  pg_wal : bool;
  pg_snap : option N;
  acked : N;
  proposed : N
}.
Definition set_segs (s : state) (v : list seg) : state := mkState v (unflushed s) (unsynced s) (snapfiles s) (ckpts s) (engine s) (cache s) (restoring s) (rc s) (nrel s) (wstate s) (wcommit s) (hcommit s) (latest s) (rdp s) (rdseq s) (rd_done s) (rs_last s) (published s) (queue s) (app s) (applied s) (snapi s) (sns s) (ckp s) (pg_wal s) (pg_snap s) (acked s) (proposed s).
Definition set_unflushed (s : state) (v : nat) : state := mkState (segs s) v (unsynced s) (snapfiles s) (ckpts s) (engine s) (cache s) (restoring s) (rc s) (nrel s) (wstate s) (wcommit s) (hcommit s) (latest s) (rdp s) (rdseq s) (rd_done s) (rs_last s) (published s) (queue s) (app s) (applied s) (snapi s) (sns s) (ckp s) (pg_wal s) (pg_snap s) (acked s) (proposed s).
Definition set_unsynced (s : state) (v : nat) : state := mkState (segs s) (unflushed s) v (snapfiles s) (ckpts s) (engine s) (cache s) (restoring s) (rc s) (nrel s) (wstate s) (wcommit s) (hcommit s) (latest s) (rdp s) (rdseq s) (rd_done s) (rs_last s) (published s) (queue s) (app s) (applied s) (snapi s) (sns s) (ckp s) (pg_wal s) (pg_snap s) (acked s) (proposed s).
Definition set_snapfiles (s : state) (v : list N) : state := mkState (segs s) (unflushed s) (unsynced s) v (ckpts s) (engine s) (cache s) (restoring s) (rc s) (nrel s) (wstate s) (wcommit s) (hcommit s) (latest s) (rdp s) (rdseq s) (rd_done s) (rs_last s) (published s) (queue s) (app s) (applied s) (snapi s) (sns s) (ckp s) (pg_wal s) (pg_snap s) (acked s) (proposed s).
Definition set_ckpts (s : state) (v : list (N * option (list N))) : state := mkState (segs s) (unflushed s) (unsynced s) (snapfiles s) v (engine s) (cache s) (restoring s) (rc s) (nrel s) (wstate s) (wcommit s) (hcommit s) (latest s) (rdp s) (rdseq s) (rd_done s) (rs_last s) (published s) (queue s) (app s) (applied s) (snapi s) (sns s) (ckp s) (pg_wal s) (pg_snap s) (acked s) (proposed s).
Definition set_engine (s : state) (v : option (list N)) : state := mkState (segs s) (unflushed s) (unsynced s) (snapfiles s) (ckpts s) v (cache s) (restoring s) (rc s) (nrel s) (wstate s) (wcommit s) (hcommit s) (latest s) (rdp s) (rdseq s) (rd_done s) (rs_last s) (published s) (queue s) (app s) (applied s) (snapi s) (sns s) (ckp s) (pg_wal s) (pg_snap s) (acked s) (proposed s).
Definition set_cache (s : state) (v : list N) : state := mkState (segs s) (unflushed s) (unsynced s) (snapfiles s) (ckpts s) (engine s) v (restoring s) (rc s) (nrel s) (wstate s) (wcommit s) (hcommit s) (latest s) (rdp s) (rdseq s) (rd_done s) (rs_last s) (published s) (queue s) (app s) (applied s) (snapi s) (sns s) (ckp s) (pg_wal s) (pg_snap s) (acked s) (proposed s).
Definition set_restoring (s : state) (v : option N) : state := mkState (segs s) (unflushed s) (unsynced s) (snapfiles s) (ckpts s) (engine s) (cache s) v (rc s) (nrel s) (wstate s) (wcommit s) (hcommit s) (latest s) (rdp s) (rdseq s) (rd_done s) (rs_last s) (published s) (queue s) (app s) (applied s) (snapi s) (sns s) (ckp s) (pg_wal s) (pg_snap s) (acked s) (proposed s).
Definition set_rc (s : state) (v : rc_pc) : state := mkState (segs s) (unflushed s) (unsynced s) (snapfiles s) (ckpts s) (engine s) (cache s) (restoring s) v (nrel s) (wstate s) (wcommit s) (hcommit s) (latest s) (rdp s) (rdseq s) (rd_done s) (rs_last s) (published s) (queue s) (app s) (applied s) (snapi s) (sns s) (ckp s) (pg_wal s) (pg_snap s) (acked s) (proposed s).
Definition set_nrel (s : state) (v : nat) : state := mkState (segs s) (unflushed s) (unsynced s) (snapfiles s) (ckpts s) (engine s) (cache s) (restoring s) (rc s) v (wstate s) (wcommit s) (hcommit s) (latest s) (rdp s) (rdseq s) (rd_done s) (rs_last s) (published s) (queue s) (app s) (applied s) (snapi s) (sns s) (ckp s) (pg_wal s) (pg_snap s) (acked s) (proposed s).
Definition set_wstate (s : state) (v : bool) : state := mkState (segs s) (unflushed s) (unsynced s) (snapfiles s) (ckpts s) (engine s) (cache s) (restoring s) (rc s) (nrel s) v (wcommit s) (hcommit s) (latest s) (rdp s) (rdseq s) (rd_done s) (rs_last s) (published s) (queue s) (app s) (applied s) (snapi s) (sns s) (ckp s) (pg_wal s) (pg_snap s) (acked s) (proposed s).
Definition set_wcommit (s : state) (v : N) : state := mkState (segs s) (unflushed s) (unsynced s) (snapfiles s) (ckpts s) (engine s) (cache s) (restoring s) (rc s) (nrel s) (wstate s) v (hcommit s) (latest s) (rdp s) (rdseq s) (rd_done s) (rs_last s) (published s) (queue s) (app s) (applied s) (snapi s) (sns s) (ckp s) (pg_wal s) (pg_snap s) (acked s) (proposed s).
Definition set_hcommit (s : state) (v : N) : state := mkState (segs s) (unflushed s) (unsynced s) (snapfiles s) (ckpts s) (engine s) (cache s) (restoring s) (rc s) (nrel s) (wstate s) (wcommit s) v (latest s) (rdp s) (rdseq s) (rd_done s) (rs_last s) (published s) (queue s) (app s) (applied s) (snapi s) (sns s) (ckp s) (pg_wal s) (pg_snap s) (acked s) (proposed s).
Definition set_latest (s : state) (v : N) : state := mkState (segs s) (unflushed s) (unsynced s) (snapfiles s) (ckpts s) (engine s) (cache s) (restoring s) (rc s) (nrel s) (wstate s) (wcommit s) (hcommit s) v (rdp s) (rdseq s) (rd_done s) (rs_last s) (published s) (queue s) (app s) (applied s) (snapi s) (sns s) (ckp s) (pg_wal s) (pg_snap s) (acked s) (proposed s).
Definition set_rdp (s : state) (v : rd_pc) : state := mkState (segs s) (unflushed s) (unsynced s) (snapfiles s) (ckpts s) (engine s) (cache s) (restoring s) (rc s) (nrel s) (wstate s) (wcommit s) (hcommit s) (latest s) v (rdseq s) (rd_done s) (rs_last s) (published s) (queue s) (app s) (applied s) (snapi s) (sns s) (ckp s) (pg_wal s) (pg_snap s) (acked s) (proposed s).
Definition set_rdseq (s : state) (v : N) : state := mkState (segs s) (unflushed s) (unsynced s) (snapfiles s) (ckpts s) (engine s) (cache s) (restoring s) (rc s) (nrel s) (wstate s) (wcommit s) (hcommit s) (latest s) (rdp s) v (rd_done s) (rs_last s) (published s) (queue s) (app s) (applied s) (snapi s) (sns s) (ckp s) (pg_wal s) (pg_snap s) (acked s) (proposed s).
Definition set_rd_done (s : state) (v : N) : state := mkState (segs s) (unflushed s) (unsynced s) (snapfiles s) (ckpts s) (engine s) (cache s) (restoring s) (rc s) (nrel s) (wstate s) (wcommit s) (hcommit s) (latest s) (rdp s) (rdseq s) v (rs_last s) (published s) (queue s) (app s) (applied s) (snapi s) (sns s) (ckp s) (pg_wal s) (pg_snap s) (acked s) (proposed s).
Definition set_rs_last (s : state) (v : N) : state := mkState (segs s) (unflushed s) (unsynced s) (snapfiles s) (ckpts s) (engine s) (cache s) (restoring s) (rc s) (nrel s) (wstate s) (wcommit s) (hcommit s) (latest s) (rdp s) (rdseq s) (rd_done s) v (published s) (queue s) (app s) (applied s) (snapi s) (sns s) (ckp s) (pg_wal s) (pg_snap s) (acked s) (proposed s).
Definition set_published (s : state) (v : N) : state := mkState (segs s) (unflushed s) (unsynced s) (snapfiles s) (ckpts s) (engine s) (cache s) (restoring s) (rc s) (nrel s) (wstate s) (wcommit s) (hcommit s) (latest s) (rdp s) (rdseq s) (rd_done s) (rs_last s) v (queue s) (app s) (applied s) (snapi s) (sns s) (ckp s) (pg_wal s) (pg_snap s) (acked s) (proposed s).
Definition set_queue (s : state) (v : list batch) : state := mkState (segs s) (unflushed s) (unsynced s) (snapfiles s) (ckpts s) (engine s) (cache s) (restoring s) (rc s) (nrel s) (wstate s) (wcommit s) (hcommit s) (latest s) (rdp s) (rdseq s) (rd_done s) (rs_last s) (published s) v (app s) (applied s) (snapi s) (sns s) (ckp s) (pg_wal s) (pg_snap s) (acked s) (proposed s).
Definition set_app (s : state) (v : ap_pc) : state := mkState (segs s) (unflushed s) (unsynced s) (snapfiles s) (ckpts s) (engine s) (cache s) (restoring s) (rc s) (nrel s) (wstate s) (wcommit s) (hcommit s) (latest s) (rdp s) (rdseq s) (rd_done s) (rs_last s) (published s) (queue s) v (applied s) (snapi s) (sns s) (ckp s) (pg_wal s) (pg_snap s) (acked s) (proposed s).
Definition set_applied (s : state) (v : N) : state := mkState (segs s) (unflushed s) (unsynced s) (snapfiles s) (ckpts s) (engine s) (cache s) (restoring s) (rc s) (nrel s) (wstate s) (wcommit s) (hcommit s) (latest s) (rdp s) (rdseq s) (rd_done s) (rs_last s) (published s) (queue s) (app s) v (snapi s) (sns s) (ckp s) (pg_wal s) (pg_snap s) (acked s) (proposed s).
Definition set_snapi (s : state) (v : N) : state := mkState (segs s) (unflushed s) (unsynced s) (snapfiles s) (ckpts s) (engine s) (cache s) (restoring s) (rc s) (nrel s) (wstate s) (wcommit s) (hcommit s) (latest s) (rdp s) (rdseq s) (rd_done s) (rs_last s) (published s) (queue s) (app s) (applied s) v (sns s) (ckp s) (pg_wal s) (pg_snap s) (acked s) (proposed s).
Definition set_sns (s : state) (v : list (N * sn_pc)) : state := mkState (segs s) (unflushed s) (unsynced s) (snapfiles s) (ckpts s) (engine s) (cache s) (restoring s) (rc s) (nrel s) (wstate s) (wcommit s) (hcommit s) (latest s) (rdp s) (rdseq s) (rd_done s) (rs_last s) (published s) (queue s) (app s) (applied s) (snapi s) v (ckp s) (pg_wal s) (pg_snap s) (acked s) (proposed s).
Definition set_ckp (s : state) (v : ck_pc) : state := mkState (segs s) (unflushed s) (unsynced s) (snapfiles s) (ckpts s) (engine s) (cache s) (restoring s) (rc s) (nrel s) (wstate s) (wcommit s) (hcommit s) (latest s) (rdp s) (rdseq s) (rd_done s) (rs_last s) (published s) (queue s) (app s) (applied s) (snapi s) (sns s) v (pg_wal s) (pg_snap s) (acked s) (proposed s).
Definition set_pg_wal (s : state) (v : bool) : state := mkState (segs s) (unflushed s) (unsynced s) (snapfiles s) (ckpts s) (engine s) (cache s) (restoring s) (rc s) (nrel s) (wstate s) (wcommit s) (hcommit s) (latest s) (rdp s) (rdseq s) (rd_done s) (rs_last s) (published s) (queue s) (app s) (applied s) (snapi s) (sns s) (ckp s) v (pg_snap s) (acked s) (proposed s).
Definition set_pg_snap (s : state) (v : option N) : state := mkState (segs s) (unflushed s) (unsynced s) (snapfiles s) (ckpts s) (engine s) (cache s) (restoring s) (rc s) (nrel s) (wstate s) (wcommit s) (hcommit s) (latest s) (rdp s) (rdseq s) (rd_done s) (rs_last s) (published s) (queue s) (app s) (applied s) (snapi s) (sns s) (ckp s) (pg_wal s) v (acked s) (proposed s).
Definition set_acked (s : state) (v : N) : state := mkState (segs s) (unflushed s) (unsynced s) (snapfiles s) (ckpts s) (engine s) (cache s) (restoring s) (rc s) (nrel s) (wstate s) (wcommit s) (hcommit s) (latest s) (rdp s) (rdseq s) (rd_done s) (rs_last s) (published s) (queue s) (app s) (applied s) (snapi s) (sns s) (ckp s) (pg_wal s) (pg_snap s) v (proposed s).
Definition set_proposed (s : state) (v : N) : state := mkState (segs s) (unflushed s) (unsynced s) (snapfiles s) (ckpts s) (engine s) (cache s) (restoring s) (rc s) (nrel s) (wstate s) (wcommit s) (hcommit s) (latest s) (rdp s) (rdseq s) (rd_done s) (rs_last s) (published s) (queue s) (app s) (applied s) (snapi s) (sns s) (ckp s) (pg_wal s) (pg_snap s) (acked s) v.

Notation "s <| f := v |>" := (f s v) (at level 12, left associativity, f at level 0, only parsing).

(* a fresh directory: CleanData, wal.Create writes the marker of the empty snapshot *)
Definition init_state : state :=
  mkState [mkSeg 0 [RSnap 0]] 0 0 [] [] (Some []) [] None RcRunning 0 false 0 0 0 RdIdle 0 0 0 0 [] ApIdle 0 0 [] CkIdle false None 0 0.

(* ---------- events (= the crash point names of the Go code) ---------- *)

Inductive event :=
| EvRdBegin (r : ready)                          (* rd.begin *)
| EvRdSaveBefore | EvRdSaveAfter                 (* rd.walsave.before / after *)
| EvCutBefore (idx : N) | EvCutAfter (idx : N)   (* wl.cut.rename.before / wl.cut.after *)
| EvRdPublish (n last sn : N)                    (* rd.publish.before *)
| EvRdAppendAfter | EvRdAdvance                  (* rd.append.after / rd.advance.before *)
| EvApBefore (a n sn : N) | EvApAfter (a : N) | EvApRaftDone (a : N)     (* ap.apply.before / after, ap.raftdone.after *)
| EvApTriggerBefore (a s : N) | EvApTriggerAfter (a s : N)          (* ap.trigger.before / after *)
| EvCkFlush                                      (* ck.cacheflush.after *)
| EvCkSaveBefore | EvCkSaveAfter | EvCkPurgeBefore | EvCkPurgeAfter (* ck.save.*, ck.purge.* *)
| EvCkPartial                                    (* not logged: the checkpoint directory exists, its content is incomplete *)
| EvCkPurgeOne                                   (* not logged: purgeOldCheckpoint removed one more directory *)
| EvSnStarted (i : N) | EvSnCkDone (i : N) | EvSnCreated (i : N) | EvSnFile (i : N) | EvSnMarked (i : N)
| EvSnSynced (i : N) | EvSnReleased (i : N) | EvSnUpdated (i : N) | EvSnCompacted (i : N)
                                                 (* sn.ckpt.started, sn.ckpt.done, sn.create.after, ps.snapfile.after,
                                                    sn.savesnap.after, sn.sync.after, sn.release.after, sn.updstate.after, sn.compact.after *)
| EvPgBefore (k : N) | EvPgAfter (k : N)         (* pg.remove.before / after; k = 3 wal, 4 snap *)
| EvCrash (j extra : nat)                        (* process death; j of the buffered records did not reach the file,
                                                    extra records of a Save in flight did *)
| EvRcFresh                                      (* startRaft found a wal without raft state (fix b2b9705): new node *)
| EvRcChosen (i : N) | EvRcNone                  (* rc.snap.chosen / rc.snap.none *)
| EvRsRemoved (i : N) | EvRsCopied (i : N) | EvRcRestored (i : N)   (* rs.remove.after, rs.copy.after, rc.restore.after *)
| EvRsMarkerGone                                 (* not logged: restoreFromPath removed its marker file *)
| EvRcReplay (n last commit : N)                 (* rc.replay.after *)
(* incoming snapshot (a follower behind the leader's compacted log) *)
| EvFsMark (i : N) | EvFsCopy (i : N) | EvFsComplete (i : N) | EvFsLocalOk (i : N)
                                                 (* fs.mark.after, fs.copy.after, fs.complete.after, fs.local.ok: prepareSnapshotForStore *)
| EvAsPrepared (i : N) | EvAsRaftDone (i : N) | EvAsRestored (i : N)   (* as.prepare.after, as.raftdone.after, as.restore.after *)
| EvRdSaveSnapBefore (i : N) | EvRdSnapFile (i : N) | EvRdSaveSnapAfter (i : N)
                                                 (* rd.savesnap.before, ps.snapfile.after (raft loop), rd.savesnap.after *)
| EvRdApplySnapBefore (i : N) | EvRdApplySnapAfter (i : N) | EvRdReleaseAfter (i : N).
                                                 (* rd.applysnap.before / after, rd.release.after *)

(* reject reasons (reported by the acceptor) *)
Definition R_PC : N := 100.         (* the event is not the next sub-step of its program *)
Definition R_ENV : N := 101.        (* a Ready the raft library is assumed not to produce *)
Definition R_OUT : N := 107.        (* a step of the code that the model does not follow: the run is outside the model
                                       (its correspondence is not established; counted in the evidence) *)
Definition R_ARG : N := 102.        (* the event carries a value the model does not predict *)
Definition R_GUARD : N := 103.      (* ordering guard of the code violated *)
Definition R_ENGINE : N := 104.     (* engine used while its content is untrusted *)
Definition R_RECOVER : N := 105.    (* the restart cannot proceed on this world *)

Definition running (s : state) : bool := match rc s with RcRunning => true | _ => false end.

(* not followed: a checkpoint fetched from another replica under the index the local backup loop is writing right now *)
Definition fs_clash (s : state) (i : N) : bool :=
  match ckp s with CkSaving a _ => a =? i | _ => false end.

(* in every crash image (0 .. unflushed buffered records lost) the last saved commit index is below i *)
Definition lc_images_lt (s : state) (i : N) : bool :=
  forallb (fun j => last_commit (all_recs (drop_tail (segs s) j)) <? i) (seq 0 (S (unflushed s))).

(* a hard state is in the file (not only in the write buffer) *)
Definition has_flushed_state (s : state) : bool :=
  existsb (fun r => match r with RState _ => true | _ => false end) (all_recs (drop_tail (segs s) (unflushed s))).

(* node/raft.go shouldPersistBeforeApply *)
Definition overlap (r : ready) : bool :=
  (0 <? r_cn r) && (0 <? r_n r) && (r_first r <=? r_clast r).

Definition ready_records (r : ready) : list rec :=
  map REnt (if 0 <? r_n r then range (r_first r - 1) (r_last r) else []) ++ (if r_hs r then [RState (r_commit r)] else []).

(* what the raft library may hand out (checked on every observed Ready by the acceptor):
   entries continue the log without a gap, committed entries continue the published ones and
   exist, the commit index never goes back (neither behind the last one handed out nor behind the last one
   in the WAL) and covers the committed entries, and in a process life entries are not saved before a hard
   state is (a replica first learns or wins a term) *)
Definition ready_ok (s : state) (r : ready) : bool :=
  let last' := if 0 <? r_snap r then r_snap r else if 0 <? r_n r then r_last r else rs_last s in
  let commit' := if r_hs r then r_commit r else hcommit s in
  (if 0 <? r_n r then (r_first r =? rs_last s + 1) && (r_last r + 1 =? r_first r + r_n r) && (wstate s || r_hs r) else true)
  && (if 0 <? r_cn r then (r_cfirst r =? published s + 1) && (r_clast r + 1 =? r_cfirst r + r_cn r)
                          && (r_clast r <=? last') && (r_clast r <=? commit')
      else true)
  && (if r_hs r then (hcommit s <=? r_commit r) && (last_commit (all_recs (segs s)) <=? r_commit r) && (r_commit r <=? last') else true)
  (* an incoming snapshot is ahead of the whole local log and of everything applied or being snapshotted here; its
     Ready carries the new commit index and nothing else *)
  && (if 0 <? r_snap r
      then (r_n r =? 0) && (r_cn r =? 0) && r_hs r && (r_commit r =? r_snap r) && (rs_last s <? r_snap r)
           && (published s <? r_snap r) && lc_images_lt s (r_snap r) && has_flushed_state s
      else true).

(* wal.ReleaseLockTo(i) on the locked segments ls (positions from nrel on): keep from the segment just
   before the first one whose name index is >= i (or only the last one) *)
Fixpoint first_ge (ls : list seg) (i : N) (pos : nat) : option nat :=
  match ls with
  | [] => None
  | s :: t => if i <=? sfirst s then Some pos else first_ge t i (S pos)
  end.
Definition release_to (ss : list seg) (nrel : nat) (i : N) : nat :=
  let ls := skipn nrel ss in
  let smaller := match first_ge ls i 0%nat with Some p => Nat.pred p | None => Nat.pred (length ls) end in
  (nrel + smaller)%nat.

Fixpoint sn_lookup (i : N) (l : list (N * sn_pc)) : option sn_pc :=
  match l with [] => None | (j, p) :: t => if i =? j then Some p else sn_lookup i t end.
Definition sn_remove (i : N) (l : list (N * sn_pc)) : list (N * sn_pc) := filter (fun q => negb (i =? fst q)) l.
Definition sn_set (i : N) (p : sn_pc) (l : list (N * sn_pc)) : list (N * sn_pc) := (i, p) :: sn_remove i l.

Definition sn_pc_eqb (a b : sn_pc) : bool :=
  match a, b with
  | SnStarted, SnStarted | SnCkDone, SnCkDone | SnCreated, SnCreated | SnFile, SnFile | SnMarked, SnMarked
  | SnSynced, SnSynced | SnReleased, SnReleased | SnUpdated, SnUpdated => true
  | _, _ => false
  end.

(* advance the snapshot goroutine of i from pc [from] to [to] after applying f *)
Definition sn_step (s : state) (i : N) (from to : sn_pc) (f : state -> state) : result state :=
  match sn_lookup i (sns s) with
  | Some p => if sn_pc_eqb p from then Ok (let s' := f s in s' <| set_sns := sn_set i to (sns s') |>) else Err R_PC
  | None => Err R_PC
  end.

Definition last_of (l : list N) : N := last l 0.



Definition reset_volatile (s : state) : state :=
  mkState (segs s) 0 0 (snapfiles s) (ckpts s) None [] (restoring s) RcStart (length (segs s)) false 0 0 0 RdIdle 0 0 0 0 [] ApIdle 0 0 []
          CkIdle false None (acked s) (proposed s).

(* wal.Save: entries and hard state are encoded into the tail segment (still buffered) *)
(* ghost: the last not yet valid incoming marker of i becomes valid (its hard state is being written behind it) *)
Fixpoint validate_recs (i : N) (rs : list rec) : list rec * bool :=
  match rs with
  | [] => ([], false)
  | r :: t =>
    let (t', done) := validate_recs i t in
    if done then (r :: t', true)
    else match r with
         | RSnapIn false h j => if j =? i then (RSnapIn true h j :: t', true) else (r :: t', false)
         | _ => (r :: t', false)
         end
  end.
Fixpoint validate_segs (i : N) (ss : list seg) : list seg :=
  (* the record sits in the tail segment: no segment is cut between an incoming snapshot's record and its hard state *)
  match ss with
  | [] => []
  | [sg] => [mkSeg (sfirst sg) (fst (validate_recs i (srecs sg)))]
  | sg :: t => sg :: validate_segs i t
  end.
Definition validated (i : N) (ss : list seg) : list seg := validate_segs i ss.

Definition save_records (s : state) (r : ready) : state :=
  let rs := ready_records r in
  let n := length rs in
  s <| set_segs := app_tail (segs s) rs |> <| set_unflushed := (unflushed s + n)%nat |>
    <| set_unsynced := (unsynced s + n)%nat |>
    <| set_wstate := wstate s || r_hs r |> <| set_wcommit := if r_hs r then r_commit r else wcommit s |>
    <| set_hcommit := if r_hs r then r_commit r else hcommit s |>.

(* the crash images of a state (process death): j <= unflushed buffered records never reached the file;
   or, when a Save is between its two events, the buffered records and [extra] of its own did *)
(* the Ready whose incoming snapshot has its WAL record written while the hard state that makes it valid is not known
   to be in the file yet *)
Definition pending (s : state) : option ready :=
  match rdp s with
  | RdSnapSaving r _ | RdSnapSaved r | RdSaving r _ _ | RdCutting r _ _ | RdBegun r _ _ => if 0 <? r_snap r then Some r else None
  | _ => None
  end.

(* ghost: in a crash image the pending incoming marker counts as valid exactly when its hard state reached the file *)
Definition norm_image (s : state) (ss : list seg) : list seg :=
  match pending s with
  | Some r => if r_snap r <=? last_commit (all_recs ss) then validated (r_snap r) ss else ss
  | None => ss
  end.

Definition image (s : state) (j extra : nat) : option (list seg) :=
  match extra with
  | O => if Nat.leb j (unflushed s) then Some (norm_image s (drop_tail (segs s) j)) else None
  | S _ =>
    match rdp s, j with
    | RdSaving r _ false, O =>
      if Nat.leb extra (length (ready_records r)) then Some (norm_image s (app_tail (segs s) (firstn extra (ready_records r)))) else None
    | _, _ => None
    end
  end.

(* a restore that a previous life did not finish: the marker is there and the files are not (known to be) complete *)
Definition restore_pending (s : state) : bool :=
  match restoring s, engine s with Some _, None => true | _, _ => false end.

Definition step (c : config) (s : state) (ev : event) : result state :=
  match ev with
  (* ----- raft loop: processReady ----- *)
  | EvRdBegin r =>
    match rdp s with
    | RdIdle =>
      if negb (running s) then Err R_PC
      else if negb (ready_ok s r) then Err R_ENV
      else Ok (s <| set_rdp := RdBegun r false false |> <| set_rdseq := rdseq s + 1 |>
                 <| set_proposed := N.max (proposed s) (if 0 <? r_snap r then r_snap r else if 0 <? r_n r then r_last r else 0) |>)
    | _ => Err R_PC
    end
  | EvRdSaveBefore =>
    match rdp s with
    | RdBegun r false p =>
      (* with overlapping committed entries the save comes before the publication, otherwise after it *)
      let ov := persist_first c && overlap r in
      if 0 <? r_snap r then Err R_PC      (* persistRaftState saves the snapshot first *)
      else if (ov && p) || (negb ov && (0 <? r_cn r) && negb p) then Err R_GUARD
      else Ok (s <| set_rdp := RdSaving r p false |>)
    | RdSnapSaved r => Ok (s <| set_rdp := RdSaving r true false |>)
    | _ => Err R_PC
    end
  | EvCutBefore idx =>
    (* wal.Save: the records are encoded, the tail segment is over its size: cut() flushes (and syncs) it *)
    match rdp s with
    | RdSaving r p false =>
      let s1 := save_records s r in
      (* a Save without entries and without a hard state returns before it could cut *)
      if negb ((0 <? r_n r) || r_hs r) then Err R_GUARD
      else if 0 <? r_snap r then
        (* the Save of the hard state that makes an incoming snapshot's record valid: the cut flushes it into the old
           segment; the name of the new segment continues the snapshot's index (wal.SaveSnapshot has moved enti) *)
        if negb (idx =? r_snap r + 1) then Err R_ARG
        else if negb (match app s with ApSnapPrepared j => j =? r_snap r | _ => false end) then Err R_GUARD
        else if negb (forallb (fun b => b_snap b =? 0) (queue s)) then Err R_GUARD
        else Ok (s1 <| set_segs := validated (r_snap r) (segs s1) |>
                    <| set_unflushed := 0%nat |> <| set_unsynced := if opt_fsync c then unsynced s1 else 0%nat |>
                    <| set_rdp := RdSnapCut r 0 idx |>)
      else if negb (idx =? last_entry (all_recs (segs s1)) + 1) then Err R_ARG
      else Ok (s1 <| set_unflushed := 0%nat |> <| set_unsynced := if opt_fsync c then unsynced s1 else 0%nat |>
                  <| set_rdp := RdCutting r p idx |>)
    | _ => Err R_PC
    end
  | EvCutAfter idx =>
    match rdp s with
    | RdCutting r p idx' =>
      if negb (idx =? idx') then Err R_ARG
      else Ok (s <| set_segs := segs s ++ [mkSeg idx (if wstate s then [RState (wcommit s)] else [])] |>
                 <| set_unflushed := 0%nat |>
                 <| set_unsynced := if opt_fsync c then (unsynced s + (if wstate s then 1 else 0))%nat else 0%nat |>
                 <| set_rdp := RdSaving r p true |>)
    | RdSnapCut r O idx' =>
      if negb (idx =? idx') then Err R_ARG
      else Ok (s <| set_segs := segs s ++ [mkSeg idx (if wstate s then [RState (wcommit s)] else [])] |>
                 <| set_unflushed := 0%nat |>
                 <| set_unsynced := if opt_fsync c then (unsynced s + (if wstate s then 1 else 0))%nat else 0%nat |>
                 <| set_rdp := RdSnapCut r 1 idx |>)
    | _ => Err R_PC
    end
  | EvRdSaveAfter =>
    match rdp s with
    | RdSaving r p appended =>
      let s0 := if appended then s else save_records s r in
      let must_sync := (0 <? r_n r) || (r_hs r && r_tv r) in
      let fsync := negb (opt_fsync c) || (r_hs r && r_tv r) in
      let s1 := if must_sync then s0 <| set_unflushed := 0%nat |> else s0 in
      let s2 := if must_sync && fsync then s1 <| set_unsynced := 0%nat |> else s1 in
      Ok (s2 <| set_rdp := RdBegun r true p |>)
    | RdSnapCut r 1 idx =>
      (* the records went into the old segment before the cut; the end of the Save flushes the new one when it has to *)
      let must_sync := (0 <? r_n r) || (r_hs r && r_tv r) in
      let fsync := negb (opt_fsync c) || (r_hs r && r_tv r) in
      let s1 := if must_sync then s <| set_unflushed := 0%nat |> else s in
      let s2 := if must_sync && fsync then s1 <| set_unsynced := 0%nat |> else s1 in
      Ok (s2 <| set_rdp := RdSnapCut r 2 idx |>)
    | _ => Err R_PC
    end
  | EvRdPublish n lastp sn =>
    match rdp s with
    | RdBegun r sv false =>
      if persist_first c && overlap r && negb sv then Err R_GUARD
      else if negb (n =? r_cn r) || ((0 <? r_cn r) && negb (lastp =? r_clast r)) || negb (sn =? r_snap r)
              || ((0 <? r_snap r) && negb (lastp =? r_snap r)) then Err R_ARG
      else Ok (s <| set_queue := queue s ++ [mkBatch (r_cfirst r) (r_clast r) (r_cn r) (r_snap r)] |>
                 <| set_published := if 0 <? r_snap r then r_snap r else if 0 <? r_cn r then r_clast r else published s |>
                 <| set_rdp := RdBegun r sv true |>)
    | _ => Err R_PC
    end
  (* persistRaftState of a Ready with an incoming snapshot: SaveSnap (snap file, then WAL record, flushed), then the
     hard state; processReady has waited for the apply loop's PrepareSnapshot (the checkpoint is on the local disk) *)
  | EvRdSaveSnapBefore i =>
    match rdp s, app s with
    | RdBegun r false true, ApSnapPrepared j =>
      if negb (i =? r_snap r) || negb (i =? j) || negb (0 <? i) then Err R_ARG
      else match lookup i (ckpts s) with
           | Some _ => Ok (s <| set_rdp := RdSnapSaving r false |>)
           | None => Err R_GUARD       (* PrepareSnapshot has put the checkpoint on the local disk *)
           end
    | RdBegun _ false true, _ => Err R_GUARD
    | _, _ => Err R_PC
    end
  | EvRdSnapFile i =>
    match rdp s with
    | RdSnapSaving r false =>
      if negb (i =? r_snap r) then Err R_ARG
      else Ok (s <| set_snapfiles := i :: removeN i (snapfiles s) |> <| set_rdp := RdSnapSaving r true |>)
    | _ => Err R_PC
    end
  | EvRdSaveSnapAfter i =>
    match rdp s with
    | RdSnapSaving r true =>
      if negb (i =? r_snap r) then Err R_ARG
      else Ok (s <| set_segs := app_tail (segs s) [RSnapIn false (last_entry (all_recs (segs s))) i] |>
                 <| set_unflushed := 0%nat |> <| set_unsynced := if opt_fsync c then S (unsynced s) else 0%nat |>
                 <| set_latest := i |> <| set_rdp := RdSnapSaved r |>)
    | _ => Err R_PC
    end
  (* after the save: Sync (the hard state is in the file: the marker is valid from here on), raftDone,
     raftStorage.ApplySnapshot, Release *)
  | EvRdApplySnapBefore i =>
    match rdp s with
    | RdBegun r true true =>
      if negb (0 <? r_snap r) then Err R_PC
      else if negb (i =? r_snap r) then Err R_ARG
      (* the apply loop is waiting for raftDone inside applySnapshot *)
      else if negb (match app s with ApSnapPrepared j => j =? i | _ => false end) then Err R_GUARD
      else if negb (forallb (fun b => b_snap b =? 0) (queue s)) then Err R_GUARD
      else Ok (s <| set_segs := validated i (segs s) |> <| set_unflushed := 0%nat |> <| set_unsynced := 0%nat |>
                 <| set_rd_done := i |> <| set_rdp := RdSnapApply r 0 |>)
    | RdSnapCut r 2 _ =>
      (* the record was made valid by the cut *)
      if negb (i =? r_snap r) then Err R_ARG
      else if negb (match app s with ApSnapPrepared j => j =? i | _ => false end) then Err R_GUARD
      else if negb (forallb (fun b => b_snap b =? 0) (queue s)) then Err R_GUARD
      else Ok (s <| set_unflushed := 0%nat |> <| set_unsynced := 0%nat |> <| set_rd_done := i |> <| set_rdp := RdSnapApply r 0 |>)
    | _ => Err R_PC
    end
  | EvRdApplySnapAfter i =>
    match rdp s with
    | RdSnapApply r O => if i =? r_snap r then Ok (s <| set_rdp := RdSnapApply r 1 |>) else Err R_ARG
    | _ => Err R_PC
    end
  | EvRdReleaseAfter i =>
    match rdp s with
    | RdSnapApply r 1 =>
      if i =? r_snap r then Ok (s <| set_nrel := release_to (segs s) (nrel s) i |> <| set_rdp := RdSnapApply r 2 |>) else Err R_ARG
    | _ => Err R_PC
    end
  | EvRdAppendAfter =>
    match rdp s with
    | RdBegun r true p =>
      if 0 <? r_snap r then Err R_PC
      else if (0 <? r_cn r) && negb p then Err R_GUARD
      else Ok (s <| set_rs_last := if 0 <? r_n r then r_last r else rs_last s |> <| set_rd_done := published s |>
                 <| set_rdp := RdAppended r |>)
    | RdSnapApply r 2 =>
      Ok (s <| set_rs_last := r_snap r |> <| set_rd_done := published s |> <| set_rdp := RdAppended r |>)
    | _ => Err R_PC
    end
  | EvRdAdvance =>
    match rdp s with
    | RdAppended r => Ok (s <| set_rdp := RdIdle |>)
    | _ => Err R_PC
    end
  (* ----- apply loop: applyCommits ----- *)
  | EvApBefore a n sn =>
    match app s, queue s with
    | ApIdle, b :: q =>
      if negb (running s) then Err R_PC
      else if negb (a =? applied s) || negb (n =? b_n b) || negb (sn =? b_snap b) then Err R_ARG
      else if 0 <? b_snap b then
        (* the raft loop is waiting for the transfer result of this very snapshot *)
        match rdp s with
        | RdBegun r false true =>
          if r_snap r =? b_snap b then Ok (s <| set_queue := q |> <| set_app := ApSnapPrepare (b_snap b) |>) else Err R_GUARD
        | _ => Err R_GUARD
        end
      else Ok (s <| set_queue := q |> <| set_app := ApApplying b |>)
    | _, _ => Err R_PC
    end
  (* applySnapshot: PrepareSnapshot has the checkpoint of the snapshot on the local disk, the result goes to the raft
     loop; after raft has persisted the snapshot the engine is replaced by that checkpoint *)
  | EvAsPrepared i =>
    match app s, lookup i (ckpts s) with
    | ApSnapPrepare j, Some _ => if i =? j then Ok (s <| set_app := ApSnapPrepared i |>) else Err R_ARG
    | ApSnapPrepare _, None => Err R_RECOVER
    | _, _ => Err R_PC
    end
  | EvAsRaftDone i =>
    match app s with
    | ApSnapPrepared j =>
      if negb (i =? j) then Err R_ARG
      else if i <=? rd_done s then Ok (s <| set_app := ApSnapRestoring i 0 |>) else Err R_GUARD
    | _ => Err R_PC
    end
  | EvAsRestored i =>
    match app s, engine s with
    | ApSnapRestoring j 2, Some _ =>
      if negb (i =? j) then Err R_ARG
      (* restoreFromPath ends with purgeOldCheckpoint, like the restore of a restart *)
      else Ok (s <| set_ckpts := purge_ckpts (eff_keep_ckpt c) (latest s) (ckpts s) |>
                 <| set_applied := i |> <| set_snapi := i |> <| set_acked := N.max (acked s) i |> <| set_cache := [] |>
                 <| set_restoring := None |> <| set_app := ApApplying (mkBatch 0 0 0 i) |>)
    | ApSnapRestoring _ 2, None => Err R_ENGINE
    | _, _ => Err R_PC
    end
  (* prepareSnapshotForStore: the checkpoint of an incoming snapshot is on the local disk already, or it is copied from
     a replica that has it: the directory is marked incomplete, filled, marked complete. It runs in the transport's
     receive goroutine (before raft sees the message), in applySnapshot and in startRaft. *)
  | EvFsLocalOk i =>
    match lookup i (ckpts s) with Some _ => Ok s | None => Err R_GUARD end
  | EvFsMark i =>
    (* MarkCheckpointIncomplete writes a marker file next to the (possibly not yet existing) directory *)
    match lookup i (ckpts s) with
    | Some _ => Err R_GUARD      (* a complete checkpoint is never marked incomplete again *)
    | None => if 0 <? i then Ok s else Err R_ARG
    end
  | EvFsCopy i =>
    (* the directory exists (wholly or partly), still marked incomplete *)
    if fs_clash s i then Err R_OUT else
    match lookup i (ckpts s) with
    | None => if 0 <? i then Ok (s <| set_ckpts := (i, None) :: remove_ckpt i (ckpts s) |>) else Err R_ARG
    | Some _ => Err R_GUARD
    end
  | EvFsComplete i =>
    if fs_clash s i then Err R_OUT else
    if memN i (map fst (ckpts s))
    then match lookup i (ckpts s) with
         | None => Ok (s <| set_ckpts := (i, Some (range 0 i)) :: remove_ckpt i (ckpts s) |>)
         | Some _ => Err R_GUARD
         end
    else Err R_PC
  | EvApAfter a =>
    match app s with
    | ApApplying b =>
      if b_n b =? 0 then
        if a =? applied s then Ok (s <| set_app := ApApplied b |>) else Err R_ARG
      else if applied s + 1 <? b_first b then Err R_GUARD
      else
        let na := N.max (applied s) (b_last b) in
        match engine s with
        | None => Err R_ENGINE
        | Some l =>
          if negb (a =? na) then Err R_ARG
          else Ok (s <| set_engine := Some (l ++ range (applied s) na) |> <| set_cache := cache s ++ range (applied s) na |>
                     <| set_applied := na |>
                     <| set_acked := N.max (acked s) na |> <| set_app := ApApplied b |>)
        end
    | _ => Err R_PC
    end
  | EvApRaftDone a =>
    match app s with
    | ApApplied b => if (b_n b =? 0) || (b_last b <=? rd_done s) then Ok (s <| set_app := ApDone |>) else Err R_GUARD
    | _ => Err R_PC
    end
  | EvApTriggerBefore a sn =>
    match app s with
    | ApDone => if (a =? applied s) && (sn =? snapi s) then Ok (s <| set_app := ApTrigger |>) else Err R_ARG
    | _ => Err R_PC
    end
  | EvApTriggerAfter a sn =>
    match app s with
    | ApTrigger | ApFlushed | ApTriggerDone =>
      if (a =? applied s) && (sn =? snapi s) then Ok (s <| set_app := ApIdle |>) else Err R_ARG
    | _ => Err R_PC
    end
  (* ----- backup loop: checkpoint asked for by maybeTriggerSnapshot -> beginSnapshot -> Backup ----- *)
  | EvCkFlush =>
    (* hllCache.Flush: when maybeTriggerSnapshot decided to snapshot, beginSnapshot -> GetSnapshot -> RockDB.Backup
       flushes the cache before it queues the checkpoint *)
    match app s with
    | ApTrigger => Ok (s <| set_cache := [] |> <| set_app := ApFlushed |>)
    | _ => Ok (s <| set_cache := [] |>)          (* any other flush of the cache (eviction, close) *)
    end
  | EvCkSaveBefore =>
    (* the backup loop takes the request: the checkpoint captures what is in the engine, not what is only cached *)
    match ckp s, engine s with
    | CkIdle, Some l =>
      if (match app s with ApFlushed => true | ApTrigger => negb (flush_first c) | _ => false end) && (snapi s <? applied s)
      then Ok (s <| set_ckpts := remove_ckpt (applied s) (ckpts s) |>
                 <| set_ckp := CkSaving (applied s) (filter (fun i => negb (memN i (cache s))) l) |>
                 <| set_app := ApTriggered (applied s) |>)
      else Err R_PC
    | _, _ => Err R_PC
    end
  | EvCkSaveAfter =>
    match ckp s with
    | CkSaving i l => Ok (s <| set_ckpts := (i, Some l) :: remove_ckpt i (ckpts s) |> <| set_ckp := CkSaved |>)
    | _ => Err R_PC
    end
  | EvCkPartial =>
    match ckp s with
    | CkSaving i l => Ok (s <| set_ckpts := (i, None) :: remove_ckpt i (ckpts s) |>)
    | _ => Err R_PC
    end
  | EvCkPurgeOne =>
    match ckp s with
    | CkPurging lat =>
      match purge_next (eff_keep_ckpt c) lat (ckpts s) with
      | Some i => Ok (s <| set_ckpts := remove_ckpt i (ckpts s) |>)
      | None => Err R_GUARD
      end
    | _ => Err R_PC
    end
  | EvCkPurgeBefore =>
    (* the latest snapshot index is loaded when the purge starts *)
    match ckp s with CkSaved => Ok (s <| set_ckp := CkPurging (latest s) |>) | _ => Err R_PC end
  | EvCkPurgeAfter =>
    match ckp s with
    | CkPurging lat => Ok (s <| set_ckpts := purge_ckpts (eff_keep_ckpt c) lat (ckpts s) |> <| set_ckp := CkIdle |>)
    | _ => Err R_PC
    end
  (* ----- snapshot goroutine of beginSnapshot ----- *)
  | EvSnStarted i =>
    match app s with
    | ApTriggered j =>
      if i =? j then Ok (s <| set_sns := sn_set i SnStarted (sns s) |> <| set_snapi := i |> <| set_app := ApTriggerDone |>)
      else Err R_ARG
    | _ => Err R_PC
    end
  | EvSnCkDone i =>
    match lookup i (ckpts s) with
    | Some _ => sn_step s i SnStarted SnCkDone (fun x => x)
    | None => Err R_GUARD
    end
  | EvSnCreated i => sn_step s i SnCkDone SnCreated (fun x => x)
  | EvSnFile i =>
    (* not followed: a local snapshot at exactly the index of an incoming snapshot whose record was left invalid by a crash *)
    if memN i (unvalidated (all_recs (segs s))) then Err R_OUT
    else sn_step s i SnCreated SnFile (fun x => x <| set_snapfiles := i :: removeN i (snapfiles x) |>)
  | EvSnMarked i =>
    sn_step s i SnFile SnMarked
      (fun x => x <| set_segs := app_tail (segs x) [RSnap i] |> <| set_unflushed := 0%nat |>
                  <| set_unsynced := if opt_fsync c then S (unsynced x) else 0%nat |>)
  (* the goroutine's Sync() ran at some moment between its two log lines: records another goroutine has buffered before
     this line may or may not have been flushed by it, so the model does not count on it (SaveSnapshot has flushed) *)
  | EvSnSynced i => sn_step s i SnMarked SnSynced (fun x => x)
  | EvSnReleased i => sn_step s i SnSynced SnReleased (fun x => x <| set_nrel := release_to (segs x) (nrel x) i |>)
  | EvSnUpdated i => sn_step s i SnReleased SnUpdated (fun x => x <| set_latest := i |>)
  | EvSnCompacted i =>
    match sn_lookup i (sns s) with
    | Some SnUpdated => Ok (s <| set_sns := sn_remove i (sns s) |>)
    | _ => Err R_PC
    end
  (* ----- purge loops of raftNode.purgeFile ----- *)
  | EvPgBefore k =>
    if negb (running s) then Err R_PC
    else if k =? 3 then
      if pg_wal s then Err R_PC
      else if Nat.ltb (eff_keep_wal c) (length (segs s)) && Nat.ltb 0 (nrel s) then Ok (s <| set_pg_wal := true |>) else Err R_GUARD
    else if k =? 4 then
      match pg_snap s, minl (snapfiles s) with
      | None, Some m => if Nat.ltb (eff_keep_snap c) (length (snapfiles s)) then Ok (s <| set_pg_snap := Some m |>) else Err R_GUARD
      | None, None => Err R_GUARD
      | Some _, _ => Err R_PC
      end
    else Err R_ARG
  | EvPgAfter k =>
    if k =? 3 then
      if pg_wal s then Ok (s <| set_segs := tl (segs s) |> <| set_nrel := Nat.pred (nrel s) |> <| set_pg_wal := false |>) else Err R_PC
    else if k =? 4 then
      match pg_snap s with
      | Some m => Ok (s <| set_snapfiles := removeN m (snapfiles s) |> <| set_pg_snap := None |>)
      | None => Err R_PC
      end
    else Err R_ARG
  (* ----- process death and restart: startRaft ----- *)
  | EvCrash j extra =>
    match image s j extra with
    | Some ss => Ok (reset_volatile (s <| set_segs := ss |>))
    | None => Err R_ARG
    end
  | EvRcFresh =>
    match rc s with
    | RcStart =>
      (* node/raft.go isUnusedWAL: ReadAll from the empty snapshot finds no entry and no hard state *)
      match read_all (segs s) 0 with
      | Ok ([], cm) =>
        if existsb (fun r => match r with RState _ => true | _ => false end) (all_recs (segs s)) then Err R_GUARD
        else if restore_pending s then Err R_PC
        else Ok (mkState [mkSeg 0 [RSnap 0]] 0 0 (snapfiles s) (ckpts s) (Some []) [] None RcRunning 0 false 0 0 0 RdIdle 0 0 0 0 []
                         ApIdle 0 0 [] CkIdle false None (acked s) (proposed s))
      | _ => Err R_GUARD
      end
    | _ => Err R_PC
    end
  | EvRcChosen i =>
    match rc s with
    | RcStart =>
      if restore_pending s then Err R_PC
      else
      match choose_snapshot (segs s) (snapfiles s) with
      | Some j =>
        if i =? j
        then Ok (s <| set_snapfiles := if clean_orphans c then remove_orphans (segs s) (snapfiles s) (Some j) else snapfiles s |>
                   <| set_latest := j |> <| set_restoring := None |> <| set_engine := None |> <| set_rc := RcChosen j |>)
        else Err R_ARG
      | None => Err R_ARG
      end
    | _ => Err R_PC
    end
  | EvRcNone =>
    match rc s with
    | RcStart =>
      if restore_pending s then Err R_PC
      else
      match choose_snapshot (segs s) (snapfiles s) with
      | None => Ok (s <| set_snapfiles := if clean_orphans c then remove_orphans (segs s) (snapfiles s) None else snapfiles s |>
                      <| set_engine := Some [] |> <| set_restoring := None |> <| set_rc := RcNone |>)
      | Some _ => Err R_ARG
      end
    | _ => Err R_PC
    end
  | EvRsRemoved i =>
    (* restoreFromPath has written its marker and removed the files of the data directory: either the restore of the
       chosen snapshot, or (rockredis OpenRockDB, fix d2f1422) the restore a previous life was interrupted in *)
    match rc s with
    | RcChosen j =>
      if negb (i =? j) then Err R_ARG
      else match lookup j (ckpts s) with
           | Some _ => Ok (s <| set_engine := None |> <| set_restoring := Some j |>)
           | None => Err R_RECOVER
           end
    | RcStart =>
      match restoring s with
      | Some j =>
        if negb (i =? j) then Err R_ARG
        else match lookup j (ckpts s) with
             | Some _ => Ok (s <| set_engine := None |>)
             | None => Err R_RECOVER
             end
      | None => Err R_PC
      end
    | RcRunning =>
      (* RestoreFromSnapshot of an incoming snapshot *)
      match app s with
      | ApSnapRestoring j 0 =>
        if negb (i =? j) then Err R_ARG
        else match lookup j (ckpts s) with
             | Some _ => Ok (s <| set_engine := None |> <| set_restoring := Some j |> <| set_app := ApSnapRestoring j 1 |>)
             | None => Err R_RECOVER
             end
      | _ => Err R_PC
      end
    | _ => Err R_PC
    end
  | EvRsCopied i =>
    match rc s with
    | RcChosen j =>
      if negb (i =? j) then Err R_ARG
      else match lookup j (ckpts s) with
           | Some l => Ok (s <| set_engine := Some l |>)
           | None => Err R_RECOVER
           end
    | RcStart =>
      match restoring s with
      | Some j =>
        if negb (i =? j) then Err R_ARG
        else match lookup j (ckpts s) with
             | Some l => Ok (s <| set_engine := Some l |>)
             | None => Err R_RECOVER
             end
      | None => Err R_PC
      end
    | RcRunning =>
      match app s, restoring s with
      | ApSnapRestoring j 1, Some _ =>
        if negb (i =? j) then Err R_ARG
        else match lookup j (ckpts s) with
             | Some l => Ok (s <| set_engine := Some l |> <| set_app := ApSnapRestoring j 2 |>)
             | None => Err R_RECOVER
             end
      | _, _ => Err R_PC
      end
    | _ => Err R_PC
    end
  | EvRsMarkerGone =>
    match restoring s, engine s with
    | Some _, Some _ =>
      if running s && negb (match app s with ApSnapRestoring _ 2 => true | _ => false end) then Err R_PC
      else Ok (s <| set_restoring := None |>)
    | _, _ => Err R_PC
    end
  | EvRcRestored i =>
    match rc s, engine s with
    | RcChosen j, Some _ =>
      if negb (i =? j) then Err R_ARG
      else Ok (s <| set_ckpts := purge_ckpts (eff_keep_ckpt c) (latest s) (ckpts s) |> <| set_restoring := None |> <| set_rc := RcRestored j |>)
    | RcChosen _, None => Err R_ENGINE
    | _, _ => Err R_PC
    end
  | EvRcReplay n lastp commit =>
    let go (i : N) :=
      match read_all (segs s) i, covering (segs s) i with
      | Ok (ents, cm), Some p =>
        if negb (n =? N.of_nat (length ents)) || negb (lastp =? last_of ents) || negb (commit =? cm) then Err R_ARG
        else Ok (s <| set_nrel := p |> <| set_rs_last := if n =? 0 then i else last_of ents |> <| set_published := i |>
                   <| set_applied := i |> <| set_snapi := i |> <| set_hcommit := cm |> <| set_rd_done := i |> <| set_rc := RcRunning |>)
      | Err e, _ => Err R_RECOVER
      | _, None => Err R_RECOVER
      end in
    match rc s with
    | RcRestored i => go i
    | RcNone => go 0
    | _ => Err R_PC
    end
  end.

(* run an event list; the position of the first rejected event is reported *)
Fixpoint run_from (c : config) (s : state) (evs : list event) (pos : N) : state * option (N * N) :=
  match evs with
  | [] => (s, None)
  | e :: t =>
    match step c s e with
    | Ok s' => run_from c s' t (pos + 1)
    | Err code => (s, Some (pos, code))
    end
  end.

Fixpoint run (c : config) (s : state) (evs : list event) : result state :=
  match evs with
  | [] => Ok s
  | e :: t => match step c s e with Ok s' => run c s' t | Err code => Err code end
  end.

(* what a directory listing shows *)
Definition listing (s : state) : list N * list N * list N :=
  (map sfirst (segs s), snapfiles s, map fst (ckpts s)).

(* what a replica that is restarted WITHOUT its peers serves: the restart procedure applies the log only up to the
   commit index it finds in the WAL (a single-replica group commits the rest by itself: [recover]) *)
Definition recover_isolated (ss : list seg) (snapfiles : list N) (cks : list (N * option (list N))) : result (list N) :=
  match choose_snapshot ss snapfiles with
  | None =>
    match read_all ss 0 with
    | Err e => Err e
    | Ok (ents, cm) => Ok (filter (fun e => e <=? cm) ents)
    end
  | Some i =>
    match lookup i cks with
    | None => Err E_NO_BACKUP
    | Some l =>
      match read_all ss i with
      | Err e => Err e
      | Ok (ents, cm) => Ok (l ++ filter (fun e => e <=? cm) ents)
      end
    end
  end.

Definition recover_state_isolated (s : state) (j extra : nat) : result (list N) :=
  match image s j extra with
  | Some ss => recover_isolated ss (snapfiles s) (ckpts s)
  | None => Err R_ARG
  end.

Definition recover_state (s : state) (j extra : nat) : result (list N) :=
  match image s j extra with
  | Some ss => recover ss (snapfiles s) (ckpts s)
  | None => Err R_ARG
  end.

(* power loss instead of process death: records that were written but not fdatasync'ed may be lost too *)
Definition recover_state_powerloss (s : state) (j : nat) : result (list N) :=
  if Nat.leb j (unsynced s) then recover (drop_tail (segs s) j) (snapfiles s) (ckpts s) else Err R_ARG.

(* persistent mutations a goroutine may have completed without having logged the event yet (at most one each):
   used by the acceptor at the end of an event log to match the directory found after the death *)
Definition inflight (s : state) : list event :=
  (match rdp s with
   | RdCutting _ _ idx => [EvCutAfter idx]
   | RdSnapCut _ O idx => [EvCutAfter idx]
   | RdSnapCut r 2 _ => [EvRdApplySnapBefore (r_snap r)]
   | RdSnapSaving r false => [EvRdSnapFile (r_snap r)]
   | RdSnapSaving r true => [EvRdSaveSnapAfter (r_snap r)]
   | RdBegun r true true => if 0 <? r_snap r then [EvRdApplySnapBefore (r_snap r)] else []
   | _ => []
   end)
  ++ (match app s, restoring s, engine s with
      | ApSnapRestoring i 0, None, Some _ => if running s then [EvRsRemoved i] else []
      | ApSnapRestoring i 2, Some _, Some _ => if running s then [EvRsMarkerGone; EvAsRestored i] else []
      | ApSnapRestoring i 2, None, Some _ => if running s then [EvAsRestored i] else []
      | _, _, _ => []
      end)
  ++ flat_map (fun q => match snd q with SnCreated => [EvSnFile (fst q)] | SnFile => [EvSnMarked (fst q)] | _ => [] end) (sns s)
  ++ (match ckp s with CkSaving _ _ => [EvCkPartial] | CkPurging _ => [EvCkPurgeOne; EvCkPurgeOne; EvCkPurgeOne; EvCkPurgeOne] | _ => [] end)
  ++ (if pg_wal s then [EvPgAfter 3] else []) ++ (match pg_snap s with Some _ => [EvPgAfter 4] | None => [] end)
  ++ (match rc s with
      | RcStart => (match restoring s, engine s with Some _, Some _ => [EvRsMarkerGone] | _, _ => [] end)
                   ++ match choose_snapshot (segs s) (snapfiles s) with Some i => [EvRcChosen i] | None => [EvRcNone] end
      | RcChosen i => match engine s with Some _ => [EvRsMarkerGone; EvRcRestored i] | None => [] end
      | _ => []
      end).


(* the schedule hypothesis of the theorems (ProofsMain.sched_ok), in the form the acceptor evaluates before every
   event of a real run: when the snap directory purge decides to remove a file, fewer snapshot goroutines are
   between "snap file written" and "WAL marker written" than snap files it keeps *)
(* the snap file of an incoming snapshot is written and its WAL record is not valid yet *)
Definition in_window (s : state) : nat :=
  match rdp s with
  | RdSnapSaving _ true | RdSnapSaved _ => 1
  | RdSaving r _ _ | RdCutting r _ _ | RdBegun r true _ => if 0 <? r_snap r then 1 else 0
  | _ => 0
  end.
Definition R_SCHED : N := 106.      (* the schedule hypothesis of the theorems does not hold at this event *)
Definition sched_holds (c : config) (s : state) (ev : event) : bool :=
  match ev with
  | EvPgBefore 4 => Nat.ltb (length (filter (fun q => sn_pc_eqb (snd q) SnFile) (sns s)) + in_window s) (eff_keep_snap c)
  (* the checkpoint purge takes the latest snapshot index as its bound: not while that index is the one of an incoming
     snapshot whose record is not valid yet (UpdateSnapshotState comes before the hard state is saved) *)
  | EvCkPurgeBefore => Nat.eqb (in_window s) 0
  | _ => true
  end.
