(* Wal/ProofsRefute.v — the full statement C05_full is false of the faithful model: two witnesses,
   both replayed on the Go code (corpus/C05/typeflip.tsv case k1.2, corpus/C05/crc_collision_sector.tsv). *)
From ZV Require Import Common.Bytes Wal.Consts Wal.Crc Wal.Proto Wal.Model Wal.Spec.
From Coq Require Import Lia.
Open Scope N_scope.

Ltac refute_tac :=
  match goal with |- match ?X with _ => _ end =>
    let r := eval vm_compute in X in change X with r end;
  cbv iota beta;
  match goal with |- context [lrecs ?a] =>
    let l := eval vm_compute in (lrecs a) in change (lrecs a) with l end;
  let k := fresh "k" in let E := fresh "E" in
  intros k; destruct k as [|[|[|k]]]; cbn [firstn]; rewrite ?firstn_nil; vm_compute; intros E; discriminate E.

Definition wit_entry (d : bytes) : entry :=
  {| e_type := 0; e_term := 1; e_index := 1; e_data := Some d; e_id := 0; e_dtype := 0; e_ts := 0 |}.
Definition wit_state : hardstate := {| hs_term := 1; hs_vote := 1; hs_commit := 1 |}.

(* witness 1: Save(HardState{1,1,1}, [entry 1 "a"]); one bit of the state record's Type byte inverted
   (3 = stateType becomes 2 = entryType): ReadAll returns an entry fabricated from the hard state *)
Theorem C05_full_refuted_bitflip :
  exists opt seg meta ops o files',
    let w0 := w_run opt seg meta ops in
    let w := w_step w0 o in
    crash_image w0 w false files' /\
    match final_result (reopen files' (Some zero_snap)) with
    | RAErr _ => False
    | RAOk _ st ents _ _ =>
        forall k, effect zero_snap (firstn k (lrecs (ops ++ [o]))) <> Some (st, ents)
    end.
Proof.
  exists false, 200, None, [], (OSave wit_state [wit_entry [97]]).
  eexists. cbv zeta. split; [apply (CI_flip _ _ 0%nat 840)|].
  refute_tac.
Qed.

Definition wit_payload : bytes := [160;66;190;92;204;177;242;216;190;167;237;136;8;216;120;199;242;64;167;14;231;41;29;96;121;223;64;98;140;27;147;64;4;188;56;105;72;47;235;223;197;100;41;196;205;19;36;159;159;114;33;34;1;249;224;2;54;199;56;246;252;43;224;43;75;81;247;51;139;225;174;161;53;47;241;248;177;51;248;248;229;99;77;6;93;107;43;240;38;68;17;85;78;210;155;151;1;153;174;182;87;17;80;91;210;79;124;179;81;48;124;121;181;46;15;66;250;241;6;244;192;92;217;104;5;141;202;108;94;97;149;216;3;116;12;182;47;160;245;245;51;31;194;63;238;210;242;119;89;132;91;229;135;65;199;119;28;151;192;200;205;95;221;76;10;111;243;251;24;54;88;132;157;93;236;38;88;71;237;180;140;24;80;176;82;79;46;205;21;161;39;185;177;80;124;42;185;13;21;253;154;137;237;104;9;61;190;153;89;212;65;117;167;108;38;15;251;235;164;9;206;127;86;215;54;34;252;188;145;244;34;162;230;202;106;28;44;112;96;39;16;217;108;76;37;117;237;159;219;44;250;134;117;246;125;177;187;82;123;71;75;121;104;231;38;29;97;211;254;137;246;46;161;240;128;223;87;47;23;126;70;132;201;141;223;129;93;17;202;204;199;92;178;151;170;9;195;79;94;144;181;172;72;214;125;68;198;252;177;184;76;245;243;88;167;46;149;219;3;122;141;199;65;84;172;71;119;74;210;129;166;173;205;92;90;71;165;89;189;241;213;105;90;237;216;45;223;222;177;116;250;94;245;86;133;37;136;251;43;51;215;93;240;219;123;73;178;21;185;172;187;107;44;158;200;240;149;133;171;240;108;78;160;142;199;222;164;70;185;255;8;51;41;151;113;160;167;47;57;195;176;47;162;184;11;253;121;251;58;43;14;229;35;29;82;248;47;124;50;141;10;107;120;90;98;170;157;19;152;53;61;184;232;96;1;90;104;244;72;220;105;222;30;177;213;141;96;247;10;141;158;78;25;76;140;132;87;244;149;76;246;91;210;34;108;105;209;145;165;138;95;120;37;41;153;98;145;123;246;51;248;35;156;24;90;211;229;170;1;98;28;84;145;235;158;139;37;84;162;225;229;145;97;110;111;251;58;127;75;123;249;182;98;99;247;219;234;41;153;153;67;190;252;78;128;65;107;6;82;242;252;79;126;238;74;37;123;7;32;169;160;246;114;63;76;11;201;35;212;101;4;123;137;144;71;63;240;122;201;10;63;126;69;217;40;185;254;74;76;127;156;255;122;133;166;222;155;226;191;230;31;5;195;33;77;73;137;182;87;158;76;188;136;7;119;90;93;175;191;209;152;34;10;1;65;142;117;176;235;28;228;176;140;49;4;110;200;207;110;153;148;177;182;245;162;167;124;220;234;216;99;122;101;175;219;185;51;231;76;120;213;195;17;78;215;1;178;200;111;150;74;166;200;121;234;80;37;43;123;178;141;228;128;250;85;138;40;109;150;139;208;13;18;188;59;69;210;22;203;17;170;242;7;86;185;110;251;18;104;180;125;13;32;216;32;57;158;166;212;244;29;183;230;35;255;75;181;236;113;39;47;157;48;106;206;42;18;160;55;12;143;28;170;98;191;19;72;15;147;148;31;191;103;225;160;35;3;111;24;81;176;154;126;126;91;241;168;96;235;15;36;179;76;39;146;162;174;130;75;234;242;143;141;159;57;68;17;142;61;66;214;193;73;133;250;35;207;61;222;96;117;189;100;46;34;183;5;168;88;22;147;171;10;24;222;32;130;153;117;62;100;225;119;123;247;83;28;204;136;8;139;186;99;14;218;39;242;244;110;175;204;58;192;30;22;250;234;171;126;211;55;36;180;160;97;91;214;61;75;86;239;158;181;90;204;99;97;35;186;213;92;166;76;206;162;111;247;219;93;133;10;152;255;147;56;190;47;102;17;25;10;9;48;52;51;11;126;228;240;124;170;195;90;1;110;121;77;228;240;159;236;110;83;120;119;26;50;40;168;41;19;96;223;99;223;226;121;39;142;66;29;72;210;42;193;74;173;61;9;124;230;9;89;237;193;95;81;241;16;177;6;173;117;121;218;243;32;95;238;95;40;31;202;172;84;75;117;173;62;187;255;42;9;52;183;7;148;60;169;21;159;103;234;250;181;94;175;80;48;120;93;73;18;188;255;184;120;42;199;62;45;173;54;241;12;166;156;111;186;250;70;2;119;16;116;200;175;106;44;12].

(* witness 2: a 1000-byte entry payload; the torn write zeroes the sector at file offsets 512..1023, whose
   content is a multiple of the CRC-32C polynomial: the record is accepted with 512 payload bytes zeroed *)
Theorem C05_full_refuted_torn_sector :
  exists opt seg meta ops o files',
    let w0 := w_run opt seg meta ops in
    let w := w_step w0 o in
    crash_image w0 w true files' /\
    match final_result (reopen files' (Some zero_snap)) with
    | RAErr _ => False
    | RAOk _ st ents _ _ =>
        forall k, effect zero_snap (firstn k (lrecs (ops ++ [o]))) <> Some (st, ents)
    end.
Proof.
  exists false, 2048, None, [], (OSave wit_state [wit_entry wit_payload]).
  eexists. cbv zeta. split.
  - apply (CI_sector _ _ 512 512); vm_compute; auto; discriminate.
  - refute_tac.
Qed.

Theorem C05_full_is_false : ~ C05_full.
Proof.
  intros H.
  destruct C05_full_refuted_bitflip as (opt & seg & meta & ops & o & files' & Hci & Hres).
  cbv zeta in *. specialize (H opt seg meta ops o false files' Hci). cbv zeta in H.
  destruct (final_result (reopen files' (Some zero_snap))) as [m st ents lo crc|e]; [|contradiction].
  destruct H as (k & _ & Hk). exact (Hres _ Hk).
Qed.
