(* Wal/Extract.v — extraction of the C05 model (ExtrOcamlBasic only) *)
From Coq Require Import ExtrOcamlBasic.
From ZV Require Import Wal.Model Wal.Spec.
Extraction Language OCaml.
Extraction "model.ml" Z.of_N N.of_nat Nat.add
  crc32c crc_update crc_update_spec fnv1a32
  record_marshal record_unmarshal snap_marshal snap_unmarshal hs_marshal hs_unmarshal entry_marshal entry_unmarshal
  frame w_create w_step w_run w_files tail_file
  decode_all reopen repair writer_after final_result open_read_all valid_snapshot_entries verify
  img_trunc img_short img_zero img_flip set_nth_bytes set_last_bytes.
