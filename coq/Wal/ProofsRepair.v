(* Wal/ProofsRepair.v — Repair: on one file it does exactly what the decoder's verdict says, and after a
   torn tail it leaves the decoded prefix. *)
From ZV Require Import Common.Bytes Wal.Consts Wal.Crc Wal.Proto Wal.Model
  Wal.ProofsCrc Wal.ProofsProto Wal.ProofsFrame Wal.ProofsDecode Wal.ProofsTorn Wal.ProofsPrefix.
From Coq Require Import ZifyN ZifyNat ZifyBool Lia.
Open Scope N_scope.

(* with a single reader, lastValidOff moves only when a record is returned *)
Lemma decode_single_off br off crc :
  match decode {| d_brs := [br]; d_off := off; d_crc := crc |} with
  | DRec _ d' => exists br', d_brs d' = [br'] /\ off <= d_off d'
  | DEof d' => d_off d' = off
  | DErr _ d' => d_off d' = off
  end.
Proof.
  unfold decode. cbn [d_brs length decode_record d_off d_crc].
  destruct ((blen (btake 8 br) =? 0) || (blen (btake 8 br) =? 8) && (le64_dec (btake 8 br) =? 0)); [reflexivity|].
  destruct (blen (btake 8 br) <? 8); [reflexivity|]. cbv zeta.
  destruct (c_maxWALEntrySizeLimit - frame_pad_bytes (le64_dec (btake 8 br)) <=? frame_rec_bytes (le64_dec (btake 8 br)));
    [reflexivity|].
  match goal with |- context [if ?c then DErr EUeof _ else _] => destruct c end; [reflexivity|].
  match goal with |- context [match record_unmarshal ?x with _ => _ end] => destruct (record_unmarshal x) as [r|e] end.
  - destruct (r_type r =? c_crcType).
    + eexists. split; [reflexivity|]. cbn [d_with d_off]. lia.
    + match goal with |- context [if ?c then DRec _ _ else _] => destruct c end.
      * eexists. split; [reflexivity|]. cbn [d_with d_off]. lia.
      * destruct (is_torn _ _); reflexivity.
  - destruct (is_torn _ _); reflexivity.
Qed.

Definition repair_of_verdict (res : list wrecord * option werr * N) : repres :=
  match res with
  | (_, None, _) => RepSame
  | (_, Some EUeof, off) | (_, Some EMaxSize, off) => RepTrunc off
  | _ => RepFalse
  end.

Lemma repair_loop_spec : forall f br off crc acc,
  repair_loop f {| d_brs := [br]; d_off := off; d_crc := crc |} =
  repair_of_verdict (decode_all_loop f {| d_brs := [br]; d_off := off; d_crc := crc |} acc).
Proof.
  induction f as [|f IH]; intros br off crc acc; [reflexivity|].
  cbn [repair_loop decode_all_loop].
  pose proof (decode_single_off br off crc) as Hd.
  destruct (decode {| d_brs := [br]; d_off := off; d_crc := crc |}) as [r d'|d'|e d'].
  - destruct Hd as (br' & Hb & _). destruct d' as [brs' off' crc']. cbn [d_brs] in Hb. subst brs'.
    destruct (r_type r =? c_crcType).
    + destruct (crc_record_ok _ r); [|reflexivity].
      unfold d_update_crc, d_with. cbn [d_brs d_off]. apply IH.
    + apply IH.
  - reflexivity.
  - cbn [d_off]. rewrite Hd. destruct e; reflexivity.
Qed.

(* Repair on the last file: nothing to do at a clean end, truncate at lastValidOff for
   io.ErrUnexpectedEOF / ErrMaxWALEntrySizeLimitExceeded, give up otherwise *)
Theorem repair_last_spec bs : repair_last bs = repair_of_verdict (decode_all [bs]).
Proof. unfold repair_last, decode_all, new_decoder. apply repair_loop_spec. Qed.

(* after a torn tail: if the decoder stopped with io.ErrUnexpectedEOF after the records [recs1] and the image
   starts with their bytes, Repair truncates the file to exactly those bytes, and the repaired file decodes
   to exactly [recs1] with a clean end *)
Theorem repair_yields_prefix recs1 img :
  Forall enc_ok recs1 ->
  decode_all [img] = (stored 0 recs1, Some EUeof, blen (fst (encode_all 0 recs1))) ->
  btake (blen (fst (encode_all 0 recs1))) img = fst (encode_all 0 recs1) ->
  repair_last img = RepTrunc (blen (fst (encode_all 0 recs1))) /\
  decode_all [btake (blen (fst (encode_all 0 recs1))) img] =
    (stored 0 recs1, None, blen (fst (encode_all 0 recs1))).
Proof.
  intros Hok Hd Hb. split.
  - rewrite repair_last_spec, Hd. reflexivity.
  - rewrite Hb. rewrite <- (app_nil_r (fst (encode_all 0 recs1))) at 1.
    change (@nil N) with (zeros 0). apply decode_all_roundtrip; auto.
Qed.

(* a clean end or a hard error: Repair changes nothing / refuses *)
Theorem repair_clean_or_refuse img rs off :
  (decode_all [img] = (rs, None, off) -> repair_last img = RepSame) /\
  (forall e, e = EProto \/ e = ECrc \/ e = ECrcChain -> decode_all [img] = (rs, Some e, off) -> repair_last img = RepFalse).
Proof.
  split.
  - intros H. now rewrite repair_last_spec, H.
  - intros e He H. rewrite repair_last_spec, H. destruct He as [->|[->| ->]]; reflexivity.
Qed.
