(* Wal/ProofsProto.v — the protobuf layer: varint and message round trips. *)
From ZV Require Import Common.Bytes Wal.Proto.
From Coq Require Import ZifyN ZifyNat ZifyBool Lia.
Open Scope N_scope.

(* ---------- btake / bdrop are firstn / skipn ---------- *)
Lemma btake_firstn : forall bs n, btake n bs = firstn (N.to_nat n) bs.
Proof.
  induction bs as [|b r IH]; intros n; cbn [btake].
  - now rewrite firstn_nil.
  - destruct (N.eqb_spec n 0) as [->|Hn]; [reflexivity|].
    rewrite IH. replace (N.to_nat n) with (S (N.to_nat (N.pred n))) by lia. reflexivity.
Qed.

Lemma bdrop_skipn : forall bs n, bdrop n bs = skipn (N.to_nat n) bs.
Proof.
  induction bs as [|b r IH]; intros n; cbn [bdrop].
  - now rewrite skipn_nil.
  - destruct (N.eqb_spec n 0) as [->|Hn]; [reflexivity|].
    rewrite IH. replace (N.to_nat n) with (S (N.to_nat (N.pred n))) by lia. reflexivity.
Qed.

Lemma blen_app a b : blen (a ++ b) = blen a + blen b.
Proof. unfold blen. rewrite app_length. lia. Qed.
Lemma blen_cons x a : blen (x :: a) = 1 + blen a.
Proof. unfold blen. cbn [length]. lia. Qed.
Lemma blen_nil : blen [] = 0.
Proof. reflexivity. Qed.

Lemma btake_app_exact a b : btake (blen a) (a ++ b) = a.
Proof.
  rewrite btake_firstn. unfold blen. rewrite Nat2N.id.
  rewrite firstn_app, Nat.sub_diag, firstn_all. cbn. apply app_nil_r.
Qed.
Lemma bdrop_app_exact a b : bdrop (blen a) (a ++ b) = b.
Proof.
  rewrite bdrop_skipn. unfold blen. rewrite Nat2N.id.
  rewrite skipn_app, Nat.sub_diag, skipn_all. reflexivity.
Qed.
Lemma btake_all a : btake (blen a) a = a.
Proof. rewrite <- (app_nil_r a) at 2. apply btake_app_exact. Qed.
Lemma bdrop_all a : bdrop (blen a) a = [].
Proof. rewrite <- (app_nil_r a) at 2. apply bdrop_app_exact. Qed.

Lemma zeros_len n : blen (zeros n) = n.
Proof. unfold blen, zeros. rewrite repeat_length. lia. Qed.

(* ---------- varint ---------- *)
Lemma low7_split v s :
  N.lor (N.shiftl (N.land v 127) s) (N.shiftl (N.shiftr v 7) (s + 7)) = N.shiftl v s.
Proof.
  apply N.bits_inj. intros n. rewrite N.lor_spec.
  destruct (N.ltb_spec n s) as [H|H].
  - rewrite !N.shiftl_spec_low by lia. reflexivity.
  - rewrite (N.shiftl_spec_high' v) by lia. rewrite (N.shiftl_spec_high' (N.land v 127)) by lia.
    rewrite N.land_spec. change 127 with (N.ones 7).
    destruct (N.ltb_spec n (s + 7)) as [H2|H2].
    + rewrite N.shiftl_spec_low by lia. rewrite N.ones_spec_low by lia.
      now rewrite andb_true_r, orb_false_r.
    + rewrite N.shiftl_spec_high' by lia. rewrite N.ones_spec_high by lia.
      rewrite andb_false_r, orb_false_l, N.shiftr_spec'. f_equal. lia.
Qed.

Lemma cont_byte_ge v : (N.lor (N.land v 127) 128 <? 128) = false.
Proof.
  apply N.ltb_ge. 
  assert (H : N.testbit (N.lor (N.land v 127) 128) 7 = true).
  { rewrite N.lor_spec. change (N.testbit 128 7) with true. apply orb_true_r. }
  destruct (N.lt_ge_cases (N.lor (N.land v 127) 128) 128) as [Hlt|]; [|assumption].
  change 128 with (2 ^ 7) in Hlt at 2.
  destruct (N.eq_dec (N.lor (N.land v 127) 128) 0) as [E|E].
  - rewrite E in H. rewrite N.bits_0 in H. discriminate.
  - apply N.log2_lt_pow2 in Hlt; [|lia]. rewrite N.bits_above_log2 in H by assumption. discriminate.
Qed.

Lemma cont_byte_low v : N.land (N.lor (N.land v 127) 128) 127 = N.land v 127.
Proof.
  apply N.bits_inj. intros n. rewrite !N.land_spec, N.lor_spec, N.land_spec.
  change 127 with (N.ones 7). change 128 with (2 ^ 7).
  destruct (N.ltb_spec n 7).
  - rewrite N.ones_spec_low by lia. rewrite N.pow2_bits_false by lia.
    now rewrite !andb_true_r, orb_false_r.
  - rewrite N.ones_spec_high by lia. now rewrite !andb_false_r.
Qed.

Lemma varint_roundtrip_go : forall f v shift acc rest,
  (1 <= f)%nat -> v < 2 ^ (7 * N.of_nat f) ->
  varint_dec_go f shift acc (varint_enc_go f v ++ rest) =
  POk (N.land (N.lor acc (N.shiftl v shift)) mask64, rest).
Proof.
  induction f as [|f IH]; intros v shift acc rest Hf Hv; [lia|].
  cbn [varint_enc_go].
  destruct (N.ltb_spec v 128) as [Hlt|Hge].
  - cbn [app varint_dec_go].
    assert (E : (v <? 128) = true) by now apply N.ltb_lt. rewrite E.
    replace (N.land v 127) with v; [reflexivity|].
    change 127 with (N.ones 7). rewrite N.land_ones. symmetry. apply N.mod_small. exact Hlt.
  - cbn [app varint_dec_go]. rewrite cont_byte_ge, cont_byte_low.
    assert (Hf' : (1 <= f)%nat).
    { destruct f; [|lia]. cbn in Hv. lia. }
    rewrite IH; [| assumption |].
    + f_equal. f_equal. f_equal. rewrite <- N.lor_assoc. f_equal. apply low7_split.
    + rewrite N.shiftr_div_pow2. apply N.div_lt_upper_bound; [lia|].
      rewrite <- N.pow_add_r. replace (7 + 7 * N.of_nat f) with (7 * N.of_nat (S f)) by lia. exact Hv.
Qed.

Theorem varint_roundtrip v rest :
  v < 2 ^ 64 -> varint_dec (varint_enc v ++ rest) = POk (v, rest).
Proof.
  intros Hv. unfold varint_dec, varint_enc. rewrite varint_roundtrip_go.
  - rewrite N.lor_0_l, N.shiftl_0_r. f_equal. f_equal.
    change mask64 with (N.ones 64). rewrite N.land_ones. apply N.mod_small. exact Hv.
  - lia.
  - eapply N.lt_trans; [exact Hv|]. apply N.pow_lt_mono_r; lia.
Qed.

Lemma varint_enc_nonempty_go : forall f v, (1 <= f)%nat -> varint_enc_go f v <> [].
Proof. intros [|f] v Hf; [lia|]. cbn. destruct (v <? 128); discriminate. Qed.

(* ---------- the Unmarshal loop ---------- *)
Lemma unm_go_mono d : forall f f' total bs acc r,
  (f <= f')%nat -> unm_go d f total bs acc = POk r -> unm_go d f' total bs acc = POk r.
Proof.
  induction f as [|f IH]; intros f' total bs acc r Hle H.
  - destruct bs; cbn in H; [destruct f'; exact H | discriminate].
  - destruct f' as [|f']; [lia|]. destruct bs as [|b bs]; [exact H|].
    cbn [unm_go] in *.
    destruct (varint_dec (b :: bs)) as [[wire r1]|e]; [|discriminate].
    cbv zeta in *.
    repeat match goal with
      | H : (if ?c then _ else _) = POk _ |- _ => destruct c
      | H : match ?x with _ => _ end = POk _ |- _ => destruct x
      | H : PErr _ = POk _ |- _ => discriminate H
      end; try (apply IH; [lia|assumption]).
Qed.

Lemma varint_dec_small t r : t < 128 -> varint_dec (t :: r) = POk (t, r).
Proof.
  intros Ht. unfold varint_dec. cbn [varint_dec_go].
  assert (E : (t <? 128) = true) by now apply N.ltb_lt. rewrite E.
  rewrite N.lor_0_l, N.shiftl_0_r. f_equal. f_equal.
  change 127 with (N.ones 7). change mask64 with (N.ones 64). rewrite !N.land_ones.
  rewrite (N.mod_small t (2 ^ 7)) by exact Ht. apply N.mod_small.
  eapply N.lt_trans; [exact Ht|]. reflexivity.
Qed.

Definition small_tag (tag fn wt : N) : Prop :=
  tag < 128 /\ N.shiftr tag 3 = fn /\ N.land tag 7 = wt /\ fn <> 0.

Lemma small_tag_fn tag fn wt : small_tag tag fn wt -> N.land (N.shiftr tag 3) mask32' = fn /\ fn < 16.
Proof.
  intros (Ht & Hf & _ & _). subst fn.
  assert (H : N.shiftr tag 3 < 16).
  { rewrite N.shiftr_div_pow2. apply N.div_lt_upper_bound; [lia|]. change (2 ^ 3 * 16) with 128. exact Ht. }
  split; [|exact H]. change mask32' with (N.ones 32). rewrite N.land_ones. apply N.mod_small.
  eapply N.lt_trans; [exact H|reflexivity].
Qed.

Lemma unm_go_var d f total tag fn mask v rest acc :
  small_tag tag fn 0 -> d fn = Some (FVar mask) -> v < 2 ^ 64 ->
  unm_go d (S f) total (tag :: varint_enc v ++ rest) acc =
  unm_go d f total rest ((fn, VVar (N.land v mask)) :: acc).
Proof.
  intros Htag Hd Hv. pose proof (small_tag_fn _ _ _ Htag) as [Hfn Hlt].
  destruct Htag as (Ht & _ & Hwt & Hnz).
  cbn [unm_go]. rewrite varint_dec_small by exact Ht. cbv zeta.
  rewrite Hfn, Hwt. change (0 =? 4) with false. cbv iota.
  assert (E1 : (fn =? 0) = false) by now apply N.eqb_neq.
  assert (E2 : (two31 <=? fn) = false) by (apply N.leb_gt; eapply N.lt_trans; [exact Hlt|reflexivity]).
  rewrite E1, E2. cbn [orb]. rewrite Hd. change (negb (0 =? 0)) with false. cbv iota.
  rewrite varint_roundtrip by exact Hv. reflexivity.
Qed.

Lemma unm_go_bytes d f total tag fn b rest acc :
  small_tag tag fn 2 -> d fn = Some FBytes -> total + blen b < two63 ->
  unm_go d (S f) total (tag :: varint_enc (blen b) ++ b ++ rest) acc =
  unm_go d f total rest ((fn, VBytes b) :: acc).
Proof.
  intros Htag Hd Hlen. pose proof (small_tag_fn _ _ _ Htag) as [Hfn Hlt].
  destruct Htag as (Ht & _ & Hwt & Hnz).
  assert (Hb : blen b < two63) by lia.
  cbn [unm_go]. rewrite varint_dec_small by exact Ht. cbv zeta.
  rewrite Hfn, Hwt. change (2 =? 4) with false. cbv iota.
  assert (E1 : (fn =? 0) = false) by now apply N.eqb_neq.
  assert (E2 : (two31 <=? fn) = false) by (apply N.leb_gt; eapply N.lt_trans; [exact Hlt|reflexivity]).
  rewrite E1, E2. cbn [orb]. rewrite Hd. change (negb (2 =? 2)) with false. cbv iota.
  rewrite varint_roundtrip by (eapply N.lt_trans; [exact Hb|reflexivity]).
  assert (E3 : (two63 <=? blen b) = false) by now apply N.leb_gt. rewrite E3.
  assert (E4 : (two63 <=? total - blen (b ++ rest) + blen b) = false) by (apply N.leb_gt; lia). rewrite E4.
  assert (E5 : (blen (b ++ rest) <? blen b) = false) by (apply N.ltb_ge; rewrite blen_app; lia). rewrite E5.
  rewrite btake_app_exact, bdrop_app_exact. reflexivity.
Qed.

Lemma unm_go_bytes_end d f total tag fn b acc :
  small_tag tag fn 2 -> d fn = Some FBytes -> total + blen b < two63 ->
  unm_go d (S f) total (tag :: varint_enc (blen b) ++ b) acc = POk ((fn, VBytes b) :: acc).
Proof.
  intros. rewrite <- (app_nil_r b) at 2. rewrite (unm_go_bytes d f total tag fn b []); auto.
  destruct f; reflexivity.
Qed.

Lemma varint_enc_go_len : forall f v, (length (varint_enc_go f v) <= f)%nat.
Proof.
  induction f as [|f IH]; intros v; cbn [varint_enc_go]; [cbn; lia|].
  destruct (v <? 128); cbn [length]; [lia|]. specialize (IH (N.shiftr v 7)). lia.
Qed.
Lemma varint_enc_len v : blen (varint_enc v) <= 10.
Proof. unfold blen, varint_enc. pose proof (varint_enc_go_len 10 v). lia. Qed.

Lemma land_ones_small v k : v < 2 ^ k -> N.land v (N.ones k) = v.
Proof. intros. rewrite N.land_ones. now apply N.mod_small. Qed.

(* ---------- message round trips ---------- *)
Definition opt_len (d : option bytes) : N := match d with Some b => blen b | None => 0 end.

Ltac tag_ok := unfold small_tag; repeat split; try reflexivity; try discriminate.

Lemma opt_bytes_field_len tag d : blen (opt_bytes_field tag d) <= 11 + opt_len d.
Proof.
  destruct d as [b|]; cbn [opt_bytes_field opt_len]; [|cbn; lia].
  rewrite blen_cons, blen_app. pose proof (varint_enc_len (blen b)). lia.
Qed.

Lemma record_marshal_len r : blen (record_marshal r) <= 33 + opt_len (r_data r).
Proof.
  unfold record_marshal. rewrite blen_cons, blen_app, blen_cons, blen_app.
  pose proof (varint_enc_len (r_type r)). pose proof (varint_enc_len (r_crc r)).
  pose proof (opt_bytes_field_len 26 (r_data r)). lia.
Qed.

Lemma record_unm_go r total f :
  r_type r < 2 ^ 64 -> r_crc r < 2 ^ 32 -> total + opt_len (r_data r) < two63 ->
  unm_go record_desc (3 + f) total (record_marshal r) [] =
  POk (match r_data r with Some b => [(3, VBytes b)] | None => [] end
       ++ [(2, VVar (r_crc r)); (1, VVar (r_type r))]).
Proof.
  destruct r as [ty crc data]. cbn [r_type r_crc r_data]. intros Ht Hc Hd.
  assert (Hc64 : crc < 2 ^ 64) by (eapply N.lt_trans; [exact Hc|reflexivity]).
  unfold record_marshal. cbn [r_type r_crc r_data Nat.add].
  rewrite (unm_go_var record_desc _ _ 8 1 mask64) by (try tag_ok; auto).
  rewrite (unm_go_var record_desc _ _ 16 2 mask32') by (try tag_ok; auto).
  change mask64 with (N.ones 64). change mask32' with (N.ones 32).
  rewrite !land_ones_small by assumption.
  destruct data as [b|]; cbn [opt_bytes_field].
  - rewrite (unm_go_bytes_end record_desc _ _ 26 3); [reflexivity | tag_ok | reflexivity | exact Hd].
  - destruct f; reflexivity.
Qed.

Lemma length_ge3_record r : (3 <= length (record_marshal r))%nat.
Proof.
  unfold record_marshal. cbn [length]. rewrite app_length. cbn [length].
  pose proof (varint_enc_nonempty_go 10 (r_type r)). unfold varint_enc.
  destruct (varint_enc_go 10 (r_type r)); [exfalso; apply H; [lia|reflexivity]|]. cbn [length]. lia.
Qed.

Theorem record_roundtrip r :
  r_type r < 2 ^ 64 -> r_crc r < 2 ^ 32 -> opt_len (r_data r) < 2 ^ 61 ->
  record_unmarshal (record_marshal r) = POk r.
Proof.
  intros Ht Hc Hd. unfold record_unmarshal, unmarshal_fields.
  pose proof (length_ge3_record r) as Hl.
  pose proof (record_marshal_len r) as Hlen.
  replace (S (length (record_marshal r))) with (3 + (length (record_marshal r) - 2))%nat by lia.
  rewrite record_unm_go; auto.
  - destruct r as [ty crc [b|]]; reflexivity.
  - change two63 with (2 ^ 63). change (2 ^ 61) with 2305843009213693952 in Hd.
    change (2 ^ 63) with 9223372036854775808. lia.
Qed.

Theorem snap_roundtrip s :
  sn_index s < 2 ^ 64 -> sn_term s < 2 ^ 64 -> snap_unmarshal (snap_marshal s) = POk s.
Proof.
  destruct s as [i t]. cbn [sn_index sn_term]. intros Hi Ht.
  unfold snap_unmarshal, unmarshal_fields, snap_marshal. cbn [sn_index sn_term].
  set (bs := 8 :: _) in *.
  assert (Hl : (2 <= length bs)%nat).
  { subst bs. cbn [length]. rewrite app_length. cbn [length]. lia. }
  replace (S (length bs)) with (2 + (length bs - 1))%nat by lia. subst bs. cbn [Nat.add].
  rewrite (unm_go_var snap_desc _ _ 8 1 mask64) by (try tag_ok; auto).
  rewrite <- (app_nil_r (varint_enc t)).
  rewrite (unm_go_var snap_desc _ _ 16 2 mask64) by (try tag_ok; auto).
  change mask64 with (N.ones 64). rewrite !land_ones_small by assumption.
  destruct (length _ - 1)%nat; reflexivity.
Qed.

Theorem hs_roundtrip s :
  hs_term s < 2 ^ 64 -> hs_vote s < 2 ^ 64 -> hs_commit s < 2 ^ 64 -> hs_unmarshal (hs_marshal s) = POk s.
Proof.
  destruct s as [t v c]. cbn [hs_term hs_vote hs_commit]. intros Ht Hv Hc.
  unfold hs_unmarshal, unmarshal_fields, hs_marshal. cbn [hs_term hs_vote hs_commit].
  set (bs := 8 :: _) in *.
  assert (Hl : (3 <= length bs)%nat).
  { subst bs. cbn [length]. rewrite !app_length. cbn [length]. rewrite app_length. cbn [length]. lia. }
  replace (S (length bs)) with (3 + (length bs - 2))%nat by lia. subst bs. cbn [Nat.add].
  rewrite (unm_go_var hs_desc _ _ 8 1 mask64) by (try tag_ok; auto).
  rewrite (unm_go_var hs_desc _ _ 16 2 mask64) by (try tag_ok; auto).
  rewrite <- (app_nil_r (varint_enc c)).
  rewrite (unm_go_var hs_desc _ _ 24 3 mask64) by (try tag_ok; auto).
  change mask64 with (N.ones 64). rewrite !land_ones_small by assumption.
  destruct (length _ - 2)%nat; reflexivity.
Qed.

(* int32 fields are stored as uint64(int32(x)): the low 32 bits, sign-extended *)
Definition int32_ok (v : N) : Prop := sext32 (N.land v mask32') = v.

Lemma int32_ok_lt64 v : int32_ok v -> v < 2 ^ 64.
Proof.
  unfold int32_ok, sext32. intros H.
  assert (Hl : N.land v mask32' < 2 ^ 32).
  { change mask32' with (N.ones 32). rewrite N.land_ones. apply N.mod_lt. discriminate. }
  change (2 ^ 32) with 4294967296 in Hl. change (2 ^ 64) with 18446744073709551616.
  destruct (two31 <=? N.land v mask32'); lia.
Qed.

Record entry_ok (e : entry) : Prop := {
  eo_type : int32_ok (e_type e); eo_term : e_term e < 2 ^ 64; eo_index : e_index e < 2 ^ 64;
  eo_id : e_id e < 2 ^ 64; eo_dtype : int32_ok (e_dtype e); eo_ts : e_ts e < 2 ^ 64;
  eo_data : opt_len (e_data e) < 2 ^ 61 }.

Lemma entry_marshal_len e : blen (entry_marshal e) <= 77 + opt_len (e_data e).
Proof.
  unfold entry_marshal. repeat (rewrite ?blen_cons, ?blen_app).
  pose proof (varint_enc_len (e_type e)). pose proof (varint_enc_len (e_term e)).
  pose proof (varint_enc_len (e_index e)). pose proof (varint_enc_len (e_id e)).
  pose proof (varint_enc_len (e_dtype e)). pose proof (varint_enc_len (e_ts e)).
  pose proof (opt_bytes_field_len 34 (e_data e)). lia.
Qed.

Lemma varint_enc_len_pos v : (1 <= length (varint_enc v))%nat.
Proof.
  pose proof (varint_enc_nonempty_go 10 v). unfold varint_enc.
  destruct (varint_enc_go 10 v); [exfalso; apply H; [lia|reflexivity]|cbn [length]; lia].
Qed.

Lemma length_ge_entry e : (12 <= length (entry_marshal e))%nat.
Proof.
  unfold entry_marshal. repeat (rewrite ?app_length; cbn [length]).
  pose proof (varint_enc_len_pos (e_type e)). pose proof (varint_enc_len_pos (e_term e)).
  pose proof (varint_enc_len_pos (e_index e)). pose proof (varint_enc_len_pos (e_id e)).
  pose proof (varint_enc_len_pos (e_dtype e)). pose proof (varint_enc_len_pos (e_ts e)). lia.
Qed.

Theorem entry_roundtrip e : entry_ok e -> entry_unmarshal (entry_marshal e) = POk e.
Proof.
  intros [Hty Htm Hix Hid Hdt Hts Hd].
  pose proof (int32_ok_lt64 _ Hty) as Hty64. pose proof (int32_ok_lt64 _ Hdt) as Hdt64.
  unfold entry_unmarshal, unmarshal_fields.
  pose proof (length_ge_entry e) as Hl. pose proof (entry_marshal_len e) as Hlen.
  replace (S (length (entry_marshal e))) with (7 + (length (entry_marshal e) - 6))%nat by lia.
  set (total := blen (entry_marshal e)) in *.
  assert (Htot : total + opt_len (e_data e) < two63).
  { change two63 with 9223372036854775808. change (2 ^ 61) with 2305843009213693952 in Hd. lia. }
  clearbody total.
  destruct e as [ty tm ix data id dt ts]. cbn [e_type e_term e_index e_data e_id e_dtype e_ts] in *.
  unfold entry_marshal. cbn [e_type e_term e_index e_data e_id e_dtype e_ts Nat.add].
  rewrite (unm_go_var entry_desc _ _ 8 1 mask32') by (try tag_ok; auto).
  rewrite (unm_go_var entry_desc _ _ 16 2 mask64) by (try tag_ok; auto).
  rewrite (unm_go_var entry_desc _ _ 24 3 mask64) by (try tag_ok; auto).
  set (tl := 40 :: _).
  assert (Htl : forall f acc, unm_go entry_desc (3 + f) total tl acc =
                 POk ((7, VVar ts) :: (6, VVar (N.land dt mask32')) :: (5, VVar id) :: acc)).
  { intros f acc. subst tl. cbn [Nat.add].
    rewrite (unm_go_var entry_desc _ _ 40 5 mask64) by (try tag_ok; auto).
    rewrite (unm_go_var entry_desc _ _ 48 6 mask32') by (try tag_ok; auto).
    rewrite <- (app_nil_r (varint_enc ts)).
    rewrite (unm_go_var entry_desc _ _ 56 7 mask64) by (try tag_ok; auto).
    change mask64 with (N.ones 64). rewrite !land_ones_small by assumption.
    destruct f; reflexivity. }
  change mask64 with (N.ones 64). rewrite !land_ones_small by assumption.
  destruct data as [b|]; cbn [opt_bytes_field].
  - cbn [app]. rewrite <- app_assoc.
    rewrite (unm_go_bytes entry_desc _ _ 34 4) ; [ | tag_ok | reflexivity | exact Htot].
    change (S (S (S ?n))) with (3 + n)%nat. rewrite Htl. cbn [get_var get_bytes N.eqb Pos.eqb]. rewrite Hty, Hdt. reflexivity.
  - cbn [app].
    match goal with |- context [unm_go entry_desc (S ?n) total tl ?acc] =>
      replace (S n) with (3 + (n - 2))%nat by lia end.
    rewrite Htl. cbn [get_var get_bytes N.eqb Pos.eqb]. rewrite Hty, Hdt. reflexivity.
Qed.
