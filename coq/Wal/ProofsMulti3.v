(* Wal/ProofsMulti3.v — ReadAll's fold over a chain of segments (heads included) is [effect] over their
   logical records. *)
From ZV Require Import Common.Bytes Wal.Consts Wal.Crc Wal.Proto Wal.Model Wal.Spec
  Wal.ProofsCrc Wal.ProofsProto Wal.ProofsFrame Wal.ProofsDecode Wal.ProofsTorn Wal.ProofsPrefix Wal.ProofsRepair
  Wal.ProofsLog Wal.ProofsWriter Wal.ProofsNames Wal.ProofsSegs Wal.ProofsReadAll Wal.ProofsEffect
  Wal.ProofsHistory Wal.ProofsAppend Wal.ProofsCapstone Wal.ProofsMulti1 Wal.ProofsMulti2.
From ZV Require Import Common.BytesFacts.
From Coq Require Import ZifyN ZifyNat ZifyBool Lia.
Open Scope N_scope.

Definition meta_compat (meta : option bytes) (s : rastate) : Prop :=
  match ra_meta s with
  | None => True
  | Some m => bytes_eqb m (data_or_nil meta) = true
  end.

Lemma effect_go_state at_ : forall ls st ents st' ents',
  effect_go at_ ls st ents = Some (st', ents') -> st' = last_state ls st.
Proof.
  induction ls as [|l ls IH]; intros st ents st' ents' H.
  - cbn in H. inversion H. reflexivity.
  - cbn [effect_go] in H. unfold last_state. cbn [fold_left]. fold (last_state ls).
    destruct l as [e|s|sn].
    + destruct (place _ ents e); [|discriminate]. eapply IH, H.
    + eapply IH, H.
    + destruct (_ && _); [discriminate|]. eapply IH, H.
Qed.

Lemma effect_go_app at_ : forall a b st ents,
  effect_go at_ (a ++ b) st ents =
  match effect_go at_ a st ents with
  | Some (st', ents') => effect_go at_ b st' ents'
  | None => None
  end.
Proof.
  induction a as [|l a IH]; intros b st ents; [reflexivity|]. cbn [app effect_go].
  destruct l as [e|s|sn].
  - destruct (place _ ents e); [apply IH|reflexivity].
  - apply IH.
  - destruct (_ && _); [reflexivity|apply IH].
Qed.

(* the head of a segment: crc record, metadata, hard state as of the cut *)
Lemma ra_fold_head at_ meta st0 c s :
  meta_compat meta s -> hs_wf st0 ->
  exists s', ra_fold at_ s (stored c (hdr meta st0)) = inl s' /\
    ra_ents s' = ra_ents s /\ ra_st s' = (if hs_is_empty st0 then ra_st s else st0) /\ meta_compat meta s'.
Proof.
  intros Hm Hw. unfold hdr. cbn [stored ra_fold]. rewrite ra_step_crc by reflexivity.
  unfold ra_step at 1, ra_record. cbn [r_type r_data].
  change (c_metadataType =? c_entryType) with false. change (c_metadataType =? c_stateType) with false.
  change (c_metadataType =? c_metadataType) with true. cbv iota.
  set (s1 := {| ra_meta := meta; ra_st := ra_st s; ra_ents := ra_ents s; ra_match := ra_match s |}).
  assert (Hs1 : match ra_meta s with
                | Some m => if bytes_eqb m (data_or_nil meta) then inl (s1, dummy_dec) else inr EMetaConflict
                | None => inl (s1, dummy_dec) end = inl (s1, dummy_dec)).
  { unfold meta_compat in Hm. destruct (ra_meta s); [now rewrite Hm|reflexivity]. }
  rewrite Hs1.
  assert (Hc1 : meta_compat meta s1).
  { unfold meta_compat, s1. cbn [ra_meta]. destruct meta; [apply bytes_eqb_refl|exact I]. }
  unfold state_rec. destruct (hs_is_empty st0) eqn:E.
  - exists s1. cbn [stored ra_fold]. auto.
  - cbn [stored ra_fold].
    change {| r_type := c_stateType; r_crc := _; r_data := Some (hs_marshal st0) |}
      with (stored_rec (crc_update (crc_update c (data_or_nil None)) (data_or_nil meta)) (rec_of_lrec (LState st0))).
    rewrite ra_step_state by exact Hw.
    exists (with_st s1 st0). cbn. auto.
Qed.

Lemma hs_is_empty_true s : hs_is_empty s = true -> s = hs_empty.
Proof.
  destruct s as [t v c]. unfold hs_is_empty. cbn. intros H.
  apply andb_true_iff in H as [H Hc]. apply andb_true_iff in H as [Ht Hv].
  apply N.eqb_eq in Ht, Hv, Hc. subst. reflexivity.
Qed.

Lemma stored_segs_cons c recs r : stored_segs c (recs :: r) = stored c recs ++ stored_segs (snd (encode_all c recs)) r.
Proof. reflexivity. Qed.

Definition segd_wf (d : segd) : Prop := hs_wf (sd_st0 d) /\ Forall lrec_wf (sd_L d).

(* one whole segment, read in a state whose hard state is the one the head repeats *)
Lemma ra_fold_segment at_ meta d c s :
  segd_wf d -> meta_compat meta s -> sd_st0 d = ra_st s ->
  match ra_fold at_ s (stored c (seg_recs meta d)) with
  | inl s' => effect_go at_ (sd_L d) (ra_st s) (ra_ents s) = Some (ra_st s', ra_ents s') /\ meta_compat meta s'
  | inr e => effect_go at_ (sd_L d) (ra_st s) (ra_ents s) = None /\ (e = EOutOfRange \/ e = ESnapMismatch)
  end.
Proof.
  intros [Hw HL] Hm Hst. unfold seg_recs. rewrite stored_app, ra_fold_app.
  destruct (ra_fold_head at_ meta (sd_st0 d) c s Hm Hw) as (s1 & -> & He1 & Hs1 & Hm1).
  assert (Hs1' : ra_st s1 = ra_st s).
  { rewrite Hs1. destruct (hs_is_empty (sd_st0 d)); [reflexivity|exact Hst]. }
  pose proof (ra_fold_effect at_ (sd_L d) (snd (encode_all c (hdr meta (sd_st0 d)))) s1 HL) as Hf.
  rewrite He1, Hs1' in Hf.
  destruct (ra_fold at_ s1 _) as [s'|e].
  - destruct Hf as [Hf Hme]. split; [exact Hf|]. unfold meta_compat in *. now rewrite Hme.
  - exact Hf.
Qed.

(* a chain of whole segments *)
Lemma ra_fold_chain at_ meta : forall segs c s acc,
  Forall segd_wf segs -> meta_compat meta s -> st0_ok acc segs -> ra_st s = last_state acc hs_empty ->
  match ra_fold at_ s (stored_segs c (map (seg_recs meta) segs)) with
  | inl s' => effect_go at_ (all_L segs) (ra_st s) (ra_ents s) = Some (ra_st s', ra_ents s') /\
              meta_compat meta s' /\ ra_st s' = last_state (acc ++ all_L segs) hs_empty
  | inr e => effect_go at_ (all_L segs) (ra_st s) (ra_ents s) = None /\ (e = EOutOfRange \/ e = ESnapMismatch)
  end.
Proof.
  induction segs as [|d segs IH]; intros c s acc Hwf Hm Hok Hst.
  - cbn [map stored_segs ra_fold]. unfold all_L. cbn. rewrite app_nil_r. auto.
  - inversion Hwf as [|? ? Hd Hr]; subst. destruct Hok as [H0 Hok].
    cbn [map]. rewrite stored_segs_cons, ra_fold_app.
    unfold all_L. cbn [map concat]. fold (all_L segs). rewrite effect_go_app.
    pose proof (ra_fold_segment at_ meta d c s Hd Hm ltac:(congruence)) as Hseg.
    destruct (ra_fold at_ s (stored c (seg_recs meta d))) as [s1|e].
    + destruct Hseg as [He Hm1]. rewrite He.
      assert (Hst1 : ra_st s1 = last_state (acc ++ sd_L d) hs_empty).
      { rewrite last_state_app, <- Hst. eapply effect_go_state, He. }
      specialize (IH (snd (encode_all c (seg_recs meta d))) s1 (acc ++ sd_L d) Hr Hm1 Hok Hst1).
      destruct (ra_fold at_ s1 _) as [s'|e].
      * destruct IH as (H1 & H2 & H3). split; [exact H1|]. split; [exact H2|]. now rewrite app_assoc.
      * exact IH.
    + destruct Hseg as [He Hee]. rewrite He. auto.
Qed.

Lemma prefix_app_cases {A} : forall (a p q b : list A),
  p ++ q = a ++ b ->
  (p = firstn (length p) a /\ (length p <= length a)%nat) \/ (exists p', p = a ++ p' /\ p' ++ q = b).
Proof.
  induction a as [|x a IH]; intros p q b H.
  - right. exists p. auto.
  - destruct p as [|y p]; [left; cbn; split; [reflexivity|lia]|].
    cbn [app] in H. inversion H; subst.
    destruct (IH p q b H2) as [[E L]|(p' & E & Hq)].
    + left. cbn [length firstn]. split; [now f_equal|lia].
    + right. exists p'. subst. auto.
Qed.

Lemma ra_fold_head_prefix at_ meta st0 c s i :
  meta_compat meta s -> hs_wf st0 -> st0 = ra_st s ->
  exists s', ra_fold at_ s (stored c (firstn i (hdr meta st0))) = inl s' /\
             ra_ents s' = ra_ents s /\ ra_st s' = ra_st s.
Proof.
  intros Hm Hw Hst.
  destruct (ra_fold_head at_ meta st0 c s Hm Hw) as (sh & Hh & He & Hs & _).
  assert (Hsh : ra_st sh = ra_st s) by (rewrite Hs; destruct (hs_is_empty st0); congruence).
  destruct i as [|[|[|i]]].
  - exists s. auto.
  - exists s. cbn [firstn hdr stored ra_fold]. rewrite ra_step_crc by reflexivity. auto.
  - (* crc + metadata *)
    unfold hdr in *. cbn [firstn stored ra_fold] in *. rewrite ra_step_crc in * by reflexivity.
    destruct (ra_step at_ s _) as [s1|e] eqn:E1; [|discriminate].
    exists s1. split; [reflexivity|].
    unfold ra_step, ra_record in E1. cbn [r_type r_data] in E1.
    change (c_metadataType =? c_entryType) with false in E1. change (c_metadataType =? c_stateType) with false in E1.
    change (c_metadataType =? c_metadataType) with true in E1. cbv iota in E1.
    destruct (ra_meta s); [destruct (bytes_eqb _ _)|]; inversion E1; subst; auto.
  - exists sh. replace (firstn (S (S (S i))) (hdr meta st0)) with (hdr meta st0); [auto|].
    unfold hdr, state_rec. destruct (hs_is_empty st0); cbn; destruct i; reflexivity.
Qed.

(* a prefix of the last segment's records (the part the decoder returned) *)
Lemma ra_fold_partial at_ meta d c s recs1 recs2 :
  recs1 ++ recs2 = seg_recs meta d -> segd_wf d -> meta_compat meta s -> sd_st0 d = ra_st s ->
  match ra_fold at_ s (stored c recs1) with
  | inl s' => effect_go at_ (firstn (length recs1 - length (hdr meta (sd_st0 d))) (sd_L d)) (ra_st s) (ra_ents s)
              = Some (ra_st s', ra_ents s')
  | inr _ => True
  end.
Proof.
  intros Hp [Hw HL] Hm Hst. unfold seg_recs in Hp.
  destruct (prefix_app_cases _ _ _ _ Hp) as [[E Hl]|(p' & E & Hq)].
  - rewrite E. destruct (ra_fold_head_prefix at_ meta (sd_st0 d) c s (length recs1) Hm Hw Hst) as (s' & -> & He & Hs).
    replace (length (firstn (length recs1) (hdr meta (sd_st0 d))) - length (hdr meta (sd_st0 d)))%nat with 0%nat
      by (rewrite firstn_length; lia).
    cbn [firstn effect_go]. congruence.
  - subst recs1. rewrite stored_app, ra_fold_app.
    destruct (ra_fold_head at_ meta (sd_st0 d) c s Hm Hw) as (s1 & -> & He1 & Hs1 & Hm1).
    assert (Hs1' : ra_st s1 = ra_st s) by (rewrite Hs1; destruct (hs_is_empty (sd_st0 d)); congruence).
    replace (length (hdr meta (sd_st0 d) ++ p') - length (hdr meta (sd_st0 d)))%nat with (length p')
      by (rewrite app_length; lia).
    pose proof (map_prefix rec_of_lrec (sd_L d) p' recs2 Hq) as HM.
    set (k := length p') in *. clearbody k. subst p'.
    pose proof (ra_fold_effect at_ (firstn k (sd_L d)) (snd (encode_all c (hdr meta (sd_st0 d)))) s1
                  (Forall_firstn' _ _ _ HL)) as Hf.
    rewrite He1, Hs1' in Hf.
    destruct (ra_fold at_ s1 _) as [s'|e]; [|exact I]. exact (proj1 Hf).
Qed.

(* whole earlier segments, then the part of the tail the decoder returned *)
Lemma ra_fold_dir at_ meta pre d recs1 recs2 :
  recs1 ++ recs2 = seg_recs meta d -> Forall segd_wf (pre ++ [d]) -> st0_ok [] (pre ++ [d]) ->
  match ra_fold at_ ra_init
          (stored_segs 0 (map (seg_recs meta) pre) ++ stored (chain_crc 0 (map (seg_recs meta) pre)) recs1) with
  | inl s' => effect at_ (all_L pre ++ firstn (length recs1 - length (hdr meta (sd_st0 d))) (sd_L d))
              = Some (ra_st s', ra_ents s')
  | inr _ => True
  end.
Proof.
  intros Hp Hwf Hok. apply Forall_app in Hwf as [Hwp Hwd]. inversion Hwd as [|? ? Hd _]; subst.
  apply st0_ok_snoc in Hok as [Hokp Hst0]. cbn [app] in Hst0.
  rewrite ra_fold_app.
  pose proof (ra_fold_chain at_ meta pre 0 ra_init [] Hwp I Hokp eq_refl) as Hc.
  destruct (ra_fold at_ ra_init (stored_segs 0 (map (seg_recs meta) pre))) as [s1|e]; [|exact I].
  destruct Hc as (He & Hm1 & Hs1). cbn [app] in Hs1.
  pose proof (ra_fold_partial at_ meta d (chain_crc 0 (map (seg_recs meta) pre)) s1 recs1 recs2 Hp Hd Hm1 ltac:(congruence)) as Hf.
  destruct (ra_fold at_ s1 _) as [s'|e]; [|exact I].
  unfold effect. rewrite effect_go_app. cbn [ra_init ra_st ra_ents] in He. rewrite He. exact Hf.
Qed.
