(* Wal/ProofsTorn.v — what the decoder does at the frame a crash cut short. *)
From ZV Require Import Common.Bytes Wal.Consts Wal.Crc Wal.Proto Wal.Model
  Wal.ProofsCrc Wal.ProofsProto Wal.ProofsFrame Wal.ProofsDecode.
From Coq Require Import ZifyN ZifyNat ZifyBool Lia.
Open Scope N_scope.

Lemma le64_dec_sum b0 b1 b2 b3 b4 b5 b6 b7 :
  le64_dec [b0; b1; b2; b3; b4; b5; b6; b7] =
  b0 + 256 * b1 + 65536 * b2 + 16777216 * b3 + 4294967296 * b4 + 1099511627776 * b5
  + 281474976710656 * b6 + 72057594037927936 * b7.
Proof. unfold le64_dec. rewrite !N.shiftl_mul_pow2. lia. Qed.

Lemma partial_sum_bound b0 b1 b2 b3 b4 b5 b6 b7 j :
  b0 < 256 -> b1 < 256 -> b2 < 256 -> b3 < 256 -> b4 < 256 -> b5 < 256 -> b6 < 256 -> j < 8 ->
  le64_dec (btake j [b0; b1; b2; b3; b4; b5; b6; b7] ++ zeros (8 - j)) <=
    b0 + 256 * b1 + 65536 * b2 + 16777216 * b3 + 4294967296 * b4 + 1099511627776 * b5 + 281474976710656 * b6.
Proof.
  intros.
  assert (C : j = 0 \/ j = 1 \/ j = 2 \/ j = 3 \/ j = 4 \/ j = 5 \/ j = 6 \/ j = 7) by lia.
  destruct C as [->|[->|[->|[->|[->|[->|[->| ->]]]]]]];
    cbn [btake N.eqb Pos.eqb N.pred Pos.pred_N Pos.pred_double];
    match goal with |- context [zeros ?k] => let z := eval vm_compute in (zeros k) in change (zeros k) with z end;
    cbn [app]; rewrite le64_dec_sum; lia.
Qed.

(* a length field of which only the first j < 8 bytes reached the disk reads as at most the record length *)
Lemma le64_partial v j : v < 2 ^ 64 -> j < 8 ->
  le64_dec (btake j (le64 v) ++ zeros (8 - j)) <= v mod 2 ^ 56.
Proof.
  intros Hv Hj.
  pose proof (le64_roundtrip v Hv) as Hr. unfold le64 in *. rewrite le64_dec_sum in Hr.
  pose proof (byte_of_lt v 0). pose proof (byte_of_lt v 1). pose proof (byte_of_lt v 2).
  pose proof (byte_of_lt v 3). pose proof (byte_of_lt v 4). pose proof (byte_of_lt v 5).
  pose proof (byte_of_lt v 6). pose proof (byte_of_lt v 7).
  set (b0 := byte_of v 0) in *. set (b1 := byte_of v 1) in *. set (b2 := byte_of v 2) in *.
  set (b3 := byte_of v 3) in *. set (b4 := byte_of v 4) in *. set (b5 := byte_of v 5) in *.
  set (b6 := byte_of v 6) in *. set (b7 := byte_of v 7) in *.
  clearbody b0 b1 b2 b3 b4 b5 b6 b7.
  eapply N.le_trans; [apply partial_sum_bound; assumption|].
  change (2 ^ 56) with 72057594037927936. rewrite <- Hr.
  set (s := b0 + 256 * b1 + 65536 * b2 + 16777216 * b3 + 4294967296 * b4 + 1099511627776 * b5 + 281474976710656 * b6).
  replace (s + 72057594037927936 * b7) with (s + b7 * 72057594037927936) by lia.
  rewrite N.mod_add by discriminate. rewrite N.mod_small; [lia|]. subst s. lia.
Qed.

Lemma all_zero_zeros k : all_zero (zeros k) = true.
Proof. unfold all_zero, zeros. induction (N.to_nat k); cbn; auto. Qed.

Lemma firstn_repeat0 {A} (x : A) : forall n m, firstn n (repeat x m) = repeat x (Nat.min n m).
Proof. induction n as [|n IH]; intros [|m]; cbn; auto. now rewrite IH. Qed.
Lemma skipn_repeat0 {A} (x : A) : forall n m, skipn n (repeat x m) = repeat x (m - n).
Proof. induction n as [|n IH]; intros [|m]; cbn; auto. Qed.

Lemma btake_zeros c k : btake c (zeros k) = zeros (N.min c k).
Proof.
  rewrite btake_firstn. unfold zeros. rewrite firstn_repeat0. f_equal. lia.
Qed.

Lemma bdrop_zeros c k : bdrop c (zeros k) = zeros (k - c).
Proof.
  rewrite bdrop_skipn. unfold zeros. rewrite skipn_repeat0. f_equal. lia.
Qed.

Lemma zeros_app a b : zeros a ++ zeros b = zeros (a + b).
Proof. unfold zeros. rewrite <- repeat_app. f_equal. lia. Qed.

Lemma zeros_succ k : 0 < k -> zeros k = 0 :: zeros (k - 1).
Proof.
  intros Hk. unfold zeros. replace (N.to_nat k) with (S (N.to_nat (k - 1))) by lia. reflexivity.
Qed.

(* gogo Unmarshal refuses a message that starts with a zero byte: tag 0 is field number 0 *)
Lemma unmarshal_zeros d k : 0 < k -> unmarshal_fields d (zeros k) = PErr POther.
Proof.
  intros Hk. rewrite (zeros_succ k Hk). unfold unmarshal_fields. cbn [length unm_go].
  rewrite varint_dec_small by lia. reflexivity.
Qed.

Lemma record_unmarshal_zeros k : 0 < k -> record_unmarshal (zeros k) = PErr POther.
Proof. intros. unfold record_unmarshal. now rewrite unmarshal_zeros. Qed.

Lemma torn_chunks_zeros fuel off k : 0 < k -> torn_chunks (S fuel) off (zeros k) = true.
Proof.
  intros Hk. cbn [torn_chunks]. rewrite (zeros_succ k Hk) at 1.
  rewrite zeros_len.
  set (chunk := if k <? c_minSectorSize - off mod c_minSectorSize then k else c_minSectorSize - off mod c_minSectorSize).
  rewrite btake_zeros, all_zero_zeros. reflexivity.
Qed.

Lemma btake_app_more a b k : btake (blen a + k) (a ++ b) = a ++ btake k b.
Proof.
  rewrite !btake_firstn. unfold blen. rewrite N2Nat.inj_add, Nat2N.id.
  rewrite firstn_app. rewrite firstn_all2 by lia. f_equal. f_equal. lia.
Qed.
Lemma bdrop_app_more a b k : bdrop (blen a + k) (a ++ b) = bdrop k b.
Proof.
  rewrite !bdrop_skipn. unfold blen. rewrite N2Nat.inj_add, Nat2N.id.
  rewrite skipn_app. rewrite skipn_all2 by lia. cbn [app]. f_equal. lia.
Qed.

Lemma btake_le64_len v j : j <= 8 -> blen (btake j (le64 v)) = j.
Proof. intros Hj. unfold blen. rewrite btake_length, le64_length. lia. Qed.

(* L3: only the first j (0 < j < 8) bytes of a frame's length field were written, zeros follow:
   the decoder reports a clean end (the partial length reads as 0) or io.ErrUnexpectedEOF;
   lastValidOff does not move *)
Lemma decode_partial_len fuel n j m off crc :
  n < 104857592 -> 0 < j < 8 -> 8 - j <= m ->
  let d := {| d_brs := [btake j (le64 (frame_len_field n)) ++ zeros m]; d_off := off; d_crc := crc |} in
  exists d', d_off d' = off /\
    (decode_record (S fuel) d = DEof d' \/ decode_record (S fuel) d = DErr EUeof d').
Proof.
  intros Hn Hj Hm d.
  assert (Hn56 : n < 2 ^ 56) by (eapply N.lt_trans; [exact Hn|reflexivity]).
  set (lf := frame_len_field n) in *. set (A := btake j (le64 lf)) in *.
  assert (HA : blen A = j) by (apply btake_le64_len; lia).
  assert (Hlb : btake 8 (A ++ zeros m) = A ++ zeros (8 - j)).
  { replace 8 with (blen A + (8 - j)) at 1 by lia. rewrite btake_app_more, btake_zeros. do 2 f_equal. lia. }
  assert (Hbody : bdrop 8 (A ++ zeros m) = zeros (m - (8 - j))).
  { replace 8 with (blen A + (8 - j)) at 1 by lia. rewrite bdrop_app_more, bdrop_zeros. reflexivity. }
  assert (Hlen : blen (A ++ zeros (8 - j)) = 8) by (rewrite blen_app, zeros_len; lia).
  pose proof (le64_partial lf j (frame_len_field_lt n Hn56) ltac:(lia)) as Hl.
  fold A in Hl.
  assert (Hmod : lf mod 2 ^ 56 = n).
  { pose proof (frame_rec_bytes_field n Hn56) as H. unfold frame_rec_bytes in H.
    change mask56 with (N.ones 56) in H. now rewrite N.land_ones in H. }
  rewrite Hmod in Hl. set (l := le64_dec (A ++ zeros (8 - j))) in *.
  subst d. cbn [decode_record d_brs d_off d_crc]. rewrite Hlb, Hbody, Hlen. fold l.
  change (8 =? 0) with false. change (8 =? 8) with true. change (8 <? 8) with false. cbn [orb andb].
  destruct (l =? 0) eqn:E0.
  - eexists. split; [|left; reflexivity]. reflexivity.
  - apply N.eqb_neq in E0. cbv zeta.
    assert (Hrb : frame_rec_bytes l = l).
    { unfold frame_rec_bytes. change mask56 with (N.ones 56). rewrite N.land_ones. apply N.mod_small. lia. }
    assert (Hpb : frame_pad_bytes l = 0).
    { unfold frame_pad_bytes. assert (E : (two63 <=? l) = false); [|now rewrite E].
      apply N.leb_gt. change two63 with 9223372036854775808. lia. }
    rewrite Hrb, Hpb, N.add_0_r, N.sub_0_r.
    assert (E1 : (c_maxWALEntrySizeLimit <=? l) = false) by (apply N.leb_gt; unfold c_maxWALEntrySizeLimit; lia).
    rewrite E1. rewrite btake_zeros, zeros_len.
    destruct (N.min l (m - (8 - j)) <? l) eqn:E2.
    + eexists. split; [|right; reflexivity]. reflexivity.
    + apply N.ltb_ge in E2. replace (N.min l (m - (8 - j))) with l by lia.
      rewrite btake_zeros, N.min_id. rewrite record_unmarshal_zeros by lia.
      unfold is_torn. cbn [d_brs d_off]. rewrite torn_chunks_zeros by lia.
      eexists. split; [|right; reflexivity]. reflexivity.
Qed.

(* L4: the length field is intact, the body is not accepted: an error, lastValidOff does not move *)
Lemma decode_not_accepted fuel n body x others off crc :
  3 <= n < 104857592 -> blen body = n + frame_pad n -> accepts crc n body = false ->
  exists e d',
    decode_record (S fuel) {| d_brs := (le64 (frame_len_field n) ++ body ++ x) :: others; d_off := off; d_crc := crc |}
      = DErr e d' /\ d_off d' = off /\ (e = EUeof \/ e = EProto \/ e = ECrc).
Proof.
  intros [Hge Hlt] Hbody Hacc.
  assert (Hn56 : n < 2 ^ 56) by (eapply N.lt_trans; [exact Hlt|reflexivity]).
  pose proof (frame_pad_lt n) as Hpad.
  cbn [decode_record d_brs d_off d_crc].
  set (lf := frame_len_field n).
  assert (Hlb : btake 8 (le64 lf ++ body ++ x) = le64 lf).
  { change 8 with (blen (le64 lf)). apply btake_app_exact. }
  assert (Hbd : bdrop 8 (le64 lf ++ body ++ x) = body ++ x).
  { change 8 with (blen (le64 lf)). apply bdrop_app_exact. }
  rewrite Hlb, Hbd, le64_blen.
  change (8 =? 0) with false. change (8 =? 8) with true. change (8 <? 8) with false. cbn [orb andb].
  rewrite le64_roundtrip by (apply frame_len_field_lt; exact Hn56).
  assert (E0 : (lf =? 0) = false) by (apply N.eqb_neq, frame_len_field_pos; [exact Hn56|lia]).
  rewrite E0. cbv zeta. unfold lf. rewrite frame_rec_bytes_field, frame_pad_bytes_field by exact Hn56.
  assert (E1 : (c_maxWALEntrySizeLimit - frame_pad n <=? n) = false)
    by (apply N.leb_gt; unfold c_maxWALEntrySizeLimit; lia).
  rewrite E1. rewrite <- Hbody. rewrite btake_app_exact, bdrop_app_exact, N.ltb_irrefl.
  unfold accepts in Hacc.
  destruct (record_unmarshal (btake n body)) as [r|e].
  - apply orb_false_iff in Hacc as [Ht Hc]. rewrite Ht, Hc.
    destruct (is_torn _ body); do 2 eexists; (split; [reflexivity|]); (split; [reflexivity|]); auto.
  - destruct (is_torn _ body); [|destruct e]; do 2 eexists; (split; [reflexivity|]); (split; [reflexivity|]); auto.
Qed.

(* ---------- splitting the stream at a byte offset ---------- *)
Lemma encode_all_app : forall a b crc,
  encode_all crc (a ++ b) =
  (fst (encode_all crc a) ++ fst (encode_all (snd (encode_all crc a)) b),
   snd (encode_all (snd (encode_all crc a)) b)).
Proof.
  induction a as [|[ty d] a IH]; intros b crc.
  - cbn [app encode_all fst snd]. now destruct (encode_all crc b).
  - cbn [app]. rewrite !encode_all_cons. cbn [fst snd]. rewrite IH. cbn [fst snd].
    now rewrite app_assoc.
Qed.

Lemma encode_all_single crc x : fst (encode_all crc [x]) = frame_of crc x /\
  snd (encode_all crc [x]) = crc_update crc (data_or_nil (snd x)).
Proof. destruct x as [ty d]. rewrite encode_all_cons. cbn [encode_all fst snd]. now rewrite app_nil_r. Qed.

Lemma stream_split : forall recs crc c,
  c < blen (fst (encode_all crc recs)) ->
  exists recs1 x recs2, recs = recs1 ++ x :: recs2 /\
    blen (fst (encode_all crc recs1)) <= c /\
    c < blen (fst (encode_all crc recs1)) + blen (frame_of (snd (encode_all crc recs1)) x).
Proof.
  induction recs as [|[ty d] recs IH]; intros crc c Hc.
  - cbn in Hc. lia.
  - rewrite encode_all_cons in Hc. cbn [fst] in Hc. rewrite blen_app in Hc.
    set (fr := frame _) in Hc.
    destruct (N.ltb_spec c (blen fr)) as [Hlt|Hge].
    + exists [], (ty, d), recs. cbn [app encode_all fst snd]. rewrite blen_nil. repeat split; [lia|].
      unfold frame_of, payload_of, stored_rec. cbn [fst snd]. fold fr. lia.
    + destruct (IH (crc_update crc (data_or_nil d)) (c - blen fr) ltac:(lia)) as (r1 & x & r2 & E & H1 & H2).
      exists ((ty, d) :: r1), x, r2. subst recs. split; [reflexivity|].
      rewrite encode_all_cons. cbn [fst snd]. rewrite blen_app. fold fr. lia.
Qed.

(* ---------- the decoder loop on the torn frame ---------- *)
Lemma loop_end_zeros f k off crc :
  k = 0 \/ 8 <= k ->
  decode_all_loop (S f) {| d_brs := [zeros k]; d_off := off; d_crc := crc |} [] = ([], None, off).
Proof.
  intros [->|Hk]; [reflexivity|].
  rewrite <- (app_nil_r (zeros k)). now rewrite decode_all_loop_end_zeros.
Qed.

Lemma loop_partial_len n j m off crc :
  n < 104857592 -> 0 < j < 8 -> 8 - j <= m ->
  exists v, (v = None \/ v = Some EUeof) /\
  forall f, decode_all_loop (S f) {| d_brs := [btake j (le64 (frame_len_field n)) ++ zeros m]; d_off := off; d_crc := crc |} []
    = ([], v, off).
Proof.
  intros Hn Hj Hm.
  destruct (decode_partial_len 1 n j m off crc Hn Hj Hm) as (d' & Hoff & [H|H]).
  - exists None. split; [auto|]. intros f. cbn [decode_all_loop]. unfold decode. cbn [d_brs length].
    rewrite H, Hoff. reflexivity.
  - exists (Some EUeof). split; [auto|]. intros f. cbn [decode_all_loop]. unfold decode. cbn [d_brs length].
    rewrite H, Hoff. reflexivity.
Qed.

Lemma loop_not_accepted n body x off crc :
  3 <= n < 104857592 -> blen body = n + frame_pad n -> accepts crc n body = false ->
  exists e, (e = EUeof \/ e = EProto \/ e = ECrc) /\
  forall f, decode_all_loop (S f) {| d_brs := [le64 (frame_len_field n) ++ body ++ x]; d_off := off; d_crc := crc |} []
    = ([], Some e, off).
Proof.
  intros Hn Hb Ha.
  destruct (decode_not_accepted 1 n body x [] off crc Hn Hb Ha) as (e & d' & H & Hoff & He).
  exists e. split; [exact He|]. intros f. cbn [decode_all_loop]. unfold decode. cbn [d_brs length].
  rewrite H, Hoff. reflexivity.
Qed.

Lemma btake_app_le a b k : k <= blen a -> btake k (a ++ b) = btake k a.
Proof.
  intros Hk. rewrite !btake_firstn, firstn_app. unfold blen in Hk.
  replace (N.to_nat k - length a)%nat with 0%nat by lia. cbn [firstn]. apply app_nil_r.
Qed.

Lemma blen_encode_app a b crc :
  blen (fst (encode_all crc (a ++ b))) =
  blen (fst (encode_all crc a)) + blen (fst (encode_all (snd (encode_all crc a)) b)).
Proof. rewrite encode_all_app. cbn [fst]. apply blen_app. Qed.

Lemma blen_encode_ge8 recs crc : recs <> [] -> 8 <= blen (fst (encode_all crc recs)).
Proof.
  intros Hne. pose proof (encode_all_len_ge recs crc). unfold blen.
  destruct recs; [contradiction|]. cbn [length] in H. lia.
Qed.

Lemma scan_fuel_single img : (total_len [img] / 8 < scan_fuel [img])%nat.
Proof. unfold scan_fuel. cbn [length]. lia. Qed.

Lemma payload_len_ok crc x : crc < 2 ^ 32 -> enc_ok x -> 3 <= blen (payload_of crc x) < 104857592.
Proof.
  intros Hc Hx. destruct (enc_ok_rec crc x Hc Hx) as (Hr & _). apply rec_ok_marshal_len in Hr. exact Hr.
Qed.
