(* Wal/ProofsCrc.v — CRC-32C: the table-driven version equals the bit-at-a-time specification;
   the update is injective in the state and in every single byte. *)
From ZV Require Import Common.Bytes Wal.Crc.
From Coq Require Import ZifyN ZifyNat ZifyBool Lia.
Open Scope N_scope.

Ltac xor_solve :=
  apply N.bits_inj; intros ?n; repeat rewrite N.lxor_spec;
  repeat match goal with |- context [N.testbit ?a ?n] => destruct (N.testbit a n) end; reflexivity.

(* ---------- linearity of one LFSR step ---------- *)
Lemma odd_lxor a b : N.odd (N.lxor a b) = xorb (N.odd a) (N.odd b).
Proof. rewrite <- !N.bit0_odd. apply N.lxor_spec. Qed.

Lemma crc_bit_step_lxor a b :
  crc_bit_step (N.lxor a b) = N.lxor (crc_bit_step a) (crc_bit_step b).
Proof.
  unfold crc_bit_step. rewrite odd_lxor, N.shiftr_lxor.
  destruct (N.odd a), (N.odd b); cbn [xorb]; xor_solve.
Qed.

Lemma crc_steps8_lxor a b : crc_steps8 (N.lxor a b) = N.lxor (crc_steps8 a) (crc_steps8 b).
Proof. unfold crc_steps8. now rewrite !crc_bit_step_lxor. Qed.

Lemma crc_bit_step_shiftl y k : crc_bit_step (N.shiftl y (N.succ k)) = N.shiftl y k.
Proof.
  unfold crc_bit_step.
  assert (H : N.odd (N.shiftl y (N.succ k)) = false).
  { rewrite <- N.bit0_odd. apply N.shiftl_spec_low. lia. }
  rewrite H. rewrite N.shiftr_shiftl_l by lia. f_equal. lia.
Qed.

Lemma crc_steps8_shiftl8 y : crc_steps8 (N.shiftl y 8) = y.
Proof.
  unfold crc_steps8.
  change 8 with (N.succ 7). rewrite crc_bit_step_shiftl.
  change 7 with (N.succ 6). rewrite crc_bit_step_shiftl.
  change 6 with (N.succ 5). rewrite crc_bit_step_shiftl.
  change 5 with (N.succ 4). rewrite crc_bit_step_shiftl.
  change 4 with (N.succ 3). rewrite crc_bit_step_shiftl.
  change 3 with (N.succ 2). rewrite crc_bit_step_shiftl.
  change 2 with (N.succ 1). rewrite crc_bit_step_shiftl.
  change 1 with (N.succ 0). rewrite crc_bit_step_shiftl.
  apply N.shiftl_0_r.
Qed.

Lemma split_low8 x : x = N.lxor (N.land x 255) (N.shiftl (N.shiftr x 8) 8).
Proof.
  apply N.bits_inj. intros n.
  rewrite N.lxor_spec, N.land_spec.
  destruct (N.ltb_spec n 8) as [Hn|Hn].
  - rewrite N.shiftl_spec_low by lia.
    change 255 with (N.ones 8). rewrite N.ones_spec_low by lia.
    now rewrite andb_true_r, xorb_false_r.
  - rewrite N.shiftl_spec_high' by lia. rewrite N.shiftr_spec'.
    change 255 with (N.ones 8). rewrite N.ones_spec_high by lia.
    replace (n - 8 + 8) with n by lia. rewrite andb_false_r, xorb_false_l. reflexivity.
Qed.

Lemma crc_steps8_split x : crc_steps8 x = N.lxor (crc_steps8 (N.land x 255)) (N.shiftr x 8).
Proof.
  rewrite (split_low8 x) at 1. rewrite crc_steps8_lxor, crc_steps8_shiftl8. reflexivity.
Qed.

(* ---------- the table ---------- *)
Lemma ctree_build_get : forall d bit acc x,
  ctree_get (ctree_build d bit acc) x = crc_steps8 (acc + N.shiftl (N.land x (N.ones (N.of_nat d))) bit).
Proof.
  induction d as [|d IH]; intros bit acc x.
  - cbn [ctree_build ctree_get]. change (N.ones (N.of_nat 0)) with 0.
    rewrite N.land_0_r, N.shiftl_0_l. f_equal. lia.
  - cbn [ctree_build ctree_get].
    assert (Hx : N.land x (N.ones (N.of_nat (S d))) =
                 N.b2n (N.odd x) + 2 * N.land (N.div2 x) (N.ones (N.of_nat d))).
    { rewrite !N.land_ones. rewrite Nat2N.inj_succ, N.pow_succ_r'.
      rewrite N.div2_div. 
      pose proof (N.mod_mul_r x 2 (2 ^ N.of_nat d)) as Hm.
      rewrite Hm by (try lia; apply N.pow_nonzero; lia).
      f_equal. rewrite <- N.bit0_mod. now rewrite N.bit0_odd. }
    rewrite Hx.
    destruct (N.odd x) eqn:Ho; rewrite IH; f_equal; cbn [N.b2n];
      rewrite !N.shiftl_mul_pow2, N.pow_add_r; lia.
Qed.

Lemma crc_table_spec x : ctree_get crc_table x = crc_steps8 (N.land x 255).
Proof.
  change crc_table with (ctree_build 8 0 0).
  rewrite ctree_build_get. rewrite N.shiftl_0_r. reflexivity.
Qed.

Lemma crc_byte_tab_spec c b : crc_byte_tab c b = crc_byte_spec c b.
Proof.
  unfold crc_byte_tab, crc_byte_spec. cbv zeta.
  rewrite crc_table_spec. symmetry. apply crc_steps8_split.
Qed.

Lemma crc_raw_tab_spec : forall bs c, crc_raw_tab c bs = crc_raw_spec c bs.
Proof.
  unfold crc_raw_tab, crc_raw_spec.
  induction bs as [|b r IH]; intros c; cbn [fold_left]; [reflexivity|].
  rewrite crc_byte_tab_spec. apply IH.
Qed.

Theorem crc_update_eq_spec crc bs : crc_update crc bs = crc_update_spec crc bs.
Proof. unfold crc_update, crc_update_spec. now rewrite crc_raw_tab_spec. Qed.

(* ---------- 32-bit words ---------- *)
Lemma lt_pow2_bits a k : a < 2 ^ k <-> (forall n, k <= n -> N.testbit a n = false).
Proof.
  split.
  - intros Ha n Hn. destruct (N.eq_dec a 0) as [->|Hnz]; [apply N.bits_0|].
    apply N.bits_above_log2. apply N.log2_lt_pow2 in Ha; lia.
  - intros Hb. destruct (N.eq_dec a 0) as [->|Hnz].
    + apply N.neq_0_lt_0, N.pow_nonzero; lia.
    + apply N.log2_lt_pow2; [lia|].
      destruct (N.lt_ge_cases (N.log2 a) k) as [|Hge]; [assumption|].
      specialize (Hb _ Hge). rewrite N.bit_log2 in Hb by assumption. discriminate.
Qed.

Lemma lxor_lt_pow2 a b k : a < 2 ^ k -> b < 2 ^ k -> N.lxor a b < 2 ^ k.
Proof.
  rewrite !lt_pow2_bits. intros Ha Hb n Hn. now rewrite N.lxor_spec, Ha, Hb.
Qed.

Lemma shiftr1_lt c : c < 2 ^ 32 -> N.shiftr c 1 < 2 ^ 32.
Proof.
  rewrite !lt_pow2_bits. intros Hc n Hn. rewrite N.shiftr_spec'. apply Hc. lia.
Qed.

Lemma crc_poly_lt : crc_poly < 2 ^ 32.
Proof. reflexivity. Qed.

Lemma crc_bit_step_lt c : c < 2 ^ 32 -> crc_bit_step c < 2 ^ 32.
Proof.
  intros Hc. unfold crc_bit_step. destruct (N.odd c).
  - apply lxor_lt_pow2; [now apply shiftr1_lt | apply crc_poly_lt].
  - now apply shiftr1_lt.
Qed.

Lemma crc_steps8_lt c : c < 2 ^ 32 -> crc_steps8 c < 2 ^ 32.
Proof. intros Hc. unfold crc_steps8. now repeat apply crc_bit_step_lt. Qed.

Lemma crc_bit_step_bit31 c : c < 2 ^ 32 -> N.testbit (crc_bit_step c) 31 = N.odd c.
Proof.
  intros Hc. unfold crc_bit_step.
  assert (Hs : N.testbit (N.shiftr c 1) 31 = false).
  { rewrite N.shiftr_spec'. apply (proj1 (lt_pow2_bits c 32) Hc). lia. }
  destruct (N.odd c).
  - rewrite N.lxor_spec, Hs. reflexivity.
  - exact Hs.
Qed.

Lemma lxor_cancel_r a b p : N.lxor a p = N.lxor b p -> a = b.
Proof.
  intros H. apply (f_equal (fun x => N.lxor x p)) in H.
  now rewrite !N.lxor_assoc, N.lxor_nilpotent, !N.lxor_0_r in H.
Qed.

Lemma crc_bit_step_inj c1 c2 :
  c1 < 2 ^ 32 -> c2 < 2 ^ 32 -> crc_bit_step c1 = crc_bit_step c2 -> c1 = c2.
Proof.
  intros H1 H2 E.
  assert (Ho : N.odd c1 = N.odd c2).
  { rewrite <- (crc_bit_step_bit31 c1 H1), <- (crc_bit_step_bit31 c2 H2). now rewrite E. }
  unfold crc_bit_step in E. rewrite Ho in E.
  assert (Hs : N.shiftr c1 1 = N.shiftr c2 1).
  { destruct (N.odd c2); [now apply lxor_cancel_r in E | exact E]. }
  rewrite (N.div2_odd c1), (N.div2_odd c2), Ho. rewrite !N.div2_spec, Hs. reflexivity.
Qed.

Lemma crc_steps8_inj c1 c2 :
  c1 < 2 ^ 32 -> c2 < 2 ^ 32 -> crc_steps8 c1 = crc_steps8 c2 -> c1 = c2.
Proof.
  intros H1 H2 E. unfold crc_steps8 in E.
  repeat (apply crc_bit_step_inj in E; [| now repeat apply crc_bit_step_lt | now repeat apply crc_bit_step_lt]).
  exact E.
Qed.

Lemma byte_lt32 b : b < 256 -> b < 2 ^ 32.
Proof. intros. change (2 ^ 32) with 4294967296. lia. Qed.

Lemma crc_byte_spec_lt c b : c < 2 ^ 32 -> b < 256 -> crc_byte_spec c b < 2 ^ 32.
Proof. intros. apply crc_steps8_lt, lxor_lt_pow2; auto using byte_lt32. Qed.

Lemma crc_byte_spec_inj_state c1 c2 b :
  c1 < 2 ^ 32 -> c2 < 2 ^ 32 -> b < 256 -> crc_byte_spec c1 b = crc_byte_spec c2 b -> c1 = c2.
Proof.
  intros H1 H2 Hb E. apply crc_steps8_inj in E; try (apply lxor_lt_pow2; auto using byte_lt32).
  now apply lxor_cancel_r in E.
Qed.

Lemma crc_byte_spec_inj_byte c b1 b2 :
  c < 2 ^ 32 -> b1 < 256 -> b2 < 256 -> crc_byte_spec c b1 = crc_byte_spec c b2 -> b1 = b2.
Proof.
  intros Hc H1 H2 E. apply crc_steps8_inj in E; try (apply lxor_lt_pow2; auto using byte_lt32).
  rewrite (N.lxor_comm c b1), (N.lxor_comm c b2) in E. now apply lxor_cancel_r in E.
Qed.

Definition bytes_lt (bs : bytes) : Prop := Forall (fun b => b < 256) bs.

Lemma crc_raw_spec_lt : forall bs c, c < 2 ^ 32 -> bytes_lt bs -> crc_raw_spec c bs < 2 ^ 32.
Proof.
  unfold crc_raw_spec. induction bs as [|b r IH]; intros c Hc Hb; cbn [fold_left]; [assumption|].
  inversion Hb; subst. apply IH; [now apply crc_byte_spec_lt | assumption].
Qed.

Lemma crc_raw_spec_inj_state : forall bs c1 c2,
  c1 < 2 ^ 32 -> c2 < 2 ^ 32 -> bytes_lt bs -> crc_raw_spec c1 bs = crc_raw_spec c2 bs -> c1 = c2.
Proof.
  unfold crc_raw_spec. induction bs as [|b r IH]; intros c1 c2 H1 H2 Hb E; cbn [fold_left] in E; [assumption|].
  inversion Hb; subst.
  apply IH in E; auto using crc_byte_spec_lt.
  now apply crc_byte_spec_inj_state in E.
Qed.

Lemma crc_raw_spec_app c a b : crc_raw_spec c (a ++ b) = crc_raw_spec (crc_raw_spec c a) b.
Proof. unfold crc_raw_spec. apply fold_left_app. Qed.

Lemma crc_update_lt c bs : c < 2 ^ 32 -> bytes_lt bs -> crc_update c bs < 2 ^ 32.
Proof.
  intros Hc Hb. rewrite crc_update_eq_spec. unfold crc_update_spec.
  apply lxor_lt_pow2; [|reflexivity]. apply crc_raw_spec_lt; [|assumption].
  apply lxor_lt_pow2; [assumption|reflexivity].
Qed.

(* the chained update composes: Write(a); Write(b) = Write(a ++ b) *)
Lemma crc_update_app c a b : crc_update c (a ++ b) = crc_update (crc_update c a) b.
Proof.
  rewrite !crc_update_eq_spec. unfold crc_update_spec.
  rewrite crc_raw_spec_app. f_equal. f_equal.
  rewrite N.lxor_assoc, N.lxor_nilpotent, N.lxor_0_r. reflexivity.
Qed.

(* two byte strings that differ in exactly one byte have different CRC-32C from any common state *)
Theorem crc_single_byte : forall p q b b' c,
  c < 2 ^ 32 -> bytes_lt p -> bytes_lt q -> b < 256 -> b' < 256 -> b <> b' ->
  crc_update c (p ++ b :: q) <> crc_update c (p ++ b' :: q).
Proof.
  intros p q b b' c Hc Hp Hq Hb Hb' Hne E.
  rewrite !crc_update_eq_spec in E. unfold crc_update_spec in E.
  apply lxor_cancel_r in E.
  rewrite !crc_raw_spec_app in E.
  set (s := crc_raw_spec (N.lxor c mask32) p) in *.
  assert (Hs : s < 2 ^ 32).
  { apply crc_raw_spec_lt; [|assumption]. apply lxor_lt_pow2; [assumption|reflexivity]. }
  change (crc_raw_spec s (b :: q)) with (crc_raw_spec (crc_byte_spec s b) q) in E.
  change (crc_raw_spec s (b' :: q)) with (crc_raw_spec (crc_byte_spec s b') q) in E.
  apply crc_raw_spec_inj_state in E; auto using crc_byte_spec_lt.
  apply crc_byte_spec_inj_byte in E; auto.
Qed.

Lemma flip_bit_neq b k : N.lxor b (N.shiftl 1 k) <> b.
Proof.
  intros E. apply (f_equal (fun x => N.testbit x k)) in E.
  rewrite N.lxor_spec, N.shiftl_spec_high', N.sub_diag in E by lia.
  change (N.testbit 1 0) with true in E. destruct (N.testbit b k); discriminate.
Qed.

Lemma flip_bit_lt b k : b < 256 -> k < 8 -> N.lxor b (N.shiftl 1 k) < 256.
Proof.
  intros Hb Hk. change 256 with (2 ^ 8). apply lxor_lt_pow2; [exact Hb|].
  rewrite N.shiftl_1_l. apply N.pow_lt_mono_r; lia.
Qed.

(* a single inverted bit always changes the CRC *)
Theorem crc_single_bit : forall p q b k c,
  c < 2 ^ 32 -> bytes_lt p -> bytes_lt q -> b < 256 -> k < 8 ->
  crc_update c (p ++ N.lxor b (N.shiftl 1 k) :: q) <> crc_update c (p ++ b :: q).
Proof.
  intros. apply crc_single_byte; auto using flip_bit_lt, flip_bit_neq.
Qed.
