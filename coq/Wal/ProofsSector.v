(* Wal/ProofsSector.v — zeroed sectors: 8-byte alignment of frames means a zeroed, 8-aligned byte range either
   wipes the first damaged frame's length field completely or leaves it intact, so such images are instances
   of the damaged-frame theorem. *)
From ZV Require Import Common.Bytes Wal.Consts Wal.Crc Wal.Proto Wal.Model Wal.Spec
  Wal.ProofsCrc Wal.ProofsProto Wal.ProofsFrame Wal.ProofsDecode Wal.ProofsTorn Wal.ProofsPrefix.
From Coq Require Import ZifyN ZifyNat ZifyBool Lia.
Open Scope N_scope.

Lemma frame_blen_mod8 p : blen (frame p) mod 8 = 0.
Proof.
  rewrite frame_blen. pose proof (frame_pad_spec (blen p)) as H.
  replace (8 + blen p + frame_pad (blen p)) with ((blen p + frame_pad (blen p)) + 1 * 8) by lia.
  rewrite N.mod_add by discriminate. exact H.
Qed.

Lemma blen_encode_mod8 : forall recs crc, blen (fst (encode_all crc recs)) mod 8 = 0.
Proof.
  induction recs as [|[ty d] recs IH]; intros crc; [reflexivity|].
  rewrite encode_all_cons. cbn [fst]. rewrite blen_app.
  rewrite N.add_mod by discriminate. rewrite frame_blen_mod8, IH. reflexivity.
Qed.

Lemma btake_btake a b l : a <= b -> btake a (btake b l) = btake a l.
Proof. intros H. rewrite !btake_firstn, firstn_firstn. f_equal. lia. Qed.

Lemma blen_btake a l : a <= blen l -> blen (btake a l) = a.
Proof. intros H. unfold blen in *. rewrite btake_length. lia. Qed.

Lemma blen_bdrop a l : blen (bdrop a l) = blen l - a.
Proof. unfold blen. rewrite bdrop_length. lia. Qed.

Lemma btake_bdrop_split l a : l = btake a l ++ bdrop a l.
Proof. rewrite btake_firstn, bdrop_skipn. symmetry. apply firstn_skipn. Qed.

Lemma skipn_skipn' {A} : forall a b (l : list A), skipn a (skipn b l) = skipn (b + a) l.
Proof. induction b as [|b IH]; intros l; [reflexivity|]. destruct l; [now rewrite !skipn_nil|]. cbn. apply IH. Qed.

Lemma bdrop_bdrop a b l : bdrop a (bdrop b l) = bdrop (b + a) l.
Proof. rewrite !bdrop_skipn, skipn_skipn'. f_equal. lia. Qed.

Lemma img_zero_blen off len f : off + len <= blen f -> blen (img_zero off len f) = blen f.
Proof.
  intros H. unfold img_zero. rewrite !blen_app, zeros_len.
  rewrite blen_btake by lia. rewrite blen_btake by (rewrite blen_bdrop; lia). rewrite blen_bdrop. lia.
Qed.

Lemma img_zero_prefix a off len f : a <= off -> off <= blen f -> btake a (img_zero off len f) = btake a f.
Proof.
  intros Ha Ho. unfold img_zero. rewrite btake_app_le by (rewrite blen_btake; lia).
  now apply btake_btake.
Qed.

Lemma img_zero_at off len f :
  off + len <= blen f -> bdrop off (img_zero off len f) = zeros len ++ bdrop (off + len) f.
Proof.
  intros H. unfold img_zero.
  rewrite <- (blen_btake off f) at 1 by lia. rewrite bdrop_app_exact.
  rewrite blen_btake by (rewrite blen_bdrop; lia). reflexivity.
Qed.

(* (d) for zeroed sectors: x is the first frame the zeroed range [off, off+len) touches *)
Theorem zeroed_range_stops_decoding recs1 x recs2 z off len :
  Forall enc_ok (recs1 ++ x :: recs2) ->
  let crc1 := snd (encode_all 0 recs1) in
  let S1 := blen (fst (encode_all 0 recs1)) in
  let n := blen (payload_of crc1 x) in
  let file := fst (encode_all 0 (recs1 ++ x :: recs2)) ++ zeros z in
  S1 <= off < S1 + blen (frame_of crc1 x) -> off mod 8 = 0 -> 8 <= len -> off + len <= blen file ->
  (off <> S1 -> accepts crc1 n (btake (n + frame_pad n) (bdrop (S1 + 8) (img_zero off len file))) = false) ->
  exists v, decode_all [img_zero off len file] = (stored 0 recs1, v, S1) /\ verdict_ok v.
Proof.
  intros Hok crc1 S1 n file [Hlo Hhi] Hal Hlen Hfit Hacc.
  assert (Hok1 : Forall enc_ok recs1) by (apply Forall_app in Hok; tauto).
  assert (Hokx : enc_ok x) by (apply Forall_app in Hok as [_ H]; now inversion H).
  assert (Hcrc1 : crc1 < 2 ^ 32) by (apply encode_all_crc_lt; [reflexivity|exact Hok1]).
  pose proof (payload_len_ok crc1 x Hcrc1 Hokx) as Hn. fold n in Hn.
  set (F := frame_of crc1 x) in *.
  assert (HFlen : blen F = 8 + n + frame_pad n) by (unfold F, frame_of; rewrite frame_blen; reflexivity).
  assert (Hfile : file = fst (encode_all 0 recs1) ++ F ++ (fst (encode_all (crc_update crc1 (data_or_nil (snd x))) recs2) ++ zeros z)).
  { unfold file. rewrite encode_all_app. cbn [fst]. fold crc1. destruct x as [ty d]. rewrite encode_all_cons.
    cbn [fst snd]. rewrite <- !app_assoc. reflexivity. }
  set (rest := fst (encode_all (crc_update crc1 (data_or_nil (snd x))) recs2) ++ zeros z) in *.
  assert (Hflen : blen file = S1 + blen F + blen rest) by (rewrite Hfile, !blen_app; fold S1; lia).
  set (img := img_zero off len file).
  assert (Hilen : blen img = blen file) by (apply img_zero_blen; exact Hfit).
  assert (Hpre : btake S1 img = fst (encode_all 0 recs1)).
  { unfold img. rewrite img_zero_prefix by lia. rewrite Hfile. apply btake_app_exact. }
  assert (Himg : img = fst (encode_all 0 recs1) ++ bdrop S1 img).
  { rewrite <- Hpre at 1. apply btake_bdrop_split. }
  rewrite Himg.
  apply (damaged_frame_stops_decoding recs1 x (bdrop S1 img)); [exact Hok1|exact Hokx|]. fold crc1 n.
  destruct (N.eq_dec off S1) as [He|Hne].
  - (* the damage starts at the frame: its length field is zero *)
    left. subst off. unfold img. rewrite img_zero_at by exact Hfit.
    exists (zeros (len - 8) ++ bdrop (S1 + len) file).
    rewrite app_assoc, zeros_app. do 2 f_equal. lia.
  - (* alignment: the length field is untouched *)
    right. specialize (Hacc Hne).
    assert (HS8 : S1 + 8 <= off).
    { pose proof (blen_encode_mod8 recs1 0) as Hm. fold S1 in Hm.
      assert (off = 8 * (off / 8)) by (pose proof (N.div_mod off 8 ltac:(discriminate)); lia).
      assert (S1 = 8 * (S1 / 8)) by (pose proof (N.div_mod S1 8 ltac:(discriminate)); lia).
      assert (S1 / 8 < off / 8) by lia. lia. }
    set (junk := bdrop S1 img) in *.
    assert (Hjlen : blen junk = blen F + blen rest) by (unfold junk; rewrite blen_bdrop; lia).
    assert (Hlf : btake 8 junk = le64 (frame_len_field n)).
    { assert (E : btake (S1 + 8) img = btake (S1 + 8) file) by (unfold img; apply img_zero_prefix; lia).
      rewrite (btake_bdrop_split img S1) in E. fold junk in E. rewrite Hpre in E.
      replace S1 with (blen (fst (encode_all 0 recs1))) in E at 1 by reflexivity.
      rewrite btake_app_more in E.
      rewrite Hfile in E. replace (S1 + 8) with (blen (fst (encode_all 0 recs1)) + 8) in E by reflexivity.
      rewrite btake_app_more in E. apply app_inv_head in E. rewrite E.
      unfold F, frame_of, frame. fold n. rewrite <- app_assoc.
      change 8 with (blen (le64 (frame_len_field n))). apply btake_app_exact. }
    exists (btake (n + frame_pad n) (bdrop 8 junk)), (bdrop (n + frame_pad n) (bdrop 8 junk)).
    split; [|split].
    + rewrite <- Hlf. rewrite <- btake_bdrop_split. apply btake_bdrop_split.
    + apply blen_btake. rewrite blen_bdrop. lia.
    + unfold junk. rewrite bdrop_bdrop. exact Hacc.
Qed.
