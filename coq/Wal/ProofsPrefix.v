(* Wal/ProofsPrefix.v — the prefix theorem: a segment image that is a byte prefix of the written
   stream followed by zeros decodes to exactly a prefix of the written records. *)
From ZV Require Import Common.Bytes Wal.Consts Wal.Crc Wal.Proto Wal.Model
  Wal.ProofsCrc Wal.ProofsProto Wal.ProofsFrame Wal.ProofsDecode Wal.ProofsTorn.
From Coq Require Import ZifyN ZifyNat ZifyBool Lia.
Open Scope N_scope.

Definition verdict_ok (v : option werr) : Prop :=
  v = None \/ v = Some EUeof \/ v = Some EProto \/ v = Some ECrc.

Lemma decode_all_single img :
  decode_all [img] = decode_all_loop (scan_fuel [img]) {| d_brs := [img]; d_off := 0; d_crc := 0 |} [].
Proof. reflexivity. Qed.

Lemma zero_lt32 : 0 < 2 ^ 32. Proof. reflexivity. Qed.

(* decoding stream(recs1) ++ junk when the junk yields no record *)
Lemma decode_all_then recs1 junk v :
  Forall enc_ok recs1 ->
  (forall f, decode_all_loop (S f) {| d_brs := [junk]; d_off := blen (fst (encode_all 0 recs1));
                                      d_crc := snd (encode_all 0 recs1) |} []
             = ([], v, blen (fst (encode_all 0 recs1)))) ->
  decode_all [fst (encode_all 0 recs1) ++ junk] = (stored 0 recs1, v, blen (fst (encode_all 0 recs1))).
Proof.
  intros Hok Hj. rewrite decode_all_single.
  pose proof (decode_all_prefix_stable recs1 junk 0 zero_lt32 Hok _ (scan_fuel_single _)) as H.
  etransitivity; [exact H|]. unfold scan_fuel. rewrite Hj. now rewrite app_nil_r.
Qed.

Theorem trunc_image_decodes recs z c :
  Forall enc_ok recs -> (z = 0 \/ 8 <= z) ->
  let stream := fst (encode_all 0 recs) in
  let file := stream ++ zeros z in
  c <= blen file ->
  (forall recs1 x recs2 j, recs = recs1 ++ x :: recs2 -> c = blen (fst (encode_all 0 recs1)) + j ->
     8 <= j < blen (frame_of (snd (encode_all 0 recs1)) x) ->
     no_crc_collision_cut (snd (encode_all 0 recs1)) x j) ->
  exists recs1 recs2 v,
    recs = recs1 ++ recs2 /\
    decode_all [img_trunc c file] = (stored 0 recs1, v, blen (fst (encode_all 0 recs1))) /\
    (recs2 = [] \/ c < blen (fst (encode_all 0 (recs1 ++ firstn 1 recs2)))) /\
    verdict_ok v /\
    btake (blen (fst (encode_all 0 recs1))) (img_trunc c file) = fst (encode_all 0 recs1).
Proof.
  intros Hok Hz stream file Hc Hnc.
  assert (Hfile : blen file = blen stream + z) by (unfold file; rewrite blen_app, zeros_len; reflexivity).
  unfold img_trunc.
  destruct (N.leb_spec (blen stream) c) as [Hge|Hlt].
  - (* the cut is beyond everything written: the image is the file *)
    assert (E : btake c file ++ zeros (blen file - c) = stream ++ zeros z).
    { unfold file at 1. replace c with (blen stream + (c - blen stream)) at 1 by lia.
      rewrite btake_app_more, btake_zeros, <- app_assoc, zeros_app. do 2 f_equal. lia. }
    rewrite E.
    exists recs, [], None. rewrite app_nil_r. split; [reflexivity|].
    split; [|split; [left; reflexivity|split; [left; reflexivity|apply btake_app_exact]]].
    apply decode_all_then; [exact Hok|].
    intros f. apply loop_end_zeros. exact Hz.
  - destruct (stream_split recs 0 c Hlt) as (r1 & x & r2 & Erecs & HS1 & HS2).
    set (S1 := blen (fst (encode_all 0 r1))) in *.
    set (crc1 := snd (encode_all 0 r1)) in *.
    assert (Hok1 : Forall enc_ok r1) by (rewrite Erecs in Hok; apply Forall_app in Hok; tauto).
    assert (Hokx : enc_ok x).
    { rewrite Erecs in Hok. apply Forall_app in Hok as [_ H]. now inversion H. }
    assert (Hok2 : Forall enc_ok r2).
    { rewrite Erecs in Hok. apply Forall_app in Hok as [_ H]. now inversion H. }
    assert (Hcrc1 : crc1 < 2 ^ 32) by (apply encode_all_crc_lt; [reflexivity|exact Hok1]).
    set (F := frame_of crc1 x) in *.
    set (crc2 := crc_update crc1 (data_or_nil (snd x))).
    set (E2 := fst (encode_all crc2 r2)).
    assert (Hstream : stream = fst (encode_all 0 r1) ++ F ++ E2).
    { unfold stream. rewrite Erecs, encode_all_app. cbn [fst]. f_equal.
      destruct x as [ty d]. rewrite encode_all_cons. reflexivity. }
    set (j := c - S1).
    assert (Hj : j < blen F) by lia.
    set (M := blen file - c).
    assert (HM : M = blen F - j + blen E2 + z).
    { unfold M. rewrite Hfile, Hstream, !blen_app. fold S1. lia. }
    assert (Himg : btake c file ++ zeros M = fst (encode_all 0 r1) ++ (btake j F ++ zeros M)).
    { unfold file. rewrite Hstream, <- !app_assoc.
      replace c with (blen (fst (encode_all 0 r1)) + j) at 1 by (fold S1; lia).
      rewrite btake_app_more, <- app_assoc. f_equal. f_equal. apply btake_app_le. lia. }
    fold M. rewrite Himg.
    pose proof (payload_len_ok crc1 x Hcrc1 Hokx) as Hplen.
    set (p := payload_of crc1 x) in *. set (n := blen p) in *.
    pose proof (frame_pad_lt n) as Hpad.
    set (full := p ++ zeros (frame_pad n)).
    assert (Hfull : blen full = n + frame_pad n) by (unfold full; rewrite blen_app, zeros_len; reflexivity).
    assert (HF : F = le64 (frame_len_field n) ++ full).
    { unfold F, frame_of, frame. fold p n. reflexivity. }
    assert (HFlen : blen F = 8 + n + frame_pad n) by (unfold F, frame_of; rewrite frame_blen; reflexivity).
    assert (Hnext : c < blen (fst (encode_all 0 (r1 ++ firstn 1 (x :: r2))))).
    { cbn [firstn]. rewrite blen_encode_app. fold S1 crc1.
      rewrite (proj1 (encode_all_single crc1 x)). fold F. lia. }
    destruct (N.eq_dec j 0) as [Hj0|Hj0].
    + (* the cut is at the frame boundary *)
      exists r1, (x :: r2), None. split; [exact Erecs|].
      split; [|split; [right; exact Hnext|split; [left; reflexivity|apply btake_app_exact]]].
      rewrite Hj0. replace (btake 0 F) with (@nil N) by (destruct F; reflexivity). cbn [app].
      apply decode_all_then; [exact Hok1|]. intros f. apply loop_end_zeros. right. lia.
    + destruct (N.ltb_spec j 8) as [Hj8|Hj8].
      * (* inside the length field: unconditional *)
        assert (Hbt : btake j F = btake j (le64 (frame_len_field n))).
        { rewrite HF. apply btake_app_le. rewrite le64_blen. lia. }
        rewrite Hbt.
        destruct (loop_partial_len n j M S1 crc1 ltac:(lia) ltac:(lia) ltac:(lia)) as (v & Hv & Hl).
        exists r1, (x :: r2), v. split; [exact Erecs|]. split; [|split; [right; exact Hnext|split; [|apply btake_app_exact]]].
        -- apply decode_all_then; [exact Hok1|]. exact Hl.
        -- destruct Hv as [->| ->]; unfold verdict_ok; auto.
      * (* inside the frame body *)
        assert (Hbt : btake j F = le64 (frame_len_field n) ++ btake (j - 8) full).
        { rewrite HF. replace j with (blen (le64 (frame_len_field n)) + (j - 8)) at 1 by (rewrite le64_blen; lia).
          apply btake_app_more. }
        set (M' := blen E2 + z).
        assert (Hz2 : zeros M = zeros (blen full - (j - 8)) ++ zeros M').
        { rewrite zeros_app. f_equal. unfold M'. lia. }
        assert (Htb : torn_body crc1 x j = btake (j - 8) full ++ zeros (blen full - (j - 8))) by reflexivity.
        assert (Hjunk : btake j F ++ zeros M = le64 (frame_len_field n) ++ torn_body crc1 x j ++ zeros M').
        { rewrite Hbt, Hz2, Htb, <- !app_assoc. reflexivity. }
        rewrite Hjunk.
        assert (Htblen : blen (torn_body crc1 x j) = n + frame_pad n).
        { rewrite Htb, blen_app, zeros_len. unfold blen at 1. rewrite btake_length.
          rewrite Hfull. assert (N.of_nat (length full) = n + frame_pad n) by exact Hfull. lia. }
        specialize (Hnc r1 x r2 j Erecs ltac:(fold S1; lia) ltac:(fold crc1 F; lia)). fold crc1 in Hnc.
        destruct Hnc as [Hsame|Hrej].
        -- (* only zero bytes were lost: the record is intact *)
           fold p n full in Hsame. rewrite Hsame. rewrite (app_assoc (le64 (frame_len_field n)) full). rewrite <- HF.
           assert (HM' : M' = 0 \/ 8 <= M').
           { unfold M'. destruct r2 as [|y r2'].
             - unfold E2. cbn [encode_all fst]. rewrite blen_nil. lia.
             - right. pose proof (blen_encode_ge8 (y :: r2') crc2 ltac:(discriminate)). fold E2 in H. lia. }
           exists (r1 ++ [x]), r2, None.
           split; [rewrite <- app_assoc; exact Erecs|].
           assert (Henc : fst (encode_all 0 (r1 ++ [x])) = fst (encode_all 0 r1) ++ F).
           { rewrite encode_all_app. cbn [fst]. fold crc1. now rewrite (proj1 (encode_all_single crc1 x)). }
           split; [|split; [|split; [left; reflexivity|rewrite app_assoc, <- Henc; apply btake_app_exact]]].
           ++ rewrite app_assoc, <- Henc. apply decode_all_then.
              ** apply Forall_app. split; [exact Hok1|]. constructor; [exact Hokx|constructor].
              ** intros f. apply loop_end_zeros. exact HM'.
           ++ destruct r2 as [|y r2']; [left; reflexivity|right].
              cbn [firstn]. rewrite blen_encode_app, Henc, blen_app. fold S1. lia.
        -- fold p n in Hrej.
           destruct (loop_not_accepted n (torn_body crc1 x j) (zeros M') S1 crc1 ltac:(lia) Htblen Hrej) as (e & He & Hl).
           exists r1, (x :: r2), (Some e). split; [exact Erecs|]. split; [|split; [right; exact Hnext|split; [|apply btake_app_exact]]].
           ++ apply decode_all_then; [exact Hok1|]. exact Hl.
           ++ unfold verdict_ok. destruct He as [->|[->| ->]]; auto.
Qed.

(* (a) round trip of a whole segment file: the stream followed by the preallocated zeros *)
Theorem decode_all_roundtrip recs z :
  Forall enc_ok recs -> (z = 0 \/ 8 <= z) ->
  decode_all [fst (encode_all 0 recs) ++ zeros z] = (stored 0 recs, None, blen (fst (encode_all 0 recs))).
Proof.
  intros Hok Hz. apply decode_all_then; [exact Hok|]. intros f. apply loop_end_zeros. exact Hz.
Qed.

(* everything encoded before a point survives ANY damage after it (unconditional) *)
Theorem synced_prefix_survives recs junk :
  Forall enc_ok recs ->
  exists rs v off, decode_all [fst (encode_all 0 recs) ++ junk] = (stored 0 recs ++ rs, v, off).
Proof.
  intros Hok. rewrite decode_all_single.
  pose proof (decode_all_prefix_stable recs junk 0 zero_lt32 Hok _ (scan_fuel_single _)) as H.
  match type of H with _ = match ?X with _ => _ end => destruct X as [[rs v] off] end.
  exists rs, v, off. exact H.
Qed.

(* (d) any damage, not only a cut: the image agrees with the written stream up to the start of a frame;
   that frame's length field is either zeroed (a whole sector was lost) or intact with a body the decoder
   does not accept (the named NoCrcCollision hypothesis for this image). Then decoding stops there:
   exactly the records before the damaged frame are returned, whatever follows. *)
Theorem damaged_frame_stops_decoding recs1 x junk :
  Forall enc_ok recs1 -> enc_ok x ->
  let crc1 := snd (encode_all 0 recs1) in
  let n := blen (payload_of crc1 x) in
  ((exists t, junk = zeros 8 ++ t) \/
   (exists body' t, junk = le64 (frame_len_field n) ++ body' ++ t /\ blen body' = n + frame_pad n /\
                    accepts crc1 n body' = false)) ->
  exists v, decode_all [fst (encode_all 0 recs1) ++ junk] = (stored 0 recs1, v, blen (fst (encode_all 0 recs1)))
            /\ verdict_ok v.
Proof.
  intros Hok Hx crc1 n Hj.
  assert (Hcrc1 : crc1 < 2 ^ 32) by (apply encode_all_crc_lt; [reflexivity|exact Hok]).
  pose proof (payload_len_ok crc1 x Hcrc1 Hx) as Hn. fold n in Hn.
  destruct Hj as [(t & ->)|(body' & t & -> & Hb & Ha)].
  - exists None. split; [|left; reflexivity].
    apply decode_all_then; [exact Hok|]. intros f. apply decode_all_loop_end_zeros. lia.
  - destruct (loop_not_accepted n body' t (blen (fst (encode_all 0 recs1))) crc1 Hn Hb Ha) as (e & He & Hl).
    exists (Some e). split; [apply decode_all_then; [exact Hok|exact Hl]|].
    unfold verdict_ok. destruct He as [->|[->| ->]]; auto.
Qed.
