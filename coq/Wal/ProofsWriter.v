(* Wal/ProofsWriter.v — the writing side: whatever history is run, the tail segment is the encoder's stream
   for a list of well-formed records, and every recorded sync point lies on a frame boundary of it. *)
From ZV Require Import Common.Bytes Wal.Consts Wal.Crc Wal.Proto Wal.Model Wal.Spec
  Wal.ProofsCrc Wal.ProofsProto Wal.ProofsFrame Wal.ProofsDecode Wal.ProofsTorn Wal.ProofsPrefix.
From Coq Require Import ZifyN ZifyNat ZifyBool Lia.
Open Scope N_scope.

(* ---------- well-formed inputs ---------- *)
Definition data_ok (d : option bytes) : Prop := bytes_lt (data_or_nil d) /\ opt_len d < 104856000.
Definition hs_wf (s : hardstate) : Prop := hs_term s < 2 ^ 64 /\ hs_vote s < 2 ^ 64 /\ hs_commit s < 2 ^ 64.
Definition snap_wf (s : wsnap) : Prop := sn_index s < 2 ^ 64 /\ sn_term s < 2 ^ 64.
Definition entry_wf (e : entry) : Prop := entry_ok e /\ data_ok (e_data e).
Definition op_wf (o : wop) : Prop :=
  match o with
  | OSave st ents => hs_wf st /\ Forall entry_wf ents
  | OSnap s => snap_wf s
  | _ => True
  end.

(* ---------- marshalled messages are byte strings of bounded length ---------- *)
Lemma varint_enc_go_bytes : forall f v, bytes_lt (varint_enc_go f v).
Proof.
  induction f as [|f IH]; intros v; cbn [varint_enc_go]; [constructor|].
  destruct (N.ltb_spec v 128).
  - constructor; [lia|constructor].
  - constructor; [|apply IH].
    change 256 with (2 ^ 8). apply (proj2 (lt_pow2_bits _ 8)). intros n Hn.
    rewrite N.lor_spec, N.land_spec. change 127 with (N.ones 7). change 128 with (2 ^ 7).
    rewrite N.ones_spec_high by lia. rewrite N.pow2_bits_false by lia. now rewrite andb_false_r.
Qed.
Lemma varint_enc_bytes v : bytes_lt (varint_enc v).
Proof. apply varint_enc_go_bytes. Qed.

Lemma bytes_lt_app a b : bytes_lt a -> bytes_lt b -> bytes_lt (a ++ b).
Proof. unfold bytes_lt. intros. apply Forall_app. now split. Qed.
Lemma bytes_lt_cons x a : x < 256 -> bytes_lt a -> bytes_lt (x :: a).
Proof. intros. now constructor. Qed.

Lemma opt_bytes_field_bytes tag d : tag < 256 -> bytes_lt (data_or_nil d) -> bytes_lt (opt_bytes_field tag d).
Proof.
  intros Ht Hd. destruct d as [b|]; cbn [opt_bytes_field]; [|constructor].
  apply bytes_lt_cons; [exact Ht|]. apply bytes_lt_app; [apply varint_enc_bytes|exact Hd].
Qed.

Ltac blt := repeat (first [apply bytes_lt_cons; [lia|] | apply bytes_lt_app | apply varint_enc_bytes | constructor]).

Lemma entry_marshal_bytes e : bytes_lt (data_or_nil (e_data e)) -> bytes_lt (entry_marshal e).
Proof.
  intros Hd. unfold entry_marshal.
  apply bytes_lt_cons; [lia|]. apply bytes_lt_app; [apply varint_enc_bytes|].
  apply bytes_lt_cons; [lia|]. apply bytes_lt_app; [apply varint_enc_bytes|].
  apply bytes_lt_cons; [lia|]. apply bytes_lt_app; [apply varint_enc_bytes|].
  apply bytes_lt_app; [apply opt_bytes_field_bytes; [lia|exact Hd]|]. blt.
Qed.
Lemma hs_marshal_bytes s : bytes_lt (hs_marshal s).
Proof. unfold hs_marshal. blt. Qed.
Lemma snap_marshal_bytes s : bytes_lt (snap_marshal s).
Proof. unfold snap_marshal. blt. Qed.

Lemma hs_marshal_len s : blen (hs_marshal s) <= 33.
Proof.
  unfold hs_marshal. repeat (rewrite ?blen_cons, ?blen_app).
  pose proof (varint_enc_len (hs_term s)). pose proof (varint_enc_len (hs_vote s)).
  pose proof (varint_enc_len (hs_commit s)). lia.
Qed.
Lemma snap_marshal_len s : blen (snap_marshal s) <= 22.
Proof.
  unfold snap_marshal. repeat (rewrite ?blen_cons, ?blen_app).
  pose proof (varint_enc_len (sn_index s)). pose proof (varint_enc_len (sn_term s)). lia.
Qed.

Lemma enc_ok_intro ty d :
  ty < 2 ^ 64 -> opt_len d < 104857000 -> bytes_lt (data_or_nil d) -> (ty = c_crcType -> d = None) -> enc_ok (ty, d).
Proof. intros. unfold enc_ok. cbn [fst snd]. auto. Qed.

Lemma enc_ok_entry e : entry_wf e -> enc_ok (c_entryType, Some (entry_marshal e)).
Proof.
  intros [Hok [Hb Hl]]. pose proof (entry_marshal_len e). apply enc_ok_intro.
  - reflexivity.
  - cbn [opt_len]. lia.
  - now apply entry_marshal_bytes.
  - discriminate.
Qed.
Lemma enc_ok_state s : enc_ok (c_stateType, Some (hs_marshal s)).
Proof.
  pose proof (hs_marshal_len s). apply enc_ok_intro; [reflexivity|cbn [opt_len]; lia|apply hs_marshal_bytes|discriminate].
Qed.
Lemma enc_ok_snap s : enc_ok (c_snapshotType, Some (snap_marshal s)).
Proof.
  pose proof (snap_marshal_len s). apply enc_ok_intro; [reflexivity|cbn [opt_len]; lia|apply snap_marshal_bytes|discriminate].
Qed.
Lemma enc_ok_crc : enc_ok (c_crcType, None).
Proof. apply enc_ok_intro; [reflexivity|reflexivity|constructor|reflexivity]. Qed.
Lemma enc_ok_meta m : data_ok m -> enc_ok (c_metadataType, m).
Proof. intros [Hb Hl]. apply enc_ok_intro; [reflexivity|lia|exact Hb|discriminate]. Qed.

(* ---------- the page writer only counts ---------- *)
Definition pw_total (p : pwriter) : N := pw_flushed p + pw_buf p.

Lemma pw_flush_total p : pw_total (pw_flush p) = pw_total p /\ pw_buf (pw_flush p) = 0.
Proof. unfold pw_total, pw_flush. cbn. split; lia. Qed.

Lemma pw_write_total n p : pw_total (pw_write n p) = pw_total p + n.
Proof.
  unfold pw_write, pw_total.
  destruct (n + pw_buf p <=? c_pwWatermark); cbn [pw_flushed pw_buf]; [lia|].
  set (slack := c_walPageBytes - (pw_off p + pw_buf p) mod c_walPageBytes).
  destruct (slack =? c_walPageBytes) eqn:Ea; cbn [negb andb].
  - cbn [pw_flush pw_flushed pw_buf pw_off].
    destruct (c_walPageBytes <? n - 0) eqn:Ed.
    + pose proof (N.mul_div_le (n - 0) c_walPageBytes ltac:(discriminate)). lia.
    + lia.
  - destruct (n <? slack) eqn:El; cbn [pw_flushed pw_buf]; [lia|].
    apply N.ltb_ge in El.
    cbn [pw_flush pw_flushed pw_buf pw_off].
    destruct (c_walPageBytes <? n - slack) eqn:Ed.
    + pose proof (N.mul_div_le (n - slack) c_walPageBytes ltac:(discriminate)). lia.
    + lia.
Qed.

(* ---------- the invariant of the tail segment ---------- *)
Record tinv (w : wal) (c0 : N) (recs : list (N * option bytes)) : Prop := {
  ti_c0 : c0 < 2 ^ 32;
  ti_ok : Forall enc_ok recs;
  ti_tail : w_tail w = fst (encode_all c0 recs);
  ti_crc : w_crc w = snd (encode_all c0 recs);
  ti_pw : pw_total (w_pw w) = blen (w_tail w);
  ti_sync : forall s, w_sync w = Some s -> sy_seq s = w_seq w ->
            exists r1 r2, recs = r1 ++ r2 /\ sy_off s = blen (fst (encode_all c0 r1));
  ti_mono : forall s, w_sync w = Some s -> sy_seq s <= w_seq w;
  ti_meta : data_ok (w_meta w);
  ti_state : hs_wf (w_state w);
  ti_first : w_seq w = 0 -> c0 = 0 }.

Lemma encode_all_snoc c0 recs x :
  encode_all c0 (recs ++ [x]) =
  (fst (encode_all c0 recs) ++ frame_of (snd (encode_all c0 recs)) x,
   crc_update (snd (encode_all c0 recs)) (data_or_nil (snd x))).
Proof.
  rewrite encode_all_app. destruct (encode_all_single (snd (encode_all c0 recs)) x) as [H1 H2].
  now rewrite H1, H2.
Qed.

Lemma w_encode_inv w c0 recs ty d :
  tinv w c0 recs -> enc_ok (ty, d) -> tinv (w_encode ty d w) c0 (recs ++ [(ty, d)]).
Proof.
  intros [Hc0 Hok Ht Hc Hpw Hs Hm Hme Hst Hf] Hx.
  unfold w_encode, encode_rec, set_tail.
  assert (Hfr : frame (record_marshal {| r_type := ty; r_crc := crc_update (w_crc w) (data_or_nil d); r_data := d |})
                = frame_of (w_crc w) (ty, d)) by reflexivity.
  constructor; cbn [w_tail w_crc w_pw w_sync w_seq w_meta w_state]; auto.
  - apply Forall_app. split; [exact Hok|]. constructor; [exact Hx|constructor].
  - rewrite encode_all_snoc. cbn [fst]. rewrite Ht, Hfr, Hc. reflexivity.
  - rewrite encode_all_snoc. cbn [snd]. now rewrite Hc.
  - rewrite !pw_write_total, Hpw, blen_app.
    pose proof (frame_len_ge8 (record_marshal {| r_type := ty; r_crc := crc_update (w_crc w) (data_or_nil d); r_data := d |})).
    unfold blen in *. lia.
  - intros s Hss Hseq. destruct (Hs s Hss Hseq) as (r1 & r2 & -> & Ho).
    exists r1, (r2 ++ [(ty, d)]). split; [now rewrite app_assoc|exact Ho].
Qed.

Lemma w_set_enti_inv w c0 recs i : tinv w c0 recs -> tinv (w_set_enti w i) c0 recs.
Proof. intros [? ? ? ? ? ? ? ? ? ?]. constructor; auto. Qed.
Lemma w_set_state_inv w c0 recs s : tinv w c0 recs -> hs_wf s -> tinv (w_set_state w s) c0 recs.
Proof. intros [? ? ? ? ? ? ? ? ? ?] ?. constructor; auto. Qed.
Lemma w_add_nrec_inv w c0 recs k : tinv w c0 recs -> tinv (w_add_nrec w k) c0 recs.
Proof. intros [? ? ? ? ? ? ? ? ? ?]. constructor; auto. Qed.

Lemma w_sync_op_inv w c0 recs fs : tinv w c0 recs -> tinv (w_sync_op fs w) c0 recs.
Proof.
  intros [Hc0 Hok Ht Hc Hpw Hs Hm Hme Hst Hf].
  destruct (pw_flush_total (w_pw w)) as [Hft Hfb].
  constructor; cbn [w_sync_op w_tail w_crc w_pw w_sync w_seq w_meta w_state]; auto.
  - now rewrite Hft.
  - destruct fs; [|exact Hs]. intros s Hss _. inversion Hss; subst s. cbn [sy_off].
    exists recs, []. split; [now rewrite app_nil_r|].
    unfold pw_total in *. rewrite Hfb in Hft. rewrite <- Ht, <- Hpw. lia.
  - destruct fs; [|exact Hm]. intros s Hss. inversion Hss; subst s. cbn [sy_seq]. lia.
Qed.

Lemma save_entry_inv w c0 recs e :
  tinv w c0 recs -> entry_wf e -> tinv (save_entry e w) c0 (recs ++ [(c_entryType, Some (entry_marshal e))]).
Proof. intros H He. unfold save_entry. apply w_set_enti_inv, w_encode_inv; [exact H|now apply enc_ok_entry]. Qed.

Lemma save_state_inv w c0 recs s :
  tinv w c0 recs -> hs_wf s -> exists recs', tinv (save_state s w) c0 (recs ++ recs').
Proof.
  intros H Hs. unfold save_state. destruct (hs_is_empty s).
  - exists []. now rewrite app_nil_r.
  - exists [(c_stateType, Some (hs_marshal s))]. apply w_encode_inv; [now apply w_set_state_inv|apply enc_ok_state].
Qed.

Lemma save_entries_inv : forall ents w c0 recs,
  tinv w c0 recs -> Forall entry_wf ents ->
  exists recs', tinv (fold_left (fun w e => save_entry e w) ents w) c0 (recs ++ recs').
Proof.
  induction ents as [|e r IH]; intros w c0 recs H Hw.
  - exists []. now rewrite app_nil_r.
  - inversion Hw; subst. cbn [fold_left].
    destruct (IH _ _ _ (save_entry_inv _ _ _ e H H2) H3) as (recs' & Hi).
    exists ((c_entryType, Some (entry_marshal e)) :: recs'). now rewrite <- app_assoc in Hi.
Qed.

Definition tail_inv (w : wal) : Prop := exists c0 recs, tinv w c0 recs.

Lemma w_cut_inv w c0 recs : tinv w c0 recs -> tail_inv (w_cut w).
Proof.
  intros H. unfold w_cut.
  pose proof (w_sync_op_inv w c0 recs (negb (w_opt w)) H) as H1.
  set (w1 := w_sync_op (negb (w_opt w)) w) in *.
  destruct H1 as [Hc0 Hok Ht Hc Hpw Hs Hm Hme Hst Hf].
  set (w2 := {| w_opt := w_opt w1; w_segsize := w_segsize w1; w_meta := w_meta w1; w_state := w_state w1;
               w_enti := w_enti w1; w_crc := w_crc w1;
               w_closed := w_closed w1 ++ [{| sg_seq := w_seq w1; sg_idx := w_idx w1; sg_bytes := w_tail w1; sg_rec := w_tailrec w1 |}];
               w_seq := w_seq w1 + 1; w_idx := w_enti w1 + 1; w_tail := [];
               w_pw := {| pw_off := 0; pw_buf := 0; pw_flushed := 0 |};
               w_sync := w_sync w1; w_nrec := w_nrec w1; w_tailrec := w_nrec w1; w_tailsize := w_segsize w1 |}).
  assert (H2 : tinv w2 (w_crc w1) []).
  { constructor; cbn [w2 w_tail w_crc w_pw w_sync w_seq w_meta w_state]; auto.
    - rewrite Hc. now apply encode_all_crc_lt.
    - intros s Hss Hseq. specialize (Hm s Hss). lia.
    - intros s Hss. specialize (Hm s Hss). lia.
    - lia. }
  pose proof (w_encode_inv _ _ _ c_crcType None H2 enc_ok_crc) as H3.
  pose proof (w_encode_inv _ _ _ c_metadataType (w_meta (w_encode c_crcType None w2)) H3
                (enc_ok_meta _ (ti_meta _ _ _ H3))) as H4.
  destruct (save_state_inv _ _ _ (w_state (w_encode c_metadataType (w_meta (w_encode c_crcType None w2)) (w_encode c_crcType None w2)))
              H4 (ti_state _ _ _ H4)) as (rs & H5).
  pose proof (w_sync_op_inv _ _ _ (negb (w_opt (save_state (w_state (w_encode c_metadataType (w_meta (w_encode c_crcType None w2)) (w_encode c_crcType None w2)))
       (w_encode c_metadataType (w_meta (w_encode c_crcType None w2)) (w_encode c_crcType None w2))))) H5) as H6.
  match goal with |- tail_inv (set_tail ?ww _ _ _) => set (w6 := ww) in * end.
  exists (w_crc w1), (([] ++ [(c_crcType, None)]) ++ [(c_metadataType, w_meta (w_encode c_crcType None w2))] ++ rs).
  rewrite app_assoc.
  destruct H6 as [Gc0 Gok Gt Gc Gpw Gs Gm Gme Gst Gf].
  assert (Hb0 : pw_buf (w_pw w6) = 0) by (subst w6; cbn [w_sync_op w_pw]; apply pw_flush_total).
  constructor; cbn [set_tail w_tail w_crc w_pw w_sync w_seq w_meta w_state]; auto;
    try (unfold pw_total in *; cbn [pw_flushed pw_buf]; lia).
Qed.

Lemma tinv_tail_inv w c0 recs : tinv w c0 recs -> tail_inv w.
Proof. intros H. now exists c0, recs. Qed.

Lemma w_save_inv w st ents : tail_inv w -> hs_wf st -> Forall entry_wf ents -> tail_inv (w_save st ents w).
Proof.
  intros (c0 & recs & H) Hst Hents. unfold w_save.
  destruct (hs_is_empty st && match ents with [] => true | _ => false end); [now exists c0, recs|].
  cbv zeta.
  destruct (save_entries_inv ents w c0 recs H Hents) as (r1 & H1).
  destruct (save_state_inv _ _ _ st H1 Hst) as (r2 & H2).
  match goal with |- tail_inv (if ?c then _ else _) => destruct c end.
  - match goal with |- tail_inv (if ?c then _ else _) => destruct c end.
    + eapply tinv_tail_inv, w_sync_op_inv, H2.
    + eapply tinv_tail_inv, H2.
  - eapply w_cut_inv, H2.
Qed.

Lemma w_save_snapshot_inv w s : tail_inv w -> snap_wf s -> tail_inv (w_save_snapshot s w).
Proof.
  intros (c0 & recs & H) Hs. unfold w_save_snapshot.
  pose proof (w_encode_inv _ _ _ c_snapshotType (Some (snap_marshal s)) H (enc_ok_snap s)) as H1.
  match goal with |- tail_inv (w_sync_op _ ?w2) => assert (H2 : tinv w2 c0 (recs ++ [(c_snapshotType, Some (snap_marshal s))])) end.
  { destruct (w_enti _ <? sn_index s); [now apply w_set_enti_inv|exact H1]. }
  eapply tinv_tail_inv, w_sync_op_inv, H2.
Qed.

Lemma w_release_inv w i : tail_inv w -> tail_inv (w_release i w).
Proof.
  intros (c0 & recs & [? ? ? ? ? ? ? ? ? ?]). exists c0, recs. unfold w_release. constructor; auto.
Qed.

Lemma w_step_inv w o : tail_inv w -> op_wf o -> tail_inv (w_step w o).
Proof.
  intros (c0 & recs & H) Ho. unfold w_step.
  pose proof (tinv_tail_inv _ _ _ (w_add_nrec_inv w c0 recs (wop_nrec o) H)) as H1.
  destruct o as [st ents|s|i|]; cbn [op_wf] in Ho.
  - destruct Ho. now apply w_save_inv.
  - now apply w_save_snapshot_inv.
  - now apply w_release_inv.
  - destruct H1 as (c1 & r1 & H1). eapply tinv_tail_inv, w_sync_op_inv, H1.
Qed.

Lemma w_create_inv opt seg meta : data_ok meta -> tail_inv (w_create opt seg meta).
Proof.
  intros Hm. unfold w_create.
  set (w0 := {| w_opt := opt; w_segsize := seg; w_meta := meta; w_state := hs_empty; w_enti := 0; w_crc := 0;
               w_closed := []; w_seq := 0; w_idx := 0; w_tail := [];
               w_pw := {| pw_off := 0; pw_buf := 0; pw_flushed := 0 |};
               w_sync := None; w_nrec := 1; w_tailrec := 0; w_tailsize := seg |}).
  assert (H0 : tinv w0 0 []).
  { constructor; cbn [w0 w_tail w_crc w_pw w_sync w_seq w_meta w_state]; auto; try reflexivity; try discriminate.
    unfold hs_wf. cbn. repeat split; reflexivity. }
  pose proof (w_encode_inv _ _ _ c_crcType None H0 enc_ok_crc) as H1.
  pose proof (w_encode_inv _ _ _ c_metadataType meta H1 (enc_ok_meta _ Hm)) as H2.
  apply w_save_snapshot_inv; [eapply tinv_tail_inv, H2|]. unfold snap_wf. cbn. split; reflexivity.
Qed.

Theorem w_run_inv opt seg meta ops :
  data_ok meta -> Forall op_wf ops -> tail_inv (w_run opt seg meta ops).
Proof.
  intros Hm Hops. unfold w_run.
  pose proof (w_create_inv opt seg meta Hm) as H0.
  revert H0. generalize (w_create opt seg meta).
  induction Hops as [|o r Ho Hr IH]; intros w Hw; [exact Hw|].
  cbn [fold_left]. apply IH. now apply w_step_inv.
Qed.

(* (4) synced ⊑ p for the sync points the code really produces. Whatever history is run (either fsync mode):
   the tail segment is the encoder's stream for well-formed records, and if the last completed fdatasync
   was on the tail, its offset is the end of a prefix [r1] of those records; every image of the tail that
   keeps the first [sy_off] bytes — whatever the rest is — decodes to [r1] first. *)
Theorem synced_records_survive opt seg meta ops s junk :
  data_ok meta -> Forall op_wf ops ->
  let w := w_run opt seg meta ops in
  w_seq w = 0 ->                       (* the theorems about decode_all are per segment: the first one here *)
  w_sync w = Some s -> sy_seq s = w_seq w ->
  exists r1 r2,
    w_tail w = fst (encode_all 0 (r1 ++ r2)) /\ sy_off s = blen (fst (encode_all 0 r1)) /\
    exists rs v off, decode_all [btake (sy_off s) (w_tail w) ++ junk] = (stored 0 r1 ++ rs, v, off).
Proof.
  intros Hm Hops w Hseq Hs Hss.
  destruct (w_run_inv opt seg meta ops Hm Hops) as (c0 & recs & H). fold w in H.
  pose proof (ti_first _ _ _ H Hseq) as ->.
  destruct (ti_sync _ _ _ H s Hs Hss) as (r1 & r2 & -> & Ho).
  exists r1, r2. split; [apply (ti_tail _ _ _ H)|]. split; [exact Ho|].
  rewrite (ti_tail _ _ _ H), Ho.
  rewrite encode_all_app. cbn [fst]. rewrite btake_app_exact.
  apply synced_prefix_survives.
  pose proof (ti_ok _ _ _ H) as Hok. apply Forall_app in Hok. tauto.
Qed.

(* ---------- what the head of every segment carries ---------- *)
Definition state_rec (s : hardstate) : list (N * option bytes) :=
  if hs_is_empty s then [] else [(c_stateType, Some (hs_marshal s))].
Definition hdr (meta : option bytes) (st0 : hardstate) : list (N * option bytes) :=
  (c_crcType, None) :: (c_metadataType, meta) :: state_rec st0.
Definition head_ok (meta : option bytes) (recs : list (N * option bytes)) : Prop :=
  exists st0 rest, recs = hdr meta st0 ++ rest.

Lemma save_state_inv' w c0 recs s :
  tinv w c0 recs -> hs_wf s -> tinv (save_state s w) c0 (recs ++ state_rec s).
Proof.
  intros H Hs. unfold save_state, state_rec. destruct (hs_is_empty s).
  - now rewrite app_nil_r.
  - apply w_encode_inv; [now apply w_set_state_inv|apply enc_ok_state].
Qed.

Lemma w_encode_meta ty d w : w_meta (w_encode ty d w) = w_meta w /\ w_state (w_encode ty d w) = w_state w.
Proof. unfold w_encode, encode_rec, set_tail. cbn. auto. Qed.

Lemma w_cut_head w c0 recs :
  tinv w c0 recs -> exists c0', tinv (w_cut w) c0' (hdr (w_meta w) (w_state w)) /\ w_meta (w_cut w) = w_meta w.
Proof.
  intros H. unfold w_cut.
  pose proof (w_sync_op_inv w c0 recs (negb (w_opt w)) H) as H1.
  set (w1 := w_sync_op (negb (w_opt w)) w) in *.
  assert (Hms1 : w_meta w1 = w_meta w /\ w_state w1 = w_state w) by (split; reflexivity).
  clearbody w1.
  destruct H1 as [Hc0 Hok Ht Hc Hpw Hs Hm Hme Hst Hf].
  set (w2 := {| w_opt := w_opt w1; w_segsize := w_segsize w1; w_meta := w_meta w1; w_state := w_state w1;
               w_enti := w_enti w1; w_crc := w_crc w1;
               w_closed := w_closed w1 ++ [{| sg_seq := w_seq w1; sg_idx := w_idx w1; sg_bytes := w_tail w1; sg_rec := w_tailrec w1 |}];
               w_seq := w_seq w1 + 1; w_idx := w_enti w1 + 1; w_tail := [];
               w_pw := {| pw_off := 0; pw_buf := 0; pw_flushed := 0 |};
               w_sync := w_sync w1; w_nrec := w_nrec w1; w_tailrec := w_nrec w1; w_tailsize := w_segsize w1 |}).
  assert (H2 : tinv w2 (w_crc w1) []).
  { constructor; cbn [w2 w_tail w_crc w_pw w_sync w_seq w_meta w_state]; auto.
    - rewrite Hc. now apply encode_all_crc_lt.
    - intros s Hss Hseq. specialize (Hm s Hss). lia.
    - intros s Hss. specialize (Hm s Hss). lia.
    - lia. }
  assert (Hms2 : w_meta w2 = w_meta w /\ w_state w2 = w_state w) by exact Hms1.
  clearbody w2.
  pose proof (w_encode_inv _ _ _ c_crcType None H2 enc_ok_crc) as H3.
  set (w3 := w_encode c_crcType None w2) in *.
  assert (Hm3 : w_meta w3 = w_meta w /\ w_state w3 = w_state w).
  { subst w3. destruct (w_encode_meta c_crcType None w2) as [-> ->]. exact Hms2. }
  clearbody w3.
  pose proof (w_encode_inv _ _ _ c_metadataType (w_meta w3) H3 (enc_ok_meta _ (ti_meta _ _ _ H3))) as H4.
  set (w4 := w_encode c_metadataType (w_meta w3) w3) in *.
  assert (Hm4 : w_meta w4 = w_meta w /\ w_state w4 = w_state w).
  { subst w4. destruct (w_encode_meta c_metadataType (w_meta w3) w3) as [-> ->]. exact Hm3. }
  clearbody w4.
  pose proof (save_state_inv' _ _ _ (w_state w4) H4 (ti_state _ _ _ H4)) as H5.
  set (w5 := save_state (w_state w4) w4) in *.
  assert (Hm5 : w_meta w5 = w_meta w).
  { subst w5. unfold save_state. destruct (hs_is_empty (w_state w4)); [apply Hm4|].
    destruct (w_encode_meta c_stateType (Some (hs_marshal (w_state w4))) (w_set_state w4 (w_state w4))) as [-> _].
    cbn [w_set_state w_meta]. apply Hm4. }
  clearbody w5.
  pose proof (w_sync_op_inv _ _ _ (negb (w_opt w5)) H5) as H6.
  set (w6 := w_sync_op (negb (w_opt w5)) w5) in *.
  assert (Hb0 : pw_buf (w_pw w6) = 0) by (subst w6; cbn [w_sync_op w_pw]; apply pw_flush_total).
  assert (Hmeta6 : w_meta w6 = w_meta w) by (subst w6; exact Hm5).
  clearbody w6.
  exists (w_crc w1). split; [|exact Hmeta6].
  destruct Hm3 as [Hm3 _]. destruct Hm4 as [_ Hs4].
  assert (E : hdr (w_meta w) (w_state w) = (c_crcType, None) :: (c_metadataType, w_meta w3) :: state_rec (w_state w4)).
  { rewrite Hm3, Hs4. reflexivity. }
  rewrite E. cbn [app] in H6.
  destruct H6 as [Gc0 Gok Gt Gc Gpw Gs Gm Gme Gst Gf].
  constructor; cbn [set_tail w_tail w_crc w_pw w_sync w_seq w_meta w_state]; auto;
    try (unfold pw_total in *; cbn [pw_flushed pw_buf]; lia).
Qed.

(* one operation either appends records to the tail or starts a new segment with a full head *)
Lemma w_save_head w c0 recs st ents :
  tinv w c0 recs -> hs_wf st -> Forall entry_wf ents ->
  (exists recs', tinv (w_save st ents w) c0 (recs ++ recs') /\ w_meta (w_save st ents w) = w_meta w) \/
  (exists c0' st0, tinv (w_save st ents w) c0' (hdr (w_meta w) st0) /\ w_meta (w_save st ents w) = w_meta w).
Proof.
  intros H Hst Hents. unfold w_save.
  destruct (hs_is_empty st && match ents with [] => true | _ => false end).
  { left. exists []. now rewrite app_nil_r. }
  cbv zeta.
  destruct (save_entries_inv ents w c0 recs H Hents) as (r1 & H1).
  pose proof (save_state_inv' _ _ _ st H1 Hst) as H2.
  set (w2 := save_state st (fold_left (fun w e => save_entry e w) ents w)) in *.
  assert (Hmeta : w_meta w2 = w_meta w).
  { subst w2. unfold save_state.
    assert (Hf : w_meta (fold_left (fun w e => save_entry e w) ents w) = w_meta w).
    { clear. revert w. induction ents as [|e r IH]; intros w; [reflexivity|]. cbn [fold_left]. rewrite IH.
      unfold save_entry. cbn [w_set_enti w_meta]. apply w_encode_meta. }
    destruct (hs_is_empty st); [exact Hf|].
    destruct (w_encode_meta c_stateType (Some (hs_marshal st)) (w_set_state (fold_left (fun w e => save_entry e w) ents w) st)) as [-> _].
    exact Hf. }
  destruct (pw_flushed (w_pw w2) <? w_segsize w2).
  - left. exists (r1 ++ state_rec st). rewrite app_assoc.
    destruct (negb _ || _).
    + split; [apply w_sync_op_inv; exact H2|exact Hmeta].
    + split; [exact H2|exact Hmeta].
  - right. destruct (w_cut_head _ _ _ H2) as (c0' & Hc & Hm). exists c0', (w_state w2).
    rewrite Hmeta in Hc. split; [exact Hc|]. now rewrite Hm.
Qed.

Definition tail_head_inv (w : wal) : Prop :=
  exists c0 recs, tinv w c0 recs /\ head_ok (w_meta w) recs.

Lemma head_ok_app meta recs more : head_ok meta recs -> head_ok meta (recs ++ more).
Proof. intros (st0 & rest & ->). exists st0, (rest ++ more). now rewrite app_assoc. Qed.

Lemma w_save_snapshot_head w c0 recs s :
  tinv w c0 recs -> head_ok (w_meta w) recs -> snap_wf s -> tail_head_inv (w_save_snapshot s w).
Proof.
  intros H1 Hh Hs. unfold w_save_snapshot.
  pose proof (w_encode_inv _ _ _ c_snapshotType (Some (snap_marshal s)) H1 (enc_ok_snap s)) as H2.
  set (w1 := w_encode c_snapshotType (Some (snap_marshal s)) w) in *.
  assert (Hm1 : w_meta w1 = w_meta w) by (subst w1; apply w_encode_meta).
  clearbody w1.
  exists c0, (recs ++ [(c_snapshotType, Some (snap_marshal s))]).
  destruct (w_enti w1 <? sn_index s).
  - split; [apply w_sync_op_inv; now apply w_set_enti_inv|].
    cbn [w_sync_op w_set_enti w_meta]. rewrite Hm1. now apply head_ok_app.
  - split; [apply w_sync_op_inv; exact H2|].
    cbn [w_sync_op w_meta]. rewrite Hm1. now apply head_ok_app.
Qed.

Lemma w_step_head w o : tail_head_inv w -> op_wf o -> tail_head_inv (w_step w o).
Proof.
  intros (c0 & recs & H & Hh) Ho. unfold w_step.
  pose proof (w_add_nrec_inv w c0 recs (wop_nrec o) H) as H1.
  destruct o as [st ents|s|i|]; cbn [op_wf] in Ho.
  - destruct Ho as [Hst Hents].
    destruct (w_save_head _ _ _ st ents H1 Hst Hents) as [(r' & Hi & Hm)|(c0' & st0 & Hi & Hm)].
    + exists c0, (recs ++ r'). split; [exact Hi|]. rewrite Hm. now apply head_ok_app.
    + exists c0', (hdr (w_meta (w_add_nrec w (wop_nrec (OSave st ents)))) st0). split; [exact Hi|].
      rewrite Hm. exists st0, []. now rewrite app_nil_r.
  - eapply w_save_snapshot_head; eauto.
  - exists c0, recs. split; [|exact Hh]. destruct H1 as [? ? ? ? ? ? ? ? ? ?]. unfold w_release. constructor; auto.
  - exists c0, recs. split; [now apply w_sync_op_inv|exact Hh].
Qed.

Lemma w_create_head opt seg meta : data_ok meta -> tail_head_inv (w_create opt seg meta).
Proof.
  intros Hm. unfold w_create.
  set (w0 := {| w_opt := opt; w_segsize := seg; w_meta := meta; w_state := hs_empty; w_enti := 0; w_crc := 0;
               w_closed := []; w_seq := 0; w_idx := 0; w_tail := [];
               w_pw := {| pw_off := 0; pw_buf := 0; pw_flushed := 0 |};
               w_sync := None; w_nrec := 1; w_tailrec := 0; w_tailsize := seg |}).
  assert (H0 : tinv w0 0 []).
  { constructor; cbn [w0 w_tail w_crc w_pw w_sync w_seq w_meta w_state]; auto; try reflexivity; try discriminate.
    unfold hs_wf. cbn. repeat split; reflexivity. }
  pose proof (w_encode_inv _ _ _ c_crcType None H0 enc_ok_crc) as H1.
  pose proof (w_encode_inv _ _ _ c_metadataType meta H1 (enc_ok_meta _ Hm)) as H2.
  set (w2 := w_encode c_metadataType meta (w_encode c_crcType None w0)) in *.
  assert (Hm2 : w_meta w2 = meta).
  { subst w2. rewrite (proj1 (w_encode_meta _ _ _)), (proj1 (w_encode_meta _ _ _)). reflexivity. }
  clearbody w2. clear H0 H1 w0.
  eapply w_save_snapshot_head; [exact H2| |split; reflexivity].
  rewrite Hm2. exists hs_empty, []. reflexivity.
Qed.

(* every segment the wal is writing starts with its crc record, the metadata and — when there is one — the
   hard state as of the cut: a reader that starts at this segment knows the newest hard state before it *)
Theorem w_run_head opt seg meta ops :
  data_ok meta -> Forall op_wf ops -> tail_head_inv (w_run opt seg meta ops).
Proof.
  intros Hm Hops. unfold w_run.
  pose proof (w_create_head opt seg meta Hm) as H0.
  revert H0. generalize (w_create opt seg meta).
  induction Hops as [|o r Ho Hr IH]; intros w Hw; [exact Hw|].
  cbn [fold_left]. apply IH. now apply w_step_head.
Qed.
