(* Wal/Spec.v — C05: the specification side. What "the effect of a prefix of the saved records" means,
   which crash images are considered, and the full statement of the property over the model.
   Definitions only (no proofs). *)
From ZV Require Export Common.Bytes Wal.Consts Wal.Crc Wal.Proto Wal.Model.
Open Scope N_scope.

(* ReadAll's statement  ents = append(ents[:e.Index-start-1], e)  with its range check; an entry at or
   before the snapshot index empties what was collected (that write truncated the log behind it) *)
Definition place (start : N) (ents : list entry) (e : entry) : option (list entry) :=
  if start <? e_index e then
    let up := e_index e - start - 1 in
    if nlen ents <? up then None else Some (firstn (N.to_nat up) ents ++ [e])
  else Some [].

Fixpoint place_all (start : N) (ents : list entry) (es : list entry) : option (list entry) :=
  match es with
  | [] => Some ents
  | e :: r => match place start ents e with
              | None => None
              | Some ents' => place_all start ents' r
              end
  end.

(* the entries that survive: those no later write has overwritten or truncated *)
Fixpoint visible (es : list entry) : list entry :=
  match es with
  | [] => []
  | e :: r => if forallb (fun e' => e_index e <? e_index e') r then e :: visible r else visible r
  end.


(* ---------- the logical records a history hands to the wal ---------- *)
Inductive lrec := LEnt (e : entry) | LState (s : hardstate) | LSnap (s : wsnap).

Definition lrecs_of_op (o : wop) : list lrec :=
  match o with
  | OSave st ents => map LEnt ents ++ (if hs_is_empty st then [] else [LState st])
  | OSnap s => [LSnap s]
  | _ => []
  end.
(* wal.Create itself saves the marker {0,0} *)
Definition lrecs (ops : list wop) : list lrec :=
  LSnap {| sn_index := 0; sn_term := 0 |} :: flat_map lrecs_of_op ops.

(* the effect of a list of logical records when the log is opened at snapshot [start] (ReadAll's meaning):
   entries placed by index, newest hard state wins, a marker at start's index must carry start's term.
   None = ReadAll must refuse (gap, marker term mismatch). *)
Fixpoint effect_go (start : wsnap) (rs : list lrec) (st : hardstate) (ents : list entry)
  : option (hardstate * list entry) :=
  match rs with
  | [] => Some (st, ents)
  | LEnt e :: r => match place (sn_index start) ents e with
                   | None => None
                   | Some ents' => effect_go start r st ents'
                   end
  | LState s :: r => effect_go start r s ents
  | LSnap s :: r => if (sn_index s =? sn_index start) && negb (sn_term s =? sn_term start) then None
                    else effect_go start r st ents
  end.
Definition effect (start : wsnap) (rs : list lrec) : option (hardstate * list entry) :=
  effect_go start rs hs_empty [].

(* ---------- crash images ---------- *)
(* the crash happens inside the last operation [o]; [w0] is the wal before it, [w] after it.
   Bytes of the tail covered by the last fdatasync completed before [o] are fixed. *)
Definition synced_off (w0 w : wal) : N :=
  match w_sync w0 with
  | Some s => if (sy_seq s =? w_seq w) && (sy_idx s =? w_idx w) then sy_off s else 0
  | None => 0
  end.
Definition synced_recs (w0 : wal) : N :=
  match w_sync w0 with Some s => sy_rec s | None => 0 end.

Inductive crash_image (w0 w : wal) : bool -> list segfile -> Prop :=
| CI_trunc c : synced_off w0 w <= c ->
    crash_image w0 w true (set_last_bytes (w_files w) (img_trunc c))
| CI_short c : synced_off w0 w <= c ->
    crash_image w0 w true (set_last_bytes (w_files w) (img_short c))
| CI_sector off len : synced_off w0 w <= off -> (off + len) mod c_minSectorSize = 0 ->
    (off mod c_minSectorSize = 0 \/ off = synced_off w0 w) ->
    crash_image w0 w true (set_last_bytes (w_files w) (img_zero off len))
| CI_flip i bit :
    crash_image w0 w false (set_nth_bytes i (w_files w) (img_flip bit)).

Definition zero_snap : wsnap := {| sn_index := 0; sn_term := 0 |}.

Definition final_result (o : reopen_out) : rares :=
  match ro_repair o with
  | Some (Some (_, r2)) => r2
  | _ => ro_first o
  end.

(* ---------- the property, in full, over the model ---------- *)
(* For every history and every crash image: reopening fails, or returns exactly the effect of a prefix of
   the saved records; for torn images that prefix contains everything saved before the last completed
   sync; for bit flips any prefix is acceptable (corrupted bytes are reported or cut off). *)
Definition C05_full : Prop :=
  forall opt seg meta ops o torn files',
    let w0 := w_run opt seg meta ops in
    let w := w_step w0 o in
    crash_image w0 w torn files' ->
    match final_result (reopen files' (Some zero_snap)) with
    | RAErr _ => True
    | RAOk _ st ents _ _ =>
        exists k, (if torn then synced_recs w0 else 0) <= k /\
                  effect zero_snap (firstn (N.to_nat k) (lrecs (ops ++ [o]))) = Some (st, ents)
    end.

(* ---------- several segments: the crc is chained from one segment into the next ---------- *)
Fixpoint encode_segs (crc : N) (segs : list (list (N * option bytes))) : list bytes :=
  match segs with
  | [] => []
  | recs :: r => fst (encode_all crc recs) :: encode_segs (snd (encode_all crc recs)) r
  end.
Fixpoint stored_segs (crc : N) (segs : list (list (N * option bytes))) : list wrecord :=
  match segs with
  | [] => []
  | recs :: r => stored crc recs ++ stored_segs (snd (encode_all crc recs)) r
  end.
(* the tail keeps its preallocated zeros *)
Fixpoint app_last (l : list bytes) (t : bytes) : list bytes :=
  match l with
  | [] => []
  | [x] => [x ++ t]
  | x :: r => x :: app_last r t
  end.

(* ---------- ReadAll as a fold over the decoded records ---------- *)
Definition dummy_dec : decoder := {| d_brs := []; d_off := 0; d_crc := 0 |}.
(* ReadAll's loop body, the decoder left out (crc records only concern the decoder) *)
Definition ra_step (start : wsnap) (s : rastate) (r : wrecord) : rastate + werr :=
  match ra_record start dummy_dec r s with
  | inl (s', _) => inl s'
  | inr e => inr e
  end.
Fixpoint ra_fold (start : wsnap) (s : rastate) (rs : list wrecord) : rastate + werr :=
  match rs with
  | [] => inl s
  | r :: t => match ra_step start s r with
              | inr e => inr e
              | inl s' => ra_fold start s' t
              end
  end.
(* ReadAll's outcome computed from the decoder's (records, verdict, lastValidOff) *)
Definition fold_view (start : wsnap) (s : rastate) (res : list wrecord * option werr * N)
  : (rastate * option werr * N) + werr :=
  let '(rs, v, off) := res in
  match ra_fold start s rs with
  | inr e => inr e
  | inl s' => match v with
              | Some ECrcChain => inr ECrcChain
              | Some EPanic => inr EPanic
              | _ => inl (s', v, off)
              end
  end.
Definition rares_view (r : rares) : (option bytes * hardstate * list entry * N) + werr :=
  match r with
  | RAOk m st ents off _ => inl (m, st, ents, off)
  | RAErr e => inr e
  end.

(* the wal record that carries a logical record *)
Definition rec_of_lrec (l : lrec) : N * option bytes :=
  match l with
  | LEnt e => (c_entryType, Some (entry_marshal e))
  | LState s => (c_stateType, Some (hs_marshal s))
  | LSnap s => (c_snapshotType, Some (snap_marshal s))
  end.
