(* Wal/ProofsReadAll.v — ReadAll is a fold of its loop body over what the decoder returns. *)
From ZV Require Import Common.Bytes Wal.Consts Wal.Crc Wal.Proto Wal.Model Wal.Spec
  Wal.ProofsCrc Wal.ProofsProto Wal.ProofsFrame Wal.ProofsDecode.
From Coq Require Import ZifyN ZifyNat ZifyBool Lia.
Open Scope N_scope.

Lemma decode_all_loop_acc : forall f d acc,
  decode_all_loop f d acc =
  let '(rs, v, off) := decode_all_loop f d [] in (rev acc ++ rs, v, off).
Proof.
  induction f as [|f IH]; intros d acc.
  - cbn [decode_all_loop rev app]. now rewrite app_nil_r.
  - cbn [decode_all_loop].
    destruct (decode d) as [r d'|d'|e d']; cbn [rev app]; try (now rewrite app_nil_r).
    destruct (r_type r =? c_crcType).
    + destruct (crc_record_ok d' r); [|cbn [rev app]; now rewrite app_nil_r].
      rewrite (IH _ (r :: acc)), (IH _ [r]).
      destruct (decode_all_loop f _ []) as [[rs v] off]. cbn [rev app]. now rewrite <- app_assoc.
    + rewrite (IH _ (r :: acc)), (IH _ [r]).
      destruct (decode_all_loop f d' []) as [[rs v] off]. cbn [rev app]. now rewrite <- app_assoc.
Qed.

(* the errors decodeRecord itself can raise *)
Lemma decode_record_errs : forall fuel d e d',
  decode_record fuel d = DErr e d' -> e = EUeof \/ e = ECrc \/ e = EProto \/ e = EMaxSize.
Proof.
  induction fuel as [|fuel IH]; intros d e d' H; [discriminate|].
  cbn [decode_record] in H.
  destruct (d_brs d) as [|br rest]; [discriminate|].
  destruct ((blen (btake 8 br) =? 0) || (blen (btake 8 br) =? 8) && (le64_dec (btake 8 br) =? 0)).
  - destruct rest; [discriminate|]. eapply IH, H.
  - destruct (blen (btake 8 br) <? 8); [inversion H; auto|]. cbv zeta in H.
    match type of H with (if ?c then _ else _) = _ => destruct c end; [inversion H; auto|].
    match type of H with (if ?c then _ else _) = _ => destruct c end; [inversion H; auto|].
    match type of H with match ?x with _ => _ end = _ => destruct x as [rr|pe] end.
    + destruct (r_type rr =? c_crcType); [discriminate|].
      match type of H with (if ?c then _ else _) = _ => destruct c end; [discriminate|].
      destruct (is_torn _ _); inversion H; auto.
    + destruct (is_torn _ _); [inversion H; auto|]. destruct pe; inversion H; auto.
Qed.

Lemma ra_record_split start d r s :
  ra_record start d r s =
  if r_type r =? c_crcType
  then (if crc_record_ok d r then inl (s, d_update_crc d (r_crc r)) else inr ECrcChain)
  else match ra_step start s r with inl s' => inl (s', d) | inr e => inr e end.
Proof.
  unfold ra_step, ra_record.
  destruct (r_type r =? c_crcType) eqn:Ec.
  - apply N.eqb_eq in Ec. rewrite Ec. reflexivity.
  - destruct (r_type r =? c_entryType).
    { destruct (entry_unmarshal _); [|reflexivity].
      destruct (sn_index start <? e_index a); [|reflexivity].
      destruct (nlen (ra_ents s) <? _); reflexivity. }
    destruct (r_type r =? c_stateType).
    { destruct (hs_unmarshal _); reflexivity. }
    destruct (r_type r =? c_metadataType).
    { destruct (ra_meta s); [destruct (bytes_eqb _ _)|]; reflexivity. }
    destruct (r_type r =? c_snapshotType); [|reflexivity].
    destruct (snap_unmarshal _); [|reflexivity].
    destruct (sn_index a =? sn_index start); [destruct (sn_term a =? sn_term start)|]; reflexivity.
Qed.

Lemma ra_step_crc start s r : r_type r = c_crcType -> ra_step start s r = inl s.
Proof. intros H. unfold ra_step, ra_record. rewrite H. reflexivity. Qed.

Definition ra_view (x : (rastate * option werr * decoder) + werr) : (rastate * option werr * N) + werr :=
  match x with
  | inl (s, v, d) => inl (s, v, d_off d)
  | inr e => inr e
  end.

Theorem ra_loop_fold start : forall f d s,
  ra_view (ra_loop f start d s) = fold_view start s (decode_all_loop f d []).
Proof.
  induction f as [|f IH]; intros d s; [reflexivity|].
  cbn [ra_loop decode_all_loop].
  destruct (decode d) as [r d'|d'|e d'] eqn:Ed.
  - rewrite ra_record_split.
    destruct (r_type r =? c_crcType) eqn:Ec.
    + destruct (crc_record_ok d' r); [|reflexivity].
      rewrite IH. rewrite (decode_all_loop_acc f _ [r]).
      destruct (decode_all_loop f (d_update_crc d' (r_crc r)) []) as [[rs v] off]. cbn [rev app fold_view ra_fold].
      rewrite ra_step_crc by now apply N.eqb_eq. reflexivity.
    + rewrite (decode_all_loop_acc f d' [r]).
      destruct (ra_step start s r) as [s'|e] eqn:Es.
      * rewrite IH. destruct (decode_all_loop f d' []) as [[rs v] off]. cbn [rev app fold_view ra_fold].
        rewrite Es. reflexivity.
      * destruct (decode_all_loop f d' []) as [[rs v] off]. cbn [rev app fold_view ra_fold ra_view].
        rewrite Es. reflexivity.
  - reflexivity.
  - cbn [ra_view fold_view ra_fold rev].
    destruct (decode_record_errs _ _ _ _ Ed) as [->|[->|[->| ->]]]; reflexivity.
Qed.

(* ReadAll (write mode) = fold of the loop body over decode_all's records; an error of the decoder other
   than a clean end is returned as is *)
Theorem read_all_fold start segs :
  rares_view (read_all start segs) =
  match fold_view start ra_init (decode_all segs) with
  | inr e => inr e
  | inl (s, Some e, _) => inr e
  | inl (s, None, off) => inl (ra_meta s, ra_st s, ra_ents s, off)
  end.
Proof.
  unfold read_all, decode_all.
  pose proof (ra_loop_fold start (scan_fuel segs) (new_decoder segs) ra_init) as H.
  destruct (ra_loop (scan_fuel segs) start (new_decoder segs) ra_init) as [[[s v] d]|e]; cbn [ra_view] in H; rewrite <- H.
  - destruct v; reflexivity.
  - reflexivity.
Qed.
