(* Wal/ProofsHistory.v — a history that stays in its first segment: the tail is exactly the stream of the
   head and of the logical records handed over, and every sync point lies after a whole number of operations. *)
From ZV Require Import Common.Bytes Wal.Consts Wal.Crc Wal.Proto Wal.Model Wal.Spec
  Wal.ProofsCrc Wal.ProofsProto Wal.ProofsFrame Wal.ProofsDecode Wal.ProofsTorn Wal.ProofsPrefix
  Wal.ProofsWriter Wal.ProofsNames.
From Coq Require Import ZifyN ZifyNat ZifyBool Lia.
Open Scope N_scope.

Definition hd2 (meta : option bytes) : list (N * option bytes) := [(c_crcType, None); (c_metadataType, meta)].
Definition recs_of (meta : option bytes) (ops : list wop) : list (N * option bytes) :=
  hd2 meta ++ map rec_of_lrec (lrecs ops).

Lemma lrecs_app ops o : lrecs (ops ++ [o]) = lrecs ops ++ lrecs_of_op o.
Proof. unfold lrecs. rewrite flat_map_app. cbn [flat_map]. now rewrite app_nil_r. Qed.

Lemma recs_of_app meta ops o : recs_of meta (ops ++ [o]) = recs_of meta ops ++ map rec_of_lrec (lrecs_of_op o).
Proof. unfold recs_of. now rewrite lrecs_app, map_app, app_assoc. Qed.

Lemma wop_nrec_spec o : wop_nrec o = nlen (lrecs_of_op o).
Proof.
  destruct o as [st ents|s|i|]; cbn [wop_nrec lrecs_of_op]; unfold nlen; cbn [length]; try reflexivity.
  rewrite app_length, map_length. destruct (hs_is_empty st); cbn [length]; lia.
Qed.

Lemma save_entries_exact : forall ents w c0 recs,
  tinv w c0 recs -> Forall entry_wf ents ->
  tinv (fold_left (fun w e => save_entry e w) ents w) c0 (recs ++ map (fun e => rec_of_lrec (LEnt e)) ents).
Proof.
  induction ents as [|e r IH]; intros w c0 recs H Hw.
  - now rewrite app_nil_r.
  - inversion Hw; subst. cbn [fold_left map].
    pose proof (IH _ _ _ (save_entry_inv _ _ _ e H H2) H3) as Hi.
    now rewrite <- app_assoc in Hi.
Qed.

Lemma state_rec_lrec st : state_rec st = map rec_of_lrec (if hs_is_empty st then [] else [LState st]).
Proof. unfold state_rec. destruct (hs_is_empty st); reflexivity. Qed.

Record sinv (w : wal) (meta : option bytes) (ops : list wop) : Prop := {
  si_t : tinv w 0 (recs_of meta ops);
  si_seq : w_seq w = 0;
  si_meta : w_meta w = meta;
  si_nrec : w_nrec w = nlen (lrecs ops);
  si_sync : forall s, w_sync w = Some s ->
            exists j, (j <= length ops)%nat /\
                      sy_off s = blen (fst (encode_all 0 (recs_of meta (firstn j ops)))) /\
                      sy_rec s = nlen (lrecs (firstn j ops)) }.

Lemma sync_now w meta ops :
  tinv w 0 (recs_of meta ops) -> w_nrec w = nlen (lrecs ops) ->
  forall s, w_sync (w_sync_op true w) = Some s ->
  exists j, (j <= length ops)%nat /\
            sy_off s = blen (fst (encode_all 0 (recs_of meta (firstn j ops)))) /\
            sy_rec s = nlen (lrecs (firstn j ops)).
Proof.
  intros Ht Hn s Hs. cbn [w_sync_op w_sync] in Hs. inversion Hs; subst s. cbn [sy_off sy_rec].
  exists (length ops). rewrite firstn_all. split; [lia|]. split; [|exact Hn].
  destruct (pw_flush_total (w_pw w)) as [Hft Hfb]. unfold pw_total in *.
  rewrite <- (ti_tail _ _ _ Ht), <- (ti_pw _ _ _ Ht). unfold pw_total. lia.
Qed.

Lemma sync_keep meta ops o s :
  (exists j, (j <= length ops)%nat /\
             sy_off s = blen (fst (encode_all 0 (recs_of meta (firstn j ops)))) /\
             sy_rec s = nlen (lrecs (firstn j ops))) ->
  exists j, (j <= length (ops ++ [o]))%nat /\
            sy_off s = blen (fst (encode_all 0 (recs_of meta (firstn j (ops ++ [o]))))) /\
            sy_rec s = nlen (lrecs (firstn j (ops ++ [o]))).
Proof.
  intros (j & Hj & H1 & H2). exists j. rewrite app_length. cbn [length]. split; [lia|].
  rewrite firstn_app. replace (j - length ops)%nat with 0%nat by lia. cbn [firstn]. rewrite app_nil_r. auto.
Qed.

Lemma w_cut_seq w : w_seq (w_cut w) = w_seq w + 1.
Proof.
  unfold w_cut. cbn [set_tail w_seq w_sync_op].
  match goal with |- w_seq (save_state ?s ?x) = _ => rewrite (proj2 (save_state_names s x)) end.
  rewrite (proj2 (w_encode_names _ _ _)), (proj2 (w_encode_names _ _ _)). reflexivity.
Qed.

Lemma sinv_step w meta ops o :
  sinv w meta ops -> op_wf o -> w_seq (w_step w o) = 0 -> sinv (w_step w o) meta (ops ++ [o]).
Proof.
  intros [Ht Hseq Hmeta Hn Hsync] Ho Hz. unfold w_step in *.
  set (w0 := w_add_nrec w (wop_nrec o)) in *.
  assert (Ht0 : tinv w0 0 (recs_of meta ops)) by now apply w_add_nrec_inv.
  assert (Hn0 : w_nrec w0 = nlen (lrecs (ops ++ [o]))).
  { subst w0. cbn [w_add_nrec w_nrec]. rewrite Hn, wop_nrec_spec, lrecs_app. unfold nlen. rewrite app_length. lia. }
  assert (Hs0 : w_sync w0 = w_sync w) by reflexivity.
  assert (Hq0 : w_seq w0 = 0) by exact Hseq.
  assert (Hm0 : w_meta w0 = meta) by exact Hmeta.
  clearbody w0.
  destruct o as [st ents|sn|i|]; cbn [op_wf] in Ho.
  - (* Save *)
    destruct Ho as [Hst Hents]. unfold w_save in *.
    destruct (hs_is_empty st && match ents with [] => true | _ => false end) eqn:Etriv.
    { assert (El : lrecs_of_op (OSave st ents) = []).
      { apply andb_true_iff in Etriv as [E1 E2]. destruct ents; [|discriminate]. cbn. now rewrite E1. }
      constructor; [|exact Hq0|exact Hm0|exact Hn0|].
      - rewrite recs_of_app, El. cbn [map]. now rewrite app_nil_r.
      - intros s Hs. apply sync_keep. apply Hsync. now rewrite <- Hs0. }
    cbv zeta in *.
    pose proof (save_entries_exact ents w0 0 _ Ht0 Hents) as H1.
    pose proof (save_state_inv' _ _ _ st H1 Hst) as H2.
    set (w2 := save_state st (fold_left (fun w e => save_entry e w) ents w0)) in *.
    assert (Hrecs : (recs_of meta ops ++ map (fun e => rec_of_lrec (LEnt e)) ents) ++ state_rec st
                    = recs_of meta (ops ++ [OSave st ents])).
    { rewrite recs_of_app. cbn [lrecs_of_op]. rewrite map_app, map_map, state_rec_lrec, app_assoc. reflexivity. }
    rewrite Hrecs in H2.
    assert (Hf2 : w_closed w2 = w_closed w0 /\ w_seq w2 = w_seq w0 /\ w_meta w2 = w_meta w0 /\
                  w_nrec w2 = w_nrec w0 /\ w_sync w2 = w_sync w0).
    { subst w2. destruct (save_state_names st (fold_left (fun w e => save_entry e w) ents w0)) as [E1 E2].
      destruct (save_entries_names ents w0) as [E3 E4].
      repeat split; try congruence.
      - unfold save_state. destruct (hs_is_empty st).
        + clear. revert w0. induction ents as [|e r IH]; intros w0; [reflexivity|]. cbn [fold_left]. rewrite IH.
          unfold save_entry. cbn [w_set_enti w_meta]. apply w_encode_meta.
        + rewrite (proj1 (w_encode_meta _ _ _)). cbn [w_set_state w_meta].
          clear. revert w0. induction ents as [|e r IH]; intros w0; [reflexivity|]. cbn [fold_left]. rewrite IH.
          unfold save_entry. cbn [w_set_enti w_meta]. apply w_encode_meta.
      - unfold save_state. destruct (hs_is_empty st).
        + clear. revert w0. induction ents as [|e r IH]; intros w0; [reflexivity|]. cbn [fold_left]. rewrite IH. reflexivity.
        + unfold w_encode, encode_rec, set_tail. cbn [w_nrec w_set_state].
          clear. revert w0. induction ents as [|e r IH]; intros w0; [reflexivity|]. cbn [fold_left]. rewrite IH. reflexivity.
      - unfold save_state. destruct (hs_is_empty st).
        + clear. revert w0. induction ents as [|e r IH]; intros w0; [reflexivity|]. cbn [fold_left]. rewrite IH. reflexivity.
        + unfold w_encode, encode_rec, set_tail. cbn [w_sync w_set_state].
          clear. revert w0. induction ents as [|e r IH]; intros w0; [reflexivity|]. cbn [fold_left]. rewrite IH. reflexivity. }
    destruct Hf2 as (_ & Hq2 & Hm2 & Hn2 & Hs2).
    clearbody w2.
    destruct (pw_flushed (w_pw w2) <? w_segsize w2).
    + set (ms := negb _ || _) in *. set (fs := if w_opt w0 then _ else true) in *.
      destruct ms.
      * constructor.
        -- now apply w_sync_op_inv.
        -- cbn [w_sync_op w_seq]. congruence.
        -- cbn [w_sync_op w_meta]. congruence.
        -- cbn [w_sync_op w_nrec]. congruence.
        -- destruct fs.
           ++ apply sync_now; [exact H2|congruence].
           ++ cbn [w_sync_op w_sync]. intros s Hs. apply sync_keep. apply Hsync. congruence.
      * constructor; [exact H2|congruence|congruence|congruence|].
        intros s Hs. apply sync_keep. apply Hsync. congruence.
    + rewrite w_cut_seq in Hz. lia.
  - (* SaveSnapshot *)
    unfold w_save_snapshot in *.
    pose proof (w_encode_inv _ _ _ c_snapshotType (Some (snap_marshal sn)) Ht0 (enc_ok_snap sn)) as H1.
    set (w1 := w_encode c_snapshotType (Some (snap_marshal sn)) w0) in *.
    assert (Hf1 : w_seq w1 = w_seq w0 /\ w_meta w1 = w_meta w0 /\ w_nrec w1 = w_nrec w0 /\ w_sync w1 = w_sync w0 /\ w_opt w1 = w_opt w0).
    { subst w1. unfold w_encode, encode_rec, set_tail. cbn. auto. }
    destruct Hf1 as (Hq1 & Hm1 & Hn1 & Hs1 & Ho1).
    assert (Hrecs : recs_of meta ops ++ [(c_snapshotType, Some (snap_marshal sn))] = recs_of meta (ops ++ [OSnap sn])).
    { rewrite recs_of_app. reflexivity. }
    rewrite Hrecs in H1. clearbody w1.
    set (w2 := if w_enti w1 <? sn_index sn then w_set_enti w1 (sn_index sn) else w1) in *.
    assert (H2 : tinv w2 0 (recs_of meta (ops ++ [OSnap sn]))).
    { subst w2. destruct (w_enti w1 <? sn_index sn); [now apply w_set_enti_inv|exact H1]. }
    assert (Hf2 : w_seq w2 = w_seq w1 /\ w_meta w2 = w_meta w1 /\ w_nrec w2 = w_nrec w1 /\ w_sync w2 = w_sync w1).
    { subst w2. destruct (w_enti w1 <? sn_index sn); cbn [w_set_enti w_seq w_meta w_nrec w_sync]; auto. }
    destruct Hf2 as (Hq2 & Hm2 & Hn2 & Hs2). clearbody w2.
    constructor.
    + now apply w_sync_op_inv.
    + cbn [w_sync_op w_seq]. congruence.
    + cbn [w_sync_op w_meta]. congruence.
    + cbn [w_sync_op w_nrec]. congruence.
    + destruct (negb (w_opt w2)).
      * apply sync_now; [exact H2|congruence].
      * cbn [w_sync_op w_sync]. intros s Hs. apply sync_keep. apply Hsync. congruence.
  - (* ReleaseLockTo *)
    assert (El : recs_of meta (ops ++ [ORelease i]) = recs_of meta ops).
    { rewrite recs_of_app. cbn [lrecs_of_op map]. now rewrite app_nil_r. }
    unfold w_release in *. cbn [w_seq] in Hz.
    destruct Ht0 as [? ? ? ? ? ? ? ? ? ?].
    constructor; cbn [w_seq w_meta w_nrec w_sync]; auto.
    + rewrite El. constructor; auto.
    + intros s Hs. apply sync_keep. apply Hsync. congruence.
  - (* Sync *)
    assert (El : recs_of meta (ops ++ [OSync]) = recs_of meta ops).
    { rewrite recs_of_app. cbn [lrecs_of_op map]. now rewrite app_nil_r. }
    constructor.
    + rewrite El. now apply w_sync_op_inv.
    + exact Hz.
    + cbn [w_sync_op w_meta]. exact Hm0.
    + cbn [w_sync_op w_nrec]. exact Hn0.
    + rewrite <- El in Ht0. apply sync_now; [exact Ht0|exact Hn0].
Qed.

Lemma w_save_seq_mono w st ents : w_seq w <= w_seq (w_save st ents w).
Proof.
  unfold w_save. destruct (hs_is_empty st && _); [lia|]. cbv zeta.
  set (w2 := save_state st (fold_left (fun w e => save_entry e w) ents w)).
  assert (H2 : w_seq w2 = w_seq w).
  { subst w2. rewrite (proj2 (save_state_names _ _)). apply save_entries_names. }
  destruct (pw_flushed (w_pw w2) <? w_segsize w2).
  - destruct (negb _ || _); cbn [w_sync_op w_seq]; lia.
  - rewrite w_cut_seq. lia.
Qed.

Lemma w_step_seq_mono w o : w_seq w <= w_seq (w_step w o).
Proof.
  unfold w_step. destruct o as [st ents|sn|i|].
  - apply (w_save_seq_mono (w_add_nrec w _)).
  - unfold w_save_snapshot. cbn [w_sync_op w_seq].
    destruct (w_enti _ <? sn_index sn); cbn [w_set_enti w_seq]; rewrite (proj2 (w_encode_names _ _ _)); cbn; lia.
  - cbn. lia.
  - cbn. lia.
Qed.

Lemma w_encode_fields ty d w :
  w_seq (w_encode ty d w) = w_seq w /\ w_meta (w_encode ty d w) = w_meta w /\ w_nrec (w_encode ty d w) = w_nrec w /\
  w_sync (w_encode ty d w) = w_sync w /\ w_opt (w_encode ty d w) = w_opt w.
Proof. unfold w_encode, encode_rec, set_tail. cbn. auto. Qed.

Lemma create_stageA w0 meta :
  data_ok meta -> tinv w0 0 [] -> w_seq w0 = 0 -> w_meta w0 = meta -> w_nrec w0 = 1 -> w_sync w0 = None ->
  let wa := w_encode c_metadataType meta (w_encode c_crcType None w0) in
  tinv wa 0 (hd2 meta) /\ w_seq wa = 0 /\ w_meta wa = meta /\ w_nrec wa = 1 /\ w_sync wa = None.
Proof.
  intros Hm H0 Hq0 Hm0 Hn0 Hs0. cbv zeta.
  pose proof (w_encode_inv _ _ _ c_crcType None H0 enc_ok_crc) as H1.
  pose proof (w_encode_inv _ _ _ c_metadataType meta H1 (enc_ok_meta _ Hm)) as H2.
  split; [exact H2|].
  destruct (w_encode_fields c_metadataType meta (w_encode c_crcType None w0)) as (-> & -> & -> & -> & _).
  destruct (w_encode_fields c_crcType None w0) as (-> & -> & -> & -> & _). auto.
Qed.

Lemma create_stageB wa meta sn :
  tinv wa 0 (hd2 meta) -> w_seq wa = 0 -> w_meta wa = meta -> w_nrec wa = 1 -> w_sync wa = None ->
  let w := w_save_snapshot sn wa in
  let recs := hd2 meta ++ [rec_of_lrec (LSnap sn)] in
  tinv w 0 recs /\ w_seq w = 0 /\ w_meta w = meta /\ w_nrec w = 1 /\
  (forall s, w_sync w = Some s -> sy_off s = blen (fst (encode_all 0 recs)) /\ sy_rec s = 1).
Proof.
  intros H2 Hqa Hma Hna Hsa. cbv zeta.
  unfold w_save_snapshot.
  pose proof (w_encode_inv _ _ _ c_snapshotType (Some (snap_marshal sn)) H2 (enc_ok_snap _)) as H3.
  set (w1 := w_encode c_snapshotType (Some (snap_marshal sn)) wa) in *.
  assert (Hf1 : w_seq w1 = 0 /\ w_meta w1 = meta /\ w_nrec w1 = 1 /\ w_sync w1 = None).
  { subst w1. destruct (w_encode_fields c_snapshotType (Some (snap_marshal sn)) wa) as (-> & -> & -> & -> & _). auto. }
  destruct Hf1 as (Hq1 & Hm1 & Hn1 & Hs1). clearbody w1.
  set (w2 := if w_enti w1 <? sn_index sn then w_set_enti w1 (sn_index sn) else w1) in *.
  assert (H4 : tinv w2 0 (hd2 meta ++ [rec_of_lrec (LSnap sn)])).
  { subst w2. destruct (w_enti w1 <? sn_index sn); [now apply w_set_enti_inv|exact H3]. }
  assert (Hf2 : w_seq w2 = 0 /\ w_meta w2 = meta /\ w_nrec w2 = 1 /\ w_sync w2 = None).
  { subst w2. destruct (w_enti w1 <? sn_index sn); cbn [w_set_enti w_seq w_meta w_nrec w_sync]; auto. }
  destruct Hf2 as (Hq2 & Hm2 & Hn2 & Hs2). clearbody w2.
  split; [now apply w_sync_op_inv|]. split; [exact Hq2|]. split; [exact Hm2|]. split; [exact Hn2|].
  intros s Hs. cbn [w_sync_op w_sync] in Hs. destruct (negb (w_opt w2)); [|congruence].
  inversion Hs; subst s. cbn [sy_off sy_rec]. split; [|exact Hn2].
  destruct (pw_flush_total (w_pw w2)) as [Hft Hfb]. unfold pw_total in *.
  rewrite <- (ti_tail _ _ _ H4), <- (ti_pw _ _ _ H4). unfold pw_total. lia.
Qed.

Definition w_blank (opt : bool) (seg : N) (meta : option bytes) : wal :=
  {| w_opt := opt; w_segsize := seg; w_meta := meta; w_state := hs_empty; w_enti := 0; w_crc := 0;
     w_closed := []; w_seq := 0; w_idx := 0; w_tail := [];
     w_pw := {| pw_off := 0; pw_buf := 0; pw_flushed := 0 |};
     w_sync := None; w_nrec := 1; w_tailrec := 0; w_tailsize := seg |}.

Lemma w_create_eq opt seg meta :
  w_create opt seg meta =
  w_save_snapshot {| sn_index := 0; sn_term := 0 |}
    (w_encode c_metadataType meta (w_encode c_crcType None (w_blank opt seg meta))).
Proof. reflexivity. Qed.

Lemma w_blank_tinv opt seg meta : data_ok meta -> tinv (w_blank opt seg meta) 0 [].
Proof.
  intros Hm. constructor; cbn [w_blank w_tail w_crc w_pw w_sync w_seq w_meta w_state]; auto;
    try reflexivity; try discriminate.
  unfold hs_wf. cbn. repeat split; reflexivity.
Qed.

Lemma w_create_sinv opt seg meta : data_ok meta -> sinv (w_create opt seg meta) meta [].
Proof.
  intros Hm. rewrite w_create_eq.
  destruct (create_stageA (w_blank opt seg meta) meta Hm (w_blank_tinv opt seg meta Hm) eq_refl eq_refl eq_refl eq_refl)
    as (Ha & Hqa & Hma & Hna & Hsa).
  destruct (create_stageB _ meta {| sn_index := 0; sn_term := 0 |} Ha Hqa Hma Hna Hsa) as (Ht & Hq & Hme & Hn & Hs).
  constructor; auto.
  intros s Hss. exists 0%nat. destruct (Hs s Hss) as [Ho Hr]. split; [lia|]. split; [exact Ho|exact Hr].
Qed.

(* a history that never left its first segment *)
Theorem w_run_sinv opt seg meta ops :
  data_ok meta -> Forall op_wf ops -> w_seq (w_run opt seg meta ops) = 0 ->
  sinv (w_run opt seg meta ops) meta ops.
Proof.
  intros Hm. induction ops as [|o ops IH] using rev_ind; intros Hops Hz.
  - now apply w_create_sinv.
  - apply Forall_app in Hops as [Hops Ho]. inversion Ho; subst.
    unfold w_run in *. rewrite fold_left_app in *. cbn [fold_left] in *.
    pose proof (w_step_seq_mono (fold_left w_step ops (w_create opt seg meta)) o) as Hmono.
    apply sinv_step; auto. apply IH; auto. lia.
Qed.

(* ---------- the directory of a history that stayed in its first segment ---------- *)
Lemma w_encode_dir ty d w : w_idx (w_encode ty d w) = w_idx w /\ w_closed (w_encode ty d w) = w_closed w /\
                            w_segsize (w_encode ty d w) = w_segsize w.
Proof. unfold w_encode, encode_rec, set_tail. cbn. auto. Qed.

Lemma save_state_dir s w : w_idx (save_state s w) = w_idx w /\ w_segsize (save_state s w) = w_segsize w.
Proof.
  unfold save_state. destruct (hs_is_empty s); [auto|].
  destruct (w_encode_dir c_stateType (Some (hs_marshal s)) (w_set_state w s)) as (-> & _ & ->). auto.
Qed.

Lemma save_entries_dir : forall ents w,
  w_idx (fold_left (fun w e => save_entry e w) ents w) = w_idx w /\
  w_segsize (fold_left (fun w e => save_entry e w) ents w) = w_segsize w.
Proof.
  induction ents as [|e r IH]; intros w; [auto|]. cbn [fold_left].
  destruct (IH (save_entry e w)) as [-> ->]. unfold save_entry. cbn [w_set_enti w_idx w_segsize].
  destruct (w_encode_dir c_entryType (Some (entry_marshal e)) w) as (-> & _ & ->). auto.
Qed.

Lemma w_save_snapshot_dir sn w :
  w_idx (w_save_snapshot sn w) = w_idx w /\ w_segsize (w_save_snapshot sn w) = w_segsize w /\
  w_closed (w_save_snapshot sn w) = w_closed w.
Proof.
  unfold w_save_snapshot. cbn [w_sync_op w_idx w_segsize w_closed].
  destruct (w_enti _ <? sn_index sn); cbn [w_set_enti w_idx w_segsize w_closed];
    destruct (w_encode_dir c_snapshotType (Some (snap_marshal sn)) w) as (-> & -> & ->); auto.
Qed.

Lemma w_step_dir w o :
  w_seq (w_step w o) = w_seq w ->
  w_idx (w_step w o) = w_idx w /\ w_segsize (w_step w o) = w_segsize w /\
  (w_closed w = [] -> w_closed (w_step w o) = []).
Proof.
  unfold w_step. intros Hq. destruct o as [st ents|sn|i|].
  - unfold w_save in *. destruct (hs_is_empty st && _); [cbn; auto|]. cbv zeta in *.
    set (w2 := save_state st (fold_left (fun w e => save_entry e w) ents (w_add_nrec w _))) in *.
    assert (H2 : w_idx w2 = w_idx w /\ w_segsize w2 = w_segsize w /\ w_closed w2 = w_closed w /\ w_seq w2 = w_seq w).
    { subst w2. destruct (save_state_dir st (fold_left (fun w e => save_entry e w) ents (w_add_nrec w (wop_nrec (OSave st ents))))) as [-> ->].
      destruct (save_entries_dir ents (w_add_nrec w (wop_nrec (OSave st ents)))) as [-> ->].
      destruct (save_state_names st (fold_left (fun w e => save_entry e w) ents (w_add_nrec w (wop_nrec (OSave st ents))))) as [-> ->].
      destruct (save_entries_names ents (w_add_nrec w (wop_nrec (OSave st ents)))) as [-> ->]. cbn. auto. }
    destruct H2 as (Hi & Hg & Hc & Hs). clearbody w2.
    destruct (pw_flushed (w_pw w2) <? w_segsize w2).
    + destruct (negb _ || _); cbn [w_sync_op w_idx w_segsize w_closed]; rewrite ?Hi, ?Hg, ?Hc; auto.
    + rewrite w_cut_seq in Hq. lia.
  - destruct (w_save_snapshot_dir sn (w_add_nrec w (wop_nrec (OSnap sn)))) as (-> & -> & ->). cbn. auto.
  - unfold w_release. cbn. split; [auto|]. split; [auto|]. intros ->. now rewrite skipn_nil.
  - cbn. auto.
Qed.

Theorem w_run_dir opt seg meta ops :
  w_seq (w_run opt seg meta ops) = 0 ->
  w_idx (w_run opt seg meta ops) = 0 /\ w_segsize (w_run opt seg meta ops) = seg /\ w_closed (w_run opt seg meta ops) = [].
Proof.
  induction ops as [|o ops IH] using rev_ind; intros Hz.
  - unfold w_run. cbn [fold_left]. rewrite w_create_eq.
    destruct (w_save_snapshot_dir {| sn_index := 0; sn_term := 0 |}
                (w_encode c_metadataType meta (w_encode c_crcType None (w_blank opt seg meta)))) as (-> & -> & ->).
    destruct (w_encode_dir c_metadataType meta (w_encode c_crcType None (w_blank opt seg meta))) as (-> & -> & ->).
    destruct (w_encode_dir c_crcType None (w_blank opt seg meta)) as (-> & -> & ->).
    auto.
  - unfold w_run in *. rewrite fold_left_app in *. cbn [fold_left] in *.
    set (w := fold_left w_step ops (w_create opt seg meta)) in *.
    pose proof (w_step_seq_mono w o) as Hmono.
    assert (Hq : w_seq w = 0) by lia.
    destruct (IH Hq) as (Hi & Hg & Hc).
    destruct (w_step_dir w o ltac:(lia)) as (-> & -> & Hcl). auto.
Qed.

(* ---------- sync points carry the name of the segment they were taken on ---------- *)
Definition sync_name_inv (w : wal) : Prop :=
  forall s, w_sync w = Some s -> sy_seq s <= w_seq w /\ (sy_seq s = w_seq w -> sy_idx s = w_idx w).

Lemma sync_name_same w w' :
  w_sync w' = w_sync w -> w_seq w' = w_seq w -> w_idx w' = w_idx w -> sync_name_inv w -> sync_name_inv w'.
Proof. unfold sync_name_inv. intros -> -> ->. auto. Qed.

Lemma sync_name_sync_op fs w : sync_name_inv w -> sync_name_inv (w_sync_op fs w).
Proof.
  intros H s Hs. cbn [w_sync_op w_sync w_seq w_idx] in *. destruct fs; [|auto].
  inversion Hs; subst s. cbn. split; [lia|auto].
Qed.

Lemma w_encode_sync ty d w : w_sync (w_encode ty d w) = w_sync w.
Proof. apply w_encode_fields. Qed.

Lemma save_state_sync s w : w_sync (save_state s w) = w_sync w.
Proof. unfold save_state. destruct (hs_is_empty s); [reflexivity|]. now rewrite w_encode_sync. Qed.

Lemma save_entries_sync : forall ents w, w_sync (fold_left (fun w e => save_entry e w) ents w) = w_sync w.
Proof.
  induction ents as [|e r IH]; intros w; [reflexivity|]. cbn [fold_left]. rewrite IH.
  unfold save_entry. cbn [w_set_enti w_sync]. apply w_encode_sync.
Qed.

Lemma sync_name_cut w : sync_name_inv w -> sync_name_inv (w_cut w).
Proof.
  intros H. unfold w_cut.
  pose proof (sync_name_sync_op (negb (w_opt w)) w H) as H1.
  set (w1 := w_sync_op (negb (w_opt w)) w) in *. clearbody w1.
  set (w2 := {| w_opt := w_opt w1; w_segsize := w_segsize w1; w_meta := w_meta w1; w_state := w_state w1;
               w_enti := w_enti w1; w_crc := w_crc w1;
               w_closed := w_closed w1 ++ [{| sg_seq := w_seq w1; sg_idx := w_idx w1; sg_bytes := w_tail w1; sg_rec := w_tailrec w1 |}];
               w_seq := w_seq w1 + 1; w_idx := w_enti w1 + 1; w_tail := [];
               w_pw := {| pw_off := 0; pw_buf := 0; pw_flushed := 0 |};
               w_sync := w_sync w1; w_nrec := w_nrec w1; w_tailrec := w_nrec w1; w_tailsize := w_segsize w1 |}).
  assert (H2 : sync_name_inv w2).
  { intros s Hs. cbn [w2 w_sync w_seq w_idx] in *. destruct (H1 s Hs) as [Hle _]. split; lia. }
  clearbody w2.
  set (w3 := w_encode c_crcType None w2).
  assert (H3 : sync_name_inv w3).
  { subst w3. eapply sync_name_same; [apply w_encode_sync|apply w_encode_names|apply w_encode_dir|exact H2]. }
  clearbody w3.
  set (w4 := w_encode c_metadataType (w_meta w3) w3).
  assert (H4 : sync_name_inv w4).
  { subst w4. eapply sync_name_same; [apply w_encode_sync|apply w_encode_names|apply w_encode_dir|exact H3]. }
  clearbody w4.
  set (w5 := save_state (w_state w4) w4).
  assert (H5 : sync_name_inv w5).
  { subst w5. eapply sync_name_same; [apply save_state_sync|apply save_state_names|apply save_state_dir|exact H4]. }
  clearbody w5.
  pose proof (sync_name_sync_op (negb (w_opt w5)) w5 H5) as H6.
  set (w6 := w_sync_op (negb (w_opt w5)) w5) in *. clearbody w6.
  eapply sync_name_same; [| | |exact H6]; reflexivity.
Qed.

Lemma sync_name_save_snapshot sn w : sync_name_inv w -> sync_name_inv (w_save_snapshot sn w).
Proof.
  intros H0. unfold w_save_snapshot. apply sync_name_sync_op.
  destruct (w_enti _ <? sn_index sn).
  - eapply sync_name_same; [| | |exact H0]; cbn [w_set_enti w_sync w_seq w_idx];
      [apply w_encode_sync|apply w_encode_names|apply w_encode_dir].
  - eapply sync_name_same; [apply w_encode_sync|apply w_encode_names|apply w_encode_dir|exact H0].
Qed.

Lemma sync_name_encode ty d w : sync_name_inv w -> sync_name_inv (w_encode ty d w).
Proof. intros H. eapply sync_name_same; [apply w_encode_sync|apply w_encode_names|apply w_encode_dir|exact H]. Qed.

Lemma sync_name_step w o : sync_name_inv w -> sync_name_inv (w_step w o).
Proof.
  intros H. unfold w_step.
  assert (H0 : sync_name_inv (w_add_nrec w (wop_nrec o))) by (eapply sync_name_same; [| | |exact H]; reflexivity).
  set (w0 := w_add_nrec w (wop_nrec o)) in *. clearbody w0.
  destruct o as [st ents|sn|i|].
  - unfold w_save. destruct (hs_is_empty st && _); [exact H0|]. cbv zeta.
    set (w2 := save_state st (fold_left (fun w e => save_entry e w) ents w0)).
    assert (H2 : sync_name_inv w2).
    { subst w2. eapply sync_name_same; [| | |exact H0].
      - rewrite save_state_sync. apply save_entries_sync.
      - rewrite (proj2 (save_state_names _ _)). apply save_entries_names.
      - rewrite (proj1 (save_state_dir _ _)). apply save_entries_dir. }
    clearbody w2.
    destruct (pw_flushed (w_pw w2) <? w_segsize w2).
    + destruct (negb _ || _); [now apply sync_name_sync_op|exact H2].
    + now apply sync_name_cut.
  - now apply sync_name_save_snapshot.
  - eapply sync_name_same; [| | |exact H0]; reflexivity.
  - now apply sync_name_sync_op.
Qed.

Theorem w_run_sync_name opt seg meta ops : sync_name_inv (w_run opt seg meta ops).
Proof.
  unfold w_run.
  assert (H0 : sync_name_inv (w_create opt seg meta)).
  { rewrite w_create_eq. apply sync_name_save_snapshot, sync_name_encode, sync_name_encode.
    intros s Hs. discriminate. }
  revert H0. generalize (w_create opt seg meta).
  induction ops as [|o r IH]; intros w Hw; [exact Hw|]. cbn [fold_left]. apply IH. now apply sync_name_step.
Qed.

(* ---------- the tail file keeps its allocated length while no cut happens ---------- *)
Lemma w_encode_ts ty d w : w_tailsize (w_encode ty d w) = w_tailsize w.
Proof. unfold w_encode, encode_rec, set_tail. reflexivity. Qed.
Lemma save_state_ts s w : w_tailsize (save_state s w) = w_tailsize w.
Proof. unfold save_state. destruct (hs_is_empty s); [reflexivity|]. now rewrite w_encode_ts. Qed.
Lemma save_entries_ts : forall ents w, w_tailsize (fold_left (fun w e => save_entry e w) ents w) = w_tailsize w.
Proof.
  induction ents as [|e r IH]; intros w; [reflexivity|]. cbn [fold_left]. rewrite IH.
  unfold save_entry. cbn [w_set_enti w_tailsize]. apply w_encode_ts.
Qed.
Lemma w_save_snapshot_ts sn w : w_tailsize (w_save_snapshot sn w) = w_tailsize w.
Proof.
  unfold w_save_snapshot. cbn [w_sync_op w_tailsize].
  destruct (w_enti _ <? sn_index sn); cbn [w_set_enti w_tailsize]; apply w_encode_ts.
Qed.

Lemma w_step_ts w o : w_seq (w_step w o) = w_seq w -> w_tailsize (w_step w o) = w_tailsize w.
Proof.
  unfold w_step. intros Hq. destruct o as [st ents|sn|i|].
  - unfold w_save in *. destruct (hs_is_empty st && _); [reflexivity|]. cbv zeta in *.
    set (w2 := save_state st (fold_left (fun w e => save_entry e w) ents (w_add_nrec w _))) in *.
    assert (H2 : w_tailsize w2 = w_tailsize w /\ w_seq w2 = w_seq w).
    { subst w2. rewrite save_state_ts, save_entries_ts. split; [reflexivity|].
      rewrite (proj2 (save_state_names _ _)). rewrite (proj2 (save_entries_names _ _)). reflexivity. }
    destruct H2 as [Ht Hs]. clearbody w2.
    destruct (pw_flushed (w_pw w2) <? w_segsize w2).
    + destruct (negb _ || _); cbn [w_sync_op w_tailsize]; exact Ht.
    + rewrite w_cut_seq in Hq. lia.
  - now rewrite w_save_snapshot_ts.
  - reflexivity.
  - reflexivity.
Qed.

Theorem w_run_ts opt seg meta ops :
  w_seq (w_run opt seg meta ops) = 0 -> w_tailsize (w_run opt seg meta ops) = seg.
Proof.
  induction ops as [|o ops IH] using rev_ind; intros Hz.
  - unfold w_run. cbn [fold_left]. rewrite w_create_eq, w_save_snapshot_ts, !w_encode_ts. reflexivity.
  - unfold w_run in *. rewrite fold_left_app in *. cbn [fold_left] in *.
    set (w := fold_left w_step ops (w_create opt seg meta)) in *.
    pose proof (w_step_seq_mono w o) as Hmono.
    rewrite w_step_ts by lia. apply IH. lia.
Qed.
