(* Wal/ProofsMulti1.v — several segments: the crash damages only the tail segment behind its sync point. *)
From ZV Require Import Common.Bytes Wal.Consts Wal.Crc Wal.Proto Wal.Model Wal.Spec
  Wal.ProofsCrc Wal.ProofsProto Wal.ProofsFrame Wal.ProofsDecode Wal.ProofsTorn Wal.ProofsPrefix Wal.ProofsRepair
  Wal.ProofsLog Wal.ProofsWriter Wal.ProofsNames Wal.ProofsSegs Wal.ProofsReadAll Wal.ProofsEffect
  Wal.ProofsHistory Wal.ProofsAppend Wal.ProofsCapstone.
From Coq Require Import ZifyN ZifyNat ZifyBool Lia.
Open Scope N_scope.

(* an image of one segment: the encoder's stream (from crc c0) for recs1, then bytes that make the decoder
   stop with verdict v without returning anything *)
Definition tail_decodes (c0 : N) (img : bytes) (recs1 : list (N * option bytes)) (v : option werr) : Prop :=
  exists junk, img = fst (encode_all c0 recs1) ++ junk /\
    forall f, decode_all_loop (S f)
                {| d_brs := [junk]; d_off := blen (fst (encode_all c0 recs1)); d_crc := snd (encode_all c0 recs1) |} []
              = ([], v, blen (fst (encode_all c0 recs1))).

Theorem trunc_image_tail c0 recs z c :
  c0 < 2 ^ 32 -> Forall enc_ok recs -> (z = 0 \/ 8 <= z) ->
  let stream := fst (encode_all c0 recs) in
  let file := stream ++ zeros z in
  c <= blen file ->
  (forall recs1 x recs2 j, recs = recs1 ++ x :: recs2 -> c = blen (fst (encode_all c0 recs1)) + j ->
     8 <= j < blen (frame_of (snd (encode_all c0 recs1)) x) ->
     no_crc_collision_cut (snd (encode_all c0 recs1)) x j) ->
  exists recs1 recs2 v,
    recs = recs1 ++ recs2 /\
    tail_decodes c0 (img_trunc c file) recs1 v /\
    (recs2 = [] \/ c < blen (fst (encode_all c0 (recs1 ++ firstn 1 recs2)))) /\
    verdict_ok v.
Proof.
  intros Hc0 Hok Hz stream file Hc Hnc.
  assert (Hfile : blen file = blen stream + z) by (unfold file; rewrite blen_app, zeros_len; reflexivity).
  unfold img_trunc.
  destruct (N.leb_spec (blen stream) c) as [Hge|Hlt].
  - (* the cut is beyond everything written: the image is the file *)
    assert (E : btake c file ++ zeros (blen file - c) = stream ++ zeros z).
    { unfold file at 1. replace c with (blen stream + (c - blen stream)) at 1 by lia.
      rewrite btake_app_more, btake_zeros, <- app_assoc, zeros_app. do 2 f_equal. lia. }
    rewrite E.
    exists recs, [], None. rewrite app_nil_r. split; [reflexivity|].
    split; [|split; [left; reflexivity|left; reflexivity]].
    eexists. split; [reflexivity|]. intros f. apply loop_end_zeros. exact Hz.
  - destruct (stream_split recs c0 c Hlt) as (r1 & x & r2 & Erecs & HS1 & HS2).
    set (S1 := blen (fst (encode_all c0 r1))) in *.
    set (crc1 := snd (encode_all c0 r1)) in *.
    assert (Hok1 : Forall enc_ok r1) by (rewrite Erecs in Hok; apply Forall_app in Hok; tauto).
    assert (Hokx : enc_ok x).
    { rewrite Erecs in Hok. apply Forall_app in Hok as [_ H]. now inversion H. }
    assert (Hok2 : Forall enc_ok r2).
    { rewrite Erecs in Hok. apply Forall_app in Hok as [_ H]. now inversion H. }
    assert (Hcrc1 : crc1 < 2 ^ 32) by (apply encode_all_crc_lt; [exact Hc0|exact Hok1]).
    set (F := frame_of crc1 x) in *.
    set (crc2 := crc_update crc1 (data_or_nil (snd x))).
    set (E2 := fst (encode_all crc2 r2)).
    assert (Hstream : stream = fst (encode_all c0 r1) ++ F ++ E2).
    { unfold stream. rewrite Erecs, encode_all_app. cbn [fst]. f_equal.
      destruct x as [ty d]. rewrite encode_all_cons. reflexivity. }
    set (j := c - S1).
    assert (Hj : j < blen F) by lia.
    set (M := blen file - c).
    assert (HM : M = blen F - j + blen E2 + z).
    { unfold M. rewrite Hfile, Hstream, !blen_app. fold S1. lia. }
    assert (Himg : btake c file ++ zeros M = fst (encode_all c0 r1) ++ (btake j F ++ zeros M)).
    { unfold file. rewrite Hstream, <- !app_assoc.
      replace c with (blen (fst (encode_all c0 r1)) + j) at 1 by (fold S1; lia).
      rewrite btake_app_more, <- app_assoc. f_equal. f_equal. apply btake_app_le. lia. }
    fold M. rewrite Himg.
    pose proof (payload_len_ok crc1 x Hcrc1 Hokx) as Hplen.
    set (p := payload_of crc1 x) in *. set (n := blen p) in *.
    pose proof (frame_pad_lt n) as Hpad.
    set (full := p ++ zeros (frame_pad n)).
    assert (Hfull : blen full = n + frame_pad n) by (unfold full; rewrite blen_app, zeros_len; reflexivity).
    assert (HF : F = le64 (frame_len_field n) ++ full).
    { unfold F, frame_of, frame. fold p n. reflexivity. }
    assert (HFlen : blen F = 8 + n + frame_pad n) by (unfold F, frame_of; rewrite frame_blen; reflexivity).
    assert (Hnext : c < blen (fst (encode_all c0 (r1 ++ firstn 1 (x :: r2))))).
    { cbn [firstn]. rewrite blen_encode_app. fold S1 crc1.
      rewrite (proj1 (encode_all_single crc1 x)). fold F. lia. }
    destruct (N.eq_dec j 0) as [Hj0|Hj0].
    + (* the cut is at the frame boundary *)
      exists r1, (x :: r2), None. split; [exact Erecs|].
      split; [|split; [right; exact Hnext|left; reflexivity]].
      rewrite Hj0. replace (btake 0 F) with (@nil N) by (destruct F; reflexivity). cbn [app].
      eexists. split; [reflexivity|]. intros f. apply loop_end_zeros. right. lia.
    + destruct (N.ltb_spec j 8) as [Hj8|Hj8].
      * (* inside the length field: unconditional *)
        assert (Hbt : btake j F = btake j (le64 (frame_len_field n))).
        { rewrite HF. apply btake_app_le. rewrite le64_blen. lia. }
        rewrite Hbt.
        destruct (loop_partial_len n j M S1 crc1 ltac:(lia) ltac:(lia) ltac:(lia)) as (v & Hv & Hl).
        exists r1, (x :: r2), v. split; [exact Erecs|]. split; [|split; [right; exact Hnext|]].
        -- eexists. split; [reflexivity|]. exact Hl.
        -- destruct Hv as [->| ->]; unfold verdict_ok; auto.
      * (* inside the frame body *)
        assert (Hbt : btake j F = le64 (frame_len_field n) ++ btake (j - 8) full).
        { rewrite HF. replace j with (blen (le64 (frame_len_field n)) + (j - 8)) at 1 by (rewrite le64_blen; lia).
          apply btake_app_more. }
        set (M' := blen E2 + z).
        assert (Hz2 : zeros M = zeros (blen full - (j - 8)) ++ zeros M').
        { rewrite zeros_app. f_equal. unfold M'. lia. }
        assert (Htb : torn_body crc1 x j = btake (j - 8) full ++ zeros (blen full - (j - 8))) by reflexivity.
        assert (Hjunk : btake j F ++ zeros M = le64 (frame_len_field n) ++ torn_body crc1 x j ++ zeros M').
        { rewrite Hbt, Hz2, Htb, <- !app_assoc. reflexivity. }
        rewrite Hjunk.
        assert (Htblen : blen (torn_body crc1 x j) = n + frame_pad n).
        { rewrite Htb, blen_app, zeros_len. unfold blen at 1. rewrite btake_length.
          rewrite Hfull. assert (N.of_nat (length full) = n + frame_pad n) by exact Hfull. lia. }
        specialize (Hnc r1 x r2 j Erecs ltac:(fold S1; lia) ltac:(fold crc1 F; lia)). fold crc1 in Hnc.
        destruct Hnc as [Hsame|Hrej].
        -- (* only zero bytes were lost: the record is intact *)
           fold p n full in Hsame. rewrite Hsame. rewrite (app_assoc (le64 (frame_len_field n)) full). rewrite <- HF.
           assert (HM' : M' = 0 \/ 8 <= M').
           { unfold M'. destruct r2 as [|y r2'].
             - unfold E2. cbn [encode_all fst]. rewrite blen_nil. lia.
             - right. pose proof (blen_encode_ge8 (y :: r2') crc2 ltac:(discriminate)). fold E2 in H. lia. }
           exists (r1 ++ [x]), r2, None.
           split; [rewrite <- app_assoc; exact Erecs|].
           assert (Henc : fst (encode_all c0 (r1 ++ [x])) = fst (encode_all c0 r1) ++ F).
           { rewrite encode_all_app. cbn [fst]. fold crc1. now rewrite (proj1 (encode_all_single crc1 x)). }
           split; [|split; [|left; reflexivity]].
           ++ rewrite app_assoc, <- Henc. eexists. split; [reflexivity|].
              intros f. apply loop_end_zeros. exact HM'.
           ++ destruct r2 as [|y r2']; [left; reflexivity|right].
              cbn [firstn]. rewrite blen_encode_app, Henc, blen_app. fold S1. lia.
        -- fold p n in Hrej.
           destruct (loop_not_accepted n (torn_body crc1 x j) (zeros M') S1 crc1 ltac:(lia) Htblen Hrej) as (e & He & Hl).
           exists r1, (x :: r2), (Some e). split; [exact Erecs|]. split; [|split; [right; exact Hnext|]].
           ++ eexists. split; [reflexivity|]. exact Hl.
           ++ unfold verdict_ok. destruct He as [->|[->| ->]]; auto.
Qed.

(* ---------- decoding a directory whose tail is damaged ---------- *)
Fixpoint chain_crc (c : N) (segs : list (list (N * option bytes))) : N :=
  match segs with
  | [] => c
  | recs :: r => chain_crc (snd (encode_all c recs)) r
  end.

Lemma chain_crc_lt : forall segs c, c < 2 ^ 32 -> segs_ok segs -> chain_crc c segs < 2 ^ 32.
Proof.
  induction segs as [|recs r IH]; intros c Hc Hok; [exact Hc|].
  inversion Hok as [|? ? [H1 _] H2]; subst. cbn [chain_crc]. apply IH; [|exact H2]. now apply encode_all_crc_lt.
Qed.

Lemma decode_multi_loop : forall pre c0 off fuel acc img recs1 v,
  c0 < 2 ^ 32 -> segs_ok pre -> Forall enc_ok recs1 ->
  tail_decodes (chain_crc c0 pre) img recs1 v ->
  decode_all_loop (nrecs pre + (length recs1 + S fuel))
    {| d_brs := [] :: encode_segs c0 pre ++ [img]; d_off := off; d_crc := c0 |} acc =
  (rev acc ++ stored_segs c0 pre ++ stored (chain_crc c0 pre) recs1, v,
   blen (fst (encode_all (chain_crc c0 pre) recs1))).
Proof.
  induction pre as [|recs pre IH]; intros c0 off fuel acc img recs1 v Hc Hok Hok1 (junk & -> & Hj).
  - cbn [nrecs Nat.add encode_segs app stored_segs chain_crc] in *.
    replace (length recs1 + S fuel)%nat with (S (length recs1 + fuel)) by lia.
    rewrite decode_all_loop_skip_empty.
    replace (S (length recs1 + fuel)) with (length recs1 + S fuel)%nat by lia.
    rewrite decode_all_stream by assumption. rewrite N.add_0_l.
    rewrite decode_all_loop_acc, Hj. rewrite app_nil_r, rev_app_distr, rev_involutive. reflexivity.
  - inversion Hok as [|? ? [Hr Hrne] Hoks]; subst.
    assert (Hc' : snd (encode_all c0 recs) < 2 ^ 32) by now apply encode_all_crc_lt.
    cbn [nrecs encode_segs stored_segs chain_crc app].
    replace (length recs + nrecs pre + (length recs1 + S fuel))%nat
      with (S (length recs + (nrecs pre + (length recs1 + fuel)))) by lia.
    rewrite decode_all_loop_skip_empty.
    replace (S (length recs + (nrecs pre + (length recs1 + fuel))))
      with (length recs + (nrecs pre + (length recs1 + S fuel)))%nat by lia.
    rewrite <- (app_nil_r (fst (encode_all c0 recs))).
    rewrite decode_all_stream by assumption.
    rewrite (IH _ _ _ _ _ recs1 v Hc' Hoks Hok1) by (exists junk; auto).
    rewrite rev_app_distr, rev_involutive, <- !app_assoc. reflexivity.
Qed.

Lemma scan_fuel_ge segs : (total_len segs / 8 < scan_fuel segs)%nat.
Proof. unfold scan_fuel. apply Nat.lt_succ_r, Nat.le_add_r. Qed.

Theorem decode_multi pre img recs1 v :
  segs_ok pre -> Forall enc_ok recs1 -> tail_decodes (chain_crc 0 pre) img recs1 v ->
  decode_all (encode_segs 0 pre ++ [img]) =
  (stored_segs 0 pre ++ stored (chain_crc 0 pre) recs1, v, blen (fst (encode_all (chain_crc 0 pre) recs1))).
Proof.
  intros Hok Hok1 Ht. unfold decode_all, new_decoder.
  set (files := encode_segs 0 pre ++ [img]).
  assert (Hf : exists b r, files = b :: r).
  { subst files. destruct (encode_segs 0 pre); cbn; eauto. }
  destruct Hf as (b & r & Hf).
  pose proof (decode_multi_loop pre 0 0 (scan_fuel files) [] img recs1 v ltac:(reflexivity) Hok Hok1 Ht) as H.
  fold files in H. rewrite Hf in H.
  replace (nrecs pre + (length recs1 + S (scan_fuel (b :: r))))%nat
    with (S (nrecs pre + (length recs1 + scan_fuel (b :: r)))) in H by lia.
  rewrite decode_all_loop_skip_empty in H. cbn [rev app] in H. rewrite <- H. rewrite Hf.
  apply decode_all_loop_fuel; cbn [d_brs].
  - apply scan_fuel_ge.
  - pose proof (scan_fuel_ge (b :: r)).
    match goal with |- (?a < S (?x + (?y + ?z)))%nat => assert (a < z)%nat by assumption end. 
    apply Nat.lt_succ_r. apply Nat.lt_le_incl. eapply Nat.lt_le_trans; [eassumption|].
    rewrite Nat.add_assoc. apply Nat.le_add_l.
Qed.

(* ---------- everything a cut does ---------- *)
Lemma w_cut_head_crc w c0 recs :
  tinv w c0 recs -> tinv (w_cut w) (w_crc w) (hdr (w_meta w) (w_state w)).
Proof.
  intros H. unfold w_cut.
  pose proof (w_sync_op_inv w c0 recs (negb (w_opt w)) H) as H1.
  set (w1 := w_sync_op (negb (w_opt w)) w) in *.
  assert (Hms1 : w_meta w1 = w_meta w /\ w_state w1 = w_state w) by (split; reflexivity).
  assert (Hcrc1 : w_crc w1 = w_crc w) by reflexivity.
  clearbody w1.
  destruct H1 as [Hc0 Hok Ht Hc Hpw Hs Hm Hme Hst Hf].
  set (w2 := {| w_opt := w_opt w1; w_segsize := w_segsize w1; w_meta := w_meta w1; w_state := w_state w1;
               w_enti := w_enti w1; w_crc := w_crc w1;
               w_closed := w_closed w1 ++ [{| sg_seq := w_seq w1; sg_idx := w_idx w1; sg_bytes := w_tail w1; sg_rec := w_tailrec w1 |}];
               w_seq := w_seq w1 + 1; w_idx := w_enti w1 + 1; w_tail := [];
               w_pw := {| pw_off := 0; pw_buf := 0; pw_flushed := 0 |};
               w_sync := w_sync w1; w_nrec := w_nrec w1; w_tailrec := w_nrec w1; w_tailsize := w_segsize w1 |}).
  assert (H2 : tinv w2 (w_crc w1) []).
  { constructor; cbn [w2 w_tail w_crc w_pw w_sync w_seq w_meta w_state]; auto.
    - rewrite Hc. now apply encode_all_crc_lt.
    - intros s Hss Hseq. specialize (Hm s Hss). lia.
    - intros s Hss. specialize (Hm s Hss). lia.
    - lia. }
  assert (Hms2 : w_meta w2 = w_meta w /\ w_state w2 = w_state w) by exact Hms1.
  clearbody w2.
  pose proof (w_encode_inv _ _ _ c_crcType None H2 enc_ok_crc) as H3.
  set (w3 := w_encode c_crcType None w2) in *.
  assert (Hm3 : w_meta w3 = w_meta w /\ w_state w3 = w_state w).
  { subst w3. destruct (w_encode_meta c_crcType None w2) as [-> ->]. exact Hms2. }
  clearbody w3.
  pose proof (w_encode_inv _ _ _ c_metadataType (w_meta w3) H3 (enc_ok_meta _ (ti_meta _ _ _ H3))) as H4.
  set (w4 := w_encode c_metadataType (w_meta w3) w3) in *.
  assert (Hm4 : w_meta w4 = w_meta w /\ w_state w4 = w_state w).
  { subst w4. destruct (w_encode_meta c_metadataType (w_meta w3) w3) as [-> ->]. exact Hm3. }
  clearbody w4.
  pose proof (save_state_inv' _ _ _ (w_state w4) H4 (ti_state _ _ _ H4)) as H5.
  set (w5 := save_state (w_state w4) w4) in *.
  assert (Hm5 : w_meta w5 = w_meta w).
  { subst w5. unfold save_state. destruct (hs_is_empty (w_state w4)); [apply Hm4|].
    destruct (w_encode_meta c_stateType (Some (hs_marshal (w_state w4))) (w_set_state w4 (w_state w4))) as [-> _].
    cbn [w_set_state w_meta]. apply Hm4. }
  clearbody w5.
  pose proof (w_sync_op_inv _ _ _ (negb (w_opt w5)) H5) as H6.
  set (w6 := w_sync_op (negb (w_opt w5)) w5) in *.
  assert (Hb0 : pw_buf (w_pw w6) = 0) by (subst w6; cbn [w_sync_op w_pw]; apply pw_flush_total).
  assert (Hmeta6 : w_meta w6 = w_meta w) by (subst w6; exact Hm5).
  clearbody w6.
  rewrite <- Hcrc1.
  destruct Hm3 as [Hm3 _]. destruct Hm4 as [_ Hs4].
  assert (E : hdr (w_meta w) (w_state w) = (c_crcType, None) :: (c_metadataType, w_meta w3) :: state_rec (w_state w4)).
  { rewrite Hm3, Hs4. reflexivity. }
  rewrite E. cbn [app] in H6.
  destruct H6 as [Gc0 Gok Gt Gc Gpw Gs Gm Gme Gst Gf].
  constructor; cbn [set_tail w_tail w_crc w_pw w_sync w_seq w_meta w_state]; auto;
    try (unfold pw_total in *; cbn [pw_flushed pw_buf]; lia).
Qed.

