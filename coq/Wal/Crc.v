(* Wal/Crc.v — CRC-32C (Castagnoli, reflected) as hash/crc32 computes it and as pkg/crc chains it.
   Hand-written model of:
     hash/crc32  MakeTable(Castagnoli), Update                   [Go standard library, re-implemented]
     pkg/crc/crc.go  digest{crc,tab}: New(prev,tab), Write, Sum32 (the running value IS the state)
   Two versions: a bit-at-a-time specification and a table-driven one (the one extraction runs);
   they are proved equal in ProofsCrc.v. No proofs in this file. *)
From ZV Require Export Common.Bytes.
Open Scope N_scope.

Definition mask32 : N := 4294967295.
Definition crc_poly : N := 2197175160. (* 0x82F63B78: Castagnoli polynomial, bit-reflected *)

(* one LFSR step, least significant bit first *)
Definition crc_bit_step (c : N) : N :=
  if N.odd c then N.lxor (N.shiftr c 1) crc_poly else N.shiftr c 1.

Definition crc_steps8 (x : N) : N :=
  crc_bit_step (crc_bit_step (crc_bit_step (crc_bit_step
  (crc_bit_step (crc_bit_step (crc_bit_step (crc_bit_step x))))))).

(* ---- specification: bit at a time ---- *)
Definition crc_byte_spec (c b : N) : N := crc_steps8 (N.lxor c b).
Definition crc_raw_spec (c : N) (bs : bytes) : N := fold_left crc_byte_spec bs c.
(* crc32.Update(crc, tab, p) = ^update(^crc, p) *)
Definition crc_update_spec (crc : N) (bs : bytes) : N :=
  N.lxor (crc_raw_spec (N.lxor crc mask32) bs) mask32.

(* ---- table driven: tab[byte(crc)^v] ^ (crc>>8) ---- *)
Inductive ctree := CLeaf (v : N) | CNode (l r : ctree).

(* the subtree for the indices whose low [bit] bits are [acc]; level k splits on bit k *)
Fixpoint ctree_build (depth : nat) (bit : N) (acc : N) : ctree :=
  match depth with
  | O => CLeaf (crc_steps8 acc)
  | S d => CNode (ctree_build d (bit + 1) acc) (ctree_build d (bit + 1) (acc + N.shiftl 1 bit))
  end.

Fixpoint ctree_get (t : ctree) (i : N) : N :=
  match t with
  | CLeaf v => v
  | CNode l r => if N.odd i then ctree_get r (N.div2 i) else ctree_get l (N.div2 i)
  end.

Definition crc_table : ctree := Eval vm_compute in ctree_build 8 0 0.

Definition crc_byte_tab (c b : N) : N :=
  let x := N.lxor c b in N.lxor (ctree_get crc_table x) (N.shiftr x 8).
Definition crc_raw_tab (c : N) (bs : bytes) : N := fold_left crc_byte_tab bs c.
Definition crc_update (crc : N) (bs : bytes) : N :=
  N.lxor (crc_raw_tab (N.lxor crc mask32) bs) mask32.

(* crc32.Checksum(p, castagnoli) *)
Definition crc32c (bs : bytes) : N := crc_update 0 bs.
