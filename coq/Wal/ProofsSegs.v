(* Wal/ProofsSegs.v — (a) across segments: the decoder walks a directory of segment files, the crc chained
   from each segment into the next, and returns every record of every segment. *)
From ZV Require Import Common.Bytes Wal.Consts Wal.Crc Wal.Proto Wal.Model Wal.Spec
  Wal.ProofsCrc Wal.ProofsProto Wal.ProofsFrame Wal.ProofsDecode Wal.ProofsTorn Wal.ProofsPrefix.
From Coq Require Import ZifyN ZifyNat ZifyBool Lia.
Open Scope N_scope.

(* an exhausted reader in front: the decoder moves on and resets lastValidOff *)
Lemma decode_skip_empty b2 others off crc :
  decode {| d_brs := [] :: b2 :: others; d_off := off; d_crc := crc |} =
  decode {| d_brs := b2 :: others; d_off := 0; d_crc := crc |}.
Proof. reflexivity. Qed.

Lemma decode_all_loop_skip_empty f b2 others off crc acc :
  decode_all_loop (S f) {| d_brs := [] :: b2 :: others; d_off := off; d_crc := crc |} acc =
  decode_all_loop (S f) {| d_brs := b2 :: others; d_off := 0; d_crc := crc |} acc.
Proof. cbn [decode_all_loop]. now rewrite decode_skip_empty. Qed.

Definition segs_ok (segs : list (list (N * option bytes))) : Prop :=
  Forall (fun recs => Forall enc_ok recs /\ recs <> []) segs.

Fixpoint nrecs (segs : list (list (N * option bytes))) : nat :=
  match segs with [] => 0%nat | recs :: r => (length recs + nrecs r)%nat end.

Definition last_len (crc : N) (segs : list (list (N * option bytes))) : N :=
  blen (last (encode_segs crc segs) []).

Lemma app_last_cons x y r t : app_last (x :: y :: r) t = x :: app_last (y :: r) t.
Proof. reflexivity. Qed.
Lemma app_last_cons' x l t : l <> [] -> app_last (x :: l) t = x :: app_last l t.
Proof. destruct l; [contradiction|reflexivity]. Qed.

(* all segments, the last one followed by z preallocated zero bytes *)
Lemma decode_all_segs_loop : forall segs crc off fuel acc z,
  crc < 2 ^ 32 -> segs_ok segs -> segs <> [] -> (z = 0 \/ 8 <= z) ->
  decode_all_loop (nrecs segs + S fuel)
    {| d_brs := [] :: app_last (encode_segs crc segs) (zeros z); d_off := off; d_crc := crc |} acc =
  (rev acc ++ stored_segs crc segs, None, last_len crc segs).
Proof.
  induction segs as [|recs segs IH]; intros crc off fuel acc z Hc Hok Hne Hz; [contradiction|].
  inversion Hok as [|? ? [Hr Hrne] Hoks]; subst.
  assert (Hc' : snd (encode_all crc recs) < 2 ^ 32) by now apply encode_all_crc_lt.
  cbn [encode_segs stored_segs nrecs].
  destruct segs as [|recs2 segs].
  - (* the tail *)
    cbn [encode_segs app_last stored_segs nrecs]. rewrite Nat.add_0_r.
    replace (length recs + S fuel)%nat with (S (length recs + fuel)) by lia.
    rewrite decode_all_loop_skip_empty.
    replace (S (length recs + fuel)) with (length recs + S fuel)%nat by lia. rewrite decode_all_stream by assumption.
    rewrite N.add_0_l, app_nil_r.
    rewrite <- (app_nil_r (zeros z)). 
    destruct Hz as [->|Hz].
    + cbn [zeros N.to_nat repeat app]. cbn [decode_all_loop]. unfold decode. cbn [d_brs length].
      rewrite decode_end_nil. rewrite rev_app_distr, rev_involutive. reflexivity.
    + rewrite decode_all_loop_end_zeros by exact Hz. rewrite rev_app_distr, rev_involutive. reflexivity.
  - rewrite app_last_cons' by (cbn [encode_segs]; discriminate).
    replace (length recs + nrecs (recs2 :: segs) + S fuel)%nat
      with (S (length recs + nrecs (recs2 :: segs) + fuel)) by lia.
    rewrite decode_all_loop_skip_empty.
    replace (S (length recs + nrecs (recs2 :: segs) + fuel))
      with (length recs + (nrecs (recs2 :: segs) + S fuel))%nat by lia.
    rewrite <- (app_nil_r (fst (encode_all crc recs))).
    rewrite decode_all_stream by assumption.
    rewrite IH; auto; [|discriminate].
    rewrite rev_app_distr, rev_involutive, <- app_assoc. reflexivity.
Qed.

(* (a) for a whole directory *)
Theorem decode_all_segments segs z :
  segs_ok segs -> segs <> [] -> (z = 0 \/ 8 <= z) ->
  decode_all (app_last (encode_segs 0 segs) (zeros z)) = (stored_segs 0 segs, None, last_len 0 segs).
Proof.
  intros Hok Hne Hz. unfold decode_all, new_decoder.
  set (files := app_last (encode_segs 0 segs) (zeros z)).
  assert (Hfne : exists b r, files = b :: r).
  { subst files. destruct segs as [|s1 [|s2 r]]; [contradiction| |]; cbn; eauto. }
  destruct Hfne as (b & r & Hf).
  pose proof (decode_all_segs_loop segs 0 0 (scan_fuel files) [] z ltac:(reflexivity) Hok Hne Hz) as H.
  fold files in H. rewrite Hf in H.
  replace (nrecs segs + S (scan_fuel (b :: r)))%nat with (S (nrecs segs + scan_fuel (b :: r))) in H by lia.
  rewrite decode_all_loop_skip_empty in H.
  cbn [rev app] in H. rewrite <- H. rewrite Hf.
  apply decode_all_loop_fuel; cbn [d_brs]; unfold scan_fuel.
  - apply Nat.lt_succ_r, Nat.le_add_r.
  - apply Nat.lt_succ_r. rewrite Nat.add_succ_r. apply Nat.le_le_succ_r.
    rewrite Nat.add_assoc, (Nat.add_comm (nrecs segs)), <- Nat.add_assoc. apply Nat.le_add_r.
Qed.
