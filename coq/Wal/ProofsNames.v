(* Wal/ProofsNames.v — segment files: names, Open's selection, what the head of every segment carries. *)
From ZV Require Import Common.Bytes Wal.Consts Wal.Crc Wal.Proto Wal.Model Wal.Spec
  Wal.ProofsCrc Wal.ProofsProto Wal.ProofsFrame Wal.ProofsDecode Wal.ProofsTorn Wal.ProofsPrefix Wal.ProofsWriter.
From Coq Require Import ZifyN ZifyNat ZifyBool Lia.
Open Scope N_scope.

(* ---------- sequence numbers are consecutive ---------- *)
Fixpoint consecutive (first : N) (seqs : list N) : Prop :=
  match seqs with
  | [] => True
  | x :: r => x = first /\ consecutive (first + 1) r
  end.

Definition seqs_of (w : wal) : list N := map sg_seq (w_closed w) ++ [w_seq w].

Definition names_inv (w : wal) : Prop := exists first, consecutive first (seqs_of w).

Lemma consecutive_app first a b :
  consecutive first (a ++ b) <-> consecutive first a /\ consecutive (first + nlen a) b.
Proof.
  revert first. induction a as [|x a IH]; intros first; cbn [app consecutive].
  - unfold nlen. cbn. rewrite N.add_0_r. tauto.
  - rewrite IH. unfold nlen. cbn [length].
    replace (first + 1 + N.of_nat (length a)) with (first + N.of_nat (S (length a))) by lia. tauto.
Qed.

Lemma consecutive_skipn : forall k first l, consecutive first l -> consecutive (first + N.of_nat (Nat.min k (length l))) (skipn k l).
Proof.
  induction k as [|k IH]; intros first l H.
  - cbn. now rewrite N.add_0_r.
  - destruct l as [|x l]; cbn [skipn length Nat.min]; [now rewrite N.add_0_r|].
    destruct H as [_ H]. specialize (IH _ _ H).
    replace (first + N.of_nat (S (Nat.min k (length l)))) with (first + 1 + N.of_nat (Nat.min k (length l))) by lia.
    exact IH.
Qed.

Lemma skipn_map_sym {A B} (f : A -> B) n l : skipn n (map f l) = map f (skipn n l).
Proof. apply skipn_map. Qed.

Lemma names_inv_same w w' :
  w_closed w' = w_closed w -> w_seq w' = w_seq w -> names_inv w -> names_inv w'.
Proof. unfold names_inv, seqs_of. intros -> ->. auto. Qed.

Lemma w_encode_names ty d w : w_closed (w_encode ty d w) = w_closed w /\ w_seq (w_encode ty d w) = w_seq w.
Proof. unfold w_encode, encode_rec, set_tail. cbn. auto. Qed.

Lemma save_state_names s w : w_closed (save_state s w) = w_closed w /\ w_seq (save_state s w) = w_seq w.
Proof.
  unfold save_state. destruct (hs_is_empty s); [auto|].
  destruct (w_encode_names c_stateType (Some (hs_marshal s)) (w_set_state w s)) as [-> ->]. auto.
Qed.

Lemma save_entries_names : forall ents w,
  w_closed (fold_left (fun w e => save_entry e w) ents w) = w_closed w /\
  w_seq (fold_left (fun w e => save_entry e w) ents w) = w_seq w.
Proof.
  induction ents as [|e r IH]; intros w; [auto|]. cbn [fold_left].
  destruct (IH (save_entry e w)) as [-> ->]. unfold save_entry.
  destruct (w_encode_names c_entryType (Some (entry_marshal e)) w) as [H1 H2]. cbn. auto.
Qed.

Lemma w_cut_names w : names_inv w -> names_inv (w_cut w).
Proof.
  intros [first H]. unfold w_cut.
  match goal with |- names_inv (set_tail ?ww _ _ _) => set (w6 := ww) end.
  assert (Hc : w_closed w6 = w_closed w ++ [{| sg_seq := w_seq w; sg_idx := w_idx w; sg_bytes := w_tail w; sg_rec := w_tailrec w |}]
               /\ w_seq w6 = w_seq w + 1).
  { subst w6. cbn [w_sync_op w_closed w_seq].
    match goal with |- w_closed (save_state ?s ?x) = _ /\ _ => destruct (save_state_names s x) as [-> ->] end.
    match goal with |- w_closed (w_encode ?a ?b ?x) = _ /\ _ => destruct (w_encode_names a b x) as [-> ->] end.
    match goal with |- w_closed (w_encode ?a ?b ?x) = _ /\ _ => destruct (w_encode_names a b x) as [-> ->] end.
    cbn [w_sync_op w_closed w_seq w_idx w_tail w_tailrec]. auto. }
  destruct Hc as [Hc Hs]. exists first. unfold seqs_of in *. cbn [set_tail w_closed w_seq].
  rewrite Hc, Hs, map_app. cbn [map sg_seq]. rewrite <- app_assoc. cbn [app].
  apply consecutive_app in H as [H1 H2]. apply consecutive_app. split; [exact H1|].
  cbn [consecutive] in *. destruct H2 as [H2 _]. rewrite H2. auto.
Qed.

Lemma w_save_names w st ents : names_inv w -> names_inv (w_save st ents w).
Proof.
  intros H. unfold w_save.
  destruct (hs_is_empty st && match ents with [] => true | _ => false end); [exact H|]. cbv zeta.
  set (w2 := save_state st (fold_left (fun w e => save_entry e w) ents w)).
  assert (H2 : names_inv w2).
  { subst w2. destruct (save_state_names st (fold_left (fun w e => save_entry e w) ents w)) as [E1 E2].
    destruct (save_entries_names ents w) as [E3 E4].
    eapply names_inv_same; [| |exact H]; congruence. }
  destruct (pw_flushed (w_pw w2) <? w_segsize w2).
  - destruct (negb _ || _); [|exact H2]. eapply names_inv_same; [| |exact H2]; reflexivity.
  - now apply w_cut_names.
Qed.

Lemma w_release_names i w : names_inv w -> names_inv (w_release i w).
Proof.
  intros [first H]. unfold names_inv, seqs_of, w_release in *. cbn [w_closed w_seq].
  set (k := N.to_nat _).
  exists (first + N.of_nat (Nat.min k (length (w_closed w)))).
  apply consecutive_app in H as [H1 H2]. apply consecutive_app. rewrite <- skipn_map_sym.
  split.
  - pose proof (consecutive_skipn k first (map sg_seq (w_closed w)) H1) as H. now rewrite map_length in H.
  - unfold nlen in *. rewrite skipn_length, !map_length in *.
    replace (first + N.of_nat (Nat.min k (length (w_closed w))) + N.of_nat (length (w_closed w) - k))
      with (first + N.of_nat (length (w_closed w))) by lia. exact H2.
Qed.

Lemma w_save_snapshot_names s w : names_inv w -> names_inv (w_save_snapshot s w).
Proof.
  intros H. unfold w_save_snapshot. eapply names_inv_same; [| |exact H].
  - cbn [w_sync_op w_closed]. destruct (w_enti _ <? sn_index s); cbn [w_set_enti w_closed];
      apply (proj1 (w_encode_names _ _ _)).
  - cbn [w_sync_op w_seq]. destruct (w_enti _ <? sn_index s); cbn [w_set_enti w_seq];
      apply (proj2 (w_encode_names _ _ _)).
Qed.

Lemma w_encode_names_inv ty d w : names_inv w -> names_inv (w_encode ty d w).
Proof. intros H. destruct (w_encode_names ty d w). eapply names_inv_same; eauto. Qed.

Lemma w_step_names w o : names_inv w -> names_inv (w_step w o).
Proof.
  intros H. unfold w_step.
  assert (H1 : names_inv (w_add_nrec w (wop_nrec o))) by (eapply names_inv_same; [| |exact H]; reflexivity).
  destruct o as [st ents|s|i|].
  - now apply w_save_names.
  - now apply w_save_snapshot_names.
  - now apply w_release_names.
  - eapply names_inv_same; [| |exact H1]; reflexivity.
Qed.

Theorem w_run_names opt seg meta ops : names_inv (w_run opt seg meta ops).
Proof.
  unfold w_run.
  assert (H0 : names_inv (w_create opt seg meta)).
  { unfold w_create. apply w_save_snapshot_names, w_encode_names_inv, w_encode_names_inv.
    exists 0. unfold seqs_of. cbn [w_closed w_seq map app consecutive]. auto. }
  revert H0. generalize (w_create opt seg meta).
  induction ops as [|o r IH]; intros w Hw; [exact Hw|]. cbn [fold_left]. apply IH. now apply w_step_names.
Qed.

(* isValidSeq accepts every directory the wal itself wrote: Open never answers ErrFileNotFound for its order *)
Lemma valid_seq_consecutive : forall files first last,
  consecutive first (map sg_seq files) -> (last = 0 \/ last + 1 = first) -> valid_seq files last = true.
Proof.
  induction files as [|f r IH]; intros first last H Hl; [reflexivity|].
  cbn [map consecutive] in H. destruct H as [Hf Hr]. cbn [valid_seq].
  assert (E : negb (last =? 0) && negb (last =? sg_seq f - 1) = false).
  { destruct Hl as [->|Hl]; [reflexivity|].
    apply andb_false_iff. right. apply negb_false_iff, N.eqb_eq. lia. }
  rewrite E. apply (IH (first + 1)); [exact Hr|]. right. lia.
Qed.

Theorem written_directory_valid_seq opt seg meta ops k :
  valid_seq (skipn k (w_files (w_run opt seg meta ops))) 0 = true.
Proof.
  destruct (w_run_names opt seg meta ops) as [first H]. set (w := w_run opt seg meta ops) in *.
  assert (Hs : map sg_seq (w_files w) = seqs_of w).
  { unfold w_files, seqs_of. rewrite map_app. reflexivity. }
  rewrite <- Hs in H.
  pose proof (consecutive_skipn k first _ H) as Hk. rewrite skipn_map_sym in Hk.
  eapply valid_seq_consecutive; [exact Hk|]. now left.
Qed.

(* ---------- searchIndex ---------- *)
Lemma find_app' {A} (f : A -> bool) a b :
  find f (a ++ b) = match find f a with Some x => Some x | None => find f b end.
Proof. induction a as [|x a IH]; [reflexivity|]. cbn [app find]. destruct (f x); auto. Qed.

Lemma search_index_spec : forall files index i best,
  search_index files index i best =
  match find (fun p => sg_idx (snd p) <=? index) (rev (combine (seq i (length files)) files)) with
  | Some (j, _) => Some j
  | None => best
  end.
Proof.
  induction files as [|f r IH]; intros index i best; [reflexivity|].
  cbn [search_index length seq combine rev]. rewrite IH.
  rewrite find_app'.
  destruct (find (fun p => sg_idx (snd p) <=? index) (rev (combine (seq (S i) (length r)) r))) as [[j ?]|]; [reflexivity|].
  cbn [find snd]. destruct (sg_idx f <=? index); reflexivity.
Qed.

(* Open's selection on a directory the wal wrote: exactly the files from the last one whose name index is
   <= the snapshot index on (the order check never rejects) *)
Theorem select_written opt seg meta ops snap :
  select_files (w_files (w_run opt seg meta ops)) snap =
  match search_index (w_files (w_run opt seg meta ops)) (sn_index snap) 0 None with
  | Some i => Some (skipn i (w_files (w_run opt seg meta ops)))
  | None => None
  end.
Proof.
  unfold select_files.
  destruct (w_files (w_run opt seg meta ops)) as [|f r] eqn:E.
  - reflexivity.
  - destruct (search_index (f :: r) (sn_index snap) 0 None) as [i|]; [|reflexivity].
    rewrite <- E. now rewrite written_directory_valid_seq.
Qed.
