(* Wal/ProofsEffect.v — folding ReadAll's loop body over the stored form of logical records is [effect]. *)
From ZV Require Import Common.Bytes Wal.Consts Wal.Crc Wal.Proto Wal.Model Wal.Spec
  Wal.ProofsCrc Wal.ProofsProto Wal.ProofsFrame Wal.ProofsDecode Wal.ProofsLog Wal.ProofsWriter Wal.ProofsReadAll.
From Coq Require Import ZifyN ZifyNat ZifyBool Lia.
Open Scope N_scope.

Definition lrec_wf (l : lrec) : Prop :=
  match l with
  | LEnt e => entry_wf e
  | LState s => hs_wf s
  | LSnap s => snap_wf s
  end.

Lemma stored_app : forall a b crc,
  stored crc (a ++ b) = stored crc a ++ stored (snd (encode_all crc a)) b.
Proof.
  induction a as [|[ty d] a IH]; intros b crc; [reflexivity|].
  cbn [app stored]. rewrite IH. rewrite encode_all_cons. reflexivity.
Qed.

Lemma ra_fold_app start : forall a b s,
  ra_fold start s (a ++ b) = match ra_fold start s a with inr e => inr e | inl s' => ra_fold start s' b end.
Proof.
  induction a as [|r a IH]; intros b s; [reflexivity|]. cbn [app ra_fold].
  destruct (ra_step start s r); [apply IH|reflexivity].
Qed.

Definition with_ents (s : rastate) (ents : list entry) : rastate :=
  {| ra_meta := ra_meta s; ra_st := ra_st s; ra_ents := ents; ra_match := ra_match s |}.
Definition with_st (s : rastate) (st : hardstate) : rastate :=
  {| ra_meta := ra_meta s; ra_st := st; ra_ents := ra_ents s; ra_match := ra_match s |}.

Lemma ra_step_ent start s crc e :
  entry_wf e ->
  ra_step start s (stored_rec crc (rec_of_lrec (LEnt e))) =
  match place (sn_index start) (ra_ents s) e with
  | None => inr EOutOfRange
  | Some ents' => inl (with_ents s ents')
  end.
Proof.
  intros [Hok _]. unfold ra_step.
  rewrite (ra_record_entry start dummy_dec _ s e); [|reflexivity|].
  - destruct (place _ _ e); reflexivity.
  - cbn [stored_rec rec_of_lrec snd r_data data_or_nil]. now apply entry_roundtrip.
Qed.

Lemma ra_step_state start s crc st :
  hs_wf st -> ra_step start s (stored_rec crc (rec_of_lrec (LState st))) = inl (with_st s st).
Proof.
  intros (H1 & H2 & H3). unfold ra_step, ra_record.
  cbn [stored_rec rec_of_lrec fst snd r_type r_data data_or_nil].
  change (c_stateType =? c_entryType) with false. change (c_stateType =? c_stateType) with true. cbv iota.
  rewrite hs_roundtrip by assumption. reflexivity.
Qed.

Lemma ra_step_snap start s crc sn :
  snap_wf sn ->
  ra_step start s (stored_rec crc (rec_of_lrec (LSnap sn))) =
  if (sn_index sn =? sn_index start) && negb (sn_term sn =? sn_term start) then inr ESnapMismatch
  else inl (if sn_index sn =? sn_index start
            then {| ra_meta := ra_meta s; ra_st := ra_st s; ra_ents := ra_ents s; ra_match := true |} else s).
Proof.
  intros (H1 & H2). unfold ra_step, ra_record.
  cbn [stored_rec rec_of_lrec fst snd r_type r_data data_or_nil].
  change (c_snapshotType =? c_entryType) with false. change (c_snapshotType =? c_stateType) with false.
  change (c_snapshotType =? c_metadataType) with false. change (c_snapshotType =? c_crcType) with false.
  change (c_snapshotType =? c_snapshotType) with true. cbv iota.
  rewrite snap_roundtrip by assumption.
  destruct (sn_index sn =? sn_index start); [destruct (sn_term sn =? sn_term start)|]; reflexivity.
Qed.

(* the fold over the stored form of logical records computes [effect_go]; the metadata is untouched *)
Theorem ra_fold_effect start : forall ls crc s,
  Forall lrec_wf ls ->
  match ra_fold start s (stored crc (map rec_of_lrec ls)) with
  | inl s' => effect_go start ls (ra_st s) (ra_ents s) = Some (ra_st s', ra_ents s') /\ ra_meta s' = ra_meta s
  | inr e => effect_go start ls (ra_st s) (ra_ents s) = None /\ (e = EOutOfRange \/ e = ESnapMismatch)
  end.
Proof.
  induction ls as [|l ls IH]; intros crc s Hwf; [cbn; auto|].
  inversion Hwf as [|? ? Hl Hls]; subst.
  cbn [map]. destruct (rec_of_lrec l) as [ty d] eqn:El.
  change (stored crc ((ty, d) :: map rec_of_lrec ls))
    with (stored_rec crc (ty, d) :: stored (crc_update crc (data_or_nil d)) (map rec_of_lrec ls)).
  rewrite <- El. cbn [ra_fold effect_go].
  destruct l as [e|st|sn]; cbn [lrec_wf] in Hl.
  - rewrite ra_step_ent by exact Hl. cbn [effect_go].
    destruct (place (sn_index start) (ra_ents s) e) as [ents'|]; [|auto].
    specialize (IH (crc_update crc (data_or_nil (snd (rec_of_lrec (LEnt e))))) (with_ents s ents') Hls).
    rewrite El in *. cbn [snd] in IH. exact IH.
  - rewrite ra_step_state by exact Hl. cbn [effect_go].
    specialize (IH (crc_update crc (data_or_nil (snd (rec_of_lrec (LState st))))) (with_st s st) Hls).
    rewrite El in *. cbn [snd] in IH. exact IH.
  - rewrite ra_step_snap by exact Hl. cbn [effect_go].
    destruct ((sn_index sn =? sn_index start) && negb (sn_term sn =? sn_term start)); [auto|].
    match goal with |- match ra_fold start ?s2 _ with _ => _ end =>
      specialize (IH (crc_update crc (data_or_nil (snd (rec_of_lrec (LSnap sn))))) s2 Hls) end.
    rewrite El in *. cbn [snd] in IH.
    destruct (sn_index sn =? sn_index start); exact IH.
Qed.
