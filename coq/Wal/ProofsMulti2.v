(* Wal/ProofsMulti2.v — the global invariant of a history over all its segment files. *)
From ZV Require Import Common.Bytes Wal.Consts Wal.Crc Wal.Proto Wal.Model Wal.Spec
  Wal.ProofsCrc Wal.ProofsProto Wal.ProofsFrame Wal.ProofsDecode Wal.ProofsTorn Wal.ProofsPrefix Wal.ProofsRepair
  Wal.ProofsLog Wal.ProofsWriter Wal.ProofsNames Wal.ProofsSegs Wal.ProofsReadAll Wal.ProofsEffect
  Wal.ProofsHistory Wal.ProofsAppend Wal.ProofsCapstone Wal.ProofsMulti1.
From Coq Require Import ZifyN ZifyNat ZifyBool Lia.
Open Scope N_scope.

Lemma save_state_fields s w :
  w_meta (save_state s w) = w_meta w /\ w_nrec (save_state s w) = w_nrec w /\ w_enti (save_state s w) = w_enti w /\
  w_opt (save_state s w) = w_opt w /\ w_sync (save_state s w) = w_sync w /\
  w_state (save_state s w) = (if hs_is_empty s then w_state w else s).
Proof.
  unfold save_state. destruct (hs_is_empty s); [repeat split; reflexivity|].
  unfold w_encode, encode_rec, set_tail. cbn. repeat split; reflexivity.
Qed.

Lemma w_encode_fields2 ty d w :
  w_enti (w_encode ty d w) = w_enti w /\ w_state (w_encode ty d w) = w_state w.
Proof. unfold w_encode, encode_rec, set_tail. cbn. auto. Qed.

Lemma w_cut_fields w :
  let w' := w_cut w in
  w_meta w' = w_meta w /\ w_state w' = w_state w /\ w_nrec w' = w_nrec w /\ w_enti w' = w_enti w /\
  w_closed w' = w_closed w ++ [{| sg_seq := w_seq w; sg_idx := w_idx w; sg_bytes := w_tail w; sg_rec := w_tailrec w |}] /\
  w_seq w' = w_seq w + 1 /\ w_idx w' = w_enti w + 1.
Proof.
  cbv zeta. unfold w_cut. cbn [set_tail w_meta w_state w_nrec w_enti w_closed w_seq w_idx w_sync_op].
  match goal with |- context [save_state ?s ?x] => set (st5 := s); set (w4 := x) end.
  destruct (save_state_fields st5 w4) as (-> & -> & -> & _ & _ & Hst).
  destruct (save_state_names st5 w4) as [-> ->]. destruct (save_state_dir st5 w4) as [-> _].
  rewrite Hst. subst st5 w4.
  repeat match goal with |- context [w_encode ?a ?b ?x] =>
    rewrite ?(proj1 (w_encode_meta a b x)), ?(proj2 (w_encode_meta a b x)),
            ?(proj1 (w_encode_names a b x)), ?(proj2 (w_encode_names a b x)),
            ?(proj1 (w_encode_dir a b x)), ?(proj1 (w_encode_fields2 a b x)) end.
  cbn [w_meta w_state w_nrec w_enti w_closed w_seq w_idx w_sync_op w_tail w_tailrec].
  destruct (hs_is_empty (w_state w)); repeat split; reflexivity.
Qed.

Lemma w_cut_sync w c0 recs :
  tinv w c0 recs ->
  forall s, w_sync (w_cut w) = Some s -> sy_seq s = w_seq (w_cut w) ->
  sy_off s = blen (w_tail (w_cut w)) /\ sy_rec s = w_nrec w.
Proof.
  intros H s Hs Hq.
  pose proof (w_cut_head_crc w c0 recs H) as Hc.
  pose proof (ti_pw _ _ _ Hc) as Hpw. rewrite <- Hpw.
  destruct (w_cut_fields w) as (_ & _ & _ & _ & _ & Hseq & _). rewrite Hseq in Hq.
  unfold w_cut in *. cbn [set_tail w_sync w_pw] in *. unfold pw_total. cbn [pw_flushed pw_buf].
  match type of Hs with w_sync (w_sync_op ?fs ?w5) = _ => set (fs5 := fs) in *; set (x5 := w5) in * end.
  cbn [w_sync_op w_sync w_pw] in *.
  assert (Hn5 : w_nrec x5 = w_nrec w).
  { subst x5. rewrite (proj1 (proj2 (save_state_fields _ _))).
    rewrite !(proj1 (proj2 (proj2 (w_encode_fields _ _ _)))). reflexivity. }
  assert (Hs5 : w_sync x5 = w_sync (w_sync_op (negb (w_opt w)) w)).
  { subst x5. rewrite save_state_sync, !w_encode_sync. reflexivity. }
  destruct fs5; cbn [w_sync_op w_sync w_pw] in Hs.
  - inversion Hs; subst s. cbn [sy_off sy_rec]. split; [now rewrite N.add_0_r|exact Hn5].
  - exfalso. rewrite Hs5 in Hs. cbn [w_sync_op w_sync] in Hs.
    destruct (negb (w_opt w)).
    + inversion Hs; subst s. cbn [sy_seq] in Hq. lia.
    + pose proof (ti_mono _ _ _ H s Hs). lia.
Qed.

(* ---------- the global invariant ---------- *)
Record segd := { sd_st0 : hardstate; sd_L : list lrec }.
Definition seg_recs (meta : option bytes) (d : segd) : list (N * option bytes) :=
  hdr meta (sd_st0 d) ++ map rec_of_lrec (sd_L d).
Definition all_L (segs : list segd) : list lrec := concat (map sd_L segs).
Definition last_state (ls : list lrec) (dflt : hardstate) : hardstate :=
  fold_left (fun st l => match l with LState s => s | _ => st end) ls dflt.
Fixpoint st0_ok (acc : list lrec) (segs : list segd) : Prop :=
  match segs with
  | [] => True
  | x :: r => sd_st0 x = last_state acc hs_empty /\ st0_ok (acc ++ sd_L x) r
  end.

Record ginv (w : wal) (meta : option bytes) (ops : list wop) (pre : list segd) (d : segd) : Prop := {
  gi_L : all_L pre ++ sd_L d = lrecs ops;
  gi_bytes : map sg_bytes (w_closed w) = encode_segs 0 (map (seg_recs meta) pre);
  gi_t : tinv w (chain_crc 0 (map (seg_recs meta) pre)) (seg_recs meta d);
  gi_ok : segs_ok (map (seg_recs meta) pre);
  gi_st0 : st0_ok [] (pre ++ [d]);
  gi_state : w_state w = last_state (lrecs ops) hs_empty;
  gi_meta : w_meta w = meta;
  gi_nrec : w_nrec w = nlen (lrecs ops);
  gi_sync : forall s, w_sync w = Some s -> sy_seq s = w_seq w ->
     exists j, (j <= length (sd_L d))%nat /\
       sy_off s = blen (fst (encode_all (chain_crc 0 (map (seg_recs meta) pre))
                               (hdr meta (sd_st0 d) ++ map rec_of_lrec (firstn j (sd_L d))))) /\
       sy_rec s = nlen (all_L pre) + N.of_nat j;
  gi_old : forall s, w_sync w = Some s -> sy_seq s <> w_seq w -> sy_rec s <= nlen (all_L pre) }.

Lemma all_L_app a b : all_L (a ++ b) = all_L a ++ all_L b.
Proof. unfold all_L. now rewrite map_app, concat_app. Qed.

Lemma encode_segs_app : forall a b c,
  encode_segs c (a ++ b) = encode_segs c a ++ encode_segs (chain_crc c a) b.
Proof. induction a as [|x a IH]; intros b c; [reflexivity|]. cbn [app encode_segs chain_crc]. now rewrite IH. Qed.

Lemma chain_crc_app : forall a b c, chain_crc c (a ++ b) = chain_crc (chain_crc c a) b.
Proof. induction a as [|x a IH]; intros b c; [reflexivity|]. cbn [app chain_crc]. apply IH. Qed.

Lemma last_state_app a b dflt : last_state (a ++ b) dflt = last_state b (last_state a dflt).
Proof. unfold last_state. apply fold_left_app. Qed.

Lemma st0_ok_snoc : forall l acc x,
  st0_ok acc (l ++ [x]) <-> st0_ok acc l /\ sd_st0 x = last_state (acc ++ all_L l) hs_empty.
Proof.
  induction l as [|y l IH]; intros acc x; cbn [app st0_ok].
  - unfold all_L. cbn. rewrite app_nil_r. tauto.
  - rewrite IH. unfold all_L. cbn [map concat]. rewrite app_assoc. tauto.
Qed.

(* changing the records of the last segment does not touch the head states *)
Lemma st0_ok_last : forall l acc d d',
  sd_st0 d' = sd_st0 d -> st0_ok acc (l ++ [d]) -> st0_ok acc (l ++ [d']).
Proof.
  intros l acc d d' E. rewrite !st0_ok_snoc. rewrite E. tauto.
Qed.

Lemma hdr_nonempty meta st : hdr meta st <> [].
Proof. discriminate. Qed.

Lemma ginv_sync_rec w meta ops pre d :
  ginv w meta ops pre d -> forall s, w_sync w = Some s -> sy_rec s <= w_nrec w.
Proof.
  intros G s Hs. destruct (N.eq_dec (sy_seq s) (w_seq w)) as [E|E].
  - destruct (gi_sync _ _ _ _ _ G s Hs E) as (j & Hj & _ & Hr). rewrite Hr, (gi_nrec _ _ _ _ _ G), <- (gi_L _ _ _ _ _ G).
    unfold nlen. rewrite app_length. lia.
  - pose proof (gi_old _ _ _ _ _ G s Hs E). rewrite (gi_nrec _ _ _ _ _ G), <- (gi_L _ _ _ _ _ G).
    unfold nlen in *. rewrite app_length. lia.
Qed.

Lemma w_cut_sync_rec w :
  (forall s, w_sync w = Some s -> sy_rec s <= w_nrec w) ->
  forall s, w_sync (w_cut w) = Some s -> sy_rec s <= w_nrec w.
Proof.
  intros H s Hs. unfold w_cut in Hs. cbn [set_tail w_sync] in Hs.
  match type of Hs with w_sync (w_sync_op ?fs ?w5) = _ => set (fs5 := fs) in *; set (x5 := w5) in * end.
  assert (Hn5 : w_nrec x5 = w_nrec w).
  { subst x5. rewrite (proj1 (proj2 (save_state_fields _ _))).
    rewrite !(proj1 (proj2 (proj2 (w_encode_fields _ _ _)))). reflexivity. }
  assert (Hs5 : w_sync x5 = w_sync (w_sync_op (negb (w_opt w)) w)).
  { subst x5. rewrite save_state_sync, !w_encode_sync. reflexivity. }
  cbn [w_sync_op w_sync] in Hs. destruct fs5.
  - inversion Hs; subst s. cbn [sy_rec]. lia.
  - rewrite Hs5 in Hs. cbn [w_sync_op w_sync] in Hs. destruct (negb (w_opt w)).
    + inversion Hs; subst s. cbn [sy_rec]. lia.
    + now apply H.
Qed.

Lemma ginv_cut w meta ops pre d :
  ginv w meta ops pre d ->
  ginv (w_cut w) meta ops (pre ++ [d]) {| sd_st0 := w_state w; sd_L := [] |}.
Proof.
  intros G. pose proof G as [HL Hb Ht Hok Hst0 Hstate Hmeta Hnrec Hsync Hold].
  destruct (w_cut_fields w) as (Fm & Fs & Fn & Fe & Fc & Fq & Fi).
  pose proof (w_cut_head_crc w _ _ Ht) as Hc.
  assert (Hchain : chain_crc 0 (map (seg_recs meta) (pre ++ [d])) = w_crc w).
  { rewrite map_app, chain_crc_app. cbn [map chain_crc]. symmetry. apply (ti_crc _ _ _ Ht). }
  constructor.
  - rewrite all_L_app. unfold all_L at 2. cbn [map concat sd_L]. rewrite !app_nil_r. exact HL.
  - rewrite Fc, map_app, Hb. cbn [map sg_bytes]. rewrite map_app, encode_segs_app. cbn [map encode_segs].
    rewrite (ti_tail _ _ _ Ht). reflexivity.
  - rewrite Hchain. unfold seg_recs. cbn [sd_st0 sd_L map]. rewrite app_nil_r. rewrite <- Hmeta. exact Hc.
  - rewrite map_app. unfold segs_ok in *. apply Forall_app. split; [exact Hok|].
    constructor; [|constructor]. split; [apply (ti_ok _ _ _ Ht)|]. unfold seg_recs. intros E.
    apply app_eq_nil in E as [E _]. now apply hdr_nonempty in E.
  - apply st0_ok_snoc. split; [exact Hst0|]. cbn [sd_st0 app]. rewrite all_L_app. unfold all_L at 2.
    cbn [map concat]. rewrite app_nil_r, HL. exact Hstate.
  - rewrite Fs. exact Hstate.
  - rewrite Fm. exact Hmeta.
  - rewrite Fn. exact Hnrec.
  - intros s Hs Hq. destruct (w_cut_sync w _ _ Ht s Hs Hq) as [Ho Hr].
    exists 0%nat. cbn [sd_L sd_st0 length firstn map]. split; [lia|]. split.
    + rewrite Ho, (ti_tail _ _ _ Hc), Hchain, app_nil_r, Hmeta. reflexivity.
    + rewrite Hr, Hnrec, all_L_app. unfold all_L at 2. cbn [map concat]. rewrite app_nil_r, <- HL.
      unfold nlen. lia.
  - intros s Hs _. pose proof (w_cut_sync_rec w (ginv_sync_rec w meta ops pre d G) s Hs) as Hle.
    rewrite Hnrec, <- HL in Hle. rewrite all_L_app. unfold all_L at 2. cbn [map concat]. now rewrite app_nil_r.
Qed.

Lemma last_state_ents st ents : last_state (map LEnt ents) st = st.
Proof. unfold last_state. revert st. induction ents as [|e r IH]; intros st; [reflexivity|]. cbn. apply IH. Qed.

Lemma last_state_op o st :
  last_state (lrecs_of_op o) st =
  match o with
  | OSave s _ => if hs_is_empty s then st else s
  | _ => st
  end.
Proof.
  destruct o as [s ents|sn|i|]; cbn [lrecs_of_op]; try reflexivity.
  rewrite last_state_app, last_state_ents. destruct (hs_is_empty s); reflexivity.
Qed.

(* records appended to the tail, no cut *)
Lemma ginv_extend w meta ops pre d w' o :
  ginv w meta ops pre d ->
  tinv w' (chain_crc 0 (map (seg_recs meta) pre)) (seg_recs meta d ++ map rec_of_lrec (lrecs_of_op o)) ->
  w_closed w' = w_closed w -> w_seq w' = w_seq w -> w_meta w' = meta ->
  w_state w' = last_state (lrecs_of_op o) (w_state w) ->
  w_nrec w' = w_nrec w + nlen (lrecs_of_op o) ->
  (forall s, w_sync w' = Some s ->
     w_sync w = Some s \/ (sy_seq s = w_seq w' /\ sy_off s = blen (w_tail w') /\ sy_rec s = w_nrec w')) ->
  ginv w' meta (ops ++ [o]) pre {| sd_st0 := sd_st0 d; sd_L := sd_L d ++ lrecs_of_op o |}.
Proof.
  intros [HL Hb Ht Hok Hst0 Hstate Hmeta Hnrec Hsync Hold] Ht' Hc Hq Hm Hs Hn Hsy.
  assert (Hrecs : seg_recs meta {| sd_st0 := sd_st0 d; sd_L := sd_L d ++ lrecs_of_op o |}
                  = seg_recs meta d ++ map rec_of_lrec (lrecs_of_op o)).
  { unfold seg_recs. cbn [sd_st0 sd_L]. now rewrite map_app, app_assoc. }
  constructor.
  - cbn [sd_L]. rewrite app_assoc, HL. symmetry. apply lrecs_app.
  - rewrite Hc. exact Hb.
  - rewrite Hrecs. exact Ht'.
  - exact Hok.
  - eapply st0_ok_last; [|exact Hst0]. reflexivity.
  - rewrite Hs, Hstate, lrecs_app. symmetry. apply last_state_app.
  - exact Hm.
  - rewrite Hn, Hnrec, lrecs_app. unfold nlen. rewrite app_length. lia.
  - intros s Hss Hqq. destruct (Hsy s Hss) as [Hos|(_ & Ho & Hr)].
    + destruct (Hsync s Hos ltac:(congruence)) as (j & Hj & H1 & H2).
      exists j. cbn [sd_L sd_st0]. rewrite app_length. split; [lia|].
      rewrite firstn_app. replace (j - length (sd_L d))%nat with 0%nat by lia. cbn [firstn]. rewrite app_nil_r. auto.
    + exists (length (sd_L d ++ lrecs_of_op o)). cbn [sd_L sd_st0]. split; [lia|]. rewrite firstn_all. split.
      * rewrite Ho, (ti_tail _ _ _ Ht'). unfold seg_recs. now rewrite map_app, app_assoc.
      * rewrite Hr, Hn, Hnrec, <- HL. unfold nlen. rewrite !app_length. lia.
  - intros s Hss Hne. destruct (Hsy s Hss) as [Hos|(Hsq & _)]; [|contradiction].
    apply (Hold s Hos). congruence.
Qed.

Lemma save_entries_fields : forall ents w,
  let w' := fold_left (fun w e => save_entry e w) ents w in
  w_meta w' = w_meta w /\ w_nrec w' = w_nrec w /\ w_state w' = w_state w /\ w_sync w' = w_sync w /\
  w_closed w' = w_closed w /\ w_seq w' = w_seq w.
Proof.
  induction ents as [|e r IH]; intros w; [cbn; auto 10|]. cbn [fold_left]. cbv zeta in *.
  destruct (IH (save_entry e w)) as (-> & -> & -> & -> & -> & ->).
  unfold save_entry. cbn [w_set_enti w_meta w_nrec w_state w_sync w_closed w_seq].
  destruct (w_encode_fields c_entryType (Some (entry_marshal e)) w) as (-> & -> & -> & -> & _).
  rewrite (proj2 (w_encode_fields2 _ _ _)), (proj1 (w_encode_names _ _ _)). auto 10.
Qed.

Lemma sync_op_point fs w c0 recs :
  tinv w c0 recs ->
  forall s, w_sync (w_sync_op fs w) = Some s ->
  w_sync w = Some s \/ (sy_seq s = w_seq w /\ sy_off s = blen (w_tail w) /\ sy_rec s = w_nrec w).
Proof.
  intros Ht s Hs. cbn [w_sync_op w_sync] in Hs. destruct fs; [|now left]. right.
  inversion Hs; subst s. cbn [sy_seq sy_off sy_rec]. split; [reflexivity|]. split; [|reflexivity].
  destruct (pw_flush_total (w_pw w)) as [Hft Hfb]. unfold pw_total in *.
  rewrite <- (ti_pw _ _ _ Ht). unfold pw_total. lia.
Qed.

Definition not_release (o : wop) : Prop := match o with ORelease _ => False | _ => True end.

Lemma ginv_step w meta ops pre d o :
  ginv w meta ops pre d -> op_wf o -> not_release o ->
  exists pre' d', ginv (w_step w o) meta (ops ++ [o]) pre' d' /\
    (w_seq (w_step w o) = w_seq w -> pre' = pre /\ sd_st0 d' = sd_st0 d /\ exists more, sd_L d' = sd_L d ++ more) /\
    (w_seq (w_step w o) = w_seq w \/ (sd_L d' = [] /\ exists x, pre' = pre ++ [x])).
Proof.
  intros G Ho Hnr. pose proof G as [HL Hb Ht Hok Hst0 Hstate Hmeta Hnrec Hsync Hold].
  assert (Hrel : forall more,
            pre = pre /\ sd_st0 {| sd_st0 := sd_st0 d; sd_L := sd_L d ++ more |} = sd_st0 d /\
            exists more', sd_L {| sd_st0 := sd_st0 d; sd_L := sd_L d ++ more |} = sd_L d ++ more')
    by (intros more; cbn; eauto).
  unfold w_step.
  set (w0 := w_add_nrec w (wop_nrec o)).
  assert (Ht0 : tinv w0 (chain_crc 0 (map (seg_recs meta) pre)) (seg_recs meta d)) by now apply w_add_nrec_inv.
  assert (F0 : w_closed w0 = w_closed w /\ w_seq w0 = w_seq w /\ w_meta w0 = meta /\ w_state w0 = w_state w /\
               w_nrec w0 = w_nrec w + nlen (lrecs_of_op o) /\ w_sync w0 = w_sync w).
  { subst w0. cbn [w_add_nrec w_closed w_seq w_meta w_state w_nrec w_sync]. rewrite wop_nrec_spec. auto 10. }
  destruct F0 as (Fc0 & Fq0 & Fm0 & Fs0 & Fn0 & Fy0). clearbody w0.
  destruct o as [st ents|sn|i|]; cbn [op_wf not_release] in *; [| | contradiction |].
  - (* Save *)
    destruct Ho as [Hst Hents]. unfold w_save.
    destruct (hs_is_empty st && match ents with [] => true | _ => false end) eqn:Etriv.
    { assert (El : lrecs_of_op (OSave st ents) = []).
      { apply andb_true_iff in Etriv as [E1 E2]. destruct ents; [|discriminate]. cbn. now rewrite E1. }
      exists pre, {| sd_st0 := sd_st0 d; sd_L := sd_L d ++ lrecs_of_op (OSave st ents) |}.
      split; [|split; [intros _; apply Hrel|left; cbn [w_sync_op w_seq]; congruence]].
      apply (ginv_extend w meta ops pre d w0 (OSave st ents) G); auto.
      all: try (rewrite El; cbn [map]; now rewrite ?app_nil_r).
      all: try (rewrite El; cbn; exact Fs0).
      all: try (intros s Hs; left; congruence). }
    cbv zeta.
    pose proof (save_entries_exact ents w0 _ _ Ht0 Hents) as H1.
    pose proof (save_state_inv' _ _ _ st H1 Hst) as H2.
    set (w1 := fold_left (fun w e => save_entry e w) ents w0) in *.
    destruct (save_entries_fields ents w0) as (E1m & E1n & E1s & E1y & E1c & E1q). fold w1 in E1m, E1n, E1s, E1y, E1c, E1q.
    set (w2 := save_state st w1) in *.
    destruct (save_state_fields st w1) as (E2m & E2n & _ & _ & E2y & E2s). fold w2 in E2m, E2n, E2y, E2s.
    destruct (save_state_names st w1) as [E2c E2q]. fold w2 in E2c, E2q.
    assert (Hrecs : (seg_recs meta d ++ map (fun e => rec_of_lrec (LEnt e)) ents) ++ state_rec st
                    = seg_recs meta d ++ map rec_of_lrec (lrecs_of_op (OSave st ents))).
    { cbn [lrecs_of_op]. rewrite map_app, map_map, state_rec_lrec, app_assoc. reflexivity. }
    rewrite Hrecs in H2.
    assert (G2 : ginv w2 meta (ops ++ [OSave st ents]) pre {| sd_st0 := sd_st0 d; sd_L := sd_L d ++ lrecs_of_op (OSave st ents) |}).
    { apply (ginv_extend w meta ops pre d w2 (OSave st ents) G); try congruence.
      all: try exact H2.
      all: try (rewrite last_state_op, E2s, E1s, Fs0; reflexivity).
      all: try (intros s Hs; left; congruence). }
    clearbody w1 w2.
    destruct (pw_flushed (w_pw w2) <? w_segsize w2).
    + destruct (negb _ || _).
      * exists pre, {| sd_st0 := sd_st0 d; sd_L := sd_L d ++ lrecs_of_op (OSave st ents) |}.
        split; [|split; [intros _; apply Hrel|left; cbn [w_sync_op w_seq]; congruence]].
        match goal with |- ginv (w_sync_op ?fs w2) _ _ _ _ => set (fsx := fs) end.
        apply (ginv_extend w meta ops pre d (w_sync_op fsx w2) (OSave st ents) G);
          cbn [w_sync_op w_closed w_seq w_meta w_state w_nrec w_tail]; try congruence.
        all: try (now apply w_sync_op_inv).
        all: try (rewrite last_state_op, E2s, E1s, Fs0; reflexivity).
        all: try (intros s Hs; destruct (sync_op_point fsx w2 _ _ H2 s Hs) as [Hos|Hnew]; [left; congruence|right; exact Hnew]).
      * eexists _, _. split; [exact G2|split; [intros _; apply Hrel|left; congruence]].
    + eexists _, _. split; [apply ginv_cut; exact G2|]. split; [|right; split; [reflexivity|eexists; reflexivity]].
      intros Hq'. exfalso. destruct (w_cut_fields w2) as (_ & _ & _ & _ & _ & Fq & _). rewrite Fq in Hq'. lia.
  - (* SaveSnapshot *)
    unfold w_save_snapshot.
    pose proof (w_encode_inv _ _ _ c_snapshotType (Some (snap_marshal sn)) Ht0 (enc_ok_snap sn)) as H1.
    set (w1 := w_encode c_snapshotType (Some (snap_marshal sn)) w0) in *.
    destruct (w_encode_fields c_snapshotType (Some (snap_marshal sn)) w0) as (E1q & E1m & E1n & E1y & _).
    destruct (w_encode_fields2 c_snapshotType (Some (snap_marshal sn)) w0) as (_ & E1s).
    pose proof (proj1 (w_encode_names c_snapshotType (Some (snap_marshal sn)) w0)) as E1c.
    fold w1 in E1q, E1m, E1n, E1y, E1s, E1c. clearbody w1.
    set (w2 := if w_enti w1 <? sn_index sn then w_set_enti w1 (sn_index sn) else w1).
    assert (H2 : tinv w2 (chain_crc 0 (map (seg_recs meta) pre)) (seg_recs meta d ++ map rec_of_lrec (lrecs_of_op (OSnap sn)))).
    { subst w2. destruct (w_enti w1 <? sn_index sn); [now apply w_set_enti_inv|exact H1]. }
    assert (F2 : w_closed w2 = w_closed w1 /\ w_seq w2 = w_seq w1 /\ w_meta w2 = w_meta w1 /\ w_state w2 = w_state w1 /\
                 w_nrec w2 = w_nrec w1 /\ w_sync w2 = w_sync w1).
    { subst w2. destruct (w_enti w1 <? sn_index sn); cbn; auto 10. }
    destruct F2 as (F2c & F2q & F2m & F2s & F2n & F2y). clearbody w2.
    exists pre, {| sd_st0 := sd_st0 d; sd_L := sd_L d ++ lrecs_of_op (OSnap sn) |}.
    split; [|split; [intros _; apply Hrel|left; cbn [w_sync_op w_seq]; congruence]].
    apply (ginv_extend w meta ops pre d (w_sync_op (negb (w_opt w2)) w2) (OSnap sn) G);
      cbn [w_sync_op w_closed w_seq w_meta w_state w_nrec w_tail]; try congruence.
    all: try (now apply w_sync_op_inv).
    all: try (cbn [lrecs_of_op]; cbn; congruence).
    all: try (intros s Hs; destruct (sync_op_point _ w2 _ _ H2 s Hs) as [Hos|Hnew]; [left; congruence|right; exact Hnew]).
  - (* Sync *)
    exists pre, {| sd_st0 := sd_st0 d; sd_L := sd_L d ++ lrecs_of_op OSync |}.
    split; [|split; [intros _; apply Hrel|left; cbn [w_sync_op w_seq]; congruence]].
    apply (ginv_extend w meta ops pre d (w_sync_op true w0) OSync G);
      cbn [w_sync_op w_closed w_seq w_meta w_state w_nrec w_tail lrecs_of_op map]; try congruence.
    all: try (rewrite app_nil_r; now apply w_sync_op_inv).
    all: try exact Fn0.
    all: try (cbn; congruence).
    all: try (intros s Hs; destruct (sync_op_point true w0 _ _ Ht0 s Hs) as [Hos|Hnew]; [left; congruence|right; exact Hnew]).
Qed.

Lemma w_save_snapshot_state sn w : w_state (w_save_snapshot sn w) = w_state w.
Proof.
  unfold w_save_snapshot. cbn [w_sync_op w_state].
  destruct (w_enti _ <? sn_index sn); cbn [w_set_enti w_state]; apply w_encode_fields2.
Qed.

Lemma w_create_ginv opt seg meta :
  data_ok meta ->
  ginv (w_create opt seg meta) meta [] [] {| sd_st0 := hs_empty; sd_L := [LSnap {| sn_index := 0; sn_term := 0 |}] |}.
Proof.
  intros Hm. rewrite w_create_eq.
  destruct (create_stageA (w_blank opt seg meta) meta Hm (w_blank_tinv opt seg meta Hm) eq_refl eq_refl eq_refl eq_refl)
    as (Ha & Hqa & Hma & Hna & Hsa).
  set (wa := w_encode c_metadataType meta (w_encode c_crcType None (w_blank opt seg meta))) in *.
  assert (Fa : w_closed wa = [] /\ w_state wa = hs_empty).
  { subst wa. rewrite (proj1 (w_encode_names _ _ _)), (proj1 (w_encode_names _ _ _)).
    rewrite (proj2 (w_encode_fields2 _ _ _)), (proj2 (w_encode_fields2 _ _ _)). split; reflexivity. }
  destruct Fa as [Fac Fas]. clearbody wa.
  destruct (create_stageB wa meta {| sn_index := 0; sn_term := 0 |} Ha Hqa Hma Hna Hsa) as (Ht & Hq & Hme & Hn & Hs).
  constructor.
  - reflexivity.
  - rewrite (proj2 (proj2 (w_save_snapshot_dir _ _))), Fac. reflexivity.
  - exact Ht.
  - constructor.
  - cbn. auto.
  - rewrite w_save_snapshot_state, Fas. reflexivity.
  - exact Hme.
  - rewrite Hn. reflexivity.
  - intros s Hss _. destruct (Hs s Hss) as [Ho Hr]. exists 1%nat. cbn [sd_L sd_st0 length firstn]. split; [lia|].
    split; [exact Ho|]. rewrite Hr. reflexivity.
  - intros s Hss Hne. exfalso. apply Hne. pose proof (ti_mono _ _ _ Ht s Hss) as Hle. rewrite Hq in *. lia.
Qed.

Lemma ginv_run_from : forall ops2 w meta ops1 pre d,
  ginv w meta ops1 pre d -> Forall op_wf ops2 -> Forall not_release ops2 ->
  exists pre' d', ginv (fold_left w_step ops2 w) meta (ops1 ++ ops2) pre' d'.
Proof.
  induction ops2 as [|o ops2 IH]; intros w meta ops1 pre d G Hw Hr.
  - exists pre, d. now rewrite app_nil_r.
  - inversion Hw; subst. inversion Hr; subst. cbn [fold_left].
    destruct (ginv_step w meta ops1 pre d o G) as (pre1 & d1 & G1 & _); auto.
    destruct (IH _ _ _ _ _ G1) as (pre2 & d2 & G2); auto.
    exists pre2, d2. now rewrite <- app_assoc in G2.
Qed.

(* every history without ReleaseLockTo: all its files are described *)
Theorem w_run_ginv opt seg meta ops :
  data_ok meta -> Forall op_wf ops -> Forall not_release ops ->
  exists pre d, ginv (w_run opt seg meta ops) meta ops pre d.
Proof.
  intros Hm Hw Hr. unfold w_run.
  apply (ginv_run_from ops _ meta [] _ _ (w_create_ginv opt seg meta Hm) Hw Hr).
Qed.
