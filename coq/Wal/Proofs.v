(* Wal/Proofs.v — top of the C05 proof development (imports the parts). *)
From ZV Require Import Common.Bytes Wal.Consts Wal.Crc Wal.Proto Wal.Model.
From Coq Require Import ZifyN ZifyNat ZifyBool Lia.
Open Scope N_scope.

Lemma btake_firstn : forall bs n, btake n bs = firstn (N.to_nat n) bs.
Proof.
  induction bs as [|b r IH]; intros n; cbn [btake].
  - now rewrite firstn_nil.
  - destruct (N.eqb_spec n 0) as [->|Hn]; [reflexivity|].
    rewrite IH. replace (N.to_nat n) with (S (N.to_nat (N.pred n))) by lia. reflexivity.
Qed.

Lemma bdrop_skipn : forall bs n, bdrop n bs = skipn (N.to_nat n) bs.
Proof.
  induction bs as [|b r IH]; intros n; cbn [bdrop].
  - now rewrite skipn_nil.
  - destruct (N.eqb_spec n 0) as [->|Hn]; [reflexivity|].
    rewrite IH. replace (N.to_nat n) with (S (N.to_nat (N.pred n))) by lia. reflexivity.
Qed.
