(* Wal/Proofs.v — top of the C05 proof development: re-exports the parts.
     ProofsCrc     CRC-32C: table = bitwise spec; injectivity; single byte / single bit
     ProofsProto   varint and protobuf message round trips
     ProofsFrame   8-byte frame header
     ProofsDecode  decoding an encoded frame / stream; prefix stability; fuel
     ProofsTorn    the decoder at a torn frame
     ProofsPrefix  the prefix theorem for truncated images
     ProofsRepair  Repair = truncate at lastValidOff iff the verdict is UnexpectedEOF / size limit
     ProofsWriter  the writer: the tail is an encoder stream, sync points are frame boundaries
     ProofsNames   segment names (consecutive sequence numbers), isValidSeq, searchIndex
     ProofsSegs    several segments: the crc chained across files
     ProofsSector  zeroed 8-aligned ranges: the first damaged frame's length field is intact or all zero
     ProofsFlip    a bit flip inside a record's Data is always detected
     ProofsLog     ReadAll's entry placement
     ProofsReadAll ReadAll = fold of its loop body over the decoder's records
     ProofsEffect  that fold over stored logical records = effect
     ProofsHistory histories that stay in the first segment: explicit stream, sync points, directory
     ProofsAppend  reopening for append: zero tail, ReadAll on a stream incl. the continued crc, two generations
     ProofsCapstone end to end: crash cut at any offset -> reopen = error or effect(prefix >= synced)
     ProofsMulti1  truncation lemma for any start crc; decoding a chain of segment files; what cut() writes
     ProofsMulti2  the global invariant of a history over all its segment files (every cut, both fsync modes)
     ProofsMulti3  ReadAll's fold over a chain of segments with their heads = effect over the logical records
     ProofsMulti4  end to end for any number of segments (zero snapshot): Open selects all files, Repair on the
                   lone tail, crash cut behind the tail's sync point -> error or effect(prefix >= synced)
     ProofsMulti5  the same at ANY snapshot: Open's selection from the names, entries in front of the selected
                   files are at or below the snapshot, the first selected head restores crc and hard state
     ProofsRefute  witnesses against the full statement (Spec.C05_full) *)
From ZV Require Export Wal.ProofsCrc Wal.ProofsProto Wal.ProofsFrame Wal.ProofsDecode Wal.ProofsTorn
  Wal.ProofsPrefix Wal.ProofsRepair Wal.ProofsWriter Wal.ProofsNames Wal.ProofsSegs Wal.ProofsSector Wal.ProofsFlip Wal.ProofsLog Wal.ProofsRefute
  Wal.ProofsReadAll Wal.ProofsEffect Wal.ProofsHistory Wal.ProofsAppend Wal.ProofsCapstone
  Wal.ProofsMulti1 Wal.ProofsMulti2 Wal.ProofsMulti3 Wal.ProofsMulti4 Wal.ProofsMulti5.
