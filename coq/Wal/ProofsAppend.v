(* Wal/ProofsAppend.v — reopening for append: the tail behind the last valid record is zero, and what is
   appended after a recovery continues the recovered prefix (two generations). *)
From ZV Require Import Common.Bytes Wal.Consts Wal.Crc Wal.Proto Wal.Model Wal.Spec
  Wal.ProofsCrc Wal.ProofsProto Wal.ProofsFrame Wal.ProofsDecode Wal.ProofsTorn Wal.ProofsPrefix
  Wal.ProofsWriter Wal.ProofsNames Wal.ProofsReadAll Wal.ProofsHistory.
From Coq Require Import ZifyN ZifyNat ZifyBool Lia.
Open Scope N_scope.

(* ---------- ZeroToEnd ---------- *)
Theorem reopen_tail_zero off img :
  bdrop off (reopen_tail off img) = zeros (blen img - off) /\ all_zero (bdrop off (reopen_tail off img)) = true.
Proof.
  assert (E : bdrop off (reopen_tail off img) = zeros (blen img - off)).
  { unfold reopen_tail. destruct (N.le_gt_cases off (blen img)) as [Hle|Hgt].
    - assert (Hb : blen (btake off img) = off).
      { unfold blen in *. rewrite btake_length. lia. }
      rewrite <- Hb at 1. apply bdrop_app_exact.
    - replace (blen img - off) with 0 by lia. change (zeros 0) with (@nil N). rewrite app_nil_r.
      rewrite bdrop_skipn. apply skipn_all2. rewrite btake_length. unfold blen in Hgt. lia. }
  split; [exact E|]. rewrite E. apply all_zero_zeros.
Qed.

(* ---------- ReadAll on a written stream: also the crc the append encoder continues with ---------- *)
Lemma ra_loop_stream start : forall recs crc off fuel rest others s s',
  crc < 2 ^ 32 -> Forall enc_ok recs -> ra_fold start s (stored crc recs) = inl s' ->
  ra_loop (length recs + fuel) start
    {| d_brs := (fst (encode_all crc recs) ++ rest) :: others; d_off := off; d_crc := crc |} s =
  ra_loop fuel start
    {| d_brs := rest :: others; d_off := off + blen (fst (encode_all crc recs)); d_crc := snd (encode_all crc recs) |} s'.
Proof.
  induction recs as [|[ty d] recs IH]; intros crc off fuel rest others s s' Hc Hok Hf.
  - cbn in Hf. inversion Hf; subst. cbn [encode_all fst snd length Nat.add app]. rewrite blen_nil, N.add_0_r. reflexivity.
  - inversion Hok as [|? ? H1 H2]; subst.
    destruct (enc_ok_rec crc (ty, d) Hc H1) as (Hrok & Hcons & Hafter & Hlt). cbn [fst snd] in *.
    rewrite encode_all_cons. cbn [fst snd length Nat.add stored] in *.
    set (r := {| r_type := ty; r_crc := crc_update crc (data_or_nil d); r_data := d |}) in *.
    cbn [ra_fold] in Hf.
    cbn [ra_loop]. unfold decode. cbn [d_brs].
    rewrite <- app_assoc. rewrite decode_record_frame by assumption. rewrite Hafter.
    rewrite ra_record_split.
    destruct (ra_step start s r) as [s1|e] eqn:Es; [|discriminate].
    destruct (r_type r =? c_crcType) eqn:Et.
    + rewrite ra_step_crc in Es by now apply N.eqb_eq. inversion Es; subst s1.
      unfold crc_record_ok, d_update_crc, d_with. cbn [d_crc d_brs d_off r_crc r].
      rewrite N.eqb_refl, orb_true_r.
      rewrite (IH _ _ _ _ _ _ _ Hlt H2 Hf). rewrite blen_app, N.add_assoc. reflexivity.
    + rewrite (IH _ _ _ _ _ _ _ Hlt H2 Hf). rewrite blen_app, N.add_assoc. reflexivity.
Qed.

Theorem read_all_stream start recs z s' :
  Forall enc_ok recs -> (z = 0 \/ 8 <= z) -> ra_fold start ra_init (stored 0 recs) = inl s' ->
  read_all start [fst (encode_all 0 recs) ++ zeros z] =
  RAOk (ra_meta s') (ra_st s') (ra_ents s') (blen (fst (encode_all 0 recs))) (snd (encode_all 0 recs)).
Proof.
  intros Hok Hz Hf. unfold read_all, new_decoder.
  pose proof (encode_all_len_ge recs 0) as Hlen.
  set (img := fst (encode_all 0 recs) ++ zeros z).
  assert (Hfuel : exists f, scan_fuel [img] = (length recs + S f)%nat).
  { unfold scan_fuel. cbn [total_len fold_right length]. subst img. rewrite app_length.
    assert (length recs <= (length (fst (encode_all 0 recs)) + length (zeros z) + 0) / 8)%nat
      by (apply Nat.div_le_lower_bound; lia).
    eexists ((length (fst (encode_all 0 recs)) + length (zeros z) + 0) / 8 + 1 - length recs)%nat. lia. }
  destruct Hfuel as (f & ->). subst img.
  rewrite (ra_loop_stream start recs 0 0 (S f) (zeros z) [] ra_init s') by (auto; reflexivity).
  rewrite N.add_0_l. cbn [ra_loop]. unfold decode. cbn [d_brs length].
  destruct Hz as [->|Hz].
  - change (zeros 0) with (@nil N). rewrite decode_end_nil. reflexivity.
  - rewrite <- (app_nil_r (zeros z)). rewrite decode_end_zeros by exact Hz. reflexivity.
Qed.

(* ---------- appending: one operation that does not cut extends the tail's record list ---------- *)
Lemma w_step_append w c0 recs o :
  tinv w c0 recs -> op_wf o -> w_seq (w_step w o) = w_seq w ->
  exists more, tinv (w_step w o) c0 (recs ++ more).
Proof.
  intros H Ho Hq. unfold w_step in *.
  pose proof (w_add_nrec_inv w c0 recs (wop_nrec o) H) as H0.
  set (w0 := w_add_nrec w (wop_nrec o)) in *.
  assert (Hq0 : w_seq w0 = w_seq w) by reflexivity. clearbody w0.
  destruct o as [st ents|sn|i|]; cbn [op_wf] in Ho.
  - destruct Ho as [Hst Hents]. unfold w_save in *.
    destruct (hs_is_empty st && _). { exists []. now rewrite app_nil_r. }
    cbv zeta in *.
    pose proof (save_entries_exact ents w0 c0 _ H0 Hents) as H1.
    pose proof (save_state_inv' _ _ _ st H1 Hst) as H2.
    set (w2 := save_state st (fold_left (fun w e => save_entry e w) ents w0)) in *.
    assert (Hq2 : w_seq w2 = w_seq w0).
    { subst w2. rewrite (proj2 (save_state_names _ _)). apply save_entries_names. }
    clearbody w2. rewrite <- app_assoc in H2.
    destruct (pw_flushed (w_pw w2) <? w_segsize w2).
    + eexists. destruct (negb _ || _); [apply w_sync_op_inv|]; exact H2.
    + rewrite w_cut_seq in Hq. lia.
  - unfold w_save_snapshot.
    pose proof (w_encode_inv _ _ _ c_snapshotType (Some (snap_marshal sn)) H0 (enc_ok_snap sn)) as H1.
    eexists. apply w_sync_op_inv. destruct (w_enti _ <? sn_index sn); [apply w_set_enti_inv|]; exact H1.
  - exists []. rewrite app_nil_r. destruct H0 as [? ? ? ? ? ? ? ? ? ?]. unfold w_release. constructor; auto.
  - exists []. rewrite app_nil_r. now apply w_sync_op_inv.
Qed.

Lemma w_run_from_append : forall ops w c0 recs,
  tinv w c0 recs -> Forall op_wf ops -> w_seq (fold_left w_step ops w) = w_seq w ->
  exists more, tinv (fold_left w_step ops w) c0 (recs ++ more).
Proof.
  induction ops as [|o ops IH]; intros w c0 recs H Hops Hq.
  - exists []. now rewrite app_nil_r.
  - inversion Hops as [|? ? Ho Hr]; subst. cbn [fold_left] in *.
    assert (Hm : w_seq w <= w_seq (w_step w o)) by apply w_step_seq_mono.
    assert (Hm2 : w_seq (w_step w o) <= w_seq (fold_left w_step ops (w_step w o))).
    { clear. generalize (w_step w o). induction ops as [|o' r IH]; intros w'; [cbn; lia|].
      cbn [fold_left]. pose proof (w_step_seq_mono w' o'). specialize (IH (w_step w' o')). lia. }
    destruct (w_step_append w c0 recs o H Ho ltac:(lia)) as (m1 & H1).
    destruct (IH _ _ _ H1 Hr ltac:(lia)) as (m2 & H2).
    exists (m1 ++ m2). now rewrite app_assoc.
Qed.

(* ---------- the writer that Open + ReadAll leave behind on a recovered one-file directory ---------- *)
Lemma writer_after_single opt seg f at_ recs1 z s1 :
  sg_bytes f = fst (encode_all 0 recs1) ++ zeros z -> (z = 0 \/ 8 <= z) -> sg_idx f <= sn_index at_ ->
  Forall enc_ok recs1 -> ra_fold at_ ra_init (stored 0 recs1) = inl s1 -> data_ok (ra_meta s1) ->
  exists w, writer_after opt seg [f] at_ = Some w /\ tinv w 0 recs1 /\
            sg_bytes (tail_file w) = reopen_tail (blen (fst (encode_all 0 recs1))) (sg_bytes f).
Proof.
  intros Hb Hz Hi Hok Hf Hm. unfold writer_after, select_files. cbn [search_index].
  assert (E : (sg_idx f <=? sn_index at_) = true) by now apply N.leb_le.
  rewrite E. cbn [skipn valid_seq negb andb N.eqb map rev app].
  change (valid_seq [f] 0) with true. cbv iota. cbn [map].
  rewrite Hb.
  match goal with |- context [read_all at_ ?l] =>
    replace (read_all at_ l)
      with (RAOk (ra_meta s1) (ra_st s1) (ra_ents s1) (blen (fst (encode_all 0 recs1))) (snd (encode_all 0 recs1)))
      by (symmetry; apply (read_all_stream at_ recs1 z s1); auto) end.
  match goal with |- context [decode_all ?l] => destruct (decode_all l) as [[rs v] o] end.
  eexists. split; [reflexivity|]. split.
  - constructor; cbn [w_tail w_crc w_pw w_sync w_seq w_meta w_state]; auto; try discriminate.
    + reflexivity.
    + apply btake_app_exact.
    + unfold pw_total. cbn [pw_flushed pw_buf]. rewrite btake_app_exact. lia.
    + unfold hs_wf. cbn. repeat split; reflexivity.
  - cbn [tail_file sg_bytes w_tail w_tailsize]. unfold reopen_tail.
    rewrite btake_app_exact. rewrite blen_app, zeros_len. do 2 f_equal. 
Qed.

(* ---------- two generations ----------
   A recovery left a one-file directory whose tail holds exactly the records [recs1] (the decoded prefix)
   followed by zeros. Whatever well-formed operations are then run on the wal that Open + ReadAll returned
   (without leaving the segment), the tail is the encoder's stream of recs1 ++ more, where [more] are records
   written in this generation: the next reopen decodes exactly the recovered prefix followed by what was
   appended — nothing that the recovery had cut off can come back. *)
Theorem two_generation opt seg f at_ recs1 z s1 cont :
  sg_bytes f = fst (encode_all 0 recs1) ++ zeros z -> (z = 0 \/ 8 <= z) -> sg_idx f <= sn_index at_ ->
  Forall enc_ok recs1 -> ra_fold at_ ra_init (stored 0 recs1) = inl s1 -> data_ok (ra_meta s1) ->
  Forall op_wf cont ->
  exists w, writer_after opt seg [f] at_ = Some w /\
    all_zero (bdrop (blen (fst (encode_all 0 recs1))) (sg_bytes (tail_file w))) = true /\
    let w' := fold_left w_step cont w in
    (w_seq w' = w_seq w ->
     exists more, Forall enc_ok (recs1 ++ more) /\
       w_tail w' = fst (encode_all 0 (recs1 ++ more)) /\
       forall z', (z' = 0 \/ 8 <= z') ->
         decode_all [w_tail w' ++ zeros z'] = (stored 0 (recs1 ++ more), None, blen (w_tail w'))).
Proof.
  intros Hb Hz Hi Hok Hf Hm Hc.
  destruct (writer_after_single opt seg f at_ recs1 z s1 Hb Hz Hi Hok Hf Hm) as (w & Hw & Ht & Htail).
  exists w. split; [exact Hw|]. split.
  - rewrite Htail. apply reopen_tail_zero.
  - cbv zeta. intros Hq.
    destruct (w_run_from_append cont w 0 recs1 Ht Hc Hq) as (more & H').
    exists more. split; [apply (ti_ok _ _ _ H')|]. split; [apply (ti_tail _ _ _ H')|].
    intros z' Hz'. rewrite (ti_tail _ _ _ H'). apply decode_all_roundtrip; [apply (ti_ok _ _ _ H')|exact Hz'].
Qed.
