(* Wal/ProofsDecode.v — decoding what the encoder wrote: one frame, then whole streams. *)
From ZV Require Import Common.Bytes Wal.Consts Wal.Crc Wal.Proto Wal.Model
  Wal.ProofsCrc Wal.ProofsProto Wal.ProofsFrame.
From Coq Require Import ZifyN ZifyNat ZifyBool Lia.
Open Scope N_scope.

(* a record the encoder can have produced: fields in range, payload below the decoder's size limit *)
Record rec_ok (r : wrecord) : Prop := {
  ro_type : r_type r < 2 ^ 64;
  ro_crc : r_crc r < 2 ^ 32;
  ro_len : opt_len (r_data r) < 104857000 }.

Lemma rec_ok_marshal_len r : rec_ok r -> 3 <= blen (record_marshal r) < 104857592.
Proof.
  intros [_ _ Hl]. pose proof (record_marshal_len r). pose proof (length_ge3_record r).
  unfold blen in *. lia.
Qed.

Definition crc_after (crc : N) (r : wrecord) : N :=
  if r_type r =? c_crcType then crc else crc_update crc (data_or_nil (r_data r)).

(* the stored crc is right: what encoder.encode guarantees *)
Definition crc_consistent (crc : N) (r : wrecord) : Prop :=
  r_type r = c_crcType \/ r_crc r = crc_update crc (data_or_nil (r_data r)).

Lemma decode_record_frame fuel r rest others off crc :
  rec_ok r -> crc_consistent crc r ->
  decode_record (S fuel)
    {| d_brs := (frame (record_marshal r) ++ rest) :: others; d_off := off; d_crc := crc |} =
  DRec r {| d_brs := rest :: others; d_off := off + blen (frame (record_marshal r)); d_crc := crc_after crc r |}.
Proof.
  intros Hok Hcrc. pose proof (rec_ok_marshal_len r Hok) as [Hge Hlt].
  rewrite (frame_blen (record_marshal r)).
  set (p := record_marshal r) in *. set (n := blen p) in *.
  assert (Hn56 : n < 2 ^ 56) by (eapply N.lt_trans; [exact Hlt|reflexivity]).
  pose proof (frame_pad_lt n) as Hpad.
  cbn [decode_record d_brs d_off d_crc].
  unfold frame. fold n. rewrite <- !app_assoc.
  set (lf := frame_len_field n).
  assert (Hlb : btake 8 (le64 lf ++ p ++ zeros (frame_pad n) ++ rest) = le64 lf).
  { change 8 with (blen (le64 lf)). apply btake_app_exact. }
  assert (Hbody : bdrop 8 (le64 lf ++ p ++ zeros (frame_pad n) ++ rest) = p ++ zeros (frame_pad n) ++ rest).
  { change 8 with (blen (le64 lf)). apply bdrop_app_exact. }
  rewrite Hlb, Hbody. rewrite le64_blen.
  change (8 =? 0) with false. change (8 =? 8) with true. change (8 <? 8) with false. cbn [orb andb].
  rewrite le64_roundtrip by (apply frame_len_field_lt; exact Hn56).
  assert (E0 : (lf =? 0) = false).
  { apply N.eqb_neq. apply frame_len_field_pos; [exact Hn56|lia]. }
  rewrite E0. cbv zeta.
  unfold lf. rewrite frame_rec_bytes_field, frame_pad_bytes_field by exact Hn56.
  assert (E1 : (c_maxWALEntrySizeLimit - frame_pad n <=? n) = false).
  { apply N.leb_gt. unfold c_maxWALEntrySizeLimit. lia. }
  rewrite E1.
  assert (Hdata : btake (n + frame_pad n) (p ++ zeros (frame_pad n) ++ rest) = p ++ zeros (frame_pad n)).
  { rewrite app_assoc. replace (n + frame_pad n) with (blen (p ++ zeros (frame_pad n)))
      by (rewrite blen_app, zeros_len; reflexivity). apply btake_app_exact. }
  assert (Hrest : bdrop (n + frame_pad n) (p ++ zeros (frame_pad n) ++ rest) = rest).
  { rewrite app_assoc. replace (n + frame_pad n) with (blen (p ++ zeros (frame_pad n)))
      by (rewrite blen_app, zeros_len; reflexivity). apply bdrop_app_exact. }
  rewrite Hdata, Hrest. rewrite blen_app, zeros_len. fold n.
  rewrite N.ltb_irrefl.
  assert (Hp : btake n (p ++ zeros (frame_pad n)) = p) by apply btake_app_exact.
  rewrite Hp. unfold p at 1. rewrite record_roundtrip; try apply Hok.
  2:{ eapply N.lt_trans; [apply Hok|reflexivity]. }
  unfold crc_after, d_with. cbn [d_brs d_off d_crc].
  unfold c_frameSizeBytes.
  replace (off + 8 + n + frame_pad n) with (off + (8 + n + frame_pad n)) by lia.
  destruct (r_type r =? c_crcType) eqn:Et; [reflexivity|].
  destruct Hcrc as [Hc|Hc]; [apply N.eqb_neq in Et; contradiction|].
  rewrite Hc, N.eqb_refl. reflexivity.
Qed.

(* ---------- whole streams ---------- *)
Definition enc_ok (x : N * option bytes) : Prop :=
  fst x < 2 ^ 64 /\ opt_len (snd x) < 104857000 /\ bytes_lt (data_or_nil (snd x)) /\
  (fst x = c_crcType -> snd x = None).

Lemma crc_update_nil crc : crc_update crc [] = crc.
Proof.
  unfold crc_update, crc_raw_tab. cbn [fold_left].
  rewrite N.lxor_assoc, N.lxor_nilpotent. apply N.lxor_0_r.
Qed.

Lemma enc_ok_rec crc x :
  crc < 2 ^ 32 -> enc_ok x ->
  let r := {| r_type := fst x; r_crc := crc_update crc (data_or_nil (snd x)); r_data := snd x |} in
  rec_ok r /\ crc_consistent crc r /\ crc_after crc r = crc_update crc (data_or_nil (snd x)) /\
  crc_update crc (data_or_nil (snd x)) < 2 ^ 32.
Proof.
  intros Hc (Ht & Hl & Hb & Hn). cbv zeta.
  assert (Hlt : crc_update crc (data_or_nil (snd x)) < 2 ^ 32) by now apply crc_update_lt.
  repeat split; cbn [r_type r_crc r_data]; auto.
  - right. reflexivity.
  - unfold crc_after. cbn [r_type r_data]. destruct (fst x =? c_crcType) eqn:E; [|reflexivity].
    apply N.eqb_eq in E. rewrite (Hn E). cbn [data_or_nil]. symmetry. apply crc_update_nil.
Qed.

Lemma encode_all_cons crc ty d rest :
  encode_all crc ((ty, d) :: rest) =
  (frame (record_marshal {| r_type := ty; r_crc := crc_update crc (data_or_nil d); r_data := d |})
     ++ fst (encode_all (crc_update crc (data_or_nil d)) rest),
   snd (encode_all (crc_update crc (data_or_nil d)) rest)).
Proof.
  cbn [encode_all]. unfold encode_rec.
  destruct (encode_all (crc_update crc (data_or_nil d)) rest) as [bs c'']. reflexivity.
Qed.

Lemma encode_all_crc_lt : forall recs crc,
  crc < 2 ^ 32 -> Forall enc_ok recs -> snd (encode_all crc recs) < 2 ^ 32.
Proof.
  induction recs as [|[ty d] rest IH]; intros crc Hc Hok; [exact Hc|].
  rewrite encode_all_cons. cbn [snd]. inversion Hok as [|? ? H1 H2]; subst.
  apply IH; [|assumption]. destruct H1 as (_ & _ & Hb & _). now apply crc_update_lt.
Qed.

Lemma decode_all_stream : forall recs crc off fuel rest others acc,
  crc < 2 ^ 32 -> Forall enc_ok recs ->
  decode_all_loop (length recs + fuel)
    {| d_brs := (fst (encode_all crc recs) ++ rest) :: others; d_off := off; d_crc := crc |} acc =
  decode_all_loop fuel
    {| d_brs := rest :: others; d_off := off + blen (fst (encode_all crc recs));
       d_crc := snd (encode_all crc recs) |} (rev (stored crc recs) ++ acc).
Proof.
  induction recs as [|[ty d] recs IH]; intros crc off fuel rest others acc Hc Hok.
  - cbn [encode_all fst snd length Nat.add app stored rev]. rewrite blen_nil, N.add_0_r. reflexivity.
  - inversion Hok as [|? ? H1 H2]; subst.
    destruct (enc_ok_rec crc (ty, d) Hc H1) as (Hrok & Hcons & Hafter & Hlt). cbn [fst snd] in *.
    rewrite encode_all_cons. cbn [fst snd length Nat.add stored].
    set (r := {| r_type := ty; r_crc := crc_update crc (data_or_nil d); r_data := d |}) in *.
    cbn [decode_all_loop]. unfold decode. cbn [d_brs].
    rewrite <- app_assoc. rewrite decode_record_frame by assumption.
    rewrite Hafter.
    assert (Hcont : decode_all_loop (length recs + fuel)
              {| d_brs := (fst (encode_all (crc_update crc (data_or_nil d)) recs) ++ rest) :: others;
                 d_off := off + blen (frame (record_marshal r)); d_crc := crc_update crc (data_or_nil d) |}
              (r :: acc) =
            decode_all_loop fuel
              {| d_brs := rest :: others;
                 d_off := off + blen (frame (record_marshal r) ++ fst (encode_all (crc_update crc (data_or_nil d)) recs));
                 d_crc := snd (encode_all (crc_update crc (data_or_nil d)) recs) |}
              (rev (r :: stored (crc_update crc (data_or_nil d)) recs) ++ acc)).
    { rewrite IH by assumption. f_equal.
      - f_equal. rewrite blen_app. lia.
      - cbn [rev]. rewrite <- app_assoc. reflexivity. }
    destruct (r_type r =? c_crcType) eqn:Et.
    + unfold crc_record_ok, d_update_crc, d_with. cbn [d_crc d_brs d_off r_crc r].
      rewrite N.eqb_refl, orb_true_r. exact Hcont.
    + exact Hcont.
Qed.

(* ---------- the end of a segment ---------- *)
Lemma btake_zeros8 k x : 8 <= k -> btake 8 (zeros k ++ x) = zeros 8.
Proof.
  intros Hk. replace k with (8 + (k - 8)) by lia. unfold zeros at 1.
  rewrite N2Nat.inj_add, repeat_app, <- app_assoc. change (repeat 0 (N.to_nat 8)) with (zeros 8).
  change 8 with (blen (zeros 8)) at 1. apply btake_app_exact.
Qed.

Lemma decode_end_zeros fuel k x off crc :
  8 <= k ->
  decode_record (S fuel) {| d_brs := [zeros k ++ x]; d_off := off; d_crc := crc |} =
  DEof {| d_brs := []; d_off := off; d_crc := crc |}.
Proof.
  intros Hk. cbn [decode_record d_brs]. rewrite btake_zeros8 by exact Hk. reflexivity.
Qed.

Lemma decode_end_nil fuel off crc :
  decode_record (S fuel) {| d_brs := [[]]; d_off := off; d_crc := crc |} =
  DEof {| d_brs := []; d_off := off; d_crc := crc |}.
Proof. reflexivity. Qed.

(* ---------- fuel is irrelevant once it exceeds total length / 8 ---------- *)
Lemma bdrop_length bs k : length (bdrop k bs) = (length bs - N.to_nat k)%nat.
Proof. rewrite bdrop_skipn. apply skipn_length. Qed.
Lemma btake_length bs k : length (btake k bs) = Nat.min (N.to_nat k) (length bs).
Proof. rewrite btake_firstn. apply firstn_length. Qed.

Lemma total_len_cons b r : total_len (b :: r) = (length b + total_len r)%nat.
Proof. reflexivity. Qed.

Lemma decode_record_consumes : forall fuel d r d',
  decode_record fuel d = DRec r d' -> (total_len (d_brs d') + 8 <= total_len (d_brs d))%nat.
Proof.
  induction fuel as [|fuel IH]; intros d r d' H; [discriminate|].
  cbn [decode_record] in H.
  destruct (d_brs d) as [|br rest] eqn:Eb; [discriminate|].
  destruct ((blen (btake 8 br) =? 0) || (blen (btake 8 br) =? 8) && (le64_dec (btake 8 br) =? 0)) eqn:E0.
  - destruct rest as [|b2 rest2]; [discriminate|].
    apply IH in H. cbn [d_with d_brs] in H. rewrite total_len_cons. lia.
  - destruct (blen (btake 8 br) <? 8) eqn:E8; [discriminate|].
    assert (Hbr : (8 <= length br)%nat).
    { apply N.ltb_ge in E8. unfold blen in E8. rewrite btake_length in E8. lia. }
    cbv zeta in H.
    destruct (c_maxWALEntrySizeLimit - frame_pad_bytes (le64_dec (btake 8 br)) <=? frame_rec_bytes (le64_dec (btake 8 br)));
      [discriminate|].
    match type of H with (if ?c then _ else _) = _ => destruct c end; [discriminate|].
    match type of H with match ?x with _ => _ end = _ => destruct x as [rr|e] end.
    + assert (Hd : forall o c, (total_len (d_brs (d_with
             (d_with d (bdrop (frame_rec_bytes (le64_dec (btake 8 br)) + frame_pad_bytes (le64_dec (btake 8 br))) (bdrop 8 br) :: rest)
                (d_off d) (d_crc d)) (d_brs (d_with d (bdrop (frame_rec_bytes (le64_dec (btake 8 br)) + frame_pad_bytes (le64_dec (btake 8 br))) (bdrop 8 br) :: rest)
                (d_off d) (d_crc d))) o c)) + 8 <= total_len (br :: rest))%nat).
      { intros o c. cbn [d_with d_brs]. rewrite !total_len_cons, !bdrop_length. change (N.to_nat 8) with 8%nat. lia. }
      destruct (r_type rr =? c_crcType).
      * inversion H; subst. apply Hd.
      * match type of H with (if ?c then _ else _) = _ => destruct c end.
        -- inversion H; subst. apply Hd.
        -- destruct (is_torn _ _); discriminate.
    + destruct (is_torn _ _); discriminate.
Qed.

Lemma decode_consumes d r d' :
  decode d = DRec r d' -> (total_len (d_brs d') + 8 <= total_len (d_brs d))%nat.
Proof. apply decode_record_consumes. Qed.

Lemma decode_all_loop_fuel : forall f1 f2 d acc,
  (total_len (d_brs d) / 8 < f1)%nat -> (total_len (d_brs d) / 8 < f2)%nat ->
  decode_all_loop f1 d acc = decode_all_loop f2 d acc.
Proof.
  induction f1 as [|f1 IH]; intros f2 d acc H1 H2; [lia|].
  destruct f2 as [|f2]; [lia|]. cbn [decode_all_loop].
  destruct (decode d) as [r d'|d'|e d'] eqn:Ed; try reflexivity.
  pose proof (decode_consumes _ _ _ Ed) as Hc.
  assert (Hlt : (total_len (d_brs d') / 8 < total_len (d_brs d) / 8)%nat).
  { apply Nat.div_lt_upper_bound; [lia|].
    pose proof (Nat.div_mod (total_len (d_brs d)) 8 ltac:(lia)).
    pose proof (Nat.mod_upper_bound (total_len (d_brs d)) 8 ltac:(lia)). lia. }
  destruct (r_type r =? c_crcType).
  - destruct (crc_record_ok d' r); [|reflexivity].
    apply IH; unfold d_update_crc, d_with; cbn [d_brs]; lia.
  - apply IH; lia.
Qed.

(* ---------- (a) round trip of one segment ---------- *)
Lemma frame_len_ge8 p : (8 <= length (frame p))%nat.
Proof. unfold frame. rewrite app_length. cbn [length le64]. lia. Qed.

Lemma encode_all_len_ge : forall recs crc, (8 * length recs <= length (fst (encode_all crc recs)))%nat.
Proof.
  induction recs as [|[ty d] recs IH]; intros crc; [cbn; lia|].
  rewrite encode_all_cons. cbn [fst length]. rewrite app_length.
  pose proof (frame_len_ge8 (record_marshal {| r_type := ty; r_crc := crc_update crc (data_or_nil d); r_data := d |})).
  specialize (IH (crc_update crc (data_or_nil d))). lia.
Qed.

Lemma decode_all_loop_end_zeros fuel k x off crc acc :
  8 <= k ->
  decode_all_loop (S fuel) {| d_brs := [zeros k ++ x]; d_off := off; d_crc := crc |} acc = (rev acc, None, off).
Proof. intros Hk. cbn [decode_all_loop]. unfold decode. cbn [d_brs length]. now rewrite decode_end_zeros. Qed.

Lemma decode_all_loop_end_nil fuel off crc acc :
  decode_all_loop (S fuel) {| d_brs := [[]]; d_off := off; d_crc := crc |} acc = (rev acc, None, off).
Proof. reflexivity. Qed.

(* the general single-segment statement: an image that starts with the encoder's stream for [recs]
   decodes to exactly those records and then whatever the rest of the image decodes to *)
Theorem decode_all_prefix_stable recs junk crc0 :
  crc0 < 2 ^ 32 -> Forall enc_ok recs ->
  forall f, (total_len [fst (encode_all crc0 recs) ++ junk] / 8 < f)%nat ->
  decode_all_loop f {| d_brs := [fst (encode_all crc0 recs) ++ junk]; d_off := 0; d_crc := crc0 |} [] =
  let '(rs, v, off) :=
    decode_all_loop f {| d_brs := [junk]; d_off := blen (fst (encode_all crc0 recs));
                         d_crc := snd (encode_all crc0 recs) |} [] in
  (stored crc0 recs ++ rs, v, off).
Proof.
  intros Hc Hok f Hf.
  pose proof (encode_all_len_ge recs crc0) as Hlen.
  assert (Hge : (length recs <= f)%nat).
  { cbn [total_len fold_right] in Hf. rewrite app_length in Hf.
    assert (length recs <= (length (fst (encode_all crc0 recs)) + length junk + 0) / 8)%nat; [|lia].
    apply Nat.div_le_lower_bound; lia. }
  replace f with (length recs + (f - length recs))%nat at 1 by lia.
  rewrite decode_all_stream by assumption. rewrite N.add_0_l, app_nil_r.
  set (d := {| d_brs := [junk]; d_off := _; d_crc := _ |}).
  assert (Hfuel : (total_len (d_brs d) / 8 < f - length recs)%nat).
  { subst d. cbn [d_brs total_len fold_right] in *. rewrite app_length in Hf.
    apply Nat.div_lt_upper_bound; [lia|].
    assert (H8 : ((length (fst (encode_all crc0 recs)) + length junk + 0) / 8 < f)%nat) by exact Hf.
    pose proof (Nat.div_mod (length (fst (encode_all crc0 recs)) + length junk + 0) 8 ltac:(lia)).
    pose proof (Nat.mod_upper_bound (length (fst (encode_all crc0 recs)) + length junk + 0) 8 ltac:(lia)).
    nia. }
  assert (Hfuel2 : (total_len (d_brs d) / 8 < f)%nat) by lia.
  clearbody d.
  (* generalise the accumulator *)
  assert (G : forall g d acc0, (total_len (d_brs d) / 8 < g)%nat ->
            decode_all_loop g d acc0 =
            let '(rs, v, off) := decode_all_loop g d [] in (rev acc0 ++ rs, v, off)).
  { clear. induction g as [|g IH]; intros d acc0 Hg; [lia|].
    cbn [decode_all_loop].
    destruct (decode d) as [r d'|d'|e d'] eqn:Ed; cbn [rev app]; try (rewrite app_nil_r; reflexivity).
    pose proof (decode_consumes _ _ _ Ed) as Hc.
    assert (Hlt : (total_len (d_brs d') / 8 < g)%nat).
    { assert (total_len (d_brs d') / 8 < total_len (d_brs d) / 8)%nat; [|lia].
      apply Nat.div_lt_upper_bound; [lia|].
      pose proof (Nat.div_mod (total_len (d_brs d)) 8 ltac:(lia)).
      pose proof (Nat.mod_upper_bound (total_len (d_brs d)) 8 ltac:(lia)). lia. }
    destruct (r_type r =? c_crcType).
    - destruct (crc_record_ok d' r); [|cbn [rev app]; rewrite app_nil_r; reflexivity].
      rewrite (IH _ (r :: acc0)) by (unfold d_update_crc, d_with; cbn [d_brs]; exact Hlt).
      rewrite (IH _ [r]) by (unfold d_update_crc, d_with; cbn [d_brs]; exact Hlt).
      destruct (decode_all_loop g _ []) as [[rs v] off]. cbn [rev app]. now rewrite <- app_assoc.
    - rewrite (IH _ (r :: acc0)) by exact Hlt. rewrite (IH _ [r]) by exact Hlt.
      destruct (decode_all_loop g d' []) as [[rs v] off]. cbn [rev app]. now rewrite <- app_assoc. }
  rewrite (decode_all_loop_fuel (f - length recs) f) by assumption.
  rewrite G by assumption. rewrite rev_involutive. reflexivity.
Qed.
