(* Wal/ProofsLog.v — ReadAll's entry placement: last write per index wins, what follows is truncated. *)
From ZV Require Import Common.Bytes Wal.Consts Wal.Crc Wal.Proto Wal.Model Wal.Spec Wal.ProofsProto.
From Coq Require Import ZifyN ZifyNat ZifyBool Lia.
Open Scope N_scope.

(* contiguous indices start+1, start+2, ... *)
Fixpoint contiguous (start : N) (ents : list entry) : Prop :=
  match ents with
  | [] => True
  | e :: r => e_index e = start + 1 /\ contiguous (start + 1) r
  end.

Lemma contiguous_app start a b :
  contiguous start (a ++ b) <-> contiguous start a /\ contiguous (start + nlen a) b.
Proof.
  revert start. induction a as [|x a IH]; intros start; cbn [app contiguous].
  - unfold nlen. cbn. rewrite N.add_0_r. tauto.
  - rewrite IH. unfold nlen. cbn [length]. replace (start + 1 + N.of_nat (length a)) with (start + N.of_nat (S (length a))) by lia.
    tauto.
Qed.

Lemma contiguous_firstn start ents k : contiguous start ents -> contiguous start (firstn k ents).
Proof.
  revert start k. induction ents as [|x r IH]; intros start [|k]; cbn; auto.
  intros [H1 H2]. split; auto.
Qed.

Lemma contiguous_index start ents e : contiguous start ents -> In e ents ->
  start < e_index e <= start + nlen ents.
Proof.
  revert start. induction ents as [|x r IH]; intros start Hc Hin; [contradiction|].
  destruct Hc as [H1 H2]. unfold nlen in *. cbn [length]. destruct Hin as [->|Hin]; [lia|].
  specialize (IH _ H2 Hin). lia.
Qed.

Lemma place_contiguous start ents e ents' :
  contiguous start ents -> place start ents e = Some ents' -> contiguous start ents'.
Proof.
  unfold place. intros Hc H.
  destruct (start <? e_index e) eqn:E1; [|now inversion H; subst].
  cbv zeta in H. destruct (nlen ents <? e_index e - start - 1) eqn:E2; [discriminate|].
  inversion H; subst. apply contiguous_app. split; [now apply contiguous_firstn|].
  cbn [contiguous]. split; [|exact I].
  apply N.ltb_lt in E1. apply N.ltb_ge in E2. unfold nlen in *. rewrite firstn_length. lia.
Qed.

(* what place does to the list: keep the entries with a smaller index, append e *)
Lemma place_filter start ents e ents' :
  contiguous start ents -> start < e_index e -> place start ents e = Some ents' ->
  ents' = filter (fun x => e_index x <? e_index e) ents ++ [e].
Proof.
  unfold place. intros Hc Hlt H.
  assert (E1 : (start <? e_index e) = true) by now apply N.ltb_lt. rewrite E1 in H. cbv zeta in H.
  destruct (nlen ents <? e_index e - start - 1) eqn:E2; [discriminate|].
  inversion H; subst. f_equal. apply N.ltb_ge in E2. clear H E1.
  set (up := e_index e - start - 1) in *.
  assert (Hup : e_index e = start + up + 1) by lia. clearbody up.
  revert start up Hc Hlt E2 Hup. induction ents as [|x r IH]; intros start up Hc Hlt E2 Hup.
  - now rewrite firstn_nil.
  - destruct Hc as [Hx Hr]. cbn [filter]. unfold nlen in E2. cbn [length] in E2.
    destruct (N.eq_dec up 0) as [->|Hnz].
    + cbn [N.to_nat firstn].
      assert (E : (e_index x <? e_index e) = false) by (apply N.ltb_ge; lia). rewrite E.
      (* nothing later is smaller either *)
      assert (Hall : forall y, In y r -> (e_index y <? e_index e) = false).
      { intros y Hy. apply N.ltb_ge. pose proof (contiguous_index _ _ _ Hr Hy). lia. }
      clear -Hall. induction r as [|y r IH]; [reflexivity|]. cbn [filter].
      rewrite Hall by (left; reflexivity). apply IH. intros z Hz. apply Hall. now right.
    + assert (E : (e_index x <? e_index e) = true) by (apply N.ltb_lt; lia). rewrite E.
      replace (N.to_nat up) with (S (N.to_nat (up - 1))) by lia. cbn [firstn]. f_equal.
      apply (IH (start + 1) (up - 1)); auto; unfold nlen; lia.
Qed.

Lemma visible_snoc es e :
  visible (es ++ [e]) = filter (fun x => e_index x <? e_index e) (visible es) ++ [e].
Proof.
  induction es as [|x r IH]; [reflexivity|].
  cbn [app visible]. rewrite forallb_app. cbn [forallb]. rewrite andb_true_r.
  destruct (forallb (fun e' => e_index x <? e_index e') r) eqn:Ef; cbn [andb].
  - destruct (e_index x <? e_index e) eqn:Ex; cbn [filter]; rewrite Ex; cbn [app]; now rewrite IH.
  - exact IH.
Qed.

Lemma filter_comm {A} (P Q : A -> bool) l : filter P (filter Q l) = filter Q (filter P l).
Proof.
  induction l as [|x l IH]; [reflexivity|]. cbn [filter].
  destruct (P x) eqn:Ep, (Q x) eqn:Eq; cbn [filter]; rewrite ?Ep, ?Eq, IH; reflexivity.
Qed.

Lemma filter_none {A} (P : A -> bool) l : (forall x, In x l -> P x = false) -> filter P l = [].
Proof.
  induction l as [|x l IH]; intros H; [reflexivity|]. cbn [filter].
  rewrite (H x (or_introl eq_refl)). apply IH. intros y Hy. apply H. now right.
Qed.

(* (c) ReadAll's fold over ANY sequence of entry records, opened at snapshot index [start]:
   if it does not refuse, it returns exactly the visible entries (no later write had an index <= theirs)
   that lie beyond the snapshot, with contiguous indices start+1, start+2, ... *)
Theorem place_all_visible start : forall es ents0 pre ents,
  contiguous start ents0 -> ents0 = filter (fun x => start <? e_index x) (visible pre) ->
  place_all start ents0 es = Some ents ->
  ents = filter (fun x => start <? e_index x) (visible (pre ++ es)) /\ contiguous start ents.
Proof.
  induction es as [|e r IH]; intros ents0 pre ents Hc Hv H.
  - cbn in H. inversion H; subst. now rewrite app_nil_r.
  - cbn [place_all] in H. destruct (place start ents0 e) as [ents1|] eqn:Ep; [|discriminate].
    pose proof (place_contiguous _ _ _ _ Hc Ep) as Hc1.
    replace (pre ++ e :: r) with ((pre ++ [e]) ++ r) by (rewrite <- app_assoc; reflexivity).
    apply (IH ents1 (pre ++ [e])); auto.
    rewrite visible_snoc, filter_app. cbn [filter].
    destruct (N.ltb_spec start (e_index e)) as [Hlt|Hge].
    + rewrite (place_filter _ _ _ _ Hc Hlt Ep). rewrite Hv. f_equal. apply filter_comm.
    + unfold place in Ep. assert (E : (start <? e_index e) = false) by now apply N.ltb_ge.
      rewrite E in Ep. inversion Ep; subst ents1. rewrite app_nil_r. symmetry. apply filter_none.
      intros x Hx. apply filter_In in Hx as [_ Hx]. apply N.ltb_lt in Hx. apply N.ltb_ge. lia.
Qed.

Lemma visible_In es e : In e (visible es) -> In e es.
Proof.
  induction es as [|x r IH]; [auto|]. cbn [visible].
  destruct (forallb _ r); cbn [In]; [intros [->|H]; auto | intros H; auto].
Qed.

(* characterisation: e is visible iff it was written and every later write has a larger index *)
Lemma visible_spec es e :
  In e (visible es) <-> exists a b, es = a ++ e :: b /\ forall y, In y b -> e_index e < e_index y.
Proof.
  induction es as [|x r IH].
  - cbn. split; [contradiction|]. intros (a & b & H & _). destruct a; discriminate.
  - cbn [visible]. destruct (forallb (fun e' => e_index x <? e_index e') r) eqn:Ef.
    + cbn [In]. rewrite IH. split.
      * intros [->|(a & b & -> & Hb)].
        -- exists [], r. split; [reflexivity|]. intros y Hy. rewrite forallb_forall in Ef.
           apply N.ltb_lt. now apply Ef.
        -- exists (x :: a), b. split; [reflexivity|exact Hb].
      * intros (a & b & E & Hb). destruct a as [|x' a]; cbn [app] in E; inversion E; subst.
        -- now left.
        -- right. exists a, b. split; [reflexivity|exact Hb].
    + rewrite IH. split.
      * intros (a & b & -> & Hb). exists (x :: a), b. split; [reflexivity|exact Hb].
      * intros (a & b & E & Hb). destruct a as [|x' a]; cbn [app] in E; inversion E; subst.
        -- exfalso. assert (forallb (fun e' => e_index e <? e_index e') b = true).
           { apply forallb_forall. intros y Hy. apply N.ltb_lt. now apply Hb. }
           congruence.
        -- exists a, b. split; [reflexivity|exact Hb].
Qed.

(* ReadAll's loop body on an entry record is [place] *)
Lemma ra_record_entry start d r s e :
  r_type r = c_entryType -> entry_unmarshal (data_or_nil (r_data r)) = POk e ->
  ra_record start d r s =
  match place (sn_index start) (ra_ents s) e with
  | None => inr EOutOfRange
  | Some ents' => inl ({| ra_meta := ra_meta s; ra_st := ra_st s; ra_ents := ents'; ra_match := ra_match s |}, d)
  end.
Proof.
  intros Ht He. unfold ra_record, place. rewrite Ht, N.eqb_refl, He.
  destruct (sn_index start <? e_index e); [|reflexivity].
  cbv zeta. destruct (nlen (ra_ents s) <? e_index e - sn_index start - 1); reflexivity.
Qed.
