(* Wal/ProofsFlip.v — a single inverted bit inside a record's Data is always detected. *)
From ZV Require Import Common.Bytes Wal.Consts Wal.Crc Wal.Proto Wal.Model
  Wal.ProofsCrc Wal.ProofsProto Wal.ProofsFrame Wal.ProofsDecode Wal.ProofsTorn Wal.ProofsPrefix.
From Coq Require Import ZifyN ZifyNat ZifyBool Lia.
Open Scope N_scope.

Lemma blen_flip p b b' q : blen (p ++ b' :: q) = blen (p ++ b :: q).
Proof. now rewrite !blen_app, !blen_cons. Qed.

Lemma bytes_lt_split p b q : bytes_lt (p ++ b :: q) -> bytes_lt p /\ b < 256 /\ bytes_lt q.
Proof.
  unfold bytes_lt. intros H. apply Forall_app in H as [Hp H]. inversion H; subst. auto.
Qed.

(* the frame of record x with bit k of one Data byte inverted (everything else as written) *)
Definition flipped_payload (crc1 ty : N) (p : bytes) (b k : N) (q : bytes) : bytes :=
  record_marshal {| r_type := ty; r_crc := crc_update crc1 (p ++ b :: q);
                    r_data := Some (p ++ N.lxor b (N.shiftl 1 k) :: q) |}.

Lemma flipped_payload_len crc1 ty p b k q :
  blen (flipped_payload crc1 ty p b k q) = blen (payload_of crc1 (ty, Some (p ++ b :: q))).
Proof.
  unfold flipped_payload, payload_of, stored_rec, record_marshal.
  cbn [r_type r_crc r_data fst snd data_or_nil opt_bytes_field].
  repeat (rewrite ?blen_cons, ?blen_app). reflexivity.
Qed.

Theorem data_bitflip_rejected crc1 ty p b k q :
  crc1 < 2 ^ 32 -> enc_ok (ty, Some (p ++ b :: q)) -> ty <> c_crcType -> k < 8 ->
  let n := blen (payload_of crc1 (ty, Some (p ++ b :: q))) in
  accepts crc1 n (flipped_payload crc1 ty p b k q ++ zeros (frame_pad n)) = false.
Proof.
  intros Hc (Hty & Hlen & Hb & _) Hnc Hk n. cbn [fst snd data_or_nil opt_len] in *.
  destruct (bytes_lt_split _ _ _ Hb) as (Hp & Hbb & Hq).
  unfold accepts. subst n. rewrite <- (flipped_payload_len crc1 ty p b k q), btake_app_exact.
  unfold flipped_payload. rewrite record_roundtrip; cbn [r_type r_crc r_data opt_len data_or_nil].
  - assert (E1 : (ty =? c_crcType) = false) by now apply N.eqb_neq. rewrite E1. cbn [orb].
    apply N.eqb_neq. intros E. symmetry in E. revert E. apply crc_single_bit; auto.
  - exact Hty.
  - apply crc_update_lt; [exact Hc|exact Hb].
  - rewrite (blen_flip p b _ q). eapply N.lt_trans; [exact Hlen|reflexivity].
Qed.

(* hence: in a segment image that is the written stream with one Data bit of one record inverted, decoding
   stops with an error at that record — the altered record is never returned *)
Theorem data_bitflip_detected recs1 ty p b k q t :
  Forall enc_ok recs1 -> enc_ok (ty, Some (p ++ b :: q)) -> ty <> c_crcType -> k < 8 ->
  let crc1 := snd (encode_all 0 recs1) in
  let n := blen (payload_of crc1 (ty, Some (p ++ b :: q))) in
  exists e, decode_all [fst (encode_all 0 recs1) ++
                        le64 (frame_len_field n) ++ (flipped_payload crc1 ty p b k q ++ zeros (frame_pad n)) ++ t]
            = (stored 0 recs1, Some e, blen (fst (encode_all 0 recs1))).
Proof.
  intros Hok Hx Hnc Hk crc1 n.
  assert (Hcrc1 : crc1 < 2 ^ 32) by (apply encode_all_crc_lt; [reflexivity|exact Hok]).
  pose proof (payload_len_ok crc1 _ Hcrc1 Hx) as Hn. fold n in Hn.
  assert (Hb : blen (flipped_payload crc1 ty p b k q ++ zeros (frame_pad n)) = n + frame_pad n).
  { rewrite blen_app, zeros_len, flipped_payload_len. reflexivity. }
  pose proof (data_bitflip_rejected crc1 ty p b k q Hcrc1 Hx Hnc Hk) as Ha. cbv zeta in Ha. fold n in Ha.
  destruct (loop_not_accepted n _ t (blen (fst (encode_all 0 recs1))) crc1 Hn Hb Ha) as (e & _ & Hl).
  exists e. apply decode_all_then; [exact Hok|exact Hl].
Qed.
