(* Wal/ProofsCapstone.v — end to end for a history that stays in its first segment: the crash cuts the
   segment at ANY byte offset behind the last completed fdatasync and zero-fills; what a restarting node
   runs (Open + ReadAll, Repair and a second Open + ReadAll when needed) fails or returns exactly the effect
   of a prefix of the saved records that contains every record saved before that fdatasync. *)
From ZV Require Import Common.Bytes Wal.Consts Wal.Crc Wal.Proto Wal.Model Wal.Spec
  Wal.ProofsCrc Wal.ProofsProto Wal.ProofsFrame Wal.ProofsDecode Wal.ProofsTorn Wal.ProofsPrefix Wal.ProofsRepair
  Wal.ProofsLog Wal.ProofsWriter Wal.ProofsNames Wal.ProofsReadAll Wal.ProofsEffect Wal.ProofsHistory.
From Coq Require Import ZifyN ZifyNat ZifyBool Lia.
Open Scope N_scope.

(* ---------- Open on a one-file directory ---------- *)
Lemma open_single f snap :
  sg_idx f <= sn_index snap -> open_read_all [f] snap = read_all snap [sg_bytes f].
Proof.
  intros H. unfold open_read_all, select_files. cbn [search_index].
  assert (E : (sg_idx f <=? sn_index snap) = true) by now apply N.leb_le.
  rewrite E. reflexivity.
Qed.

Definition after_repair (b : bytes) (r1 : rares) : rares :=
  match r1 with
  | RAOk _ _ _ _ _ => r1
  | RAErr EFileNotFound => r1
  | RAErr EPanic => r1
  | RAErr _ => match repair_last b with
               | RepFalse => r1
               | RepSame => read_all zero_snap [b]
               | RepTrunc off => read_all zero_snap [btake off b]
               end
  end.

Lemma final_single f :
  sg_idx f = 0 ->
  final_result (reopen [f] (Some zero_snap)) = after_repair (sg_bytes f) (read_all zero_snap [sg_bytes f]).
Proof.
  intros Hi. unfold final_result, reopen. cbn [ro_repair ro_first].
  rewrite open_single by (rewrite Hi; cbn; lia).
  unfold after_repair.
  destruct (read_all zero_snap [sg_bytes f]) as [m st e o c|e] eqn:Er; [reflexivity|].
  unfold repair. cbn [rev app].
  destruct e; try reflexivity;
    (destruct (repair_last (sg_bytes f)); [reflexivity| |];
     cbn [set_last_bytes]; rewrite open_single by (cbn [sg_idx]; rewrite ?Hi; cbn; lia);
     cbn [sg_bytes]; rewrite ?Er; reflexivity).
Qed.

(* ---------- folding ReadAll over a prefix of head ++ logical records ---------- *)
Lemma map_prefix {A B} (f : A -> B) : forall (l : list A) (p q : list B),
  p ++ q = map f l -> p = map f (firstn (length p) l).
Proof.
  induction l as [|x l IH]; intros p q H.
  - destruct p; [reflexivity|discriminate].
  - destruct p as [|y p]; [reflexivity|]. cbn [app map] in H. inversion H; subst.
    cbn [length firstn map]. f_equal. eapply IH; eauto.
Qed.

Lemma Forall_firstn' {A} (P : A -> Prop) : forall k l, Forall P l -> Forall P (firstn k l).
Proof. induction k as [|k IH]; intros [|x l] H; cbn; auto. inversion H; subst. constructor; auto. Qed.

Lemma ra_fold_hd2 meta :
  ra_fold zero_snap ra_init (stored 0 (hd2 meta)) =
  inl {| ra_meta := meta; ra_st := hs_empty; ra_ents := []; ra_match := false |}.
Proof.
  unfold hd2. cbn [stored ra_fold]. rewrite ra_step_crc by reflexivity.
  unfold ra_step, ra_record. cbn [r_type r_data ra_meta ra_init].
  change (c_metadataType =? c_entryType) with false. change (c_metadataType =? c_stateType) with false.
  change (c_metadataType =? c_metadataType) with true. cbv iota. reflexivity.
Qed.

Lemma effect_firstn0 L : effect zero_snap (firstn 0 L) = Some (hs_empty, []).
Proof. reflexivity. Qed.

Lemma fold_prefix meta L recs1 recs2 :
  recs1 ++ recs2 = hd2 meta ++ map rec_of_lrec L -> Forall lrec_wf L ->
  match ra_fold zero_snap ra_init (stored 0 recs1) with
  | inl s' => effect zero_snap (firstn (length recs1 - 2) L) = Some (ra_st s', ra_ents s')
  | inr _ => True
  end.
Proof.
  intros H Hwf.
  destruct recs1 as [|r1 [|r2 M1]].
  - cbn [stored ra_fold length Nat.sub]. apply effect_firstn0.
  - cbn [app hd2] in H. inversion H; subst. cbn [stored ra_fold length Nat.sub].
    rewrite ra_step_crc by reflexivity. apply effect_firstn0.
  - cbn [app hd2] in H. inversion H as [[E1 E2 E3]]. subst r1 r2.
    change ((c_crcType, None) :: (c_metadataType, meta) :: M1) with (hd2 meta ++ M1).
    rewrite stored_app, ra_fold_app, ra_fold_hd2.
    pose proof (map_prefix rec_of_lrec L M1 recs2 E3) as HM.
    replace (length (hd2 meta ++ M1) - 2)%nat with (length M1) by (unfold hd2; cbn [app length]; lia).
    set (k := length M1) in *. clearbody k. subst M1.
    pose proof (ra_fold_effect zero_snap (firstn k L) (snd (encode_all 0 (hd2 meta)))
                  {| ra_meta := meta; ra_st := hs_empty; ra_ents := []; ra_match := false |}
                  (Forall_firstn' _ _ _ Hwf)) as Hf.
    destruct (ra_fold zero_snap _ (stored _ (map rec_of_lrec (firstn k L)))) as [s'|e]; [|exact I].
    destruct Hf as [Hf _]. exact Hf.
Qed.

(* ---------- reading an image whose decoder verdict is known ---------- *)
Definition good (req : N) (L : list lrec) (r : rares) : Prop :=
  match r with
  | RAErr _ => True
  | RAOk _ st ents _ _ => exists k, req <= k /\ effect zero_snap (firstn (N.to_nat k) L) = Some (st, ents)
  end.

Lemma read_all_err b rs e off :
  decode_all [b] = (rs, Some e, off) -> exists e', read_all zero_snap [b] = RAErr e'.
Proof.
  intros Hd. pose proof (read_all_fold zero_snap [b]) as H. rewrite Hd in H. cbn [fold_view] in H.
  destruct (read_all zero_snap [b]) as [m st en o c|e']; [|eauto]. cbn [rares_view] in H.
  destruct (ra_fold zero_snap ra_init rs); [|discriminate]. destruct e; discriminate.
Qed.

Lemma read_all_good b meta L recs1 recs2 off req :
  decode_all [b] = (stored 0 recs1, None, off) ->
  recs1 ++ recs2 = hd2 meta ++ map rec_of_lrec L -> Forall lrec_wf L ->
  req <= N.of_nat (length recs1 - 2) ->
  good req L (read_all zero_snap [b]).
Proof.
  intros Hd Hp Hwf Hreq. pose proof (read_all_fold zero_snap [b]) as H. rewrite Hd in H. cbn [fold_view] in H.
  pose proof (fold_prefix meta L recs1 recs2 Hp Hwf) as Hf.
  destruct (read_all zero_snap [b]) as [m st en o c|e']; [|exact I]. cbn [rares_view good] in *.
  destruct (ra_fold zero_snap ra_init (stored 0 recs1)) as [s'|e]; [|discriminate].
  inversion H; subst. exists (N.of_nat (length recs1 - 2)). split; [exact Hreq|]. now rewrite Nat2N.id.
Qed.

(* ---------- prefixes of one record list, ordered by stream length ---------- *)
Lemma prefix_len_le (recs a a' r1 r2 : list (N * option bytes)) c :
  recs = a ++ a' -> recs = r1 ++ r2 ->
  blen (fst (encode_all 0 a)) <= c ->
  (r2 = [] \/ c < blen (fst (encode_all 0 (r1 ++ firstn 1 r2)))) ->
  (length a <= length r1)%nat.
Proof.
  intros Ha Hr Hc Hn.
  destruct (Nat.le_gt_cases (length a) (length r1)) as [|Hgt]; [assumption|exfalso].
  destruct Hn as [->|Hn].
  - rewrite app_nil_r in Hr. subst recs. rewrite <- Hr in Hgt. rewrite app_length in Hgt. lia.
  - (* r1 ++ [x] is a prefix of a *)
    assert (Hpre : exists q, a = (r1 ++ firstn 1 r2) ++ q).
    { assert (E : a = firstn (length a) recs) by (rewrite Ha, firstn_app, Nat.sub_diag, firstn_all; cbn; now rewrite app_nil_r).
      destruct r2 as [|x r2]; [rewrite app_nil_r in Hr; rewrite Hr in Ha; rewrite Ha, app_length in Hgt; lia|].
      cbn [firstn]. exists (firstn (length a - length r1 - 1) r2).
      rewrite E at 1. rewrite Hr. rewrite firstn_app. rewrite firstn_all2 by lia.
      rewrite <- app_assoc. f_equal.
      replace (length a - length r1)%nat with (S (length a - length r1 - 1)) by lia.
      cbn [firstn app]. do 2 f_equal. lia. }
    destruct Hpre as (q & ->). rewrite blen_encode_app in Hc. lia.
Qed.

Lemma lrecs_wf ops : Forall op_wf ops -> Forall lrec_wf (lrecs ops).
Proof.
  intros H. unfold lrecs. constructor; [cbn; split; reflexivity|].
  induction H as [|o r Ho Hr IH]; [constructor|]. cbn [flat_map]. apply Forall_app. split; [|exact IH].
  destruct o as [st ents|sn|i|]; cbn [op_wf lrecs_of_op] in *; try constructor; auto.
  destruct Ho as [Hst Hents]. apply Forall_app. split.
  - induction Hents; constructor; auto.
  - destruct (hs_is_empty st); constructor; auto.
Qed.

Lemma recs_of_split meta p q :
  recs_of meta (p ++ q) = recs_of meta p ++ map rec_of_lrec (flat_map lrecs_of_op q).
Proof. unfold recs_of, lrecs. rewrite flat_map_app. cbn [map]. rewrite map_app, <- app_assoc. reflexivity. Qed.

Lemma recs_of_length meta ops : length (recs_of meta ops) = (2 + length (lrecs ops))%nat.
Proof. unfold recs_of, hd2. rewrite app_length, map_length. reflexivity. Qed.

Theorem first_segment_cut opt seg meta ops o c :
  data_ok meta -> Forall op_wf (ops ++ [o]) ->
  let w0 := w_run opt seg meta ops in
  let w := w_step w0 o in
  w_seq w = 0 ->
  (seg - blen (w_tail w) = 0 \/ 8 <= seg - blen (w_tail w)) ->
  synced_off w0 w <= c -> c <= blen (sg_bytes (tail_file w)) ->
  (forall recs1 x recs2 j, recs_of meta (ops ++ [o]) = recs1 ++ x :: recs2 ->
     c = blen (fst (encode_all 0 recs1)) + j -> 8 <= j < blen (frame_of (snd (encode_all 0 recs1)) x) ->
     no_crc_collision_cut (snd (encode_all 0 recs1)) x j) ->
  good (synced_recs w0) (lrecs (ops ++ [o]))
       (final_result (reopen (set_last_bytes (w_files w) (img_trunc c)) (Some zero_snap))).
Proof.
  intros Hm Hops w0 w Hq Hz Hsync Hc Hnc.
  assert (Hw : w = w_run opt seg meta (ops ++ [o])).
  { unfold w, w0, w_run. now rewrite fold_left_app. }
  assert (Hops0 : Forall op_wf ops) by (apply Forall_app in Hops; tauto).
  assert (Hq0 : w_seq w0 = 0) by (pose proof (w_step_seq_mono w0 o); fold w in H; lia).
  pose proof (w_run_sinv opt seg meta (ops ++ [o]) Hm Hops ltac:(now rewrite <- Hw)) as S. rewrite <- Hw in S.
  pose proof (w_run_sinv opt seg meta ops Hm Hops0 Hq0) as S0. fold w0 in S0.
  destruct (w_run_dir opt seg meta (ops ++ [o]) ltac:(now rewrite <- Hw)) as (Hi & Hg & Hcl). rewrite <- Hw in *.
  destruct (w_run_dir opt seg meta ops Hq0) as (Hi0 & _ & _). fold w0 in Hi0.
  pose proof (w_run_ts opt seg meta (ops ++ [o])) as Hts. rewrite <- Hw in Hts. specialize (Hts Hq).
  pose proof (ti_tail _ _ _ (si_t _ _ _ S)) as Htail.
  pose proof (ti_ok _ _ _ (si_t _ _ _ S)) as Hok.
  set (recs := recs_of meta (ops ++ [o])) in *.
  set (L := lrecs (ops ++ [o])).
  assert (Hwf : Forall lrec_wf L) by now apply lrecs_wf.
  (* the image *)
  unfold w_files. rewrite Hcl. cbn [app set_last_bytes].
  rewrite final_single by (cbn [sg_idx tail_file]; exact Hi).
  cbn [sg_bytes tail_file] in *. rewrite Hts in *. rewrite Htail in *.
  set (z := seg - blen (fst (encode_all 0 recs))) in *.
  destruct (trunc_image_decodes recs z c Hok Hz Hc Hnc) as (recs1 & recs2 & v & Hsplit & Hdec & Hnext & Hv & Hpre).
  set (b := img_trunc c (fst (encode_all 0 recs) ++ zeros z)) in *.
  assert (Hp : recs1 ++ recs2 = hd2 meta ++ map rec_of_lrec L) by (symmetry; exact Hsplit).
  assert (Hok1 : Forall enc_ok recs1) by (rewrite Hsplit in Hok; apply Forall_app in Hok; tauto).
  (* everything saved before the last completed sync lies inside recs1 *)
  assert (Hreq : synced_recs w0 <= N.of_nat (length recs1 - 2)).
  { unfold synced_recs. destruct (w_sync w0) as [s|] eqn:Es; [|lia].
    destruct (si_sync _ _ _ S0 s Es) as (j & Hj & Hoff & Hrec).
    destruct (w_run_sync_name opt seg meta ops s Es) as [Hle Hidx]. fold w0 in Hle, Hidx.
    assert (Hsq : sy_seq s = 0) by lia.
    assert (Hso : synced_off w0 w = sy_off s).
    { unfold synced_off. rewrite Es, Hsq, Hq, Hi, (Hidx ltac:(lia)), Hi0. reflexivity. }
    rewrite Hso, Hoff in Hsync.
    assert (Hsp : recs = recs_of meta (firstn j ops) ++ map rec_of_lrec (flat_map lrecs_of_op (skipn j ops ++ [o]))).
    { unfold recs. rewrite <- recs_of_split, app_assoc, firstn_skipn. reflexivity. }
    pose proof (prefix_len_le recs _ _ recs1 recs2 c Hsp Hsplit Hsync Hnext) as Hlen.
    rewrite recs_of_length in Hlen. rewrite Hrec. unfold nlen. lia. }
  unfold after_repair.
  destruct Hv as [->|[->|[->| ->]]].
  - (* clean end *)
    pose proof (read_all_good b meta L recs1 recs2 _ _ Hdec Hp Hwf Hreq) as Hgood.
    destruct (read_all zero_snap [b]) as [m st en off cc|e] eqn:Er; [exact Hgood|].
    rewrite repair_last_spec, Hdec. cbn [repair_of_verdict]. destruct e; exact I.
  - (* torn tail: Repair truncates to the decoded prefix, which then reads back *)
    destruct (read_all_err b _ _ _ Hdec) as (e' & Er). rewrite Er.
    rewrite repair_last_spec, Hdec. cbn [repair_of_verdict].
    assert (Hd2 : decode_all [btake (blen (fst (encode_all 0 recs1))) b] =
                  (stored 0 recs1, None, blen (fst (encode_all 0 recs1)))).
    { rewrite Hpre. rewrite <- (app_nil_r (fst (encode_all 0 recs1))) at 1. change (@nil N) with (zeros 0).
      apply decode_all_roundtrip; auto. }
    pose proof (read_all_good _ meta L recs1 recs2 _ _ Hd2 Hp Hwf Hreq) as Hgood.
    destruct e'; try exact I; exact Hgood.
  - destruct (read_all_err b _ _ _ Hdec) as (e' & Er). rewrite Er.
    rewrite repair_last_spec, Hdec. cbn [repair_of_verdict]. destruct e'; exact I.
  - destruct (read_all_err b _ _ _ Hdec) as (e' & Er). rewrite Er.
    rewrite repair_last_spec, Hdec. cbn [repair_of_verdict]. destruct e'; exact I.
Qed.

(* the collision hypothesis is vacuous for a cut beyond the written stream *)
Lemma no_cut_beyond_stream recs c :
  blen (fst (encode_all 0 recs)) <= c ->
  forall recs1 x recs2 j, recs = recs1 ++ x :: recs2 ->
    c = blen (fst (encode_all 0 recs1)) + j -> 8 <= j < blen (frame_of (snd (encode_all 0 recs1)) x) -> False.
Proof.
  intros Hc recs1 x recs2 j -> Hcj [_ Hj].
  rewrite blen_encode_app in Hc.
  change (x :: recs2) with ([x] ++ recs2) in Hc. rewrite blen_encode_app in Hc.
  rewrite (proj1 (encode_all_single _ x)) in Hc. lia.
Qed.
