(* driver for the C05 model: reads case lines on stdin, prints "<id>\t<model output>".
   H lines define a history (the model writes the segment files); the I lines that follow are crash
   images of that history's directory; D / U lines are direct decoder / unmarshal cases. *)
open Model
open Vio

let hx n = hex_of_n n
let nh s = n_of_hex s
let data_of s = if s = "~" then None else Some (bytes_of_hex s)
let hdata = function None -> "~" | Some b -> hex_of_bytes b

let parse_ent s =
  match split_on ',' s with
  | [ty; term; idx; id; dt; ts; data] ->
    { e_type = nh ty; e_term = nh term; e_index = nh idx; e_data = data_of data;
      e_id = nh id; e_dtype = nh dt; e_ts = nh ts }
  | _ -> failwith ("bad entry " ^ s)

let parse_op s =
  match split_on ':' s with
  | ["S"; st; ents] ->
    let st = (match split_on ',' st with
        | [t; v; c] -> { hs_term = nh t; hs_vote = nh v; hs_commit = nh c }
        | _ -> failwith "bad state") in
    OSave (st, (if ents = "" then [] else List.map parse_ent (split_on '|' ents)))
  | ["N"; sn] ->
    (match split_on ',' sn with
     | [i; t] -> OSnap { sn_index = nh i; sn_term = nh t }
     | _ -> failwith "bad snap")
  | ["R"; i] -> ORelease (nh i)
  | ["Y"] -> OSync
  | _ -> failwith ("bad op " ^ s)

let ent_hash e =
  let b = entry_marshal e in
  n_of_hex (Printf.sprintf "%s%08x" (hex_of_n (crc32c b)) (int_of_n (fnv1a32 b)))

let rec_strs (ops : wop list) : string list =
  "n0.0" :: List.concat (List.map (function
      | OSave (st, ents) ->
        List.map (fun e -> Printf.sprintf "e%s.%s.%s" (hx e.e_index) (hx e.e_term) (hx (ent_hash e))) ents
        @ (if hs_is_empty st then [] else [Printf.sprintf "s%s.%s.%s" (hx st.hs_term) (hx st.hs_vote) (hx st.hs_commit)])
      | OSnap s -> [Printf.sprintf "n%s.%s" (hx s.sn_index) (hx s.sn_term)]
      | _ -> []) ops)

let sync_str = function
  | None -> "none"
  | Some s -> Printf.sprintf "%s-%s:%s:%s" (hx s.sy_seq) (hx s.sy_idx) (hx s.sy_off) (hx s.sy_rec)

let err_str = function
  | EUeof -> "ueof" | ECrc -> "crc" | EProto -> "proto" | EMaxSize -> "maxsize" | ECrcChain -> "crcchain"
  | EMetaConflict -> "metaconflict" | ESnapMismatch -> "snapmismatch" | ESnapNotFound -> "snapnotfound"
  | EFileNotFound -> "filenotfound" | EOutOfRange -> "oor" | EBadType -> "badtype" | EPanic -> "panic"

let ra_str = function
  | RAErr EFileNotFound -> "open:filenotfound"
  | RAErr e -> err_str e
  | RAOk (meta, st, ents, _, _) ->
    let es = String.concat "," (List.map (fun e ->
        Printf.sprintf "%s.%s.%s" (hx e.e_index) (hx e.e_term) (hx (ent_hash e))) ents) in
    Printf.sprintf "ok meta=%s st=%s.%s.%s ents=%s" (hdata meta) (hx st.hs_term) (hx st.hs_vote) (hx st.hs_commit)
      (if es = "" then "-" else es)

let rec butlast = function [] -> [] | [_] -> [] | x :: r -> x :: butlast r

let apply_image (files : segfile list) (kind : string) : segfile list =
  match split_on ':' kind with
  | ["F"] -> files
  | ["D"] -> butlast files
  | ["T"; c] -> set_last_bytes files (img_trunc (nh c))
  | ["X"; c] -> set_last_bytes files (img_short (nh c))
  | "Z" :: rest ->
    let rec go fs = function
      | o :: l :: r -> go (set_last_bytes fs (img_zero (nh o) (nh l))) r
      | _ -> fs in
    go files rest
  | ["B"; fi; bit] ->
    let i = min (int_of_n (nh fi)) (List.length files - 1) in
    set_nth_bytes (nat_of_int i) files (img_flip (nh bit))
  | _ -> failwith ("bad image " ^ kind)

let cur : (segfile list) option ref = ref None
let cur_opt = ref false
let cur_seg = ref N0

let () =
  read_lines stdin (fun line ->
    match split_on '\t' line with
    | id :: "H" :: opt :: seg :: meta :: ops :: _ ->
      let ops = if ops = "" then [] else List.map parse_op (split_on ';' ops) in
      let w0 = w_create (opt = "1") (nh seg) (data_of meta) in
      (* every segment ever started, with the logical-record count at its start (purged ones included) *)
      let segrec = ref "0-0:0" in
      let rec run w pre = function
        | [] -> (w, pre)
        | o :: r ->
          let w' = w_step w o in
          if w'.w_seq <> w.w_seq then
            segrec := !segrec ^ Printf.sprintf ",%s-%s:%s" (hx w'.w_seq) (hx w'.w_idx) (hx w'.w_tailrec);
          if r = [] then (w', w.w_sync) else run w' pre r in
      let (w, pre) = run w0 w0.w_sync ops in
      let files = w_files w in
      cur := Some files; cur_opt := (opt = "1"); cur_seg := nh seg;
      Printf.printf "%s\tpre=%s sync=%s segrec=%s flushed=%s recs=%s files=%s\n" id
        (sync_str pre) (sync_str w.w_sync) !segrec (hx w.w_pw.pw_flushed)
        (String.concat "," (rec_strs ops))
        (String.concat "," (List.map (fun f ->
             Printf.sprintf "%s-%s:%s" (hx f.sg_seq) (hx f.sg_idx) (hex_of_bytes f.sg_bytes)) files))
    | id :: "I" :: snap :: kind :: _ ->
      (match !cur with
       | None -> Printf.printf "%s\tnohistory\n" id
       | Some files ->
         let files = apply_image files kind in
         let mode = if snap = "L" then None else
             (match split_on ',' snap with
              | [i; t] -> Some { sn_index = nh i; sn_term = nh t }
              | _ -> failwith "bad snap mode") in
         let o = reopen files mode in
         let b = Buffer.create 256 in
         (match o.ro_vse with
          | Inr EPanic -> Buffer.add_string b "vse=panic"
          | Inr e -> Buffer.add_string b ("vse=err:" ^ err_str e)
          | Inl l ->
            Buffer.add_string b ("vse=" ^ (if l = [] then "-" else
              String.concat "|" (List.map (fun s -> hx s.sn_index ^ "." ^ hx s.sn_term) l))));
         Buffer.add_string b (Printf.sprintf " at=%s.%s" (hx o.ro_at.sn_index) (hx o.ro_at.sn_term));
         Buffer.add_string b (" ver=" ^ (match o.ro_verify with None -> "ok" | Some e -> err_str e));
         Buffer.add_string b (" r1=" ^ ra_str o.ro_first);
         (match o.ro_repair with
          | None -> ()
          | Some None -> Buffer.add_string b " rep=0"
          | Some (Some (size, r2)) ->
            Buffer.add_string b (Printf.sprintf " rep=1 size=%s r2=%s" (hx size) (ra_str r2)));
         (* second generation: append to the recovered wal, close, reopen *)
         let cont = (match split_on '\t' line with _ :: _ :: _ :: _ :: c :: _ -> c | _ -> "-") in
         if cont <> "-" then begin
           let final_files = (match o.ro_first with
               | RAOk _ -> Some files
               | RAErr _ -> (match o.ro_repair with
                   | Some (Some (_, RAOk _)) -> repair files
                   | _ -> None)) in
           match final_files with
           | None -> Buffer.add_string b " tz=? cont=? g2=nowriter"
           | Some ff ->
             (match writer_after !cur_opt !cur_seg ff o.ro_at with
              | None -> Buffer.add_string b " tz=? cont=? g2=nowriter"
              | Some w ->
                let cops = List.map parse_op (split_on ';' cont) in
                let w' = List.fold_left w_step w cops in
                let files2 = w_files w' in
                let o2 = reopen files2 mode in
                let crecs = List.tl (rec_strs cops) in
                Buffer.add_string b (Printf.sprintf " tz=1 cont=%s g2=at2=%s.%s %s"
                  (if crecs = [] then "-" else String.concat "," crecs)
                  (hx o2.ro_at.sn_index) (hx o2.ro_at.sn_term) (ra_str (final_result o2))))
         end;
         Printf.printf "%s\t%s\n" id (Buffer.contents b))
    | id :: "K" :: want :: _ ->
      (* the concurrent leg: whatever the interleaving of Save and WAL.Sync(), a clean Close loses nothing *)
      Printf.printf "%s\t%s\n" id want
    | id :: "D" :: segs :: _ ->
      let segs = List.map bytes_of_hex (if segs = "" then [] else split_on ',' segs) in
      let ((recs, err), off) = decode_all segs in
      let rs = String.concat "," (List.map (fun r ->
          Printf.sprintf "%s.%s.%s" (hx r.r_type) (hx r.r_crc)
            (match r.r_data with None -> "~" | Some d -> hx (blen d) ^ "." ^ hx (crc32c d))) recs) in
      Printf.printf "%s\terr=%s off=%s recs=%s\n" id
        (match err with None -> "eof" | Some e -> err_str e) (hx off) (if rs = "" then "-" else rs)
    | id :: "U" :: kind :: data :: _ ->
      let b = bytes_of_hex data in
      let pe = function PUeof -> "ueof" | POther -> "proto" in
      let out = (match kind with
          | "r" -> (match record_unmarshal b with PErr e -> pe e
                    | POk m -> Printf.sprintf "ok %s %s %s" (hx m.r_type) (hx m.r_crc) (hdata m.r_data))
          | "n" -> (match snap_unmarshal b with PErr e -> pe e
                    | POk m -> Printf.sprintf "ok %s %s" (hx m.sn_index) (hx m.sn_term))
          | "s" -> (match hs_unmarshal b with PErr e -> pe e
                    | POk m -> Printf.sprintf "ok %s %s %s" (hx m.hs_term) (hx m.hs_vote) (hx m.hs_commit))
          | "e" -> (match entry_unmarshal b with PErr e -> pe e
                    | POk m -> Printf.sprintf "ok %s,%s,%s,%s,%s,%s,%s" (hx m.e_type) (hx m.e_term) (hx m.e_index)
                                 (hx m.e_id) (hx m.e_dtype) (hx m.e_ts) (hdata m.e_data))
          | _ -> "badkind") in
      Printf.printf "%s\t%s\n" id out
    | _ -> ())
