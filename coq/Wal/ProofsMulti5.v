(* Wal/ProofsMulti5.v — END TO END for histories with any number of segments, reopen at ANY snapshot:
   names and the last entry index (Open selects from the last file whose name index is <= the snapshot index;
   every entry in front of it is at or below the snapshot), decoding and folding the selected files from a
   fresh decoder / an empty state, the theorem. *)
From ZV Require Import Common.Bytes Common.BytesFacts Wal.Consts Wal.Crc Wal.Proto Wal.Model Wal.Spec
  Wal.ProofsCrc Wal.ProofsProto Wal.ProofsFrame Wal.ProofsDecode Wal.ProofsTorn Wal.ProofsPrefix Wal.ProofsRepair
  Wal.ProofsLog Wal.ProofsWriter Wal.ProofsNames Wal.ProofsSegs Wal.ProofsReadAll Wal.ProofsEffect
  Wal.ProofsHistory Wal.ProofsAppend Wal.ProofsCapstone Wal.ProofsMulti1 Wal.ProofsMulti2 Wal.ProofsMulti3
  Wal.ProofsMulti4.
From Coq Require Import ZifyN ZifyNat ZifyBool Lia.
Open Scope N_scope.

(* ---------- the index of the last entry written so far, and the names cut() gives ---------- *)
Definition ent_after (i : N) (ls : list lrec) : N :=
  fold_left (fun i l => match l with LEnt e => e_index e | _ => i end) ls i.

Lemma ent_after_app i a b : ent_after i (a ++ b) = ent_after (ent_after i a) b.
Proof. unfold ent_after. apply fold_left_app. Qed.

Lemma ent_after_mono : forall ls i j, i <= j -> ent_after i ls <= ent_after j ls.
Proof.
  induction ls as [|l ls IH]; intros i j H; [exact H|]. unfold ent_after. cbn [fold_left].
  destruct l; apply IH; lia.
Qed.

Lemma save_entries_enti : forall ents w,
  w_enti (fold_left (fun w e => save_entry e w) ents w) = ent_after (w_enti w) (map LEnt ents).
Proof.
  induction ents as [|e r IH]; intros w; [reflexivity|]. cbn [fold_left map]. rewrite IH.
  unfold ent_after. cbn [fold_left]. reflexivity.
Qed.

Lemma save_entries_idxs : forall ents w, idxs (fold_left (fun w e => save_entry e w) ents w) = idxs w.
Proof.
  intros. unfold idxs. rewrite (proj1 (save_entries_names ents w)), (proj1 (save_entries_dir ents w)). reflexivity.
Qed.

Lemma save_state_idxs s w : idxs (save_state s w) = idxs w.
Proof. unfold idxs. rewrite (proj1 (save_state_names s w)), (proj1 (save_state_dir s w)). reflexivity. Qed.

Lemma w_step_enti_idxs w o :
  not_release o ->
  ent_after (w_enti w) (lrecs_of_op o) <= w_enti (w_step w o) /\
  ((idxs (w_step w o) = idxs w /\ w_seq (w_step w o) = w_seq w) \/
   (idxs (w_step w o) = idxs w ++ [w_enti (w_step w o) + 1] /\ w_seq (w_step w o) = w_seq w + 1)).
Proof.
  intros Hn. unfold w_step.
  set (w0 := w_add_nrec w (wop_nrec o)).
  assert (F0 : w_enti w0 = w_enti w /\ idxs w0 = idxs w /\ w_seq w0 = w_seq w) by (subst w0; cbn; auto).
  destruct F0 as (Fe & Fi & Fq). clearbody w0.
  destruct o as [st ents|sn|i|]; cbn [not_release] in Hn; [| |contradiction|].
  - unfold w_save. destruct (hs_is_empty st && _) eqn:Etriv.
    { apply andb_true_iff in Etriv as [E1 E2]. destruct ents; [|discriminate]. cbn [lrecs_of_op map app].
      rewrite E1. unfold ent_after. cbn [fold_left]. split; [lia|left; auto]. }
    cbv zeta.
    set (w2 := save_state st (fold_left (fun w e => save_entry e w) ents w0)).
    assert (F2 : w_enti w2 = ent_after (w_enti w) (lrecs_of_op (OSave st ents)) /\ idxs w2 = idxs w /\ w_seq w2 = w_seq w).
    { subst w2. rewrite (proj1 (proj2 (proj2 (save_state_fields _ _)))), save_entries_enti, save_state_idxs, save_entries_idxs.
      rewrite (proj2 (save_state_names _ _)), (proj2 (save_entries_names _ _)).
      cbn [lrecs_of_op]. rewrite ent_after_app, Fe. split; [|auto].
      destruct (hs_is_empty st); reflexivity. }
    destruct F2 as (F2e & F2i & F2q). clearbody w2.
    destruct (pw_flushed (w_pw w2) <? w_segsize w2).
    + assert (H : forall fs, w_enti (w_sync_op fs w2) = w_enti w2 /\ idxs (w_sync_op fs w2) = idxs w2 /\
                             w_seq (w_sync_op fs w2) = w_seq w2) by (intros; cbn; auto).
      destruct (negb _ || _); [destruct (H (if w_opt w0 then negb (hs_is_empty st) && (negb (hs_vote st =? hs_vote (w_state w0)) || negb (hs_term st =? hs_term (w_state w0))) else true)) as (-> & -> & ->)|];
        (split; [lia|left; split; congruence]).
    + destruct (w_cut_fields w2) as (_ & _ & _ & Fe2 & Fc2 & Fq2 & Fi2).
      split; [lia|right]. split; [|lia].
      unfold idxs in *. rewrite Fc2, Fi2, Fe2, map_app. cbn [map sg_idx]. rewrite <- app_assoc. cbn [app].
      rewrite <- F2i. rewrite <- app_assoc. reflexivity.
  - unfold w_save_snapshot. cbn [w_sync_op w_enti w_seq]. cbn [lrecs_of_op]. unfold ent_after. cbn [fold_left].
    set (w1 := w_encode c_snapshotType (Some (snap_marshal sn)) w0).
    assert (F1 : w_enti w1 = w_enti w /\ idxs w1 = idxs w /\ w_seq w1 = w_seq w).
    { subst w1. rewrite (proj1 (w_encode_fields2 _ _ _)), (proj1 (w_encode_fields _ _ _)). unfold idxs.
      rewrite (proj1 (w_encode_names _ _ _)), (proj1 (w_encode_dir _ _ _)). auto. }
    destruct F1 as (F1e & F1i & F1q). clearbody w1.
    destruct (w_enti w1 <? sn_index sn) eqn:El.
    + apply N.ltb_lt in El. cbn [w_set_enti w_enti w_seq]. split; [lia|left]. split; [|exact F1q].
      rewrite <- F1i. reflexivity.
    + split; [lia|left]. split; [|exact F1q]. rewrite <- F1i. reflexivity.
  - cbn [w_sync_op w_enti w_seq lrecs_of_op]. unfold ent_after. cbn [fold_left]. split; [lia|left]. split; [|exact Fq].
    rewrite <- Fi. reflexivity.
Qed.

Fixpoint idx_ok (acc : list lrec) (segs : list segd) (il : list N) : Prop :=
  match segs, il with
  | [], [] => True
  | x :: r, i :: ir => ent_after 0 acc <= i /\ idx_ok (acc ++ sd_L x) r ir
  | _, _ => False
  end.

Lemma idx_ok_snoc_intro : forall l acc il x i,
  idx_ok acc l il -> ent_after 0 (acc ++ all_L l) <= i -> idx_ok acc (l ++ [x]) (il ++ [i]).
Proof.
  induction l as [|y l IH]; intros acc il x i H Hi; destruct il as [|j il]; cbn [idx_ok] in H; try contradiction.
  - unfold all_L in Hi. cbn in Hi. rewrite app_nil_r in Hi. cbn [app idx_ok]. auto.
  - destruct H as [H1 H2]. cbn [app idx_ok]. split; [exact H1|]. apply IH; [exact H2|].
    unfold all_L in *. cbn [map concat] in Hi. now rewrite <- app_assoc.
Qed.

Lemma idx_ok_last : forall l acc il d d',
  idx_ok acc (l ++ [d]) il -> idx_ok acc (l ++ [d']) il.
Proof.
  induction l as [|y l IH]; intros acc il d d' H; destruct il as [|j il]; cbn [app idx_ok] in *; try contradiction.
  - destruct H as [H1 H2]. split; [exact H1|]. destruct il; [exact I|contradiction].
  - destruct H as [H1 H2]. split; [exact H1|]. eapply IH, H2.
Qed.

Lemma idx_ok_length : forall l acc il, idx_ok acc l il -> length il = length l.
Proof.
  induction l as [|y l IH]; intros acc il H; destruct il; cbn [idx_ok] in H; try contradiction; [reflexivity|].
  cbn [length]. f_equal. eapply IH, (proj2 H).
Qed.

Lemma idx_ok_nth : forall l acc il k,
  idx_ok acc l il -> (k < length l)%nat -> ent_after 0 (acc ++ all_L (firstn k l)) <= nth k il 0.
Proof.
  induction l as [|y l IH]; intros acc il k H Hk; [cbn in Hk; lia|].
  destruct il as [|j il]; cbn [idx_ok] in H; [contradiction|]. destruct H as [H1 H2].
  destruct k as [|k].
  - cbn [firstn nth]. unfold all_L. cbn. now rewrite app_nil_r.
  - cbn [firstn nth]. unfold all_L. cbn [map concat]. fold (all_L (firstn k l)). rewrite app_assoc.
    apply IH; [exact H2|]. cbn [length] in Hk. lia.
Qed.

Definition einv (w : wal) (ops : list wop) (pre : list segd) (d : segd) : Prop :=
  ent_after 0 (lrecs ops) <= w_enti w /\ idx_ok [] (pre ++ [d]) (idxs w).

Lemma geinv_step w meta ops pre d o :
  ginv w meta ops pre d -> einv w ops pre d -> op_wf o -> not_release o ->
  exists pre' d', ginv (w_step w o) meta (ops ++ [o]) pre' d' /\ einv (w_step w o) (ops ++ [o]) pre' d' /\
    (w_seq (w_step w o) = w_seq w -> pre' = pre /\ sd_st0 d' = sd_st0 d /\ exists more, sd_L d' = sd_L d ++ more) /\
    (w_seq (w_step w o) = w_seq w \/ (sd_L d' = [] /\ exists x, pre' = pre ++ [x])).
Proof.
  intros G [He Hi] Ho Hn.
  destruct (ginv_step w meta ops pre d o G Ho Hn) as (pre' & d' & G' & Hrel & Hcut).
  exists pre', d'. split; [exact G'|]. split; [|split; assumption].
  destruct (w_step_enti_idxs w o Hn) as [Hen Hidx].
  assert (He' : ent_after 0 (lrecs (ops ++ [o])) <= w_enti (w_step w o)).
  { rewrite lrecs_app, ent_after_app. eapply N.le_trans; [|exact Hen]. now apply ent_after_mono. }
  split; [exact He'|].
  destruct Hidx as [[Ei Eq]|[Ei Eq]].
  - destruct (Hrel Eq) as (-> & _ & _). rewrite Ei. eapply idx_ok_last, Hi.
  - destruct Hcut as [Hs|[Hnil [x ->]]]; [lia|].
    rewrite Ei. apply idx_ok_snoc_intro; [eapply idx_ok_last, Hi|].
    cbn [app]. pose proof (gi_L _ _ _ _ _ G') as HL. rewrite Hnil, app_nil_r in HL. rewrite HL. lia.
Qed.

Lemma w_create_einv opt seg meta :
  einv (w_create opt seg meta) [] [] {| sd_st0 := hs_empty; sd_L := [LSnap {| sn_index := 0; sn_term := 0 |}] |}.
Proof.
  split; [cbn; lia|].
  assert (E : idxs (w_create opt seg meta) = [0]).
  { rewrite w_create_eq. unfold idxs.
    rewrite (proj2 (proj2 (w_save_snapshot_dir _ _))), (proj1 (w_save_snapshot_dir _ _)).
    rewrite !(proj1 (w_encode_names _ _ _)), !(proj1 (w_encode_dir _ _ _)). reflexivity. }
  rewrite E. cbn. lia.
Qed.

Lemma geinv_run_from : forall ops2 w meta ops1 pre d,
  ginv w meta ops1 pre d -> einv w ops1 pre d -> Forall op_wf ops2 -> Forall not_release ops2 ->
  exists pre' d', ginv (fold_left w_step ops2 w) meta (ops1 ++ ops2) pre' d' /\
                  einv (fold_left w_step ops2 w) (ops1 ++ ops2) pre' d'.
Proof.
  induction ops2 as [|o ops2 IH]; intros w meta ops1 pre d G E Hw Hr.
  - exists pre, d. now rewrite app_nil_r.
  - inversion Hw; subst. inversion Hr; subst. cbn [fold_left].
    destruct (geinv_step w meta ops1 pre d o G E) as (pre1 & d1 & G1 & E1 & _); auto.
    destruct (IH _ _ _ _ _ G1 E1) as (pre2 & d2 & G2 & E2); auto.
    exists pre2, d2. now rewrite <- app_assoc in G2, E2.
Qed.

Theorem w_run_geinv opt seg meta ops :
  data_ok meta -> Forall op_wf ops -> Forall not_release ops ->
  exists pre d, ginv (w_run opt seg meta ops) meta ops pre d /\ einv (w_run opt seg meta ops) ops pre d.
Proof.
  intros Hm Hw Hr. unfold w_run.
  apply (geinv_run_from ops _ meta [] _ _ (w_create_ginv opt seg meta Hm) (w_create_einv opt seg meta) Hw Hr).
Qed.

(* ---------- the records in front of the selected files leave no entries behind ---------- *)
Lemma effect_go_dropped at_ : forall A i st ents st' ents',
  (i <= sn_index at_ -> ents = []) ->
  effect_go at_ A st ents = Some (st', ents') -> ent_after i A <= sn_index at_ -> ents' = [].
Proof.
  induction A as [|l A IH]; intros i st ents st' ents' Hq H Hi.
  - cbn in H. inversion H; subst. apply Hq. exact Hi.
  - unfold ent_after in Hi. cbn [fold_left] in Hi. cbn [effect_go] in H. destruct l as [e|s|sn].
    + unfold place in H. destruct (sn_index at_ <? e_index e) eqn:El.
      * destruct (nlen ents <? _); [discriminate|]. eapply (IH (e_index e)); [|exact H|exact Hi].
        apply N.ltb_lt in El. intros. lia.
      * eapply (IH (e_index e)); [|exact H|exact Hi]. auto.
    + eapply (IH i); [exact Hq|exact H|exact Hi].
    + destruct (_ && _); [discriminate|]. eapply (IH i); [exact Hq|exact H|exact Hi].
Qed.

(* ---------- ReadAll's fold over the selected files: it starts from nothing, the first head restores the
   hard state ---------- *)
Lemma ra_fold_segment' at_ meta d c s :
  segd_wf d -> meta_compat meta s -> (sd_st0 d = ra_st s \/ ra_st s = hs_empty) ->
  match ra_fold at_ s (stored c (seg_recs meta d)) with
  | inl s' => effect_go at_ (sd_L d) (sd_st0 d) (ra_ents s) = Some (ra_st s', ra_ents s') /\ meta_compat meta s'
  | inr e => True
  end.
Proof.
  intros [Hw HL] Hm Hst. unfold seg_recs. rewrite stored_app, ra_fold_app.
  destruct (ra_fold_head at_ meta (sd_st0 d) c s Hm Hw) as (s1 & -> & He1 & Hs1 & Hm1).
  assert (Hs1' : ra_st s1 = sd_st0 d).
  { rewrite Hs1. destruct (hs_is_empty (sd_st0 d)) eqn:E; [|reflexivity].
    destruct Hst as [ -> | -> ]; [reflexivity|]. symmetry. now apply hs_is_empty_true. }
  pose proof (ra_fold_effect at_ (sd_L d) (snd (encode_all c (hdr meta (sd_st0 d)))) s1 HL) as Hf.
  rewrite He1, Hs1' in Hf.
  destruct (ra_fold at_ s1 _) as [s'|e]; [|exact I].
  destruct Hf as [Hf Hme]. split; [exact Hf|]. unfold meta_compat in *. now rewrite Hme.
Qed.

Lemma ra_fold_dir_from at_ meta pre d c s acc recs1 recs2 :
  recs1 ++ recs2 = seg_recs meta d -> Forall segd_wf (pre ++ [d]) -> meta_compat meta s ->
  st0_ok acc (pre ++ [d]) -> ra_st s = last_state acc hs_empty ->
  match ra_fold at_ s
          (stored_segs c (map (seg_recs meta) pre) ++ stored (chain_crc c (map (seg_recs meta) pre)) recs1) with
  | inl s' => effect_go at_ (all_L pre ++ firstn (length recs1 - length (hdr meta (sd_st0 d))) (sd_L d))
                (ra_st s) (ra_ents s) = Some (ra_st s', ra_ents s')
  | inr _ => True
  end.
Proof.
  intros Hp Hwf Hm Hok Hs. apply Forall_app in Hwf as [Hwp Hwd]. inversion Hwd as [|? ? Hd _]; subst.
  apply st0_ok_snoc in Hok as [Hokp Hst0].
  rewrite ra_fold_app.
  pose proof (ra_fold_chain at_ meta pre c s acc Hwp Hm Hokp Hs) as Hc.
  destruct (ra_fold at_ s (stored_segs c (map (seg_recs meta) pre))) as [s1|e]; [|exact I].
  destruct Hc as (He & Hm1 & Hs1).
  pose proof (ra_fold_partial at_ meta d (chain_crc c (map (seg_recs meta) pre)) s1 recs1 recs2 Hp Hd Hm1 ltac:(congruence)) as Hf.
  destruct (ra_fold at_ s1 _) as [s'|e]; [|exact I].
  rewrite effect_go_app, He. exact Hf.
Qed.

Lemma ra_fold_partial_full at_ meta d c s recs1 recs2 :
  recs1 ++ recs2 = seg_recs meta d -> segd_wf d -> meta_compat meta s -> ra_st s = hs_empty ->
  (length (hdr meta (sd_st0 d)) <= length recs1)%nat ->
  match ra_fold at_ s (stored c recs1) with
  | inl s' => effect_go at_ (firstn (length recs1 - length (hdr meta (sd_st0 d))) (sd_L d)) (sd_st0 d) (ra_ents s)
              = Some (ra_st s', ra_ents s')
  | inr _ => True
  end.
Proof.
  intros Hp [Hw HL] Hm Hst Hlen. unfold seg_recs in Hp.
  assert (Hex : exists p', recs1 = hdr meta (sd_st0 d) ++ p' /\ p' ++ recs2 = map rec_of_lrec (sd_L d)).
  { destruct (prefix_app_cases _ _ _ _ Hp) as [[E Hl]|(p' & E & Hq)]; [|eauto].
    exists []. assert (El : length recs1 = length (hdr meta (sd_st0 d))) by lia.
    rewrite El, firstn_all in E. subst recs1. split; [now rewrite app_nil_r|].
    cbn [app]. eapply app_inv_head. exact Hp. }
  destruct Hex as (p' & -> & Hq).
  rewrite stored_app, ra_fold_app.
  destruct (ra_fold_head at_ meta (sd_st0 d) c s Hm Hw) as (s1 & -> & He1 & Hs1 & Hm1).
  assert (Hs1' : ra_st s1 = sd_st0 d).
  { rewrite Hs1. destruct (hs_is_empty (sd_st0 d)) eqn:E; [|reflexivity].
    rewrite Hst. symmetry. now apply hs_is_empty_true. }
  replace (length (hdr meta (sd_st0 d) ++ p') - length (hdr meta (sd_st0 d)))%nat with (length p')
    by (rewrite app_length; lia).
  pose proof (map_prefix rec_of_lrec (sd_L d) p' recs2 Hq) as HM.
  set (k := length p') in *. clearbody k. subst p'.
  pose proof (ra_fold_effect at_ (firstn k (sd_L d)) (snd (encode_all c (hdr meta (sd_st0 d)))) s1
                (Forall_firstn' _ _ _ HL)) as Hf.
  rewrite He1, Hs1' in Hf.
  destruct (ra_fold at_ s1 _) as [s'|e]; [|exact I]. exact (proj1 Hf).
Qed.

(* the selected files: whole segments [segs], then the part of the tail [d] the decoder returned; [acc] are the
   logical records of the files in front of them *)
Lemma ra_fold_suffix at_ meta acc segs d c recs1 recs2 :
  recs1 ++ recs2 = seg_recs meta d -> Forall segd_wf (segs ++ [d]) -> st0_ok acc (segs ++ [d]) ->
  (segs <> [] \/ last_state acc hs_empty = hs_empty \/ (length (hdr meta (sd_st0 d)) <= length recs1)%nat) ->
  match ra_fold at_ ra_init
          (stored_segs c (map (seg_recs meta) segs) ++ stored (chain_crc c (map (seg_recs meta) segs)) recs1) with
  | inl s' => effect_go at_ (all_L segs ++ firstn (length recs1 - length (hdr meta (sd_st0 d))) (sd_L d))
                (last_state acc hs_empty) [] = Some (ra_st s', ra_ents s')
  | inr _ => True
  end.
Proof.
  intros Hp Hwf Hok Hcase.
  destruct segs as [|d1 rest].
  - cbn [map stored_segs chain_crc app] in *. inversion Hwf as [|? ? Hd _]; subst. destruct Hok as [Hst0 _].
    unfold all_L. cbn [map concat app].
    destruct Hcase as [Hc|[Hc|Hc]]; [contradiction| |].
    + pose proof (ra_fold_partial at_ meta d c ra_init recs1 recs2 Hp Hd I ltac:(cbn; congruence)) as Hf.
      cbn [ra_init ra_st ra_ents] in Hf. rewrite Hc. exact Hf.
    + pose proof (ra_fold_partial_full at_ meta d c ra_init recs1 recs2 Hp Hd I eq_refl Hc) as Hf.
      cbn [ra_init ra_ents] in Hf. rewrite <- Hst0. exact Hf.
  - cbn [app] in Hwf, Hok. inversion Hwf as [|? ? Hd1 Hr]; subst. destruct Hok as [Hst0 Hokr].
    cbn [map]. rewrite stored_segs_cons. cbn [chain_crc]. rewrite <- app_assoc, ra_fold_app.
    pose proof (ra_fold_segment' at_ meta d1 c ra_init Hd1 I (or_intror eq_refl)) as H1.
    destruct (ra_fold at_ ra_init (stored c (seg_recs meta d1))) as [s1|e]; [|exact I].
    destruct H1 as [He1 Hm1]. cbn [ra_init ra_ents] in He1.
    assert (Hs1 : ra_st s1 = last_state (acc ++ sd_L d1) hs_empty).
    { rewrite last_state_app, <- Hst0. eapply effect_go_state, He1. }
    pose proof (ra_fold_dir_from at_ meta rest d (snd (encode_all c (seg_recs meta d1))) s1 (acc ++ sd_L d1)
                  recs1 recs2 Hp Hr Hm1 Hokr Hs1) as Hf.
    destruct (ra_fold at_ s1 _) as [s'|e]; [|exact I].
    unfold all_L. cbn [map concat]. fold (all_L rest). rewrite <- app_assoc, effect_go_app.
    rewrite <- Hst0, He1. exact Hf.
Qed.

(* ---------- decoding the selected files: a fresh decoder adopts the chained crc of the first head ---------- *)
Theorem decode_suffix ck rs rest img recs1 v :
  ck < 2 ^ 32 -> segs_ok (((c_crcType, None) :: rs) :: rest) -> Forall enc_ok recs1 ->
  let segs := ((c_crcType, None) :: rs) :: rest in
  tail_decodes (chain_crc ck segs) img recs1 v ->
  decode_all (encode_segs ck segs ++ [img]) =
  (stored_segs ck segs ++ stored (chain_crc ck segs) recs1, v, blen (fst (encode_all (chain_crc ck segs) recs1))).
Proof.
  intros Hck Hok Hok1 segs Ht. subst segs. unfold decode_all, new_decoder.
  inversion Hok as [|? ? [Hs1 _] Hokr]; subst. inversion Hs1 as [|? ? _ Hrs]; subst.
  set (s1 := (c_crcType, None) :: rs) in *.
  set (c1 := snd (encode_all ck s1)).
  assert (Hc1 : c1 < 2 ^ 32) by (apply encode_all_crc_lt; assumption).
  cbn [encode_segs app chain_crc stored_segs]. fold c1.
  set (files := fst (encode_all ck s1) :: encode_segs c1 rest ++ [img]).
  pose proof (scan_fuel_ge files) as Hf.
  transitivity (decode_all_loop (S (length rs) + (nrecs rest + (length recs1 + S (scan_fuel files))))
                  {| d_brs := files; d_off := 0; d_crc := 0 |} []).
  - apply decode_all_loop_fuel; cbn [d_brs]; [exact Hf|].
    apply Nat.lt_le_trans with (scan_fuel files); [exact Hf|]. lia.
  - unfold files. rewrite <- (app_nil_r (fst (encode_all ck s1))). unfold s1 at 1.
    rewrite decode_head_loop by assumption. fold s1. fold c1. rewrite app_nil_r.
    rewrite (decode_multi_loop rest c1 _ _ _ img recs1 v Hc1 Hokr Hok1 Ht).
    rewrite app_nil_r, rev_involutive, <- app_assoc. reflexivity.
Qed.

Lemma seg_recs_head meta d : exists rs, seg_recs meta d = (c_crcType, None) :: rs.
Proof. unfold seg_recs, hdr. cbn [app]. eauto. Qed.

Lemma decode_selected meta preA preB d img recs1 recs2 v :
  let segsA := map (seg_recs meta) preA in
  let segsB := map (seg_recs meta) preB in
  let ck := chain_crc 0 segsA in
  let cn := chain_crc ck segsB in
  segs_ok segsA -> segs_ok segsB -> recs1 ++ recs2 = seg_recs meta d -> Forall enc_ok recs1 ->
  (recs1 = [] -> preA = [] /\ preB = []) ->
  tail_decodes cn img recs1 v ->
  decode_all (encode_segs ck segsB ++ [img]) =
  (stored_segs ck segsB ++ stored cn recs1, v, blen (fst (encode_all cn recs1))).
Proof.
  intros segsA segsB ck cn HokA HokB Hp Hok1 Hnil Ht.
  assert (Hck : ck < 2 ^ 32) by (apply chain_crc_lt; [reflexivity|exact HokA]).
  destruct preB as [|d1 rest].
  - subst segsB. cbn [map encode_segs app stored_segs chain_crc] in *. subst cn.
    destruct recs1 as [|x1 rs1].
    + destruct (Hnil eq_refl) as [-> _]. subst segsA ck. cbn [map chain_crc] in *.
      exact (decode_multi [] img [] v (Forall_nil _) (Forall_nil _) Ht).
    + destruct (seg_recs_head meta d) as (rs & Ers). rewrite Ers in Hp. cbn [app] in Hp. inversion Hp; subst x1.
      inversion Hok1; subst. apply decode_alone; assumption.
  - subst cn. subst segsB. cbn [map] in *. destruct (seg_recs_head meta d1) as (rs & Ers). rewrite Ers in *.
    exact (decode_suffix ck rs (map (seg_recs meta) rest) img recs1 v Hck HokB Hok1 Ht).
Qed.

(* ---------- Open's selection at any snapshot, from the names only ---------- *)
Fixpoint sel_k (il : list N) (index : N) (i : nat) (best : option nat) : option nat :=
  match il with
  | [] => best
  | x :: r => sel_k r index (S i) (if x <=? index then Some i else best)
  end.

Lemma search_index_sel : forall files index i best,
  search_index files index i best = sel_k (map sg_idx files) index i best.
Proof. induction files as [|f r IH]; intros; [reflexivity|]. cbn [search_index map sel_k]. apply IH. Qed.

Lemma sel_k_spec : forall il index i best k,
  sel_k il index i best = Some k ->
  best = Some k \/ ((i <= k < i + length il)%nat /\ nth (k - i) il 0 <= index).
Proof.
  induction il as [|x r IH]; intros index i best k H; [left; exact H|].
  cbn [sel_k] in H. apply IH in H. destruct H as [H|[Hk Hn]].
  - destruct (x <=? index) eqn:E; [|left; exact H]. inversion H; subst. right. cbn [length].
    split; [lia|]. rewrite Nat.sub_diag. cbn [nth]. now apply N.leb_le.
  - right. cbn [length]. split; [lia|]. replace (k - i)%nat with (S (k - S i)) by lia. exact Hn.
Qed.

Lemma sel_k_some : forall il index i b, exists k, sel_k il index i (Some b) = Some k.
Proof.
  induction il as [|x r IH]; intros index i b.
  - cbn. eauto.
  - cbn [sel_k]. destruct (x <=? index); apply IH.
Qed.

Lemma skipn_map' {A B} (f : A -> B) : forall k l, map f (skipn k l) = skipn k (map f l).
Proof. induction k as [|k IH]; intros [|x l]; cbn; auto. Qed.

Lemma select_at opt seg meta ops at_ :
  Forall not_release ops ->
  let w := w_run opt seg meta ops in
  exists k, (k <= length (w_closed w))%nat /\ nth k (idxs w) 0 <= sn_index at_ /\
    forall b, select_files (w_closed w ++ [with_bytes (tail_file w) b]) at_
              = Some (skipn k (w_closed w) ++ [with_bytes (tail_file w) b]).
Proof.
  intros Hnr w.
  destruct (w_run_idx opt seg meta ops Hnr) as (r & Hr & _). fold w in Hr.
  assert (Hmap : forall b, map sg_idx (w_closed w ++ [with_bytes (tail_file w) b]) = idxs w).
  { intros b. rewrite map_app. reflexivity. }
  destruct (sel_k_some r (sn_index at_) 1 0) as (k & Hk).
  assert (Hsel : sel_k (idxs w) (sn_index at_) 0 None = Some k).
  { rewrite Hr. cbn [sel_k]. assert (E0 : (0 <=? sn_index at_) = true) by (apply N.leb_le; lia). rewrite E0. exact Hk. }
  destruct (sel_k_spec _ _ _ _ _ Hsel) as [Hb|[Hkl Hn]]; [discriminate|].
  rewrite Nat.sub_0_r in Hn.
  assert (Hlen : length (idxs w) = S (length (w_closed w))).
  { unfold idxs. rewrite app_length, map_length. cbn [length]. lia. }
  exists k. split; [lia|]. split; [exact Hn|]. intros b.
  unfold select_files.
  destruct (w_closed w ++ [with_bytes (tail_file w) b]) as [|f0 fr] eqn:Ef; [destruct (w_closed w); discriminate|].
  rewrite <- Ef. rewrite search_index_sel, Hmap, Hsel. cbv zeta.
  assert (Hsk : skipn k (w_closed w ++ [with_bytes (tail_file w) b]) = skipn k (w_closed w) ++ [with_bytes (tail_file w) b]).
  { rewrite skipn_app. replace (k - length (w_closed w))%nat with 0%nat by lia. reflexivity. }
  rewrite Hsk.
  rewrite (valid_seq_ext _ (skipn k (w_files w))).
  - unfold w. rewrite written_directory_valid_seq. reflexivity.
  - rewrite <- Hsk, !skipn_map'. f_equal. unfold w_files. rewrite !map_app. reflexivity.
Qed.

(* ---------- what a restarting node runs, at any snapshot ---------- *)
Definition after_repair_at (at_ : wsnap) (sel : list bytes) (b : bytes) (r1 : rares) : rares :=
  match r1 with
  | RAOk _ _ _ _ _ => r1
  | RAErr EFileNotFound => r1
  | RAErr EPanic => r1
  | RAErr _ => match repair_last b with
               | RepFalse => r1
               | RepSame => read_all at_ (sel ++ [b])
               | RepTrunc off => read_all at_ (sel ++ [btake off b])
               end
  end.

Lemma final_sel closed t sel at_ :
  (forall b, select_files (closed ++ [with_bytes t b]) at_ = Some (sel ++ [with_bytes t b])) ->
  forall b,
  final_result (reopen (closed ++ [with_bytes t b]) (Some at_)) =
  after_repair_at at_ (map sg_bytes sel) b (read_all at_ (map sg_bytes sel ++ [b])).
Proof.
  intros Hsel b. unfold final_result, reopen. cbn [ro_repair ro_first].
  unfold open_read_all. rewrite Hsel. rewrite map_app. cbn [map sg_bytes with_bytes].
  unfold after_repair_at.
  destruct (read_all at_ (map sg_bytes sel ++ [b])) as [m st e o c|e] eqn:Er; [reflexivity|].
  unfold repair. rewrite rev_app_distr. cbn [rev app sg_bytes with_bytes].
  destruct e; try reflexivity;
    (destruct (repair_last b); [reflexivity| |];
     rewrite ?set_last_bytes_app; cbn [sg_bytes with_bytes];
     [rewrite Hsel, map_app; cbn [map sg_bytes with_bytes]; rewrite Er; reflexivity
     |change (with_bytes (with_bytes t b) (btake off b)) with (with_bytes t (btake off b));
      rewrite Hsel, map_app; reflexivity]).
Qed.

Definition good_at (at_ : wsnap) (req : N) (L : list lrec) (r : rares) : Prop :=
  match r with
  | RAErr _ => True
  | RAOk _ st ents _ _ => exists k, req <= k /\ effect at_ (firstn (N.to_nat k) L) = Some (st, ents)
  end.

Lemma read_all_err_at at_ files rs e off :
  decode_all files = (rs, Some e, off) -> exists e', read_all at_ files = RAErr e'.
Proof.
  intros Hd. pose proof (read_all_fold at_ files) as H. rewrite Hd in H. cbn [fold_view] in H.
  destruct (read_all at_ files) as [m st en o c|e']; [|eauto]. cbn [rares_view] in H.
  destruct (ra_fold at_ ra_init rs); [|discriminate]. destruct e; discriminate.
Qed.

Lemma read_all_good_at at_ files meta preA preB d recs1 recs2 off req :
  let ck := chain_crc 0 (map (seg_recs meta) preA) in
  let cn := chain_crc ck (map (seg_recs meta) preB) in
  decode_all files = (stored_segs ck (map (seg_recs meta) preB) ++ stored cn recs1, None, off) ->
  recs1 ++ recs2 = seg_recs meta d -> Forall segd_wf (preB ++ [d]) -> st0_ok (all_L preA) (preB ++ [d]) ->
  (preB <> [] \/ last_state (all_L preA) hs_empty = hs_empty \/
   (length (hdr meta (sd_st0 d)) <= length recs1)%nat) ->
  effect at_ (all_L preA) = Some (last_state (all_L preA) hs_empty, []) ->
  req <= nlen (all_L preA ++ all_L preB) + N.of_nat (length recs1 - length (hdr meta (sd_st0 d))) ->
  good_at at_ req ((all_L preA ++ all_L preB) ++ sd_L d) (read_all at_ files).
Proof.
  intros ck cn Hd Hp Hwf Hst Hcase HA Hreq.
  pose proof (read_all_fold at_ files) as H. rewrite Hd in H. cbn [fold_view] in H.
  pose proof (ra_fold_suffix at_ meta (all_L preA) preB d ck recs1 recs2 Hp Hwf Hst Hcase) as Hf. fold cn in Hf.
  destruct (read_all at_ files) as [m st en o c|e']; [|exact I]. cbn [rares_view good_at] in *.
  destruct (ra_fold at_ ra_init _) as [s'|e]; [|discriminate].
  inversion H; subst.
  exists (nlen (all_L preA ++ all_L preB) + N.of_nat (length recs1 - length (hdr meta (sd_st0 d)))).
  split; [exact Hreq|].
  unfold nlen. rewrite <- Nat2N.inj_add, Nat2N.id, firstn_app_len.
  unfold effect in *. rewrite <- app_assoc, effect_go_app, HA. exact Hf.
Qed.

Lemma encode_segs_length : forall segs c, length (encode_segs c segs) = length segs.
Proof. induction segs as [|x r IH]; intros c; [reflexivity|]. cbn [encode_segs length]. now rewrite IH. Qed.

Lemma encode_segs_skipn : forall k segs c,
  skipn k (encode_segs c segs) = encode_segs (chain_crc c (firstn k segs)) (skipn k segs).
Proof.
  induction k as [|k IH]; intros segs c; [reflexivity|]. destruct segs as [|x r]; [reflexivity|].
  cbn [encode_segs skipn firstn chain_crc]. apply IH.
Qed.

Lemma st0_ok_drop : forall a acc b, st0_ok acc (a ++ b) -> st0_ok (acc ++ all_L a) b.
Proof.
  induction a as [|x a IH]; intros acc b H.
  - unfold all_L. cbn. now rewrite app_nil_r.
  - cbn [app st0_ok] in H. destruct H as [_ H]. apply IH in H. unfold all_L in *. cbn [map concat].
    now rewrite app_assoc.
Qed.

(* ================================================================ END TO END, any segments, any snapshot *)
Theorem multi_segment_cut_at opt seg meta ops o c at_ :
  data_ok meta -> Forall op_wf (ops ++ [o]) -> Forall not_release (ops ++ [o]) ->
  let w0 := w_run opt seg meta ops in
  let w := w_step w0 o in
  (w_tailsize w - blen (w_tail w) = 0 \/ 8 <= w_tailsize w - blen (w_tail w)) ->
  synced_off w0 w <= c -> c <= blen (sg_bytes (tail_file w)) ->
  (w_closed w <> [] -> 16 <= c) ->
  (w_closed w <> [] -> w_idx w <= sn_index at_ ->
     forall c0 st recs, c0 < 2 ^ 32 -> w_tail w = fst (encode_all c0 (hdr meta st ++ recs)) ->
       blen (fst (encode_all c0 (hdr meta st))) <= c) ->
  (forall n, effect at_ (firstn n (lrecs (ops ++ [o]))) <> None) ->
  (forall c0 recs recs1 x recs2 j, c0 < 2 ^ 32 -> w_tail w = fst (encode_all c0 recs) ->
     recs = recs1 ++ x :: recs2 ->
     c = blen (fst (encode_all c0 recs1)) + j -> 8 <= j < blen (frame_of (snd (encode_all c0 recs1)) x) ->
     no_crc_collision_cut (snd (encode_all c0 recs1)) x j) ->
  good_at at_ (synced_recs w0) (lrecs (ops ++ [o]))
       (final_result (reopen (set_last_bytes (w_files w) (img_trunc c)) (Some at_))).
Proof.
  intros Hm Hops Hnr w0 w Hz Hsync Hc H16 Hhead Hgap Hnc.
  assert (Hw : w = w_run opt seg meta (ops ++ [o])) by (unfold w, w0, w_run; now rewrite fold_left_app).
  assert (Hops0 : Forall op_wf ops) by (apply Forall_app in Hops; tauto).
  assert (Hnr0 : Forall not_release ops) by (apply Forall_app in Hnr; tauto).
  assert (Ho : op_wf o) by (apply Forall_app in Hops as [_ H]; now inversion H).
  assert (Hno : not_release o) by (apply Forall_app in Hnr as [_ H]; now inversion H).
  destruct (w_run_geinv opt seg meta ops Hm Hops0 Hnr0) as (pre0 & d0 & G0 & E0). fold w0 in G0, E0.
  destruct (geinv_step w0 meta ops pre0 d0 o G0 E0 Ho Hno) as (pre & d & G & E & Hrel & Hcutd).
  fold w in G, E, Hrel, Hcutd.
  pose proof (gi_t _ _ _ _ _ G) as Ht. pose proof (gi_ok _ _ _ _ _ G) as Hsok.
  pose proof (gi_bytes _ _ _ _ _ G) as Hbytes. pose proof (gi_L _ _ _ _ _ G) as HL.
  pose proof (gi_st0 _ _ _ _ _ G) as Hst.
  assert (Hwf : Forall lrec_wf (lrecs (ops ++ [o]))) by now apply lrecs_wf.
  assert (Hsw : Forall segd_wf (pre ++ [d])).
  { apply (segd_wf_all _ [] Hst); [constructor|]. rewrite all_L_app. unfold all_L at 2. cbn [map concat].
    rewrite app_nil_r, HL. exact Hwf. }
  assert (Hlen : length (w_closed w) = length pre).
  { apply (f_equal (@length _)) in Hbytes. now rewrite encode_segs_length, !map_length in Hbytes. }
  (* Open's selection *)
  destruct (select_at opt seg meta (ops ++ [o]) at_ Hnr) as (k & Hk & Hnth & Hsel). rewrite <- Hw in Hk, Hnth, Hsel.
  unfold w_files. rewrite set_last_bytes_app. rewrite (final_sel _ _ _ at_ Hsel).
  rewrite skipn_map', Hbytes, encode_segs_skipn, firstn_map, <- skipn_map'.
  rewrite Hlen in Hk.
  remember (firstn k pre) as preA eqn:EA. remember (skipn k pre) as preB eqn:EB.
  assert (Epre : pre = preA ++ preB) by (subst; symmetry; apply firstn_skipn).
  assert (HsokAB : segs_ok (map (seg_recs meta) preA) /\ segs_ok (map (seg_recs meta) preB)).
  { rewrite Epre, map_app in Hsok. unfold segs_ok in *. apply Forall_app in Hsok. exact Hsok. }
  destruct HsokAB as [HsokA HsokB].
  remember (chain_crc 0 (map (seg_recs meta) preA)) as ck eqn:Eck.
  remember (chain_crc ck (map (seg_recs meta) preB)) as cn eqn:Ecn.
  assert (Ecn0 : chain_crc 0 (map (seg_recs meta) pre) = cn).
  { rewrite Epre, map_app, chain_crc_app, <- Eck. now rewrite Ecn. }
  rewrite Ecn0 in Ht.
  pose proof (ti_tail _ _ _ Ht) as Htail. pose proof (ti_ok _ _ _ Ht) as Hok.
  assert (Hcn : cn < 2 ^ 32) by (rewrite <- Ecn0; apply chain_crc_lt; [reflexivity|exact Hsok]).
  remember (seg_recs meta d) as recs eqn:Erecs.
  assert (HstB : st0_ok (all_L preA) (preB ++ [d])).
  { rewrite Epre, <- app_assoc in Hst. apply st0_ok_drop in Hst. exact Hst. }
  assert (HswB : Forall segd_wf (preB ++ [d])).
  { rewrite Epre, <- app_assoc in Hsw. apply Forall_app in Hsw. tauto. }
  assert (HLAB : all_L pre = all_L preA ++ all_L preB) by (rewrite Epre; apply all_L_app).
  (* the records in front of the selected files *)
  assert (HA : effect at_ (all_L preA) = Some (last_state (all_L preA) hs_empty, [])).
  { assert (Hb : ent_after 0 (all_L preA) <= sn_index at_).
    { eapply N.le_trans; [|exact Hnth].
      pose proof (idx_ok_nth (pre ++ [d]) [] (idxs w) k (proj2 E) ltac:(rewrite app_length; cbn [length]; lia)) as Hi.
      cbn [app] in Hi. rewrite firstn_app in Hi. replace (k - length pre)%nat with 0%nat in Hi by lia.
      cbn [firstn] in Hi. rewrite app_nil_r, <- EA in Hi. exact Hi. }
    specialize (Hgap (length (all_L preA))). rewrite <- HL, HLAB, <- app_assoc in Hgap.
    rewrite firstn_app, Nat.sub_diag, firstn_all in Hgap. cbn [firstn] in Hgap. rewrite app_nil_r in Hgap.
    unfold effect in *. destruct (effect_go at_ (all_L preA) hs_empty []) as [[stA entsA]|] eqn:EA'; [|contradiction].
    rewrite (effect_go_state _ _ _ _ _ _ EA').
    rewrite (effect_go_dropped at_ _ 0 _ _ _ _ (fun _ => eq_refl) EA' Hb). reflexivity. }
  (* the image *)
  cbn [sg_bytes tail_file] in *.
  pose proof Htail as Htail'. rewrite Htail in Hz, Hc |- *.
  remember (w_tailsize w - blen (fst (encode_all cn recs))) as z eqn:Ez.
  destruct (trunc_image_tail cn recs z c Hcn Hok Hz Hc (fun r1 x r2 j Eq => Hnc cn recs r1 x r2 j Hcn Htail' Eq))
    as (recs1 & recs2 & v & Hsplit & Htd & Hnext & Hv).
  remember (img_trunc c (fst (encode_all cn recs) ++ zeros z)) as b eqn:Eb.
  assert (Hok1 : Forall enc_ok recs1) by (rewrite Hsplit in Hok; apply Forall_app in Hok; tauto).
  assert (Hp : recs1 ++ recs2 = seg_recs meta d) by (rewrite <- Erecs; symmetry; exact Hsplit).
  (* everything saved before the last completed sync lies inside what is returned *)
  assert (Hreq : synced_recs w0 <= nlen (all_L preA ++ all_L preB) + N.of_nat (length recs1 - length (hdr meta (sd_st0 d)))).
  { rewrite <- HLAB. unfold synced_recs. destruct (w_sync w0) as [s|] eqn:Es; [|lia].
    destruct (w_run_sync_name opt seg meta ops s Es) as [Hle Hidx]. fold w0 in Hle, Hidx.
    destruct Hcutd as [Hsame|[Hnil _]].
    - destruct (Hrel Hsame) as (Epre0 & Hst0 & more & Hmore).
      destruct (N.eq_dec (sy_seq s) (w_seq w0)) as [Eq|Eq].
      + destruct (gi_sync _ _ _ _ _ G0 s Es Eq) as (j & Hj & Hoff & Hrec). rewrite <- Epre0, Ecn0 in Hoff.
        rewrite <- Epre0 in Hrec.
        assert (Hso : synced_off w0 w = sy_off s).
        { unfold synced_off. rewrite Es. destruct (w_step_dir w0 o Hsame) as (Hi & _). fold w in Hi.
          rewrite Hsame, Hi, Eq, (Hidx Eq), !N.eqb_refl. reflexivity. }
        rewrite Hso, Hoff in Hsync.
        assert (Hsp : recs = (hdr meta (sd_st0 d0) ++ map rec_of_lrec (firstn j (sd_L d0)))
                             ++ map rec_of_lrec (skipn j (sd_L d0) ++ more)).
        { rewrite Erecs. unfold seg_recs. rewrite Hst0, Hmore. rewrite <- app_assoc, <- map_app, app_assoc, firstn_skipn.
          reflexivity. }
        pose proof (prefix_len_le_c cn recs _ _ recs1 recs2 c Hsp Hsplit Hsync Hnext) as Hlen2.
        rewrite app_length, map_length, firstn_length_le in Hlen2 by exact Hj.
        rewrite Hrec, Hst0. lia.
      + pose proof (gi_old _ _ _ _ _ G0 s Es Eq) as Hle2. rewrite <- Epre0 in Hle2. lia.
    - pose proof (ginv_sync_rec _ _ _ _ _ G0 s Es) as Hle2. rewrite (gi_nrec _ _ _ _ _ G0) in Hle2.
      rewrite Hnil, app_nil_r in HL. rewrite HL, lrecs_app. unfold nlen in *. rewrite app_length. lia. }
  (* a cut inside the first 16 bytes of the tail: the history has a single file *)
  assert (Hnil : recs1 = [] -> pre = []).
  { intros ->.
    assert (Hlt : c < 16).
    { destruct Hnext as [->|Hn]; [exfalso; rewrite Erecs in Hsplit; unfold seg_recs, hdr in Hsplit; discriminate|].
      cbn [app] in *. rewrite Erecs in Hsplit. unfold seg_recs, hdr in Hsplit. cbn [app] in Hsplit.
      destruct recs2 as [|x2 r2]; [discriminate|]. inversion Hsplit; subst x2. cbn [firstn] in Hn.
      rewrite (proj1 (encode_all_single cn _)) in Hn. pose proof (crc_frame_len cn Hcn). lia. }
    destruct (w_closed w) eqn:Ecl; [|exfalso; assert (16 <= c) by (apply H16; discriminate); lia].
    cbn [length] in Hlen. destruct pre; [reflexivity|discriminate]. }
  assert (HnilAB : recs1 = [] -> preA = [] /\ preB = []).
  { intros Hr. apply Hnil in Hr. rewrite Hr in Epre. symmetry in Epre. apply app_eq_nil in Epre. exact Epre. }
  (* what ReadAll folds over the selected files: the first head restores the hard state *)
  assert (Hcase : preB <> [] \/ last_state (all_L preA) hs_empty = hs_empty \/
                  (length (hdr meta (sd_st0 d)) <= length recs1)%nat).
  { destruct preB as [|b1 rB]; [|left; discriminate]. right.
    destruct (w_closed w) as [|f0 fr] eqn:Ecl.
    - left. cbn [length] in Hlen. destruct pre; [|discriminate]. rewrite EA, firstn_nil. reflexivity.
    - right.
      assert (Ek : k = length pre).
      { assert (length (skipn k pre) = 0%nat) by (rewrite <- EB; reflexivity). rewrite skipn_length in H. lia. }
      assert (Hidxk : nth k (idxs w) 0 = w_idx w).
      { unfold idxs. rewrite app_nth2 by (rewrite map_length, Ecl, Hlen, Ek; lia).
        rewrite map_length, Ecl, Hlen, Ek, Nat.sub_diag. reflexivity. }
      rewrite Hidxk in Hnth.
      assert (Hle : blen (fst (encode_all cn (hdr meta (sd_st0 d)))) <= c).
      { apply (Hhead ltac:(discriminate) Hnth cn (sd_st0 d) (map rec_of_lrec (sd_L d)) Hcn).
        rewrite Htail', Erecs. reflexivity. }
      assert (Hsp : recs = hdr meta (sd_st0 d) ++ map rec_of_lrec (sd_L d)) by (rewrite Erecs; reflexivity).
      exact (prefix_len_le_c cn recs _ _ recs1 recs2 c Hsp Hsplit Hle Hnext). }
  (* decoding the selected files with any tail image; Repair reads the tail alone *)
  assert (Hdecsel : forall img v', tail_decodes cn img recs1 v' ->
            decode_all (encode_segs ck (map (seg_recs meta) preB) ++ [img]) =
            (stored_segs ck (map (seg_recs meta) preB) ++ stored cn recs1, v', blen (fst (encode_all cn recs1)))).
  { intros img v' Hti. rewrite Ecn in Hti |- *. rewrite Eck in Hti |- *.
    exact (decode_selected meta preA preB d img recs1 recs2 v' HsokA HsokB Hp Hok1 HnilAB Hti). }
  assert (Hrep : exists rs, decode_all [b] = (rs, v, blen (fst (encode_all cn recs1)))).
  { eexists. rewrite <- Ecn0 in Htd |- *.
    exact (decode_selected meta pre [] d b recs1 recs2 v Hsok (Forall_nil _) Hp Hok1
             (fun Hr => conj (Hnil Hr) eq_refl) Htd). }
  destruct Hrep as (rs & Hrep).
  pose proof (Hdecsel b v Htd) as Hdec.
  rewrite <- HL, HLAB.
  unfold after_repair_at.
  destruct Hv as [->|[->|[->| ->]]].
  - pose proof (read_all_good_at at_ _ meta preA preB d recs1 recs2 _ _
                  ltac:(rewrite <- Eck, <- Ecn; exact Hdec) Hp HswB HstB Hcase HA Hreq) as Hgood.
    destruct (read_all at_ (encode_segs ck (map (seg_recs meta) preB) ++ [b])) as [m st en off cc|e] eqn:Er; [exact Hgood|].
    rewrite repair_last_spec, Hrep. cbn [repair_of_verdict]. destruct e; exact I.
  - destruct (read_all_err_at at_ _ _ _ _ Hdec) as (e' & Er). rewrite Er.
    rewrite repair_last_spec, Hrep. cbn [repair_of_verdict].
    assert (Hb2 : btake (blen (fst (encode_all cn recs1))) b = fst (encode_all cn recs1)).
    { destruct Htd as (junk & Ej & _). rewrite Ej. apply btake_app_exact. }
    rewrite Hb2.
    pose proof (Hdecsel _ None (tail_decodes_exact cn recs1)) as Hdec2.
    pose proof (read_all_good_at at_ _ meta preA preB d recs1 recs2 _ _
                  ltac:(rewrite <- Eck, <- Ecn; exact Hdec2) Hp HswB HstB Hcase HA Hreq) as Hgood.
    destruct e'; try exact I; exact Hgood.
  - destruct (read_all_err_at at_ _ _ _ _ Hdec) as (e' & Er). rewrite Er.
    rewrite repair_last_spec, Hrep. cbn [repair_of_verdict]. destruct e'; exact I.
  - destruct (read_all_err_at at_ _ _ _ _ Hdec) as (e' & Er). rewrite Er.
    rewrite repair_last_spec, Hrep. cbn [repair_of_verdict]. destruct e'; exact I.
Qed.

(* for a cut beyond everything written the collision hypothesis and the head hypothesis are vacuous *)
Lemma no_cut_beyond_tail tail c :
  blen tail <= c ->
  forall c0 recs recs1 x recs2 j, tail = fst (encode_all c0 recs) -> recs = recs1 ++ x :: recs2 ->
    c = blen (fst (encode_all c0 recs1)) + j -> 8 <= j < blen (frame_of (snd (encode_all c0 recs1)) x) -> False.
Proof.
  intros Hc c0 recs recs1 x recs2 j -> -> Hcj [_ Hj].
  rewrite blen_encode_app in Hc.
  change (x :: recs2) with ([x] ++ recs2) in Hc. rewrite blen_encode_app in Hc.
  rewrite (proj1 (encode_all_single _ x)) in Hc. lia.
Qed.

Lemma head_within_tail tail c meta :
  blen tail <= c ->
  forall c0 st recs, tail = fst (encode_all c0 (hdr meta st ++ recs)) -> blen (fst (encode_all c0 (hdr meta st))) <= c.
Proof. intros Hc c0 st recs ->. rewrite blen_encode_app in Hc. lia. Qed.
