(* Wal/Model.v — C05: the write-ahead log, byte exact.
   Hand-written model of:
     wal/encoder.go       encoder.encode, encodeFrameSize, writeUint64, flush
     pkg/ioutil/pagewriter.go  PageWriter.Write / Flush (only the byte counts: what has reached the file)
     wal/decoder.go       decoder.decodeRecord, decodeFrameSize, isTornEntry, readInt64, lastOffset, updateCRC
     wal/wal.go           Create, Save, saveEntry, saveState, SaveSnapshot, saveCrc, cut, sync, Sync,
                          ReleaseLockTo, Open/openAtIndex/selectWALFiles, ReadAll, ValidSnapshotEntries, Verify
     wal/util.go          searchIndex, isValidSeq
     wal/repair.go        Repair
     raft/node.go         MustSync, IsEmptyHardState
     node/raft.go         openWAL's Open / ReadAll / Repair / Open / ReadAll sequence ([reopen])
   and of the crash images the check feeds to the reopening code ([img_*]).
   A segment file is the list of its bytes. No proofs in this file. *)
From ZV Require Export Common.Bytes Wal.Consts Wal.Crc Wal.Proto.
Open Scope N_scope.

(* ================================================================ frames *)

Definition byte_of (v : N) (k : N) : N := N.land (N.shiftr v (8 * k)) 255.
Definition le64 (v : N) : bytes :=
  [byte_of v 0; byte_of v 1; byte_of v 2; byte_of v 3; byte_of v 4; byte_of v 5; byte_of v 6; byte_of v 7].
Definition le64_dec (bs : bytes) : N :=
  match bs with
  | [b0; b1; b2; b3; b4; b5; b6; b7] =>
      b0 + N.shiftl b1 8 + N.shiftl b2 16 + N.shiftl b3 24 + N.shiftl b4 32 + N.shiftl b5 40
      + N.shiftl b6 48 + N.shiftl b7 56
  | _ => 0
  end.

(* encodeFrameSize *)
Definition frame_pad (n : N) : N := N.land (8 - N.land n 7) 7.
Definition frame_len_field (n : N) : N :=
  let pad := frame_pad n in
  if pad =? 0 then n else N.lor n (N.shiftl (N.lor 128 pad) 56).
Definition frame (data : bytes) : bytes :=
  le64 (frame_len_field (blen data)) ++ data ++ zeros (frame_pad (blen data)).

(* decodeFrameSize *)
Definition mask56 : N := 72057594037927935.
Definition frame_rec_bytes (l : N) : N := N.land l mask56.
Definition frame_pad_bytes (l : N) : N := if two63 <=? l then N.land (N.shiftr l 56) 7 else 0.

(* ================================================================ encoder *)

Definition data_or_nil (d : option bytes) : bytes := match d with Some b => b | None => [] end.

(* encoder.encode: the running crc absorbs rec.Data, is stored in rec.Crc, the record is framed *)
Definition encode_rec (crc : N) (ty : N) (data : option bytes) : bytes * N :=
  let crc' := crc_update crc (data_or_nil data) in
  (frame (record_marshal {| r_type := ty; r_crc := crc'; r_data := data |}), crc').

(* ================================================================ page writer (byte counts) *)

Record pwriter := { pw_off : N;        (* pageOffset *)
                    pw_buf : N;        (* bufferedBytes *)
                    pw_flushed : N }.  (* bytes that have reached the file = its write offset *)

Definition pw_flush (p : pwriter) : pwriter :=
  {| pw_off := (pw_off p + pw_buf p) mod c_walPageBytes; pw_buf := 0; pw_flushed := pw_flushed p + pw_buf p |}.

Definition pw_write (n : N) (p : pwriter) : pwriter :=
  if n + pw_buf p <=? c_pwWatermark then {| pw_off := pw_off p; pw_buf := pw_buf p + n; pw_flushed := pw_flushed p |}
  else
    let slack := c_walPageBytes - ((pw_off p + pw_buf p) mod c_walPageBytes) in
    let aligned := slack =? c_walPageBytes in
    if negb aligned && (n <? slack) then
      {| pw_off := pw_off p; pw_buf := pw_buf p + n; pw_flushed := pw_flushed p |}
    else
      let take := if aligned then 0 else slack in
      let p1 := pw_flush {| pw_off := pw_off p; pw_buf := pw_buf p + take; pw_flushed := pw_flushed p |} in
      let n1 := n - take in
      let direct := if c_walPageBytes <? n1 then (n1 / c_walPageBytes) * c_walPageBytes else 0 in
      (* the rest (at most one page) is buffered by the recursive Write *)
      {| pw_off := pw_off p1; pw_buf := n1 - direct; pw_flushed := pw_flushed p1 + direct |}.

(* ================================================================ the writing WAL *)

Record segfile := { sg_seq : N; sg_idx : N; sg_bytes : bytes;   (* name <seq>-<idx>.wal, content *)
                    sg_rec : N }.   (* bookkeeping: logical records handed over before the segment was started *)

Record syncpt := { sy_seq : N; sy_idx : N; sy_off : N; sy_rec : N }.

Record wal := {
  w_opt : bool;                 (* optimizedFsync *)
  w_segsize : N;                (* SegmentSizeBytes *)
  w_meta : option bytes;
  w_state : hardstate;
  w_enti : N;
  w_crc : N;                    (* encoder.crc *)
  w_closed : list segfile;      (* segments before the tail that still exist, oldest first *)
  w_seq : N; w_idx : N;         (* the tail's name *)
  w_tail : bytes;               (* everything encoded into the tail so far *)
  w_pw : pwriter;
  w_sync : option syncpt;       (* last completed fdatasync *)
  w_nrec : N;                   (* logical records handed to the wal so far (bookkeeping of the check) *)
  w_tailrec : N;                (* value of w_nrec when the tail was started *)
  w_tailsize : N                (* length of the tail file: SegmentSizeBytes for a segment the wal allocated,
                                   the file's own length for a tail taken over by Open *)
}.

Definition set_tail (w : wal) (tail : bytes) (crc : N) (pw : pwriter) : wal :=
  {| w_opt := w_opt w; w_segsize := w_segsize w; w_meta := w_meta w; w_state := w_state w; w_enti := w_enti w;
     w_crc := crc; w_closed := w_closed w; w_seq := w_seq w; w_idx := w_idx w; w_tail := tail; w_pw := pw;
     w_sync := w_sync w; w_nrec := w_nrec w; w_tailrec := w_tailrec w; w_tailsize := w_tailsize w |}.

(* encoder.encode through the page writer: an 8-byte write, then the padded record *)
Definition w_encode (ty : N) (data : option bytes) (w : wal) : wal :=
  let '(fr, crc') := encode_rec (w_crc w) ty data in
  set_tail w (w_tail w ++ fr) crc' (pw_write (blen fr - 8) (pw_write 8 (w_pw w))).

Definition w_set_enti (w : wal) (i : N) : wal :=
  {| w_opt := w_opt w; w_segsize := w_segsize w; w_meta := w_meta w; w_state := w_state w; w_enti := i;
     w_crc := w_crc w; w_closed := w_closed w; w_seq := w_seq w; w_idx := w_idx w; w_tail := w_tail w; w_pw := w_pw w;
     w_sync := w_sync w; w_nrec := w_nrec w; w_tailrec := w_tailrec w; w_tailsize := w_tailsize w |}.
Definition w_set_state (w : wal) (s : hardstate) : wal :=
  {| w_opt := w_opt w; w_segsize := w_segsize w; w_meta := w_meta w; w_state := s; w_enti := w_enti w;
     w_crc := w_crc w; w_closed := w_closed w; w_seq := w_seq w; w_idx := w_idx w; w_tail := w_tail w; w_pw := w_pw w;
     w_sync := w_sync w; w_nrec := w_nrec w; w_tailrec := w_tailrec w; w_tailsize := w_tailsize w |}.
Definition w_add_nrec (w : wal) (k : N) : wal :=
  {| w_opt := w_opt w; w_segsize := w_segsize w; w_meta := w_meta w; w_state := w_state w; w_enti := w_enti w;
     w_crc := w_crc w; w_closed := w_closed w; w_seq := w_seq w; w_idx := w_idx w; w_tail := w_tail w; w_pw := w_pw w;
     w_sync := w_sync w; w_nrec := w_nrec w + k; w_tailrec := w_tailrec w; w_tailsize := w_tailsize w |}.

(* WAL.sync(fsync): flush the page writer; with fsync, fdatasync the tail *)
Definition w_sync_op (fsync : bool) (w : wal) : wal :=
  let pw := pw_flush (w_pw w) in
  {| w_opt := w_opt w; w_segsize := w_segsize w; w_meta := w_meta w; w_state := w_state w; w_enti := w_enti w;
     w_crc := w_crc w; w_closed := w_closed w; w_seq := w_seq w; w_idx := w_idx w; w_tail := w_tail w; w_pw := pw;
     w_sync := if fsync then Some {| sy_seq := w_seq w; sy_idx := w_idx w; sy_off := pw_flushed pw; sy_rec := w_nrec w |}
               else w_sync w;
     w_nrec := w_nrec w; w_tailrec := w_tailrec w; w_tailsize := w_tailsize w |}.

Definition save_entry (e : entry) (w : wal) : wal :=
  w_set_enti (w_encode c_entryType (Some (entry_marshal e)) w) (e_index e).

Definition save_state (s : hardstate) (w : wal) : wal :=
  if hs_is_empty s then w else w_encode c_stateType (Some (hs_marshal s)) (w_set_state w s).

(* WAL.cut: the old tail is truncated to what was written and synced; a new segment <seq+1>-<enti+1>
   starts with the crc record, the metadata and the current hard state, and is synced before its rename *)
Definition w_cut (w : wal) : wal :=
  let w1 := w_sync_op (negb (w_opt w)) w in
  let w2 := {| w_opt := w_opt w1; w_segsize := w_segsize w1; w_meta := w_meta w1; w_state := w_state w1;
               w_enti := w_enti w1; w_crc := w_crc w1;
               w_closed := w_closed w1 ++ [{| sg_seq := w_seq w1; sg_idx := w_idx w1; sg_bytes := w_tail w1; sg_rec := w_tailrec w1 |}];
               w_seq := w_seq w1 + 1; w_idx := w_enti w1 + 1; w_tail := [];
               w_pw := {| pw_off := 0; pw_buf := 0; pw_flushed := 0 |};
               w_sync := w_sync w1; w_nrec := w_nrec w1; w_tailrec := w_nrec w1; w_tailsize := w_segsize w1 |} in
  let w3 := w_encode c_crcType None w2 in
  let w4 := w_encode c_metadataType (w_meta w3) w3 in
  let w5 := save_state (w_state w4) w4 in
  let w6 := w_sync_op (negb (w_opt w5)) w5 in
  (* newFileEncoder at the new file's offset *)
  set_tail w6 (w_tail w6) (w_crc w6)
           {| pw_off := pw_flushed (w_pw w6); pw_buf := 0; pw_flushed := pw_flushed (w_pw w6) |}.

(* WAL.Save *)
Definition w_save (st : hardstate) (ents : list entry) (w : wal) : wal :=
  if hs_is_empty st && (match ents with [] => true | _ => false end) then w
  else
    let prev := w_state w in
    let changed := negb (hs_vote st =? hs_vote prev) || negb (hs_term st =? hs_term prev) in
    let must_sync := negb (match ents with [] => true | _ => false end) || changed in   (* raft.MustSync *)
    let fsync := if w_opt w then negb (hs_is_empty st) && changed else true in
    let w1 := fold_left (fun w e => save_entry e w) ents w in
    let w2 := save_state st w1 in
    if pw_flushed (w_pw w2) <? w_segsize w2
    then (if must_sync then w_sync_op fsync w2 else w2)
    else w_cut w2.

(* WAL.SaveSnapshot *)
Definition w_save_snapshot (s : wsnap) (w : wal) : wal :=
  let w1 := w_encode c_snapshotType (Some (snap_marshal s)) w in
  let w2 := if w_enti w1 <? sn_index s then w_set_enti w1 (sn_index s) else w1 in
  w_sync_op (negb (w_opt w2)) w2.

(* wal.Create: segment 0-0 with crc(0), metadata, snapshot{0,0} *)
Definition w_create (opt : bool) (segsize : N) (meta : option bytes) : wal :=
  let w0 := {| w_opt := opt; w_segsize := segsize; w_meta := meta; w_state := hs_empty; w_enti := 0; w_crc := 0;
               w_closed := []; w_seq := 0; w_idx := 0; w_tail := [];
               w_pw := {| pw_off := 0; pw_buf := 0; pw_flushed := 0 |};
               w_sync := None; w_nrec := 1; w_tailrec := 0; w_tailsize := segsize |} in
  let w1 := w_encode c_crcType None w0 in
  let w2 := w_encode c_metadataType meta w1 in
  w_save_snapshot {| sn_index := 0; sn_term := 0 |} w2.

(* WAL.ReleaseLockTo followed by the purge of the released segment files: the locks are the closed
   segments and the tail; the first lock whose index is >= index, minus one, is the first kept *)
Fixpoint first_ge (idxs : list N) (index : N) (i : N) : option N :=
  match idxs with
  | [] => None
  | x :: r => if index <=? x then Some i else first_ge r index (i + 1)
  end.
Definition w_release (index : N) (w : wal) : wal :=
  let idxs := map sg_idx (w_closed w) ++ [w_idx w] in
  let smaller := match first_ge idxs index 0 with
                 | Some i => i - 1            (* i = 0 gives -1 in Go: nothing is released either way *)
                 | None => nlen idxs - 1
                 end in
  {| w_opt := w_opt w; w_segsize := w_segsize w; w_meta := w_meta w; w_state := w_state w; w_enti := w_enti w;
     w_crc := w_crc w; w_closed := skipn (N.to_nat smaller) (w_closed w); w_seq := w_seq w; w_idx := w_idx w;
     w_tail := w_tail w; w_pw := w_pw w; w_sync := w_sync w; w_nrec := w_nrec w; w_tailrec := w_tailrec w; w_tailsize := w_tailsize w |}.

Inductive wop :=
| OSave (st : hardstate) (ents : list entry)
| OSnap (s : wsnap)
| ORelease (index : N)
| OSync.

Definition wop_nrec (o : wop) : N :=
  match o with
  | OSave st ents => nlen ents + (if hs_is_empty st then 0 else 1)
  | OSnap _ => 1
  | _ => 0
  end.

Definition w_step (w : wal) (o : wop) : wal :=
  let w := w_add_nrec w (wop_nrec o) in
  match o with
  | OSave st ents => w_save st ents w
  | OSnap s => w_save_snapshot s w
  | ORelease i => w_release i w
  | OSync => w_sync_op true w
  end.

Definition w_run (opt : bool) (segsize : N) (meta : option bytes) (ops : list wop) : wal :=
  fold_left w_step ops (w_create opt segsize meta).

(* the directory after Close: closed segments as written; the tail preallocated to SegmentSizeBytes *)
Definition tail_file (w : wal) : segfile :=
  {| sg_seq := w_seq w; sg_idx := w_idx w;
     sg_bytes := w_tail w ++ zeros (w_tailsize w - blen (w_tail w)); sg_rec := w_tailrec w |}.
Definition w_files (w : wal) : list segfile := w_closed w ++ [tail_file w].

(* ================================================================ decoder *)

Inductive werr :=
| EUeof            (* io.ErrUnexpectedEOF *)
| ECrc             (* walpb.ErrCRCMismatch *)
| EProto           (* any other Unmarshal error *)
| EMaxSize         (* ErrMaxWALEntrySizeLimitExceeded *)
| ECrcChain        (* wal.ErrCRCMismatch *)
| EMetaConflict
| ESnapMismatch
| ESnapNotFound
| EFileNotFound
| EOutOfRange      (* "index out of range, corrupt data" *)
| EBadType         (* "unexpected block type" *)
| EPanic.          (* plog.Panicf in pbutil.MustUnmarshal *)

Record decoder := { d_brs : list bytes;    (* unread part of every remaining segment *)
                    d_off : N;             (* lastValidOff *)
                    d_crc : N }.

Inductive dres :=
| DRec (r : wrecord) (d : decoder)
| DEof (d : decoder)
| DErr (e : werr) (d : decoder).

Definition all_zero (bs : bytes) : bool := forallb (fun b => b =? 0) bs.

(* isTornEntry: the frame's payload split at sector boundaries of the file; torn iff a chunk is all zero *)
Fixpoint torn_chunks (fuel : nat) (file_off : N) (data : bytes) : bool :=
  match fuel with
  | O => false
  | S f =>
    match data with
    | [] => false
    | _ =>
      let chunk := c_minSectorSize - (file_off mod c_minSectorSize) in
      let chunk := if blen data <? chunk then blen data else chunk in
      all_zero (btake chunk data) || torn_chunks f (file_off + chunk) (bdrop chunk data)
    end
  end.
Definition is_torn (d : decoder) (data : bytes) : bool :=
  match d_brs d with
  | [_] => torn_chunks (S (length data)) (d_off d + c_frameSizeBytes) data
  | _ => false
  end.

Definition d_with (d : decoder) (brs : list bytes) (off crc : N) : decoder :=
  {| d_brs := brs; d_off := off; d_crc := crc |}.

(* decoder.decodeRecord; fuel bounds the segment switches *)
Fixpoint decode_record (fuel : nat) (d : decoder) : dres :=
  match fuel with
  | O => DEof d
  | S f =>
    match d_brs d with
    | [] => DEof d
    | br :: rest =>
      let lb := btake 8 br in
      if (blen lb =? 0) || ((blen lb =? 8) && (le64_dec lb =? 0)) then
        (* hit end of file or preallocated space *)
        match rest with
        | [] => DEof (d_with d [] (d_off d) (d_crc d))
        | _ => decode_record f (d_with d rest 0 (d_crc d))
        end
      else if blen lb <? 8 then DErr EUeof d
      else
        let l := le64_dec lb in
        let rec_bytes := frame_rec_bytes l in
        let pad_bytes := frame_pad_bytes l in
        if c_maxWALEntrySizeLimit - pad_bytes <=? rec_bytes then DErr EMaxSize d
        else
          let body := bdrop 8 br in
          let data := btake (rec_bytes + pad_bytes) body in
          if blen data <? rec_bytes + pad_bytes then DErr EUeof d
          else
            let d1 := d_with d (bdrop (rec_bytes + pad_bytes) body :: rest) (d_off d) (d_crc d) in
            match record_unmarshal (btake rec_bytes data) with
            | PErr e => if is_torn d data then DErr EUeof d1
                        else DErr (match e with PUeof => EUeof | POther => EProto end) d1
            | POk r =>
              if r_type r =? c_crcType then
                DRec r (d_with d1 (d_brs d1) (d_off d + c_frameSizeBytes + rec_bytes + pad_bytes) (d_crc d))
              else
                let crc' := crc_update (d_crc d) (data_or_nil (r_data r)) in
                if r_crc r =? crc' then
                  DRec r (d_with d1 (d_brs d1) (d_off d + c_frameSizeBytes + rec_bytes + pad_bytes) crc')
                else if is_torn d data then DErr EUeof (d_with d1 (d_brs d1) (d_off d) crc')
                else DErr ECrc (d_with d1 (d_brs d1) (d_off d) crc')
            end
    end
  end.

Definition new_decoder (segs : list bytes) : decoder := {| d_brs := segs; d_off := 0; d_crc := 0 |}.
Definition decode (d : decoder) : dres := decode_record (S (length (d_brs d))) d.

(* every caller handles a crc record the same way: the running crc must match it unless it is 0 *)
Definition crc_record_ok (d : decoder) (r : wrecord) : bool :=
  (d_crc d =? 0) || (r_crc r =? d_crc d).
Definition d_update_crc (d : decoder) (c : N) : decoder := d_with d (d_brs d) (d_off d) c.

Definition total_len (segs : list bytes) : nat := fold_right (fun s n => (length s + n)%nat) 0%nat segs.
Definition scan_fuel (segs : list bytes) : nat := S (Nat.div (total_len segs) 8 + length segs).

(* ================================================================ ReadAll *)

Record rastate := { ra_meta : option bytes; ra_st : hardstate; ra_ents : list entry; ra_match : bool }.

Inductive rares :=
| RAOk (meta : option bytes) (st : hardstate) (ents : list entry) (last_off : N) (crc : N)
| RAErr (e : werr).

Definition bytes_eq_opt (a b : option bytes) : bool := bytes_eqb (data_or_nil a) (data_or_nil b).

(* one record of ReadAll's loop *)
Definition ra_record (start : wsnap) (d : decoder) (r : wrecord) (s : rastate) : (rastate * decoder) + werr :=
  let ty := r_type r in
  if ty =? c_entryType then
    match entry_unmarshal (data_or_nil (r_data r)) with
    | PErr _ => inr EPanic
    | POk e =>
      if sn_index start <? e_index e then
        let up := e_index e - sn_index start - 1 in
        if nlen (ra_ents s) <? up then inr EOutOfRange
        else inl ({| ra_meta := ra_meta s; ra_st := ra_st s; ra_ents := firstn (N.to_nat up) (ra_ents s) ++ [e]; ra_match := ra_match s |}, d)
      else
        (* an entry at or before the snapshot index was (re)written: what was collected so far is stale *)
        inl ({| ra_meta := ra_meta s; ra_st := ra_st s; ra_ents := []; ra_match := ra_match s |}, d)
    end
  else if ty =? c_stateType then
    match hs_unmarshal (data_or_nil (r_data r)) with
    | PErr _ => inr EPanic
    | POk st => inl ({| ra_meta := ra_meta s; ra_st := st; ra_ents := ra_ents s; ra_match := ra_match s |}, d)
    end
  else if ty =? c_metadataType then
    match ra_meta s with
    | Some m => if bytes_eqb m (data_or_nil (r_data r))
                then inl ({| ra_meta := r_data r; ra_st := ra_st s; ra_ents := ra_ents s; ra_match := ra_match s |}, d)
                else inr EMetaConflict
    | None => inl ({| ra_meta := r_data r; ra_st := ra_st s; ra_ents := ra_ents s; ra_match := ra_match s |}, d)
    end
  else if ty =? c_crcType then
    if crc_record_ok d r then inl (s, d_update_crc d (r_crc r)) else inr ECrcChain
  else if ty =? c_snapshotType then
    match snap_unmarshal (data_or_nil (r_data r)) with
    | PErr _ => inr EPanic
    | POk sn =>
      if sn_index sn =? sn_index start then
        if sn_term sn =? sn_term start
        then inl ({| ra_meta := ra_meta s; ra_st := ra_st s; ra_ents := ra_ents s; ra_match := true |}, d)
        else inr ESnapMismatch
      else inl (s, d)
    end
  else inr EBadType.

Definition ra_init : rastate := {| ra_meta := None; ra_st := hs_empty; ra_ents := []; ra_match := false |}.

(* the for-loop of ReadAll; returns the state at the first decode error together with that error
   (None = io.EOF) and the decoder, or the error raised inside the loop body *)
Fixpoint ra_loop (fuel : nat) (start : wsnap) (d : decoder) (s : rastate)
  : (rastate * option werr * decoder) + werr :=
  match fuel with
  | O => inr EPanic
  | S f =>
    match decode d with
    | DEof d' => inl (s, None, d')
    | DErr e d' => inl (s, Some e, d')
    | DRec r d' =>
      match ra_record start d' r s with
      | inr e => inr e
      | inl (s', d'') => ra_loop f start d'' s'
      end
    end
  end.

(* ReadAll in write mode (wal.Open): every record up to io.EOF must decode *)
Definition read_all (start : wsnap) (segs : list bytes) : rares :=
  match ra_loop (scan_fuel segs) start (new_decoder segs) ra_init with
  | inr e => RAErr e
  | inl (s, Some e, _) => RAErr e
  | inl (s, None, d) =>
    (* "if !match { err = ErrSnapshotNotFound }" is overwritten by "w.encoder, err = newFileEncoder(...)"
       whenever the wal has a tail, i.e. always in write mode: a missing marker is not reported *)
    RAOk (ra_meta s) (ra_st s) (ra_ents s) (d_off d) (d_crc d)
  end.

(* ================================================================ ValidSnapshotEntries / Verify *)

Fixpoint vse_loop (fuel : nat) (d : decoder) (snaps : list wsnap) (st : hardstate)
  : (list wsnap * hardstate * option werr) + werr :=
  match fuel with
  | O => inr EPanic
  | S f =>
    match decode d with
    | DEof _ => inl (snaps, st, None)
    | DErr e _ => inl (snaps, st, Some e)
    | DRec r d' =>
      let ty := r_type r in
      if ty =? c_snapshotType then
        match snap_unmarshal (data_or_nil (r_data r)) with
        | PErr _ => inr EPanic
        | POk sn => vse_loop f d' (snaps ++ [sn]) st
        end
      else if ty =? c_stateType then
        match hs_unmarshal (data_or_nil (r_data r)) with
        | PErr _ => inr EPanic
        | POk s => vse_loop f d' snaps s
        end
      else if ty =? c_crcType then
        if crc_record_ok d' r then vse_loop f (d_update_crc d' (r_crc r)) snaps st else inr ECrcChain
      else vse_loop f d' snaps st
    end
  end.

Definition valid_snapshot_entries (segs : list bytes) : (list wsnap) + werr :=
  match vse_loop (scan_fuel segs) (new_decoder segs) [] hs_empty with
  | inr e => inr e
  | inl (snaps, st, err) =>
    match err with
    | None | Some EUeof | Some EMaxSize => inl (filter (fun s => sn_index s <=? hs_commit st) snaps)
    | Some e => inr e
    end
  end.

Fixpoint verify_loop (fuel : nat) (snap : wsnap) (d : decoder) (meta : option bytes) (mt : bool)
  : (bool * option werr) + werr :=
  match fuel with
  | O => inr EPanic
  | S f =>
    match decode d with
    | DEof _ => inl (mt, None)
    | DErr e _ => inl (mt, Some e)
    | DRec r d' =>
      let ty := r_type r in
      if ty =? c_metadataType then
        match meta with
        | Some m => if bytes_eqb m (data_or_nil (r_data r)) then verify_loop f snap d' (r_data r) mt
                    else inr EMetaConflict
        | None => verify_loop f snap d' (r_data r) mt
        end
      else if ty =? c_crcType then
        if crc_record_ok d' r then verify_loop f snap (d_update_crc d' (r_crc r)) meta mt else inr ECrcChain
      else if ty =? c_snapshotType then
        match snap_unmarshal (data_or_nil (r_data r)) with
        | PErr _ => inr EPanic
        | POk sn =>
          if sn_index sn =? sn_index snap then
            if sn_term sn =? sn_term snap then verify_loop f snap d' meta true else inr ESnapMismatch
          else verify_loop f snap d' meta mt
        end
      else if (ty =? c_entryType) || (ty =? c_stateType) then verify_loop f snap d' meta mt
      else inr EBadType
    end
  end.

(* ================================================================ file selection (Open / Verify) *)

(* searchIndex: the last segment whose index is <= the snapshot's *)
Fixpoint search_index (files : list segfile) (index : N) (i : nat) (best : option nat) : option nat :=
  match files with
  | [] => best
  | f :: r => search_index r index (S i) (if sg_idx f <=? index then Some i else best)
  end.
(* isValidSeq, with its "lastSeq != 0" guard *)
Fixpoint valid_seq (files : list segfile) (last : N) : bool :=
  match files with
  | [] => true
  | f :: r => if negb (last =? 0) && negb (last =? sg_seq f - 1) then false else valid_seq r (sg_seq f)
  end.
Definition select_files (files : list segfile) (snap : wsnap) : option (list segfile) :=
  match files with
  | [] => None
  | _ =>
    match search_index files (sn_index snap) 0 None with
    | None => None
    | Some i => let sel := skipn i files in if valid_seq sel 0 then Some sel else None
    end
  end.

Definition verify (files : list segfile) (snap : wsnap) : option werr :=
  match select_files files snap with
  | None => Some EFileNotFound
  | Some sel =>
    let segs := map sg_bytes sel in
    match verify_loop (scan_fuel segs) snap (new_decoder segs) None false with
    | inr e => Some e
    | inl (mt, err) =>
      match err with
      | None | Some EUeof => if mt then None else Some ESnapNotFound
      | Some e => Some e
      end
    end
  end.

Definition open_read_all (files : list segfile) (snap : wsnap) : rares :=
  match select_files files snap with
  | None => RAErr EFileNotFound
  | Some sel => read_all snap (map sg_bytes sel)
  end.

(* ================================================================ Repair *)

Inductive repres := RepFalse | RepSame | RepTrunc (off : N).

Fixpoint repair_loop (fuel : nat) (d : decoder) : repres :=
  match fuel with
  | O => RepFalse
  | S f =>
    let last := d_off d in
    match decode d with
    | DRec r d' =>
      if r_type r =? c_crcType then
        if crc_record_ok d' r then repair_loop f (d_update_crc d' (r_crc r)) else RepFalse
      else repair_loop f d'
    | DEof _ => RepSame
    | DErr EUeof _ | DErr EMaxSize _ => RepTrunc last
    | DErr _ _ => RepFalse
    end
  end.

Definition repair_last (bs : bytes) : repres := repair_loop (scan_fuel [bs]) (new_decoder [bs]).

Fixpoint set_last_bytes (files : list segfile) (f : bytes -> bytes) : list segfile :=
  match files with
  | [] => []
  | [x] => [{| sg_seq := sg_seq x; sg_idx := sg_idx x; sg_bytes := f (sg_bytes x); sg_rec := sg_rec x |}]
  | x :: r => x :: set_last_bytes r f
  end.

(* Repair: Some files' = it returned true and left the directory as files' *)
Definition repair (files : list segfile) : option (list segfile) :=
  match rev files with
  | [] => None
  | lastf :: _ =>
    match repair_last (sg_bytes lastf) with
    | RepFalse => None
    | RepSame => Some files
    | RepTrunc off => Some (set_last_bytes files (btake off))
    end
  end.

(* ================================================================ what a restarting node runs *)

Record reopen_out := {
  ro_vse : (list wsnap) + werr;
  ro_at : wsnap;
  ro_verify : option werr;
  ro_first : rares;
  ro_repair : option (option (N * rares))  (* None: not attempted; Some None: Repair false;
                                              Some (Some (size of the tail file, second ReadAll)) *)
}.

Definition last_size (files : list segfile) : N :=
  match rev files with [] => 0 | f :: _ => blen (sg_bytes f) end.

(* snap_mode: None = newest valid snapshot marker (or the zero snapshot), Some s = open at s *)
Definition reopen (files : list segfile) (snap_mode : option wsnap) : reopen_out :=
  let vse := valid_snapshot_entries (map sg_bytes files) in
  let at_ := match snap_mode with
             | Some s => s
             | None => match vse with
                       | inl l => last l {| sn_index := 0; sn_term := 0 |}
                       | inr _ => {| sn_index := 0; sn_term := 0 |}
                       end
             end in
  let r1 := open_read_all files at_ in
  {| ro_vse := vse; ro_at := at_; ro_verify := verify files at_; ro_first := r1;
     ro_repair := match r1 with
                  | RAOk _ _ _ _ _ => None
                  | RAErr EFileNotFound => None       (* Open itself failed *)
                  | RAErr EPanic => None
                  | RAErr _ => match repair files with
                               | None => Some None
                               | Some files' => Some (Some (last_size files', open_read_all files' at_))
                               end
                  end |}.

(* ================================================================ crash images of a segment *)

Definition img_trunc (c : N) (bs : bytes) : bytes := btake c bs ++ zeros (blen bs - c).
Definition img_short (c : N) (bs : bytes) : bytes := btake c bs.
Definition img_zero (off len : N) (bs : bytes) : bytes :=
  btake off bs ++ zeros (blen (btake len (bdrop off bs))) ++ bdrop (off + len) bs.
Fixpoint flip_at (i : nat) (k : N) (bs : bytes) : bytes :=
  match bs with
  | [] => []
  | b :: r => match i with
              | O => N.lxor b (N.shiftl 1 k) :: r
              | S i' => b :: flip_at i' k r
              end
  end.
Definition img_flip (bit : N) (bs : bytes) : bytes := flip_at (N.to_nat (bit / 8)) (bit mod 8) bs.

Fixpoint set_nth_bytes (i : nat) (files : list segfile) (f : bytes -> bytes) : list segfile :=
  match files with
  | [] => []
  | x :: r => match i with
              | O => {| sg_seq := sg_seq x; sg_idx := sg_idx x; sg_bytes := f (sg_bytes x); sg_rec := sg_rec x |} :: r
              | S i' => x :: set_nth_bytes i' r f
              end
  end.

(* ================================================================ the decoder driven to the end *)
(* what ReadAll / Repair / Verify share: decode until the first error, re-seeding the crc at crc records.
   Result: the records, the terminating condition (None = io.EOF) and lastValidOff. *)
Fixpoint decode_all_loop (fuel : nat) (d : decoder) (acc : list wrecord) : list wrecord * option werr * N :=
  match fuel with
  | O => (rev acc, Some EPanic, d_off d)
  | S f =>
    match decode d with
    | DEof d' => (rev acc, None, d_off d')
    | DErr e d' => (rev acc, Some e, d_off d')
    | DRec r d' =>
      if r_type r =? c_crcType then
        if crc_record_ok d' r then decode_all_loop f (d_update_crc d' (r_crc r)) (r :: acc)
        else (rev acc, Some ECrcChain, d_off d')
      else decode_all_loop f d' (r :: acc)
    end
  end.
Definition decode_all (segs : list bytes) : list wrecord * option werr * N :=
  decode_all_loop (scan_fuel segs) (new_decoder segs) [].

(* ================================================================ specification helpers *)
(* the byte stream the encoder produces for a list of (type, data) from a starting crc, with the
   final crc; and the records as stored (crc filled in) *)
Fixpoint encode_all (crc : N) (recs : list (N * option bytes)) : bytes * N :=
  match recs with
  | [] => ([], crc)
  | (ty, d) :: rest =>
    let '(fr, crc') := encode_rec crc ty d in
    let '(bs, crc'') := encode_all crc' rest in
    (fr ++ bs, crc'')
  end.
Fixpoint stored (crc : N) (recs : list (N * option bytes)) : list wrecord :=
  match recs with
  | [] => []
  | (ty, d) :: rest =>
    let crc' := crc_update crc (data_or_nil d) in
    {| r_type := ty; r_crc := crc'; r_data := d |} :: stored crc' rest
  end.

Definition stored_rec (crc : N) (x : N * option bytes) : wrecord :=
  {| r_type := fst x; r_crc := crc_update crc (data_or_nil (snd x)); r_data := snd x |}.
Definition payload_of (crc : N) (x : N * option bytes) : bytes := record_marshal (stored_rec crc x).
Definition frame_of (crc : N) (x : N * option bytes) : bytes := frame (payload_of crc x).

(* would decodeRecord accept this frame body (n = record bytes, the rest is padding)? *)
Definition accepts (crc : N) (n : N) (body : bytes) : bool :=
  match record_unmarshal (btake n body) with
  | POk r => (r_type r =? c_crcType) || (r_crc r =? crc_update crc (data_or_nil (r_data r)))
  | PErr _ => false
  end.

(* the body of a frame of which only the first j >= 8 bytes (length field included) were written *)
Definition torn_body (crc : N) (x : N * option bytes) (j : N) : bytes :=
  let p := payload_of crc x in
  let full := p ++ zeros (frame_pad (blen p)) in
  btake (j - 8) full ++ zeros (blen full - (j - 8)).

(* NoCrcCollision for a cut inside a frame body: the zero-filled variant either is the frame itself
   (only zero bytes were lost) or is not accepted by the decoder *)
Definition no_crc_collision_cut (crc : N) (x : N * option bytes) (j : N) : Prop :=
  let p := payload_of crc x in
  torn_body crc x j = p ++ zeros (frame_pad (blen p)) \/ accepts crc (blen p) (torn_body crc x j) = false.

(* a second, independent content hash used only to print entries (FNV-1a, 32 bit) *)
Definition fnv1a32 (bs : bytes) : N :=
  fold_left (fun h b => N.land (N.lxor h b * 16777619) 4294967295) bs 2166136261.

(* ================================================================ reopening for append *)
(* wal.Open + ReadAll in write mode, when it succeeds: the tail is cut at lastValidOff and zero-filled to its
   old length (Seek(lastOffset) + pkg/fileutil.ZeroToEnd = Truncate(off) + Preallocate(len)), the encoder
   continues the decoder's crc at that offset; w.enti is the index of the last entry record read; w.state is
   NOT restored (ReadAll only returns it); metadata is what was read. *)
Definition last_entry_index (rs : list wrecord) : N :=
  fold_left (fun acc r =>
               if r_type r =? c_entryType
               then match entry_unmarshal (data_or_nil (r_data r)) with POk e => e_index e | PErr _ => acc end
               else acc) rs 0.

Definition reopen_tail (off : N) (img : bytes) : bytes := btake off img ++ zeros (blen img - off).

Definition writer_after (opt : bool) (seg : N) (files : list segfile) (at_ : wsnap) : option wal :=
  match select_files files at_ with
  | None => None
  | Some sel =>
    match read_all at_ (map sg_bytes sel) with
    | RAErr _ => None
    | RAOk meta st ents off crc =>
      match rev files with
      | [] => None
      | tl :: before_rev =>
        let '(rs, _, _) := decode_all (map sg_bytes sel) in
        Some {| w_opt := opt; w_segsize := seg; w_meta := meta; w_state := hs_empty;
                w_enti := last_entry_index rs; w_crc := crc;
                w_closed := rev before_rev; w_seq := sg_seq tl; w_idx := sg_idx tl;
                w_tail := btake off (sg_bytes tl);
                w_pw := {| pw_off := off; pw_buf := 0; pw_flushed := off |};
                w_sync := None; w_nrec := 0; w_tailrec := 0;
                w_tailsize := blen (sg_bytes tl) |}
      end
    end
  end.

(* the directory as the first recovery leaves it (before anything is appended) *)
Definition recovered_files (w : wal) : list segfile := w_files w.
