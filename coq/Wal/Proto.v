(* Wal/Proto.v — the protobuf wire layer exactly as the gogo-generated code of /repo implements it
   for the four message types the WAL stores. Hand-written model of:
     wal/walpb/record.pb.go   Record.{Size,MarshalTo,Unmarshal}, Snapshot.{…}, encodeVarintRecord, skipRecord
     raft/raftpb/raft.pb.go   Entry.{Size,MarshalTo,Unmarshal}, HardState.{…}, skipRaft (same text as skipRecord)
   Conventions: integers are N holding the 64-bit two's-complement pattern (int32 fields: sign-extended,
   as uint64(int32) yields); a nil byte slice is None, a non-nil one Some. Unmarshal errors are collapsed to
   two classes: io.ErrUnexpectedEOF (PUeof — the WAL treats it as repairable) and everything else (POther).
   No proofs in this file. *)
From ZV Require Export Common.Bytes.
Open Scope N_scope.

Definition mask64 : N := 18446744073709551615.
Definition mask32' : N := 4294967295.
Definition two31 : N := 2147483648.
Definition two63 : N := 9223372036854775808.

Definition nlen {A} (l : list A) : N := N.of_nat (length l).
Definition blen (bs : bytes) : N := N.of_nat (length bs).
(* firstn / skipn with a binary count (a count far beyond the list costs nothing) *)
Fixpoint btake (n : N) (bs : bytes) : bytes :=
  match bs with
  | [] => []
  | b :: r => if n =? 0 then [] else b :: btake (N.pred n) r
  end.
Fixpoint bdrop (n : N) (bs : bytes) : bytes :=
  match bs with
  | [] => []
  | b :: r => if n =? 0 then bs else bdrop (N.pred n) r
  end.
Definition zeros (n : N) : bytes := repeat 0 (N.to_nat n).

Inductive perr := PUeof | POther.
Inductive pres (A : Type) := POk (a : A) | PErr (e : perr).
Arguments POk {A} a.
Arguments PErr {A} e.

(* ---------- varints ---------- *)
(* encodeVarintRecord / encodeVarintRaft; 10 bytes suffice for a uint64 *)
Fixpoint varint_enc_go (fuel : nat) (v : N) : bytes :=
  match fuel with
  | O => []
  | S f => if v <? 128 then [v] else (N.lor (N.land v 127) 128) :: varint_enc_go f (N.shiftr v 7)
  end.
Definition varint_enc (v : N) : bytes := varint_enc_go 10 v.

(* the generated decoding loop: for shift := 0; ; shift += 7 { if shift >= 64 -> overflow;
   if iNdEx >= l -> ErrUnexpectedEOF; b := dAtA[iNdEx]; iNdEx++; v |= uint64(b&0x7F) << shift; if b < 0x80 break } *)
Fixpoint varint_dec_go (fuel : nat) (shift acc : N) (bs : bytes) : pres (N * bytes) :=
  match fuel with
  | O => PErr POther
  | S f =>
    match bs with
    | [] => PErr PUeof
    | b :: r =>
      let acc' := N.lor acc (N.shiftl (N.land b 127) shift) in
      if b <? 128 then POk (N.land acc' mask64, r) else varint_dec_go f (shift + 7) acc' r
    end
  end.
Definition varint_dec (bs : bytes) : pres (N * bytes) := varint_dec_go 10 0 0 bs.

(* ---------- skipRecord / skipRaft ---------- *)
(* returns the number of bytes to skip, counted from the tag; it may exceed the length (the caller checks) *)
Fixpoint skip_go (fuel : nat) (bs : bytes) : pres N :=
  match fuel with
  | O => PErr POther
  | S f =>
    match varint_dec bs with
    | PErr e => PErr e
    | POk (wire, r1) =>
      let wt := N.land wire 7 in
      if wt =? 0 then
        match varint_dec r1 with PErr e => PErr e | POk (_, r2) => POk (blen bs - blen r2) end
      else if wt =? 1 then POk (blen bs - blen r1 + 8)
      else if wt =? 2 then
        match varint_dec r1 with
        | PErr e => PErr e
        | POk (n, r2) =>
          if two63 <=? n then PErr POther
          else let k := blen bs - blen r2 + n in
               if two63 <=? k then PErr POther else POk k
        end
      else if wt =? 3 then skip_group f (blen bs) r1
      else if wt =? 4 then POk (blen bs - blen r1)
      else if wt =? 5 then POk (blen bs - blen r1 + 4)
      else PErr POther
    end
  end
with skip_group (fuel : nat) (l0 : N) (bs : bytes) : pres N :=
  match fuel with
  | O => PErr POther
  | S f =>
    match varint_dec bs with
    | PErr e => PErr e
    | POk (iw, r1) =>
      if N.land iw 7 =? 4 then POk (l0 - blen r1)
      else match skip_go f bs with
           | PErr e => PErr e
           | POk next =>
             if two63 <=? (l0 - blen bs) + next then PErr POther
             else skip_group f l0 (bdrop next bs)
           end
    end
  end.
Definition skip_field (bs : bytes) : pres N := skip_go (2 * length bs + 2) bs.

(* ---------- the generated Unmarshal loop, generic in the field table ---------- *)
Inductive fkind := FVar (mask : N) | FBytes.
Inductive fval := VVar (v : N) | VBytes (b : bytes).
Definition fields := list (N * fval).   (* assignments, newest first *)

Fixpoint unm_go (d : N -> option fkind) (fuel : nat) (total : N) (bs : bytes) (acc : fields) : pres fields :=
  match bs with
  | [] => POk acc
  | _ :: _ =>
    match fuel with
    | O => PErr POther
    | S f =>
      match varint_dec bs with
      | PErr e => PErr e
      | POk (wire, r1) =>
        let fn := N.land (N.shiftr wire 3) mask32' in     (* int32(wire >> 3) *)
        let wt := N.land wire 7 in
        if wt =? 4 then PErr POther
        else if (fn =? 0) || (two31 <=? fn) then PErr POther       (* fieldNum <= 0 *)
        else
          match d fn with
          | Some (FVar mask) =>
            if negb (wt =? 0) then PErr POther
            else match varint_dec r1 with
                 | PErr e => PErr e
                 | POk (v, r2) => unm_go d f total r2 ((fn, VVar (N.land v mask)) :: acc)
                 end
          | Some FBytes =>
            if negb (wt =? 2) then PErr POther
            else match varint_dec r1 with
                 | PErr e => PErr e
                 | POk (n, r2) =>
                   if two63 <=? n then PErr POther                           (* byteLen < 0 *)
                   else if two63 <=? (total - blen r2) + n then PErr POther   (* postIndex < 0 *)
                   else if blen r2 <? n then PErr PUeof                       (* postIndex > l *)
                   else unm_go d f total (bdrop n r2) ((fn, VBytes (btake n r2)) :: acc)
                 end
          | None =>
            match skip_field bs with
            | PErr e => PErr e
            | POk k =>
              if two63 <=? (total - blen bs) + k then PErr POther
              else if blen bs <? k then PErr PUeof
              else unm_go d f total (bdrop k bs) acc
            end
          end
      end
    end
  end.
Definition unmarshal_fields (d : N -> option fkind) (bs : bytes) : pres fields :=
  unm_go d (S (length bs)) (blen bs) bs [].

Fixpoint get_var (fn : N) (fs : fields) : N :=
  match fs with
  | [] => 0
  | (k, VVar v) :: r => if k =? fn then v else get_var fn r
  | _ :: r => get_var fn r
  end.
Fixpoint get_bytes (fn : N) (fs : fields) : option bytes :=
  match fs with
  | [] => None
  | (k, VBytes b) :: r => if k =? fn then Some b else get_bytes fn r
  | _ :: r => get_bytes fn r
  end.

Definition sext32 (x : N) : N := if two31 <=? x then x + 18446744069414584320 else x. (* + 2^64 - 2^32 *)

Definition opt_bytes_field (tag : N) (d : option bytes) : bytes :=
  match d with
  | None => []
  | Some b => tag :: varint_enc (blen b) ++ b
  end.

(* ---------- walpb.Record ---------- *)
Record wrecord := { r_type : N; r_crc : N; r_data : option bytes }.

Definition record_desc (fn : N) : option fkind :=
  if fn =? 1 then Some (FVar mask64) else if fn =? 2 then Some (FVar mask32')
  else if fn =? 3 then Some FBytes else None.

Definition record_marshal (r : wrecord) : bytes :=
  8 :: varint_enc (r_type r) ++ 16 :: varint_enc (r_crc r) ++ opt_bytes_field 26 (r_data r).

Definition record_unmarshal (bs : bytes) : pres wrecord :=
  match unmarshal_fields record_desc bs with
  | PErr e => PErr e
  | POk fs => POk {| r_type := get_var 1 fs; r_crc := get_var 2 fs; r_data := get_bytes 3 fs |}
  end.

(* ---------- walpb.Snapshot ---------- *)
Record wsnap := { sn_index : N; sn_term : N }.
Definition snap_desc (fn : N) : option fkind :=
  if fn =? 1 then Some (FVar mask64) else if fn =? 2 then Some (FVar mask64) else None.
Definition snap_marshal (s : wsnap) : bytes :=
  8 :: varint_enc (sn_index s) ++ 16 :: varint_enc (sn_term s).
Definition snap_unmarshal (bs : bytes) : pres wsnap :=
  match unmarshal_fields snap_desc bs with
  | PErr e => PErr e
  | POk fs => POk {| sn_index := get_var 1 fs; sn_term := get_var 2 fs |}
  end.

(* ---------- raftpb.HardState ---------- *)
Record hardstate := { hs_term : N; hs_vote : N; hs_commit : N }.
Definition hs_desc (fn : N) : option fkind :=
  if (fn =? 1) || (fn =? 2) || (fn =? 3) then Some (FVar mask64) else None.
Definition hs_marshal (s : hardstate) : bytes :=
  8 :: varint_enc (hs_term s) ++ 16 :: varint_enc (hs_vote s) ++ 24 :: varint_enc (hs_commit s).
Definition hs_unmarshal (bs : bytes) : pres hardstate :=
  match unmarshal_fields hs_desc bs with
  | PErr e => PErr e
  | POk fs => POk {| hs_term := get_var 1 fs; hs_vote := get_var 2 fs; hs_commit := get_var 3 fs |}
  end.
Definition hs_empty : hardstate := {| hs_term := 0; hs_vote := 0; hs_commit := 0 |}.
Definition hs_is_empty (s : hardstate) : bool :=
  (hs_term s =? 0) && (hs_vote s =? 0) && (hs_commit s =? 0).

(* ---------- raftpb.Entry ---------- *)
(* Type and DataType are int32 in Go: kept here as the sign-extended 64-bit pattern uint64(int32(x)) *)
Record entry := { e_type : N; e_term : N; e_index : N; e_data : option bytes;
                  e_id : N; e_dtype : N; e_ts : N }.
Definition entry_desc (fn : N) : option fkind :=
  if fn =? 1 then Some (FVar mask32') else if fn =? 2 then Some (FVar mask64)
  else if fn =? 3 then Some (FVar mask64) else if fn =? 4 then Some FBytes
  else if fn =? 5 then Some (FVar mask64) else if fn =? 6 then Some (FVar mask32')
  else if fn =? 7 then Some (FVar mask64) else None.
Definition entry_marshal (e : entry) : bytes :=
  8 :: varint_enc (e_type e) ++ 16 :: varint_enc (e_term e) ++ 24 :: varint_enc (e_index e) ++
  opt_bytes_field 34 (e_data e) ++
  40 :: varint_enc (e_id e) ++ 48 :: varint_enc (e_dtype e) ++ 56 :: varint_enc (e_ts e).
Definition entry_unmarshal (bs : bytes) : pres entry :=
  match unmarshal_fields entry_desc bs with
  | PErr e => PErr e
  | POk fs => POk {| e_type := sext32 (get_var 1 fs); e_term := get_var 2 fs; e_index := get_var 3 fs;
                     e_data := get_bytes 4 fs; e_id := get_var 5 fs;
                     e_dtype := sext32 (get_var 6 fs); e_ts := get_var 7 fs |}
  end.
