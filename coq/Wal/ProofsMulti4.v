(* Wal/ProofsMulti4.v — END TO END for histories with any number of segments (no ReleaseLockTo): the crash
   damages only the tail segment behind its sync point; reopen at the zero snapshot. *)
From ZV Require Import Common.Bytes Common.BytesFacts Wal.Consts Wal.Crc Wal.Proto Wal.Model Wal.Spec
  Wal.ProofsCrc Wal.ProofsProto Wal.ProofsFrame Wal.ProofsDecode Wal.ProofsTorn Wal.ProofsPrefix Wal.ProofsRepair
  Wal.ProofsLog Wal.ProofsWriter Wal.ProofsNames Wal.ProofsSegs Wal.ProofsReadAll Wal.ProofsEffect
  Wal.ProofsHistory Wal.ProofsAppend Wal.ProofsCapstone Wal.ProofsMulti1 Wal.ProofsMulti2 Wal.ProofsMulti3.
From Coq Require Import ZifyN ZifyNat ZifyBool Lia.
Open Scope N_scope.

(* ---------- names: the first file has index 0, every later one a positive index ---------- *)
Definition idxs (w : wal) : list N := map sg_idx (w_closed w) ++ [w_idx w].
Definition idx_inv (w : wal) : Prop := exists r, idxs w = 0 :: r /\ Forall (fun i => 1 <= i) r.

Lemma idx_inv_same w w' : w_closed w' = w_closed w -> w_idx w' = w_idx w -> idx_inv w -> idx_inv w'.
Proof. unfold idx_inv, idxs. intros -> ->. auto. Qed.

Lemma idx_inv_cut w : idx_inv w -> idx_inv (w_cut w).
Proof.
  intros (r & Hr & Hf). destruct (w_cut_fields w) as (_ & _ & _ & _ & Fc & _ & Fi).
  unfold idx_inv, idxs in *. rewrite Fc, Fi, map_app. cbn [map sg_idx].
  change (map sg_idx (w_closed w) ++ [w_idx w]) with (idxs w). unfold idxs. rewrite Hr. cbn [app].
  exists (r ++ [w_enti w + 1]). split; [reflexivity|].
  apply Forall_app. split; [exact Hf|]. constructor; [lia|constructor].
Qed.

Lemma idx_inv_step w o : idx_inv w -> not_release o -> idx_inv (w_step w o).
Proof.
  intros H Hn. unfold w_step.
  assert (H0 : idx_inv (w_add_nrec w (wop_nrec o))) by (eapply idx_inv_same; [| |exact H]; reflexivity).
  set (w0 := w_add_nrec w (wop_nrec o)) in *. clearbody w0.
  destruct o as [st ents|sn|i|]; cbn [not_release] in Hn; [| |contradiction|].
  - unfold w_save. destruct (hs_is_empty st && _); [exact H0|]. cbv zeta.
    set (w2 := save_state st (fold_left (fun w e => save_entry e w) ents w0)).
    assert (H2 : idx_inv w2).
    { subst w2. eapply idx_inv_same; [| |exact H0].
      - rewrite (proj1 (save_state_names _ _)). apply save_entries_names.
      - rewrite (proj1 (save_state_dir _ _)). apply save_entries_dir. }
    clearbody w2. destruct (pw_flushed (w_pw w2) <? w_segsize w2).
    + destruct (negb _ || _); [|exact H2]. eapply idx_inv_same; [| |exact H2]; reflexivity.
    + now apply idx_inv_cut.
  - eapply idx_inv_same; [| |exact H0].
    + apply (w_save_snapshot_dir sn w0).
    + apply (w_save_snapshot_dir sn w0).
  - eapply idx_inv_same; [| |exact H0]; reflexivity.
Qed.

Lemma w_run_idx opt seg meta ops : Forall not_release ops -> idx_inv (w_run opt seg meta ops).
Proof.
  intros Hn. unfold w_run.
  assert (H0 : idx_inv (w_create opt seg meta)).
  { rewrite w_create_eq. eapply idx_inv_same; [apply w_save_snapshot_dir|apply w_save_snapshot_dir|].
    eapply idx_inv_same; [apply w_encode_dir|apply w_encode_dir|].
    eapply idx_inv_same; [apply w_encode_dir|apply w_encode_dir|].
    exists []. split; [reflexivity|constructor]. }
  revert H0. generalize (w_create opt seg meta).
  induction Hn as [|o r Ho Hr IH]; intros w Hw; [exact Hw|]. cbn [fold_left]. apply IH. now apply idx_inv_step.
Qed.

Lemma search_index_pos : forall files i best,
  Forall (fun f => 1 <= sg_idx f) files -> search_index files 0 i best = best.
Proof.
  induction files as [|f r IH]; intros i best H; [reflexivity|]. inversion H; subst. cbn [search_index].
  assert (E : (sg_idx f <=? 0) = false) by (apply N.leb_gt; lia). rewrite E. now apply IH.
Qed.

(* Open at the zero snapshot reads the whole directory, whatever the bytes of the files are *)
Lemma select_zero files :
  (exists r, map sg_idx files = 0 :: r /\ Forall (fun i => 1 <= i) r) -> valid_seq files 0 = true ->
  select_files files zero_snap = Some files.
Proof.
  intros (r & Hr & Hf) Hv. destruct files as [|f rest]; [discriminate|]. cbn [map] in Hr. inversion Hr; subst.
  unfold select_files. cbn [search_index sn_index zero_snap]. rewrite H0. cbn [N.leb N.compare].
  rewrite search_index_pos.
  - cbn [skipn]. now rewrite Hv.
  - rewrite Forall_map in Hf. exact Hf.
Qed.

Lemma valid_seq_ext : forall f1 f2 last,
  map sg_seq f1 = map sg_seq f2 -> valid_seq f1 last = valid_seq f2 last.
Proof.
  induction f1 as [|a r IH]; intros [|b r2] last H; try discriminate; [reflexivity|].
  cbn [map] in H. inversion H. cbn [valid_seq]. rewrite H1. destruct (_ && _); [reflexivity|]. now apply IH.
Qed.

Definition with_bytes (t : segfile) (b : bytes) : segfile :=
  {| sg_seq := sg_seq t; sg_idx := sg_idx t; sg_bytes := b; sg_rec := sg_rec t |}.

Lemma set_last_bytes_app : forall closed t f,
  set_last_bytes (closed ++ [t]) f = closed ++ [with_bytes t (f (sg_bytes t))].
Proof.
  induction closed as [|c r IH]; intros t f; [reflexivity|].
  cbn [app]. destruct r as [|c2 r].
  - cbn [app set_last_bytes]. reflexivity.
  - change (set_last_bytes (c :: (c2 :: r) ++ [t]) f) with (c :: set_last_bytes ((c2 :: r) ++ [t]) f).
    now rewrite IH.
Qed.

(* ---------- what a restarting node runs on a directory of several files, zero snapshot ---------- *)
Definition after_repair_m (closed : list bytes) (b : bytes) (r1 : rares) : rares :=
  match r1 with
  | RAOk _ _ _ _ _ => r1
  | RAErr EFileNotFound => r1
  | RAErr EPanic => r1
  | RAErr _ => match repair_last b with
               | RepFalse => r1
               | RepSame => read_all zero_snap (closed ++ [b])
               | RepTrunc off => read_all zero_snap (closed ++ [btake off b])
               end
  end.

Lemma final_multi closed t :
  (forall b, select_files (closed ++ [with_bytes t b]) zero_snap = Some (closed ++ [with_bytes t b])) ->
  forall b,
  final_result (reopen (closed ++ [with_bytes t b]) (Some zero_snap)) =
  after_repair_m (map sg_bytes closed) b (read_all zero_snap (map sg_bytes closed ++ [b])).
Proof.
  intros Hsel b. unfold final_result, reopen. cbn [ro_repair ro_first].
  unfold open_read_all. rewrite Hsel. rewrite map_app. cbn [map sg_bytes with_bytes].
  unfold after_repair_m.
  destruct (read_all zero_snap (map sg_bytes closed ++ [b])) as [m st e o c|e] eqn:Er; [reflexivity|].
  unfold repair. rewrite rev_app_distr. cbn [rev app sg_bytes with_bytes].
  destruct e; try reflexivity;
    (destruct (repair_last b); [reflexivity| |];
     rewrite ?set_last_bytes_app; cbn [sg_bytes with_bytes];
     [rewrite Hsel, map_app; cbn [map sg_bytes with_bytes]; rewrite Er; reflexivity
     |change (with_bytes (with_bytes t b) (btake off b)) with (with_bytes t (btake off b));
      rewrite Hsel, map_app; reflexivity]).
Qed.

(* ---------- Repair reads the tail file alone: a head behind a cut starts with its crc record ---------- *)
Lemma decode_head_loop cn rs1 fuel rest others off acc :
  cn < 2 ^ 32 -> Forall enc_ok rs1 ->
  decode_all_loop (S (length rs1) + fuel)
    {| d_brs := (fst (encode_all cn ((c_crcType, None) :: rs1)) ++ rest) :: others; d_off := off; d_crc := 0 |} acc =
  decode_all_loop fuel
    {| d_brs := rest :: others; d_off := off + blen (fst (encode_all cn ((c_crcType, None) :: rs1)));
       d_crc := snd (encode_all cn ((c_crcType, None) :: rs1)) |}
    (rev (stored cn ((c_crcType, None) :: rs1)) ++ acc).
Proof.
  intros Hc Hok.
  assert (Hx : enc_ok (c_crcType, None)).
  { unfold enc_ok. cbn [fst snd opt_len data_or_nil]. repeat split; try (cbn; lia). constructor. }
  destruct (enc_ok_rec cn (c_crcType, None) Hc Hx) as (Hrok & _ & _ & _). cbn [fst snd] in Hrok.
  rewrite encode_all_cons. cbn [fst snd stored data_or_nil] in *. rewrite crc_update_nil in *.
  set (r := {| r_type := c_crcType; r_crc := cn; r_data := None |}) in *.
  cbn [Nat.add decode_all_loop]. unfold decode. cbn [d_brs]. rewrite <- app_assoc.
  rewrite decode_record_frame; [|exact Hrok|left; reflexivity].
  change (r_type r =? c_crcType) with true. cbv iota.
  unfold crc_record_ok, d_update_crc, d_with, crc_after. cbn [d_crc d_brs d_off r_crc r_type r].
  change (c_crcType =? c_crcType) with true. cbv iota. cbn [N.eqb orb].
  rewrite decode_all_stream by assumption. f_equal.
  - f_equal. rewrite blen_app. lia.
  - cbn [rev]. now rewrite <- app_assoc.
Qed.

Theorem decode_alone cn img rs1 v :
  cn < 2 ^ 32 -> Forall enc_ok rs1 -> tail_decodes cn img ((c_crcType, None) :: rs1) v ->
  decode_all [img] =
  (stored cn ((c_crcType, None) :: rs1), v, blen (fst (encode_all cn ((c_crcType, None) :: rs1)))).
Proof.
  intros Hc Hok (junk & -> & Hj). unfold decode_all, new_decoder.
  set (img := fst (encode_all cn ((c_crcType, None) :: rs1)) ++ junk).
  pose proof (scan_fuel_ge [img]) as Hf.
  transitivity (decode_all_loop (S (length rs1) + S (scan_fuel [img])) {| d_brs := [img]; d_off := 0; d_crc := 0 |} []).
  - apply decode_all_loop_fuel; cbn [d_brs]; [exact Hf|].
    apply Nat.lt_le_trans with (scan_fuel [img]); [exact Hf|].
    rewrite Nat.add_succ_r. apply Nat.le_le_succ_r, Nat.le_add_l.
  - unfold img. rewrite decode_head_loop by assumption. rewrite N.add_0_l.
    rewrite decode_all_loop_acc, Hj. rewrite !app_nil_r, rev_involutive. reflexivity.
Qed.

(* ---------- prefixes of one record list, ordered by stream length (any starting crc) ---------- *)
Lemma prefix_len_le_c c0 (recs a a' r1 r2 : list (N * option bytes)) c :
  recs = a ++ a' -> recs = r1 ++ r2 ->
  blen (fst (encode_all c0 a)) <= c ->
  (r2 = [] \/ c < blen (fst (encode_all c0 (r1 ++ firstn 1 r2)))) ->
  (length a <= length r1)%nat.
Proof.
  intros Ha Hr Hc Hn.
  destruct (Nat.le_gt_cases (length a) (length r1)) as [|Hgt]; [assumption|exfalso].
  destruct Hn as [->|Hn].
  - rewrite app_nil_r in Hr. subst recs. rewrite <- Hr in Hgt. rewrite app_length in Hgt. lia.
  - assert (Hpre : exists q, a = (r1 ++ firstn 1 r2) ++ q).
    { assert (E : a = firstn (length a) recs) by (rewrite Ha, firstn_app, Nat.sub_diag, firstn_all; cbn; now rewrite app_nil_r).
      destruct r2 as [|x r2]; [rewrite app_nil_r in Hr; rewrite Hr in Ha; rewrite Ha, app_length in Hgt; lia|].
      cbn [firstn]. exists (firstn (length a - length r1 - 1) r2).
      rewrite E at 1. rewrite Hr. rewrite firstn_app. rewrite firstn_all2 by lia.
      rewrite <- app_assoc. f_equal.
      replace (length a - length r1)%nat with (S (length a - length r1 - 1)) by lia.
      cbn [firstn app]. do 2 f_equal. lia. }
    destruct Hpre as (q & ->). rewrite blen_encode_app in Hc. lia.
Qed.

(* ---------- the crc record that opens a segment behind a cut is one 16-byte frame ---------- *)
Lemma varint_go_len_bound : forall k f v,
  v < 2 ^ (7 * N.of_nat (S k)) -> (length (varint_enc_go f v) <= S k)%nat.
Proof.
  induction k as [|k IH]; intros f v Hv; destruct f as [|f]; cbn [varint_enc_go length]; try lia.
  - change (2 ^ (7 * N.of_nat 1)) with 128 in Hv. apply N.ltb_lt in Hv. rewrite Hv. cbn [length]. lia.
  - destruct (v <? 128); cbn [length]; [lia|].
    apply le_n_S. apply IH. rewrite N.shiftr_div_pow2.
    apply N.div_lt_upper_bound; [discriminate|]. rewrite <- N.pow_add_r.
    replace (7 + 7 * N.of_nat (S k)) with (7 * N.of_nat (S (S k))) by lia. exact Hv.
Qed.

Lemma crc_frame_len cn : cn < 2 ^ 32 -> blen (frame_of cn (c_crcType, None)) <= 16.
Proof.
  intros Hc. unfold frame_of, payload_of, stored_rec. cbn [fst snd data_or_nil]. rewrite crc_update_nil.
  rewrite frame_blen.
  set (p := record_marshal {| r_type := c_crcType; r_crc := cn; r_data := None |}).
  assert (Hp : blen p <= 8).
  { subst p. unfold record_marshal. cbn [r_type r_crc r_data].
    assert (Hv : (length (varint_enc cn) <= 5)%nat).
    { unfold varint_enc. apply (varint_go_len_bound 4). eapply N.lt_trans; [exact Hc|reflexivity]. }
    change (varint_enc c_crcType) with [4]. change (opt_bytes_field 26 None) with (@nil N).
    unfold blen. cbn [app length]. rewrite app_length. cbn [length]. lia. }
  pose proof (frame_pad_lt (blen p)) as H1. pose proof (frame_pad_spec (blen p)) as H2.
  set (n := blen p) in *. set (q := frame_pad n) in *. clearbody n q.
  assert (n + q < 16) by lia.
  pose proof (N.div_mod (n + q) 8 ltac:(discriminate)) as Hd. rewrite H2 in Hd.
  assert ((n + q) / 8 < 2) by (apply N.div_lt_upper_bound; [discriminate|lia]). lia.
Qed.

(* ---------- reading a directory whose decoder verdict is known ---------- *)
Lemma read_all_err_m files rs e off :
  decode_all files = (rs, Some e, off) -> exists e', read_all zero_snap files = RAErr e'.
Proof.
  intros Hd. pose proof (read_all_fold zero_snap files) as H. rewrite Hd in H. cbn [fold_view] in H.
  destruct (read_all zero_snap files) as [m st en o c|e']; [|eauto]. cbn [rares_view] in H.
  destruct (ra_fold zero_snap ra_init rs); [|discriminate]. destruct e; discriminate.
Qed.

Lemma firstn_app_len {A} (a b : list A) k : firstn (length a + k) (a ++ b) = a ++ firstn k b.
Proof. rewrite firstn_app, firstn_all2 by lia. f_equal. f_equal. lia. Qed.

Lemma read_all_good_m files meta pre d recs1 recs2 off req :
  decode_all files =
    (stored_segs 0 (map (seg_recs meta) pre) ++ stored (chain_crc 0 (map (seg_recs meta) pre)) recs1, None, off) ->
  recs1 ++ recs2 = seg_recs meta d -> Forall segd_wf (pre ++ [d]) -> st0_ok [] (pre ++ [d]) ->
  req <= nlen (all_L pre) + N.of_nat (length recs1 - length (hdr meta (sd_st0 d))) ->
  good req (all_L pre ++ sd_L d) (read_all zero_snap files).
Proof.
  intros Hd Hp Hwf Hst Hreq. pose proof (read_all_fold zero_snap files) as H. rewrite Hd in H. cbn [fold_view] in H.
  pose proof (ra_fold_dir zero_snap meta pre d recs1 recs2 Hp Hwf Hst) as Hf.
  destruct (read_all zero_snap files) as [m st en o c|e']; [|exact I]. cbn [rares_view good] in *.
  destruct (ra_fold zero_snap ra_init _) as [s'|e]; [|discriminate].
  inversion H; subst.
  exists (nlen (all_L pre) + N.of_nat (length recs1 - length (hdr meta (sd_st0 d)))). split; [exact Hreq|].
  unfold nlen. rewrite <- Nat2N.inj_add, Nat2N.id, firstn_app_len. exact Hf.
Qed.

Lemma last_state_wf : forall ls st, hs_wf st -> Forall lrec_wf ls -> hs_wf (last_state ls st).
Proof.
  unfold last_state. induction ls as [|l r IH]; intros st Hst Hw; [exact Hst|]. inversion Hw; subst.
  cbn [fold_left]. apply IH; [|assumption]. destruct l; auto.
Qed.

Lemma segd_wf_all : forall segs acc,
  st0_ok acc segs -> Forall lrec_wf acc -> Forall lrec_wf (all_L segs) -> Forall segd_wf segs.
Proof.
  induction segs as [|x r IH]; intros acc Hst Ha Hl; [constructor|].
  destruct Hst as [H0 Hr]. unfold all_L in Hl. cbn [map concat] in Hl. apply Forall_app in Hl as [Hx Hl].
  constructor.
  - split; [|exact Hx]. rewrite H0. apply last_state_wf; [|exact Ha]. unfold hs_wf, hs_empty. cbn. lia.
  - apply (IH (acc ++ sd_L x)); [exact Hr| |exact Hl]. apply Forall_app. auto.
Qed.

Lemma encode_segs_nil c segs : encode_segs c segs = [] -> segs = [].
Proof. destruct segs; [reflexivity|discriminate]. Qed.

Lemma tail_decodes_exact cn recs1 : tail_decodes cn (fst (encode_all cn recs1)) recs1 None.
Proof.
  exists []. split; [now rewrite app_nil_r|]. intros f. change (@nil N) with (zeros 0).
  apply loop_end_zeros. now left.
Qed.

(* ================================================================ END TO END, any number of segments *)
Theorem multi_segment_cut opt seg meta ops o c :
  data_ok meta -> Forall op_wf (ops ++ [o]) -> Forall not_release (ops ++ [o]) ->
  let w0 := w_run opt seg meta ops in
  let w := w_step w0 o in
  (w_tailsize w - blen (w_tail w) = 0 \/ 8 <= w_tailsize w - blen (w_tail w)) ->
  synced_off w0 w <= c -> c <= blen (sg_bytes (tail_file w)) ->
  (w_closed w <> [] -> 16 <= c) ->
  (forall c0 recs recs1 x recs2 j, c0 < 2 ^ 32 -> w_tail w = fst (encode_all c0 recs) ->
     recs = recs1 ++ x :: recs2 ->
     c = blen (fst (encode_all c0 recs1)) + j -> 8 <= j < blen (frame_of (snd (encode_all c0 recs1)) x) ->
     no_crc_collision_cut (snd (encode_all c0 recs1)) x j) ->
  good (synced_recs w0) (lrecs (ops ++ [o]))
       (final_result (reopen (set_last_bytes (w_files w) (img_trunc c)) (Some zero_snap))).
Proof.
  intros Hm Hops Hnr w0 w Hz Hsync Hc H16 Hnc.
  assert (Hw : w = w_run opt seg meta (ops ++ [o])) by (unfold w, w0, w_run; now rewrite fold_left_app).
  assert (Hops0 : Forall op_wf ops) by (apply Forall_app in Hops; tauto).
  assert (Hnr0 : Forall not_release ops) by (apply Forall_app in Hnr; tauto).
  assert (Ho : op_wf o) by (apply Forall_app in Hops as [_ H]; now inversion H).
  assert (Hno : not_release o) by (apply Forall_app in Hnr as [_ H]; now inversion H).
  destruct (w_run_ginv opt seg meta ops Hm Hops0 Hnr0) as (pre0 & d0 & G0). fold w0 in G0.
  destruct (ginv_step w0 meta ops pre0 d0 o G0 Ho Hno) as (pre & d & G & Hrel & Hcutd). fold w in G, Hrel, Hcutd.
  pose proof (gi_t _ _ _ _ _ G) as Ht. pose proof (gi_ok _ _ _ _ _ G) as Hsok.
  pose proof (gi_bytes _ _ _ _ _ G) as Hbytes. pose proof (gi_L _ _ _ _ _ G) as HL.
  pose proof (gi_st0 _ _ _ _ _ G) as Hst.
  remember (map (seg_recs meta) pre) as segs eqn:Esegs.
  remember (chain_crc 0 segs) as cn eqn:Ecn.
  pose proof (ti_tail _ _ _ Ht) as Htail. pose proof (ti_ok _ _ _ Ht) as Hok.
  assert (Hcn : cn < 2 ^ 32) by (rewrite Ecn; apply chain_crc_lt; [reflexivity|exact Hsok]).
  remember (seg_recs meta d) as recs eqn:Erecs.
  assert (Hwf : Forall lrec_wf (lrecs (ops ++ [o]))) by now apply lrecs_wf.
  assert (Hsw : Forall segd_wf (pre ++ [d])).
  { apply (segd_wf_all _ [] Hst); [constructor|]. rewrite all_L_app. unfold all_L at 2. cbn [map concat].
    rewrite app_nil_r, HL. exact Hwf. }
  (* the directory *)
  unfold w_files. rewrite set_last_bytes_app.
  assert (Hsel : forall b, select_files (w_closed w ++ [with_bytes (tail_file w) b]) zero_snap
                           = Some (w_closed w ++ [with_bytes (tail_file w) b])).
  { intros b. apply select_zero.
    - pose proof (w_run_idx opt seg meta (ops ++ [o]) Hnr) as Hi. rewrite <- Hw in Hi. unfold idx_inv, idxs in Hi.
      rewrite map_app. cbn [map sg_idx with_bytes tail_file]. exact Hi.
    - rewrite (valid_seq_ext _ (w_files w)).
      + rewrite Hw. apply (written_directory_valid_seq opt seg meta (ops ++ [o]) 0).
      + unfold w_files. rewrite !map_app. reflexivity. }
  rewrite (final_multi _ _ Hsel). rewrite Hbytes.
  cbn [sg_bytes tail_file] in *.
  pose proof Htail as Htail'. rewrite Htail in Hz, Hc |- *.
  remember (w_tailsize w - blen (fst (encode_all cn recs))) as z eqn:Ez.
  destruct (trunc_image_tail cn recs z c Hcn Hok Hz Hc (fun r1 x r2 j E => Hnc cn recs r1 x r2 j Hcn Htail' E))
    as (recs1 & recs2 & v & Hsplit & Htd & Hnext & Hv).
  remember (img_trunc c (fst (encode_all cn recs) ++ zeros z)) as b eqn:Eb.
  assert (Hok1 : Forall enc_ok recs1) by (rewrite Hsplit in Hok; apply Forall_app in Hok; tauto).
  assert (Hp : recs1 ++ recs2 = seg_recs meta d) by (rewrite <- Erecs; symmetry; exact Hsplit).
  pose proof Htd as Htd0. rewrite Ecn in Htd0.
  pose proof (decode_multi segs b recs1 v Hsok Hok1 Htd0) as Hdec. rewrite <- Ecn in Hdec.
  (* everything saved before the last completed sync lies inside what is returned *)
  assert (Hreq : synced_recs w0 <= nlen (all_L pre) + N.of_nat (length recs1 - length (hdr meta (sd_st0 d)))).
  { unfold synced_recs. destruct (w_sync w0) as [s|] eqn:Es; [|lia].
    destruct (w_run_sync_name opt seg meta ops s Es) as [Hle Hidx]. fold w0 in Hle, Hidx.
    destruct Hcutd as [Hsame|[Hnil _]].
    - destruct (Hrel Hsame) as (Epre & Hst0 & more & Hmore).
      destruct (N.eq_dec (sy_seq s) (w_seq w0)) as [E|E].
      + destruct (gi_sync _ _ _ _ _ G0 s Es E) as (j & Hj & Hoff & Hrec). rewrite <- Epre, <- Esegs, <- Ecn in Hoff.
        rewrite <- Epre in Hrec.
        assert (Hso : synced_off w0 w = sy_off s).
        { unfold synced_off. rewrite Es. destruct (w_step_dir w0 o Hsame) as (Hi & _). fold w in Hi.
          rewrite Hsame, Hi, E, (Hidx E), !N.eqb_refl. reflexivity. }
        rewrite Hso, Hoff in Hsync.
        assert (Hsp : recs = (hdr meta (sd_st0 d0) ++ map rec_of_lrec (firstn j (sd_L d0)))
                             ++ map rec_of_lrec (skipn j (sd_L d0) ++ more)).
        { rewrite Erecs. unfold seg_recs. rewrite Hst0, Hmore. rewrite <- app_assoc, <- map_app, app_assoc, firstn_skipn.
          reflexivity. }
        pose proof (prefix_len_le_c cn recs _ _ recs1 recs2 c Hsp Hsplit Hsync Hnext) as Hlen.
        rewrite app_length, map_length, firstn_length_le in Hlen by exact Hj.
        rewrite Hrec, Hst0. lia.
      + pose proof (gi_old _ _ _ _ _ G0 s Es E) as Hle2. rewrite <- Epre in Hle2. lia.
    - pose proof (ginv_sync_rec _ _ _ _ _ G0 s Es) as Hle2. rewrite (gi_nrec _ _ _ _ _ G0) in Hle2.
      rewrite Hnil, app_nil_r in HL. rewrite HL, lrecs_app. unfold nlen in *. rewrite app_length. lia. }
  (* Repair reads the tail file alone *)
  assert (Hrep : exists rs, decode_all [b] = (rs, v, blen (fst (encode_all cn recs1)))).
  { destruct recs1 as [|x1 rs1].
    - assert (Hlt : c < 16).
      { destruct Hnext as [->|Hn]; [exfalso; rewrite Erecs in Hsplit; unfold seg_recs, hdr in Hsplit; discriminate|].
        cbn [app] in *. rewrite Erecs in Hsplit. unfold seg_recs, hdr in Hsplit. cbn [app] in Hsplit.
        destruct recs2 as [|x2 r2]; [discriminate|]. inversion Hsplit; subst x2. cbn [firstn] in Hn.
        rewrite (proj1 (encode_all_single cn _)) in Hn. pose proof (crc_frame_len cn Hcn). lia. }
      assert (Hcl : w_closed w = []) by (destruct (w_closed w); [reflexivity|exfalso; assert (16 <= c) by (apply H16; discriminate); lia]).
      rewrite Hcl in Hbytes. cbn [map] in Hbytes. symmetry in Hbytes. apply encode_segs_nil in Hbytes.
      rewrite Hbytes in Ecn, Htd0. cbn [chain_crc] in Ecn, Htd0.
      eexists. rewrite Ecn. exact (decode_multi [] b [] v (Forall_nil _) (Forall_nil _) Htd0).
    - assert (Ex : x1 = (c_crcType, None)).
      { rewrite Erecs in Hsplit. unfold seg_recs, hdr in Hsplit. cbn [app] in Hsplit. now inversion Hsplit. }
      subst x1. inversion Hok1; subst. eexists. apply decode_alone; assumption. }
  destruct Hrep as (rs & Hrep).
  clear Htd0. subst cn. subst segs.
  unfold after_repair_m.
  destruct Hv as [->|[->|[->| ->]]].
  - pose proof (read_all_good_m _ meta pre d recs1 recs2 _ _ Hdec Hp Hsw Hst Hreq) as Hgood. rewrite HL in Hgood.
    destruct (read_all zero_snap (encode_segs 0 (map (seg_recs meta) pre) ++ [b])) as [m st en off cc|e] eqn:Er; [exact Hgood|].
    rewrite repair_last_spec, Hrep. cbn [repair_of_verdict]. destruct e; exact I.
  - destruct (read_all_err_m _ _ _ _ Hdec) as (e' & Er). rewrite Er.
    rewrite repair_last_spec, Hrep. cbn [repair_of_verdict].
    match goal with |- context [btake ?n b] => assert (Hb2 : btake n b = fst (encode_all (chain_crc 0 (map (seg_recs meta) pre)) recs1)) end.
    { destruct Htd as (junk & Ej & _). rewrite Ej. apply btake_app_exact. }
    rewrite Hb2.
    pose proof (tail_decodes_exact (chain_crc 0 (map (seg_recs meta) pre)) recs1) as Htd2.
    pose proof (decode_multi _ _ recs1 None Hsok Hok1 Htd2) as Hdec2.
    pose proof (read_all_good_m _ meta pre d recs1 recs2 _ _ Hdec2 Hp Hsw Hst Hreq) as Hgood. rewrite HL in Hgood.
    destruct e'; try exact I; exact Hgood.
  - destruct (read_all_err_m _ _ _ _ Hdec) as (e' & Er). rewrite Er.
    rewrite repair_last_spec, Hrep. cbn [repair_of_verdict]. destruct e'; exact I.
  - destruct (read_all_err_m _ _ _ _ Hdec) as (e' & Er). rewrite Er.
    rewrite repair_last_spec, Hrep. cbn [repair_of_verdict]. destruct e'; exact I.
Qed.
