(* Wal/ProofsFrame.v — the 8-byte frame header: little-endian round trip, length/padding fields. *)
From ZV Require Import Common.Bytes Wal.Consts Wal.Crc Wal.Proto Wal.Model Wal.ProofsCrc Wal.ProofsProto.
From Coq Require Import ZifyN ZifyNat ZifyBool Lia.
Open Scope N_scope.

Lemma byte_of_spec v k : byte_of v k = (v / 2 ^ (8 * k)) mod 256.
Proof. unfold byte_of. rewrite N.shiftr_div_pow2. change 255 with (N.ones 8). now rewrite N.land_ones. Qed.

Lemma le64_length v : length (le64 v) = 8%nat.
Proof. reflexivity. Qed.
Lemma le64_blen v : blen (le64 v) = 8.
Proof. reflexivity. Qed.

Lemma div256_step v k : v / 2 ^ (8 * k) = (v / 2 ^ (8 * k)) mod 256 + 256 * (v / 2 ^ (8 * (k + 1))).
Proof.
  replace (2 ^ (8 * (k + 1))) with (2 ^ (8 * k) * 256).
  - rewrite <- N.div_div by (try discriminate; apply N.pow_nonzero; discriminate).
    rewrite N.add_comm. apply N.div_mod. discriminate.
  - replace (8 * (k + 1)) with (8 * k + 8) by lia. rewrite N.pow_add_r. reflexivity.
Qed.

Lemma le64_roundtrip v : v < 2 ^ 64 -> le64_dec (le64 v) = v.
Proof.
  intros Hv. unfold le64, le64_dec. rewrite !byte_of_spec, !N.shiftl_mul_pow2.
  pose proof (div256_step v 0) as H0. pose proof (div256_step v 1) as H1. pose proof (div256_step v 2) as H2.
  pose proof (div256_step v 3) as H3. pose proof (div256_step v 4) as H4. pose proof (div256_step v 5) as H5.
  pose proof (div256_step v 6) as H6. pose proof (div256_step v 7) as H7.
  assert (H8 : v / 2 ^ (8 * (7 + 1)) = 0) by (apply N.div_small; exact Hv).
  change (0 + 1) with 1 in *. change (1 + 1) with 2 in *. change (2 + 1) with 3 in *. change (3 + 1) with 4 in *.
  change (4 + 1) with 5 in *. change (5 + 1) with 6 in *. change (6 + 1) with 7 in *. change (7 + 1) with 8 in *.
  change (2 ^ (8 * 0)) with 1 in *. rewrite N.div_1_r in *.
  set (q1 := v / 2 ^ (8 * 1)) in *. set (q2 := v / 2 ^ (8 * 2)) in *. set (q3 := v / 2 ^ (8 * 3)) in *.
  set (q4 := v / 2 ^ (8 * 4)) in *. set (q5 := v / 2 ^ (8 * 5)) in *. set (q6 := v / 2 ^ (8 * 6)) in *.
  set (q7 := v / 2 ^ (8 * 7)) in *. set (q8 := v / 2 ^ (8 * 8)) in *.
  set (b0 := v mod 256) in *. set (b1 := q1 mod 256) in *. set (b2 := q2 mod 256) in *. set (b3 := q3 mod 256) in *.
  set (b4 := q4 mod 256) in *. set (b5 := q5 mod 256) in *. set (b6 := q6 mod 256) in *. set (b7 := q7 mod 256) in *.
  clearbody q1 q2 q3 q4 q5 q6 q7 q8 b0 b1 b2 b3 b4 b5 b6 b7.
  change (2 ^ 8) with 256. change (2 ^ 16) with 65536. change (2 ^ 24) with 16777216.
  change (2 ^ 32) with 4294967296. change (2 ^ 40) with 1099511627776.
  change (2 ^ 48) with 281474976710656. change (2 ^ 56) with 72057594037927936.
  lia.
Qed.

Lemma byte_of_lt v k : byte_of v k < 256.
Proof. rewrite byte_of_spec. apply N.mod_lt. discriminate. Qed.

(* ---------- encodeFrameSize / decodeFrameSize ---------- *)
Lemma frame_pad_lt n : frame_pad n < 8.
Proof.
  unfold frame_pad. change 7 with (N.ones 3) at 2. rewrite N.land_ones. apply N.mod_lt. discriminate.
Qed.

Lemma frame_pad_spec n : (n + frame_pad n) mod 8 = 0.
Proof.
  unfold frame_pad. change 7 with (N.ones 3). rewrite !N.land_ones. change (2 ^ 3) with 8.
  zify. Z.div_mod_to_equations. lia.
Qed.

Lemma lor_disjoint a b k : a < 2 ^ k -> N.lor a (N.shiftl b k) = a + b * 2 ^ k.
Proof.
  intros Ha. rewrite <- N.shiftl_mul_pow2.
  assert (Hd : N.land a (N.shiftl b k) = 0).
  { apply N.bits_inj. intros n. rewrite N.land_spec, N.bits_0.
    destruct (N.ltb_spec n k).
    - rewrite N.shiftl_spec_low by assumption. apply andb_false_r.
    - rewrite (proj1 (lt_pow2_bits a k) Ha) by assumption. reflexivity. }
  rewrite <- N.lxor_lor by exact Hd. symmetry. apply N.add_nocarry_lxor. exact Hd.
Qed.

Lemma frame_len_field_parts n :
  n < 2 ^ 56 ->
  frame_len_field n = n + (if frame_pad n =? 0 then 0 else (128 + frame_pad n) * 2 ^ 56).
Proof.
  intros Hn. unfold frame_len_field. pose proof (frame_pad_lt n) as Hp.
  destruct (frame_pad n =? 0) eqn:E; [lia|].
  rewrite lor_disjoint by exact Hn. f_equal. f_equal.
  rewrite N.lor_comm. change 128 with (N.shiftl 1 7).
  rewrite lor_disjoint; [change (N.shiftl 1 7) with 128; change (2 ^ 7) with 128; lia|].
  eapply N.lt_trans; [exact Hp|reflexivity].
Qed.

Lemma frame_rec_bytes_field n : n < 2 ^ 56 -> frame_rec_bytes (frame_len_field n) = n.
Proof.
  intros Hn. unfold frame_rec_bytes. change mask56 with (N.ones 56). rewrite N.land_ones.
  rewrite frame_len_field_parts by exact Hn.
  destruct (frame_pad n =? 0).
  - rewrite N.add_0_r. now apply N.mod_small.
  - rewrite N.mod_add by discriminate. now apply N.mod_small.
Qed.

Lemma frame_pad_bytes_field n : n < 2 ^ 56 -> frame_pad_bytes (frame_len_field n) = frame_pad n.
Proof.
  intros Hn. unfold frame_pad_bytes. rewrite frame_len_field_parts by exact Hn.
  pose proof (frame_pad_lt n) as Hp.
  destruct (frame_pad n =? 0) eqn:E.
  - apply N.eqb_eq in E. rewrite N.add_0_r.
    assert (L : (two63 <=? n) = false).
    { apply N.leb_gt. eapply N.lt_trans; [exact Hn|reflexivity]. }
    rewrite L. now rewrite E.
  - assert (L : (two63 <=? n + (128 + frame_pad n) * 2 ^ 56) = true).
    { apply N.leb_le. change two63 with (128 * 2 ^ 56). nia. }
    rewrite L. rewrite N.shiftr_div_pow2, N.div_add by discriminate.
    rewrite (N.div_small n) by exact Hn. rewrite N.add_0_l.
    change 7 with (N.ones 3). rewrite N.land_ones. change (2 ^ 3) with 8.
    replace (128 + frame_pad n) with (frame_pad n + 16 * 8) by lia.
    rewrite N.mod_add by discriminate. now apply N.mod_small.
Qed.

Lemma frame_len_field_lt n : n < 2 ^ 56 -> frame_len_field n < 2 ^ 64.
Proof.
  intros Hn. rewrite frame_len_field_parts by exact Hn. pose proof (frame_pad_lt n).
  change (2 ^ 64) with (256 * 2 ^ 56). destruct (frame_pad n =? 0); nia.
Qed.

Lemma frame_len_field_pos n : n < 2 ^ 56 -> 0 < n -> frame_len_field n <> 0.
Proof.
  intros Hn Hp. rewrite frame_len_field_parts by exact Hn. destruct (frame_pad n =? 0); lia.
Qed.

Lemma frame_blen data : blen (frame data) = 8 + blen data + frame_pad (blen data).
Proof. unfold frame. rewrite !blen_app, le64_blen, zeros_len. lia. Qed.
