(* Common/BytesFacts.v — lemmas about Common/Bytes.v *)
From ZV Require Import Common.Bytes.

Lemma bytes_eqb_eq a b : bytes_eqb a b = true <-> a = b.
Proof.
  revert b; induction a as [|x a IH]; intros [|y b]; simpl; split; intro H;
    try reflexivity; try discriminate.
  - apply andb_true_iff in H as [Hx Hab]. apply N.eqb_eq in Hx. apply IH in Hab. now subst.
  - inversion H; subst. rewrite N.eqb_refl. simpl. now apply IH.
Qed.

Lemma bytes_eqb_refl a : bytes_eqb a a = true.
Proof. now apply bytes_eqb_eq. Qed.

Lemma bytes_cmp_eq a b : bytes_cmp a b = Eq <-> a = b.
Proof.
  revert b; induction a as [|x a IH]; intros [|y b]; simpl; split; intro H;
    try reflexivity; try discriminate.
  - destruct (x ?= y) eqn:E; try discriminate. apply N.compare_eq in E. apply IH in H. now subst.
  - inversion H; subst. rewrite N.compare_refl. now apply IH.
Qed.

Lemma bytes_cmp_antisym a b : bytes_cmp b a = CompOpp (bytes_cmp a b).
Proof.
  revert b; induction a as [|x a IH]; intros [|y b]; simpl; try reflexivity.
  rewrite (N.compare_antisym x y). destruct (x ?= y); simpl; auto.
Qed.

Lemma bytes_cmp_trans_lt a b c :
  bytes_cmp a b = Lt -> bytes_cmp b c = Lt -> bytes_cmp a c = Lt.
Proof.
  revert b c; induction a as [|x a IH]; intros [|y b] [|z c]; simpl; intros H1 H2;
    try reflexivity; try discriminate.
  destruct (x ?= y) eqn:E1; try discriminate;
  destruct (y ?= z) eqn:E2; try discriminate.
  - apply N.compare_eq in E1, E2. subst. rewrite N.compare_refl. eauto.
  - apply N.compare_eq in E1. subst. now rewrite E2.
  - apply N.compare_eq in E2. subst. now rewrite E1.
  - rewrite N.compare_lt_iff in E1, E2.
    assert (x < z) by lia. apply N.compare_lt_iff in H. now rewrite H.
Qed.

Lemma bytes_ltb_irrefl a : bytes_ltb a a = false.
Proof. unfold bytes_ltb. now rewrite (proj2 (bytes_cmp_eq a a) eq_refl). Qed.

Lemma bytes_ltb_trans a b c : bytes_ltb a b = true -> bytes_ltb b c = true -> bytes_ltb a c = true.
Proof.
  unfold bytes_ltb. destruct (bytes_cmp a b) eqn:E1; try discriminate.
  destruct (bytes_cmp b c) eqn:E2; try discriminate. intros _ _.
  now rewrite (bytes_cmp_trans_lt _ _ _ E1 E2).
Qed.

Lemma bytes_ltb_total a b : bytes_ltb a b = true \/ a = b \/ bytes_ltb b a = true.
Proof.
  unfold bytes_ltb. rewrite (bytes_cmp_antisym a b).
  destruct (bytes_cmp a b) eqn:E; simpl; auto.
  right; left. now apply bytes_cmp_eq.
Qed.
