(* Common/Bytes.v — byte strings as lists of N (< 256), lexicographic order. Model only. *)
From Coq Require Export List NArith ZArith Bool Lia.
Export ListNotations.
Open Scope N_scope.

Definition byte := N.
Definition bytes := list N.

Definition byte_ok (b : N) : bool := b <? 256.
Definition bytes_ok (bs : bytes) : bool := forallb byte_ok bs.

Fixpoint bytes_eqb (a b : bytes) : bool :=
  match a, b with
  | [], [] => true
  | x :: a', y :: b' => (x =? y) && bytes_eqb a' b'
  | _, _ => false
  end.

(* sign of Go's bytes.Compare: Lt / Eq / Gt *)
Fixpoint bytes_cmp (a b : bytes) : comparison :=
  match a, b with
  | [], [] => Eq
  | [], _ :: _ => Lt
  | _ :: _, [] => Gt
  | x :: a', y :: b' =>
      match x ?= y with
      | Eq => bytes_cmp a' b'
      | c => c
      end
  end.

Definition bytes_ltb (a b : bytes) : bool :=
  match bytes_cmp a b with Lt => true | _ => false end.
Definition bytes_leb (a b : bytes) : bool :=
  match bytes_cmp a b with Gt => false | _ => true end.

Fixpoint index_of (c : N) (bs : bytes) : option nat :=
  match bs with
  | [] => None
  | x :: r => if x =? c then Some 0%nat
              else match index_of c r with Some i => Some (S i) | None => None end
  end.
