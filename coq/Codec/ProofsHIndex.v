(* Codec/ProofsHIndex.v — C12: the hash secondary-index keys: round trip, order, self-delimiting prefix, value ranges *)
From ZV Require Import Common.Bytes Common.BytesFacts Codec.Consts Codec.MemCmp Codec.Keys Codec.Spec Codec.HIndex
  Codec.ProofsNum Codec.ProofsBytes Codec.ProofsTuple Codec.ProofsRange Codec.ProofsKeys Codec.ProofsDecode.
From Coq Require Import ZifyN ZifyNat ZifyBool Lia.
Open Scope N_scope.

Lemma hindex_prefix_shape t n x :
  hindex_prefix t n ++ x =
  [index_data_type; hset_index_data_type] ++ be16 (length t) ++ t ++ [hindex_start_sep] ++
  be16 (length n) ++ n ++ hindex_start_sep :: x.
Proof.
  unfold hindex_prefix. cbn [app]. f_equal. f_equal. rewrite <- !app_assoc. f_equal. f_equal. cbn [app]. f_equal.
  rewrite <- !app_assoc. reflexivity.
Qed.

Lemma hindex_prefix_app_inj t n t' n' x y : len16 t -> len16 n -> len16 t' -> len16 n' ->
  hindex_prefix t n ++ x = hindex_prefix t' n' ++ y -> t = t' /\ n = n' /\ x = y.
Proof.
  intros Ht Hn Ht' Hn' E. rewrite !hindex_prefix_shape in E. apply app_inv_head in E.
  apply len16_prefixed_inj in E; [|assumption|assumption]. destruct E as [-> E].
  apply app_inv_head in E. apply len16_prefixed_inj in E; [|assumption|assumption].
  destruct E as [-> E]. injection E as ->. auto.
Qed.

Lemma decode_hindex_head_encode t n rest : len16 t -> len16 n -> (2 <= length rest)%nat ->
  decode_hindex_head (hindex_prefix t n ++ rest) = Ok (t, n, rest).
Proof.
  intros Ht Hn Hr. unfold decode_hindex_head, hindex_prefix.
  rewrite (be16_spec (length t)) by assumption. cbn [app].
  match goal with |- context [(?a <? 8)%nat] => destruct (Nat.ltb_spec a 8) as [H|H] end.
  { cbn [length] in H. rewrite !app_length in H. cbn [length] in H. rewrite !app_length, be16_length in H. cbn [length] in H. lia. }
  rewrite !N.eqb_refl. cbn [negb orb]. cbv zeta. rewrite be16_value by assumption.
  rewrite <- !app_assoc. cbn [app].
  match goal with |- context [(?a <? ?b)%nat] => destruct (Nat.ltb_spec a b) as [H2|H2] end.
  { rewrite !app_length in H2. cbn [length] in H2. rewrite !app_length in H2. cbn [length] in H2. lia. }
  rewrite skipn_app_exact, firstn_app_exact.
  rewrite (be16_spec (length n)) by assumption. cbn [app]. rewrite N.eqb_refl. cbn [negb].
  rewrite be16_value by assumption.
  match goal with |- context [(?a <? ?b)%nat] => destruct (Nat.ltb_spec a b) as [H3|H3] end.
  { rewrite !app_length in H3. cbn [length] in H3. lia. }
  rewrite <- app_assoc. rewrite skipn_app_exact, firstn_app_exact. cbn [app]. now rewrite N.eqb_refl.
Qed.

Lemma hindex_sep_ok stop : int64_ok (hindex_sep stop).
Proof. destruct stop; unfold int64_ok, hindex_sep; cbn; lia. Qed.

Theorem decode_hset_index_number_key_encode t n v pk : len16 t -> len16 n -> int64_ok v ->
  decode_hset_index_number_key (encode_hset_index_number_key t n v pk false) = Ok (t, n, v, pk).
Proof.
  intros Ht Hn Hv. unfold decode_hset_index_number_key, encode_hset_index_number_key.
  rewrite decode_hindex_head_encode; try assumption.
  - rewrite decode_encode_vals; [reflexivity|discriminate|]. pose proof (hindex_sep_ok false). mvals_ok.
  - pose proof (encode_vals_length_ge [MInt v; MInt (hindex_sep false); MBytes pk]). simpl length in H at 1. lia.
Qed.

Theorem decode_hset_index_string_key_encode t n v pk : len16 t -> len16 n ->
  decode_hset_index_string_key (encode_hset_index_string_key t n v pk false) = Ok (t, n, v, pk).
Proof.
  intros Ht Hn. unfold decode_hset_index_string_key, encode_hset_index_string_key.
  rewrite decode_hindex_head_encode; try assumption.
  - rewrite decode_encode_vals; [reflexivity|discriminate|]. pose proof (hindex_sep_ok false). mvals_ok.
  - pose proof (encode_vals_length_ge [MBytes v; MInt (hindex_sep false); MBytes pk]). simpl length in H at 1. lia.
Qed.

(* index entries of one (table, index) sort by value, then by primary key *)
Theorem hset_index_number_key_order t n v pk v' pk' : int64_ok v -> int64_ok v' ->
  bytes_cmp (encode_hset_index_number_key t n v pk false) (encode_hset_index_number_key t n v' pk' false) =
  match (v ?= v')%Z with Eq => bytes_cmp pk pk' | c => c end.
Proof.
  intros Hv Hv'. unfold encode_hset_index_number_key. rewrite bytes_cmp_app_same.
  pose proof (hindex_sep_ok false). rewrite encode_vals_cmp by mvals_ok.
  cbn [tuple_cmp mval_cmp]. rewrite Z.compare_refl. destruct (v ?= v')%Z; try reflexivity.
  destruct (bytes_cmp pk pk'); reflexivity.
Qed.

Theorem hset_index_string_key_order t n v pk v' pk' :
  bytes_cmp (encode_hset_index_string_key t n v pk false) (encode_hset_index_string_key t n v' pk' false) =
  match bytes_cmp v v' with Eq => bytes_cmp pk pk' | c => c end.
Proof.
  unfold encode_hset_index_string_key. rewrite bytes_cmp_app_same.
  pose proof (hindex_sep_ok false). rewrite encode_vals_cmp by mvals_ok.
  cbn [tuple_cmp mval_cmp]. rewrite Z.compare_refl. destruct (bytes_cmp v v'); try reflexivity.
  destruct (bytes_cmp pk pk'); reflexivity.
Qed.

(* the [start, stop) range of one indexed value holds exactly the entries with that value *)
Theorem hset_index_number_value_range t n v v' pk : int64_ok v -> int64_ok v' ->
  in_range (encode_hset_index_number_key t n v [] false) (encode_hset_index_number_key t n v [] true)
           (encode_hset_index_number_key t n v' pk false) = true <-> v' = v.
Proof.
  intros Hv Hv'. unfold encode_hset_index_number_key. rewrite in_range_app.
  unfold in_range. rewrite andb_true_iff, bytes_leb_cmp, bytes_ltb_cmp.
  pose proof (hindex_sep_ok false). pose proof (hindex_sep_ok true).
  rewrite !encode_vals_cmp by mvals_ok. cbn [tuple_cmp mval_cmp].
  rewrite (Z.compare_antisym v' v).
  change (hindex_sep false ?= hindex_sep false)%Z with Eq. change (hindex_sep false ?= hindex_sep true)%Z with Lt.
  destruct (Z.compare_spec v' v) as [->|Hl|Hg]; cbn [CompOpp].
  - split; [reflexivity|]. intros _. split; [destruct pk; discriminate|reflexivity].
  - split; [intros [A B]; congruence|lia].
  - split; [intros [A B]; discriminate|lia].
Qed.
