(* driver for the C12 model: reads case lines on stdin (id \t kind \t fields...), prints "<id>\t<model output>".
   Output formats mirror harness/cmd/codec/main.go exactly. *)
open Model
open Vio

let h = hex_of_bytes
let uh = bytes_of_hex
let b01 = function true -> "1" | false -> "0"
let nat_s (x : nat) = string_of_int (int_of_nat x)
let n_s (x : n) = string_of_int (int_of_n x)
let join = String.concat

let res (pr : 'a -> string) (r : 'a res) : string =
  match r with
  | Ok a -> let s = pr a in if s = "" then "ok" else "ok " ^ s
  | Err -> "err"
  | Panic -> "panic"

let parse_vals (s : string) : mval list =
  if s = "~" then [] else
  List.map (fun it ->
    let rest = String.sub it 1 (String.length it - 1) in
    match it.[0] with
    | 'n' -> MNil
    | 'b' -> MBytes (uh rest)
    | 'i' -> MInt (z_of_hex rest)
    | 'f' -> MFloat (n_of_hex rest)
    | _ -> failwith ("bad val " ^ it)) (split_on ',' s)
let fmt_vals (vs : mval list) : string =
  if vs = [] then "~" else
  join "," (List.map (function
    | MNil -> "n"
    | MBytes b -> "b" ^ h b
    | MInt z -> "i" ^ hex_of_z z
    | MFloat f -> "f" ^ hex_of_n f) vs)

let opt_b s = if s = "~" then None else Some (uh s)
let dtn s = n_of_int (int_of_string s)

let p_rest_bytes (r, v) = h r ^ " " ^ h v
let p_tks ((t, k), s) = h t ^ " " ^ h k ^ " " ^ h s
let p_coll (((dt, t), k), s) = n_s dt ^ " " ^ h t ^ " " ^ h k ^ " " ^ h s
let p_tp buf (t, rest) = h t ^ " " ^ string_of_int (List.length buf - List.length rest)
let p_list ((t, k), s) = h t ^ " " ^ h k ^ " " ^ hex_of_z s
let p_zs (((t, k), m), s) = h t ^ " " ^ h k ^ " " ^ h m ^ " " ^ hex_of_n s
let p_exp_t ((d, k), w) = n_s d ^ " " ^ h k ^ " " ^ hex_of_z w
let p_exp_m (d, k) = n_s d ^ " " ^ h k

let run (kind : string) (f : string array) : string =
  match kind with
  | "EB" ->
    let d = uh f.(0) in
    let a = encode_bytes d and ds = encode_bytes_desc d in
    h a ^ " " ^ h ds ^ " | " ^ res p_rest_bytes (decode_bytes false a) ^ " | " ^ res p_rest_bytes (decode_bytes true ds)
  | "DB" ->
    let raw = uh f.(0) in
    res p_rest_bytes (decode_bytes false raw) ^ " | " ^ res p_rest_bytes (decode_bytes true raw)
  | "EI" ->
    let v = z_of_hex f.(0) in
    let a = encode_int v and d = encode_int_desc v in
    let g = function Ok (_, x) -> hex_of_z x | _ -> "?" in
    h a ^ " " ^ h d ^ " " ^ g (decode_int a) ^ " " ^ g (decode_int_desc d)
  | "EU" ->
    let v = n_of_hex f.(0) in
    let a = encode_uint v and d = encode_uint_desc v in
    let g = function Ok (_, x) -> hex_of_n x | _ -> "?" in
    h a ^ " " ^ h d ^ " " ^ g (decode_uint a) ^ " " ^ g (decode_uint_desc d)
  | "EF" ->
    let v = n_of_hex f.(0) in
    let a = encode_float v and d = encode_float_desc v in
    let g = function Ok (_, x) -> hex_of_n x | _ -> "?" in
    h a ^ " " ^ h d ^ " " ^ g (decode_float a) ^ " " ^ g (decode_float_desc d)
  | "DN" ->
    let raw = uh f.(0) in
    let pz (r, v) = h r ^ " " ^ hex_of_z v and pn (r, v) = h r ^ " " ^ hex_of_n v in
    join " | " [res pz (decode_int raw); res pz (decode_int_desc raw); res pn (decode_uint raw);
                res pn (decode_uint_desc raw); res pn (decode_float raw); res pn (decode_float_desc raw)]
  | "FC" ->
    let a = n_of_hex f.(0) and b = n_of_hex f.(1) in
    b01 (float_ltb a b) ^ " " ^ b01 (float_eqb a b)
  | "MC" ->
    let vs = parse_vals f.(0) in
    let enc = encode_vals vs in
    h enc ^ " | " ^ res fmt_vals (decode_vals enc)
  | "MD" ->
    let raw = uh f.(0) in
    join " | " [res fmt_vals (decode_vals raw); res nat_s (peek raw);
                res (fun (a, b) -> h a ^ " " ^ h b) (cut_one raw);
                res nat_s (peek_bytes false raw); res nat_s (peek_bytes true raw)]
  | "TP" ->
    let dt = dtn f.(0) and tb = uh f.(1) in
    let s = encode_data_table_start dt tb and e = encode_data_table_end dt tb in
    h s ^ " " ^ h e ^ " | " ^ res (p_tp s) (decode_table_prefix s dt)
  | "DTP" ->
    let dt = dtn f.(0) and raw = uh f.(1) in
    res (p_tp raw) (decode_table_prefix raw dt)
  | "XT" ->
    let raw = uh f.(0) in
    let pk = (match extract_table raw with Ok (t, k) -> h (pack_redis_key t k) | _ -> "-") in
    res (fun (t, k) -> h t ^ " " ^ h k) (extract_table raw) ^ " | " ^
    res (fun (t, k) -> h t ^ " " ^ h k) (convert_redis_key_to_db_kv_key raw) ^ " | " ^ pk
  | "CK" ->
    let k = List.init (int_of_string f.(0)) (fun _ -> N0) and s = List.init (int_of_string f.(1)) (fun _ -> N0) in
    join " " [b01 (check_key k); b01 (check_sub_key s); b01 (check_key_sub_key k s); b01 (check_key k);
              b01 (check_key_sub_key k s)]
  | "CS" ->
    let dt = dtn f.(0) and tb = uh f.(1) and k = uh f.(2) and sub = uh f.(3) in
    (match encode_coll_sub_key dt tb k sub with
     | Ok enc ->
       "ok " ^ h enc ^ " " ^ h (coll_key dt tb k sub) ^ " " ^ h (coll_start_key dt tb k) ^ " " ^ h (coll_stop_key dt tb k)
       ^ " | " ^ res p_coll (decode_coll_sub_key enc)
     | r -> res h r)
  | "DCS" ->
    let raw = uh f.(0) in
    join " | " [res p_coll (decode_coll_sub_key raw); res p_tks (decode_coll_key_typed hash_type raw);
                res p_tks (decode_coll_key_typed set_type raw); res p_tks (decode_coll_key_typed zset_type raw)]
  | "LK" ->
    let tb = uh f.(0) and k = uh f.(1) and seq = z_of_hex f.(2) in
    let enc = l_encode_list_key tb k seq in
    h enc ^ " " ^ h (l_encode_list_key tb k list_min_seq) ^ " " ^ h (l_encode_list_key tb k list_max_seq)
    ^ " | " ^ res p_list (l_decode_list_key enc)
  | "DLK" -> res p_list (l_decode_list_key (uh f.(0)))
  | "ZS" ->
    let sk = f.(0).[0] = '1' and sm = f.(0).[1] = '1' in
    let tb = uh f.(1) and k = uh f.(2) and m = uh f.(3) and sc = n_of_hex f.(4) in
    let enc = z_encode_score_key sk sm tb k m sc in
    h enc ^ " | " ^ res p_zs (z_decode_score_key enc)
  | "ZR" ->
    let tb = uh f.(0) and k = uh f.(1) and sc = n_of_hex f.(2) in
    join " " [h (z_encode_start_score_key tb k sc); h (z_encode_stop_score_key tb k sc);
              h (z_encode_start_key tb k); h (z_encode_stop_key tb k)]
  | "DZS" -> res p_zs (z_decode_score_key (uh f.(0)))
  | "BK" ->
    let tb = uh f.(0) and k = uh f.(1) and idx = z_of_hex f.(2) in
    let enc = encode_bitmap_key tb k idx in
    h enc ^ " " ^ h (encode_bitmap_key tb k Z0) ^ " " ^ h (encode_bitmap_stop_key tb k) ^ " | " ^ res p_list (decode_bitmap_key enc)
  | "DBK" -> res p_list (decode_bitmap_key (uh f.(0)))
  | "VK" ->
    let ver = z_of_hex f.(0) and k = uh f.(1) in
    let enc = encode_ver_key ver k in
    h enc ^ " | " ^ res (fun (kk, v) -> h kk ^ " " ^ hex_of_z v) (decode_ver_key enc)
  | "DVK" -> res (fun (kk, v) -> h kk ^ " " ^ hex_of_z v) (decode_ver_key (uh f.(0)))
  | "MK" -> res h (encode_meta_key (dtn f.(0)) (uh f.(1)))
  | "SK" ->
    let k = uh f.(0) in
    join " " [h (encode_kv_key k); h (size_key hsize_type k); h (size_key ssize_type k); h (size_key zsize_type k);
              h (size_key lmeta_type k); h (size_key bitmap_meta_type k); h l_encode_min_key; h l_encode_max_key]
  | "DMK" ->
    let raw = uh f.(0) in
    join " | " [res h (decode_kv_key raw); res h (decode_size_key hsize_type raw); res h (decode_size_key ssize_type raw);
                res h (decode_size_key zsize_type raw); res h (decode_size_key lmeta_type raw);
                res h (decode_size_key bitmap_meta_type raw)]
  | "TM" ->
    let tb = uh f.(0) and it = dtn f.(1) in
    join " " [h (encode_table_meta_key tb); h encode_table_meta_start_key; h encode_table_meta_stop_key;
              h (encode_table_index_meta_key tb it); h (encode_table_index_meta_start_key it);
              h (encode_table_index_meta_stop_key it)]
  | "DTM" ->
    let raw = uh f.(0) in
    res h (decode_table_meta_key raw) ^ " | " ^ res (fun (it, t) -> n_s it ^ " " ^ h t) (decode_table_index_meta_key raw)
  | "TR" ->
    let dt = dtn f.(0) and mdt = dtn f.(1) and tb = uh f.(2) in
    let st = (match opt_b f.(3) with None -> [] | Some b -> b) and en = opt_b f.(4) in
    res (fun rgs -> join "," (List.map (fun (a, b) -> h a ^ ".." ^ h b) rgs)) (get_table_data_range dt tb st en)
    ^ " | " ^ res (fun (a, b) -> h a ^ ".." ^ h b) (get_table_meta_range mdt tb st en)
  | "JK" ->
    let tb = uh f.(0) and k = uh f.(1) in
    let enc = encode_json_key tb k in
    h enc ^ " " ^ h (encode_json_start_key tb) ^ " " ^ h (encode_json_stop_key tb) ^ " | "
    ^ res (fun (t, kk) -> h t ^ " " ^ h kk) (decode_json_key enc)
  | "DJK" -> res (fun (t, kk) -> h t ^ " " ^ h kk) (decode_json_key (uh f.(0)))
  | "HK" ->
    let tb = uh f.(0) and nm = uh f.(1) and v = z_of_hex f.(2) and sv = uh f.(3) and pk = uh f.(4) in
    let stop = f.(5) = "1" in
    let nk = encode_hset_index_number_key tb nm v pk stop and sk = encode_hset_index_string_key tb nm sv pk stop in
    let pn (((t, n), v), p) = h t ^ " " ^ h n ^ " " ^ hex_of_z v ^ " " ^ h p
    and ps (((t, n), v), p) = h t ^ " " ^ h n ^ " " ^ h v ^ " " ^ h p in
    h nk ^ " " ^ h sk ^ " " ^ h (encode_hset_index_start_key tb nm) ^ " " ^ h (encode_hset_index_stop_key tb nm)
    ^ " | " ^ res pn (decode_hset_index_number_key nk) ^ " | " ^ res ps (decode_hset_index_string_key sk)
  | "DHK" ->
    let raw = uh f.(0) in
    let pn (((t, n), v), p) = h t ^ " " ^ h n ^ " " ^ hex_of_z v ^ " " ^ h p
    and ps (((t, n), v), p) = h t ^ " " ^ h n ^ " " ^ h v ^ " " ^ h p in
    res pn (decode_hset_index_number_key raw) ^ " | " ^ res ps (decode_hset_index_string_key raw)
  | "RD" ->
    let rt = dtn f.(0) and lo = uh f.(1) and hi = uh f.(2) in
    let keys = if f.(3) = "~" then [] else List.map uh (split_on ',' f.(3)) in
    let got = range_iter rt lo hi keys in
    if got = [] then "~" else join "," (List.map h got)
  | "DR" ->
    let lo = uh f.(0) and hi = uh f.(1) in
    let keys = if f.(2) = "~" then [] else List.map uh (split_on ',' f.(2)) in
    let got = delete_range lo hi keys in
    if got = [] then "~" else join "," (List.map h got)
  | "RDR" ->
    let rt = dtn f.(0) and lo = uh f.(1) and hi = uh f.(2) in
    let keys = if f.(3) = "~" then [] else List.map uh (split_on ',' f.(3)) in
    let got = range_iter_rev rt lo hi keys in
    if got = [] then "~" else join "," (List.map h got)
  | "XK" ->
    let dt = dtn f.(0) and k = uh f.(1) and w = z_of_hex f.(2) in
    let tk = exp_encode_time_key dt k w and mk = exp_encode_meta_key dt k in
    h tk ^ " " ^ h mk ^ " | " ^ res p_exp_t (exp_decode_time_key tk) ^ " | " ^ res p_exp_m (exp_decode_meta_key mk)
  | "DXK" ->
    let raw = uh f.(0) in
    res p_exp_t (exp_decode_time_key raw) ^ " | " ^ res p_exp_m (exp_decode_meta_key raw)
  | _ -> "unknown-kind"

let () =
  read_lines stdin (fun line ->
    match split_on '\t' line with
    | id :: kind :: fields ->
      let out = (try run kind (Array.of_list fields) with Stack_overflow -> "model-stack-overflow") in
      Printf.printf "%s\t%s\n" id out
    | _ -> ())
