(* Codec/ProofsTuple.v — C12: tuples of memcomparable values (EncodeMemCmpKey / Decode / peek) *)
From ZV Require Import Common.Bytes Common.BytesFacts Codec.Consts Codec.MemCmp Codec.Keys Codec.Spec Codec.ProofsNum Codec.ProofsBytes.
From Coq Require Import ZifyN ZifyNat ZifyBool Lia.
Open Scope N_scope.

Lemma encode_vals_cons v vs : encode_vals (v :: vs) = encode_val v ++ encode_vals vs.
Proof. reflexivity. Qed.

Lemma encode_vals_app a b : encode_vals (a ++ b) = encode_vals a ++ encode_vals b.
Proof. unfold encode_vals. now rewrite map_app, concat_app. Qed.

Lemma encode_val_cons v : exists t, encode_val v = mval_flag v :: t.
Proof. destruct v; eexists; reflexivity. Qed.

Lemma encode_val_length_pos v : (1 <= length (encode_val v))%nat.
Proof. destruct (encode_val_cons v) as [t ->]. simpl. lia. Qed.

Lemma encode_vals_length_ge vs : (length vs <= length (encode_vals vs))%nat.
Proof.
  induction vs as [|v vs IH]; [simpl; lia|].
  rewrite encode_vals_cons, app_length. pose proof (encode_val_length_pos v). simpl. lia.
Qed.

(* ---------- order ---------- *)

Lemma encode_val_cmp v w x y : mval_ok v -> mval_ok w ->
  bytes_cmp (encode_val v ++ x) (encode_val w ++ y) =
  match mval_cmp v w with Eq => bytes_cmp x y | c => c end.
Proof.
  intros Hv Hw. destruct v as [|a|a|a], w as [|b|b|b]; cbn [encode_val mval_cmp mval_flag mval_ok] in *;
    try reflexivity.
  - cbn [app]. rewrite bytes_cmp_cons. apply encode_bytes_cmp_app.
  - cbn [app]. rewrite bytes_cmp_cons.
    rewrite bytes_cmp_app_eqlen' by (now rewrite !encode_int_length).
    now rewrite encode_int_cmp.
  - cbn [app]. rewrite bytes_cmp_cons.
    rewrite bytes_cmp_app_eqlen' by (now rewrite !encode_float_length).
    now rewrite encode_float_cmp.
Qed.

Theorem encode_vals_cmp a b : Forall mval_ok a -> Forall mval_ok b ->
  bytes_cmp (encode_vals a) (encode_vals b) = tuple_cmp a b.
Proof.
  revert b; induction a as [|v a IH]; intros [|w b] Ha Hb.
  - reflexivity.
  - rewrite encode_vals_cons. destruct (encode_val_cons w) as [t ->]. reflexivity.
  - rewrite encode_vals_cons. destruct (encode_val_cons v) as [t ->]. reflexivity.
  - inversion Ha; inversion Hb; subst. rewrite !encode_vals_cons, encode_val_cmp by assumption.
    cbn [tuple_cmp]. destruct (mval_cmp v w); auto.
Qed.

(* tuples of the same length, followed by anything *)
Theorem encode_vals_cmp_app a b x y : length a = length b -> Forall mval_ok a -> Forall mval_ok b ->
  bytes_cmp (encode_vals a ++ x) (encode_vals b ++ y) =
  match tuple_cmp a b with Eq => bytes_cmp x y | c => c end.
Proof.
  revert b; induction a as [|v a IH]; intros [|w b] Hl Ha Hb; try discriminate.
  - reflexivity.
  - inversion Ha; inversion Hb; subst. rewrite !encode_vals_cons, <- !app_assoc, encode_val_cmp by assumption.
    cbn [tuple_cmp]. destruct (mval_cmp v w); auto.
Qed.

(* equality of values up to the sign of zero *)
Lemma mval_cmp_eq v w : mval_ok v -> mval_ok w -> mval_cmp v w = Eq -> mval_norm v = mval_norm w.
Proof.
  intros Hv Hw. destruct v as [|a|a|a], w as [|b|b|b]; cbn [mval_cmp mval_flag mval_norm mval_ok] in *;
    try discriminate; intros E.
  - reflexivity.
  - apply bytes_cmp_eq in E. now subst.
  - apply Z.compare_eq in E. now subst.
  - apply Z.compare_eq in E. f_equal. now apply float_key_inj.
Qed.

Lemma tuple_cmp_eq a b : Forall mval_ok a -> Forall mval_ok b -> tuple_cmp a b = Eq ->
  map mval_norm a = map mval_norm b.
Proof.
  revert b; induction a as [|v a IH]; intros [|w b] Ha Hb E; try discriminate; [reflexivity|].
  inversion Ha; inversion Hb; subst. cbn [tuple_cmp] in E.
  destruct (mval_cmp v w) eqn:C; try discriminate.
  cbn [map]. f_equal; [now apply mval_cmp_eq|now apply IH].
Qed.

(* injectivity of the tuple encoding (up to the sign of zero) *)
Theorem encode_vals_inj a b : Forall mval_ok a -> Forall mval_ok b ->
  encode_vals a = encode_vals b -> map mval_norm a = map mval_norm b.
Proof.
  intros Ha Hb E. apply tuple_cmp_eq; try assumption.
  rewrite <- encode_vals_cmp by assumption. rewrite E. apply bytes_cmp_refl.
Qed.

(* ---------- decoding ---------- *)

Lemma decode_one_encode v r : mval_ok v -> decode_one (encode_val v ++ r) = Ok (r, mval_norm v).
Proof.
  intros H. destruct v as [|a|a|a]; cbn [encode_val app decode_one mval_norm mval_ok] in *.
  - reflexivity.
  - change (bytes_flag =? int_flag) with false. change (bytes_flag =? float_flag) with false.
    change (bytes_flag =? bytes_flag) with true. cbv iota. now rewrite decode_encode_bytes.
  - change (int_flag =? int_flag) with true. cbv iota. now rewrite decode_encode_int.
  - change (float_flag =? int_flag) with false. change (float_flag =? float_flag) with true. cbv iota.
    now rewrite decode_encode_float.
Qed.

Lemma decode_all_fuel_S f b acc : b <> [] ->
  decode_all_fuel (S f) b acc =
  match decode_one b with
  | Ok (r, v) => decode_all_fuel f r (acc ++ [v])
  | Err => Err
  | Panic => Panic
  end.
Proof. destruct b; [congruence|reflexivity]. Qed.

Lemma encode_val_app_nonempty v x : encode_val v ++ x <> [].
Proof. destruct (encode_val_cons v) as [t ->]. discriminate. Qed.

Lemma decode_all_fuel_encode : forall vs f acc, (length vs < f)%nat -> Forall mval_ok vs ->
  decode_all_fuel f (encode_vals vs) acc = Ok (acc ++ map mval_norm vs).
Proof.
  induction vs as [|v vs IH]; intros f acc Hf Hok; (destruct f as [|f]; [simpl in Hf; lia|]).
  - cbn. now rewrite app_nil_r.
  - inversion Hok; subst. rewrite encode_vals_cons.
    rewrite decode_all_fuel_S by apply encode_val_app_nonempty.
    rewrite decode_one_encode by assumption.
    rewrite IH by (try assumption; simpl in Hf; lia).
    rewrite <- app_assoc. reflexivity.
Qed.

Theorem decode_encode_vals vs : vs <> [] -> Forall mval_ok vs ->
  decode_vals (encode_vals vs) = Ok (map mval_norm vs).
Proof.
  intros Hne Hok. unfold decode_vals.
  destruct (encode_vals vs) eqn:E.
  - destruct vs as [|v vs]; [congruence|]. rewrite encode_vals_cons in E.
    now apply encode_val_app_nonempty in E.
  - rewrite <- E. apply (decode_all_fuel_encode vs _ []); [|assumption].
    pose proof (encode_vals_length_ge vs). lia.
Qed.

(* the empty tuple encodes to the empty string, which Decode rejects *)
Lemma decode_vals_empty : encode_vals [] = [] /\ decode_vals [] = Err.
Proof. split; reflexivity. Qed.

(* peek / CutOne *)
Theorem peek_encode v r : peek (encode_val v ++ r) = Ok (length (encode_val v)).
Proof.
  destruct v as [|a|a|a]; cbn [encode_val app peek].
  - reflexivity.
  - change (bytes_flag =? nil_flag) with false. change ((bytes_flag =? int_flag) || (bytes_flag =? float_flag)) with false.
    change (bytes_flag =? bytes_flag) with true. cbv iota. rewrite peek_bytes_encode. reflexivity.
  - change (int_flag =? nil_flag) with false. change ((int_flag =? int_flag) || (int_flag =? float_flag)) with true.
    cbv iota. cbn [length]. now rewrite encode_int_length.
  - change (float_flag =? nil_flag) with false. change ((float_flag =? int_flag) || (float_flag =? float_flag)) with true.
    cbv iota. cbn [length]. now rewrite encode_float_length.
Qed.

Theorem cut_one_encode v r : cut_one (encode_val v ++ r) = Ok (encode_val v, r).
Proof.
  unfold cut_one. rewrite peek_encode.
  destruct (Nat.ltb_spec (length (encode_val v ++ r)) (length (encode_val v))) as [H|H];
    [rewrite app_length in H; lia|].
  rewrite firstn_app, Nat.sub_diag, firstn_O, app_nil_r, firstn_all.
  rewrite skipn_app, Nat.sub_diag, skipn_all. reflexivity.
Qed.

(* size of a versioned-key style tuple: used to discharge the u16 length guard *)
Lemma encode_val_bytes_length b : length (encode_val (MBytes b)) = (1 + 9 * (length b / 8 + 1))%nat.
Proof. cbn [encode_val length]. now rewrite encode_bytes_length. Qed.
Lemma encode_val_int_length z : length (encode_val (MInt z)) = 9%nat.
Proof. cbn [encode_val length]. now rewrite encode_int_length. Qed.
Lemma encode_val_float_length f : length (encode_val (MFloat f)) = 9%nat.
Proof. cbn [encode_val length]. now rewrite encode_float_length. Qed.
