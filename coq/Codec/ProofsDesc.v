(* Codec/ProofsDesc.v — C12: the descending variants (EncodeBytesDesc / DecodeBytesDesc, EncodeUintDesc,
   EncodeFloatDesc): round trip and REVERSED order. (Unused by rockredis itself; exported API of the codec.) *)
From ZV Require Import Common.Bytes Common.BytesFacts Codec.Consts Codec.MemCmp Codec.Keys Codec.Spec
  Codec.ProofsNum Codec.ProofsBytes Codec.ProofsRange.
From Coq Require Import ZifyN ZifyNat ZifyBool Lia.
Open Scope N_scope.

Lemma reverse_bytes_involutive d : bytes_ok d = true -> reverse_bytes (reverse_bytes d) = d.
Proof.
  induction d as [|x d IH]; [reflexivity|]. unfold bytes_ok. cbn [forallb map reverse_bytes]. intros H.
  apply andb_true_iff in H as [Hx Hd]. unfold byte_ok in Hx. apply N.ltb_lt in Hx.
  f_equal; [lia|now apply IH].
Qed.

Lemma reverse_bytes_app a b : reverse_bytes (a ++ b) = reverse_bytes a ++ reverse_bytes b.
Proof. apply map_app. Qed.

(* complementing every byte reverses the comparison, provided it is decided at a differing position *)
Lemma reverse_bytes_cmp : forall p q, bytes_ok p = true -> bytes_ok q = true ->
  ~ is_prefix p q -> ~ is_prefix q p ->
  bytes_cmp (reverse_bytes p) (reverse_bytes q) = bytes_cmp q p.
Proof.
  induction p as [|x p IH]; intros [|y q] Hp Hq Np Nq.
  - exfalso. apply Np. now exists [].
  - exfalso. apply Np. now exists (y :: q).
  - exfalso. apply Nq. now exists (x :: p).
  - unfold bytes_ok in Hp, Hq. cbn [forallb] in Hp, Hq.
    apply andb_true_iff in Hp as [Hx Hp]. apply andb_true_iff in Hq as [Hy Hq].
    unfold byte_ok in Hx, Hy. apply N.ltb_lt in Hx. apply N.ltb_lt in Hy.
    cbn [reverse_bytes map bytes_cmp].
    destruct (N.compare_spec y x) as [E|E|E].
    + subst y. rewrite N.compare_refl. apply IH; try assumption.
      * intros [s ->]. apply Np. now exists s.
      * intros [s ->]. apply Nq. now exists s.
    + destruct (N.compare_spec (255 - x) (255 - y)); [lia|reflexivity|lia].
    + destruct (N.compare_spec (255 - x) (255 - y)); [lia|lia|reflexivity].
Qed.

Lemma encode_bytes_not_prefix a b : a <> b -> ~ is_prefix (encode_bytes a) (encode_bytes b).
Proof.
  intros Hne [s E]. apply Hne. symmetry in E.
  apply (encode_bytes_app_inj a b s []). now rewrite app_nil_r.
Qed.

Theorem encode_bytes_desc_cmp a b : bytes_ok a = true -> bytes_ok b = true ->
  bytes_cmp (encode_bytes_desc a) (encode_bytes_desc b) = bytes_cmp b a.
Proof.
  intros Ha Hb. unfold encode_bytes_desc.
  destruct (bytes_cmp b a) eqn:C.
  - apply bytes_cmp_eq in C. subst. apply bytes_cmp_refl.
  - rewrite reverse_bytes_cmp; try (now apply encode_bytes_ok).
    + now rewrite encode_bytes_cmp.
    + apply encode_bytes_not_prefix. intros ->. now rewrite bytes_cmp_refl in C.
    + apply encode_bytes_not_prefix. intros ->. now rewrite bytes_cmp_refl in C.
  - rewrite reverse_bytes_cmp; try (now apply encode_bytes_ok).
    + now rewrite encode_bytes_cmp.
    + apply encode_bytes_not_prefix. intros ->. now rewrite bytes_cmp_refl in C.
    + apply encode_bytes_not_prefix. intros ->. now rewrite bytes_cmp_refl in C.
Qed.

(* decoding in reverse mode *)
Lemma decode_bytes_fuel_encode_desc : forall d f r acc, (length d < f)%nat ->
  decode_bytes_fuel f true (reverse_bytes (encode_bytes d) ++ r) acc = Ok (r, reverse_bytes (acc ++ reverse_bytes d)).
Proof.
  intros d; pattern d; apply bytes8_ind; clear d; [intros d Hl|intros a1 a2 a3 a4 a5 a6 a7 a8 d IH]; intros f r acc Hf.
  - destruct f as [|f]; [lia|]. rewrite encode_bytes_short by assumption.
    destruct d as [|b1 [|b2 [|b3 [|b4 [|b5 [|b6 [|b7 [|b8 d]]]]]]]]; simpl in Hl; try lia;
      cbn [decode_bytes_fuel]; rewrite group_size_eq; cbn; rewrite ?app_nil_r; reflexivity.
  - destruct f as [|f]; [simpl in Hf; lia|]. rewrite encode_bytes_group.
    cbn [reverse_bytes map]. cbn [decode_bytes_fuel]. rewrite group_size_eq.
    cbn [app length Nat.add Nat.ltb Nat.leb firstn skipn nth].
    change (255 - 255) with 0. change (enc_group_size <? 0) with false.
    change (N.to_nat 0) with 0%nat. change (0 =? 0) with true. cbn [Nat.sub firstn]. cbv iota.
    fold (reverse_bytes (encode_bytes d)).
    rewrite IH by (simpl in Hf; lia).
    rewrite <- app_assoc. reflexivity.
Qed.

Theorem decode_encode_bytes_desc d r : bytes_ok d = true ->
  decode_bytes true (encode_bytes_desc d ++ r) = Ok (r, d).
Proof.
  intros Hd. unfold decode_bytes, encode_bytes_desc. rewrite decode_bytes_fuel_encode_desc.
  - cbn [app]. now rewrite reverse_bytes_involutive.
  - rewrite app_length. unfold reverse_bytes. rewrite map_length, encode_bytes_length.
    pose proof (Nat.div_mod (length d) 8). pose proof (Nat.mod_upper_bound (length d) 8). lia.
Qed.

(* uint64 / float64, descending *)
Theorem decode_encode_uint_desc u r : u < two64 -> decode_uint_desc (encode_uint_desc u ++ r) = Ok (r, u).
Proof.
  intros H. unfold decode_uint_desc, encode_uint_desc.
  assert (Hn : not64 u < two64) by (rewrite not64_spec by assumption; unfold mask64, two64 in *; lia).
  rewrite app_length, be_length. cbn [Nat.ltb Nat.leb Nat.add].
  rewrite firstn_be_app, skipn_be_app, from_be_be by (rewrite <- two64_pow; assumption).
  rewrite (not64_spec (not64 u)) by assumption. rewrite not64_spec by assumption.
  do 2 f_equal. unfold mask64, two64 in *. lia.
Qed.

Theorem encode_uint_desc_cmp u w : u < two64 -> w < two64 ->
  bytes_cmp (encode_uint_desc u) (encode_uint_desc w) = (w ?= u).
Proof.
  intros Hu Hw. unfold encode_uint_desc.
  rewrite be_cmp_exact by (rewrite <- two64_pow, not64_spec by assumption; unfold mask64, two64 in *; lia).
  rewrite !not64_spec by assumption.
  destruct (N.compare_spec w u); [apply N.compare_eq_iff|apply N.compare_lt_iff|apply N.compare_gt_iff];
    unfold mask64, two64 in *; lia.
Qed.

Theorem decode_encode_float_desc u r : float_ok u -> decode_float_desc (encode_float_desc u ++ r) = Ok (r, float_norm u).
Proof.
  intros H. unfold decode_float_desc, encode_float_desc.
  rewrite decode_encode_uint_desc by now apply float_to_cmp_lt. now rewrite cmp_to_float_to_cmp.
Qed.

Theorem encode_float_desc_cmp a b : float_ok a -> float_ok b ->
  bytes_cmp (encode_float_desc a) (encode_float_desc b) = (float_key b ?= float_key a)%Z.
Proof.
  intros Ha Hb. unfold encode_float_desc. rewrite encode_uint_desc_cmp by now apply float_to_cmp_lt.
  now apply float_to_cmp_compare.
Qed.
