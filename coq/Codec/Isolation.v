(* Codec/Isolation.v — C12 clause (d): an operation on one (type, table, key) leaves every other one untouched,
   down to the engine's BYTE keys.

   The data builder's Map model (coq/Data/Map.v, MapZ.v, MapL.v, MapK.v, Run.v; imported read-only) keeps the
   engine content curried: one record per (type, "table:key"), holding the meta record and the element keys
   (generation, sub-key) / (generation, score, member) / (generation, sequence).  Its structured keys are made
   explicit here ([mkey]), embedded into this group's key universe ([embed : mkey -> ekey], with the versioned
   collection key of the wait_compact policy), and
     1. the byte encoding of Map's structured keys is injective on the keys Map ever produces
        ([mkey_bytes_inj], a corollary of [ekey_inj]);
     2. hence the byte-keyed engine map is a well-defined function of the structured one
        ([engine_functional], [rekey_lookup]);
     3. every Map command leaves the record of every (type, "table:key") it does not address unchanged
        ([map_step_frame], all commands of Data.Run.cmd, both policies);
     4. hence the value under any engine byte key owned by another (type, table, key) is unchanged
        ([engine_frame]).
   The float64 image of Map's (integer-valued / infinite) scores is a Section variable with its two
   properties as explicit hypotheses. Table key counters are not part of Map (see its header). *)
From ZV Require Import Common.Bytes Common.BytesFacts Codec.Consts Codec.MemCmp Codec.Keys Codec.Spec Codec.Proofs.
From ZV Require Data.Base Data.BaseFacts Data.Map Data.MapZ Data.MapL Data.MapK Data.Run.
From Coq Require Import ZifyN ZifyNat ZifyBool Lia.
Open Scope N_scope.

(* ---------- Map's structured keys ---------- *)

Inductive mkey : Type :=
| MKMeta (ty : N) (raw : bytes)                                  (* size / meta record of a collection *)
| MKElem (dt : N) (raw : bytes) (ver : Z) (sub : bytes)           (* hash field / set member / zset member *)
| MKScore (raw : bytes) (ver : Z) (sc : Data.Base.score) (m : bytes)
| MKSeq (raw : bytes) (ver : Z) (seq : Z)
| MKKV (raw : bytes).

(* the (type, "table:key") a structured key belongs to; the type is the DATA type of the collection *)
Definition meta_owner (ty : N) : N :=
  if ty =? hsize_type then hash_type else if ty =? ssize_type then set_type
  else if ty =? zsize_type then zset_type else if ty =? lmeta_type then list_type else ty.
Definition mkey_owner (k : mkey) : N * bytes :=
  match k with
  | MKMeta ty raw => (meta_owner ty, raw)
  | MKElem dt raw _ _ => (dt, raw)
  | MKScore raw _ _ _ => (zset_type, raw)
  | MKSeq raw _ _ => (list_type, raw)
  | MKKV raw => (kv_type, raw)
  end.

Lemma split_table_eq key : Data.Base.split_table key =
  match split_first table_start_sep key with Some p => Some p | None => None end.
Proof.
  induction key as [|x r IH]; [reflexivity|]. cbn [Data.Base.split_table split_first].
  change Data.Consts.table_sep with table_start_sep.
  destruct (x =? table_start_sep); [reflexivity|]. rewrite IH.
  destruct (split_first table_start_sep r) as [[a b]|]; reflexivity.
Qed.

Lemma split_table_spec key t k : Data.Base.split_table key = Some (t, k) ->
  key = pack_redis_key t k /\ no_sep t.
Proof.
  rewrite split_table_eq. destruct (split_first table_start_sep key) as [[a b]|] eqn:E; [|discriminate].
  intros H. injection H as <- <-. now apply split_first_spec.
Qed.

Lemma key_ok_spec raw : Data.Base.key_ok raw = true ->
  exists t k, Data.Base.split_table raw = Some (t, k) /\ raw = pack_redis_key t k /\ no_sep t /\
              N.of_nat (length k) <= max_key_size.
Proof.
  unfold Data.Base.key_ok. destruct (Data.Base.split_table raw) as [[t k]|] eqn:E; [|discriminate].
  intros H. apply andb_true_iff in H as [_ H]. apply Z.leb_le in H.
  destruct (split_table_spec raw t k E) as [-> Hn]. exists t, k. repeat split; auto.
  unfold Data.Base.blen, pack_redis_key in H. rewrite app_length in H. cbn [length] in H.
  unfold Data.Consts.max_key_size in H. unfold max_key_size. lia.
Qed.

Section Embedding.
  Variable compact : bool.
  (* the float64 bit pattern of a Map score *)
  Variable score_bits : Data.Base.score -> N.
  (* the scores that are float64 values (Map's SFin z is an integer-valued double: |z| within the exact range) *)
  Variable score_dom : Data.Base.score -> Prop.
  Hypothesis score_bits_ok : forall s, score_dom s -> float_ok (score_bits s).
  Hypothesis score_bits_inj : forall a b, score_dom a -> score_dom b ->
    float_norm (score_bits a) = float_norm (score_bits b) -> a = b.

  (* GetCollVersionKey / encodeToVersionKey: the collection-key slot of the element keys *)
  Definition vkey (ver : Z) (rk : bytes) : bytes := if compact then encode_ver_key ver rk else rk.

  Definition embed (k : mkey) : option ekey :=
    let raw := match k with MKMeta _ r | MKElem _ r _ _ | MKScore r _ _ _ | MKSeq r _ _ | MKKV r => r end in
    match Data.Base.split_table raw with
    | None => None
    | Some (t, rk) =>
        Some match k with
             | MKMeta ty _ => KMeta ty t rk
             | MKElem dt _ ver sub => KColl dt t (vkey ver rk) sub
             | MKScore _ ver sc m => KZScore t (vkey ver rk) (score_bits sc) m
             | MKSeq _ ver seq => KList t (vkey ver rk) seq
             | MKKV _ => KKV t rk
             end
    end.

  (* the keys Map produces: a well-formed redis key, the generation 0 under local_deletion, int64 numbers *)
  Definition mkey_ok (k : mkey) : Prop :=
    match k with
    | MKMeta ty raw => is_meta_type ty = true /\ Data.Base.key_ok raw = true
    | MKElem dt raw ver _ => is_coll_type dt = true /\ Data.Base.key_ok raw = true /\ int64_ok ver /\ (compact = false -> ver = 0%Z)
    | MKScore raw ver sc _ => Data.Base.key_ok raw = true /\ int64_ok ver /\ (compact = false -> ver = 0%Z) /\ score_dom sc
    | MKSeq raw ver seq => Data.Base.key_ok raw = true /\ int64_ok ver /\ (compact = false -> ver = 0%Z) /\ int64_ok seq
    | MKKV raw => Data.Base.key_ok raw = true
    end.

  Lemma vkey_len16 ver rk : N.of_nat (length rk) <= max_key_size -> len16 (vkey ver rk).
  Proof. intros H. unfold vkey. destruct compact; [now apply verkey_len16|now apply rawkey_len16]. Qed.

  Lemma vkey_inj ver rk ver' rk' : int64_ok ver -> int64_ok ver' ->
    (compact = false -> ver = 0%Z) -> (compact = false -> ver' = 0%Z) ->
    vkey ver rk = vkey ver' rk' -> ver = ver' /\ rk = rk'.
  Proof.
    intros Hv Hv' H0 H0' E. unfold vkey in E. destruct compact.
    - assert (D : decode_ver_key (encode_ver_key ver rk) = decode_ver_key (encode_ver_key ver' rk')) by now rewrite E.
      rewrite !decode_ver_key_encode in D by assumption. injection D as -> ->. auto.
    - rewrite H0, H0' by reflexivity. auto.
  Qed.

  Lemma embed_wf k x : mkey_ok k -> embed k = Some x -> wf_ekey x.
  Proof.
    intros Hk E. unfold embed in E.
    destruct k; cbn [mkey_ok] in Hk.
    - destruct Hk as [Hty Hk]. destruct (key_ok_spec raw Hk) as (t & rk & Hs & _ & Hn & Hl). rewrite Hs in E.
      injection E as <-. cbn. auto.
    - destruct Hk as (Hdt & Hk & Hv & _). destruct (key_ok_spec raw Hk) as (t & rk & Hs & _ & Hn & Hl). rewrite Hs in E.
      injection E as <-. cbn. repeat split; auto. now apply vkey_len16.
    - destruct Hk as (Hk & Hv & _ & Hd). destruct (key_ok_spec raw Hk) as (t & rk & Hs & _ & Hn & Hl). rewrite Hs in E.
      injection E as <-. cbn. split; auto.
    - destruct Hk as (Hk & Hv & _ & Hq). destruct (key_ok_spec raw Hk) as (t & rk & Hs & _ & Hn & Hl). rewrite Hs in E.
      injection E as <-. cbn. split; [assumption|]. split; [now apply vkey_len16|assumption].
    - destruct (key_ok_spec raw Hk) as (t & rk & Hs & _ & Hn & Hl). rewrite Hs in E.
      injection E as <-. cbn. auto.
  Qed.

  Lemma embed_total k : mkey_ok k -> exists x, embed k = Some x.
  Proof.
    intros Hk. unfold embed.
    assert (Hr : Data.Base.key_ok (match k with MKMeta _ r | MKElem _ r _ _ | MKScore r _ _ _ | MKSeq r _ _ | MKKV r => r end) = true)
      by (destruct k; cbn in Hk; tauto).
    destruct (key_ok_spec _ Hr) as (t & rk & Hs & _). rewrite Hs. eauto.
  Qed.

  (* the embedding itself is injective (up to nothing: the normal form of the score decides the score) *)
  Lemma embed_inj a b x y : mkey_ok a -> mkey_ok b -> embed a = Some x -> embed b = Some y ->
    ekey_norm x = ekey_norm y -> a = b.
  Proof.
    intros Ha Hb Ea Eb E. unfold embed in Ea, Eb.
    destruct a as [ty raw|dt raw ver sub|raw ver sc m|raw ver seq|raw],
             b as [ty' raw'|dt' raw' ver' sub'|raw' ver' sc' m'|raw' ver' seq'|raw']; cbn [mkey_ok] in Ha, Hb;
    repeat match goal with H : _ /\ _ |- _ => destruct H end;
    match goal with
    | Hk : Data.Base.key_ok raw = true, Hk' : Data.Base.key_ok raw' = true |- _ =>
        destruct (key_ok_spec raw Hk) as (t & rk & Hs & Hp & _); destruct (key_ok_spec raw' Hk') as (t' & rk' & Hs' & Hp' & _)
    end;
    rewrite Hs in Ea; rewrite Hs' in Eb; injection Ea as <-; injection Eb as <-; cbn [ekey_norm] in E; try discriminate.
    - injection E as -> -> ->. subst. reflexivity.
    - injection E as -> -> Ev ->. apply vkey_inj in Ev; try assumption. destruct Ev as [-> ->]. subst. reflexivity.
    - injection E as -> Ev Es ->. apply vkey_inj in Ev; try assumption. destruct Ev as [-> ->].
      apply score_bits_inj in Es; try assumption. subst. reflexivity.
    - injection E as -> Ev ->. apply vkey_inj in Ev; try assumption. destruct Ev as [-> ->]. subst. reflexivity.
    - injection E as -> ->. subst. reflexivity.
  Qed.

  (* the byte key of a structured key *)
  Definition mkey_bytes (k : mkey) : option bytes := option_map encode_ekey (embed k).

  (* 1. MAIN: the byte encoding of Map's structured keys is injective on the keys Map produces *)
  Theorem mkey_bytes_inj a b ka : mkey_ok a -> mkey_ok b ->
    mkey_bytes a = Some ka -> mkey_bytes b = Some ka -> a = b.
  Proof.
    intros Ha Hb Ea Eb. unfold mkey_bytes in *.
    destruct (embed a) as [x|] eqn:Xa; [|discriminate]. destruct (embed b) as [y|] eqn:Xb; [|discriminate].
    cbn in Ea, Eb. injection Ea as Ea. injection Eb as Eb.
    apply (embed_inj a b x y); try assumption.
    apply ekey_inj; [now apply (embed_wf a)|now apply (embed_wf b)|congruence].
  Qed.

  (* 2. re-keying an association list by an encoding that is injective on its keys preserves every lookup *)
  Lemma rekey_lookup {K V} (eqb : K -> K -> bool) (eqb_eq : forall a b, eqb a b = true <-> a = b)
        (f : K -> bytes) (m : list (K * V)) (k : K) :
    (forall k', In k' (map fst m) -> f k' = f k -> k' = k) ->
    Data.Base.aget bytes_eqb (f k) (map (fun kv => (f (fst kv), snd kv)) m) = Data.Base.aget eqb k m.
  Proof.
    induction m as [|[k0 v0] m IH]; intros Hinj; [reflexivity|]. cbn [map Data.Base.aget fst snd].
    destruct (eqb k k0) eqn:E.
    - apply eqb_eq in E. subst. now rewrite bytes_eqb_refl.
    - destruct (bytes_eqb (f k) (f k0)) eqn:Eb.
      + apply bytes_eqb_eq in Eb. assert (k0 = k) by (apply Hinj; [left; reflexivity|now symmetry]). subst.
        assert (eqb k k = true) by now apply eqb_eq. congruence.
      + apply IH. intros k' Hin. apply Hinj. now right.
  Qed.
End Embedding.

(* ---------- 3. the frame property of the Map model ---------- *)

Import Data.Run.
Open Scope N_scope.

(* the (type, "table:key") records a command addresses *)
Definition kcmd_keys (c : Data.MapK.kcmd) : list bytes :=
  match c with
  | Data.MapK.KCset k _ | Data.MapK.KCsetnx k _ | Data.MapK.KCgetset k _ | Data.MapK.KCincrby k _
  | Data.MapK.KCappend k _ | Data.MapK.KCsetrange k _ _
  | Data.MapK.KCsetex k _ _ | Data.MapK.KCexpire k _ | Data.MapK.KCpersist k | Data.MapK.KCsetopt k _ _ _ _ => [k]
  | Data.MapK.KCdel ks => ks
  | Data.MapK.KCinvalid => []
  end.
Definition ctype_tag (t : ctype) : N :=
  match t with TH => hash_type | TS => set_type | TZ => zset_type | TL => list_type end.
Definition cmd_targets (c : cmd) : list (N * bytes) :=
  match c with
  | CHset _ key _ _ | CHmset key _ | CHdel key _ | CHincrby key _ _ | CHclear key => [(hash_type, key)]
  | CSadd key _ | CSrem key _ | CSpop key _ | CSclear key => [(set_type, key)]
  | CZ key _ => [(zset_type, key)]
  | CL key _ => [(list_type, key)]
  | CExpire t key _ | CPersist t key => [(ctype_tag t, key)]
  | CK kc => map (fun k => (kv_type, k)) (kcmd_keys kc)
  | _ => []
  end.

(* the stored record of a (type, "table:key"): the collection record with the ExpireAt of its header *)
Definition rec_hash (s : mstate) (k : bytes) := alook (x0 Data.Map.empty_coll) k (m_hash s).
Definition rec_set (s : mstate) (k : bytes) := alook (x0 Data.Map.empty_coll) k (m_set s).
Definition rec_zset (s : mstate) (k : bytes) := alook (x0 Data.MapZ.empty_zcoll) k (m_zset s).
Definition rec_list (s : mstate) (k : bytes) := alook (x0 Data.MapL.empty_lcoll) k (m_list s).
Definition rec_kv (s : mstate) (k : bytes) := Data.Base.aget bytes_eqb k (m_kv s).

Lemma alook_aput_ne {V} (d : V) k k' v m : k <> k' -> alook d k' (Data.Base.aput bytes_eqb k v m) = alook d k' m.
Proof. intros H. unfold alook. now rewrite (Data.BaseFacts.aget_aput_ne bytes_eqb bytes_eqb_eq). Qed.

Lemma aupd_frame {V R} (d : V) k k' (f : V -> V * R) m : k <> k' -> alook d k' (fst (aupd d k f m)) = alook d k' m.
Proof. intros H. unfold aupd. destruct (f (alook d k m)) as [v r]. cbn [fst]. now apply alook_aput_ne. Qed.

Lemma let_pair_fst {A B C} (p : A * B) (g : A -> C) : fst (let '(m, r) := p in (g m, r)) = g (fst p).
Proof. destruct p; reflexivity. Qed.

Lemma kdel_fold_frame {V} ks k' (m : list (bytes * V)) : ~ In k' ks ->
  Data.Base.aget bytes_eqb k' (fold_left (fun m k => if Data.Base.key_ok k then Data.Base.adel bytes_eqb k m else m) ks m) =
  Data.Base.aget bytes_eqb k' m.
Proof.
  revert m; induction ks as [|k ks IH]; intros m Hn; [reflexivity|]. cbn [fold_left].
  rewrite IH by (intros H; apply Hn; now right).
  destruct (Data.Base.key_ok k); [|reflexivity].
  apply (Data.BaseFacts.aget_adel_ne bytes_eqb bytes_eqb_eq). intros ->. apply Hn. now left.
Qed.

(* every string command writes (aput / adel) only under its own key(s); the proof does not depend on what
   the commands compute, only on where they write *)
Lemma kstep_frame compact ts kc m k' : ~ In k' (kcmd_keys kc) ->
  Data.Base.aget bytes_eqb k' (fst (Data.MapK.kstep compact ts kc m)) = Data.Base.aget bytes_eqb k' m.
Proof.
  intros Hn. destruct kc; cbn [kcmd_keys] in Hn; cbn [Data.MapK.kstep]; cbv zeta;
    try (assert (Hne : k <> k') by (intros ->; apply Hn; now left));
    try (cbn [fst]; apply kdel_fold_frame; intros H; apply Hn; now apply (proj1 (Data.BaseFacts.dedup_nil_In ks k')));
    repeat match goal with
           | |- context [match ?x with _ => _ end] => destruct x
           end;
    cbn [fst]; try reflexivity; now apply (Data.BaseFacts.aget_aput_ne bytes_eqb bytes_eqb_eq).
Qed.

(* MAIN (Map level): every command leaves every record it does not address unchanged — all commands
   (incl. *EXPIRE / *PERSIST), both policies, every clock *)
Theorem map_step_frame compact now ts c s :
  let s' := fst (map_step compact now ts c s) in
  (forall k, ~ In (hash_type, k) (cmd_targets c) -> rec_hash s' k = rec_hash s k) /\
  (forall k, ~ In (set_type, k) (cmd_targets c) -> rec_set s' k = rec_set s k) /\
  (forall k, ~ In (zset_type, k) (cmd_targets c) -> rec_zset s' k = rec_zset s k) /\
  (forall k, ~ In (list_type, k) (cmd_targets c) -> rec_list s' k = rec_list s k) /\
  (forall k, ~ In (kv_type, k) (cmd_targets c) -> rec_kv s' k = rec_kv s k).
Proof.
  cbv zeta. unfold rec_hash, rec_set, rec_zset, rec_list, rec_kv.
  destruct c; cbn [map_step cmd_targets ctype_tag];
    repeat match goal with
           | |- context [if negb (Data.Base.key_ok ?k) then _ else _] => destruct (negb (Data.Base.key_ok k))
           | t : ctype |- _ => destruct t
           end;
    rewrite ?let_pair_fst; cbn [fst m_hash m_set m_zset m_list m_kv ctype_tag];
    repeat split; intros k0 Hn; try reflexivity;
    try (apply aupd_frame; intros ->; apply Hn; left; reflexivity).
  apply kstep_frame. intros H. apply Hn. apply in_map_iff. eauto.
Qed.

(* ---------- 4. down to the engine's byte keys ---------- *)

(* what the engine stores under a structured key (the value encodings are not the subject here); the
   ExpireAt second of the value header travels with the meta record / the string value *)
Inductive cell : Type :=
| CMeta (m : Data.Map.cmeta) (exp : Z)
| CLMeta (m : Data.MapL.lmeta) (exp : Z)
| CKV (v : Data.MapK.kvrec)
| CBytes (b : bytes)
| CScore (sc : Data.Base.score)
| CUnit.

Definition zimem (v : Z) (sc : Data.Base.score) (m : bytes) (idx : list Data.MapZ.zikey) : bool :=
  Data.MapZ.imem (v, (sc, m)) idx.

Definition cell_of (s : mstate) (k : mkey) : option cell :=
  match k with
  | MKMeta ty raw =>
      if ty =? hsize_type then option_map (fun m => CMeta m (x_exp (rec_hash s raw))) (Data.Map.c_meta (x_r (rec_hash s raw)))
      else if ty =? ssize_type then option_map (fun m => CMeta m (x_exp (rec_set s raw))) (Data.Map.c_meta (x_r (rec_set s raw)))
      else if ty =? zsize_type then
        option_map (fun m => CMeta m (x_exp (rec_zset s raw))) (Data.Map.c_meta (Data.MapZ.z_c (x_r (rec_zset s raw))))
      else if ty =? lmeta_type then option_map (fun m => CLMeta m (x_exp (rec_list s raw))) (Data.MapL.l_meta (x_r (rec_list s raw)))
      else None
  | MKElem dt raw ver sub =>
      if dt =? hash_type then option_map CBytes (Data.Map.eget ver sub (Data.Map.c_elems (x_r (rec_hash s raw))))
      else if dt =? set_type then option_map (fun _ => CUnit) (Data.Map.eget ver sub (Data.Map.c_elems (x_r (rec_set s raw))))
      else if dt =? zset_type then
        option_map CScore (Data.Map.eget ver sub (Data.Map.c_elems (Data.MapZ.z_c (x_r (rec_zset s raw)))))
      else None
  | MKScore raw ver sc m => if zimem ver sc m (Data.MapZ.z_index (x_r (rec_zset s raw))) then Some CUnit else None
  | MKSeq raw ver seq => option_map CBytes (Data.MapL.lget ver seq (Data.MapL.l_elems (x_r (rec_list s raw))))
  | MKKV raw => option_map CKV (rec_kv s raw)
  end.

(* the content of a structured key depends only on the record of its owner *)
Theorem cell_frame compact now ts c s k : ~ In (mkey_owner k) (cmd_targets c) ->
  cell_of (fst (map_step compact now ts c s)) k = cell_of s k.
Proof.
  intros Hn. destruct (map_step_frame compact now ts c s) as (Fh & Fs & Fz & Fl & Fk).
  destruct k as [ty raw|dt raw ver sub|raw ver sc m|raw ver seq|raw]; cbn [cell_of mkey_owner] in *.
  - unfold meta_owner in Hn.
    destruct (ty =? hsize_type); [now rewrite Fh|].
    destruct (ty =? ssize_type); [now rewrite Fs|].
    destruct (ty =? zsize_type); [now rewrite Fz|].
    destruct (ty =? lmeta_type); [now rewrite Fl|reflexivity].
  - destruct (N.eqb_spec dt hash_type) as [->|]; [now rewrite Fh|].
    destruct (N.eqb_spec dt set_type) as [->|]; [now rewrite Fs|].
    destruct (N.eqb_spec dt zset_type) as [->|]; [now rewrite Fz|reflexivity].
  - now rewrite Fz.
  - now rewrite Fl.
  - now rewrite Fk.
Qed.

Section Engine.
  Variable compact : bool.
  Variable score_bits : Data.Base.score -> N.
  Variable score_dom : Data.Base.score -> Prop.
  Hypothesis score_bits_ok : forall s, score_dom s -> float_ok (score_bits s).
  Hypothesis score_bits_inj : forall a b, score_dom a -> score_dom b ->
    float_norm (score_bits a) = float_norm (score_bits b) -> a = b.

  (* the engine as a relation from BYTE keys to contents: the image of the structured map under the codec *)
  Definition engine (s : mstate) (b : bytes) (v : option cell) : Prop :=
    exists k, mkey_ok compact score_dom k /\ mkey_bytes compact score_bits k = Some b /\ cell_of s k = v.

  (* it is a function: two structured keys with the same bytes are the same key *)
  Theorem engine_functional s b v v' : engine s b v -> engine s b v' -> v = v'.
  Proof.
    intros (k & Hk & Eb & <-) (k' & Hk' & Eb' & <-).
    now rewrite (mkey_bytes_inj compact score_bits score_dom score_bits_ok score_bits_inj k k' b Hk Hk' Eb Eb').
  Qed.

  (* every structured key has a byte key *)
  Theorem engine_total s k : mkey_ok compact score_dom k -> exists b, engine s b (cell_of s k).
  Proof.
    intros Hk. destruct (embed_total compact score_bits score_dom k Hk) as [x Ex].
    exists (encode_ekey x). exists k. unfold mkey_bytes. rewrite Ex. auto.
  Qed.

  (* MAIN (clause (d)): a command leaves the content under every engine BYTE key that belongs to another
     (type, table:key) unchanged — the byte key's owner is well defined by [mkey_bytes_inj] *)
  Theorem engine_frame now ts c s b v k : mkey_ok compact score_dom k -> mkey_bytes compact score_bits k = Some b ->
    ~ In (mkey_owner k) (cmd_targets c) ->
    engine s b v -> engine (fst (map_step compact now ts c s)) b v.
  Proof.
    intros Hk Eb Hn (k' & Hk' & Eb' & <-).
    assert (k' = k) by (apply (mkey_bytes_inj compact score_bits score_dom score_bits_ok score_bits_inj k' k b); assumption). subst k'.
    exists k. repeat split; try assumption. now apply cell_frame.
  Qed.

  (* and conversely nothing appears under such a key *)
  Theorem engine_frame_rev now ts c s b v k : mkey_ok compact score_dom k -> mkey_bytes compact score_bits k = Some b ->
    ~ In (mkey_owner k) (cmd_targets c) ->
    engine (fst (map_step compact now ts c s)) b v -> engine s b v.
  Proof.
    intros Hk Eb Hn (k' & Hk' & Eb' & <-).
    assert (k' = k) by (apply (mkey_bytes_inj compact score_bits score_dom score_bits_ok score_bits_inj k' k b); assumption). subst k'.
    exists k. repeat split; try assumption. symmetry. now apply cell_frame.
  Qed.
End Engine.

(* ---------- multi-key reads are slot-wise single-key reads ---------- *)
(* MGET k1 .. kn: every reply slot is the single-key GET of exactly that argument (nil where GET refuses the
   key); EXISTS k1 .. kn (n <> 1) counts exactly the arguments whose single-key EXISTS says 1 *)
Theorem mget_slotwise compact now ks m :
  Data.MapK.kquery compact now (Data.MapK.KQmget ks) m =
  Data.Base.RArr (map (fun k => match Data.MapK.kquery compact now (Data.MapK.KQget k) m with
                                | Data.Base.RErr => Data.Base.RNil
                                | r => r
                                end) ks).
Proof.
  cbn [Data.MapK.kquery]. f_equal. apply map_ext. intros k.
  destruct (Data.Base.key_ok k); cbn [negb]; [|reflexivity].
  destruct (Data.MapK.kget compact now k m); reflexivity.
Qed.

Theorem exists_slotwise compact now ks m : length ks <> 1%nat ->
  Data.MapK.kquery compact now (Data.MapK.KQexists ks) m =
  Data.Base.RInt (Z.of_nat (length (filter (fun k =>
    match Data.MapK.kquery compact now (Data.MapK.KQexists [k]) m with Data.Base.RInt 1 => true | _ => false end) ks))).
Proof.
  intros Hl. cbn [Data.MapK.kquery].
  assert (E : forall k, (Data.Base.key_ok k && match Data.MapK.kget compact now k m with Some _ => true | None => false end)%bool =
                        match (if negb (Data.Base.key_ok k) then Data.Base.RErr
                               else Data.Base.rbool match Data.MapK.kget compact now k m with Some _ => true | None => false end) with
                        | Data.Base.RInt 1 => true | _ => false end).
  { intros k. destruct (Data.Base.key_ok k); cbn [negb andb]; [|reflexivity].
    destruct (Data.MapK.kget compact now k m); reflexivity. }
  destruct ks as [|k0 [|k1 r]]; [reflexivity|cbn in Hl; congruence|].
  do 3 f_equal. apply filter_ext. exact E.
Qed.

(* non-vacuity of the hypotheses on the score image: they hold for the float64 patterns of -inf, -1, 0, 1, +inf *)
Definition ex_score_dom (s : Data.Base.score) : Prop :=
  match s with Data.Base.SFin z => (-1 <= z <= 1)%Z | _ => True end.
Definition ex_score_bits (s : Data.Base.score) : N :=
  match s with
  | Data.Base.SNInf => 18442240474082181120
  | Data.Base.SPInf => 9218868437227405312
  | Data.Base.SFin z => if (z =? 0)%Z then 0 else if (z =? 1)%Z then 4607182418800017408 else 13830554455654793216
  end.
Lemma ex_dom_cases s : ex_score_dom s ->
  s = Data.Base.SNInf \/ s = Data.Base.SPInf \/ s = Data.Base.SFin (-1) \/ s = Data.Base.SFin 0 \/ s = Data.Base.SFin 1.
Proof.
  destruct s as [|z|]; cbn; intros H; auto.
  assert (z = -1 \/ z = 0 \/ z = 1)%Z as [->|[->| ->]] by lia; auto.
Qed.
Example score_hypotheses_satisfiable :
  (forall s, ex_score_dom s -> float_ok (ex_score_bits s)) /\
  (forall a b, ex_score_dom a -> ex_score_dom b ->
     float_norm (ex_score_bits a) = float_norm (ex_score_bits b) -> a = b).
Proof.
  split.
  - intros s H. apply ex_dom_cases in H. destruct H as [->|[->|[->|[->| ->]]]]; split; vm_compute; reflexivity.
  - intros a b Ha Hb. apply ex_dom_cases in Ha, Hb.
    destruct Ha as [->|[->|[->|[->| ->]]]], Hb as [->|[->|[->|[->| ->]]]]; vm_compute; intros E;
      try reflexivity; discriminate E.
Qed.
