(* Codec/RangeOps.v — C12: the range operations of the collection types (clear / read of a whole collection).
   Hand-written model of:
     engine/iterator.go   rangeLimitIterator + RangeLimitedIterator.Valid, forward direction:
                          which keys of a sorted key space a range (Min, Max, Type) visits
     rockredis/t_hash.go  hDeleteAll (HCLEAR / HMCLEAR / expiry), hGetAll / HKeys / HValues
     rockredis/t_set.go   sDelete (SCLEAR / SMCLEAR / expiry), sMembersN
     rockredis/t_zset.go  zRemRangeBytes over the whole score index (ZCLEAR, ZREMRANGEBYRANK 0 -1)
     rockredis/t_list.go  lDelete (LCLEAR)
     rockredis/t_bitmap.go BitClear, BitCountV2
   under the policies that delete element keys (everything except wait_compact, which only drops the meta
   record). The range TYPE each function passes (open / closed bounds) is read from the source by
   harness/cmd/codec -consts (go/ast) into Consts.v: rtype_<file>_<func>.
   No proofs in this file. *)
From ZV Require Export Common.Bytes Codec.MemCmp Codec.Keys.
From ZV Require Import Codec.Consts.
Open Scope N_scope.

(* RangeLimitedIterator, forward: Seek(Min), skip Min itself when the LOpen bit is set; stop at the first key
   >= Max (ROpen bit) or > Max *)
Definition in_range_t (rtype : N) (lo hi k : bytes) : bool :=
  (if 0 <? N.land rtype range_lopen then bytes_ltb lo k else bytes_leb lo k) &&
  (if 0 <? N.land rtype range_ropen then bytes_ltb k hi else bytes_leb k hi).

(* the keys visited, in key order, out of the (sorted) key space *)
Definition range_iter (rtype : N) (lo hi : bytes) (keys : list bytes) : list bytes :=
  filter (in_range_t rtype lo hi) keys.

(* hash / set: element keys deleted by a clear, visited by a full read *)
Definition hash_clear_keys (t k : bytes) (keys : list bytes) : list bytes :=
  range_iter rtype_hash_hDeleteAll (coll_start_key hash_type t k) (coll_stop_key hash_type t k) keys.
Definition hash_read_keys (t k : bytes) (keys : list bytes) : list bytes :=
  range_iter rtype_hash_hGetAll (coll_start_key hash_type t k) (coll_stop_key hash_type t k) keys.
Definition set_clear_keys (t k : bytes) (keys : list bytes) : list bytes :=
  range_iter rtype_set_sDelete (coll_start_key set_type t k) (coll_stop_key set_type t k) keys.
Definition set_read_keys (t k : bytes) (keys : list bytes) : list bytes :=
  range_iter rtype_set_sMembersN (coll_start_key set_type t k) (coll_stop_key set_type t k) keys.

(* bitmap segments *)
Definition bitmap_clear_keys (t k : bytes) (keys : list bytes) : list bytes :=
  range_iter rtype_bitmap_BitClear (encode_bitmap_key t k 0) (encode_bitmap_stop_key t k) keys.

(* list elements between the head and tail sequence numbers of the meta record *)
Definition list_clear_keys (t k : bytes) (head tail : Z) (keys : list bytes) : list bytes :=
  range_iter rtype_list_lDelete (l_encode_list_key t k head) (l_encode_list_key t k tail) keys.

(* zset: the score-index keys visited; each one names the member key that is deleted with it *)
Definition zset_clear_score_keys (t k : bytes) (keys : list bytes) : list bytes :=
  range_iter rtype_zset_zRemRangeBytes (z_encode_start_key t k) (z_encode_stop_key t k) keys.
Definition zset_member_key_of_score_key (t k : bytes) (sk : bytes) : option bytes :=
  match z_decode_score_key sk with
  | Ok (_, _, m, _) => Some (coll_key zset_type t k m)
  | _ => None
  end.

(* ---------- whole-table delete: rockredis.go DeleteTableRange(dryrun=false, table, nil, nil) ---------- *)
(* the engine ranges it deletes (the table key counter is deleted separately by DelTableKeyCount): for
   kv/hash/list/set/zset the data ranges of getTableDataRange and the meta range of getTableMetaRange (a type
   whose range cannot be built is skipped, as the Go loop `continue`s), and — since fix afc5d56 — the table
   ranges of the bitmap and json keys and the bitmap meta range *)
Definition ranges_or_nil (r : res (list (bytes * bytes))) : list (bytes * bytes) :=
  match r with Ok l => l | _ => [] end.
Definition range_or_nil (r : res (bytes * bytes)) : list (bytes * bytes) :=
  match r with Ok p => [p] | _ => [] end.
Definition delete_table_ranges (t : bytes) : list (bytes * bytes) :=
  flat_map (fun p : N * N =>
              match get_table_data_range (fst p) t [] None with
              | Ok rgs => match get_table_meta_range (snd p) t [] None with
                          | Ok m => rgs ++ [m]
                          | _ => []
                          end
              | _ => []
              end)
           [(kv_type, kv_type); (hash_type, hsize_type); (list_type, lmeta_type); (set_type, ssize_type); (zset_type, zsize_type)]
  ++ [(encode_data_table_start bitmap_type t, encode_data_table_end bitmap_type t);
      (encode_data_table_start json_type t, encode_data_table_end json_type t)]
  ++ range_or_nil (get_table_meta_range bitmap_meta_type t [] None).

(* RangeLimitedIterator, reverse: SeekForPrev(Max) (stepping back over Max itself when the ROpen bit is set; an
   invalid seek falls back to the first key only if that key is <= Max), then backwards while the key is
   >= Min (> Min with the LOpen bit): the same keys as the forward iteration, in descending order *)
Definition range_iter_rev (rtype : N) (lo hi : bytes) (keys : list bytes) : list bytes :=
  rev (range_iter rtype lo hi keys).

(* ---------- partial range deletes: engine WriteBatch.DeleteRange and rockredis/t_list.go ltrim2 ---------- *)

(* WriteBatch.DeleteRange(start, end) removes the keys of [start, end): what is left of a key space *)
Definition delete_range (lo hi : bytes) (keys : list bytes) : list bytes :=
  filter (fun k => negb (in_range lo hi k)) keys.

(* ltrim2 (LTRIM start stop on a list whose meta says head sequence [head] and length [llen]; start, stop
   already normalised, 0 <= start <= stop < llen): when more than RangeDeleteNum elements go at one end they
   are removed by one DeleteRange over the sequence keys
     head end:  [ key(head), key(head + start) )              -- the new head key(head + start) stays
     tail end:  [ key(head + stop + 1), key(head + llen) )    -- the old tail key(head + llen - 1) goes *)
Definition ltrim_head_range (t k : bytes) (head start : Z) : bytes * bytes :=
  (l_encode_list_key t k head, l_encode_list_key t k (head + start)).
Definition ltrim_tail_range (t k : bytes) (head stop llen : Z) : bytes * bytes :=
  (l_encode_list_key t k (head + stop + 1), l_encode_list_key t k (head + llen)).
