(* Codec/MemCmp.v — C12: the order-preserving ("memcomparable") codec of rockredis.
   Hand-written model of:
     rockredis/bytes.go        EncodeBytes, decodeBytes (DecodeBytes / DecodeBytesDesc),
                               EncodeBytesDesc, reverseBytes
     rockredis/number.go       encodeIntToCmpUint, decodeCmpUintToInt, EncodeInt[Desc], DecodeInt[Desc],
                               EncodeUint[Desc], DecodeUint[Desc], encodeFloatToCmpUint64,
                               decodeCmpUintToFloat, EncodeFloat[Desc], DecodeFloat[Desc]
     rockredis/memcmp_codec.go memcmpEncode / EncodeMemCmpKey, Decode, DecodeOne, peek, peekBytes, CutOne
     encoding/binary           BigEndian.PutUint64 / Uint64 / PutUint16 / Uint16 (re-stated)
   Conventions: a byte string is a [list N] of numbers < 256; uint64 is an [N] < 2^64; int64 is a
   [Z] in [-2^63, 2^63); a float64 is its IEEE-754 bit pattern, an [N] < 2^64.
   Go results (value, error) are [res]: [Ok v], [Err] (an error was returned), [Panic] (a Go run-time
   panic, or the model ran out of fuel — the latter is proved unreachable in Codec/Proofs*.v).
   No proofs in this file. *)
From ZV Require Export Common.Bytes.
From ZV Require Import Codec.Consts.
Open Scope N_scope.

Inductive res (A : Type) : Type :=
| Ok (a : A)
| Err
| Panic.
Arguments Ok {A} a.
Arguments Err {A}.
Arguments Panic {A}.

Definition res_bind {A B} (r : res A) (f : A -> res B) : res B :=
  match r with Ok a => f a | Err => Err | Panic => Panic end.

(* ---------- fixed-width big-endian numbers (encoding/binary.BigEndian) ---------- *)

(* [be n u]: the n-byte big-endian representation of u (u < 256^n) *)
Fixpoint be (n : nat) (u : N) : bytes :=
  match n with
  | O => []
  | S k => (u / 256 ^ N.of_nat k) :: be k (u mod 256 ^ N.of_nat k)
  end.

Definition from_be (bs : bytes) : N := fold_left (fun acc b => acc * 256 + b) bs 0.

Definition two63 : N := 9223372036854775808.
Definition two64 : N := 18446744073709551616.
Definition mask64 : N := 18446744073709551615.
Definition sign_mask : N := two63.                    (* number.go signMask *)

Definition u64_of_z (v : Z) : N := Z.to_N (v mod 18446744073709551616).       (* uint64(v) *)
Definition z_of_u64 (u : N) : Z :=                                             (* int64(u)  *)
  if u <? two63 then Z.of_N u else (Z.of_N u - 18446744073709551616)%Z.
Definition not64 (u : N) : N := N.lxor u mask64.                               (* ^u        *)

Definition u16_of_len (n : nat) : N := N.of_nat n mod 65536.                   (* uint16(len(x)) *)
Definition be16 (n : nat) : bytes := be 2 (u16_of_len n).

(* ---------- bytes.go ---------- *)

Definition group_size : nat := N.to_nat enc_group_size.

(* reverseBytes: bitwise complement of every byte *)
Definition reverse_bytes (b : bytes) : bytes := map (fun x => 255 - x) b.

(* EncodeBytes(nil, data): groups of [group_size] bytes, each followed by a marker byte;
   the last (possibly empty) group is padded with enc_pad and marked enc_marker - padCount *)
Fixpoint encode_bytes_fuel (fuel : nat) (data : bytes) : bytes :=
  match fuel with
  | O => []
  | S f =>
      let remain := length data in
      if (group_size <=? remain)%nat
      then firstn group_size data ++ enc_marker :: encode_bytes_fuel f (skipn group_size data)
      else let pad := (group_size - remain)%nat in
           data ++ repeat enc_pad pad ++ [enc_marker - N.of_nat pad]
  end.
Definition encode_bytes (data : bytes) : bytes := encode_bytes_fuel (S (length data)) data.
Definition encode_bytes_desc (data : bytes) : bytes := reverse_bytes (encode_bytes data).

(* decodeBytes(b, reverse): returns (leftover, data) *)
Fixpoint decode_bytes_fuel (fuel : nat) (reverse : bool) (b acc : bytes) : res (bytes * bytes) :=
  match fuel with
  | O => Panic
  | S f =>
      if (length b <? group_size + 1)%nat then Err else
      let group := firstn group_size b in
      let marker := nth group_size b 0 in
      let pad := if reverse then marker else enc_marker - marker in
      if enc_group_size <? pad then Err else
      let real := (group_size - N.to_nat pad)%nat in
      let acc' := acc ++ firstn real group in
      let b' := skipn (group_size + 1) b in
      if pad =? 0 then decode_bytes_fuel f reverse b' acc'
      else
        let pad_byte := if reverse then enc_marker else enc_pad in
        if forallb (fun v => v =? pad_byte) (skipn real group)
        then Ok (b', if reverse then reverse_bytes acc' else acc')
        else Err
  end.
Definition decode_bytes (reverse : bool) (b : bytes) : res (bytes * bytes) :=
  decode_bytes_fuel (S (length b)) reverse b [].

(* peekBytes(b, reverse): length of the encoded byte string at the head of b *)
Fixpoint peek_bytes_fuel (fuel : nat) (reverse : bool) (b : bytes) (offset : nat) : res nat :=
  match fuel with
  | O => Panic
  | S f =>
      if (length b <? offset + group_size + 1)%nat then Err else
      let marker := nth (offset + group_size) b 0 in
      let pad := if reverse then marker else enc_marker - marker in
      let offset' := (offset + group_size + 1)%nat in
      if pad =? 0 then peek_bytes_fuel f reverse b offset' else Ok offset'
  end.
Definition peek_bytes (reverse : bool) (b : bytes) : res nat :=
  peek_bytes_fuel (S (length b)) reverse b 0.

(* ---------- number.go ---------- *)

Definition int_to_cmp (v : Z) : N := N.lxor (u64_of_z v) sign_mask.       (* encodeIntToCmpUint *)
Definition cmp_to_int (u : N) : Z := z_of_u64 (N.lxor u sign_mask).       (* decodeCmpUintToInt *)

Definition encode_uint (u : N) : bytes := be 8 u.
Definition encode_uint_desc (u : N) : bytes := be 8 (not64 u).
Definition encode_int (v : Z) : bytes := be 8 (int_to_cmp v).
Definition encode_int_desc (v : Z) : bytes := be 8 (not64 (int_to_cmp v)).

Definition decode_uint (b : bytes) : res (bytes * N) :=
  if (length b <? 8)%nat then Err else Ok (skipn 8 b, from_be (firstn 8 b)).
Definition decode_uint_desc (b : bytes) : res (bytes * N) :=
  if (length b <? 8)%nat then Err else Ok (skipn 8 b, not64 (from_be (firstn 8 b))).
Definition decode_int (b : bytes) : res (bytes * Z) :=
  if (length b <? 8)%nat then Err else Ok (skipn 8 b, cmp_to_int (from_be (firstn 8 b))).
Definition decode_int_desc (b : bytes) : res (bytes * Z) :=
  if (length b <? 8)%nat then Err else Ok (skipn 8 b, cmp_to_int (not64 (from_be (firstn 8 b)))).

(* float64 by bit pattern *)
Definition exp_mask : N := 9218868437227405312.             (* 0x7FF0000000000000 *)
Definition abs_mask : N := 9223372036854775807.             (* 0x7FFFFFFFFFFFFFFF = ^signMask *)
Definition float_is_nan (u : N) : bool := exp_mask <? N.land u abs_mask.
(* Go's [f >= 0] on the value with bit pattern u: false for NaN, true for +x and for -0 *)
Definition float_ge0 (u : N) : bool :=
  negb (float_is_nan u) && ((u <? two63) || (u =? two63)).

Definition float_to_cmp (u : N) : N :=                      (* encodeFloatToCmpUint64 *)
  if float_ge0 u then N.lor u sign_mask else not64 u.
Definition cmp_to_float (u : N) : N :=                      (* decodeCmpUintToFloat *)
  if 0 <? N.land u sign_mask then N.land u abs_mask else not64 u.

Definition encode_float (u : N) : bytes := encode_uint (float_to_cmp u).
Definition encode_float_desc (u : N) : bytes := encode_uint_desc (float_to_cmp u).
Definition decode_float (b : bytes) : res (bytes * N) :=
  match decode_uint b with Ok (r, u) => Ok (r, cmp_to_float u) | Err => Err | Panic => Panic end.
Definition decode_float_desc (b : bytes) : res (bytes * N) :=
  match decode_uint_desc b with Ok (r, u) => Ok (r, cmp_to_float u) | Err => Err | Panic => Panic end.

(* the order and equality of Go's float64 [<] and [==], on bit patterns (NaN compares false);
   tied to the Go operators by the correspondence check only (no IEEE-754 library is linked) *)
Definition float_key (u : N) : Z :=
  if u <? two63 then Z.of_N u else (- Z.of_N (u - two63))%Z.
Definition float_ltb (a b : N) : bool :=
  negb (float_is_nan a) && negb (float_is_nan b) && (float_key a <? float_key b)%Z.
Definition float_eqb (a b : N) : bool :=
  negb (float_is_nan a) && negb (float_is_nan b) && (float_key a =? float_key b)%Z.

(* ---------- memcmp_codec.go ---------- *)

(* the values memcmpEncode accepts (all Go integer kinds are widened to int64, string = []byte,
   float32 is widened to float64 by the caller) and DecodeOne returns *)
Inductive mval : Type :=
| MNil
| MBytes (b : bytes)
| MInt (v : Z)
| MFloat (bits : N).

Definition encode_val (v : mval) : bytes :=
  match v with
  | MNil => [nil_flag]
  | MBytes b => bytes_flag :: encode_bytes b
  | MInt z => int_flag :: encode_int z
  | MFloat f => float_flag :: encode_float f
  end.

(* EncodeMemCmpKey(b, vals...) = b ++ encode_vals vals *)
Definition encode_vals (vs : list mval) : bytes := concat (map encode_val vs).

(* DecodeOne *)
Definition decode_one (b : bytes) : res (bytes * mval) :=
  match b with
  | [] => Err
  | flag :: r =>
      if flag =? int_flag then
        match decode_int r with Ok (r', v) => Ok (r', MInt v) | Err => Err | Panic => Panic end
      else if flag =? float_flag then
        match decode_float r with Ok (r', v) => Ok (r', MFloat v) | Err => Err | Panic => Panic end
      else if flag =? bytes_flag then
        match decode_bytes false r with Ok (r', v) => Ok (r', MBytes v) | Err => Err | Panic => Panic end
      else if flag =? nil_flag then Ok (r, MNil)
      else Err
  end.

(* Decode(b, size): all values until b is exhausted; an empty b is an error *)
Fixpoint decode_all_fuel (fuel : nat) (b : bytes) (acc : list mval) : res (list mval) :=
  match fuel with
  | O => Panic
  | S f =>
      match b with
      | [] => Ok acc
      | _ => match decode_one b with
             | Ok (r, v) => decode_all_fuel f r (acc ++ [v])
             | Err => Err
             | Panic => Panic
             end
      end
  end.
Definition decode_vals (b : bytes) : res (list mval) :=
  match b with
  | [] => Err
  | _ => decode_all_fuel (S (length b)) b []
  end.

(* peek: encoded length of the first value *)
Definition peek (b : bytes) : res nat :=
  match b with
  | [] => Err
  | flag :: r =>
      if flag =? nil_flag then Ok 1%nat
      else if (flag =? int_flag) || (flag =? float_flag) then Ok 9%nat
      else if flag =? bytes_flag then
        match peek_bytes false r with Ok l => Ok (S l) | Err => Err | Panic => Panic end
      else Err
  end.

(* CutOne: (b[:l], b[l:]) — a Go slice bound beyond len(b) panics *)
Definition cut_one (b : bytes) : res (bytes * bytes) :=
  match peek b with
  | Ok l => if (length b <? l)%nat then Panic else Ok (firstn l b, skipn l b)
  | Err => Err
  | Panic => Panic
  end.
