(* Codec/ProofsKeyRanges.v — C12: every range builder delimits exactly the keys of its collection / table *)
From ZV Require Import Common.Bytes Common.BytesFacts Codec.Consts Codec.MemCmp Codec.Keys Codec.Spec
  Codec.ProofsNum Codec.ProofsBytes Codec.ProofsTuple Codec.ProofsRange Codec.ProofsKeys.
From Coq Require Import ZifyN ZifyNat ZifyBool Lia.
Open Scope N_scope.

(* ---------- stop keys: start key with the separator + 1, never overflowing ---------- *)

Lemma table_prefix_snoc dt t : exists q, table_prefix dt t = q ++ [table_start_sep] /\
  q = dt :: (if dt =? kv_type then [] else be16 (length t)) ++ t.
Proof.
  eexists. split; [|reflexivity]. unfold table_prefix. rewrite app_comm_cons, app_assoc. reflexivity.
Qed.

Theorem table_end_spec dt t : exists q, encode_data_table_start dt t = q ++ [table_start_sep] /\
  encode_data_table_end dt t = q ++ [table_start_sep + 1] /\ table_start_sep + 1 < 256.
Proof.
  destruct (table_prefix_snoc dt t) as [q [Hq _]]. exists q.
  unfold encode_data_table_start, encode_data_table_end. rewrite Hq, incr_last_app.
  repeat split.
Qed.

Definition coll_base (dt : N) (t k : bytes) : bytes := table_prefix dt t ++ be16 (length k) ++ k.

Lemma coll_key_base dt t k s : coll_key dt t k s = coll_base dt t k ++ coll_start_sep :: s.
Proof. unfold coll_key, coll_base. now rewrite <- !app_assoc. Qed.

Theorem coll_stop_spec dt t k :
  coll_start_key dt t k = coll_base dt t k ++ [coll_start_sep] /\
  coll_stop_key dt t k = coll_base dt t k ++ [coll_start_sep + 1] /\ coll_start_sep + 1 < 256.
Proof.
  unfold coll_start_key, coll_stop_key, coll_stop_key_set, coll_stop_key_incr.
  rewrite coll_key_base. rewrite incr_last_app, set_last_app.
  destruct (dt =? set_type); repeat split.
Qed.

(* ---------- which key can carry a given table prefix ---------- *)

Lemma encode_with_table_prefix x dt t r : wf_ekey x -> is_table_type dt = true -> no_sep t ->
  encode_ekey x = table_prefix dt t ++ r ->
  ekey_type x = dt /\ ekey_table x = t /\ ekey_rest x = r.
Proof.
  intros Hx Hdt Ht E.
  assert (Hty : ekey_type x = dt).
  { destruct (encode_ekey_head x) as [r' Hr']. rewrite Hr' in E. unfold table_prefix in E. now injection E. }
  assert (Tx : is_table_type (ekey_type x) = true) by congruence.
  rewrite (encode_ekey_table x Tx Hx), Hty in E.
  assert (Nx : no_sep (ekey_table x)) by (destruct x; cbn in Hx |- *; try tauto; vm_compute in Tx; discriminate).
  apply table_prefix_app_inj in E; tauto.
Qed.

(* ---------- (1) whole-table range of one data type ---------- *)

Theorem table_range_iff dt t x : is_table_type dt = true -> no_sep t -> wf_ekey x ->
  in_range (encode_data_table_start dt t) (encode_data_table_end dt t) (encode_ekey x) = true <->
  ekey_type x = dt /\ ekey_table x = t.
Proof.
  intros Hdt Ht Hx.
  destruct (table_end_spec dt t) as [q (Hs & He & _)]. rewrite Hs, He, sep_range_iff.
  split.
  - intros [r Hr]. change (q ++ table_start_sep :: r) with (q ++ [table_start_sep] ++ r) in Hr.
    rewrite app_assoc, <- Hs in Hr. unfold encode_data_table_start in Hr.
    apply encode_with_table_prefix in Hr; tauto.
  - intros [Hty Htab]. assert (Tx : is_table_type (ekey_type x) = true) by congruence.
    rewrite (encode_ekey_table x Tx Hx), Hty, Htab. fold (encode_data_table_start dt t). rewrite Hs.
    exists (ekey_rest x). now rewrite <- app_assoc.
Qed.

(* ---------- (2) hash / set / zset member range of one collection ---------- *)

Theorem coll_range_iff dt t k x : is_coll_type dt = true -> no_sep t -> len16 k -> wf_ekey x ->
  in_range (coll_start_key dt t k) (coll_stop_key dt t k) (encode_ekey x) = true <->
  exists sub, x = KColl dt t k sub.
Proof.
  intros Hdt Ht Hk Hx. destruct (coll_stop_spec dt t k) as (Hs & He & _). rewrite Hs, He, sep_range_iff.
  split.
  - intros [r Hr]. rewrite <- coll_key_base in Hr.
    change (coll_key dt t k r) with (encode_ekey (KColl dt t k r)) in Hr.
    apply ekey_inj in Hr; [|assumption|cbn; tauto].
    exists r. destruct x; cbn [ekey_norm] in Hr; congruence.
  - intros [sub ->]. exists sub. cbn [encode_ekey]. apply coll_key_base.
Qed.

(* ---------- (3) list element range ---------- *)

Definition list_base (t k : bytes) : bytes := table_prefix list_type t ++ be16 (length k) ++ k.
Lemma list_key_base t k seq : l_encode_list_key t k seq = list_base t k ++ be 8 (u64_of_z seq).
Proof. unfold l_encode_list_key, list_base. now rewrite <- !app_assoc. Qed.

(* among well-formed keys only a list element has the list type, etc. *)
Lemma wf_type_list x : wf_ekey x -> ekey_type x = list_type -> exists t k seq, x = KList t k seq.
Proof.
  intros Hx Ht. destruct x; cbn [ekey_type wf_ekey] in *; try (vm_compute in Ht; discriminate).
  - type_clash0.
  - type_clash0.
  - eauto.
Qed.
Lemma wf_type_zscore x : wf_ekey x -> ekey_type x = zscore_type -> exists t k sc m, x = KZScore t k sc m.
Proof.
  intros Hx Ht. destruct x; cbn [ekey_type wf_ekey] in *; try (vm_compute in Ht; discriminate).
  - type_clash0.
  - type_clash0.
  - eauto.
Qed.
Lemma wf_type_bitmap x : wf_ekey x -> ekey_type x = bitmap_type -> exists t k i, x = KBitmap t k i.
Proof.
  intros Hx Ht. destruct x; cbn [ekey_type wf_ekey] in *; try (vm_compute in Ht; discriminate).
  - type_clash0.
  - type_clash0.
  - eauto.
Qed.
Lemma wf_type_coll x dt : wf_ekey x -> is_coll_type dt = true -> ekey_type x = dt -> exists t k s, x = KColl dt t k s.
Proof.
  intros Hx Hd Ht. destruct x; cbn [ekey_type wf_ekey] in *; subst; try (vm_compute in Hd; discriminate).
  - type_clash0.
  - eauto.
Qed.

Theorem list_range_iff t k x : no_sep t -> len16 k -> wf_ekey x ->
  in_range_closed (l_encode_list_key t k list_min_seq) (l_encode_list_key t k list_max_seq) (encode_ekey x) = true <->
  exists seq, x = KList t k seq /\ (list_min_seq <= seq <= list_max_seq)%Z.
Proof.
  intros Ht Hk Hx. rewrite !list_key_base, in_range_closed_iff.
  assert (Hcmp : forall seq, int64_ok seq ->
    in_range_closed (be 8 (u64_of_z list_min_seq)) (be 8 (u64_of_z list_max_seq)) (be 8 (u64_of_z seq)) = true <->
    (list_min_seq <= seq <= list_max_seq)%Z).
  { intros seq Hs. unfold in_range_closed. rewrite andb_true_iff, !bytes_leb_cmp.
    rewrite !be_cmp_exact by (rewrite <- two64_pow; apply u64_of_z_lt).
    rewrite !N.compare_le_iff.
    change (u64_of_z list_min_seq) with 1000. change (u64_of_z list_max_seq) with 4611686018427386904.
    unfold list_min_seq, list_max_seq. unfold int64_ok in Hs.
    destruct (Z.ltb_spec seq 0).
    - rewrite u64_of_z_neg by lia. lia.
    - rewrite u64_of_z_nonneg by lia. lia. }
  split.
  - intros [s [E Hr]]. unfold list_base in E. rewrite <- app_assoc in E.
    apply encode_with_table_prefix in E; [|assumption|reflexivity|assumption].
    destruct E as (Hty & Htab & Hrest).
    destruct (wf_type_list x Hx Hty) as (t' & k' & seq & ->).
    cbn [ekey_table ekey_rest wf_ekey] in *. subst t'. destruct Hx as (_ & Lk & Sq).
    rewrite <- app_assoc in Hrest. apply len16_prefixed_inj in Hrest; [|assumption|assumption].
    destruct Hrest as [-> <-]. exists seq. split; [reflexivity|]. now apply Hcmp.
  - intros [seq [-> Hs]]. exists (be 8 (u64_of_z seq)). split; [apply list_key_base|].
    apply Hcmp; [|assumption]. cbn in Hx. tauto.
Qed.

(* ---------- (4) zset score index ---------- *)

Lemma float_ok_0 : float_ok 0. Proof. split; reflexivity. Qed.

Lemma cmp_sandwich (c : comparison) :
  match c with Eq => Lt | c' => c' end <> Gt ->
  match CompOpp c with Eq => Lt | c' => c' end = Lt -> c = Eq.
Proof. destruct c; simpl; congruence. Qed.

Theorem zscore_range_iff t k x : no_sep t -> wf_ekey x ->
  in_range (z_encode_start_key t k) (z_encode_stop_key t k) (encode_ekey x) = true <->
  exists sc m, x = KZScore t k sc m.
Proof.
  intros Ht Hx.
  change (z_encode_start_key t k) with (table_prefix zscore_type t ++
    encode_vals [MBytes k; MInt 57; MFloat 0; MInt 58; MBytes []]).
  change (z_encode_stop_key t k) with (table_prefix zscore_type t ++
    encode_vals [MBytes k; MInt 59; MFloat 0; MInt 58; MBytes []]).
  rewrite in_range_iff. split.
  - intros [s [E Hr]].
    apply encode_with_table_prefix in E; [|assumption|reflexivity|assumption].
    destruct E as (Hty & Htab & Hrest).
    destruct (wf_type_zscore x Hx Hty) as (t' & k' & sc & m & ->).
    cbn [ekey_table ekey_rest wf_ekey] in *. subst t' s. destruct Hx as [_ Fs].
    change (Z.of_N zset_key_sep) with 58%Z in Hr. change (Z.of_N zset_score_sep) with 58%Z in Hr.
    unfold in_range in Hr. apply andb_true_iff in Hr as [H1 H2].
    apply bytes_leb_cmp in H1. apply bytes_ltb_cmp in H2.
    rewrite encode_vals_cmp in H1, H2; try (pose proof float_ok_0; mvals_ok).
    cbn [tuple_cmp mval_cmp] in H1, H2. rewrite (bytes_cmp_antisym k k') in H2.
    destruct (bytes_cmp k k') eqn:Ck; cbn in H1, H2; try congruence.
    apply bytes_cmp_eq in Ck. subst. eauto.
  - intros (sc & m & ->). cbn [wf_ekey] in Hx. destruct Hx as [_ Fs].
    exists (ekey_rest (KZScore t k sc m)). split; [reflexivity|].
    cbn [ekey_rest]. change (Z.of_N zset_key_sep) with 58%Z. change (Z.of_N zset_score_sep) with 58%Z.
    unfold in_range. apply andb_true_iff. rewrite bytes_leb_cmp, bytes_ltb_cmp.
    rewrite !encode_vals_cmp; try (pose proof float_ok_0; mvals_ok).
    cbn [tuple_cmp mval_cmp]. rewrite bytes_cmp_refl. split; [discriminate|reflexivity].
Qed.

(* all members with one score: [zEncodeStartScoreKey, zEncodeStopScoreKey) *)
Theorem zscore_score_range_iff t k sc x : no_sep t -> float_ok sc -> wf_ekey x ->
  in_range (z_encode_start_score_key t k sc) (z_encode_stop_score_key t k sc) (encode_ekey x) = true <->
  exists sc' m, x = KZScore t k sc' m /\ float_key sc' = float_key sc.
Proof.
  intros Ht Hsc Hx.
  change (z_encode_start_score_key t k sc) with (table_prefix zscore_type t ++
    encode_vals [MBytes k; MInt 58; MFloat sc; MInt 58; MBytes []]).
  change (z_encode_stop_score_key t k sc) with (table_prefix zscore_type t ++
    encode_vals [MBytes k; MInt 58; MFloat sc; MInt 59; MBytes []]).
  rewrite in_range_iff. split.
  - intros [s [E Hr]].
    apply encode_with_table_prefix in E; [|assumption|reflexivity|assumption].
    destruct E as (Hty & Htab & Hrest).
    destruct (wf_type_zscore x Hx Hty) as (t' & k' & sc' & m & ->).
    cbn [ekey_table ekey_rest wf_ekey] in *. subst t' s. destruct Hx as [_ Fs].
    change (Z.of_N zset_key_sep) with 58%Z in Hr. change (Z.of_N zset_score_sep) with 58%Z in Hr.
    unfold in_range in Hr. apply andb_true_iff in Hr as [H1 H2].
    apply bytes_leb_cmp in H1. apply bytes_ltb_cmp in H2.
    rewrite encode_vals_cmp in H1, H2; try mvals_ok.
    cbn [tuple_cmp mval_cmp] in H1, H2.
    rewrite (bytes_cmp_antisym k k') in H2. rewrite (Z.compare_antisym (float_key sc) (float_key sc')) in H2.
    destruct (bytes_cmp k k') eqn:Ck; cbn in H1, H2; try congruence.
    apply bytes_cmp_eq in Ck. subst k'.
    destruct (float_key sc ?= float_key sc')%Z eqn:Cs; cbn in H1, H2; try congruence.
    apply Z.compare_eq in Cs. exists sc', m. auto.
  - intros (sc' & m & -> & Hk). cbn [wf_ekey] in Hx. destruct Hx as [_ Fs].
    exists (ekey_rest (KZScore t k sc' m)). split; [reflexivity|].
    cbn [ekey_rest]. change (Z.of_N zset_key_sep) with 58%Z. change (Z.of_N zset_score_sep) with 58%Z.
    unfold in_range. apply andb_true_iff. rewrite bytes_leb_cmp, bytes_ltb_cmp.
    rewrite !encode_vals_cmp; try mvals_ok.
    cbn [tuple_cmp mval_cmp]. rewrite bytes_cmp_refl, Hk, !Z.compare_refl. cbn.
    split; [destruct m; discriminate|reflexivity].
Qed.

(* ---------- (5) bitmap segments ---------- *)

Theorem bitmap_range_iff t k x : no_sep t -> wf_ekey x ->
  in_range (encode_bitmap_key t k 0) (encode_bitmap_stop_key t k) (encode_ekey x) = true <->
  exists i, x = KBitmap t k i /\ (0 <= i)%Z.
Proof.
  intros Ht Hx.
  change (encode_bitmap_key t k 0) with (table_prefix bitmap_type t ++ encode_vals [MBytes k; MInt 58; MInt 0]).
  change (encode_bitmap_stop_key t k) with (table_prefix bitmap_type t ++ encode_vals [MBytes k; MInt 59; MInt 0]).
  rewrite in_range_iff. split.
  - intros [s [E Hr]].
    apply encode_with_table_prefix in E; [|assumption|reflexivity|assumption].
    destruct E as (Hty & Htab & Hrest).
    destruct (wf_type_bitmap x Hx Hty) as (t' & k' & i & ->).
    cbn [ekey_table ekey_rest wf_ekey] in *. subst t' s. destruct Hx as [_ Fs].
    change (Z.of_N col_start_sep) with 58%Z in Hr.
    unfold in_range in Hr. apply andb_true_iff in Hr as [H1 H2].
    apply bytes_leb_cmp in H1. apply bytes_ltb_cmp in H2.
    rewrite encode_vals_cmp in H1, H2; try mvals_ok.
    cbn [tuple_cmp mval_cmp] in H1, H2.
    rewrite (bytes_cmp_antisym k k') in H2.
    destruct (bytes_cmp k k') eqn:Ck; cbn in H1, H2; try congruence.
    apply bytes_cmp_eq in Ck. subst k'. exists i. split; [reflexivity|].
    destruct i; try lia. cbn in H1. congruence.
  - intros (i & -> & Hi). cbn [wf_ekey] in Hx. destruct Hx as [_ Fs].
    exists (ekey_rest (KBitmap t k i)). split; [reflexivity|].
    cbn [ekey_rest]. change (Z.of_N col_start_sep) with 58%Z.
    unfold in_range. apply andb_true_iff. rewrite bytes_leb_cmp, bytes_ltb_cmp.
    rewrite !encode_vals_cmp; try mvals_ok.
    cbn [tuple_cmp mval_cmp]. rewrite bytes_cmp_refl. cbn.
    split; [|reflexivity]. destruct i; try discriminate; lia.
Qed.

(* ---------- (6) meta (size) records of one table ---------- *)

Theorem meta_table_range_iff ty t x : is_meta_type ty = true -> no_sep t -> wf_ekey x ->
  in_range (size_key ty (t ++ [table_start_sep])) (size_key ty (t ++ [table_start_sep + 1])) (encode_ekey x) = true <->
  exists rk, x = KMeta ty t rk.
Proof.
  intros Hty Ht Hx. unfold size_key.
  rewrite !app_comm_cons, !app_assoc. rewrite sep_range_iff. split.
  - intros [r Hr]. rewrite <- !app_assoc in Hr. cbn [app] in Hr.
    change (ty :: meta_prefix ++ t ++ table_start_sep :: r) with (encode_ekey (KMeta ty t r)) in Hr.
    apply ekey_inj in Hr; [|assumption|cbn; tauto].
    exists r. destruct x; cbn [ekey_norm] in Hr; congruence.
  - intros [rk ->]. exists rk. rewrite <- !app_assoc. reflexivity.
Qed.

Lemma get_table_meta_range_whole ty t : is_meta_type ty = true ->
  get_table_meta_range ty t [] None =
  Ok (size_key ty (t ++ [table_start_sep]), size_key ty (t ++ [table_start_sep + 1])).
Proof.
  intros H. apply is_meta_type_cases in H. destruct H as [->|[->|[->|[->| ->]]]]; reflexivity.
Qed.
Lemma get_table_meta_range_kv t :
  get_table_meta_range kv_type t [] None = Ok (encode_data_table_start kv_type t, encode_data_table_end kv_type t).
Proof.
  unfold get_table_meta_range, encode_data_table_start, encode_data_table_end, table_prefix.
  cbn [encode_meta_key N.eqb]. change (kv_type =? kv_type) with true. cbv iota.
  unfold encode_kv_key. cbn [app]. rewrite app_comm_cons, incr_last_app. reflexivity.
Qed.

(* ---------- (7) the data ranges of a whole-table delete: rockredis.go getTableDataRange(dt, table, nil, nil) ---------- *)

(* a range from "table prefix ++ m" to the table end: the keys with that table prefix whose rest is >= m *)
Lemma in_range_sep_low c m s : in_range (c :: m) [c + 1] s = true <-> exists r, s = c :: r /\ bytes_leb m r = true.
Proof.
  unfold in_range, bytes_leb, bytes_ltb. split.
  - destruct s as [|y r]; cbn [bytes_cmp]; [discriminate|].
    intros H. apply andb_true_iff in H as [H1 H2].
    destruct (N.compare_spec c y) as [->|Hc|Hc]; [exists r; split; [reflexivity|exact H1]| |discriminate].
    destruct (N.compare_spec y (c + 1)) as [->|Hd|Hd]; [destruct r; discriminate|lia|discriminate].
  - intros [r [-> H]]. cbn [bytes_cmp]. rewrite N.compare_refl. rewrite H.
    destruct (N.compare_spec c (c + 1)); [lia|reflexivity|lia].
Qed.

Lemma table_low_range_iff dt t m k :
  in_range (table_prefix dt t ++ m) (encode_data_table_end dt t) k = true <->
  exists r, k = table_prefix dt t ++ r /\ bytes_leb m r = true.
Proof.
  destruct (table_end_spec dt t) as [q (Hs & He & _)]. unfold encode_data_table_start in Hs.
  rewrite He, Hs, <- app_assoc. cbn [app]. rewrite in_range_iff. split.
  - intros [s [-> H]]. apply in_range_sep_low in H as [r [-> H]]. exists r. rewrite <- app_assoc. auto.
  - intros [r [-> H]]. exists (table_start_sep :: r). rewrite <- app_assoc. split; [reflexivity|].
    apply in_range_sep_low. eauto.
Qed.

Lemma be16_zero_lt k a b : len16 k -> k <> [] -> bytes_cmp (be16 0 ++ a) (be16 (length k) ++ b) = Lt.
Proof.
  intros Hk Hne. rewrite (be16_spec (length k)) by assumption. change (be16 0) with [0; 0]. cbn [app bytes_cmp].
  assert (Hl : 0 < N.of_nat (length k)) by (destruct k; [congruence|simpl; lia]).
  unfold len16 in Hk. pose proof (N.div_mod (N.of_nat (length k)) 256).
  destruct (N.compare_spec 0 (N.of_nat (length k) / 256)) as [E|E|E]; [|reflexivity|lia].
  destruct (N.compare_spec 0 (N.of_nat (length k) mod 256)) as [E2|E2|E2]; [lia|reflexivity|lia].
Qed.

Definition in_ranges (rs : list (bytes * bytes)) (k : bytes) : bool :=
  existsb (fun r => in_range (fst r) (snd r) k) rs.

Definition ekey_key_nonempty (x : ekey) : Prop :=
  match x with
  | KList _ k _ => k <> []
  | _ => True
  end.

Lemma whole_table_kv t x : no_sep t -> wf_ekey x ->
  exists rs, get_table_data_range kv_type t [] None = Ok rs /\
    (in_ranges rs (encode_ekey x) = true <-> ekey_type x = kv_type /\ ekey_table x = t).
Proof.
  intros Ht Hx. eexists. split; [reflexivity|]. unfold in_ranges. cbn [existsb fst snd]. rewrite orb_false_r.
  change (encode_kv_key (pack_redis_key t [])) with (kv_type :: t ++ [table_start_sep]).
  change (kv_type :: t ++ [table_start_sep]) with (encode_data_table_start kv_type t).
  now apply table_range_iff.
Qed.

Lemma whole_table_coll_one dt t x : is_coll_type dt = true -> no_sep t -> wf_ekey x ->
  in_range (coll_key dt t [] []) (encode_data_table_end dt t) (encode_ekey x) = true <->
  ekey_type x = dt /\ ekey_table x = t.
Proof.
  intros Hdt Ht Hx. unfold coll_key. rewrite table_low_range_iff.
  assert (Htt : is_table_type dt = true) by (apply is_coll_type_cases in Hdt; destruct Hdt as [->|[->| ->]]; reflexivity).
  split.
  - intros [r [E _]]. apply encode_with_table_prefix in E; tauto.
  - intros [Hty Htab]. destruct (wf_type_coll x dt Hx Hdt Hty) as (t' & k & s & ->).
    cbn [ekey_table] in Htab. subst t'. cbn [wf_ekey] in Hx. destruct Hx as (_ & _ & Hk).
    eexists. split; [reflexivity|]. apply bytes_leb_cmp.
    destruct k as [|k0 k].
    + cbn [length app]. change (be16 0) with [0; 0]. cbn [app bytes_cmp]. rewrite !N.compare_refl.
      destruct s; discriminate.
    + rewrite be16_zero_lt by (assumption || discriminate). discriminate.
Qed.

Lemma whole_table_list_one t x : no_sep t -> wf_ekey x -> ekey_key_nonempty x ->
  in_range (l_encode_list_key t [] list_min_seq) (encode_data_table_end list_type t) (encode_ekey x) = true <->
  ekey_type x = list_type /\ ekey_table x = t.
Proof.
  intros Ht Hx Hne. unfold l_encode_list_key. rewrite table_low_range_iff.
  split.
  - intros [r [E _]]. apply encode_with_table_prefix in E; [tauto|assumption|reflexivity|assumption].
  - intros [Hty Htab]. destruct (wf_type_list x Hx Hty) as (t' & k & s & ->).
    cbn [ekey_table] in Htab. subst t'. cbn [wf_ekey ekey_key_nonempty] in *. destruct Hx as (_ & Hk & _).
    eexists. split; [reflexivity|]. apply bytes_leb_cmp. cbn [length app].
    rewrite be16_zero_lt by assumption. discriminate.
Qed.

Lemma whole_table_zscore_one t x : no_sep t -> wf_ekey x ->
  in_range (z_encode_start_key t []) (encode_data_table_end zscore_type t) (encode_ekey x) = true <->
  ekey_type x = zscore_type /\ ekey_table x = t.
Proof.
  intros Ht Hx.
  change (z_encode_start_key t []) with (table_prefix zscore_type t ++
    encode_vals [MBytes []; MInt 57; MFloat 0; MInt 58; MBytes []]).
  rewrite table_low_range_iff. split.
  - intros [r [E _]]. apply encode_with_table_prefix in E; [tauto|assumption|reflexivity|assumption].
  - intros [Hty Htab]. destruct (wf_type_zscore x Hx Hty) as (t' & k & sc & m & ->).
    cbn [ekey_table] in Htab. subst t'. cbn [wf_ekey] in Hx. destruct Hx as [_ Fs].
    eexists. split; [reflexivity|]. apply bytes_leb_cmp.
    cbn [ekey_rest]. change (Z.of_N zset_key_sep) with 58%Z. change (Z.of_N zset_score_sep) with 58%Z.
    rewrite encode_vals_cmp; try (pose proof float_ok_0; mvals_ok).
    cbn [tuple_cmp mval_cmp]. destruct k; cbn; discriminate.
Qed.

(* MAIN: the engine ranges deleted by DeleteTableRange(table) for one data type hold exactly the keys of
   that type (for zset: member keys and score-index keys) and table *)
Theorem whole_table_data_range dt t x :
  dt = kv_type \/ dt = hash_type \/ dt = set_type \/ dt = zset_type \/ dt = list_type ->
  no_sep t -> wf_ekey x -> ekey_key_nonempty x ->
  exists rs, get_table_data_range dt t [] None = Ok rs /\
    (in_ranges rs (encode_ekey x) = true <->
     (ekey_type x = dt \/ (dt = zset_type /\ ekey_type x = zscore_type)) /\ ekey_table x = t).
Proof.
  intros Hdt Ht Hx Hne. destruct Hdt as [->|[->|[->|[->| ->]]]].
  - destruct (whole_table_kv t x Ht Hx) as [rs [E H]]. exists rs. split; [exact E|].
    rewrite H. split; [tauto|]. intros [[H1|[H1 _]] H2]; [tauto|discriminate H1].
  - eexists. split; [reflexivity|]. unfold in_ranges. cbn [existsb fst snd]. rewrite orb_false_r.
    rewrite (whole_table_coll_one hash_type t x eq_refl Ht Hx).
    split; [tauto|]. intros [[H1|[H1 _]] H2]; [tauto|discriminate H1].
  - eexists. split; [reflexivity|]. unfold in_ranges. cbn [existsb fst snd]. rewrite orb_false_r.
    rewrite (whole_table_coll_one set_type t x eq_refl Ht Hx).
    split; [tauto|]. intros [[H1|[H1 _]] H2]; [tauto|discriminate H1].
  - eexists. split; [reflexivity|]. unfold in_ranges. cbn [existsb fst snd]. rewrite orb_false_r.
    rewrite orb_true_iff.
    rewrite (whole_table_coll_one zset_type t x eq_refl Ht Hx), (whole_table_zscore_one t x Ht Hx). tauto.
  - eexists. split; [reflexivity|]. unfold in_ranges. cbn [existsb fst snd]. rewrite orb_false_r.
    rewrite (whole_table_list_one t x Ht Hx Hne).
    split; [tauto|]. intros [[H1|[H1 _]] H2]; [tauto|discriminate H1].
Qed.

Lemma table_meta_range_whole ty t x : is_meta_type ty = true -> no_sep t -> wf_ekey x ->
  exists lo hi, get_table_meta_range ty t [] None = Ok (lo, hi) /\
     (in_range lo hi (encode_ekey x) = true <-> exists rk, x = KMeta ty t rk).
Proof.
  intros Hty Ht Hx. eexists _, _. split; [now apply get_table_meta_range_whole|].
  now apply meta_table_range_iff.
Qed.

(* ---------- the guards are necessary: collisions without them ---------- *)

(* KV keys carry no length prefix: a table name containing ':' would collide *)
Lemma kv_without_table_guard_collides :
  let x := KKV [97] [98; 58; 99] in let y := KKV [97; 58; 98] [99] in
  x <> y /\ encode_ekey x = encode_ekey y /\ wf_ekey x /\ ~ wf_ekey y.
Proof.
  cbv zeta. repeat split; try discriminate.
  - cbn. unfold no_sep. intros [H|[]]. discriminate.
  - cbn. unfold no_sep. intros H. apply H. right. left. reflexivity.
Qed.

(* the u16 key-length field wraps at 65536: a 65536-byte collection key would collide with the empty key *)
Lemma coll_without_len_guard_collides_gen k1 : N.of_nat (length k1) = 65535 ->
  let x := KColl 22 [116] (58 :: k1) [102] in let y := KColl 22 [116] [] (k1 ++ [58; 102]) in
  x <> y /\ encode_ekey x = encode_ekey y /\ wf_ekey y /\ ~ wf_ekey x.
Proof.
  intros Hl. cbv zeta. split.
  { intros H. apply (f_equal (fun e => match e with KColl _ _ [] _ => true | _ => false end)) in H. discriminate H. }
  split.
  { cbn [encode_ekey]. unfold coll_key. f_equal. 
    assert (E : be16 (length (58 :: k1)) = be16 (length (@nil N))).
    { unfold be16, u16_of_len. f_equal. cbn [length]. rewrite Nat2N.inj_succ, Hl. reflexivity. }
    rewrite E. reflexivity. }
  split.
  - cbn [wf_ekey]. split; [reflexivity|]. split; [unfold no_sep; intros [H|[]]; discriminate|]. unfold len16. cbn [length]. lia.
  - cbn [wf_ekey]. intros (_ & _ & H). unfold len16 in H. cbn [length] in H. lia.
Qed.

Lemma coll_without_len_guard_collides : exists x y,
  x <> y /\ encode_ekey x = encode_ekey y /\ wf_ekey y /\ ~ wf_ekey x.
Proof.
  eexists _, _. apply (coll_without_len_guard_collides_gen (repeat 97 (N.to_nat 65535))).
  rewrite repeat_length. lia.
Qed.
