(* Codec/Extract.v — extraction of the C12 model (ExtrOcamlBasic only) *)
From Coq Require Import ExtrOcamlBasic.
From ZV Require Import Codec.Consts Codec.MemCmp Codec.Keys Codec.RangeOps.
Extraction Language OCaml.
Extraction "model.ml" Z.of_N N.of_nat Nat.add
  encode_bytes encode_bytes_desc decode_bytes peek_bytes
  encode_int encode_int_desc decode_int decode_int_desc
  encode_uint encode_uint_desc decode_uint decode_uint_desc
  encode_float encode_float_desc decode_float decode_float_desc float_ltb float_eqb
  encode_vals decode_vals decode_one peek cut_one
  check_key check_sub_key check_key_sub_key
  extract_table pack_redis_key convert_redis_key_to_db_kv_key
  encode_table_meta_key decode_table_meta_key encode_table_meta_start_key encode_table_meta_stop_key
  encode_table_index_meta_key decode_table_index_meta_key encode_table_index_meta_start_key encode_table_index_meta_stop_key
  table_prefix encode_data_table_start encode_data_table_end decode_table_prefix
  coll_key encode_coll_sub_key decode_coll_sub_key decode_coll_key_typed
  coll_start_key coll_stop_key
  encode_kv_key decode_kv_key size_key decode_size_key encode_meta_key l_encode_min_key l_encode_max_key
  l_encode_list_key l_decode_list_key
  z_encode_score_key z_encode_start_score_key z_encode_stop_score_key z_encode_start_key z_encode_stop_key z_decode_score_key
  encode_bitmap_key encode_bitmap_stop_key decode_bitmap_key
  encode_json_key encode_json_start_key encode_json_stop_key decode_json_key
  encode_ver_key decode_ver_key
  exp_encode_time_key exp_decode_time_key exp_encode_meta_key exp_decode_meta_key
  get_table_data_range get_table_meta_range in_range in_range_closed
  list_min_seq list_max_seq list_initial_seq
  in_range_t range_iter hash_clear_keys hash_read_keys set_clear_keys set_read_keys bitmap_clear_keys
  list_clear_keys zset_clear_score_keys zset_member_key_of_score_key.
