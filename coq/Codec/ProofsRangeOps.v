(* Codec/ProofsRangeOps.v — C12: a clear / full read of one collection visits exactly that collection's element
   keys — with the bound types the code passes (read from the source into Consts.v) — and why the left bound
   must be closed: the element with the EMPTY sub-key is stored under the range's start key. *)
From ZV Require Import Common.Bytes Common.BytesFacts Codec.Consts Codec.MemCmp Codec.Keys Codec.Spec Codec.RangeOps
  Codec.ProofsNum Codec.ProofsBytes Codec.ProofsTuple Codec.ProofsRange Codec.ProofsKeys Codec.ProofsKeyRanges
  Codec.ProofsDecode.
From Coq Require Import ZifyN ZifyNat ZifyBool Lia.
Open Scope N_scope.

Lemma in_range_t_ropen lo hi k : in_range_t range_ropen lo hi k = in_range lo hi k.
Proof. reflexivity. Qed.
Lemma in_range_t_close lo hi k : in_range_t range_close lo hi k = in_range_closed lo hi k.
Proof. reflexivity. Qed.
Lemma in_range_t_open lo hi k : in_range_t range_open lo hi k = bytes_ltb lo k && bytes_ltb k hi.
Proof. reflexivity. Qed.
Lemma in_range_t_lopen lo hi k : in_range_t range_lopen lo hi k = bytes_ltb lo k && bytes_leb k hi.
Proof. reflexivity. Qed.

Lemma filter_map {A B} (f : A -> B) (p : B -> bool) (l : list A) :
  filter p (map f l) = map f (filter (fun x => p (f x)) l).
Proof. induction l as [|x l IH]; [reflexivity|]. cbn [map filter]. destruct (p (f x)); cbn [map]; now rewrite IH. Qed.

Lemma filter_ext_Forall {A} (P : A -> Prop) (p q : A -> bool) (l : list A) :
  Forall P l -> (forall x, P x -> p x = q x) -> filter p l = filter q l.
Proof.
  intros HF H. induction HF as [|x l Hx HF IH]; [reflexivity|]. cbn [filter]. rewrite (H x Hx), IH. reflexivity.
Qed.

Lemma bool_eq_iff (a b : bool) : (a = true <-> b = true) -> a = b.
Proof. destruct a, b; intuition congruence. Qed.

(* membership of an engine key in a collection, decidable form *)
Definition is_member_of (dt : N) (t k : bytes) (x : ekey) : bool :=
  match x with
  | KColl dt' t' k' _ => (dt' =? dt) && bytes_eqb t' t && bytes_eqb k' k
  | _ => false
  end.
Lemma is_member_of_spec dt t k x : is_member_of dt t k x = true <-> exists sub, x = KColl dt t k sub.
Proof.
  destruct x; cbn [is_member_of]; try (split; [discriminate|intros [s H]; discriminate]).
  rewrite !andb_true_iff, N.eqb_eq, !bytes_eqb_eq. split.
  - intros [[-> ->] ->]. eauto.
  - intros [s H]. injection H as -> -> -> _. auto.
Qed.

(* the generic statement: a right-open range over [start, stop) of a hash/set/zset collection *)
Lemma coll_range_iter_exact dt t k xs : is_coll_type dt = true -> no_sep t -> len16 k -> Forall wf_ekey xs ->
  range_iter range_ropen (coll_start_key dt t k) (coll_stop_key dt t k) (map encode_ekey xs) =
  map encode_ekey (filter (is_member_of dt t k) xs).
Proof.
  intros Hdt Ht Hk Hxs. unfold range_iter. rewrite filter_map. f_equal.
  apply (filter_ext_Forall wf_ekey); [assumption|]. intros x Hx. rewrite in_range_t_ropen.
  apply bool_eq_iff. rewrite coll_range_iff by assumption. symmetry. apply is_member_of_spec.
Qed.

(* HCLEAR / HMCLEAR / hash expiry delete exactly the fields of the addressed hash ... *)
Theorem hash_clear_exact t k xs : no_sep t -> len16 k -> Forall wf_ekey xs ->
  hash_clear_keys t k (map encode_ekey xs) = map encode_ekey (filter (is_member_of hash_type t k) xs).
Proof. intros. unfold hash_clear_keys. change rtype_hash_hDeleteAll with range_ropen. now apply coll_range_iter_exact. Qed.
(* ... HGETALL reads exactly them ... *)
Theorem hash_read_exact t k xs : no_sep t -> len16 k -> Forall wf_ekey xs ->
  hash_read_keys t k (map encode_ekey xs) = map encode_ekey (filter (is_member_of hash_type t k) xs).
Proof. intros. unfold hash_read_keys. change rtype_hash_hGetAll with range_ropen. now apply coll_range_iter_exact. Qed.
(* ... SCLEAR / SMCLEAR / set expiry: exactly the members of the addressed set, SMEMBERS likewise *)
Theorem set_clear_exact t k xs : no_sep t -> len16 k -> Forall wf_ekey xs ->
  set_clear_keys t k (map encode_ekey xs) = map encode_ekey (filter (is_member_of set_type t k) xs).
Proof. intros. unfold set_clear_keys. change rtype_set_sDelete with range_ropen. now apply coll_range_iter_exact. Qed.
Theorem set_read_exact t k xs : no_sep t -> len16 k -> Forall wf_ekey xs ->
  set_read_keys t k (map encode_ekey xs) = map encode_ekey (filter (is_member_of set_type t k) xs).
Proof. intros. unfold set_read_keys. change rtype_set_sMembersN with range_ropen. now apply coll_range_iter_exact. Qed.

(* WHY the left bound must be closed: the element with the empty sub-key IS the start key *)
Theorem empty_member_is_start_key dt t k : encode_ekey (KColl dt t k []) = coll_start_key dt t k.
Proof. reflexivity. Qed.

Theorem open_left_bound_misses_empty_member dt t k :
  in_range_t range_open (coll_start_key dt t k) (coll_stop_key dt t k) (encode_ekey (KColl dt t k [])) = false /\
  in_range_t range_lopen (coll_start_key dt t k) (coll_stop_key dt t k) (encode_ekey (KColl dt t k [])) = false /\
  in_range_t range_ropen (coll_start_key dt t k) (coll_stop_key dt t k) (encode_ekey (KColl dt t k [])) = true.
Proof.
  rewrite empty_member_is_start_key, in_range_t_open, in_range_t_lopen, in_range_t_ropen.
  rewrite bytes_ltb_irrefl. repeat split.
  destruct (coll_stop_spec dt t k) as (Hs & He & _). rewrite Hs, He.
  apply sep_range_iff. now exists [].
Qed.

(* a clear that iterated the range with both bounds open would leave the empty member behind *)
Theorem clear_with_open_bound_refuted : exists t k xs, no_sep t /\ len16 k /\ Forall wf_ekey xs /\
  range_iter range_open (coll_start_key set_type t k) (coll_stop_key set_type t k) (map encode_ekey xs) <>
  map encode_ekey (filter (is_member_of set_type t k) xs).
Proof.
  exists [116], [107], [KColl set_type [116] [107] []; KColl set_type [116] [107] [97]].
  split; [intros [H|[]]; discriminate|]. split; [unfold len16; cbn; lia|]. split.
  - repeat constructor; try (intros [H|[]]; discriminate); unfold len16; cbn; lia.
  - vm_compute. discriminate.
Qed.

(* BITCLEAR: exactly the segments (index >= 0) of the addressed bitmap *)
Definition is_bitmap_seg_of (t k : bytes) (x : ekey) : bool :=
  match x with
  | KBitmap t' k' i => bytes_eqb t' t && bytes_eqb k' k && (0 <=? i)%Z
  | _ => false
  end.
Theorem bitmap_clear_exact t k xs : no_sep t -> Forall wf_ekey xs ->
  bitmap_clear_keys t k (map encode_ekey xs) = map encode_ekey (filter (is_bitmap_seg_of t k) xs).
Proof.
  intros Ht Hxs. unfold bitmap_clear_keys, range_iter. change rtype_bitmap_BitClear with range_ropen.
  rewrite filter_map. f_equal. apply (filter_ext_Forall wf_ekey); [assumption|]. intros x Hx.
  rewrite in_range_t_ropen. apply bool_eq_iff. rewrite bitmap_range_iff by assumption.
  destruct x; cbn [is_bitmap_seg_of]; try (split; [intros (i & H & _); discriminate|discriminate]).
  rewrite !andb_true_iff, !bytes_eqb_eq, Z.leb_le. split.
  - intros (i & H & Hi). injection H as -> -> ->. auto.
  - intros [[-> ->] Hi]. eauto.
Qed.

(* ZCLEAR / ZREMRANGEBYRANK 0 -1: the closed score-index range holds exactly the score keys of the zset
   (the stop key itself is never an element key), and each one names its member key *)
Definition is_zscore_of (t k : bytes) (x : ekey) : bool :=
  match x with
  | KZScore t' k' _ _ => bytes_eqb t' t && bytes_eqb k' k
  | _ => false
  end.

Lemma in_range_closed_split lo hi k : in_range_closed lo hi k = in_range lo hi k || (bytes_leb lo k && bytes_eqb k hi).
Proof.
  unfold in_range_closed, in_range, bytes_leb, bytes_ltb.
  destruct (bytes_eqb k hi) eqn:E.
  - apply bytes_eqb_eq in E. subst. rewrite bytes_cmp_refl. destruct (bytes_cmp lo hi); reflexivity.
  - destruct (bytes_cmp k hi) eqn:C; try (destruct (bytes_cmp lo k); reflexivity).
    apply bytes_cmp_eq in C. subst. now rewrite bytes_eqb_refl in E.
Qed.

Lemma zstop_not_element t k x : no_sep t -> wf_ekey x -> encode_ekey x <> z_encode_stop_key t k.
Proof.
  intros Ht Hx E.
  change (z_encode_stop_key t k) with (table_prefix zscore_type t ++
    encode_vals [MBytes k; MInt 59; MFloat 0; MInt 58; MBytes []]) in E.
  apply encode_with_table_prefix in E; [|assumption|reflexivity|assumption].
  destruct E as (Hty & _ & Hrest). destruct (wf_type_zscore x Hx Hty) as (t' & k' & sc & m & ->).
  cbn [ekey_rest wf_ekey] in *. destruct Hx as [_ Fs].
  apply encode_vals_inj in Hrest; [|mvals_ok|pose proof float_ok_0; mvals_ok].
  cbn [map mval_norm] in Hrest. change (Z.of_N zset_key_sep) with 58%Z in Hrest. discriminate.
Qed.

Theorem zset_clear_score_keys_exact t k xs : no_sep t -> Forall wf_ekey xs ->
  zset_clear_score_keys t k (map encode_ekey xs) = map encode_ekey (filter (is_zscore_of t k) xs).
Proof.
  intros Ht Hxs. unfold zset_clear_score_keys, range_iter. change rtype_zset_zRemRangeBytes with range_close.
  rewrite filter_map. f_equal. apply (filter_ext_Forall wf_ekey); [assumption|]. intros x Hx.
  rewrite in_range_t_close, in_range_closed_split.
  assert (Hne : bytes_eqb (encode_ekey x) (z_encode_stop_key t k) = false).
  { destruct (bytes_eqb _ _) eqn:E; [|reflexivity]. apply bytes_eqb_eq in E. now apply zstop_not_element in E. }
  rewrite Hne, andb_false_r, orb_false_r.
  apply bool_eq_iff. rewrite zscore_range_iff by assumption.
  destruct x; cbn [is_zscore_of]; try (split; [intros (sc & m & H); discriminate|discriminate]).
  rewrite !andb_true_iff, !bytes_eqb_eq. split.
  - intros (sc & m & H). injection H as -> -> _ _. auto.
  - intros [-> ->]. eauto.
Qed.

Theorem zset_member_key_of_score_key_spec t k sc m : len16 t -> float_ok sc ->
  zset_member_key_of_score_key t k (encode_ekey (KZScore t k sc m)) = Some (encode_ekey (KColl zset_type t k m)).
Proof.
  intros Ht Hs. unfold zset_member_key_of_score_key. cbn [encode_ekey].
  now rewrite z_decode_score_key_encode.
Qed.

(* LCLEAR: the closed range [head seq key, tail seq key] holds exactly the elements head..tail of the list *)
Lemma list_range_gen t k a b x : no_sep t -> len16 k -> wf_ekey x ->
  (0 <= a)%Z -> int64_ok a -> (0 <= b)%Z -> int64_ok b ->
  in_range_closed (l_encode_list_key t k a) (l_encode_list_key t k b) (encode_ekey x) = true <->
  exists seq, x = KList t k seq /\ (a <= seq <= b)%Z.
Proof.
  intros Ht Hk Hx Ha Ha' Hb Hb'. rewrite !list_key_base, in_range_closed_iff.
  assert (Hcmp : forall seq, int64_ok seq ->
    in_range_closed (be 8 (u64_of_z a)) (be 8 (u64_of_z b)) (be 8 (u64_of_z seq)) = true <-> (a <= seq <= b)%Z).
  { intros seq Hs. unfold in_range_closed. rewrite andb_true_iff, !bytes_leb_cmp.
    rewrite !be_cmp_exact by (rewrite <- two64_pow; apply u64_of_z_lt).
    rewrite !N.compare_le_iff. unfold int64_ok in *.
    rewrite (u64_of_z_nonneg a), (u64_of_z_nonneg b) by lia.
    destruct (Z.ltb_spec seq 0).
    - rewrite u64_of_z_neg by lia. lia.
    - rewrite u64_of_z_nonneg by lia. lia. }
  split.
  - intros [s [E Hr]]. unfold list_base in E. rewrite <- app_assoc in E.
    apply encode_with_table_prefix in E; [|assumption|reflexivity|assumption].
    destruct E as (Hty & Htab & Hrest).
    destruct (wf_type_list x Hx Hty) as (t' & k' & seq & ->).
    cbn [ekey_table ekey_rest wf_ekey] in *. subst t'. destruct Hx as (_ & Lk & Sq).
    rewrite <- app_assoc in Hrest. apply len16_prefixed_inj in Hrest; [|assumption|assumption].
    destruct Hrest as [-> <-]. exists seq. split; [reflexivity|]. now apply Hcmp.
  - intros [seq [-> Hs]]. exists (be 8 (u64_of_z seq)). split; [apply list_key_base|].
    apply Hcmp; [|assumption]. cbn in Hx. tauto.
Qed.

Definition is_list_elem_of (t k : bytes) (a b : Z) (x : ekey) : bool :=
  match x with
  | KList t' k' s => bytes_eqb t' t && bytes_eqb k' k && (a <=? s)%Z && (s <=? b)%Z
  | _ => false
  end.

Theorem list_clear_exact t k head tail xs : no_sep t -> len16 k -> Forall wf_ekey xs ->
  (0 <= head)%Z -> int64_ok head -> (0 <= tail)%Z -> int64_ok tail ->
  list_clear_keys t k head tail (map encode_ekey xs) = map encode_ekey (filter (is_list_elem_of t k head tail) xs).
Proof.
  intros Ht Hk Hxs H1 H2 H3 H4. unfold list_clear_keys, range_iter. change rtype_list_lDelete with range_close.
  rewrite filter_map. f_equal. apply (filter_ext_Forall wf_ekey); [assumption|]. intros x Hx.
  rewrite in_range_t_close. apply bool_eq_iff. rewrite list_range_gen by assumption.
  destruct x; cbn [is_list_elem_of]; try (split; [intros (s & H & _); discriminate|discriminate]).
  rewrite !andb_true_iff, !bytes_eqb_eq, !Z.leb_le. split.
  - intros (s & H & Hs). injection H as -> -> ->. tauto.
  - intros [[[-> ->] Ha] Hb]. eauto.
Qed.

(* ---------- whole-table delete (DeleteTableRange, fix afc5d56 included) ---------- *)

Lemma in_ranges_app a b k : in_ranges (a ++ b) k = in_ranges a k || in_ranges b k.
Proof. unfold in_ranges. apply existsb_app. Qed.
Lemma in_ranges_cons lo hi r k : in_ranges ((lo, hi) :: r) k = in_range lo hi k || in_ranges r k.
Proof. reflexivity. Qed.

(* the key types a whole-table delete must cover: every table-prefixed data type and every size/meta record *)
Definition table_delete_covers (ty : N) : bool := is_table_type ty || is_meta_type ty.

Lemma delete_table_ranges_eq t : delete_table_ranges t =
  [ (encode_kv_key (pack_redis_key t []), encode_data_table_end kv_type t);
    (encode_data_table_start kv_type t, encode_data_table_end kv_type t);
    (coll_key hash_type t [] [], encode_data_table_end hash_type t);
    (size_key hsize_type (t ++ [table_start_sep]), size_key hsize_type (t ++ [table_start_sep + 1]));
    (l_encode_list_key t [] list_min_seq, encode_data_table_end list_type t);
    (size_key lmeta_type (t ++ [table_start_sep]), size_key lmeta_type (t ++ [table_start_sep + 1]));
    (coll_key set_type t [] [], encode_data_table_end set_type t);
    (size_key ssize_type (t ++ [table_start_sep]), size_key ssize_type (t ++ [table_start_sep + 1]));
    (coll_key zset_type t [] [], encode_data_table_end zset_type t);
    (z_encode_start_key t [], encode_data_table_end zscore_type t);
    (size_key zsize_type (t ++ [table_start_sep]), size_key zsize_type (t ++ [table_start_sep + 1]));
    (encode_data_table_start bitmap_type t, encode_data_table_end bitmap_type t);
    (encode_data_table_start json_type t, encode_data_table_end json_type t);
    (size_key bitmap_meta_type (t ++ [table_start_sep]), size_key bitmap_meta_type (t ++ [table_start_sep + 1])) ].
Proof.
  unfold delete_table_ranges. cbn [flat_map fst snd].
  rewrite get_table_meta_range_kv.
  rewrite !get_table_meta_range_whole by reflexivity.
  reflexivity.
Qed.

Lemma wf_type_meta x : wf_ekey x -> is_meta_type (ekey_type x) = true -> exists ty t rk, x = KMeta ty t rk.
Proof.
  intros Hx Hm. destruct x; cbn [ekey_type wf_ekey] in *; try (vm_compute in Hm; discriminate); eauto.
  destruct Hx as [Hx _]. apply is_coll_type_cases in Hx. destruct Hx as [->|[->| ->]]; vm_compute in Hm; discriminate.
Qed.

(* MAIN: DeleteTableRange(table) deletes exactly the keys of that table, of every data type and every
   size/meta record (the table key counter is deleted separately; table index meta and expire-queue keys are
   not table-prefixed and are not its business) *)
Theorem delete_table_exact t x : no_sep t -> wf_ekey x -> ekey_key_nonempty x ->
  in_ranges (delete_table_ranges t) (encode_ekey x) = true <->
  ekey_table x = t /\ table_delete_covers (ekey_type x) = true.
Proof.
  intros Ht Hx Hne. rewrite delete_table_ranges_eq.
  change (encode_kv_key (pack_redis_key t [])) with (encode_data_table_start kv_type t).
  repeat rewrite in_ranges_cons. change (in_ranges [] (encode_ekey x)) with false.
  rewrite !orb_true_iff.
  rewrite !(table_range_iff _ t x) by (assumption || reflexivity).
  rewrite (whole_table_coll_one hash_type t x), (whole_table_coll_one set_type t x), (whole_table_coll_one zset_type t x)
    by (assumption || reflexivity).
  rewrite (whole_table_list_one t x), (whole_table_zscore_one t x) by assumption.
  rewrite !(meta_table_range_iff _ t x) by (assumption || reflexivity).
  unfold table_delete_covers. split.
  - intros H.
    repeat match goal with H : _ \/ _ |- _ => destruct H as [H|H] end;
      try discriminate H;
      try (destruct H as [H1 H2]; split; [exact H2|rewrite H1; reflexivity]);
      try (destruct H as [rk ->]; split; reflexivity).
  - intros [Htab Hc]. apply orb_true_iff in Hc. destruct Hc as [Hc|Hc].
    + apply is_table_type_cases in Hc.
      destruct Hc as [Hc|[Hc|[Hc|[Hc|[Hc|[Hc|[Hc|Hc]]]]]]]; change 21 with kv_type in *; change 22 with hash_type in *;
        change 29 with set_type in *; change 26 with zset_type in *; change 24 with list_type in *;
        change 28 with zscore_type in *; change 32 with bitmap_type in *; change 31 with json_type in *; tauto.
    + destruct (wf_type_meta x Hx Hc) as (ty & t' & rk & ->). cbn [ekey_table ekey_type] in *. subst t'.
      apply is_meta_type_cases in Hc.
      destruct Hc as [->|[->|[->|[->| ->]]]]; change 23 with hsize_type; change 30 with ssize_type;
        change 27 with zsize_type; change 25 with lmeta_type; change 33 with bitmap_meta_type; eauto 20.
Qed.

(* before fix afc5d56 the bitmap and json keys of the table survived a whole-table delete *)
Theorem delete_table_without_bitmap_json_refuted :
  let old_ranges t := firstn 11 (delete_table_ranges t) in
  exists t x, no_sep t /\ wf_ekey x /\ ekey_table x = t /\ table_delete_covers (ekey_type x) = true /\
              in_ranges (old_ranges t) (encode_ekey x) = false.
Proof.
  exists [116], (KJson [116] [107]). repeat split; try (intros [H|[]]; discriminate).
Qed.

(* ---------- LTRIM above RangeDeleteNum: the DeleteRange over sequence keys ---------- *)

Lemma list_range_ropen_gen t k a b x : no_sep t -> len16 k -> wf_ekey x ->
  (0 <= a)%Z -> int64_ok a -> (0 <= b)%Z -> int64_ok b ->
  in_range (l_encode_list_key t k a) (l_encode_list_key t k b) (encode_ekey x) = true <->
  exists seq, x = KList t k seq /\ (a <= seq < b)%Z.
Proof.
  intros Ht Hk Hx Ha Ha' Hb Hb'. rewrite !list_key_base, in_range_iff.
  assert (Hcmp : forall seq, int64_ok seq ->
    in_range (be 8 (u64_of_z a)) (be 8 (u64_of_z b)) (be 8 (u64_of_z seq)) = true <-> (a <= seq < b)%Z).
  { intros seq Hs. unfold in_range. rewrite andb_true_iff, bytes_leb_cmp, bytes_ltb_cmp.
    rewrite !be_cmp_exact by (rewrite <- two64_pow; apply u64_of_z_lt).
    rewrite N.compare_le_iff, N.compare_lt_iff. unfold int64_ok in *.
    rewrite (u64_of_z_nonneg a), (u64_of_z_nonneg b) by lia.
    destruct (Z.ltb_spec seq 0).
    - rewrite u64_of_z_neg by lia. lia.
    - rewrite u64_of_z_nonneg by lia. lia. }
  split.
  - intros [s [E Hr]]. unfold list_base in E. rewrite <- app_assoc in E.
    apply encode_with_table_prefix in E; [|assumption|reflexivity|assumption].
    destruct E as (Hty & Htab & Hrest).
    destruct (wf_type_list x Hx Hty) as (t' & k' & seq & ->).
    cbn [ekey_table ekey_rest wf_ekey] in *. subst t'. destruct Hx as (_ & Lk & Sq).
    rewrite <- app_assoc in Hrest. apply len16_prefixed_inj in Hrest; [|assumption|assumption].
    destruct Hrest as [-> <-]. exists seq. split; [reflexivity|]. now apply Hcmp.
  - intros [seq [-> Hs]]. exists (be 8 (u64_of_z seq)). split; [apply list_key_base|].
    apply Hcmp; [|assumption]. cbn in Hx. tauto.
Qed.

Lemma delete_range_map (lo hi : bytes) (xs : list ekey) (p : ekey -> bool) : Forall wf_ekey xs ->
  (forall x, wf_ekey x -> in_range lo hi (encode_ekey x) = p x) ->
  delete_range lo hi (map encode_ekey xs) = map encode_ekey (filter (fun x => negb (p x)) xs).
Proof.
  intros Hxs H. unfold delete_range. rewrite filter_map. f_equal.
  apply (filter_ext_Forall wf_ekey); [assumption|]. intros x Hx. now rewrite H.
Qed.

(* the head-end DeleteRange of LTRIM removes exactly the elements below the new head ... *)
Theorem ltrim_head_exact t k head start xs : no_sep t -> len16 k -> Forall wf_ekey xs ->
  (0 <= head)%Z -> (0 < start)%Z -> int64_ok head -> int64_ok (head + start) ->
  delete_range (fst (ltrim_head_range t k head start)) (snd (ltrim_head_range t k head start)) (map encode_ekey xs) =
  map encode_ekey (filter (fun x => negb (is_list_elem_of t k head (head + start - 1) x)) xs).
Proof.
  intros Ht Hk Hxs H0 Hs Hh Hhs. apply delete_range_map; [assumption|]. intros x Hx. cbn [ltrim_head_range fst snd].
  apply bool_eq_iff. rewrite list_range_ropen_gen; try assumption; try lia.
  destruct x; cbn [is_list_elem_of]; try (split; [intros (s & H & _); discriminate|discriminate]).
  rewrite !andb_true_iff, !bytes_eqb_eq, !Z.leb_le. split.
  - intros (s & H & Hr). injection H as -> -> ->. repeat split; try reflexivity; lia.
  - intros [[[-> ->] A] B]. exists seq. split; [reflexivity|lia].
Qed.

(* ... in particular the new head element survives, and one sequence more would delete it *)
Theorem ltrim_head_keeps_new_head t k head start : no_sep t -> len16 k ->
  (0 <= head)%Z -> (0 < start)%Z -> int64_ok head -> int64_ok (head + start) -> int64_ok (head + start + 1) ->
  in_range (fst (ltrim_head_range t k head start)) (snd (ltrim_head_range t k head start))
           (encode_ekey (KList t k (head + start))) = false /\
  in_range (l_encode_list_key t k head) (l_encode_list_key t k (head + start + 1))
           (encode_ekey (KList t k (head + start))) = true.
Proof.
  intros Ht Hk H0 Hs Hh Hhs Hhs1. cbn [ltrim_head_range fst snd].
  assert (Hw : wf_ekey (KList t k (head + start))) by (cbn; tauto).
  split.
  - destruct (in_range _ _ _) eqn:E; [|reflexivity].
    apply list_range_ropen_gen in E; try assumption; try lia. destruct E as (s & Hq & Hr). injection Hq as <-. lia.
  - apply list_range_ropen_gen; try assumption; try lia. exists (head + start)%Z. split; [reflexivity|lia].
Qed.

(* the tail-end DeleteRange removes exactly the elements after the new tail *)
Theorem ltrim_tail_exact t k head stop llen xs : no_sep t -> len16 k -> Forall wf_ekey xs ->
  (0 <= head)%Z -> (0 <= stop)%Z -> (stop < llen)%Z -> int64_ok head -> int64_ok (head + llen) ->
  delete_range (fst (ltrim_tail_range t k head stop llen)) (snd (ltrim_tail_range t k head stop llen)) (map encode_ekey xs) =
  map encode_ekey (filter (fun x => negb (is_list_elem_of t k (head + stop + 1) (head + llen - 1) x)) xs).
Proof.
  intros Ht Hk Hxs H0 Hs Hl Hh Hhl. apply delete_range_map; [assumption|]. intros x Hx. cbn [ltrim_tail_range fst snd].
  assert (int64_ok (head + stop + 1)) by (unfold int64_ok in *; lia).
  apply bool_eq_iff. rewrite list_range_ropen_gen; try assumption; try lia.
  destruct x; cbn [is_list_elem_of]; try (split; [intros (s & Hq & _); discriminate|discriminate]).
  rewrite !andb_true_iff, !bytes_eqb_eq, !Z.leb_le. split.
  - intros (s & Hq & Hr). injection Hq as -> -> ->. repeat split; try reflexivity; lia.
  - intros [[[-> ->] A] B]. exists seq. split; [reflexivity|lia].
Qed.
