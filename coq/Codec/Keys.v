(* Codec/Keys.v — C12: the engine-key encoders / decoders / range builders of rockredis.
   Hand-written model of:
     rockredis/t_table.go       extractTableFromRedisKey, packRedisKey, encodeTableMetaKey, decodeTableMetaKey,
                                encodeTableMetaStartKey/StopKey, encodeTableIndexMetaKey (+decode, Start/Stop),
                                getDataTablePrefixBufLen + encodeDataTablePrefixToBuf (= table_prefix),
                                decodeDataTablePrefixFromBuf, encodeDataTableStart, encodeDataTableEnd
     rockredis/t_collections.go encodeCollSubKey, decodeCollSubKey, encodeMetaKey
     rockredis/t_kv.go          convertRedisKeyToDBKVKey, checkKeySize, encodeKVKey, decodeKVKey
     rockredis/t_hash.go        hEncodeSizeKey, hDecodeSizeKey, hEncodeHashKey, hDecodeHashKey, hEncodeStartKey, hEncodeStopKey
     rockredis/t_set.go         sEncodeSizeKey, sDecodeSizeKey, sEncodeSetKey, sDecodeSetKey, sEncodeStartKey, sEncodeStopKey
     rockredis/t_zset.go        zEncodeSizeKey, zDecodeSizeKey, zEncodeSetKey, zDecodeSetKey, zEncodeStartSetKey,
                                zEncodeStopSetKey, zEncodeScoreKeyInternal, zEncodeScoreKey, zEncodeStartScoreKey,
                                zEncodeStopScoreKey, zEncodeStartKey, zEncodeStopKey, zDecodeScoreKey
     rockredis/t_list.go        lEncodeMetaKey, lDecodeMetaKey, lEncodeMinKey, lEncodeMaxKey, lEncodeListKey, lDecodeListKey
     rockredis/t_bitmap.go      bitEncodeMetaKey, bitDecodeMetaKey, encodeBitmapKey, decodeBitmapKey,
                                encodeBitmapStartKey, encodeBitmapStopKey
     rockredis/t_json.go        encodeJSONKey, decodeJSONKey, encodeJSONStartKey, encodeJSONStopKey
     rockredis/t_ttl.go         expEncodeTimeKey, expDecodeTimeKey, expEncodeMetaKey, expDecodeMetaKey
     rockredis/t_ttl_compact.go encodeVerKey, decodeVerKey
     rockredis/fullscan.go      encodeFullScanMinKey / encodeFullScanKey (the part getTableDataRange uses)
     rockredis/rockredis.go     getTableDataRange, getTableMetaRange
     common/limit.go            CheckKey, CheckSubKey, CheckKeySubKey
   A decoder returns [Err] where Go returns a non-nil error and [Panic] where Go faults (index out of
   range on a truncated key, failed type assertion).
   No proofs in this file. *)
From ZV Require Export Common.Bytes Codec.MemCmp.
From ZV Require Import Codec.Consts.
Open Scope N_scope.

(* ---------- helpers ---------- *)

(* k[len(k)-1] = k[len(k)-1] + 1 (byte arithmetic). Every caller passes a non-empty key
   (at least the type byte), so the empty case — a Go index panic — never arises. *)
Fixpoint incr_last (k : bytes) : bytes :=
  match k with
  | [] => []
  | [c] => [(c + 1) mod 256]
  | x :: r => x :: incr_last r
  end.
Fixpoint set_last (k : bytes) (v : N) : bytes :=
  match k with
  | [] => []
  | [c] => [v]
  | x :: r => x :: set_last r v
  end.

Definition is_coll_type (dt : N) : bool := (dt =? hash_type) || (dt =? set_type) || (dt =? zset_type).

(* ---------- common/limit.go ---------- *)

Definition check_key (key : bytes) : bool :=                       (* CheckKey: true = nil error *)
  negb ((N.to_nat max_key_size <? length key)%nat || (length key =? 0)%nat).
Definition check_sub_key (sub : bytes) : bool :=
  negb (N.to_nat max_sub_key_len <? length sub)%nat.
Definition check_key_sub_key (key field : bytes) : bool :=
  check_key key && check_sub_key field.

(* ---------- t_table.go ---------- *)

(* extractTableFromRedisKey: split at the first tableStartSep *)
Fixpoint split_first (sep : N) (bs : bytes) : option (bytes * bytes) :=
  match bs with
  | [] => None
  | x :: r => if x =? sep then Some ([], r)
              else match split_first sep r with
                   | Some (a, b) => Some (x :: a, b)
                   | None => None
                   end
  end.
Definition extract_table (key : bytes) : res (bytes * bytes) :=
  match split_first table_start_sep key with Some p => Ok p | None => Err end.
Definition pack_redis_key (table key : bytes) : bytes := table ++ table_start_sep :: key.

Definition encode_table_meta_key (table : bytes) : bytes := table_meta_type :: meta_prefix ++ table.
Definition decode_table_meta_key (tk : bytes) : res bytes :=
  match tk with
  | [] => Err
  | t :: r => if (length tk <? 1 + length meta_prefix)%nat || negb (t =? table_meta_type) then Err
              else Ok (skipn (length meta_prefix) r)
  end.
Definition encode_table_meta_start_key : bytes := encode_table_meta_key [].
Definition encode_table_meta_stop_key : bytes := incr_last (encode_table_meta_key []).

Definition encode_table_index_meta_key (table : bytes) (itype : N) : bytes :=
  table_index_meta_type :: meta_prefix ++ itype :: table.
Definition decode_table_index_meta_key (tk : bytes) : res (N * bytes) :=
  match tk with
  | [] => Err
  | t :: r => if (length tk <? 2 + length meta_prefix)%nat || negb (t =? table_index_meta_type) then Err
              else match skipn (length meta_prefix) r with
                   | it :: tb => Ok (it, tb)
                   | [] => Panic
                   end
  end.
Definition encode_table_index_meta_start_key (itype : N) : bytes := encode_table_index_meta_key [] itype.
Definition encode_table_index_meta_stop_key (itype : N) : bytes := incr_last (encode_table_index_meta_key [] itype).

(* encodeDataTablePrefixToBuf: [dt][len16 unless KV] table ':' *)
Definition table_prefix (dt : N) (table : bytes) : bytes :=
  dt :: (if dt =? kv_type then [] else be16 (length table)) ++ table ++ [table_start_sep].
Definition encode_data_table_start (dt : N) (table : bytes) : bytes := table_prefix dt table.
Definition encode_data_table_end (dt : N) (table : bytes) : bytes := incr_last (table_prefix dt table).

(* decodeDataTablePrefixFromBuf(buf, dt): (table, rest after the separator); Go returns pos = len buf - len rest.
   It always reads a 2-byte length (also for KV). buf[pos] after the table is not bounds-checked. *)
Definition decode_table_prefix (buf : bytes) (dt : N) : res (bytes * bytes) :=
  match buf with
  | [] => Err
  | b0 :: r =>
      if negb (b0 =? dt) then Err else
      match r with
      | h :: l :: r2 =>
          let n := N.to_nat (h * 256 + l) in
          if (length r2 <? n)%nat then Err else
          match skipn n r2 with
          | [] => Panic
          | s :: rest => if s =? table_start_sep then Ok (firstn n r2, rest) else Err
          end
      | _ => Err
      end
  end.

(* ---------- t_collections.go ---------- *)

(* the body of encodeCollSubKey for any dt *)
Definition coll_key (dt : N) (table key subkey : bytes) : bytes :=
  table_prefix dt table ++ be16 (length key) ++ key ++ coll_start_sep :: subkey.
Definition encode_coll_sub_key (dt : N) (table key subkey : bytes) : res bytes :=
  if is_coll_type dt then Ok (coll_key dt table key subkey) else Panic.

(* decodeCollSubKey: (dt, table, key, subkey) *)
Definition decode_coll_sub_key (dbk : bytes) : res (N * bytes * bytes * bytes) :=
  match dbk with
  | [] => Panic
  | dt :: _ =>
      if negb (is_coll_type dt) then Err else
      match decode_table_prefix dbk dt with
      | Err => Err
      | Panic => Panic
      | Ok (table, r) =>
          match r with
          | h :: l :: r2 =>
              let n := N.to_nat (h * 256 + l) in
              if (length r2 <? n)%nat then Err else
              match skipn n r2 with
              | [] => Panic
              | s :: sub => if s =? coll_start_sep then Ok (dt, table, firstn n r2, sub) else Err
              end
          | _ => Err
          end
      end
  end.
(* hDecodeHashKey / sDecodeSetKey / zDecodeSetKey: additionally the type must match *)
Definition decode_coll_key_typed (want : N) (ek : bytes) : res (bytes * bytes * bytes) :=
  match decode_coll_sub_key ek with
  | Ok (dt, table, key, sub) => if dt =? want then Ok (table, key, sub) else Err
  | Err => Err
  | Panic => Panic
  end.

(* ---------- meta ("size") keys: t_kv.go, t_hash.go, t_set.go, t_zset.go, t_list.go, t_bitmap.go ---------- *)

Definition encode_kv_key (key : bytes) : bytes := kv_type :: key.
Definition decode_kv_key (ek : bytes) : res bytes :=
  match ek with
  | [] => Err
  | t :: r => if t =? kv_type then Ok r else Err
  end.

(* [t]"meta:"key — hEncodeSizeKey, sEncodeSizeKey, zEncodeSizeKey, lEncodeMetaKey, bitEncodeMetaKey *)
Definition size_key (t : N) (key : bytes) : bytes := t :: meta_prefix ++ key.
Definition decode_size_key (t : N) (ek : bytes) : res bytes :=
  match ek with
  | [] => Err
  | t0 :: r => if (length ek <? 1 + length meta_prefix)%nat || negb (t0 =? t) then Err
               else Ok (skipn (length meta_prefix) r)
  end.

(* encodeMetaKey(dt, key) *)
Definition encode_meta_key (dt : N) (key : bytes) : res bytes :=
  if dt =? kv_type then Ok (encode_kv_key key)
  else if (dt =? hash_type) || (dt =? hsize_type) then Ok (size_key hsize_type key)
  else if (dt =? set_type) || (dt =? ssize_type) then Ok (size_key ssize_type key)
  else if (dt =? bitmap_type) || (dt =? bitmap_meta_type) then Ok (size_key bitmap_meta_type key)
  else if (dt =? list_type) || (dt =? lmeta_type) then Ok (size_key lmeta_type key)
  else if (dt =? zset_type) || (dt =? zsize_type) || (dt =? zscore_type) then Ok (size_key zsize_type key)
  else Err.

Definition l_encode_min_key : bytes := size_key lmeta_type [].
Definition l_encode_max_key : bytes := incr_last (size_key lmeta_type []).

(* convertRedisKeyToDBKVKey: (table, db key) *)
Definition convert_redis_key_to_db_kv_key (key : bytes) : res (bytes * bytes) :=
  let table := match extract_table key with Ok (t, _) => t | _ => [] end in
  if (length table =? 0)%nat then Err
  else if negb (check_key key) then Err
  else Ok (table, encode_kv_key key).

(* ---------- hash / set / zset member keys and their ranges ---------- *)

Definition coll_start_key (dt : N) (table key : bytes) : bytes := coll_key dt table key [].
(* hEncodeStopKey, zEncodeStopSetKey: last byte + 1 *)
Definition coll_stop_key_incr (dt : N) (table key : bytes) : bytes := incr_last (coll_key dt table key []).
(* sEncodeStopKey: last byte := collStopSep *)
Definition coll_stop_key_set (dt : N) (table key : bytes) : bytes := set_last (coll_key dt table key []) coll_stop_sep.
Definition coll_stop_key (dt : N) (table key : bytes) : bytes :=
  if dt =? set_type then coll_stop_key_set dt table key else coll_stop_key_incr dt table key.

(* ---------- t_list.go ---------- *)

Definition l_encode_list_key (table key : bytes) (seq : Z) : bytes :=
  table_prefix list_type table ++ be16 (length key) ++ key ++ be 8 (u64_of_z seq).
Definition l_decode_list_key (ek : bytes) : res (bytes * bytes * Z) :=
  match decode_table_prefix ek list_type with
  | Err => Err
  | Panic => Panic
  | Ok (table, r) =>
      match r with
      | h :: l :: r2 =>
          let n := N.to_nat (h * 256 + l) in
          if negb (length r2 =? n + 8)%nat then Err
          else Ok (table, firstn n r2, z_of_u64 (from_be (skipn n r2)))
      | _ => Err
      end
  end.

(* ---------- t_zset.go score index ---------- *)

Definition z_encode_score_key_internal (min_score stop_key stop_member : bool)
           (table key member : bytes) (score : N) : bytes :=
  let sep := if min_score then (zset_key_sep - 1)
             else if stop_key then (zset_key_sep + 1) else zset_key_sep in
  let score_sep := if stop_member then zset_score_sep + 1 else zset_score_sep in
  table_prefix zscore_type table ++
  encode_vals [MBytes key; MInt (Z.of_N sep); MFloat score; MInt (Z.of_N score_sep); MBytes member].
Definition z_encode_score_key (stop_key stop_member : bool) (table key member : bytes) (score : N) : bytes :=
  z_encode_score_key_internal false stop_key stop_member table key member score.
Definition z_encode_start_score_key (table key : bytes) (score : N) : bytes :=
  z_encode_score_key false false table key [] score.
Definition z_encode_stop_score_key (table key : bytes) (score : N) : bytes :=
  z_encode_score_key false true table key [] score.
Definition z_encode_start_key (table key : bytes) : bytes :=
  z_encode_score_key_internal true false false table key [] 0.
Definition z_encode_stop_key (table key : bytes) : bytes :=
  z_encode_score_key true false table key [] 0.

(* zDecodeScoreKey: (table, key, member, score) *)
Definition z_decode_score_key (ek : bytes) : res (bytes * bytes * bytes * N) :=
  match decode_table_prefix ek zscore_type with
  | Err => Err
  | Panic => Panic
  | Ok (table, r) =>
      match decode_vals r with
      | Err => Err
      | Panic => Panic
      | Ok [MBytes key; _; MFloat score; _; MBytes member] => Ok (table, key, member, score)
      | Ok _ => Err
      end
  end.

(* ---------- t_bitmap.go ---------- *)

Definition encode_bitmap_key (table key : bytes) (index : Z) : bytes :=
  table_prefix bitmap_type table ++ encode_vals [MBytes key; MInt (Z.of_N col_start_sep); MInt index].
Definition encode_bitmap_stop_key (table key : bytes) : bytes :=
  table_prefix bitmap_type table ++ encode_vals [MBytes key; MInt (Z.of_N (col_start_sep + 1)); MInt 0].
(* decodeBitmapKey: rets[0], rets[2] are indexed without a length check; failed type assertions give zero values *)
Definition decode_bitmap_key (ek : bytes) : res (bytes * bytes * Z) :=
  match decode_table_prefix ek bitmap_type with
  | Err => Err
  | Panic => Panic
  | Ok (table, r) =>
      match decode_vals r with
      | Err => Err
      | Panic => Panic
      | Ok (v0 :: _ :: v2 :: _) =>
          Ok (table, match v0 with MBytes b => b | _ => [] end, match v2 with MInt i => i | _ => 0%Z end)
      | Ok _ => Panic
      end
  end.

(* ---------- t_json.go ---------- *)

Definition encode_json_key (table key : bytes) : bytes :=
  table_prefix json_type table ++ encode_vals [MInt (Z.of_N j_sep); MBytes key].
Definition encode_json_start_key (table : bytes) : bytes := encode_json_key table [].
Definition encode_json_stop_key (table : bytes) : bytes :=
  table_prefix json_type table ++ encode_vals [MInt (Z.of_N (j_sep + 1)); MNil].
Definition decode_json_key (ek : bytes) : res (bytes * bytes) :=
  match decode_table_prefix ek json_type with
  | Err => Err
  | Panic => Panic
  | Ok (table, r) =>
      match decode_vals r with
      | Err => Err
      | Panic => Panic
      | Ok (_ :: v1 :: _) => Ok (table, match v1 with MBytes b => b | _ => [] end)
      | Ok _ => Panic
      end
  end.

(* ---------- t_ttl_compact.go: the versioned key ---------- *)

Definition encode_ver_key (ver : Z) (key : bytes) : bytes :=
  encode_vals [MBytes key; MInt (Z.of_N default_sep); MInt ver; MInt (Z.of_N default_sep)].
(* decodeVerKey: vals[0].([]byte) and vals[2].(int64) are unchecked type assertions *)
Definition decode_ver_key (b : bytes) : res (bytes * Z) :=
  match decode_vals b with
  | Err => Err
  | Panic => Panic
  | Ok (v0 :: v1 :: v2 :: v3 :: _) =>
      match v0, v2 with
      | MBytes k, MInt ver => Ok (k, ver)
      | _, _ => Panic
      end
  | Ok _ => Err
  end.

(* ---------- t_ttl.go ---------- *)

Definition exp_encode_time_key (dt : N) (key : bytes) (when : Z) : bytes :=
  exp_time_type :: be 8 (u64_of_z when) ++ dt :: key.
Definition exp_decode_time_key (tk : bytes) : res (N * bytes * Z) :=
  match tk with
  | [] => Err
  | t :: r => if (length tk <? 10)%nat || negb (t =? exp_time_type) then Err
              else match skipn 8 r with
                   | dt :: key => Ok (dt, key, z_of_u64 (from_be (firstn 8 r)))
                   | [] => Panic
                   end
  end.
Definition exp_encode_meta_key (dt : N) (key : bytes) : bytes := exp_meta_type :: dt :: key.
Definition exp_decode_meta_key (mk : bytes) : res (N * bytes) :=
  match mk with
  | t :: dt :: key => if t =? exp_meta_type then Ok (dt, key) else Err
  | _ => Err
  end.

(* ---------- whole-table ranges: rockredis.go getTableDataRange / getTableMetaRange ---------- *)

(* encodeFullScanMinKey(dt, table, key, nil) = encodeFullScanKey(dt, table, key, nil) *)
Definition encode_full_scan_min_key (dt : N) (table key : bytes) : res bytes :=
  if dt =? kv_type then Ok (encode_kv_key (pack_redis_key table key))
  else if dt =? list_type then Ok (l_encode_list_key table key list_min_seq)
  else if is_coll_type dt then Ok (coll_key dt table key [])
  else Err.

(* getTableDataRange(dt, table, start, end): end = None models Go's nil *)
Definition get_table_data_range (dt : N) (table start : bytes) (stop : option bytes)
  : res (list (bytes * bytes)) :=
  match encode_full_scan_min_key dt table start with
  | Err => Err
  | Panic => Panic
  | Ok min_key =>
      match (match stop with
             | None => Ok (encode_data_table_end dt table)
             | Some e => encode_full_scan_min_key dt table e
             end) with
      | Err => Err
      | Panic => Panic
      | Ok max_key =>
          let first := (min_key, max_key) in
          if dt =? zset_type then
            let zmax := match stop with
                        | None => encode_data_table_end zscore_type table
                        | Some e => z_encode_stop_key table e
                        end in
            Ok [first; (z_encode_start_key table start, zmax)]
          else Ok [first]
      end
  end.

(* getTableMetaRange(dt, table, start, end) *)
Definition get_table_meta_range (dt : N) (table start : bytes) (stop : option bytes) : res (bytes * bytes) :=
  match encode_meta_key dt (table ++ table_start_sep :: start) with
  | Err => Err
  | Panic => Panic
  | Ok min_key =>
      let hi := match stop with
                | None => table ++ [(table_start_sep + 1) mod 256]
                | Some e => table ++ table_start_sep :: e
                end in
      match encode_meta_key dt hi with
      | Err => Err
      | Panic => Panic
      | Ok max_key => Ok (min_key, max_key)
      end
  end.

(* ---------- generic byte-range predicates used by the theorems and the oracle ---------- *)

(* k in [lo, hi) *)
Definition in_range (lo hi k : bytes) : bool := bytes_leb lo k && bytes_ltb k hi.
(* k in [lo, hi] *)
Definition in_range_closed (lo hi k : bytes) : bool := bytes_leb lo k && bytes_leb k hi.
