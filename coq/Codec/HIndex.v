(* Codec/HIndex.v — C12: the engine keys of the hash secondary index ("index keys").
   Hand-written model of rockredis/t_hash_index.go:
     encodeHsetIndexNumberKey, encodeHsetIndexStringKey, decodeHsetIndexNumberKey, decodeHsetIndexStringKey,
     encodeHsetIndexStartKey, encodeHsetIndexStopKey, encodeHsetIndex{Number,String}{Start,Stop}Key
   Layout: [IndexDataType][hsetIndexDataType] len16(table) table ':' len16(index name) name ':'
           memcmp(index value (int64 | bytes), sep (':' or ';' for a stop key), primary key)
   No proofs in this file. *)
From ZV Require Export Common.Bytes Codec.MemCmp Codec.Keys.
From ZV Require Import Codec.Consts.
Open Scope N_scope.

Definition hindex_prefix (table name : bytes) : bytes :=
  index_data_type :: hset_index_data_type :: be16 (length table) ++ table ++ hindex_start_sep ::
  be16 (length name) ++ name ++ [hindex_start_sep].

Definition hindex_sep (stop : bool) : Z := Z.of_N (if stop then hindex_start_sep + 1 else hindex_start_sep).

Definition encode_hset_index_number_key (table name : bytes) (v : Z) (pk : bytes) (stop : bool) : bytes :=
  hindex_prefix table name ++ encode_vals [MInt v; MInt (hindex_sep stop); MBytes pk].
Definition encode_hset_index_string_key (table name v pk : bytes) (stop : bool) : bytes :=
  hindex_prefix table name ++ encode_vals [MBytes v; MInt (hindex_sep stop); MBytes pk].

Definition encode_hset_index_start_key (table name : bytes) : bytes := hindex_prefix table name.
Definition encode_hset_index_stop_key (table name : bytes) : bytes := incr_last (hindex_prefix table name).

(* the common head of both decoders: (table, name, rest after the second separator) *)
Definition decode_hindex_head (raw : bytes) : res (bytes * bytes * bytes) :=
  if (length raw <? 8)%nat then Err else
  match raw with
  | t0 :: t1 :: h :: l :: r2 =>
      if negb (t0 =? index_data_type) || negb (t1 =? hset_index_data_type) then Err else
      let n := N.to_nat (h * 256 + l) in
      if (length r2 <? n + 3)%nat then Err else
      match skipn n r2 with
      | s :: h2 :: l2 :: r3 =>
          if negb (s =? hindex_start_sep) then Err else
          let m := N.to_nat (h2 * 256 + l2) in
          if (length r3 <? m + 3)%nat then Err else
          match skipn m r3 with
          | s2 :: rest => if s2 =? hindex_start_sep then Ok (firstn n r2, firstn m r3, rest) else Err
          | [] => Panic
          end
      | _ => Panic
      end
  | _ => Err
  end.

(* decodeHsetIndexNumberKey: (table, name, value, pk); rets[2] is indexed without a length check *)
Definition decode_hset_index_number_key (raw : bytes) : res (bytes * bytes * Z * bytes) :=
  match decode_hindex_head raw with
  | Err => Err
  | Panic => Panic
  | Ok (t, nm, rest) =>
      match decode_vals rest with
      | Err => Err
      | Panic => Panic
      | Ok (v0 :: tl) =>
          match v0 with
          | MInt iv =>
              match tl with
              | _ :: MBytes pk :: _ => Ok (t, nm, iv, pk)
              | _ :: MNil :: _ => Ok (t, nm, iv, [])
              | _ :: _ :: _ => Err
              | _ => Panic
              end
          | _ => Err
          end
      | Ok [] => Panic
      end
  end.

Definition decode_hset_index_string_key (raw : bytes) : res (bytes * bytes * bytes * bytes) :=
  match decode_hindex_head raw with
  | Err => Err
  | Panic => Panic
  | Ok (t, nm, rest) =>
      match decode_vals rest with
      | Err => Err
      | Panic => Panic
      | Ok (v0 :: tl) =>
          match v0 with
          | MBytes sv =>
              match tl with
              | _ :: MBytes pk :: _ => Ok (t, nm, sv, pk)
              | _ :: MNil :: _ => Ok (t, nm, sv, [])
              | _ :: _ :: _ => Err
              | _ => Panic
              end
          | _ => Err
          end
      | Ok [] => Panic
      end
  end.
