(* Codec/ProofsKeys.v — C12: injectivity of the engine-key encoders over the whole key universe *)
From ZV Require Import Common.Bytes Common.BytesFacts Codec.Consts Codec.MemCmp Codec.Keys Codec.Spec
  Codec.ProofsNum Codec.ProofsBytes Codec.ProofsTuple Codec.ProofsRange.
From Coq Require Import ZifyN ZifyNat ZifyBool Lia.
Open Scope N_scope.

(* ---------- type bytes ---------- *)

Lemma is_coll_type_cases dt : is_coll_type dt = true -> dt = 22 \/ dt = 29 \/ dt = 26.
Proof.
  unfold is_coll_type. rewrite !orb_true_iff, !N.eqb_eq. intuition.
Qed.
Lemma is_meta_type_cases t : is_meta_type t = true -> t = 23 \/ t = 30 \/ t = 27 \/ t = 25 \/ t = 33.
Proof.
  unfold is_meta_type. rewrite !orb_true_iff, !N.eqb_eq. intuition.
Qed.

(* the set of types whose keys start with the table prefix *)
Definition is_table_type (dt : N) : bool :=
  (dt =? kv_type) || is_coll_type dt || (dt =? list_type) || (dt =? zscore_type) || (dt =? bitmap_type) || (dt =? json_type).
Lemma is_table_type_cases dt : is_table_type dt = true ->
  dt = 21 \/ dt = 22 \/ dt = 29 \/ dt = 26 \/ dt = 24 \/ dt = 28 \/ dt = 32 \/ dt = 31.
Proof.
  unfold is_table_type, is_coll_type. rewrite !orb_true_iff, !N.eqb_eq. intuition.
Qed.

Lemma wf_type_cases x : wf_ekey x ->
  (is_table_type (ekey_type x) = true /\ is_meta_type (ekey_type x) = false /\ is_other_type (ekey_type x) = false) \/
  (is_table_type (ekey_type x) = false /\ is_meta_type (ekey_type x) = true /\ is_other_type (ekey_type x) = false) \/
  (is_table_type (ekey_type x) = false /\ is_meta_type (ekey_type x) = false /\ is_other_type (ekey_type x) = true).
Proof.
  destruct x; cbn [wf_ekey ekey_type]; intros H; try (left; repeat split; reflexivity);
    try (right; right; repeat split; reflexivity).
  - destruct H as [H _]. right. left.
    apply is_meta_type_cases in H. destruct H as [->|[->|[->|[->| ->]]]]; repeat split; reflexivity.
  - destruct H as [H _]. left. apply is_coll_type_cases in H. destruct H as [->|[->| ->]]; repeat split; reflexivity.
Qed.

(* ---------- shape of the encodings ---------- *)

Lemma encode_ekey_head x : exists r, encode_ekey x = ekey_type x :: r.
Proof. destruct x; cbn; eexists; reflexivity. Qed.

Definition ekey_rest (x : ekey) : bytes :=
  match x with
  | KKV _ rk => rk
  | KMeta _ _ rk => rk
  | KColl _ _ k s => be16 (length k) ++ k ++ coll_start_sep :: s
  | KList _ k seq => be16 (length k) ++ k ++ be 8 (u64_of_z seq)
  | KZScore _ k sc m =>
      encode_vals [MBytes k; MInt (Z.of_N zset_key_sep); MFloat sc; MInt (Z.of_N zset_score_sep); MBytes m]
  | KBitmap _ k i => encode_vals [MBytes k; MInt (Z.of_N col_start_sep); MInt i]
  | KJson _ rk => encode_vals [MInt (Z.of_N j_sep); MBytes rk]
  | _ => []
  end.

Lemma encode_ekey_table x : is_table_type (ekey_type x) = true -> wf_ekey x ->
  encode_ekey x = table_prefix (ekey_type x) (ekey_table x) ++ ekey_rest x.
Proof.
  destruct x; cbn [ekey_type wf_ekey encode_ekey ekey_table ekey_rest]; intros Hm Hw;
    try reflexivity; try (vm_compute in Hm; discriminate).
  - unfold encode_kv_key, pack_redis_key, table_prefix. rewrite N.eqb_refl. cbn [app].
    rewrite <- app_assoc. reflexivity.
  - destruct Hw as [Hw _]. apply is_meta_type_cases in Hw.
    destruct Hw as [->|[->|[->|[->| ->]]]]; vm_compute in Hm; discriminate.
Qed.

Lemma encode_ekey_meta ty t rk : encode_ekey (KMeta ty t rk) = ty :: meta_prefix ++ t ++ table_start_sep :: rk.
Proof. reflexivity. Qed.

(* ---------- the table prefix is self-delimiting for ':'-free tables (any length!) ---------- *)

Lemma table_prefix_app_inj dt t t' x y : no_sep t -> no_sep t' ->
  table_prefix dt t ++ x = table_prefix dt t' ++ y -> t = t' /\ x = y.
Proof.
  unfold table_prefix, no_sep. intros Ht Ht' E. cbn [app] in E. injection E as E.
  destruct (dt =? kv_type).
  - cbn [app] in E. rewrite <- !app_assoc in E. cbn [app] in E. now apply split_unique in E.
  - rewrite <- !app_assoc in E. apply app_eq_len in E; [|now rewrite !be16_length].
    destruct E as [_ E]. cbn [app] in E. now apply split_unique in E.
Qed.

(* ---------- per-constructor injectivity ---------- *)

Lemma len16_prefixed_inj k k' x y : len16 k -> len16 k' ->
  be16 (length k) ++ k ++ x = be16 (length k') ++ k' ++ y -> k = k' /\ x = y.
Proof.
  intros Hk Hk' E. apply app_eq_len in E; [|now rewrite !be16_length].
  destruct E as [El E]. apply be16_inj in El; [|assumption|assumption].
  now apply app_eq_len in E.
Qed.

Lemma u64_of_z_inj a b : int64_ok a -> int64_ok b -> u64_of_z a = u64_of_z b -> a = b.
Proof. intros Ha Hb E. rewrite <- (z_of_u64_of_z a), <- (z_of_u64_of_z b) by assumption. now rewrite E. Qed.

Lemma be8_u64_inj a b : int64_ok a -> int64_ok b -> be 8 (u64_of_z a) = be 8 (u64_of_z b) -> a = b.
Proof.
  intros Ha Hb E. apply u64_of_z_inj; try assumption.
  apply (be_inj 8); try (rewrite <- two64_pow; apply u64_of_z_lt). exact E.
Qed.

Ltac type_clash H :=
  exfalso;
  repeat match goal with
         | W : _ /\ _ |- _ => destruct W
         end;
  repeat match goal with
         | W : is_coll_type _ = true |- _ => apply is_coll_type_cases in W; destruct W as [W|[W|W]]
         | W : is_meta_type _ = true |- _ => apply is_meta_type_cases in W; destruct W as [W|[W|[W|[W|W]]]]
         end;
  subst; try discriminate; vm_compute in H; discriminate.
Ltac type_clash0 :=
  exfalso;
  repeat match goal with
         | W : _ /\ _ |- _ => destruct W
         end;
  repeat match goal with
         | W : is_coll_type _ = true |- _ => apply is_coll_type_cases in W; destruct W as [W|[W|W]]
         | W : is_meta_type _ = true |- _ => apply is_meta_type_cases in W; destruct W as [W|[W|[W|[W|W]]]]
         end;
  subst; discriminate.

Ltac mvals_ok :=
  repeat (apply Forall_cons; [cbn [mval_ok]; first [exact I | assumption | (unfold int64_ok; cbn; lia)]|]);
  apply Forall_nil.

(* MAIN: distinct well-formed keys have distinct encodings, across all types *)
Theorem ekey_inj x y : wf_ekey x -> wf_ekey y -> encode_ekey x = encode_ekey y -> ekey_norm x = ekey_norm y.
Proof.
  intros Hx Hy E.
  assert (Ht : ekey_type x = ekey_type y).
  { destruct (encode_ekey_head x) as [r Hr], (encode_ekey_head y) as [r' Hr']. congruence. }
  destruct (wf_type_cases x Hx) as [(Tx & Mx & Ox)|[(Tx & Mx & Ox)|(Tx & Mx & Ox)]],
           (wf_type_cases y Hy) as [(Ty & My & Oy)|[(Ty & My & Oy)|(Ty & My & Oy)]]; try congruence.
  - (* both table-prefixed *)
    rewrite (encode_ekey_table x Tx Hx), (encode_ekey_table y Ty Hy), <- Ht in E.
    assert (Nx : no_sep (ekey_table x)) by (destruct x; cbn in Hx |- *; try tauto; vm_compute in Tx; discriminate).
    assert (Ny : no_sep (ekey_table y)) by (destruct y; cbn in Hy |- *; try tauto; vm_compute in Ty; discriminate).
    apply table_prefix_app_inj in E; [|assumption|assumption]. destruct E as [Etab Erest].
    destruct x, y; cbn [ekey_type ekey_table ekey_rest wf_ekey ekey_norm] in *; subst;
      try (vm_compute in Tx; discriminate); try (vm_compute in Ty; discriminate);
      try (type_clash Ht); try (type_clash Mx); try (type_clash My).
    + reflexivity.
    + destruct Hx as (_ & _ & Lx), Hy as (_ & _ & Ly).
      apply len16_prefixed_inj in Erest; [|assumption|assumption]. destruct Erest as [-> Es].
      injection Es as ->. reflexivity.
    + destruct Hx as (_ & Lx & Sx), Hy as (_ & Ly & Sy).
      apply len16_prefixed_inj in Erest; [|assumption|assumption]. destruct Erest as [-> Es].
      apply be8_u64_inj in Es; [|assumption|assumption]. now subst.
    + destruct Hx as (_ & Fx), Hy as (_ & Fy).
      apply encode_vals_inj in Erest; [|mvals_ok|mvals_ok].
      cbn [map mval_norm] in Erest. injection Erest as -> -> ->. reflexivity.
    + destruct Hx as (_ & Ix), Hy as (_ & Iy).
      apply encode_vals_inj in Erest; [|mvals_ok|mvals_ok].
      cbn [map mval_norm] in Erest. injection Erest as -> ->. reflexivity.
    + apply encode_vals_inj in Erest; [|mvals_ok|mvals_ok].
      cbn [map mval_norm] in Erest. injection Erest as ->. reflexivity.
  - (* both meta keys *)
    destruct x, y; cbn [ekey_type wf_ekey] in *; try discriminate; try (destruct Hx as [Hx _]; congruence);
      try (destruct Hy as [Hy _]; congruence); try type_clash0;
      try (vm_compute in Mx; discriminate); try (vm_compute in My; discriminate).
    subst. rewrite !encode_ekey_meta in E. injection E as E.
    destruct Hx as [_ Nx], Hy as [_ Ny]. apply split_unique in E; [|assumption|assumption].
    destruct E as [-> ->]. reflexivity.
  - (* table meta / index meta / expire keys: fixed layouts *)
    destruct x, y; cbn [ekey_type wf_ekey] in *; try (vm_compute in Ht; discriminate);
      try (vm_compute in Ox; discriminate); try (vm_compute in Oy; discriminate);
      try (exfalso; destruct Hx as [Hx _]; apply is_meta_type_cases in Hx;
           destruct Hx as [Hx|[Hx|[Hx|[Hx|Hx]]]]; subst; vm_compute in Ox; discriminate);
      try (exfalso; destruct Hx as [Hx _]; apply is_coll_type_cases in Hx;
           destruct Hx as [Hx|[Hx|Hx]]; subst; vm_compute in Ox; discriminate);
      try (exfalso; destruct Hy as [Hy _]; apply is_meta_type_cases in Hy;
           destruct Hy as [Hy|[Hy|[Hy|[Hy|Hy]]]]; subst; vm_compute in Oy; discriminate);
      try (exfalso; destruct Hy as [Hy _]; apply is_coll_type_cases in Hy;
           destruct Hy as [Hy|[Hy|Hy]]; subst; vm_compute in Oy; discriminate).
    + cbn [encode_ekey] in E. unfold encode_table_meta_key in E. injection E as ->. reflexivity.
    + cbn [encode_ekey] in E. unfold encode_table_index_meta_key in E. injection E as -> ->. reflexivity.
    + cbn [encode_ekey] in E. unfold exp_encode_time_key in E.
      remember (be 8 (u64_of_z when)) as b1 eqn:E1. remember (be 8 (u64_of_z when0)) as b2 eqn:E2.
      injection E as E.
      apply app_eq_len in E; [|subst; now rewrite !be_length]. destruct E as [Ew E]. injection E as -> ->.
      subst b1 b2. apply be8_u64_inj in Ew; [|assumption|assumption]. now subst.
    + cbn [encode_ekey] in E. unfold exp_encode_meta_key in E. injection E as -> ->. reflexivity.
Qed.
