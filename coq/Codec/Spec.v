(* Codec/Spec.v — C12: specification vocabulary over the Codec model (definitions only, no proofs):
   the input guards the code enforces, the orders on values, and the universe of engine keys.
   Imported by the proof files and by later groups (C13). *)
From ZV Require Export Common.Bytes Codec.MemCmp Codec.Keys.
From ZV Require Import Codec.Consts.
Open Scope N_scope.

(* ---------- value guards ---------- *)

Definition int64_ok (v : Z) : Prop := (- 9223372036854775808 <= v < 9223372036854775808)%Z.

(* a float64 bit pattern that is not a NaN *)
Definition float_ok (u : N) : Prop := u < two64 /\ float_is_nan u = false.
(* the float value up to the sign of zero: -0.0 |-> +0.0 *)
Definition float_norm (u : N) : N := if u =? two63 then 0 else u.

Definition mval_ok (v : mval) : Prop :=
  match v with
  | MInt z => int64_ok z
  | MFloat f => float_ok f
  | _ => True
  end.
(* what decoding returns: identical, except -0.0 comes back as +0.0 *)
Definition mval_norm (v : mval) : mval :=
  match v with
  | MFloat f => MFloat (float_norm f)
  | _ => v
  end.
Definition mval_flag (v : mval) : N :=
  match v with MNil => nil_flag | MBytes _ => bytes_flag | MInt _ => int_flag | MFloat _ => float_flag end.

(* the order on values: by kind (flag) first, then by value *)
Definition mval_cmp (v w : mval) : comparison :=
  match v, w with
  | MNil, MNil => Eq
  | MBytes a, MBytes b => bytes_cmp a b
  | MInt a, MInt b => (a ?= b)%Z
  | MFloat a, MFloat b => (float_key a ?= float_key b)%Z
  | _, _ => mval_flag v ?= mval_flag w
  end.
Fixpoint tuple_cmp (a b : list mval) : comparison :=
  match a, b with
  | [], [] => Eq
  | [], _ :: _ => Lt
  | _ :: _, [] => Gt
  | v :: a', w :: b' => match mval_cmp v w with Eq => tuple_cmp a' b' | c => c end
  end.

(* ---------- name guards ---------- *)

(* a table name as extractTableFromRedisKey produces it: without the separator *)
Definition no_sep (t : bytes) : Prop := ~ In table_start_sep t.
(* a length that fits the 2-byte length field *)
Definition len16 (k : bytes) : Prop := N.of_nat (length k) < 65536.
Definition is_prefix (p k : bytes) : Prop := exists s, k = p ++ s.

(* ---------- the universe of data keys an engine holds ---------- *)

Inductive ekey : Type :=
| KKV (table rk : bytes)                               (* string value of redis key table:rk *)
| KMeta (t : N) (table rk : bytes)                     (* size / meta record of a collection table:rk *)
| KColl (dt : N) (table key sub : bytes)               (* hash field, set member, zset member *)
| KList (table key : bytes) (seq : Z)                  (* list element *)
| KZScore (table key : bytes) (score : N) (member : bytes)   (* zset score index *)
| KBitmap (table key : bytes) (idx : Z)                (* bitmap segment *)
| KJson (table rk : bytes)                             (* json document *)
| KTableMeta (table : bytes)                           (* table key counter *)
| KTableIndexMeta (itype : N) (table : bytes)          (* table index schema *)
| KExpTime (dt : N) (raw : bytes) (when : Z)           (* expire queue entry (consistency policy) *)
| KExpMeta (dt : N) (raw : bytes).                     (* expire time of a key (consistency policy) *)

Definition is_other_type (t : N) : bool :=
  (t =? table_meta_type) || (t =? table_index_meta_type) || (t =? exp_time_type) || (t =? exp_meta_type).
Definition is_meta_type (t : N) : bool :=
  (t =? hsize_type) || (t =? ssize_type) || (t =? zsize_type) || (t =? lmeta_type) || (t =? bitmap_meta_type).

Definition encode_ekey (x : ekey) : bytes :=
  match x with
  | KKV t rk => encode_kv_key (pack_redis_key t rk)
  | KMeta ty t rk => size_key ty (pack_redis_key t rk)
  | KColl dt t k s => coll_key dt t k s
  | KList t k seq => l_encode_list_key t k seq
  | KZScore t k sc m => z_encode_score_key false false t k m sc
  | KBitmap t k i => encode_bitmap_key t k i
  | KJson t rk => encode_json_key t rk
  | KTableMeta t => encode_table_meta_key t
  | KTableIndexMeta it t => encode_table_index_meta_key t it
  | KExpTime dt raw w => exp_encode_time_key dt raw w
  | KExpMeta dt raw => exp_encode_meta_key dt raw
  end.

Definition ekey_type (x : ekey) : N :=
  match x with
  | KKV _ _ => kv_type
  | KMeta ty _ _ => ty
  | KColl dt _ _ _ => dt
  | KList _ _ _ => list_type
  | KZScore _ _ _ _ => zscore_type
  | KBitmap _ _ _ => bitmap_type
  | KJson _ _ => json_type
  | KTableMeta _ => table_meta_type
  | KTableIndexMeta _ _ => table_index_meta_type
  | KExpTime _ _ _ => exp_time_type
  | KExpMeta _ _ => exp_meta_type
  end.
Definition ekey_table (x : ekey) : bytes :=
  match x with
  | KKV t _ | KMeta _ t _ | KColl _ t _ _ | KList t _ _ | KZScore t _ _ _ | KBitmap t _ _ | KJson t _ => t
  | KTableMeta t | KTableIndexMeta _ t => t
  | KExpTime _ _ _ | KExpMeta _ _ => []
  end.

(* the guards under which the keys are produced by the code:
   tables never contain ':' (extractTableFromRedisKey cuts at the first one), collection keys fit the
   u16 length field (common.CheckKey limits the user key to 10240 bytes; see verkey_len16),
   integers are int64; scores are not NaN (node.getScorePairs rejects a NaN score of ZADD and rockredis.ZIncrBy
   rejects a NaN result; the codec itself does not round-trip a NaN: see C12_float_nan_refuted) *)
Definition wf_ekey (x : ekey) : Prop :=
  match x with
  | KKV t _ => no_sep t
  | KMeta ty t _ => is_meta_type ty = true /\ no_sep t
  | KColl dt t k _ => is_coll_type dt = true /\ no_sep t /\ len16 k
  | KList t k seq => no_sep t /\ len16 k /\ int64_ok seq
  | KZScore t _ sc _ => no_sep t /\ float_ok sc
  | KBitmap t _ i => no_sep t /\ int64_ok i
  | KJson t _ => no_sep t
  | KTableMeta _ | KTableIndexMeta _ _ | KExpMeta _ _ => True
  | KExpTime _ _ w => int64_ok w
  end.

(* equality of keys up to the sign of a zero score *)
Definition ekey_norm (x : ekey) : ekey :=
  match x with
  | KZScore t k sc m => KZScore t k (float_norm sc) m
  | _ => x
  end.
