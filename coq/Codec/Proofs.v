(* Codec/Proofs.v — C12: collects the proof files of the Codec group *)
From ZV Require Export Common.BytesFacts Codec.ProofsNum Codec.ProofsBytes.
