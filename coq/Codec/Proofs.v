(* Codec/Proofs.v — C12: collects the proof files of the Codec group *)
From ZV Require Export Common.BytesFacts Codec.Spec Codec.RangeOps Codec.HIndex Codec.ProofsNum Codec.ProofsBytes Codec.ProofsTuple Codec.ProofsRange
  Codec.ProofsKeys Codec.ProofsKeyRanges Codec.ProofsDecode Codec.ProofsRangeOps Codec.ProofsHIndex Codec.ProofsDesc.
