(* Codec/ProofsDecode.v — C12: every key decoder inverts its encoder (under the length guards of the u16 fields) *)
From ZV Require Import Common.Bytes Common.BytesFacts Codec.Consts Codec.MemCmp Codec.Keys Codec.Spec
  Codec.ProofsNum Codec.ProofsBytes Codec.ProofsTuple Codec.ProofsRange Codec.ProofsKeys.
From Coq Require Import ZifyN ZifyNat ZifyBool Lia.
Open Scope N_scope.

Lemma firstn_app_exact {A} (a b : list A) : firstn (length a) (a ++ b) = a.
Proof. rewrite firstn_app, Nat.sub_diag, firstn_O, app_nil_r. apply firstn_all. Qed.
Lemma skipn_app_exact {A} (a b : list A) : skipn (length a) (a ++ b) = b.
Proof. rewrite skipn_app, Nat.sub_diag, skipn_all. reflexivity. Qed.

Theorem decode_table_prefix_encode dt t r : dt <> kv_type -> len16 t ->
  decode_table_prefix (table_prefix dt t ++ r) dt = Ok (t, r).
Proof.
  intros Hdt Ht. unfold decode_table_prefix, table_prefix.
  apply N.eqb_neq in Hdt. rewrite Hdt. cbn [app]. rewrite N.eqb_refl. cbn [negb].
  rewrite <- !app_assoc. rewrite be16_spec by assumption. cbn [app]. cbv zeta.
  rewrite be16_value by assumption.
  destruct (Nat.ltb_spec (length (t ++ table_start_sep :: r)) (length t)) as [H|H]; [rewrite app_length in H; lia|].
  rewrite skipn_app_exact, firstn_app_exact. now rewrite N.eqb_refl.
Qed.

Theorem decode_coll_sub_key_encode dt t k s : is_coll_type dt = true -> len16 t -> len16 k ->
  decode_coll_sub_key (coll_key dt t k s) = Ok (dt, t, k, s).
Proof.
  intros Hdt Ht Hk. unfold decode_coll_sub_key, coll_key.
  assert (Hne : dt <> kv_type) by (apply is_coll_type_cases in Hdt; destruct Hdt as [->|[->| ->]]; discriminate).
  destruct (table_prefix dt t ++ be16 (length k) ++ k ++ coll_start_sep :: s) eqn:E.
  - unfold table_prefix in E. discriminate.
  - assert (n = dt) by (unfold table_prefix in E; cbn [app] in E; now injection E). subst n.
    rewrite Hdt. cbn [negb]. rewrite <- E. rewrite decode_table_prefix_encode by assumption.
    rewrite be16_spec by assumption. cbn [app]. cbv zeta. rewrite be16_value by assumption.
    destruct (Nat.ltb_spec (length (k ++ coll_start_sep :: s)) (length k)) as [H|H]; [rewrite app_length in H; lia|].
    rewrite skipn_app_exact, firstn_app_exact. now rewrite N.eqb_refl.
Qed.

Theorem decode_coll_key_typed_encode dt t k s : is_coll_type dt = true -> len16 t -> len16 k ->
  decode_coll_key_typed dt (coll_key dt t k s) = Ok (t, k, s).
Proof.
  intros. unfold decode_coll_key_typed. rewrite decode_coll_sub_key_encode by assumption. now rewrite N.eqb_refl.
Qed.

Theorem l_decode_list_key_encode t k seq : len16 t -> len16 k -> int64_ok seq ->
  l_decode_list_key (l_encode_list_key t k seq) = Ok (t, k, seq).
Proof.
  intros Ht Hk Hs. unfold l_decode_list_key, l_encode_list_key.
  rewrite decode_table_prefix_encode by (assumption || discriminate).
  rewrite be16_spec by assumption. cbn [app]. cbv zeta. rewrite be16_value by assumption.
  rewrite app_length, be_length, Nat.eqb_refl. cbn [negb].
  rewrite firstn_app_exact, skipn_app_exact, from_be_be by (rewrite <- two64_pow; apply u64_of_z_lt).
  now rewrite z_of_u64_of_z.
Qed.

Theorem z_decode_score_key_encode t k m sc : len16 t -> float_ok sc ->
  z_decode_score_key (z_encode_score_key false false t k m sc) = Ok (t, k, m, float_norm sc).
Proof.
  intros Ht Hs. unfold z_decode_score_key, z_encode_score_key, z_encode_score_key_internal.
  rewrite decode_table_prefix_encode by (assumption || discriminate).
  rewrite decode_encode_vals by (try discriminate; mvals_ok). reflexivity.
Qed.

Theorem decode_bitmap_key_encode t k i : len16 t -> int64_ok i ->
  decode_bitmap_key (encode_bitmap_key t k i) = Ok (t, k, i).
Proof.
  intros Ht Hi. unfold decode_bitmap_key, encode_bitmap_key.
  rewrite decode_table_prefix_encode by (assumption || discriminate).
  rewrite decode_encode_vals by (try discriminate; mvals_ok). reflexivity.
Qed.

Theorem decode_json_key_encode t k : len16 t -> decode_json_key (encode_json_key t k) = Ok (t, k).
Proof.
  intros Ht. unfold decode_json_key, encode_json_key.
  rewrite decode_table_prefix_encode by (assumption || discriminate).
  rewrite decode_encode_vals by (try discriminate; mvals_ok). reflexivity.
Qed.

Theorem decode_ver_key_encode ver k : int64_ok ver -> decode_ver_key (encode_ver_key ver k) = Ok (k, ver).
Proof.
  intros Hv. unfold decode_ver_key, encode_ver_key.
  rewrite decode_encode_vals by (try discriminate; mvals_ok). reflexivity.
Qed.

Theorem decode_kv_key_encode k : decode_kv_key (encode_kv_key k) = Ok k.
Proof. unfold decode_kv_key, encode_kv_key. now rewrite N.eqb_refl. Qed.

Theorem decode_size_key_encode ty k : decode_size_key ty (size_key ty k) = Ok k.
Proof.
  unfold decode_size_key, size_key. rewrite N.eqb_refl. cbn [negb orb].
  destruct (Nat.ltb_spec (length (ty :: meta_prefix ++ k)) (1 + length meta_prefix)) as [H|H];
    [cbn [length] in H; rewrite app_length in H; lia|].
  cbn [orb]. now rewrite skipn_app_exact.
Qed.

Lemma split_first_app t k : ~ In table_start_sep t -> split_first table_start_sep (t ++ table_start_sep :: k) = Some (t, k).
Proof.
  induction t as [|x t IH]; intros Hn; cbn [app split_first].
  - now rewrite N.eqb_refl.
  - destruct (N.eqb_spec x table_start_sep) as [->|Hne]; [exfalso; apply Hn; now left|].
    rewrite IH; [reflexivity|]. intros H; apply Hn; now right.
Qed.

(* extractTableFromRedisKey inverts packRedisKey exactly for ':'-free tables *)
Theorem extract_table_pack t k : no_sep t -> extract_table (pack_redis_key t k) = Ok (t, k).
Proof. intros H. unfold extract_table, pack_redis_key. now rewrite split_first_app. Qed.

Lemma split_first_spec c : forall bs a b, split_first c bs = Some (a, b) -> bs = a ++ c :: b /\ ~ In c a.
Proof.
  induction bs as [|x r IH]; intros a b H; cbn [split_first] in H; [discriminate|].
  destruct (N.eqb_spec x c) as [->|Hne].
  - injection H as <- <-. split; [reflexivity|intros []].
  - destruct (split_first c r) as [[a' b']|] eqn:E; [|discriminate].
    injection H as <- <-. destruct (IH a' b' eq_refl) as [-> Hn]. split; [reflexivity|].
    intros [H|H]; [congruence|auto].
Qed.

(* ... and always yields a ':'-free table: the guard of the injectivity theorems is what the code produces *)
Theorem extract_table_no_sep raw t k : extract_table raw = Ok (t, k) -> raw = pack_redis_key t k /\ no_sep t.
Proof.
  unfold extract_table. destruct (split_first table_start_sep raw) as [[a b]|] eqn:E; [|discriminate].
  intros H. injection H as <- <-. now apply split_first_spec.
Qed.

Theorem convert_kv_key_spec raw t dbk : convert_redis_key_to_db_kv_key raw = Ok (t, dbk) ->
  exists rk, raw = pack_redis_key t rk /\ no_sep t /\ t <> [] /\ dbk = encode_ekey (KKV t rk) /\
             N.of_nat (length raw) <= max_key_size.
Proof.
  unfold convert_redis_key_to_db_kv_key.
  destruct (extract_table raw) as [[t' rk]| |] eqn:E; cbn [length Nat.eqb]; try discriminate.
  destruct (Nat.eqb_spec (length t') 0) as [H0|H0]; [discriminate|].
  destruct (check_key raw) eqn:Ck; cbn [negb]; [|discriminate].
  intros H. injection H as <- <-. apply extract_table_no_sep in E as [-> Hn].
  exists rk. repeat split; try assumption.
  - intros ->. now apply H0.
  - unfold check_key in Ck. apply negb_true_iff, orb_false_iff in Ck as [Ck _]. apply Nat.ltb_ge in Ck. lia.
Qed.

(* expire keys *)
Theorem exp_decode_time_key_encode dt k w : int64_ok w ->
  exp_decode_time_key (exp_encode_time_key dt k w) = Ok (dt, k, w).
Proof.
  intros Hw. unfold exp_decode_time_key, exp_encode_time_key. rewrite N.eqb_refl. cbn [negb].
  destruct (Nat.ltb_spec (length (exp_time_type :: be 8 (u64_of_z w) ++ dt :: k)) 10) as [H|H];
    [cbn [length] in H; rewrite app_length, be_length in H; cbn [length] in H; lia|].
  cbn [orb]. rewrite skipn_be_app, firstn_be_app, from_be_be by (rewrite <- two64_pow; apply u64_of_z_lt).
  now rewrite z_of_u64_of_z.
Qed.
Theorem exp_decode_meta_key_encode dt k : exp_decode_meta_key (exp_encode_meta_key dt k) = Ok (dt, k).
Proof. unfold exp_decode_meta_key, exp_encode_meta_key. now rewrite N.eqb_refl. Qed.

(* ---------- the u16 guard is implied by the key-size limit ---------- *)

(* the versioned key of a user key within common.MaxKeySize fits the 2-byte length field *)
Theorem verkey_len16 ver rk : N.of_nat (length rk) <= max_key_size -> len16 (encode_ver_key ver rk).
Proof.
  intros H. unfold len16, encode_ver_key.
  rewrite !encode_vals_cons, !app_length.
  rewrite encode_val_bytes_length, !encode_val_int_length. change (length (encode_vals [])) with 0%nat.
  assert (Hl : (length rk <= 8 * 1280)%nat) by (unfold max_key_size in H; lia).
  assert (Hd : (length rk / 8 <= 1280)%nat) by (apply Nat.div_le_upper_bound; lia).
  lia.
Qed.
Theorem rawkey_len16 rk : N.of_nat (length rk) <= max_key_size -> len16 rk.
Proof. unfold len16, max_key_size. lia. Qed.

(* ---------- whose table a redis key belongs to, by prefix (index build scan, table scans) ---------- *)
(* rockredis/index_mgr.go dobuildIndexes walks the hash keys from "T:" on and stops at the first key that does
   not have the prefix "T:" — with the separator: the keys with that prefix are exactly the keys of table T *)
Theorem table_prefix_of_redis_key t raw : no_sep t ->
  (is_prefix (t ++ [table_start_sep]) raw <-> exists k, extract_table raw = Ok (t, k)).
Proof.
  intros Ht. split.
  - intros [s ->]. exists s. rewrite <- app_assoc. cbn [app]. now apply extract_table_pack.
  - intros [k E]. apply extract_table_no_sep in E as [-> _]. exists k. unfold pack_redis_key.
    rewrite <- app_assoc. reflexivity.
Qed.

(* the bare table name as the prefix is wrong: it also covers the keys of every table whose name extends it *)
Theorem bare_table_prefix_refuted : exists t raw t' k,
  no_sep t /\ is_prefix t raw /\ extract_table raw = Ok (t', k) /\ t' <> t.
Proof.
  exists [117; 115; 101; 114], [117; 115; 101; 114; 95; 98; 58; 100], [117; 115; 101; 114; 95; 98], [100].
  split; [intros H; cbn in H; intuition discriminate|].
  split; [now exists [95; 98; 58; 100]|]. split; [reflexivity|discriminate].
Qed.

(* ---------- which meta record decides about an element key (compaction filter, collHeaderMeta) ---------- *)
(* rockCompactFilter.Filter and collHeaderMeta read encodeMetaKey(dt, "table:key") for an element of data type dt:
   that is the meta record of the SAME (type, table, key) — and the meta records of different collection types
   with the same name are different engine keys, so a decision cached under the name alone is wrong *)
Definition meta_type_of (dt : N) : N :=
  if (dt =? hash_type) then hsize_type else if (dt =? list_type) then lmeta_type
  else if (dt =? set_type) then ssize_type else if (dt =? zset_type) || (dt =? zscore_type) then zsize_type
  else if (dt =? bitmap_type) then bitmap_meta_type else dt.

Definition is_elem_type (dt : N) : bool :=
  (dt =? hash_type) || (dt =? list_type) || (dt =? set_type) || (dt =? zset_type) || (dt =? zscore_type) || (dt =? bitmap_type).

Theorem meta_key_of_element_type dt t rk : is_elem_type dt = true ->
  encode_meta_key dt (pack_redis_key t rk) = Ok (encode_ekey (KMeta (meta_type_of dt) t rk)) /\
  is_meta_type (meta_type_of dt) = true.
Proof.
  unfold is_elem_type. rewrite !orb_true_iff, !N.eqb_eq.
  intros [[[[[->| ->]| ->]| ->]| ->]| ->]; split; reflexivity.
Qed.

Theorem meta_keys_of_types_differ dt dt' raw k k' : is_elem_type dt = true -> is_elem_type dt' = true ->
  meta_type_of dt <> meta_type_of dt' ->
  encode_meta_key dt raw = Ok k -> encode_meta_key dt' raw = Ok k' -> k <> k'.
Proof.
  unfold is_elem_type. rewrite !orb_true_iff, !N.eqb_eq.
  intros [[[[[->| ->]| ->]| ->]| ->]| ->] [[[[[->| ->]| ->]| ->]| ->]| ->] Hne E E';
    cbn in E, E'; injection E as <-; injection E' as <-; try (exfalso; apply Hne; reflexivity); discriminate.
Qed.
