(* Codec/ProofsBytes.v — C12: EncodeBytes / decodeBytes: round trip, order preservation, prefix-freeness *)
From ZV Require Import Common.Bytes Common.BytesFacts Codec.Consts Codec.MemCmp Codec.Keys Codec.Spec Codec.ProofsNum.
From Coq Require Import ZifyN ZifyNat ZifyBool Lia.
Open Scope N_scope.

(* the constants the proofs rely on; regenerated Consts.v with other values breaks these (intended) *)
Lemma group_size_eq : group_size = 8%nat. Proof. reflexivity. Qed.
Lemma enc_marker_eq : enc_marker = 255. Proof. reflexivity. Qed.
Lemma enc_pad_eq : enc_pad = 0. Proof. reflexivity. Qed.
Lemma enc_group_size_eq : enc_group_size = 8. Proof. reflexivity. Qed.

(* ---------- induction by groups of 8 ---------- *)

Lemma bytes8_ind (P : bytes -> Prop) :
  (forall d, (length d < 8)%nat -> P d) ->
  (forall a1 a2 a3 a4 a5 a6 a7 a8 d, P d -> P (a1 :: a2 :: a3 :: a4 :: a5 :: a6 :: a7 :: a8 :: d)) ->
  forall d, P d.
Proof.
  intros Hs Hg d. remember (length d) as n eqn:Hn. revert d Hn.
  induction n as [n IH] using lt_wf_ind. intros d Hn.
  destruct (Nat.ltb_spec (length d) 8) as [Hl|Hl]; [now apply Hs|].
  destruct d as [|a1 [|a2 [|a3 [|a4 [|a5 [|a6 [|a7 [|a8 d]]]]]]]]; simpl in Hl; try lia.
  apply Hg. apply (IH (length d)); [subst; simpl; lia|reflexivity].
Qed.

(* ---------- fuel independence and the two defining equations ---------- *)

Lemma encode_bytes_fuel_indep f1 f2 d :
  (length d < f1)%nat -> (length d < f2)%nat -> encode_bytes_fuel f1 d = encode_bytes_fuel f2 d.
Proof.
  revert f2 d; induction f1 as [|f1 IH]; intros [|f2] d H1 H2; try lia.
  cbn [encode_bytes_fuel]. rewrite group_size_eq.
  destruct (Nat.leb_spec 8 (length d)) as [Hl|Hl]; [|reflexivity].
  f_equal. f_equal. apply IH; rewrite skipn_length; lia.
Qed.

Lemma encode_bytes_short d : (length d < 8)%nat ->
  encode_bytes d = d ++ repeat 0 (8 - length d) ++ [255 - N.of_nat (8 - length d)].
Proof.
  intros H. unfold encode_bytes. cbn [encode_bytes_fuel]. rewrite group_size_eq.
  destruct (Nat.leb_spec 8 (length d)); [lia|reflexivity].
Qed.

Lemma encode_bytes_group a1 a2 a3 a4 a5 a6 a7 a8 d :
  encode_bytes (a1 :: a2 :: a3 :: a4 :: a5 :: a6 :: a7 :: a8 :: d) =
  a1 :: a2 :: a3 :: a4 :: a5 :: a6 :: a7 :: a8 :: 255 :: encode_bytes d.
Proof.
  unfold encode_bytes at 1. cbn [encode_bytes_fuel]. rewrite group_size_eq.
  cbn [length Nat.leb firstn skipn app]. do 9 f_equal.
  apply encode_bytes_fuel_indep; simpl; lia.
Qed.

Lemma encode_bytes_length d : length (encode_bytes d) = (9 * (length d / 8 + 1))%nat.
Proof.
  induction d as [d Hl|a1 a2 a3 a4 a5 a6 a7 a8 d IH] using bytes8_ind.
  - rewrite encode_bytes_short by assumption. rewrite !app_length, repeat_length. simpl length.
    rewrite Nat.div_small by assumption. lia.
  - rewrite encode_bytes_group. cbn [length]. rewrite IH.
    replace (S (S (S (S (S (S (S (S (length d)))))))))%nat with (length d + 1 * 8)%nat by lia.
    rewrite Nat.div_add by lia. lia.
Qed.

(* ---------- the counter form used for the order proof ---------- *)

(* [encn n a]: the rest of the encoding when n slots of the current group are still free *)
Fixpoint encn (n : nat) (a : bytes) : bytes :=
  match a, n with
  | [], O => 255 :: repeat 0 8 ++ [247]
  | [], S _ => repeat 0 n ++ [255 - N.of_nat n]
  | x :: a', O => 255 :: x :: encn 7 a'
  | x :: a', S n' => x :: encn n' a'
  end.

Lemma encn_0 d : encn 0 d = 255 :: encn 8 d.
Proof. destruct d; reflexivity. Qed.

Lemma encode_bytes_encn d : encode_bytes d = encn 8 d.
Proof.
  induction d as [d Hl|a1 a2 a3 a4 a5 a6 a7 a8 d IH] using bytes8_ind.
  - rewrite encode_bytes_short by assumption.
    destruct d as [|a1 [|a2 [|a3 [|a4 [|a5 [|a6 [|a7 [|a8 d]]]]]]]]; simpl in Hl; try lia; reflexivity.
  - rewrite encode_bytes_group, IH. cbn [encn]. now rewrite encn_0.
Qed.

(* a run of zeros followed by a marker smaller than what the other side will produce *)
Lemma zeros_lt_encn m : forall c b x y, c < 255 - N.of_nat m -> (m <= 8)%nat ->
  bytes_cmp (repeat 0 m ++ c :: x) (encn m b ++ y) = Lt.
Proof.
  induction m as [|m IH]; intros c b x y Hc Hm.
  - destruct b as [|v b]; cbn [encn repeat app bytes_cmp];
      (destruct (N.compare_spec c 255); [lia|reflexivity|lia]).
  - destruct b as [|v b].
    + cbn [encn]. rewrite <- !app_assoc. rewrite bytes_cmp_app_same. cbn [app bytes_cmp].
      destruct (N.compare_spec c (255 - N.of_nat (S m))); [lia|reflexivity|lia].
    + cbn [encn repeat app bytes_cmp].
      destruct (N.compare_spec 0 v); [|reflexivity|lia].
      apply IH; lia.
Qed.

Lemma zeros_le_encn_cons m : forall c v b x y, c <= 255 - N.of_nat (S m) -> (S m <= 8)%nat ->
  bytes_cmp (repeat 0 (S m) ++ c :: x) (encn (S m) (v :: b) ++ y) = Lt.
Proof.
  intros c v b x y Hc Hm. cbn [encn repeat app bytes_cmp].
  destruct (N.compare_spec 0 v); [|reflexivity|lia].
  apply zeros_lt_encn; lia.
Qed.

Lemma encn_nil_cons_lt n v b x y : (n <= 8)%nat ->
  bytes_cmp (encn n [] ++ x) (encn n (v :: b) ++ y) = Lt.
Proof.
  intros Hn. destruct n as [|n].
  - cbn [encn]. cbn [app bytes_cmp]. rewrite N.compare_refl.
    rewrite <- app_assoc. change (v :: encn 7 b ++ y) with (encn 8 (v :: b) ++ y).
    apply (zeros_le_encn_cons 7); [cbn; lia|lia].
  - cbn [encn]. rewrite <- app_assoc. apply zeros_le_encn_cons; lia.
Qed.

(* MAIN: comparison of two encodings (followed by anything) = comparison of the payloads *)
Lemma encn_cmp : forall a b n x y, (n <= 8)%nat ->
  bytes_cmp (encn n a ++ x) (encn n b ++ y) =
  match bytes_cmp a b with Eq => bytes_cmp x y | c => c end.
Proof.
  induction a as [|u a IH]; intros [|v b] n x y Hn.
  - cbn [bytes_cmp]. apply bytes_cmp_app_same.
  - cbn [bytes_cmp]. now apply encn_nil_cons_lt.
  - cbn [bytes_cmp]. rewrite bytes_cmp_antisym. rewrite encn_nil_cons_lt by assumption. reflexivity.
  - destruct n as [|n]; cbn [encn app bytes_cmp].
    + rewrite N.compare_refl. destruct (u ?= v); try reflexivity. apply IH. lia.
    + destruct (u ?= v); try reflexivity. apply IH. lia.
Qed.

Theorem encode_bytes_cmp_app a b x y :
  bytes_cmp (encode_bytes a ++ x) (encode_bytes b ++ y) =
  match bytes_cmp a b with Eq => bytes_cmp x y | c => c end.
Proof. rewrite !encode_bytes_encn. apply encn_cmp. lia. Qed.

Theorem encode_bytes_cmp a b : bytes_cmp (encode_bytes a) (encode_bytes b) = bytes_cmp a b.
Proof.
  rewrite <- (app_nil_r (encode_bytes a)), <- (app_nil_r (encode_bytes b)), encode_bytes_cmp_app.
  destruct (bytes_cmp a b); reflexivity.
Qed.

(* prefix-freeness: an encoding followed by anything determines the payload and the rest *)
Theorem encode_bytes_app_inj a b x y : encode_bytes a ++ x = encode_bytes b ++ y -> a = b /\ x = y.
Proof.
  intros E. assert (H : bytes_cmp (encode_bytes a ++ x) (encode_bytes b ++ y) = Eq) by (rewrite E; apply bytes_cmp_refl).
  rewrite encode_bytes_cmp_app in H. destruct (bytes_cmp a b) eqn:C; try discriminate.
  apply bytes_cmp_eq in C. apply bytes_cmp_eq in H. auto.
Qed.

Theorem encode_bytes_inj a b : encode_bytes a = encode_bytes b -> a = b.
Proof.
  intros E. apply (encode_bytes_app_inj a b [] []). now rewrite !app_nil_r.
Qed.

(* ---------- decoding ---------- *)

Lemma decode_bytes_fuel_encode : forall d f r acc, (length d < f)%nat ->
  decode_bytes_fuel f false (encode_bytes d ++ r) acc = Ok (r, acc ++ d).
Proof.
  intros d; pattern d; apply bytes8_ind; clear d; [intros d Hl|intros a1 a2 a3 a4 a5 a6 a7 a8 d IH]; intros f r acc Hf.
  - destruct f as [|f]; [lia|]. rewrite encode_bytes_short by assumption.
    destruct d as [|b1 [|b2 [|b3 [|b4 [|b5 [|b6 [|b7 [|b8 d]]]]]]]]; simpl in Hl; try lia;
      cbn [decode_bytes_fuel]; rewrite group_size_eq; cbn; rewrite ?app_nil_r; reflexivity.
  - destruct f as [|f]; [simpl in Hf; lia|]. rewrite encode_bytes_group.
    cbn [decode_bytes_fuel]. rewrite group_size_eq.
    cbn [app length Nat.add Nat.ltb Nat.leb firstn skipn nth].
    change (enc_marker - 255) with 0. change (enc_group_size <? 0) with false.
    change (N.to_nat 0) with 0%nat. change (0 =? 0) with true. cbn [Nat.sub firstn]. cbv iota.
    rewrite IH by (simpl in Hf; lia).
    rewrite <- app_assoc. reflexivity.
Qed.

Theorem decode_encode_bytes d r : decode_bytes false (encode_bytes d ++ r) = Ok (r, d).
Proof.
  unfold decode_bytes. rewrite decode_bytes_fuel_encode; [reflexivity|].
  rewrite app_length, encode_bytes_length.
  pose proof (Nat.div_mod (length d) 8). pose proof (Nat.mod_upper_bound (length d) 8). lia.
Qed.

(* peekBytes on an encoding returns its length *)
Lemma peek_bytes_fuel_encode : forall d f r pre, (length d < f)%nat ->
  peek_bytes_fuel f false (pre ++ encode_bytes d ++ r) (length pre) = Ok (length pre + length (encode_bytes d))%nat.
Proof.
  intros d; pattern d; apply bytes8_ind; clear d; [intros d Hl|intros a1 a2 a3 a4 a5 a6 a7 a8 d IH]; intros f r pre Hf.
  - destruct f as [|f]; [lia|]. cbn [peek_bytes_fuel]. rewrite group_size_eq.
    rewrite !app_length, encode_bytes_length, Nat.div_small by assumption.
    match goal with |- context [(?a <? ?b)%nat] => destruct (Nat.ltb_spec a b); [lia|] end.
    rewrite app_nth2 by lia. replace (length pre + 8 - length pre)%nat with 8%nat by lia.
    rewrite encode_bytes_short by assumption.
    destruct d as [|b1 [|b2 [|b3 [|b4 [|b5 [|b6 [|b7 [|b8 d]]]]]]]]; simpl in Hl; try lia;
      cbn; f_equal; lia.
  - destruct f as [|f]; [simpl in Hf; lia|]. cbn [peek_bytes_fuel]. rewrite group_size_eq.
    rewrite encode_bytes_group.
    rewrite !app_length. cbn [length].
    match goal with |- context [(?a <? ?b)%nat] => destruct (Nat.ltb_spec a b); [lia|] end.
    rewrite app_nth2 by lia. replace (length pre + 8 - length pre)%nat with 8%nat by lia.
    cbn [nth app]. change (enc_marker - 255 =? 0) with true. cbv iota.
    specialize (IH f r (pre ++ [a1; a2; a3; a4; a5; a6; a7; a8; 255])).
    rewrite <- app_assoc in IH. cbn [app] in IH. rewrite app_length in IH. cbn [length] in IH.
    replace (length pre + 8 + 1)%nat with (length pre + 9)%nat by lia.
    rewrite IH by (simpl in Hf; lia). f_equal. lia.
Qed.

Theorem peek_bytes_encode d r : peek_bytes false (encode_bytes d ++ r) = Ok (length (encode_bytes d)).
Proof.
  unfold peek_bytes. pose proof (peek_bytes_fuel_encode d (S (length (encode_bytes d ++ r))) r []) as H.
  cbn [app length Nat.add] in H. apply H.
  rewrite app_length, encode_bytes_length.
  pose proof (Nat.div_mod (length d) 8). pose proof (Nat.mod_upper_bound (length d) 8). lia.
Qed.

(* every byte of an encoding is a byte when the payload is *)
Lemma encode_bytes_ok d : bytes_ok d = true -> bytes_ok (encode_bytes d) = true.
Proof.
  induction d as [d Hl|a1 a2 a3 a4 a5 a6 a7 a8 d IH] using bytes8_ind; intros H.
  - rewrite encode_bytes_short by assumption. unfold bytes_ok in *. rewrite !forallb_app, H. cbn [andb].
    apply andb_true_iff; split.
    + apply forallb_forall. intros x Hx. apply repeat_spec in Hx. now subst.
    + cbn [forallb]. rewrite andb_true_r. unfold byte_ok. apply N.ltb_lt. lia.
  - rewrite encode_bytes_group. unfold bytes_ok in *. cbn [forallb] in *.
    repeat (apply andb_true_iff in H as [? H]). rewrite IH by assumption.
    repeat (apply andb_true_iff; split; try assumption); reflexivity.
Qed.
