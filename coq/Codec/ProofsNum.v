(* Codec/ProofsNum.v — C12: lemmas about the fixed-width number encodings of Codec/MemCmp.v *)
From ZV Require Import Common.Bytes Common.BytesFacts Codec.Consts Codec.MemCmp Codec.Keys Codec.Spec.
From Coq Require Import ZifyN ZifyNat ZifyBool Lia.
Open Scope N_scope.

(* ---------- lexicographic order facts used everywhere ---------- *)

Lemma bytes_cmp_refl a : bytes_cmp a a = Eq.
Proof. now apply bytes_cmp_eq. Qed.

Lemma bytes_cmp_app_same p a b : bytes_cmp (p ++ a) (p ++ b) = bytes_cmp a b.
Proof. induction p as [|x p IH]; simpl; auto. now rewrite N.compare_refl. Qed.

Lemma bytes_cmp_cons x a b : bytes_cmp (x :: a) (x :: b) = bytes_cmp a b.
Proof. simpl. now rewrite N.compare_refl. Qed.

(* two strings of equal length: the comparison is decided inside them, suffixes do not matter *)
Lemma bytes_cmp_app_eqlen a b x y :
  length a = length b -> a <> b -> bytes_cmp (a ++ x) (b ++ y) = bytes_cmp a b.
Proof.
  revert b; induction a as [|u a IH]; intros [|v b] Hl Hne; simpl in *; try discriminate.
  - congruence.
  - destruct (u ?= v) eqn:E; auto. apply N.compare_eq in E; subst.
    apply IH; [lia|congruence].
Qed.

Lemma bytes_cmp_app_eqlen' a b x y :
  length a = length b -> bytes_cmp (a ++ x) (b ++ y) =
  match bytes_cmp a b with Eq => bytes_cmp x y | c => c end.
Proof.
  intros Hl. destruct (bytes_cmp a b) eqn:E.
  - apply bytes_cmp_eq in E; subst. apply bytes_cmp_app_same.
  - rewrite bytes_cmp_app_eqlen; auto. intros ->. now rewrite bytes_cmp_refl in E.
  - rewrite bytes_cmp_app_eqlen; auto. intros ->. now rewrite bytes_cmp_refl in E.
Qed.

(* ---------- be / from_be ---------- *)

Lemma be_length n u : length (be n u) = n.
Proof. revert u; induction n as [|n IH]; intros u; simpl; auto. Qed.

Lemma pow256_pos k : 0 < 256 ^ k.
Proof. apply N.neq_0_lt_0. apply N.pow_nonzero. discriminate. Qed.

Lemma pow256_succ (k : nat) : 256 ^ N.of_nat (S k) = 256 * 256 ^ N.of_nat k.
Proof. rewrite Nat2N.inj_succ. apply N.pow_succ_r'. Qed.

Lemma from_be_acc b acc :
  fold_left (fun acc b => acc * 256 + b) b acc = acc * 256 ^ N.of_nat (length b) + from_be b.
Proof.
  unfold from_be. revert acc. induction b as [|x b IH]; intros acc.
  - simpl. lia.
  - cbn [fold_left length]. rewrite IH. rewrite (IH (0 * 256 + x)). rewrite pow256_succ. lia.
Qed.

Lemma from_be_app a b : from_be (a ++ b) = from_be a * 256 ^ N.of_nat (length b) + from_be b.
Proof. unfold from_be at 1. rewrite fold_left_app. apply from_be_acc. Qed.

Lemma from_be_cons x b : from_be (x :: b) = x * 256 ^ N.of_nat (length b) + from_be b.
Proof. change (x :: b) with ([x] ++ b). rewrite from_be_app. unfold from_be at 1. simpl. reflexivity. Qed.

Lemma from_be_be n u : u < 256 ^ N.of_nat n -> from_be (be n u) = u.
Proof.
  revert u; induction n as [|n IH]; intros u Hu.
  - simpl in *. unfold from_be. simpl. lia.
  - cbn [be]. rewrite from_be_cons, be_length, IH.
    + pose proof (pow256_pos (N.of_nat n)). pose proof (N.div_mod u (256 ^ N.of_nat n)). lia.
    + apply N.mod_lt. pose proof (pow256_pos (N.of_nat n)). lia.
Qed.

Lemma be_bytes_ok n u : u < 256 ^ N.of_nat n -> bytes_ok (be n u) = true.
Proof.
  revert u; induction n as [|n IH]; intros u Hu; simpl; auto.
  apply andb_true_iff; split.
  - unfold byte_ok. apply N.ltb_lt. rewrite pow256_succ in Hu.
    apply N.div_lt_upper_bound; [pose proof (pow256_pos (N.of_nat n)); lia| lia].
  - apply IH. apply N.mod_lt. pose proof (pow256_pos (N.of_nat n)). lia.
Qed.

(* order preservation of the fixed-width big-endian encoding *)
Lemma be_cmp_exact n u w : u < 256 ^ N.of_nat n -> w < 256 ^ N.of_nat n ->
  bytes_cmp (be n u) (be n w) = (u ?= w).
Proof.
  revert u w; induction n as [|n IH]; intros u w Hu Hw.
  - simpl in *. assert (u = 0) by lia. assert (w = 0) by lia. subst. reflexivity.
  - cbn [be bytes_cmp].
    set (P := 256 ^ N.of_nat n) in *.
    assert (HP : 0 < P) by apply pow256_pos.
    assert (Du : u = P * (u / P) + u mod P) by (apply N.div_mod; lia).
    assert (Dw : w = P * (w / P) + w mod P) by (apply N.div_mod; lia).
    assert (Mu : u mod P < P) by (apply N.mod_lt; lia).
    assert (Mw : w mod P < P) by (apply N.mod_lt; lia).
    destruct (N.compare_spec (u / P) (w / P)) as [E|E|E].
    + rewrite IH by assumption. rewrite E in Du.
      destruct (N.compare_spec (u mod P) (w mod P)) as [E2|E2|E2]; symmetry.
      * apply N.compare_eq_iff. lia.
      * apply N.compare_lt_iff. lia.
      * apply N.compare_gt_iff. lia.
    + symmetry. apply N.compare_lt_iff.
      assert (Hm : P * (u / P + 1) <= P * (w / P)) by (apply N.mul_le_mono_l; lia).
      rewrite N.mul_add_distr_l, N.mul_1_r in Hm. lia.
    + symmetry. apply N.compare_gt_iff.
      assert (Hm : P * (w / P + 1) <= P * (u / P)) by (apply N.mul_le_mono_l; lia).
      rewrite N.mul_add_distr_l, N.mul_1_r in Hm. lia.
Qed.

Lemma be_inj n u w : u < 256 ^ N.of_nat n -> w < 256 ^ N.of_nat n -> be n u = be n w -> u = w.
Proof.
  intros Hu Hw E. apply N.compare_eq. rewrite <- (be_cmp_exact n) by assumption.
  rewrite E. apply bytes_cmp_refl.
Qed.

Lemma firstn_be_app n u r : firstn n (be n u ++ r) = be n u.
Proof. rewrite firstn_app, be_length, Nat.sub_diag, firstn_O, app_nil_r. apply firstn_all2. rewrite be_length. lia. Qed.
Lemma skipn_be_app n u r : skipn n (be n u ++ r) = r.
Proof. rewrite skipn_app, be_length, Nat.sub_diag. rewrite skipn_all2 by (rewrite be_length; lia). reflexivity. Qed.

Lemma two64_pow : two64 = 256 ^ N.of_nat 8.
Proof. reflexivity. Qed.

(* ---------- bit tricks of number.go, in arithmetic form ---------- *)

Lemma land_two63_low u : u < two63 -> N.land u two63 = 0.
Proof.
  intros Hu. apply N.bits_inj. intros n. rewrite N.land_spec, N.bits_0.
  change two63 with (2 ^ 63). rewrite N.pow2_bits_eqb.
  destruct (N.eqb_spec 63 n) as [<-|]; [|apply andb_false_r].
  rewrite andb_true_r. destruct (N.eq_dec u 0) as [->|Hz]; [apply N.bits_0|].
  apply N.bits_above_log2. apply N.log2_lt_pow2; [lia|exact Hu].
Qed.

Lemma lxor_two63_low u : u < two63 -> N.lxor u two63 = u + two63.
Proof. intros Hu. symmetry. apply N.add_nocarry_lxor. now apply land_two63_low. Qed.

Lemma lor_two63_low u : u < two63 -> N.lor u two63 = u + two63.
Proof.
  intros Hu. rewrite <- lxor_two63_low by assumption. symmetry. apply N.lxor_lor. now apply land_two63_low.
Qed.

Lemma lxor_two63_high u : two63 <= u -> u < two64 -> N.lxor u two63 = u - two63.
Proof.
  intros H1 H2. assert (Hv : u - two63 < two63) by (unfold two63, two64 in *; lia).
  replace u with ((u - two63) + two63) at 1 by lia.
  rewrite <- (lxor_two63_low (u - two63)) by assumption.
  rewrite N.lxor_assoc, N.lxor_nilpotent, N.lxor_0_r. reflexivity.
Qed.

Lemma land_two63_high u : two63 <= u -> u < two64 -> N.land u two63 = two63.
Proof.
  intros H1 H2. assert (Hv : u - two63 < two63) by (unfold two63, two64 in *; lia).
  replace u with (N.lor (u - two63) two63).
  - rewrite N.land_lor_distr_l, land_two63_low by assumption. rewrite N.land_diag. reflexivity.
  - rewrite lor_two63_low by assumption. lia.
Qed.

Lemma not64_spec u : u < two64 -> not64 u = mask64 - u.
Proof.
  intros Hu. unfold not64.
  assert (Hl : N.land (N.lxor u mask64) u = 0).
  { apply N.bits_inj. intros n. rewrite N.land_spec, N.lxor_spec, N.bits_0.
    change mask64 with (N.ones 64).
    destruct (N.ltb_spec n 64) as [Hn|Hn].
    - rewrite N.ones_spec_low by assumption. destruct (N.testbit u n); reflexivity.
    - assert (N.testbit u n = false) as ->; [|apply andb_false_r].
      destruct (N.eq_dec u 0) as [->|Hz]; [apply N.bits_0|].
      apply N.bits_above_log2. apply N.lt_le_trans with 64; [|assumption].
      apply N.log2_lt_pow2; [lia|exact Hu]. }
  apply N.add_nocarry_lxor in Hl.
  assert (Hx : N.lxor (N.lxor u mask64) u = mask64).
  { rewrite (N.lxor_comm u mask64), N.lxor_assoc, N.lxor_nilpotent, N.lxor_0_r. reflexivity. }
  rewrite Hx in Hl. unfold mask64, two64 in *. lia.
Qed.

Lemma land_abs_mask_low u : u < two63 -> N.land u abs_mask = u.
Proof.
  intros Hu. change abs_mask with (N.ones 63). rewrite N.land_ones.
  apply N.mod_small. exact Hu.
Qed.

Lemma land_abs_mask_high u : two63 <= u -> u < two64 -> N.land u abs_mask = u - two63.
Proof.
  intros H1 H2. change abs_mask with (N.ones 63). rewrite N.land_ones.
  change (2 ^ 63) with two63.
  assert (Hv : u - two63 < two63) by (unfold two63, two64 in *; lia).
  replace u with ((u - two63) + 1 * two63) at 1 by lia.
  rewrite N.mod_add by (unfold two63; lia). apply N.mod_small. exact Hv.
Qed.

(* ---------- int64 ---------- *)


Lemma u64_of_z_nonneg v : (0 <= v < 9223372036854775808)%Z -> u64_of_z v = Z.to_N v.
Proof. intros H. unfold u64_of_z. rewrite Z.mod_small by lia. reflexivity. Qed.

Lemma u64_of_z_neg v : (- 9223372036854775808 <= v < 0)%Z -> u64_of_z v = Z.to_N (v + 18446744073709551616).
Proof.
  intros H. unfold u64_of_z. f_equal.
  rewrite <- (Z.mod_add v 1 18446744073709551616) by lia. rewrite Z.mod_small by lia. lia.
Qed.

Lemma int_to_cmp_spec v : int64_ok v -> int_to_cmp v = Z.to_N (v + 9223372036854775808).
Proof.
  unfold int64_ok, int_to_cmp, sign_mask. intros H.
  destruct (Z.ltb_spec v 0).
  - rewrite u64_of_z_neg by lia. rewrite lxor_two63_high; unfold two63, two64; lia.
  - rewrite u64_of_z_nonneg by lia. rewrite lxor_two63_low; unfold two63; lia.
Qed.

Lemma int_to_cmp_lt v : int64_ok v -> int_to_cmp v < two64.
Proof. intros H. rewrite int_to_cmp_spec by assumption. unfold int64_ok, two64 in *. lia. Qed.

Lemma cmp_to_int_spec u : u < two64 -> cmp_to_int u = (Z.of_N u - 9223372036854775808)%Z.
Proof.
  intros H. unfold cmp_to_int, sign_mask, z_of_u64.
  destruct (N.ltb_spec u two63).
  - rewrite lxor_two63_low by assumption.
    destruct (N.ltb_spec (u + two63) two63); unfold two63 in *; lia.
  - rewrite lxor_two63_high by assumption.
    destruct (N.ltb_spec (u - two63) two63); unfold two63, two64 in *; lia.
Qed.

Lemma cmp_to_int_to_cmp v : int64_ok v -> cmp_to_int (int_to_cmp v) = v.
Proof.
  intros H. rewrite cmp_to_int_spec by now apply int_to_cmp_lt.
  rewrite int_to_cmp_spec by assumption. unfold int64_ok in H. lia.
Qed.

Lemma int_to_cmp_compare v w : int64_ok v -> int64_ok w -> (int_to_cmp v ?= int_to_cmp w) = (v ?= w)%Z.
Proof.
  intros Hv Hw. rewrite !int_to_cmp_spec by assumption. unfold int64_ok in *.
  destruct (Z.compare_spec v w); [apply N.compare_eq_iff|apply N.compare_lt_iff|apply N.compare_gt_iff]; lia.
Qed.

Lemma z_of_u64_of_z v : int64_ok v -> z_of_u64 (u64_of_z v) = v.
Proof.
  unfold int64_ok, z_of_u64. intros H. destruct (Z.ltb_spec v 0).
  - rewrite u64_of_z_neg by lia. destruct (N.ltb_spec (Z.to_N (v + 18446744073709551616)) two63); unfold two63 in *; lia.
  - rewrite u64_of_z_nonneg by lia. destruct (N.ltb_spec (Z.to_N v) two63); unfold two63 in *; lia.
Qed.

Lemma u64_of_z_lt v : u64_of_z v < two64.
Proof. unfold u64_of_z, two64. pose proof (Z.mod_pos_bound v 18446744073709551616). lia. Qed.

(* byte level *)
Lemma encode_int_length v : length (encode_int v) = 8%nat.
Proof. apply be_length. Qed.

Lemma decode_encode_int v r : int64_ok v -> decode_int (encode_int v ++ r) = Ok (r, v).
Proof.
  intros H. unfold decode_int, encode_int.
  rewrite app_length, be_length. cbn [Nat.ltb Nat.leb Nat.add].
  rewrite firstn_be_app, skipn_be_app, from_be_be by (rewrite <- two64_pow; now apply int_to_cmp_lt).
  now rewrite cmp_to_int_to_cmp.
Qed.

Lemma encode_int_cmp v w : int64_ok v -> int64_ok w -> bytes_cmp (encode_int v) (encode_int w) = (v ?= w)%Z.
Proof.
  intros Hv Hw. unfold encode_int.
  rewrite be_cmp_exact by (rewrite <- two64_pow; now apply int_to_cmp_lt).
  now apply int_to_cmp_compare.
Qed.

Lemma decode_encode_int_desc v r : int64_ok v -> decode_int_desc (encode_int_desc v ++ r) = Ok (r, v).
Proof.
  intros H. unfold decode_int_desc, encode_int_desc.
  pose proof (int_to_cmp_lt v H) as Hl.
  assert (Hn : not64 (int_to_cmp v) < two64) by (rewrite not64_spec by assumption; unfold mask64, two64 in *; lia).
  rewrite app_length, be_length. cbn [Nat.ltb Nat.leb Nat.add].
  rewrite firstn_be_app, skipn_be_app, from_be_be by (rewrite <- two64_pow; assumption).
  rewrite (not64_spec (not64 _)) by assumption. rewrite not64_spec by assumption.
  replace (mask64 - (mask64 - int_to_cmp v)) with (int_to_cmp v) by (unfold mask64, two64 in *; lia).
  now rewrite cmp_to_int_to_cmp.
Qed.

Lemma encode_int_desc_cmp v w : int64_ok v -> int64_ok w ->
  bytes_cmp (encode_int_desc v) (encode_int_desc w) = (w ?= v)%Z.
Proof.
  intros Hv Hw. unfold encode_int_desc.
  pose proof (int_to_cmp_lt v Hv). pose proof (int_to_cmp_lt w Hw).
  rewrite be_cmp_exact by (rewrite <- two64_pow, not64_spec by assumption; unfold mask64, two64 in *; lia).
  rewrite !not64_spec by assumption. rewrite <- (int_to_cmp_compare w v) by assumption.
  destruct (N.compare_spec (int_to_cmp w) (int_to_cmp v));
    [apply N.compare_eq_iff|apply N.compare_lt_iff|apply N.compare_gt_iff]; unfold mask64, two64 in *; lia.
Qed.

(* ---------- uint64 ---------- *)

Lemma decode_encode_uint u r : u < two64 -> decode_uint (encode_uint u ++ r) = Ok (r, u).
Proof.
  intros H. unfold decode_uint, encode_uint. rewrite app_length, be_length. cbn [Nat.ltb Nat.leb Nat.add].
  now rewrite firstn_be_app, skipn_be_app, from_be_be by (rewrite <- two64_pow; assumption).
Qed.

Lemma encode_uint_cmp u w : u < two64 -> w < two64 -> bytes_cmp (encode_uint u) (encode_uint w) = (u ?= w).
Proof. intros. unfold encode_uint. apply be_cmp_exact; rewrite <- two64_pow; assumption. Qed.

(* ---------- float64 by bit pattern ---------- *)


(* the comparable image of the order key *)
Definition cmp_of_key (k : Z) : N :=
  if (0 <=? k)%Z then Z.to_N (k + 9223372036854775808) else Z.to_N (k + 9223372036854775807).

Lemma float_nan_low u : u < two63 -> float_is_nan u = (exp_mask <? u).
Proof. intros H. unfold float_is_nan. now rewrite land_abs_mask_low. Qed.
Lemma float_nan_high u : two63 <= u -> u < two64 -> float_is_nan u = (exp_mask <? u - two63).
Proof. intros H1 H2. unfold float_is_nan. now rewrite land_abs_mask_high. Qed.

Lemma float_to_cmp_spec u : float_ok u -> float_to_cmp u = cmp_of_key (float_key u).
Proof.
  intros [Hu Hn]. unfold float_to_cmp, float_ge0, cmp_of_key, float_key, sign_mask. rewrite Hn. cbn [negb andb].
  destruct (N.ltb_spec u two63) as [Hl|Hl].
  - cbn [orb]. rewrite lor_two63_low by assumption.
    destruct (Z.leb_spec 0 (Z.of_N u)); unfold two63 in *; lia.
  - cbn [orb]. destruct (N.eqb_spec u two63) as [->|Hne].
    + rewrite N.lor_diag. reflexivity.
    + rewrite not64_spec by assumption.
      destruct (Z.leb_spec 0 (- Z.of_N (u - two63))); unfold two63, two64, mask64 in *; lia.
Qed.

Lemma float_key_bounds u : float_ok u ->
  (- 9218868437227405312 <= float_key u <= 9218868437227405312)%Z.
Proof.
  intros [Hu Hn]. unfold float_key. destruct (N.ltb_spec u two63) as [Hl|Hl].
  - rewrite float_nan_low in Hn by assumption. apply N.ltb_ge in Hn. unfold exp_mask in *. lia.
  - rewrite float_nan_high in Hn by assumption. apply N.ltb_ge in Hn. unfold exp_mask in *. lia.
Qed.

Lemma float_to_cmp_lt u : float_ok u -> float_to_cmp u < two64.
Proof.
  intros H. rewrite float_to_cmp_spec by assumption. pose proof (float_key_bounds u H).
  unfold cmp_of_key, two64. destruct (Z.leb_spec 0 (float_key u)); lia.
Qed.

Lemma cmp_of_key_compare j k : (cmp_of_key j ?= cmp_of_key k) = (j ?= k)%Z \/
  ~ (- 9223372036854775807 <= j)%Z \/ ~ (- 9223372036854775807 <= k)%Z.
Proof.
  destruct (Z.leb_spec (- 9223372036854775807) j); [|lia].
  destruct (Z.leb_spec (- 9223372036854775807) k); [|lia]. left.
  unfold cmp_of_key. destruct (Z.leb_spec 0 j), (Z.leb_spec 0 k);
  (destruct (Z.compare_spec j k); [apply N.compare_eq_iff|apply N.compare_lt_iff|apply N.compare_gt_iff]; lia).
Qed.

(* order: comparing the images = comparing the float values (by key) *)
Lemma float_to_cmp_compare a b : float_ok a -> float_ok b ->
  (float_to_cmp a ?= float_to_cmp b) = (float_key a ?= float_key b)%Z.
Proof.
  intros Ha Hb. rewrite !float_to_cmp_spec by assumption.
  pose proof (float_key_bounds a Ha). pose proof (float_key_bounds b Hb).
  destruct (cmp_of_key_compare (float_key a) (float_key b)) as [E|[E|E]]; [exact E|lia|lia].
Qed.

(* round trip: exact except that -0 decodes as +0 *)

Lemma cmp_to_float_to_cmp u : float_ok u -> cmp_to_float (float_to_cmp u) = float_norm u.
Proof.
  intros [Hu Hn]. unfold float_to_cmp, float_ge0, cmp_to_float, float_norm, sign_mask. rewrite Hn. cbn [negb andb].
  destruct (N.ltb_spec u two63) as [Hl|Hl].
  - cbn [orb]. rewrite lor_two63_low by assumption.
    rewrite land_two63_high by (unfold two63, two64 in *; lia). change (0 <? two63) with true. cbv iota.
    rewrite land_abs_mask_high by (unfold two63, two64 in *; lia).
    destruct (N.eqb_spec u two63); unfold two63 in *; lia.
  - cbn [orb]. destruct (N.eqb_spec u two63) as [->|Hne].
    + reflexivity.
    + rewrite not64_spec by assumption.
      rewrite land_two63_low by (unfold two63, two64, mask64 in *; lia). change (0 <? 0) with false. cbv iota.
      rewrite not64_spec by (unfold two63, two64, mask64 in *; lia).
      unfold two63, two64, mask64 in *; lia.
Qed.

Lemma float_ltb_spec a b : float_ok a -> float_ok b ->
  float_ltb a b = true <-> float_to_cmp a < float_to_cmp b.
Proof.
  intros Ha Hb. unfold float_ltb. destruct Ha as [Ha Na], Hb as [Hb Nb]. rewrite Na, Nb. cbn [negb andb].
  rewrite Z.ltb_lt. unfold N.lt. rewrite float_to_cmp_compare by (split; assumption). reflexivity.
Qed.

Lemma float_eqb_spec a b : float_ok a -> float_ok b ->
  float_eqb a b = true <-> float_to_cmp a = float_to_cmp b.
Proof.
  intros Ha Hb. unfold float_eqb. destruct Ha as [Ha Na], Hb as [Hb Nb]. rewrite Na, Nb. cbn [negb andb].
  rewrite Z.eqb_eq. rewrite <- N.compare_eq_iff, <- Z.compare_eq_iff.
  rewrite float_to_cmp_compare by (split; assumption). reflexivity.
Qed.

Lemma float_key_norm u : float_key (float_norm u) = float_key u.
Proof. unfold float_norm. destruct (N.eqb_spec u two63) as [->|]; reflexivity. Qed.

Lemma float_norm_ok u : float_ok u -> float_ok (float_norm u).
Proof. intros H. unfold float_norm. destruct (N.eqb_spec u two63); [split; reflexivity|assumption]. Qed.

(* equal keys = equal values up to the sign of zero *)
Lemma float_key_inj a b : float_ok a -> float_ok b -> float_key a = float_key b -> float_norm a = float_norm b.
Proof.
  intros [Ha _] [Hb _]. unfold float_key, float_norm.
  destruct (N.ltb_spec a two63), (N.ltb_spec b two63), (N.eqb_spec a two63), (N.eqb_spec b two63);
    unfold two63, two64 in *; lia.
Qed.

Lemma decode_encode_float u r : float_ok u -> decode_float (encode_float u ++ r) = Ok (r, float_norm u).
Proof.
  intros H. unfold decode_float, encode_float.
  rewrite decode_encode_uint by now apply float_to_cmp_lt. now rewrite cmp_to_float_to_cmp.
Qed.

Lemma encode_float_cmp a b : float_ok a -> float_ok b ->
  bytes_cmp (encode_float a) (encode_float b) = (float_key a ?= float_key b)%Z.
Proof.
  intros Ha Hb. unfold encode_float. rewrite encode_uint_cmp by now apply float_to_cmp_lt.
  now apply float_to_cmp_compare.
Qed.

Lemma encode_float_length u : length (encode_float u) = 8%nat.
Proof. apply be_length. Qed.

(* NaN is outside the contract: a NaN with a clear sign bit is not restored, and it collides with a subnormal *)
Lemma float_nan_not_roundtrip :
  let nan := 9221120237041090561 (* 0x7FF8000000000001 *) in
  float_is_nan nan = true /\
  decode_float (encode_float nan) = Ok ([], 2251799813685246) (* 0x0007FFFFFFFFFFFE *) /\
  float_is_nan 2251799813685246 = false /\
  encode_float nan = encode_float 2251799813685246.
Proof. vm_compute. repeat split. Qed.
