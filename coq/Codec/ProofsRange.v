(* Codec/ProofsRange.v — C12: generic facts about byte ranges, prefixes and separators *)
From ZV Require Import Common.Bytes Common.BytesFacts Codec.Consts Codec.MemCmp Codec.Keys Codec.Spec Codec.ProofsNum.
From Coq Require Import ZifyN ZifyNat ZifyBool Lia.
Open Scope N_scope.

(* ---------- order predicates ---------- *)

Lemma bytes_leb_cmp a b : bytes_leb a b = true <-> bytes_cmp a b <> Gt.
Proof. unfold bytes_leb. destruct (bytes_cmp a b); split; congruence. Qed.
Lemma bytes_ltb_cmp a b : bytes_ltb a b = true <-> bytes_cmp a b = Lt.
Proof. unfold bytes_ltb. destruct (bytes_cmp a b); split; congruence. Qed.

Lemma bytes_cmp_gt_lt a b : bytes_cmp a b = Gt <-> bytes_cmp b a = Lt.
Proof. rewrite (bytes_cmp_antisym b a). destruct (bytes_cmp b a); simpl; split; congruence. Qed.

Lemma in_range_app p a b s : in_range (p ++ a) (p ++ b) (p ++ s) = in_range a b s.
Proof. unfold in_range, bytes_leb, bytes_ltb. now rewrite !bytes_cmp_app_same. Qed.
Lemma in_range_closed_app p a b s : in_range_closed (p ++ a) (p ++ b) (p ++ s) = in_range_closed a b s.
Proof. unfold in_range_closed, bytes_leb. now rewrite !bytes_cmp_app_same. Qed.

(* ---------- prefixes ---------- *)


(* if p is not a prefix of k, comparing p ++ anything with k gives the same result *)
Lemma bytes_cmp_not_prefix p : forall k a b, ~ is_prefix p k ->
  bytes_cmp (p ++ a) k = bytes_cmp (p ++ b) k.
Proof.
  induction p as [|x p IH]; intros k a b Hn.
  - exfalso. apply Hn. now exists k.
  - destruct k as [|y k]; [reflexivity|]. cbn [app bytes_cmp].
    destruct (N.compare_spec x y) as [->|H|H]; try reflexivity.
    apply IH. intros [s ->]. apply Hn. now exists s.
Qed.

Lemma classic_prefix p : forall k, is_prefix p k \/ ~ is_prefix p k.
Proof.
  induction p as [|x p IH]; intros k.
  - left. now exists k.
  - destruct k as [|y k]; [right; intros [s H]; discriminate|].
    destruct (N.eq_dec x y) as [->|Hne].
    + destruct (IH k) as [[s ->]|Hn]; [left; now exists s|right].
      intros [s H]. injection H as ->. apply Hn. now exists s.
    + right. intros [s H]. injection H as -> _. congruence.
Qed.

(* a key inside [p++a, p++b) or [p++a, p++b] has prefix p *)
Lemma in_range_prefix p a b k : in_range (p ++ a) (p ++ b) k = true -> is_prefix p k.
Proof.
  intros H. destruct (classic_prefix p k) as [Hp|Hn]; [assumption|exfalso].
  unfold in_range in H. apply andb_true_iff in H as [H1 H2].
  apply bytes_leb_cmp in H1. apply bytes_ltb_cmp in H2. apply bytes_cmp_gt_lt in H2.
  rewrite (bytes_cmp_not_prefix p k a b Hn) in H1. congruence.
Qed.

Lemma in_range_closed_prefix p a b k : in_range_closed (p ++ a) (p ++ b) k = true -> is_prefix p k.
Proof.
  intros H. destruct (classic_prefix p k) as [Hp|Hn]; [assumption|].
  unfold in_range_closed in H. apply andb_true_iff in H as [H1 H2].
  apply bytes_leb_cmp in H1. apply bytes_leb_cmp in H2.
  rewrite (bytes_cmp_not_prefix p k a b Hn) in H1.
  destruct (bytes_cmp (p ++ b) k) eqn:E.
  - apply bytes_cmp_eq in E. exists b. now symmetry.
  - apply bytes_cmp_gt_lt in E. congruence.
  - congruence.
Qed.

(* exact characterisations *)
Lemma in_range_iff p a b k :
  in_range (p ++ a) (p ++ b) k = true <-> exists s, k = p ++ s /\ in_range a b s = true.
Proof.
  split.
  - intros H. destruct (in_range_prefix _ _ _ _ H) as [s ->]. exists s. split; [reflexivity|].
    now rewrite in_range_app in H.
  - intros [s [-> H]]. now rewrite in_range_app.
Qed.
Lemma in_range_closed_iff p a b k :
  in_range_closed (p ++ a) (p ++ b) k = true <-> exists s, k = p ++ s /\ in_range_closed a b s = true.
Proof.
  split.
  - intros H. destruct (in_range_closed_prefix _ _ _ _ H) as [s ->]. exists s. split; [reflexivity|].
    now rewrite in_range_closed_app in H.
  - intros [s [-> H]]. now rewrite in_range_closed_app.
Qed.

(* the separator range: [p ++ [c], p ++ [c+1]) holds exactly the strings p ++ c :: _ *)
Lemma in_range_sep c s : in_range [c] [c + 1] s = true <-> exists r, s = c :: r.
Proof.
  unfold in_range, bytes_leb, bytes_ltb. split.
  - destruct s as [|y r]; cbn [bytes_cmp]; [discriminate|].
    intros H. apply andb_true_iff in H as [H1 H2].
    destruct (N.compare_spec c y) as [->|Hc|Hc]; [now exists r| |discriminate].
    destruct (N.compare_spec y (c + 1)) as [->|Hd|Hd]; [destruct r; discriminate|lia|discriminate].
  - intros [r ->]. cbn [bytes_cmp]. rewrite N.compare_refl.
    destruct (N.compare_spec c (c + 1)); [lia| |lia]. now destruct r.
Qed.

Theorem sep_range_iff p c k :
  in_range (p ++ [c]) (p ++ [c + 1]) k = true <-> exists r, k = p ++ c :: r.
Proof.
  rewrite in_range_iff. split.
  - intros [s [-> H]]. apply in_range_sep in H as [r ->]. now exists r.
  - intros [r ->]. exists (c :: r). split; [reflexivity|]. apply in_range_sep. now exists r.
Qed.

(* ---------- incr_last / set_last ---------- *)

Lemma incr_last_app p c : incr_last (p ++ [c]) = p ++ [(c + 1) mod 256].
Proof.
  induction p as [|x p IH]; [reflexivity|]. cbn [app incr_last]. rewrite IH.
  destruct (p ++ [c]) eqn:E; [now destruct p|reflexivity].
Qed.
Lemma set_last_app p c v : set_last (p ++ [c]) v = p ++ [v].
Proof.
  induction p as [|x p IH]; [reflexivity|]. cbn [app set_last]. rewrite IH.
  destruct (p ++ [c]) eqn:E; [now destruct p|reflexivity].
Qed.

(* ---------- separators and length prefixes ---------- *)


Lemma split_unique (c : N) : forall (t t' x y : bytes), ~ In c t -> ~ In c t' -> t ++ c :: x = t' ++ c :: y -> t = t' /\ x = y.
Proof.
  induction t as [|a t IH]; intros [|b t'] x y H1 H2 E; cbn [app] in E.
  - injection E as ->. auto.
  - injection E as <- _. exfalso. apply H2. now left.
  - injection E as -> _. exfalso. apply H1. now left.
  - injection E as -> E. destruct (IH t' x y) as [-> ->]; auto.
    + intros H; apply H1; now right.
    + intros H; apply H2; now right.
Qed.

Lemma app_eq_len {A} : forall (a a' x y : list A), length a = length a' -> a ++ x = a' ++ y -> a = a' /\ x = y.
Proof.
  induction a as [|u a IH]; intros [|v a'] x y Hl E; try discriminate; cbn [app] in E.
  - auto.
  - injection E as -> E. simpl in Hl. destruct (IH a' x y) as [-> ->]; auto.
Qed.

Lemma be16_length n : length (be16 n) = 2%nat.
Proof. apply be_length. Qed.

Lemma be16_inj n m : N.of_nat n < 65536 -> N.of_nat m < 65536 -> be16 n = be16 m -> n = m.
Proof.
  intros Hn Hm E. unfold be16, u16_of_len in E.
  rewrite !N.mod_small in E by lia.
  apply be_inj in E; [lia| |]; change (256 ^ N.of_nat 2) with 65536; lia.
Qed.

Lemma be16_spec n : N.of_nat n < 65536 -> be16 n = [N.of_nat n / 256; N.of_nat n mod 256].
Proof.
  intros H. unfold be16, u16_of_len. rewrite N.mod_small by lia.
  cbn [be]. change (256 ^ N.of_nat 1) with 256. change (256 ^ N.of_nat 0) with 1.
  rewrite N.div_1_r. reflexivity.
Qed.

Lemma be16_value n : N.of_nat n < 65536 -> N.to_nat (N.of_nat n / 256 * 256 + N.of_nat n mod 256) = n.
Proof. intros H. pose proof (N.div_mod (N.of_nat n) 256). lia. Qed.
