(* Ckpt/ProofsPlan.v — restoreFromPath's file plan (Ckpt/Model.v restore_plan): the data directory
   ends up equal to the checkpoint on every non-LOG file, sst files as hard links, LOG files
   untouched; no inode that existed before (in particular none of the checkpoint) is modified. *)
From ZV Require Import Common.Bytes Common.BytesFacts Ckpt.Consts Ckpt.Model.
From Coq Require Import ZifyN ZifyNat ZifyBool.
Open Scope N_scope.

Definition dnames (d : list dirent) := map fst d.
Definition file_at (fs : fsys) (d : list dirent) (n : bytes) : option fmeta :=
  match dir_lookup d n with Some i => inode_meta (fs_inodes fs) i | None => None end.
(* every inode of the store is older than the next one to be allocated *)
Definition store_ok (fs : fsys) : Prop := forall i m, inode_meta (fs_inodes fs) i = Some m -> i < fs_next fs.
(* fs' has every inode of fs, unchanged *)
Definition extends (fs fs' : fsys) : Prop := forall i m, inode_meta (fs_inodes fs) i = Some m -> inode_meta (fs_inodes fs') i = Some m.

(* ---------- directory lemmas ---------- *)

Lemma dir_lookup_In d n i : dir_lookup d n = Some i -> In (n, i) d.
Proof.
  induction d as [|[m j] d IH]; cbn; [discriminate|].
  destruct (bytes_eqb m n) eqn:E.
  - apply bytes_eqb_eq in E. subst. intros H; inversion H. now left.
  - intros H. right. auto.
Qed.

Lemma dir_lookup_none d n : dir_lookup d n = None <-> ~ In n (dnames d).
Proof.
  induction d as [|[m j] d IH]; cbn; [tauto|].
  destruct (bytes_eqb m n) eqn:E.
  - apply bytes_eqb_eq in E. subst. split; [discriminate|]. intros H. exfalso. apply H. now left.
  - rewrite IH. split; [intros H [H1|H1]; [subst; now rewrite bytes_eqb_refl in E|auto]|tauto].
Qed.

Lemma In_dir_lookup d n i : NoDup (dnames d) -> In (n, i) d -> dir_lookup d n = Some i.
Proof.
  induction d as [|[m j] d IH]; cbn; [tauto|]. intros Hnd [H|H].
  - inversion H; subst. now rewrite bytes_eqb_refl.
  - inversion Hnd as [|? ? Hm Hnd']; subst.
    destruct (bytes_eqb m n) eqn:E; [|auto].
    apply bytes_eqb_eq in E. subst. exfalso. apply Hm. now apply (in_map fst) in H.
Qed.

Lemma dir_lookup_remove d n n' : dir_lookup (dir_remove d n) n' = if bytes_eqb n n' then None else dir_lookup d n'.
Proof.
  unfold dir_remove. induction d as [|[m j] d IH]; cbn; [now destruct (bytes_eqb n n')|].
  destruct (bytes_eqb m n) eqn:E; cbn.
  - apply bytes_eqb_eq in E. subst m. rewrite IH. destruct (bytes_eqb n n'); reflexivity.
  - rewrite IH. destruct (bytes_eqb m n') eqn:E2; [|reflexivity].
    apply bytes_eqb_eq in E2. subst m. destruct (bytes_eqb n n') eqn:E3; [|reflexivity].
    apply bytes_eqb_eq in E3. subst. now rewrite bytes_eqb_refl in E.
Qed.

Lemma dir_lookup_insert d n i n' :
  dir_lookup d n = None -> dir_lookup (dir_insert d (n, i)) n' = if bytes_eqb n n' then Some i else dir_lookup d n'.
Proof.
  induction d as [|[m j] d IH]; cbn; intros H; [reflexivity|].
  destruct (bytes_eqb m n) eqn:E; [discriminate|].
  destruct (bytes_ltb n m); cbn; [reflexivity|].
  rewrite IH by exact H. destruct (bytes_eqb m n') eqn:E2; [|reflexivity].
  apply bytes_eqb_eq in E2. subst m. destruct (bytes_eqb n n') eqn:E3; [|reflexivity].
  apply bytes_eqb_eq in E3. subst. now rewrite bytes_eqb_refl in E.
Qed.

Lemma dir_lookup_filter (p : dirent -> bool) d n :
  NoDup (dnames d) ->
  dir_lookup (filter p d) n = match dir_lookup d n with Some i => if p (n, i) then Some i else None | None => None end.
Proof.
  induction d as [|[m j] d IH]; cbn; intros Hnd; [reflexivity|].
  inversion Hnd as [|? ? Hm Hnd']; subst.
  destruct (bytes_eqb m n) eqn:E.
  - apply bytes_eqb_eq in E. subst m. destruct (p (n, j)) eqn:Ep; cbn.
    + now rewrite bytes_eqb_refl.
    + rewrite IH by exact Hnd'. apply dir_lookup_none in Hm. now rewrite Hm.
  - destruct (p (m, j)); cbn; [rewrite E|]; now apply IH.
Qed.

Lemma bytes_eqb_neq a b : a <> b -> bytes_eqb a b = false.
Proof. intros H. destruct (bytes_eqb a b) eqn:E; [|reflexivity]. apply bytes_eqb_eq in E. contradiction. Qed.

Lemma extends_refl fs : extends fs fs.
Proof. intros i m H; exact H. Qed.
Lemma extends_trans a b c : extends a b -> extends b c -> extends a c.
Proof. intros H1 H2 i m H. auto. Qed.

Lemma is_regular_extends fs fs' i : extends fs fs' -> is_regular fs i = true -> is_regular fs' i = true.
Proof.
  unfold is_regular. intros He. destruct (inode_meta (fs_inodes fs) i) as [m|] eqn:E; [|discriminate].
  now rewrite (He _ _ E).
Qed.

(* ---------- one copy step ---------- *)

Lemma copy_entry_spec fs cur n j :
  store_ok fs ->
  (is_log n = false -> is_regular fs j = true) ->
  (forall i, is_log n = false -> is_sst n = true -> dir_lookup cur n = Some i -> is_regular fs i = true) ->
  exists fs' cur', copy_entry fs cur (n, j) = Some (fs', cur') /\
    extends fs fs' /\ store_ok fs' /\ fs_next fs <= fs_next fs' /\
    (forall n', n' <> n -> dir_lookup cur' n' = dir_lookup cur n') /\
    (is_log n = true -> dir_lookup cur' n = dir_lookup cur n) /\
    (is_log n = false -> is_sst n = true -> dir_lookup cur' n = Some j) /\
    (is_log n = false -> is_sst n = false ->
       exists i', dir_lookup cur' n = Some i' /\ fs_next fs <= i' /\
                  inode_meta (fs_inodes fs') i' = inode_meta (fs_inodes fs) j).
Proof.
  intros Hok Hreg Hdst. unfold copy_entry.
  destruct (is_log n) eqn:EL.
  - exists fs, cur. repeat split; auto using extends_refl; try lia; discriminate.
  - rewrite (Hreg eq_refl). cbn [negb].
    destruct (is_sst n) eqn:ES.
    + destruct (dir_lookup cur n) as [i|] eqn:ED.
      * rewrite (Hdst i eq_refl eq_refl eq_refl). cbn [negb].
        destruct (i =? j) eqn:EI.
        -- apply N.eqb_eq in EI. subst i. exists fs, cur.
           repeat split; auto using extends_refl; try lia; discriminate.
        -- exists fs, (dir_insert (dir_remove cur n) (n, j)).
           assert (HN : dir_lookup (dir_remove cur n) n = None) by (rewrite dir_lookup_remove; now rewrite bytes_eqb_refl).
           repeat split; auto using extends_refl; try lia; try discriminate.
           ++ intros n' Hn'. rewrite dir_lookup_insert by exact HN.
              rewrite bytes_eqb_neq by auto. rewrite dir_lookup_remove. now rewrite bytes_eqb_neq by auto.
           ++ intros _ _. rewrite dir_lookup_insert by exact HN. now rewrite bytes_eqb_refl.
      * exists fs, (dir_insert cur (n, j)).
        repeat split; auto using extends_refl; try lia; try discriminate.
        -- intros n' Hn'. rewrite dir_lookup_insert by exact ED. now rewrite bytes_eqb_neq by auto.
        -- intros _ _. rewrite dir_lookup_insert by exact ED. now rewrite bytes_eqb_refl.
    + pose proof (Hreg eq_refl) as Hr. unfold is_regular in Hr.
      destruct (inode_meta (fs_inodes fs) j) as [m|] eqn:EM; [|discriminate].
      set (fs' := {| fs_inodes := (fs_next fs, m) :: fs_inodes fs; fs_next := fs_next fs + 1 |}).
      exists fs', (dir_insert (dir_remove cur n) (n, fs_next fs)).
      assert (HN : dir_lookup (dir_remove cur n) n = None) by (rewrite dir_lookup_remove; now rewrite bytes_eqb_refl).
      assert (Hext : extends fs fs').
      { intros i mi Hi. cbn. destruct (fs_next fs =? i) eqn:E; [|exact Hi].
        apply N.eqb_eq in E. apply Hok in Hi. lia. }
      repeat split; auto; try discriminate.
      * intros i mi. cbn. destruct (fs_next fs =? i) eqn:E.
        -- apply N.eqb_eq in E. lia.
        -- intros Hi. apply Hok in Hi. lia.
      * cbn. lia.
      * intros n' Hn'. rewrite dir_lookup_insert by exact HN.
        rewrite bytes_eqb_neq by auto. rewrite dir_lookup_remove. now rewrite bytes_eqb_neq by auto.
      * intros _ _. exists (fs_next fs). rewrite dir_lookup_insert by exact HN. rewrite bytes_eqb_refl.
        split; [reflexivity|]. split; [lia|]. cbn. now rewrite N.eqb_refl.
Qed.

(* ---------- all copy steps ---------- *)

Lemma copy_all_spec : forall ck fs cur,
  NoDup (dnames ck) -> store_ok fs ->
  (forall n j, In (n, j) ck -> is_log n = false -> is_regular fs j = true) ->
  (forall n j i, In (n, j) ck -> is_log n = false -> is_sst n = true -> dir_lookup cur n = Some i -> is_regular fs i = true) ->
  exists fs' cur', copy_all fs cur ck = (fs', cur', true) /\
    extends fs fs' /\ store_ok fs' /\
    (forall n, ~ In n (dnames ck) -> dir_lookup cur' n = dir_lookup cur n) /\
    (forall n j, In (n, j) ck -> is_log n = true -> dir_lookup cur' n = dir_lookup cur n) /\
    (forall n j, In (n, j) ck -> is_log n = false -> is_sst n = true -> dir_lookup cur' n = Some j) /\
    (forall n j, In (n, j) ck -> is_log n = false -> is_sst n = false ->
       exists i', dir_lookup cur' n = Some i' /\ fs_next fs <= i' /\
                  inode_meta (fs_inodes fs') i' = inode_meta (fs_inodes fs) j).
Proof.
  induction ck as [|[n j] ck IH]; intros fs cur Hnd Hok Hreg Hdst.
  - exists fs, cur. cbn. repeat split; auto using extends_refl; intros; contradiction.
  - inversion Hnd as [|? ? Hn Hnd']; subst.
    destruct (copy_entry_spec fs cur n j Hok) as [fs1 [cur1 [E1 [Hx1 [Hok1 [Hnx1 [Hoth [Hlog [Hsst Hcp]]]]]]]]].
    { intros HL. apply (Hreg n j); [now left|exact HL]. }
    { intros i HL HS HD. apply (Hdst n j i); auto. now left. }
    destruct (IH fs1 cur1 Hnd' Hok1) as [fs' [cur' [E2 [Hx2 [Hok2 [Hnot [Hlog2 [Hsst2 Hcp2]]]]]]]].
    { intros n' j' Hin HL. eapply is_regular_extends; [exact Hx1|]. apply (Hreg n' j'); [now right|exact HL]. }
    { intros n' j' i Hin HL HS HD.
      assert (n' <> n) by (intros ->; apply Hn; now apply (in_map fst) in Hin).
      rewrite Hoth in HD by assumption.
      eapply is_regular_extends; [exact Hx1|]. apply (Hdst n' j' i); auto. now right. }
    exists fs', cur'. cbn [copy_all]. rewrite E1.
    assert (Hnn : forall x, In x (dnames ck) -> x <> n) by (intros x Hx ->; contradiction).
    repeat split; auto.
    + eapply extends_trans; eauto.
    + intros n' Hn'. cbn in Hn'. rewrite Hnot by tauto. apply Hoth. intros ->. apply Hn'. now left.
    + intros n' j' [H|H] HL.
      * inversion H; subst. rewrite Hnot by exact Hn. now apply Hlog.
      * rewrite (Hlog2 n' j' H HL). apply Hoth. apply Hnn. now apply (in_map fst) in H.
    + intros n' j' [H|H] HL HS.
      * inversion H; subst. rewrite Hnot by exact Hn. now apply Hsst.
      * now apply (Hsst2 n' j').
    + intros n' j' [H|H] HL HS.
      * inversion H; subst. destruct (Hcp HL HS) as [i' [Hd [Hfresh Hm]]].
        exists i'. rewrite Hnot by exact Hn. split; [exact Hd|]. split; [exact Hfresh|].
        rewrite <- Hm.
        destruct (inode_meta (fs_inodes fs1) i') as [m|] eqn:EM.
        -- now apply Hx2.
        -- (* the copy exists in fs1: its meta equals that of the regular source *)
           exfalso. pose proof (Hreg n' j' (or_introl eq_refl) HL) as Hr. unfold is_regular in Hr.
           rewrite <- Hm in Hr. discriminate.
      * destruct (Hcp2 n' j' H HL HS) as [i' [Hd [Hfresh Hm]]].
        exists i'. split; [exact Hd|]. split; [lia|].
        rewrite Hm.
        pose proof (Hreg n' j' (or_intror H) HL) as Hr. unfold is_regular in Hr.
        destruct (inode_meta (fs_inodes fs) j') as [m|] eqn:EM; [|discriminate].
        now apply Hx1.
Qed.

(* ---------- step 1: what survives in the data directory ---------- *)

Lemma keep_entry_nonlog fs ck n i :
  is_log n = false -> keep_entry fs ck (n, i) = true ->
  is_sst n = true /\ exists j, In (n, j) ck /\ same_sst fs j i = true.
Proof.
  unfold keep_entry. intros -> H. destruct (is_sst n) eqn:ES; [|discriminate].
  split; [reflexivity|].
  destruct (dir_lookup (filter (fun c => is_sst (fst c)) ck) n) as [j|] eqn:E; [|discriminate].
  exists j. split; [|exact H]. apply dir_lookup_In in E. now apply filter_In in E as [E _].
Qed.

Lemma same_sst_regular fs j i : same_sst fs j i = true -> is_regular fs i = true.
Proof.
  unfold same_sst, is_regular.
  destruct (inode_meta (fs_inodes fs) j) as [a|]; [|discriminate].
  destruct (inode_meta (fs_inodes fs) i) as [b|]; [|discriminate].
  destruct (fm_kind a), (fm_kind b); auto; discriminate.
Qed.

(* ---------- the theorem ---------- *)

Theorem restore_plan_correct fs cur ck :
  NoDup (dnames cur) -> NoDup (dnames ck) -> store_ok fs ->
  (* the checkpoint's non-LOG entries are regular files (checkpoints are flat directories) *)
  (forall n j, In (n, j) ck -> is_log n = false -> is_regular fs j = true) ->
  (* a directory entry names an existing inode *)
  (forall n j, In (n, j) ck -> exists m, inode_meta (fs_inodes fs) j = Some m) ->
  exists fs' cur',
    restore_plan fs cur ck = (fs', cur', true) /\
    (* on non-LOG names the data directory now reads exactly as the checkpoint did *)
    (forall n, is_log n = false -> file_at fs' cur' n = file_at fs ck n) /\
    (* sst files are the checkpoint's own inodes (hard links), other files are fresh copies *)
    (forall n j, In (n, j) ck -> is_log n = false -> is_sst n = true -> dir_lookup cur' n = Some j) /\
    (forall n j, In (n, j) ck -> is_log n = false -> is_sst n = false ->
       exists i', dir_lookup cur' n = Some i' /\ fs_next fs <= i') /\
    (* LOG files of the data directory are left alone *)
    (forall n, is_log n = true -> dir_lookup cur' n = dir_lookup cur n) /\
    (* nothing that existed is modified: every old inode — those of the checkpoint included — keeps its content *)
    extends fs fs' /\ (forall n, file_at fs' ck n = file_at fs ck n).
Proof.
  intros Hndc Hndk Hok Hreg Hdir.
  set (cur1 := filter (keep_entry fs ck) cur).
  assert (L1 : forall n, dir_lookup cur1 n =
                match dir_lookup cur n with Some i => if keep_entry fs ck (n, i) then Some i else None | None => None end).
  { intros n. apply dir_lookup_filter, Hndc. }
  destruct (copy_all_spec ck fs cur1 Hndk Hok Hreg) as [fs' [cur' [E [Hx [Hok' [Hnot [Hlog [Hsst Hcp]]]]]]]].
  { intros n j i Hin HL HS HD. rewrite L1 in HD.
    destruct (dir_lookup cur n) as [i0|]; [|discriminate].
    destruct (keep_entry fs ck (n, i0)) eqn:EK; [|discriminate]. inversion HD; subst i0.
    apply keep_entry_nonlog in EK as [_ [j' [_ Hs]]]; [|exact HL]. eapply same_sst_regular; eauto. }
  exists fs', cur'. unfold restore_plan. fold cur1. rewrite E.
  assert (Hck_meta : forall n j, In (n, j) ck -> is_log n = false ->
                                 inode_meta (fs_inodes fs') j = inode_meta (fs_inodes fs) j).
  { intros n j Hin HL. pose proof (Hreg n j Hin HL) as Hr. unfold is_regular in Hr.
    destruct (inode_meta (fs_inodes fs) j) as [m|] eqn:EM; [|discriminate]. now apply Hx. }
  split; [reflexivity|]. split; [|split; [exact Hsst|split; [|split; [|split; [exact Hx|]]]]].
  - intros n HL. unfold file_at.
    destruct (dir_lookup ck n) as [j|] eqn:EK.
    + pose proof (dir_lookup_In _ _ _ EK) as Hin.
      destruct (is_sst n) eqn:ES.
      * rewrite (Hsst n j Hin HL ES). eapply Hck_meta; eauto.
      * destruct (Hcp n j Hin HL ES) as [i' [-> [_ Hm]]]. exact Hm.
    + apply dir_lookup_none in EK. rewrite (Hnot n EK), L1.
      destruct (dir_lookup cur n) as [i|]; [|reflexivity].
      destruct (keep_entry fs ck (n, i)) eqn:EKp; [|reflexivity].
      apply keep_entry_nonlog in EKp as [_ [j [Hin _]]]; [|exact HL].
      exfalso. apply EK. now apply (in_map fst) in Hin.
  - intros n j Hin HL HS. destruct (Hcp n j Hin HL HS) as [i' [Hd [Hf _]]]. eauto.
  - intros n HL.
    assert (Hk : dir_lookup cur1 n = dir_lookup cur n).
    { rewrite L1. destruct (dir_lookup cur n) as [i|]; [|reflexivity]. unfold keep_entry. now rewrite HL. }
    rewrite <- Hk.
    destruct (dir_lookup ck n) as [j|] eqn:EK.
    + apply dir_lookup_In in EK. eapply Hlog; eauto.
    + apply dir_lookup_none in EK. now apply Hnot.
  - intros n. unfold file_at. destruct (dir_lookup ck n) as [j|] eqn:EK; [|reflexivity].
    destruct (Hdir n j (dir_lookup_In _ _ _ EK)) as [m EM]. rewrite EM. now apply Hx.
Qed.

(* ---------- a restore never modifies an existing inode, whatever the directories hold ---------- *)

Lemma copy_entry_extends fs cur e fs' cur' :
  store_ok fs -> copy_entry fs cur e = Some (fs', cur') -> extends fs fs' /\ store_ok fs'.
Proof.
  destruct e as [n j]. unfold copy_entry. intros Hok.
  destruct (is_log n); [intros H; inversion H; subst; auto using extends_refl|].
  destruct (negb (is_regular fs j)); [discriminate|].
  destruct (is_sst n).
  - destruct (dir_lookup cur n) as [i|].
    + destruct (negb (is_regular fs i)); [discriminate|].
      destruct (i =? j); intros H; inversion H; subst; auto using extends_refl.
    + intros H; inversion H; subst; auto using extends_refl.
  - destruct (inode_meta (fs_inodes fs) j) as [m|]; [|discriminate].
    intros H; inversion H; subst. split.
    + intros i mi Hi. cbn. destruct (fs_next fs =? i) eqn:E; [|exact Hi].
      apply N.eqb_eq in E. apply Hok in Hi. lia.
    + intros i mi. cbn. destruct (fs_next fs =? i) eqn:E.
      * apply N.eqb_eq in E. lia.
      * intros Hi. apply Hok in Hi. lia.
Qed.

Lemma copy_all_extends : forall ck fs cur fs' cur' ok,
  store_ok fs -> copy_all fs cur ck = (fs', cur', ok) -> extends fs fs'.
Proof.
  induction ck as [|e ck IH]; cbn; intros fs cur fs' cur' ok Hok H.
  - inversion H; subst. apply extends_refl.
  - destruct (copy_entry fs cur e) as [[fs1 cur1]|] eqn:E.
    + destruct (copy_entry_extends _ _ _ _ _ Hok E) as [Hx Hok1].
      eapply extends_trans; [exact Hx|]. eapply IH; eauto.
    + inversion H; subst. apply extends_refl.
Qed.

(* also when the restore fails half way (a directory inside the checkpoint) *)
Theorem restore_never_damages fs cur ck fs' cur' ok :
  store_ok fs -> restore_plan fs cur ck = (fs', cur', ok) ->
  extends fs fs' /\ forall n, (exists m, file_at fs ck n = Some m) -> file_at fs' ck n = file_at fs ck n.
Proof.
  intros Hok H. unfold restore_plan in H. apply copy_all_extends in H; [|exact Hok].
  split; [exact H|]. intros n [m Hm]. unfold file_at in *.
  destruct (dir_lookup ck n) as [j|]; [|reflexivity]. rewrite Hm. now apply H.
Qed.

(* ---------- later writes do not change a checkpoint: the sst-immutability hypothesis ---------- *)

(* inode i is visible in directory d only under sst names (or not at all) *)
Definition only_sst_names (d : list dirent) (i : N) : Prop := forall n, In (n, i) d -> is_sst n = true.

Section Immutability.
  (* one step of the storage engine on the live data directory (writes, flushes, compactions, file
     deletion): an arbitrary function, constrained only by the two named hypotheses *)
  Variable engine_step : fsys -> list dirent -> fsys * list dirent.
  (* sst_immutable: a file the engine sees only as *.sst is never rewritten (it may be unlinked) *)
  Hypothesis sst_immutable : forall fs d i m,
    inode_meta (fs_inodes fs) i = Some m -> only_sst_names d i ->
    inode_meta (fs_inodes (fst (engine_step fs d))) i = Some m.
  (* no_relink: such a file is never given a non-sst name *)
  Hypothesis no_relink : forall fs d i m,
    inode_meta (fs_inodes fs) i = Some m -> only_sst_names d i ->
    only_sst_names (snd (engine_step fs d)) i.

  Fixpoint engine_run (k : nat) (fs : fsys) (d : list dirent) : fsys * list dirent :=
    match k with O => (fs, d) | S k' => let '(fs1, d1) := engine_step fs d in engine_run k' fs1 d1 end.

  Theorem checkpoint_survives_engine ck : forall k fs d,
    (forall n j, In (n, j) ck -> (exists m, inode_meta (fs_inodes fs) j = Some m) /\ only_sst_names d j) ->
    forall n, file_at (fst (engine_run k fs d)) ck n = file_at fs ck n.
  Proof.
    induction k as [|k IH]; intros fs d H n; [reflexivity|].
    cbn. destruct (engine_step fs d) as [fs1 d1] eqn:E.
    rewrite IH.
    - unfold file_at. destruct (dir_lookup ck n) as [j|] eqn:EK; [|reflexivity].
      destruct (H n j (dir_lookup_In _ _ _ EK)) as [[m Hm] Hs].
      rewrite Hm. pose proof (sst_immutable fs d j m Hm Hs) as H1. now rewrite E in H1.
    - intros n' j Hin. destruct (H n' j Hin) as [[m Hm] Hs]. split.
      + exists m. pose proof (sst_immutable fs d j m Hm Hs) as H1. now rewrite E in H1.
      + pose proof (no_relink fs d j m Hm Hs) as H1. now rewrite E in H1.
  Qed.
End Immutability.

(* after a restore the checkpoint's inodes are visible in the data directory only as sst files *)
Lemma NoDup_dnames_filter (p : dirent -> bool) d : NoDup (dnames d) -> NoDup (dnames (filter p d)).
Proof.
  induction d as [|y d IH]; cbn; intros H; [constructor|].
  inversion H as [|? ? Hy Hnd]; subst.
  destruct (p y); cbn; [constructor; [|auto]|auto].
  intros Hin. apply Hy. unfold dnames in *. apply in_map_iff in Hin as [x [<- Hx]].
  apply filter_In in Hx as [Hx _]. now apply in_map.
Qed.

Lemma In_dir_insert d e x : In x (dir_insert d e) <-> x = e \/ In x d.
Proof.
  induction d as [|y d IH]; cbn; [intuition|].
  destruct (bytes_ltb (fst e) (fst y)); cbn; [intuition|]. rewrite IH. intuition.
Qed.

Lemma In_dir_remove d n x : In x (dir_remove d n) <-> In x d /\ fst x <> n.
Proof.
  unfold dir_remove. rewrite filter_In, negb_true_iff. split; intros [H1 H2]; split; auto.
  - intros E. subst. now rewrite bytes_eqb_refl in H2.
  - now apply bytes_eqb_neq.
Qed.

(* where the entries of the data directory come from after one copy step *)
Lemma copy_entry_sources fs cur n j fs' cur' x i :
  store_ok fs -> copy_entry fs cur (n, j) = Some (fs', cur') -> In (x, i) cur' ->
  In (x, i) cur \/ (x = n /\ is_log n = false /\ ((is_sst n = true /\ i = j) \/ (is_sst n = false /\ fs_next fs <= i))).
Proof.
  intros Hok. unfold copy_entry.
  destruct (is_log n) eqn:EL; [intros H; inversion H; subst; auto|].
  destruct (negb (is_regular fs j)); [discriminate|].
  destruct (is_sst n) eqn:ES.
  - destruct (dir_lookup cur n) as [i0|].
    + destruct (negb (is_regular fs i0)); [discriminate|].
      destruct (i0 =? j); intros H; inversion H; subst; auto.
      intros Hin. apply In_dir_insert in Hin as [Hin|Hin].
      * inversion Hin; subst. right. auto.
      * apply In_dir_remove in Hin as [Hin _]. now left.
    + intros H; inversion H; subst. intros Hin. apply In_dir_insert in Hin as [Hin|Hin]; [inversion Hin; subst; right; auto|now left].
  - destruct (inode_meta (fs_inodes fs) j) as [m|]; [|discriminate].
    intros H; inversion H; subst. intros Hin. apply In_dir_insert in Hin as [Hin|Hin].
    + inversion Hin; subst. right. repeat split; auto. right. split; [reflexivity|lia].
    + apply In_dir_remove in Hin as [Hin _]. now left.
Qed.

Lemma copy_all_sources : forall ck fs cur fs' cur' ok x i,
  store_ok fs -> copy_all fs cur ck = (fs', cur', ok) -> In (x, i) cur' ->
  In (x, i) cur \/ (is_log x = false /\ ((is_sst x = true /\ In (x, i) ck) \/ (is_sst x = false /\ fs_next fs <= i))).
Proof.
  induction ck as [|[n j] ck IH]; cbn [copy_all]; intros fs cur fs' cur' ok x i Hok H Hin.
  - inversion H; subst. now left.
  - destruct (copy_entry fs cur (n, j)) as [[fs1 cur1]|] eqn:E.
    + destruct (copy_entry_extends _ _ _ _ _ Hok E) as [Hx Hok1].
      assert (Hnx : fs_next fs <= fs_next fs1).
      { unfold copy_entry in E. destruct (is_log n); [inversion E; subst; lia|].
        destruct (negb (is_regular fs j)); [discriminate|]. destruct (is_sst n).
        - destruct (dir_lookup cur n) as [i0|]; [destruct (negb (is_regular fs i0)); [discriminate|]; destruct (i0 =? j)|]; inversion E; subst; lia.
        - destruct (inode_meta (fs_inodes fs) j); [|discriminate]. inversion E; subst. cbn. lia. }
      destruct (IH _ _ _ _ _ _ _ Hok1 H Hin) as [H1|[HL [[HS H1]|[HS H1]]]].
      * destruct (copy_entry_sources _ _ _ _ _ _ _ _ Hok E H1) as [H2|[-> [HL [[HS ->]|[HS Hf]]]]]; auto.
        -- right. split; [exact HL|]. left. split; [exact HS|now left].
      * right. split; [exact HL|]. left. split; [exact HS|now right].
      * right. split; [exact HL|]. right. split; [exact HS|lia].
    + inversion H; subst. now left.
Qed.

Theorem restore_establishes_sharing fs cur ck fs' cur' ok :
  store_ok fs ->
  (* LOG files of the data directory are not hard links of checkpoint files *)
  (forall n i n' , In (n, i) cur -> is_log n = true -> ~ In (n', i) ck) ->
  (forall n j, In (n, j) ck -> exists m, inode_meta (fs_inodes fs) j = Some m) ->
  restore_plan fs cur ck = (fs', cur', ok) ->
  forall n j, In (n, j) ck -> only_sst_names cur' j.
Proof.
  intros Hok Hlog Hdir H n j Hin x Hx.
  unfold restore_plan in H.
  destruct (copy_all_sources _ _ _ _ _ _ _ _ Hok H Hx) as [H1|[HL [[HS _]|[HS Hf]]]].
  - apply filter_In in H1 as [H1 Hk]. unfold keep_entry in Hk.
    destruct (is_log x) eqn:EL.
    + exfalso. eapply Hlog; eauto.
    + destruct (is_sst x); [reflexivity|discriminate].
  - exact HS.
  - exfalso. destruct (Hdir n j Hin) as [m Hm]. apply Hok in Hm. lia.
Qed.
