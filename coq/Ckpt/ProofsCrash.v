(* Ckpt/ProofsCrash.v — a process killed inside a backup, a snapshot transfer or a restore:
   the half written checkpoint directory is never accepted as a backup (so it can never be restored
   silently to other content), a retry completes it, and the data directory of an interrupted restore
   is served only as all-old or all-new. With the refutations for the code without the markers. *)
From ZV Require Import Common.Bytes Ckpt.Consts Ckpt.Model Ckpt.ProofsPlan.
From Coq Require Import ZifyN ZifyNat ZifyBool.
Open Scope N_scope.

(* a slot is safe when a half written directory is always marked *)
Definition slot_safe (s : cslot) : Prop := cs_dir s = DPartial -> cs_marked s = true.

Lemma accepted_is_complete op s : slot_safe s -> backup_ok op s = true -> exists v, cs_dir s = DComplete v.
Proof.
  unfold slot_safe, backup_ok. destruct (cs_dir s) as [| |v]; intros Hs H; [discriminate| |eauto].
  rewrite (Hs eq_refl) in H. discriminate.
Qed.

(* every prefix of the backup steps (= every crash point) leaves a safe slot, from any safe slot *)
Theorem backup_crash_safe v k s : slot_safe s -> slot_safe (wrun s (firstn k (backup_steps v))).
Proof.
  intros Hs. unfold slot_safe in *.
  do 6 (destruct k as [|k]; [cbn in *; try (intros; discriminate); auto|]); cbn; intros; discriminate.
Qed.

Theorem fetch_crash_safe v k s : slot_safe s -> slot_safe (wrun s (firstn k (fetch_steps v))).
Proof.
  intros Hs. unfold slot_safe in *.
  do 5 (destruct k as [|k]; [cbn in *; try (intros; discriminate); auto|]); cbn; intros; discriminate.
Qed.

(* hence: whatever the engine thinks of half written directories, a backup that is accepted after
   any crash restores to the content of a complete checkpoint, never to garbage *)
Theorem crashed_backup_never_restores_garbage opens_partial garbage v k s :
  slot_safe s ->
  let s' := wrun s (firstn k (backup_steps v)) in
  backup_ok opens_partial s' = true -> exists w, cs_dir s' = DComplete w /\ restored_content garbage s' = w.
Proof.
  intros Hs. cbv zeta. intros H. destruct (accepted_is_complete _ _ (backup_crash_safe v k s Hs) H) as [w Hw].
  exists w. split; [exact Hw|]. unfold restored_content. now rewrite Hw.
Qed.

Theorem crashed_fetch_never_restores_garbage opens_partial garbage v k s :
  slot_safe s ->
  let s' := wrun s (firstn k (fetch_steps v)) in
  backup_ok opens_partial s' = true -> exists w, cs_dir s' = DComplete w /\ restored_content garbage s' = w.
Proof.
  intros Hs. cbv zeta. intros H. destruct (accepted_is_complete _ _ (fetch_crash_safe v k s Hs) H) as [w Hw].
  exists w. split; [exact Hw|]. unfold restored_content. now rewrite Hw.
Qed.

(* the retry: from whatever a crash left, the complete sequence ends with the checkpoint of content v, accepted *)
Theorem backup_retry_completes opens_partial v s :
  let s' := wrun s (backup_steps v) in
  cs_dir s' = DComplete v /\ cs_marked s' = false /\ backup_ok opens_partial s' = true.
Proof. cbn. auto. Qed.

Theorem fetch_retry_completes opens_partial v s :
  let s' := wrun s (fetch_steps v) in
  cs_dir s' = DComplete v /\ cs_marked s' = false /\ backup_ok opens_partial s' = true.
Proof. cbn. auto. Qed.

(* a transfer that is not retried fails loudly: after a crash before the end the directory is refused *)
Theorem crashed_fetch_is_refused opens_partial v k s :
  (1 <= k <= 3)%nat -> backup_ok opens_partial (wrun s (firstn k (fetch_steps v))) = false.
Proof.
  intros Hk. destruct k as [|[|[|[|k]]]]; try lia; cbn; unfold backup_ok; cbn;
    destruct (cs_dir s); reflexivity.
Qed.

(* without the marker (the code before b3a9b47): a crash after part of the files, an engine that opens
   the half directory — accepted, and Restore brings back garbage *)
Theorem unmarked_backup_refuted :
  exists v k garbage, let s' := wrun {| cs_dir := DAbsent; cs_marked := false |} (firstn k (backup_steps_unmarked v)) in
    backup_ok true s' = true /\ restored_content garbage s' <> v.
Proof. exists 1, 2%nat, 2. cbn. split; [reflexivity|discriminate]. Qed.

Theorem unmarked_fetch_refuted :
  exists v k garbage, let s' := wrun {| cs_dir := DAbsent; cs_marked := false |} (firstn k (fetch_steps_unmarked v)) in
    backup_ok true s' = true /\ restored_content garbage s' <> v.
Proof. exists 1, 1%nat, 2. cbn. split; [reflexivity|discriminate]. Qed.

(* ---------- the data directory of an interrupted restore ---------- *)

(* after any crash inside restoreFromPath the reopened db holds all of the old content or all of the
   content of the checkpoint IN THE DIRECTORY THE RESTORE WAS TAKING IT FROM, never a mixture and
   never the checkpoint of the same name in the other backup directory *)
Theorem restore_crash_all_or_nothing f k :
  let d := open_after_crash (rrun {| rs_data := DOld; rs_marked := None |} (firstn k (restore_steps f))) in
  d = DOld \/ d = DNew f.
Proof. do 5 (destruct k as [|k]; [cbn; auto|]). cbn. auto. Qed.

Theorem restore_crash_unmarked_refuted f :
  exists k, open_after_crash (rrun {| rs_data := DOld; rs_marked := None |} (firstn k (restore_steps_unmarked f))) = DMixed.
Proof. exists 1%nat. reflexivity. Qed.

(* finishing the interrupted restore from the store's local backup directory whatever the marker
   records: a crash inside RestoreFromRemoteBackup ends with the LOCAL checkpoint of that name *)
Theorem restore_resume_from_local_dir_refuted :
  exists k, let d := open_after_crash_local (rrun {| rs_data := DOld; rs_marked := None |} (firstn k (restore_steps FromRemote))) in
    d <> DOld /\ d <> DNew FromRemote.
Proof. exists 2%nat. cbn. split; discriminate. Qed.

(* "finishing" an interrupted restore is restore_plan run again on whatever files are there. At the
   file level: after any number of removals of step 1 and any prefix of the copies of step 2 the
   directory still satisfies what restore_plan_correct needs, so the second run ends with the
   checkpoint's content. *)
Definition crash_state (fs : fsys) (cur ck : list dirent) (k1 k2 : nat) : fsys * list dirent :=
  (* k1 entries of the data directory examined by the removal loop, then (when it finished) k2 checkpoint entries copied *)
  let cur1 := filter (keep_entry fs ck) (firstn k1 cur) ++ skipn k1 cur in
  if Nat.ltb k1 (length cur) then (fs, cur1)
  else let '(fs', d', _) := copy_all fs cur1 (firstn k2 ck) in (fs', d').

Lemma NoDup_dnames_sub (p : dirent -> bool) d k : NoDup (dnames d) -> NoDup (dnames (filter p (firstn k d) ++ skipn k d)).
Proof.
  intros H. rewrite <- (firstn_skipn k d) in H. unfold dnames in *. rewrite map_app in *.
  revert H. generalize (skipn k d) as r. induction (firstn k d) as [|y l IH]; cbn; intros r H; [exact H|].
  inversion H as [|? ? Hy Hnd]; subst. destruct (p y); cbn; [constructor|]; auto.
  intros Hin. apply Hy. apply in_app_or in Hin as [Hin|Hin]; apply in_or_app; [left|right; exact Hin].
  apply in_map_iff in Hin as [x [<- Hx]]. apply filter_In in Hx as [Hx _]. now apply in_map.
Qed.

Lemma copy_all_keeps_wf : forall ck fs cur fs' cur' ok,
  store_ok fs -> NoDup (dnames cur) -> copy_all fs cur ck = (fs', cur', ok) ->
  store_ok fs' /\ NoDup (dnames cur') /\ extends fs fs'.
Proof.
  induction ck as [|[n j] ck IH]; cbn [copy_all]; intros fs cur fs' cur' ok Hok Hnd H.
  - inversion H; subst. auto using extends_refl.
  - destruct (copy_entry fs cur (n, j)) as [[fsa cura]|] eqn:E; [|inversion H; subst; auto using extends_refl].
    destruct (copy_entry_extends _ _ _ _ _ Hok E) as [Hx Hoka].
    assert (Hnda : NoDup (dnames cura)).
    { assert (Hins : forall d e, NoDup (dnames d) -> ~ In (fst e) (dnames d) -> NoDup (dnames (dir_insert d e))).
      { clear. induction d as [|y d IHd]; cbn; intros e Hn Hni; [constructor; [tauto|constructor]|].
        destruct (bytes_ltb (fst e) (fst y)); cbn; [constructor; assumption|].
        inversion Hn as [|? ? Hy Hn']; subst. constructor.
        - intros Hin. unfold dnames in Hin. apply in_map_iff in Hin as [x [Ex Hx]].
          apply In_dir_insert in Hx as [->|Hx]; [apply Hni; left; now symmetry|].
          apply Hy. rewrite <- Ex. now apply in_map.
        - apply IHd; [assumption|]. intros Hin. apply Hni. now right. }
      assert (Hrem : forall d x, NoDup (dnames d) -> NoDup (dnames (dir_remove d x)) /\ ~ In x (dnames (dir_remove d x))).
      { clear. intros d x Hn. split; [now apply NoDup_dnames_filter|].
        intros Hin. unfold dnames in Hin. apply in_map_iff in Hin as [y [Ey Hy]].
        apply In_dir_remove in Hy as [_ Hy]. contradiction. }
      unfold copy_entry in E.
      destruct (is_log n); [now inversion E; subst|].
      destruct (negb (is_regular fs j)); [discriminate|].
      destruct (is_sst n).
      - destruct (dir_lookup cur n) as [i0|] eqn:ED.
        + destruct (negb (is_regular fs i0)); [discriminate|].
          destruct (i0 =? j); inversion E; subst; [assumption|].
          destruct (Hrem cur n Hnd). now apply Hins.
        + inversion E; subst. apply Hins; [assumption|]. now apply dir_lookup_none.
      - destruct (inode_meta (fs_inodes fs) j); [|discriminate]. inversion E; subst.
        destruct (Hrem cur n Hnd). now apply Hins. }
    destruct (IH _ _ _ _ _ Hoka Hnda H) as [A [B C]]. split; [exact A|]. split; [exact B|].
    eapply extends_trans; eauto.
Qed.

Theorem restore_resumes_from_any_crash fs cur ck k1 k2 :
  NoDup (dnames cur) -> NoDup (dnames ck) -> store_ok fs ->
  (forall n j, In (n, j) ck -> is_log n = false -> is_regular fs j = true) ->
  (forall n j, In (n, j) ck -> exists m, inode_meta (fs_inodes fs) j = Some m) ->
  let '(fs1, d1) := crash_state fs cur ck k1 k2 in
  exists fs' cur',
    restore_plan fs1 d1 ck = (fs', cur', true) /\
    (forall n, is_log n = false -> file_at fs' cur' n = file_at fs ck n) /\
    (forall n, file_at fs' ck n = file_at fs ck n).
Proof.
  intros Hndc Hndk Hok Hreg Hdir.
  assert (Hmain : forall fs1 d1, store_ok fs1 -> NoDup (dnames d1) -> extends fs fs1 ->
            exists fs' cur', restore_plan fs1 d1 ck = (fs', cur', true) /\
              (forall n, is_log n = false -> file_at fs' cur' n = file_at fs ck n) /\
              (forall n, file_at fs' ck n = file_at fs ck n)).
  { intros fs1 d1 Hok1 Hnd1 Hx.
    assert (Hsame : forall n, file_at fs1 ck n = file_at fs ck n).
    { intros n. unfold file_at. destruct (dir_lookup ck n) as [j|] eqn:EK; [|reflexivity].
      destruct (Hdir n j (dir_lookup_In _ _ _ EK)) as [m Hm]. rewrite Hm. now apply Hx. }
    destruct (restore_plan_correct fs1 d1 ck Hnd1 Hndk Hok1) as [fs' [cur' [E [Hnl [_ [_ [_ [_ Hck]]]]]]]].
    - intros n j Hin HL. eapply is_regular_extends; [exact Hx|]. eauto.
    - intros n j Hin. destruct (Hdir n j Hin) as [m Hm]. exists m. now apply Hx.
    - exists fs', cur'. split; [exact E|]. split.
      + intros n HL. rewrite (Hnl n HL). apply Hsame.
      + intros n. rewrite Hck. apply Hsame. }
  unfold crash_state.
  pose proof (NoDup_dnames_sub (keep_entry fs ck) cur k1 Hndc) as Hnd1.
  destruct (Nat.ltb k1 (length cur)).
  - apply Hmain; auto using extends_refl.
  - destruct (copy_all fs (filter (keep_entry fs ck) (firstn k1 cur) ++ skipn k1 cur) (firstn k2 ck)) as [[fs1 d1] ok] eqn:E.
    destruct (copy_all_keeps_wf _ _ _ _ _ _ Hok Hnd1 E) as [A [B C]]. now apply Hmain.
Qed.

(* ---------- a transfer that fails without a crash ---------- *)

(* the copy command failed midway and the process lives on: the directory stays marked, so it is
   refused whatever the engine makes of it *)
Theorem failed_fetch_keeps_marker opens_partial v s :
  let s' := fetch_run v FFailed s in
  cs_marked s' = true /\ backup_ok opens_partial s' = false.
Proof. cbn. unfold backup_ok. cbn. auto. Qed.

(* hence the next PrepareSnapshot does not take the shortcut "already there": it transfers again,
   and when that transfer succeeds the directory holds the source's checkpoint; a Restore in
   between is refused. For every sequence of failed / crashed attempts before the successful one. *)
Lemma fetch_attempt_safe v o s : slot_safe s -> slot_safe (fetch_run v o s).
Proof.
  intros Hs. destruct o as [| |k]; cbn [fetch_run].
  - change (fetch_steps v) with (firstn 4 (fetch_steps v)). now apply fetch_crash_safe.
  - change [WMark; WPartial] with (firstn 2 (fetch_steps v)). now apply fetch_crash_safe.
  - now apply fetch_crash_safe.
Qed.

Lemma prepare_safe op v o s : slot_safe s -> slot_safe (prepare op v o s).
Proof. intros Hs. unfold prepare. destruct (backup_ok op s); [exact Hs|now apply fetch_attempt_safe]. Qed.

Theorem repeated_prepare_never_restores_garbage op garbage v (attempts : list fetch_outcome) s :
  slot_safe s ->
  let s' := fold_left (fun st o => prepare op v o st) attempts s in
  backup_ok op s' = true -> exists w, cs_dir s' = DComplete w /\ restored_content garbage s' = w.
Proof.
  intros Hs. cbv zeta.
  assert (Hsafe : slot_safe (fold_left (fun st o => prepare op v o st) attempts s)).
  { revert s Hs. induction attempts as [|o l IH]; intros s Hs; [exact Hs|]. cbn. apply IH. now apply prepare_safe. }
  intros H. destruct (accepted_is_complete _ _ Hsafe H) as [w Hw].
  exists w. split; [exact Hw|]. unfold restored_content. now rewrite Hw.
Qed.

(* after a failed attempt on an absent directory the successful retry really transfers (no shortcut)
   and ends with the source's content *)
Theorem failed_then_ok_fetches_again op v :
  let s1 := prepare op v FFailed {| cs_dir := DAbsent; cs_marked := false |} in
  let s2 := prepare op v FOk s1 in
  backup_ok op s1 = false /\ cs_dir s2 = DComplete v /\ backup_ok op s2 = true.
Proof. cbn. unfold backup_ok, prepare. cbn. auto. Qed.

(* clearing the marker when the transfer is over, whether or not it succeeded: the half directory
   of a failed transfer passes for a backup, the retry takes the shortcut and Restore brings back garbage *)
Theorem unmark_on_failure_refuted :
  exists v garbage,
    let s1 := fetch_run_unmark_always v FFailed {| cs_dir := DAbsent; cs_marked := false |} in
    let s2 := prepare true v FOk s1 in
    backup_ok true s1 = true /\ s2 = s1 /\ restored_content garbage s2 <> v.
Proof. exists 1, 2. cbn. unfold prepare, backup_ok. cbn. repeat split. discriminate. Qed.
