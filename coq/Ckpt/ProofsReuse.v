(* Ckpt/ProofsReuse.v — handleReuseOldCheckpoint: only the directory about to be transferred is ever
   changed, the checkpoint reused is one fetched from the same source, its sst files end up hard-linked
   in the new directory; no inode is written (the plan does not even receive the inode store). *)
From ZV Require Import Common.Bytes Common.BytesFacts Ckpt.Consts Ckpt.Model Ckpt.Proofs Ckpt.ProofsPlan.
From Coq Require Import ZifyN ZifyNat ZifyBool Permutation.
Open Scope N_scope.

Lemma bd_lookup_remove b n n' : bd_lookup (bd_remove b n) n' = if bytes_eqb n n' then None else bd_lookup b n'.
Proof.
  unfold bd_remove. induction b as [|[m c] b IH]; cbn; [now destruct (bytes_eqb n n')|].
  destruct (bytes_eqb m n) eqn:E; cbn.
  - apply bytes_eqb_eq in E. subst m. rewrite IH. destruct (bytes_eqb n n'); reflexivity.
  - rewrite IH. destruct (bytes_eqb m n') eqn:E2; [|reflexivity].
    apply bytes_eqb_eq in E2. subst m. destruct (bytes_eqb n n') eqn:E3; [|reflexivity].
    apply bytes_eqb_eq in E3. subst. now rewrite bytes_eqb_refl in E.
Qed.

Lemma bd_lookup_insert_other b n c n' : n <> n' -> bd_lookup (bd_insert b (n, c)) n' = bd_lookup b n'.
Proof.
  intros Hne. induction b as [|[m d] b IH]; cbn.
  - now rewrite bytes_eqb_neq.
  - destruct (bytes_ltb n m); cbn; [now rewrite bytes_eqb_neq|]. now rewrite IH.
Qed.

Lemma bd_lookup_insert_same b n c : bd_lookup b n = None -> bd_lookup (bd_insert b (n, c)) n = Some c.
Proof.
  induction b as [|[m d] b IH]; cbn; intros H; [now rewrite bytes_eqb_refl|].
  destruct (bytes_eqb m n) eqn:E; [discriminate|].
  destruct (bytes_ltb n m); cbn; [now rewrite bytes_eqb_refl|]. rewrite E. now apply IH.
Qed.

(* the scan changes nothing but possibly the directory named newn *)
Lemma reuse_scan_other : forall desc skip src newn b latest b1 m,
  reuse_scan desc skip src newn b = (latest, b1) -> m <> newn -> bd_lookup b1 m = bd_lookup b m.
Proof.
  induction desc as [|c desc IH]; cbn; intros skip src newn b latest b1 m H Hm.
  - now inversion H.
  - destruct (info_matches b src c).
    + destruct skip; [now inversion H|eauto].
    + destruct (bytes_eqb c newn) eqn:E; [|eauto].
      apply bytes_eqb_eq in E. subst c. rewrite (IH _ _ _ _ _ _ m H Hm).
      rewrite bd_lookup_remove. now rewrite bytes_eqb_neq by auto.
Qed.

(* what the scan returns matched the source info at the moment it was looked at; and it is a candidate *)
Lemma reuse_scan_found : forall desc skip src newn b ln b1,
  reuse_scan desc skip src newn b = (Some ln, b1) ->
  In ln desc /\ info_matches b1 src ln = true.
Proof.
  induction desc as [|c desc IH]; cbn; intros skip src newn b ln b1 H; [discriminate|].
  destruct (info_matches b src c) eqn:EM.
  - destruct skip as [|k].
    + inversion H; subst. auto.
    + destruct (IH _ _ _ _ _ _ H). auto.
  - destruct (bytes_eqb c newn); destruct (IH _ _ _ _ _ _ H); auto.
Qed.

(* reuse touches only the directory named newn *)
Theorem reuse_only_touches_new b src newn skip r b' m :
  reuse_plan b src newn skip = UDone r b' -> m <> newn -> bd_lookup b' m = bd_lookup b m.
Proof.
  unfold reuse_plan. intros H Hm.
  destruct (Nat.leb (length (glob_dash (map fst b))) skip); [now inversion H|].
  destruct (go_sort (glob_dash (map fst b))) as [s|]; [|discriminate].
  destruct (reuse_scan (rev s) skip src newn b) as [latest b1] eqn:ES.
  pose proof (reuse_scan_other _ _ _ _ _ _ _ m ES Hm) as H1.
  destruct latest as [ln|]; [|inversion H; subst; exact H1].
  destruct (bytes_eqb ln newn); [inversion H; subst; exact H1|].
  destruct (bd_lookup b1 ln) as [lc|]; [|inversion H; subst; exact H1].
  destruct (filter (fun e => is_sst (fst e)) (cd_files lc)); inversion H; subst; [exact H1|].
  rewrite bd_lookup_insert_other by auto. rewrite bd_lookup_remove. now rewrite bytes_eqb_neq by auto.
Qed.

(* the checkpoint whose files are reused was fetched from the same source and is not the new one *)
Theorem reuse_source_matches b src newn skip ln b' :
  reuse_plan b src newn skip = UDone (Some ln) b' ->
  ln <> newn /\ In ln (glob_dash (map fst b)) /\ info_matches b src ln = true.
Proof.
  unfold reuse_plan. intros H.
  destruct (Nat.leb (length (glob_dash (map fst b))) skip); [discriminate|].
  destruct (go_sort (glob_dash (map fst b))) as [s|] eqn:EG; [|discriminate].
  destruct (reuse_scan (rev s) skip src newn b) as [latest b1] eqn:ES.
  destruct latest as [l0|]; [|discriminate].
  destruct (bytes_eqb l0 newn) eqn:EN; [discriminate|].
  assert (Hne : l0 <> newn) by (intros ->; now rewrite bytes_eqb_refl in EN).
  destruct (reuse_scan_found _ _ _ _ _ _ _ ES) as [Hin Hm].
  assert (ln = l0).
  { destruct (bd_lookup b1 l0) as [lc|]; [|discriminate].
    destruct (filter (fun e => is_sst (fst e)) (cd_files lc)); now inversion H. }
  subst l0. split; [exact Hne|]. split.
  - eapply Permutation_in; [apply go_sort_perm; exact EG|]. now apply in_rev.
  - unfold info_matches in *. now rewrite <- (reuse_scan_other _ _ _ _ _ _ _ ln ES Hne).
Qed.

(* linking: after all sst files of the reused checkpoint have been linked, each of them is in the
   new directory under its name with the same inode *)
Lemma link_into_lookup files n j n' :
  dir_lookup (link_into files (n, j)) n' = if bytes_eqb n n' then Some j else dir_lookup files n'.
Proof.
  unfold link_into. destruct (dir_lookup files n) as [i|] eqn:E.
  - destruct (i =? j) eqn:EI.
    + apply N.eqb_eq in EI. subst. destruct (bytes_eqb n n') eqn:E2; [|reflexivity].
      apply bytes_eqb_eq in E2. now subst.
    + rewrite dir_lookup_insert by (rewrite dir_lookup_remove; now rewrite bytes_eqb_refl).
      destruct (bytes_eqb n n') eqn:E2; [reflexivity|]. rewrite dir_lookup_remove. now rewrite E2.
  - rewrite dir_lookup_insert by exact E. reflexivity.
Qed.

Lemma fold_link_lookup : forall ssts files n j,
  NoDup (dnames ssts) -> In (n, j) ssts -> dir_lookup (fold_left link_into ssts files) n = Some j.
Proof.
  induction ssts as [|[m i] ssts IH]; intros files n j Hnd Hin; [contradiction|].
  inversion Hnd as [|? ? Hm Hnd']; subst. cbn [fold_left]. destruct Hin as [H|H].
  - inversion H; subst.
    assert (Hstay : forall l fs, ~ In n (dnames l) -> dir_lookup (fold_left link_into l fs) n = dir_lookup fs n).
    { clear. induction l as [|[m i] l IHl]; intros fs Hn; [reflexivity|].
      cbn [fold_left]. rewrite IHl by (intros H; apply Hn; now right).
      rewrite link_into_lookup. rewrite bytes_eqb_neq; [reflexivity|]. intros ->. apply Hn. now left. }
    rewrite Hstay by exact Hm. rewrite link_into_lookup. now rewrite bytes_eqb_refl.
  - now apply IH.
Qed.

Theorem reuse_links_all_sst b src newn skip ln b' lc n j :
  reuse_plan b src newn skip = UDone (Some ln) b' ->
  bd_lookup b ln = Some lc -> NoDup (dnames (cd_files lc)) ->
  In (n, j) (cd_files lc) -> is_sst n = true ->
  exists nc, bd_lookup b' newn = Some nc /\ dir_lookup (cd_files nc) n = Some j.
Proof.
  intros H Hl Hnd Hin Hs.
  destruct (reuse_source_matches _ _ _ _ _ _ H) as [Hne _].
  unfold reuse_plan in H.
  destruct (Nat.leb (length (glob_dash (map fst b))) skip); [discriminate|].
  destruct (go_sort (glob_dash (map fst b))) as [s|]; [|discriminate].
  destruct (reuse_scan (rev s) skip src newn b) as [latest b1] eqn:ES.
  destruct latest as [l0|]; [|discriminate].
  destruct (bytes_eqb l0 newn) eqn:EN; [discriminate|].
  assert (E0 : l0 = ln).
  { destruct (bd_lookup b1 l0) as [lc0|]; [|discriminate].
    destruct (filter (fun e => is_sst (fst e)) (cd_files lc0)); now inversion H. }
  subst l0. rewrite (reuse_scan_other _ _ _ _ _ _ _ ln ES Hne), Hl in H.
  assert (Hin' : In (n, j) (filter (fun e => is_sst (fst e)) (cd_files lc))) by (apply filter_In; auto).
  destruct (filter (fun e => is_sst (fst e)) (cd_files lc)) as [|e0 l0] eqn:EF; [contradiction|].
  inversion H; subst. eexists. split.
  - apply bd_lookup_insert_same. rewrite bd_lookup_remove. now rewrite bytes_eqb_refl.
  - apply (fold_link_lookup (e0 :: l0)); [|exact Hin'].
    rewrite <- EF. now apply NoDup_dnames_filter.
Qed.
