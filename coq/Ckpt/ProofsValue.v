(* Ckpt/ProofsValue.v — value level: a restore returns the content recorded at the backup instant,
   for all histories (Ckpt/Model.v vstep / vcopy) *)
From ZV Require Import Common.Bytes Common.BytesFacts Ckpt.Consts Ckpt.Model Ckpt.Proofs.
From Coq Require Import ZifyN ZifyNat ZifyBool Permutation.
Open Scope N_scope.
Arguments enc_name : simpl never.
Arguments purge_removed : simpl never.
Arguments vpurge : simpl never.

(* ---------- association-list facts ---------- *)

Definition names_of (l : list (bytes * ckinfo)) := map fst l.
Definition wf (s : vstore) : Prop := NoDup (names_of (vs_cks s)) /\ NoDup (names_of (vs_remote s)).

Lemma ck_lookup_In l n c : ck_lookup l n = Some c -> In (n, c) l.
Proof.
  induction l as [|[m d] l IH]; cbn; [discriminate|].
  destruct (bytes_eqb m n) eqn:E.
  - apply bytes_eqb_eq in E. subst. intros H; inversion H. now left.
  - intros H. right. auto.
Qed.

Lemma In_ck_lookup l n c : NoDup (names_of l) -> In (n, c) l -> ck_lookup l n = Some c.
Proof.
  induction l as [|[m d] l IH]; cbn; [tauto|]. intros Hnd [H|H].
  - inversion H; subst. now rewrite bytes_eqb_refl.
  - inversion Hnd as [|? ? Hm Hnd']; subst.
    destruct (bytes_eqb m n) eqn:E; [|auto].
    apply bytes_eqb_eq in E. subst. exfalso. apply Hm. unfold names_of. now apply (in_map fst) in H.
Qed.

Lemma ck_lookup_none_notin l n : ck_lookup l n = None -> ~ In n (names_of l).
Proof.
  induction l as [|[m d] l IH]; cbn; [tauto|].
  destruct (bytes_eqb m n) eqn:E; [discriminate|].
  intros H [H1|H1]; [subst; now rewrite bytes_eqb_refl in E|now apply IH].
Qed.

Lemma In_ck_insert l e x : In x (ck_insert l e) <-> x = e \/ In x l.
Proof.
  induction l as [|y l IH]; cbn; [intuition|].
  destruct (bytes_ltb (fst e) (fst y)); cbn; [intuition|]. rewrite IH. intuition.
Qed.

Lemma names_ck_insert l e n : In n (names_of (ck_insert l e)) <-> n = fst e \/ In n (names_of l).
Proof.
  unfold names_of. rewrite !in_map_iff. split.
  - intros [x [<- Hx]]. apply In_ck_insert in Hx as [->|Hx]; [now left|right; eauto].
  - intros [->|[x [<- Hx]]]; [exists e|exists x]; split; auto; apply In_ck_insert; auto.
Qed.

Lemma NoDup_ck_insert l e : NoDup (names_of l) -> ~ In (fst e) (names_of l) -> NoDup (names_of (ck_insert l e)).
Proof.
  induction l as [|y l IH]; cbn; intros Hnd Hn; [constructor; [tauto|constructor]|].
  destruct (bytes_ltb (fst e) (fst y)); cbn.
  - constructor; assumption.
  - inversion Hnd as [|? ? Hy Hnd']; subst. constructor.
    + intros H. apply names_ck_insert in H as [H|H]; [apply Hn; now left|contradiction].
    + apply IH; [assumption|]. intros H. apply Hn. now right.
Qed.

Lemma NoDup_names_filter (p : bytes * ckinfo -> bool) l : NoDup (names_of l) -> NoDup (names_of (filter p l)).
Proof.
  induction l as [|y l IH]; cbn; intros H; [constructor|].
  inversion H as [|? ? Hy Hnd]; subst.
  destruct (p y); cbn; [constructor; [|auto]|auto].
  intros Hin. apply Hy. unfold names_of in *. apply in_map_iff in Hin as [x [<- Hx]].
  apply filter_In in Hx as [Hx _]. now apply in_map.
Qed.

Lemma names_ck_remove l n : ~ In n (names_of (ck_remove l n)).
Proof.
  unfold ck_remove, names_of. intros H. apply in_map_iff in H as [x [E Hx]].
  apply filter_In in Hx as [_ Hp]. subst. now rewrite bytes_eqb_refl in Hp.
Qed.

(* ---------- purge on a directory ---------- *)

Lemma purge_dir_In k lat l x : In x (purge_dir k lat l) -> In x l.
Proof. unfold purge_dir. intros H. now apply filter_In in H. Qed.

Lemma NoDup_purge_dir k lat l : NoDup (names_of l) -> NoDup (names_of (purge_dir k lat l)).
Proof. apply NoDup_names_filter. Qed.

Lemma purge_dir_lookup k lat l n c :
  NoDup (names_of l) -> ck_lookup (purge_dir k lat l) n = Some c -> ck_lookup l n = Some c.
Proof. intros Hnd H. apply ck_lookup_In, purge_dir_In in H. now apply In_ck_lookup. Qed.

(* projections of vpurge *)
Lemma vpurge_cks s : vs_cks (vpurge s) = purge_dir (keep_num s) (vs_latest s) (vs_cks s).
Proof. reflexivity. Qed.
Lemma vpurge_remote s : vs_remote (vpurge s) = purge_dir (N.to_nat max_remote_checkpoint_num) remote_purge_latest (vs_remote s).
Proof. reflexivity. Qed.
Lemma vpurge_val s : vs_val (vpurge s) = vs_val s.
Proof. reflexivity. Qed.
Lemma vpurge_pending s : vs_pending (vpurge s) = vs_pending s.
Proof. reflexivity. Qed.

(* ---------- well-formedness is an invariant ---------- *)

Lemma wf_vpurge s : wf s -> wf (vpurge s).
Proof. intros [H1 H2]. split; [rewrite vpurge_cks|rewrite vpurge_remote]; now apply NoDup_purge_dir. Qed.

Lemma wf_vstep s o : wf s -> wf (fst (vstep s o)).
Proof.
  intros H. destruct o; cbn; try exact H.
  - destruct (vs_pending s); exact H.
  - destruct (vs_pending s) as [[n v]|]; [|exact H]. cbn.
    apply wf_vpurge. destruct H as [H1 H2]. split; cbn; [|exact H2].
    apply NoDup_ck_insert; [apply NoDup_names_filter, H1|apply names_ck_remove].
  - destruct (ck_lookup (vs_cks s) (enc_name term index)); [|exact H]. cbn. now apply wf_vpurge.
  - destruct (ck_lookup (vs_remote s) (enc_name term index)); [|exact H]. cbn. now apply wf_vpurge.
Qed.

Lemma wf_vcopy a b t i : wf b -> wf (fst (vcopy a b t i)).
Proof.
  intros [H1 H2]. unfold vcopy. destruct (ck_lookup (vs_cks a) (enc_name t i)); split; cbn; try exact H2.
  - apply NoDup_ck_insert; [apply NoDup_names_filter, H1|apply names_ck_remove].
  - apply NoDup_names_filter, H1.
Qed.

Lemma wf_vtransfer_with k a b src t i : wf b -> wf (fst (vtransfer_with k a b src t i)).
Proof.
  intros [H1 H2]. unfold vtransfer_with.
  destruct (match ck_lookup (vs_remote b) (enc_name t i) with
            | Some c => negb (ck_src c =? 0) && (negb k || (ck_src c =? src)) | None => false end); [split; assumption|].
  destruct (ck_lookup (vs_cks a) (enc_name t i)); split; cbn; try exact H1.
  - apply NoDup_ck_insert; [apply NoDup_names_filter, H2|apply names_ck_remove].
  - apply NoDup_names_filter, H2.
Qed.

(* ---------- a checkpoint keeps its recorded content while it exists ---------- *)

Definition not_finish (o : vop) : Prop := match o with OFinish _ _ => False | _ => True end.

Lemma vpurge_lookup s n c : wf s -> ck_lookup (vs_cks (vpurge s)) n = Some c -> ck_lookup (vs_cks s) n = Some c.
Proof. intros [Hw _]. rewrite vpurge_cks. now apply purge_dir_lookup. Qed.

Lemma vpurge_lookup_remote s n c : wf s -> ck_lookup (vs_remote (vpurge s)) n = Some c -> ck_lookup (vs_remote s) n = Some c.
Proof. intros [_ Hw]. rewrite vpurge_remote. now apply purge_dir_lookup. Qed.

(* any step other than the completion of a backup named n leaves what is recorded under n as it
   was, or removes it (purge) *)
Lemma vstep_preserves s o n c :
  wf s -> (match vs_pending s with Some (m, _) => m <> n | None => True end \/ not_finish o) ->
  ck_lookup (vs_cks (fst (vstep s o))) n = Some c -> ck_lookup (vs_cks s) n = Some c.
Proof.
  intros Hw Hp. destruct o; cbn; auto.
  - destruct (vs_pending s); auto.
  - destruct (vs_pending s) as [[m v]|] eqn:EP; auto.
    destruct Hp as [Hp|[]]. cbn. intros H.
    apply vpurge_lookup in H.
    + cbn in H. apply ck_lookup_In, In_ck_insert in H as [H|H]; [inversion H; congruence|].
      unfold ck_remove in H. apply filter_In in H as [H _]. apply In_ck_lookup; [apply Hw|exact H].
    + destruct Hw as [H1 H2]. split; cbn; [|exact H2].
      apply NoDup_ck_insert; [apply NoDup_names_filter, H1|apply names_ck_remove].
  - destruct (ck_lookup (vs_cks s) (enc_name term index)); auto. cbn. intros H.
    apply vpurge_lookup in H; auto.
  - destruct (ck_lookup (vs_remote s) (enc_name term index)); auto. cbn. intros H.
    apply vpurge_lookup in H; auto.
Qed.

(* the directory of remote checkpoints only loses entries under single-store steps *)
Lemma vstep_preserves_remote s o n c :
  wf s -> ck_lookup (vs_remote (fst (vstep s o))) n = Some c -> ck_lookup (vs_remote s) n = Some c.
Proof.
  intros Hw. destruct o; cbn; auto.
  - destruct (vs_pending s); auto.
  - destruct (vs_pending s) as [[m v]|] eqn:EP; auto. cbn. intros H.
    apply vpurge_lookup_remote in H; [exact H|].
    destruct Hw as [H1 H2]. split; cbn; [|exact H2].
    apply NoDup_ck_insert; [apply NoDup_names_filter, H1|apply names_ck_remove].
  - destruct (ck_lookup (vs_cks s) (enc_name term index)); auto. cbn. intros H.
    apply vpurge_lookup_remote in H; auto.
  - destruct (ck_lookup (vs_remote s) (enc_name term index)); auto. cbn. intros H.
    apply vpurge_lookup_remote in H; auto.
Qed.

Lemma vstep_pending s o :
  not_finish o ->
  match vs_pending s with
  | Some p => vs_pending (fst (vstep s o)) = Some p
  | None => True
  end.
Proof.
  intros H. destruct (vs_pending s) as [p|] eqn:E; [|exact I].
  destruct o; cbn; rewrite ?E; auto; try contradiction.
  - destruct (ck_lookup (vs_cks s) (enc_name term index)); cbn; auto.
  - destruct (ck_lookup (vs_remote s) (enc_name term index)); cbn; auto.
Qed.

Definition run (s : vstore) (ops : list vop) : vstore := fold_left (fun s o => fst (vstep s o)) ops s.

Lemma wf_run ops : forall s, wf s -> wf (run s ops).
Proof. induction ops as [|o ops IH]; cbn; intros s H; [exact H|]. apply IH, wf_vstep, H. Qed.

Lemma run_pending ops : forall s p,
  Forall not_finish ops -> vs_pending s = Some p ->
  vs_pending (run s ops) = Some p.
Proof.
  induction ops as [|o ops IH]; cbn; intros s p Hf Hp; [exact Hp|].
  inversion Hf as [|? ? Ho Hf']; subst. apply IH; [exact Hf'|].
  pose proof (vstep_pending s o Ho) as H. now rewrite Hp in H.
Qed.

Definition not_backup_of (n : bytes) (o : vop) : Prop :=
  match o with OBackup t i _ => enc_name t i <> n | _ => True end.

Definition pending_not (n : bytes) (s : vstore) : Prop :=
  match vs_pending s with Some (m, _) => m <> n | None => True end.

Lemma vstep_pending_not n s o : not_backup_of n o -> pending_not n s -> pending_not n (fst (vstep s o)).
Proof.
  unfold pending_not. intros Ho Hs. destruct o; cbn; auto.
  - destruct (vs_pending s) as [[m v]|] eqn:E; cbn; rewrite ?E; auto.
  - destruct (vs_pending s) as [[m v]|] eqn:E; cbn; rewrite ?E; auto.
  - destruct (ck_lookup (vs_cks s) (enc_name term index)); cbn; auto.
  - destruct (ck_lookup (vs_remote s) (enc_name term index)); cbn; auto.
Qed.

Lemma run_preserves n c ops : forall s,
  wf s -> pending_not n s -> Forall (not_backup_of n) ops ->
  ck_lookup (vs_cks (run s ops)) n = Some c -> ck_lookup (vs_cks s) n = Some c.
Proof.
  induction ops as [|o ops IH]; cbn; intros s Hw Hp Hf H; [exact H|].
  inversion Hf as [|? ? Ho Hf']; subst.
  apply IH in H; [|apply wf_vstep, Hw|apply vstep_pending_not; assumption|exact Hf'].
  eapply vstep_preserves; [exact Hw| |exact H]. left. exact Hp.
Qed.

Lemma run_preserves_remote n c ops : forall s,
  wf s -> ck_lookup (vs_remote (run s ops)) n = Some c -> ck_lookup (vs_remote s) n = Some c.
Proof.
  induction ops as [|o ops IH]; cbn; intros s Hw H; [exact H|].
  apply IH in H; [|apply wf_vstep, Hw]. eapply vstep_preserves_remote; eauto.
Qed.

(* ---------- the theorem: for all histories ---------- *)

Theorem backup_restore s0 t i h during dg hf later s3 :
  wf s0 -> vs_pending s0 = None ->
  Forall not_finish during ->
  Forall (not_backup_of (enc_name t i)) later ->
  let s1 := fst (vstep s0 (OBackup t i h)) in
  let s2 := fst (vstep (run s1 during) (OFinish dg hf)) in
  vstep (run s2 later) (ORestore t i) = (s3, ROk) ->
  vs_val s3 = h.
Proof.
  intros Hw Hp Hd Hl s1 s2 HR.
  assert (Hw1 : wf s1) by (apply wf_vstep, Hw).
  assert (Hp1 : vs_pending s1 = Some (enc_name t i, h)) by (unfold s1; cbn; rewrite Hp; reflexivity).
  pose proof (run_pending during s1 _ Hd Hp1) as Hp2.
  assert (Hw2 : wf s2) by (apply wf_vstep, wf_run, Hw1).
  assert (Hn2 : pending_not (enc_name t i) s2).
  { unfold pending_not, s2. cbn. rewrite Hp2. cbn. rewrite vpurge_pending. cbn. exact I. }
  cbn in HR. destruct (ck_lookup (vs_cks (run s2 later)) (enc_name t i)) as [c|] eqn:EL; [|inversion HR].
  inversion HR; subst s3. rewrite vpurge_val. cbn.
  apply (run_preserves _ _ later s2 Hw2 Hn2 Hl) in EL.
  unfold s2 in EL. cbn in EL. rewrite Hp2 in EL. cbn in EL.
  apply vpurge_lookup in EL.
  - cbn in EL. apply ck_lookup_In, In_ck_insert in EL as [EL|EL].
    + inversion EL. reflexivity.
    + exfalso. eapply names_ck_remove. unfold names_of. apply (in_map fst) in EL. exact EL.
  - pose proof (wf_run during s1 Hw1) as [H1 H2]. split; cbn; [|exact H2].
    apply NoDup_ck_insert; [apply NoDup_names_filter, H1|apply names_ck_remove].
Qed.

Theorem restore_outcomes s t i s' r :
  vstep s (ORestore t i) = (s', r) ->
  (r = ROk /\ exists c, ck_lookup (vs_cks s) (enc_name t i) = Some c /\ vs_val s' = ck_val c) \/
  (r = RNoBackup /\ s' = s /\ ck_lookup (vs_cks s) (enc_name t i) = None).
Proof.
  cbn. destruct (ck_lookup (vs_cks s) (enc_name t i)) as [c|] eqn:E; intros H; inversion H; subst.
  - left. split; [reflexivity|]. exists c. auto.
  - right. auto.
Qed.

Theorem restore_again s t i s1 later s2 c :
  wf s -> vs_pending s = None ->
  vstep s (ORestore t i) = (s1, ROk) ->
  Forall (not_backup_of (enc_name t i)) later ->
  ck_lookup (vs_cks (run s1 later)) (enc_name t i) = Some c ->
  vstep (run s1 later) (ORestore t i) = (s2, ROk) ->
  ck_lookup (vs_cks s) (enc_name t i) = Some c /\ vs_val s2 = vs_val s1.
Proof.
  intros Hw Hp H1 Hl Hc H2.
  assert (Hw1 : wf s1) by (change s1 with (fst (s1, ROk)); rewrite <- H1; apply wf_vstep, Hw).
  assert (Hn1 : pending_not (enc_name t i) s1).
  { change s1 with (fst (s1, ROk)). rewrite <- H1. apply vstep_pending_not; [exact I|]. unfold pending_not. now rewrite Hp. }
  pose proof (run_preserves _ _ later s1 Hw1 Hn1 Hl Hc) as Hc1.
  cbn in H1. destruct (ck_lookup (vs_cks s) (enc_name t i)) as [c0|] eqn:E0; [|inversion H1].
  inversion H1; subst s1. apply vpurge_lookup in Hc1; [|exact Hw]. cbn in Hc1.
  cbn in H2. rewrite Hc in H2. inversion H2; subst s2.
  rewrite E0 in Hc1. inversion Hc1; subst c0. split; [reflexivity|]. rewrite !vpurge_val. reflexivity.
Qed.

Theorem copy_restore a b t i b' c later b2 :
  wf b -> pending_not (enc_name t i) b ->
  ck_lookup (vs_cks a) (enc_name t i) = Some c ->
  vcopy a b t i = (b', ROk) ->
  Forall (not_backup_of (enc_name t i)) later ->
  vstep (run b' later) (ORestore t i) = (b2, ROk) ->
  vs_val b2 = ck_val c.
Proof.
  intros Hw Hpn Ha Hc Hl HR.
  assert (Hw' : wf b') by (change b' with (fst (b', ROk)); rewrite <- Hc; apply wf_vcopy, Hw).
  unfold vcopy in Hc. rewrite Ha in Hc. inversion Hc; subst b'. clear Hc.
  cbn in HR. match type of HR with context [ck_lookup ?l ?n] => destruct (ck_lookup l n) as [c'|] eqn:EL end; [|inversion HR].
  inversion HR; subst b2. rewrite vpurge_val. cbn.
  apply run_preserves in EL; [|exact Hw'|exact Hpn|exact Hl]. cbn in EL.
  apply ck_lookup_In, In_ck_insert in EL as [EL|EL]; [now inversion EL|].
  exfalso. eapply names_ck_remove. unfold names_of. apply (in_map fst) in EL. exact EL.
Qed.

(* a checkpoint transferred into the directory for remote checkpoints from source src and applied by
   RestoreFromRemoteBackup: the content restored is that of a checkpoint FROM THAT SOURCE — the one
   just transferred, or the one already there completely from the same source (the shortcut) *)
Theorem transfer_apply_same_source a b src t i b' later b2 :
  wf b -> src <> 0 ->
  vtransfer a b src t i = (b', ROk) ->
  vstep (run b' later) (ORestoreRemote t i) = (b2, ROk) ->
  exists c, vs_val b2 = ck_val c /\ ck_src c = src /\
    ((ck_lookup (vs_remote b) (enc_name t i) = Some c) \/
     (exists ca, ck_lookup (vs_cks a) (enc_name t i) = Some ca /\ ck_val c = ck_val ca /\ ck_dg c = ck_dg ca)).
Proof.
  intros Hw Hsrc Hc HR.
  assert (Hw' : wf b') by (change b' with (fst (b', ROk)); rewrite <- Hc; apply wf_vtransfer_with, Hw).
  cbn in HR. match type of HR with context [ck_lookup ?l ?n] => destruct (ck_lookup l n) as [c'|] eqn:EL end; [|inversion HR].
  inversion HR; subst b2. rewrite vpurge_val. cbn.
  apply run_preserves_remote in EL; [|exact Hw'].
  unfold vtransfer, vtransfer_with in Hc.
  destruct (ck_lookup (vs_remote b) (enc_name t i)) as [c0|] eqn:E0.
  - destruct (negb (ck_src c0 =? 0) && (negb true || (ck_src c0 =? src))) eqn:ES.
    + inversion Hc; subst b'. rewrite E0 in EL. inversion EL; subst c'.
      exists c0. split; [reflexivity|]. split; [|now left].
      apply andb_prop in ES as [_ ES]. cbn in ES. now apply N.eqb_eq in ES.
    + destruct (ck_lookup (vs_cks a) (enc_name t i)) as [ca|] eqn:EA; [|inversion Hc].
      inversion Hc; subst b'. cbn in EL.
      apply ck_lookup_In, In_ck_insert in EL as [EL|EL].
      * inversion EL; subst c'. eexists. split; [reflexivity|]. split; [reflexivity|]. right. exists ca. auto.
      * exfalso. eapply names_ck_remove. unfold names_of. apply (in_map fst) in EL. exact EL.
  - cbn in Hc. destruct (ck_lookup (vs_cks a) (enc_name t i)) as [ca|] eqn:EA; [|inversion Hc].
    inversion Hc; subst b'. cbn in EL.
    apply ck_lookup_In, In_ck_insert in EL as [EL|EL].
    + inversion EL; subst c'. eexists. split; [reflexivity|]. split; [reflexivity|]. right. exists ca. auto.
    + exfalso. eapply names_ck_remove. unfold names_of. apply (in_map fst) in EL. exact EL.
Qed.

(* the shortcut keyed by (term,index) only: a snapshot of the same name transferred earlier from
   ANOTHER source is taken for the requested one, and the apply restores the other source's content *)
Theorem transfer_any_source_refuted :
  exists a b src t i b' b2,
    wf b /\ src <> 0 /\ ck_lookup (vs_cks a) (enc_name t i) <> None /\
    vtransfer_any_source a b src t i = (b', ROk) /\
    vstep b' (ORestoreRemote t i) = (b2, ROk) /\
    (forall ca, ck_lookup (vs_cks a) (enc_name t i) = Some ca -> vs_val b2 <> ck_val ca).
Proof.
  pose (a := set_cks (vinit 0 5) [(enc_name 2 7, {| ck_val := 11; ck_dg := 1; ck_src := 0 |})]).
  pose (b := set_remote (vinit 0 6) [(enc_name 2 7, {| ck_val := 22; ck_dg := 2; ck_src := 9 |})]).
  exists a, b, 8, 2, 7.
  eexists. eexists.
  split; [split; cbn; repeat constructor; intuition|].
  split; [discriminate|]. split; [vm_compute; discriminate|].
  split; [vm_compute; reflexivity|]. split; [vm_compute; reflexivity|].
  intros ca H. vm_compute in H. inversion H; subst. vm_compute. discriminate.
Qed.

(* ---------- purge at the value level: what disappears ---------- *)

Lemma keep_num_pos s : (1 <= keep_num s)%nat.
Proof. unfold keep_num. destruct (0 <? vs_keep s) eqn:E; [lia|]. vm_compute. repeat constructor. Qed.

(* a checkpoint that vpurge discards was selected by purgeOldCheckpoint: so (by the purge theorems of Proofs.v) it is
   not among the newest keep_num, and under index_monotone its index is below the latest snapshot index *)
Theorem vpurge_discards s n c :
  ck_lookup (vs_cks s) n = Some c -> wf s -> ck_lookup (vs_cks (vpurge s)) n = None ->
  In n (purge_removed (keep_num s) (names_of (vs_cks s)) (vs_latest s)).
Proof.
  intros H Hw Hn. apply ck_lookup_In in H.
  destruct (mem_name n (purge_removed (keep_num s) (names_of (vs_cks s)) (vs_latest s))) eqn:E.
  - now apply mem_name_In.
  - exfalso. apply ck_lookup_none_notin in Hn. apply Hn. rewrite vpurge_cks. unfold purge_dir, names_of.
    apply in_map_iff. exists (n, c). split; [reflexivity|]. apply filter_In. split; [exact H|].
    cbn. unfold names_of in E. now rewrite E.
Qed.

Theorem fetch_restore a b t i b' later b2 :
  wf b -> pending_not (enc_name t i) b ->
  vfetch a b t i = (b', ROk) ->
  Forall (not_backup_of (enc_name t i)) later ->
  vstep (run b' later) (ORestore t i) = (b2, ROk) ->
  exists c, vs_val b2 = ck_val c /\
    (ck_lookup (vs_cks b) (enc_name t i) = Some c \/
     (ck_lookup (vs_cks b) (enc_name t i) = None /\ ck_lookup (vs_cks a) (enc_name t i) = Some c)).
Proof.
  intros Hw Hpn Hf Hl HR. unfold vfetch in Hf.
  destruct (ck_lookup (vs_cks b) (enc_name t i)) as [c|] eqn:EB.
  - inversion Hf; subst b'. exists c. split; [|now left].
    cbn in HR. destruct (ck_lookup (vs_cks (run b later)) (enc_name t i)) as [c'|] eqn:EL; [|inversion HR].
    inversion HR; subst b2. rewrite vpurge_val. cbn.
    apply run_preserves in EL; auto. congruence.
  - destruct (ck_lookup (vs_cks a) (enc_name t i)) as [c|] eqn:EA; [|inversion Hf].
    exists c. split; [|right; auto].
    eapply copy_restore; eauto.
Qed.
