(* driver for the C14 model: reads case lines on stdin, prints "<id>\t<model output>" *)
open Model
open Vio

let names_of s = List.map bytes_of_hex (if s = "" then [] else split_on ',' s)
let names_str l = String.concat "," (List.map hex_of_bytes l)

(* ---- file plan I/O ---- *)
let parse_ents (s : string) (base : int) : (n list * (fmeta * int)) list =
  if s = "-" || s = "" then [] else
  List.mapi (fun k e ->
    match split_on ':' e with
    | [nm; kd; sz; hd; tl; ino] ->
      let m = { fm_kind = (if kd = "d" then KDir else KFile); fm_size = n_of_dec sz; fm_head = n_of_dec hd; fm_tail = n_of_dec tl } in
      let i = int_of_string ino in
      (bytes_of_hex nm, (m, (if i > 0 then i else base + k)))
    | _ -> failwith "bad entry") (split_on ',' s)

let show_dir (fs : fsys) (d : (n list * n) list) (ref : (n list * n) list option) : string =
  if d = [] then "-" else
  String.concat "," (List.map (fun (nm, i) ->
    match inode_meta fs.fs_inodes i with
    | None -> hex_of_bytes nm ^ ":missing"
    | Some m ->
      (match m.fm_kind with
       | KDir -> hex_of_bytes nm ^ ":d"
       | KFile ->
         let l = (match ref with
                  | None -> 0
                  | Some r -> (match dir_lookup r nm with Some j when int_of_n j = int_of_n i -> 1 | _ -> 0)) in
         Printf.sprintf "%s:f:%s:%s:%s:%d" (hex_of_bytes nm) (dec_of_n m.fm_size) (dec_of_n m.fm_head) (dec_of_n m.fm_tail) l)) d)

let rec firstn_ml k l = if k <= 0 then [] else (match l with [] -> [] | x :: r -> x :: firstn_ml (k - 1) r)

(* ---- value-level traces ---- *)
let st : (vstore * vstore) ref = ref (vinit N0 N0, vinit N0 N0)
let res_str = function ROk -> "ok" | RNoBackup -> "nobackup" | RBusy -> "busy" | RNone -> "none" | RYes -> "1" | RNo -> "0" | RNoSrc -> "nosrc" | RErr -> "err"
let pad_hex w s = if String.length s >= w then s else String.make (w - String.length s) '0' ^ s
let show_dirl l =
    if l = [] then "-" else
    String.concat "," (List.map (fun (nm, c) -> hex_of_bytes nm ^ "=" ^ pad_hex 10 (hex_of_n c.ck_dg)) l)
let show_store (s : vstore) : string =
  match s.vs_pending with
  | Some _ -> "~"
  | None -> show_dirl s.vs_cks
let pad12 s = let w = 12 in if String.length s >= w then s else String.make (w - String.length s) '0' ^ s
let obs r =
  let (a, b) = !st in
  Printf.sprintf "%s %s %s %s %s %s %s" (res_str r) (pad12 (hex_of_n a.vs_val)) (pad12 (hex_of_n b.vs_val)) (show_store a) (show_store b)
    (show_dirl a.vs_remote) (show_dirl b.vs_remote)
let on_store (s : string) (f : vstore -> vstore * vres) : vres =
  let (a, b) = !st in
  if s = "0" then (let (a', r) = f a in st := (a', b); r) else (let (b', r) = f b in st := (a, b'); r)

let () =
  read_lines stdin (fun line ->
    match split_on '\t' line with
    | id :: "N" :: t :: i :: _ ->
      Printf.printf "%s\t%s\n" id (hex_of_bytes (enc_name (n_of_hex t) (n_of_hex i)))
    | id :: "C" :: a :: b :: _ ->
      let out = (match less (bytes_of_hex a) (bytes_of_hex b) with None -> "panic" | Some true -> "1" | Some false -> "0") in
      Printf.printf "%s\t%s\n" id out
    | id :: "P" :: keep :: latest :: rest ->
      let names = names_of (match rest with x :: _ -> x | [] -> "") in
      Printf.printf "%s\tleft=%s\n" id (names_str (purge_left (nat_of_int (int_of_string keep)) names (n_of_hex latest)))
    | id :: "L" :: skip :: rest ->
      let (ns, ms) = (match rest with a :: b :: _ -> (a, b) | [a] -> (a, "") | [] -> ("", "")) in
      let names = names_of ns and m = names_of ms in
      let out = (match latest_checkpoint names (nat_of_int (int_of_string skip)) (fun x -> mem_name x m) with
                 | LPanic -> "panic" | LNone -> "none" | LSome x -> hex_of_bytes x) in
      Printf.printf "%s\t%s\n" id out
    | id :: "F" :: cur :: ck :: _ ->
      let cke = parse_ents ck 1000 and cue = parse_ents cur 2000 in
      (* hard-linked pairs share one inode id; the store lists every inode once *)
      let inodes = List.map (fun (_, (m, i)) -> (n_of_int i, m)) (cke @ List.filter (fun (_, (_, i)) -> i >= 2000) cue) in
      let fs = { fs_inodes = inodes; fs_next = n_of_int 3000 } in
      let ckd = List.map (fun (nm, (_, i)) -> (nm, n_of_int i)) cke and cud = List.map (fun (nm, (_, i)) -> (nm, n_of_int i)) cue in
      let ((fs', d'), ok) = restore_plan fs cud ckd in
      Printf.printf "%s\t%s data=%s ck=%s\n" id (if ok then "ok" else "err") (show_dir fs' d' (Some ckd)) (show_dir fs' ckd None)
    | id :: "TB" :: _eng :: ka :: kb :: ha :: hb :: _ ->
      st := (vinit (n_of_dec ka) (n_of_hex ha), vinit (n_of_dec kb) (n_of_hex hb));
      Printf.printf "%s\t%s\n" id (obs ROk)
    | id :: "TO" :: "W" :: s :: h :: _ -> let r = on_store s (fun x -> vstep x (OWrite (n_of_hex h))) in Printf.printf "%s\t%s\n" id (obs r)
    | id :: "TO" :: "B" :: s :: t :: i :: h :: _ ->
      let r = on_store s (fun x -> vstep x (OBackup (n_of_hex t, n_of_hex i, n_of_hex h))) in Printf.printf "%s\t%s\n" id (obs r)
    | id :: "TO" :: "G" :: s :: dg :: h :: _ ->
      let r = on_store s (fun x -> vstep x (OFinish ((if dg = "-" then N0 else n_of_hex dg), n_of_hex h))) in Printf.printf "%s\t%s\n" id (obs r)
    | id :: "TO" :: "R" :: s :: t :: i :: _ ->
      let r = on_store s (fun x -> vstep x (ORestore (n_of_hex t, n_of_hex i))) in Printf.printf "%s\t%s\n" id (obs r)
    | id :: "TO" :: "M" :: s :: t :: i :: _ ->
      let r = on_store s (fun x -> vstep x (ORestoreRemote (n_of_hex t, n_of_hex i))) in Printf.printf "%s\t%s\n" id (obs r)
    | id :: "TO" :: "V" :: s :: t :: i :: _ ->
      let (a, b) = !st in
      (* store s is the source (source id = its number + 1), the other store receives *)
      let r = if s = "0" then (let (b', r) = vtransfer a b (n_of_int 1) (n_of_hex t) (n_of_hex i) in st := (a, b'); r)
              else (let (a', r) = vtransfer b a (n_of_int 2) (n_of_hex t) (n_of_hex i) in st := (a', b); r) in
      Printf.printf "%s\t%s\n" id (obs r)
    | id :: "TO" :: "S" :: s :: i :: _ -> let r = on_store s (fun x -> vstep x (OSetLatest (n_of_hex i))) in Printf.printf "%s\t%s\n" id (obs r)
    | id :: "TO" :: "O" :: s :: t :: i :: _ ->
      let r = on_store s (fun x -> vstep x (OLocalOK (n_of_hex t, n_of_hex i))) in Printf.printf "%s\t%s\n" id (obs r)
    | id :: "TO" :: "Z" :: s :: h :: _ -> let r = on_store s (fun x -> vstep x (OReopen (n_of_hex h))) in Printf.printf "%s\t%s\n" id (obs r)
    | id :: "TO" :: "X" :: s :: _ -> let r = on_store s (fun x -> vstep x ONop) in Printf.printf "%s\t%s\n" id (obs r)
    | id :: "TO" :: "Y" :: s :: t :: i :: _ ->
      let (a, b) = !st in
      let r = if s = "0" then (let (b', r) = vcopy a b (n_of_hex t) (n_of_hex i) in st := (a, b'); r)
              else (let (a', r) = vcopy b a (n_of_hex t) (n_of_hex i) in st := (a', b); r) in
      Printf.printf "%s\t%s\n" id (obs r)
    | id :: "TO" :: "F" :: s :: t :: i :: _ ->
      (* store s fetches from the other one *)
      let (a, b) = !st in
      let r = if s = "1" then (let (b', r) = vfetch a b (n_of_hex t) (n_of_hex i) in st := (a, b'); r)
              else (let (a', r) = vfetch b a (n_of_hex t) (n_of_hex i) in st := (a', b); r) in
      Printf.printf "%s\t%s\n" id (obs (match r with RNoSrc -> RNoSrc | x -> x))
    | id :: "E" :: _ ->
      (* the scenario of harness fetch.go at the value level: contents 1,2,3; checkpoints C1=(1,10) C2=(1,20) C3=(2,30) *)
      let n = n_of_int in
      let ops s l = List.fold_left (fun s o -> fst (vstep s o)) s l in
      let a = ops (vinit N0 (n 0)) [OWrite (n 1); OBackup (n 1, n 10, n 1); OFinish (n 101, n 1)] in
      let b = vinit N0 (n 0) in
      let (b, _) = vfetch a b (n 1) (n 10) in let b = ops b [ORestore (n 1, n 10)] in
      let a = ops a [OWrite (n 2); OBackup (n 1, n 20, n 2); OFinish (n 102, n 2)] in
      let (b, _) = vfetch a b (n 1) (n 20) in let b = ops b [ORestore (n 1, n 20)] in
      let c2 = ck_lookup b.vs_cks (enc_name (n 1) (n 20)) in
      let a = ops a [ORestore (n 1, n 10); OWrite (n 3); OBackup (n 2, n 30, n 3); OFinish (n 103, n 3)] in
      let (b3, fr) = vfetch a b (n 2) (n 30) in
      let same_ck = (match c2, ck_lookup b3.vs_cks (enc_name (n 1) (n 20)) with
                     | Some x, Some y -> int_of_n x.ck_dg = int_of_n y.ck_dg && int_of_n x.ck_val = int_of_n y.ck_val | _ -> false) in
      let live = int_of_n b3.vs_val = 2 in
      let (b4, r2) = vstep b3 (ORestore (n 1, n 20)) in
      let (b5, r3) = vstep b4 (ORestore (n 2, n 30)) in
      let bi x = if x then 1 else 0 in
      Printf.printf "%s\tfetch=%s ck2_unchanged=%d live_unchanged=%d restore2=%s:%d restore3=%s:%d\n" id (res_str fr) (bi same_ck) (bi live)
        (res_str r2) (bi (int_of_n b4.vs_val = 2)) (res_str r3) (bi (int_of_n b5.vs_val = 3))
    | id :: "G" :: lid :: retry :: rl :: _t :: _i :: rest ->
      let ps = (match rest with x :: _ when x <> "-" && x <> "" -> split_on ',' x | _ -> []) in
      let peers = List.map (fun e -> match split_on ':' e with
        | [r; a; ro; m; an] -> { p_replica = n_of_dec r; p_addr = bytes_of_hex a; p_root = bytes_of_hex ro; p_module = bytes_of_hex m; p_has = (an = "1") }
        | _ -> failwith "bad peer") ps in
      let b s = List.init (String.length s) (fun k -> n_of_int (Char.code s.[k])) in
      let srcs = valid_sources (n_of_dec lid) (b "127.0.0.1") (b "/mine") (rl = "1") (b "ns-0") peers in
      let out = (match choose_source (nat_of_int (int_of_string retry)) srcs with
                 | None -> "none" | Some (a, d) -> hex_of_bytes a ^ " " ^ hex_of_bytes d) in
      Printf.printf "%s\t%s\n" id out
    | id :: "H" :: src :: t :: i :: skip :: rest ->
      let es = (match rest with x :: _ when x <> "-" && x <> "" -> split_on ',' x | _ -> []) in
      let bd = List.map (fun e -> match split_on ':' e with
        | [nm; info; fl] ->
          let files = if fl = "-" then [] else List.map (fun y -> match split_on '=' y with
            | [fnm; ino] -> (bytes_of_hex fnm, n_of_dec ino) | _ -> failwith "bad file") (split_on '.' fl) in
          (bytes_of_hex nm, { cd_info = (if info = "-" then None else Some (bytes_of_hex info)); cd_files = files })
        | _ -> failwith "bad entry") es in
      let out = (match reuse_plan bd (bytes_of_hex src) (enc_name (n_of_hex t) (n_of_hex i)) (nat_of_int (int_of_string skip)) with
        | UPanic -> "panic"
        | UDone (ru, bd') ->
          let labels = Hashtbl.create 16 in
          let lab ino = (match Hashtbl.find_opt labels ino with Some l -> l | None -> let l = Hashtbl.length labels + 1 in Hashtbl.add labels ino l; l) in
          let dirs = List.map (fun (nm, c) ->
            let fs = List.sort (fun (a, _) (b, _) -> compare (hex_of_bytes a) (hex_of_bytes b)) c.cd_files in
            let fl = if fs = [] then "-" else String.concat "." (List.map (fun (fnm, ino) -> Printf.sprintf "%s=%d" (hex_of_bytes fnm) (lab (int_of_n ino))) fs) in
            hex_of_bytes nm ^ ":" ^ (match c.cd_info with None -> "-" | Some x -> hex_of_bytes x) ^ ":" ^ fl) bd' in
          "reused=" ^ (match ru with None -> "-" | Some x -> hex_of_bytes x) ^ " " ^ (if dirs = [] then "-" else String.concat "," dirs)) in
      Printf.printf "%s\t%s\n" id out
    | id :: "HR" :: _eng :: rounds :: _ ->
      (* per round: writes and cached PFADDs, Backup (flush, then capture), further writes and cached PFADDs,
         Restore (engine closed = cache flushed, THEN the directory is listed): the content of the backup instant *)
      let n = int_of_string rounds in
      let bad = ref 0 in
      for t = 1 to n do
        let h = { h_engine = [n_of_int t]; h_cache = [n_of_int (t + 1000)] } in
        let ck = backup_flush_then_capture h in
        if List.map int_of_n ck <> List.map int_of_n (h_logical h) then incr bad
      done;
      Printf.printf "%s\trounds=%d restore_differs=%d\n" id n !bad
    | id :: "RS" :: _ ->
      (* two sources A (id 1) and B (id 2) hold a checkpoint of the same (term,index) with different content;
         store C transfers + applies from A, repeats the request, then transfers + applies from B *)
      let n = n_of_int in
      let mk v = fst (vstep (fst (vstep (vinit N0 (n v)) (OBackup (n 2, n 7, n v)))) (OFinish (n (100 + v), n v))) in
      let a = mk 11 and b = mk 22 in
      let c0 = vinit N0 (n 5) in
      let ap c = vstep c (ORestoreRemote (n 2, n 7)) in
      let (c1, r1) = vtransfer a c0 (n 1) (n 2) (n 7) in let (c2, r2) = ap c1 in
      let (c3, r3) = vtransfer (vinit N0 (n 0)) c2 (n 1) (n 2) (n 7) in      (* A's checkpoint is gone: the repeated request must not fetch *)
      let (c4, r4) = ap c3 in
      let (c5, r5) = vtransfer b c4 (n 2) (n 2) (n 7) in let (c6, r6) = ap c5 in
      let w c = (match int_of_n c.vs_val with 11 -> "A" | 22 -> "B" | _ -> "other") in
      Printf.printf "%s\tfromA=%s/%s:%s repeatA=%s/%s:%s fromB=%s/%s:%s\n" id (res_str r1) (res_str r2) (w c2) (res_str r3) (res_str r4) (w c4) (res_str r5) (res_str r6) (w c6)
    | id :: "MS" :: _ ->
      (* value level: backup, more writes, restore, reopen from the checkpoint: the content of the backup instant *)
      let n = n_of_int in
      let ops s l = List.fold_left (fun s o -> fst (vstep s o)) s l in
      let s1 = ops (vinit N0 (n 1)) [OBackup (n 3, n 9, n 1); OFinish (n 50, n 1); OWrite (n 2)] in
      let (s2, r) = vstep s1 (ORestore (n 3, n 9)) in
      Printf.printf "%s\tbackup=ok restore=%s:%s again=%s\n" id (res_str r) (if int_of_n s2.vs_val = 1 then "exact" else "WRONG-content")
        (let (s3, r3) = vstep (ops s2 [OWrite (n 3)]) (ORestore (n 3, n 9)) in res_str r3 ^ ":" ^ (if int_of_n s3.vs_val = 1 then "exact" else "WRONG-content"))
    | id :: "FF" :: _ ->
      (* a transfer that fails midway (process alive), then the retry, then Restore; the engine is
         assumed to open half written directories *)
      let v = n_of_int 7 and garbage = n_of_int 9 in
      let s0 = { cs_dir = DAbsent; cs_marked = false } in
      let s1 = prepare true v FFailed s0 in
      let half = (match s1.cs_dir with DAbsent -> "absent" | _ -> if backup_ok true s1 then "ACCEPTED" else "refused") in
      let s2 = prepare true v FOk s1 in
      let rs = if not (backup_ok true s2) then "nobackup" else if int_of_n (restored_content garbage s2) = 7 then "exact" else "WRONG-content" in
      Printf.printf "%s\tfirst=err half=%s second=ok restore=%s\n" id half rs
    | id :: "CB" :: _eng :: point :: _ ->
      (* a backup killed after k of its steps; the engine is assumed to open half written directories *)
      let v = n_of_int 7 and garbage = n_of_int 9 in
      let s0 = { cs_dir = DAbsent; cs_marked = false } in
      let verdict k =
        let s' = wrun s0 (firstn_ml k (backup_steps v)) in
        if backup_ok true s' then (if int_of_n (restored_content garbage s') = 7 then "checkpoint-restores-exactly" else "checkpoint-restores-WRONG-content")
        else "checkpoint-refused" in
      let out = (match point with
        | "ck.save.before" -> "killed " ^ verdict 2
        | "ck.save.after" -> "killed " ^ verdict 4
        | "ck.purge.before" | "ck.purge.after" -> "killed " ^ verdict 5
        | _ ->
          let bad = List.filter (fun k -> verdict k = "checkpoint-restores-WRONG-content") [0;1;2;3;4;5] in
          if bad = [] then "checkpoint-refused-or-exact" else "killed checkpoint-restores-WRONG-content") in
      Printf.printf "%s\t%s\n" id out
    | id :: (("CR" | "CRR") as kd) :: eng :: point :: _ ->
      (* CR: a local restore is interrupted; CRR: RestoreFromRemoteBackup is, while the local backup
         directory holds a checkpoint of the same name with other content *)
      let from = if kd = "CRR" then FromRemote else FromLocal in
      let s0 = { rs_data = DOld; rs_marked = None } in
      let at k = (match open_after_crash (rrun s0 (firstn_ml k (restore_steps from))) with
                  | DOld -> "open=pre-restore" | DMixed -> "open=OTHER-content"
                  | DNew f -> if f = from then "open=restored" else "open=LOCAL-checkpoint-content") in
      let timed = String.length point > 0 && point.[0] = 't' in
      let o = (if timed || eng = "mem" then
                 (match List.filter (fun k -> at k <> "open=pre-restore" && at k <> "open=restored") [0;1;2;3;4] with
                  | [] -> "open=complete" | k :: _ -> at k)
               else "killed " ^ (match point with "rs.remove.after" -> at 2 | _ -> at 3)) in
      Printf.printf "%s\t%s restart-restores-exactly checkpoint-unchanged\n" id o
    | id :: "CF" :: _ ->
      (* a transfer killed after k steps, then PrepareSnapshot + Restore again *)
      let v = n_of_int 7 and garbage = n_of_int 9 in
      let s0 = { cs_dir = DAbsent; cs_marked = false } in
      let after k =
        let s' = wrun s0 (firstn_ml k (fetch_steps v)) in
        let s2 = if backup_ok true s' then s' else wrun s' (fetch_steps v) in
        if backup_ok true s2 && int_of_n (restored_content garbage s2) = 7 then "restores-exactly" else "restores-WRONG-content" in
      let out = if List.for_all (fun k -> after k = "restores-exactly") [0;1;2;3;4] then "restores-exactly" else "half-dir-ACCEPTED restores-WRONG-content" in
      Printf.printf "%s\t%s\n" id out
    | id :: "I" :: _eng :: trials :: _seed :: junk :: _ when junk <> "0" ->
      (* demonstration with a huge data directory: the outcome depends on the time the engine needs to
         list it; not predicted (reported by the harness on the side) *)
      Printf.printf "%s\ttrials=%s later_writes_visible=*\n" id trials
    | id :: "I" :: _eng :: trials :: _ ->
      (* every engine captures the view before it releases the apply loop (Model.v, the order of steps):
         run the protocol per trial with a write right after the release and count the trials whose
         checkpoint does not hold the content of the Backup call *)
      let n = int_of_string trials in
      let bad = ref 0 in
      for t = 1 to n do
        let h0 = n_of_int (2 * t) and h1 = n_of_int (2 * t + 1) in
        (match bsched_run (bstart h0) [BCapture; BRelease; BWrite h1; BWrite h0; BWrite h1] with
         | Some s -> (match s.b_view with Some v when int_of_n v = int_of_n h0 -> () | _ -> incr bad)
         | None -> incr bad)
      done;
      Printf.printf "%s\ttrials=%d later_writes_visible=%d\n" id n !bad
    | id :: "K" :: at :: _ ->
      (* value level: restore returns the content recorded at the backup instant whatever was written later *)
      let s0 = vinit N0 (n_of_dec at) in
      let (s1, _) = vstep s0 (OBackup (n_of_int 7, n_of_int 100, n_of_dec at)) in
      let (s2, _) = vstep s1 (OWrite (n_of_int 999999999)) in
      let (s3, _) = vstep s2 (OFinish (N0, n_of_int 999999999)) in
      let (s4, _) = vstep s3 (ORestore (n_of_int 7, n_of_int 100)) in
      Printf.printf "%s\t%s %s\n" id at (dec_of_n s4.vs_val)
    | _ -> ())
