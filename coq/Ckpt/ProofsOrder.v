(* Ckpt/ProofsOrder.v — the order of capture and release inside one backup: when the engine captures
   the checkpoint's view before it releases the apply loop, no write applied after the release can
   be in the checkpoint, for every schedule; with the opposite order some schedule puts one in. *)
From ZV Require Import Common.Bytes Ckpt.Consts Ckpt.Model.
From Coq Require Import ZifyN ZifyNat ZifyBool.
Open Scope N_scope.

Lemma capture_records_val s : bstep_run s BCapture = Some {| b_val := b_val s; b_released := b_released s; b_view := Some (b_val s) |}.
Proof. reflexivity. Qed.

(* once captured, the view never changes again unless the engine captures again *)
Lemma view_stable : forall l s s' v,
  b_view s = Some v -> ~ In BCapture l -> bsched_run s l = Some s' -> b_view s' = Some v.
Proof.
  induction l as [|e l IH]; intros s s' v Hv Hn H; [inversion H; subst; exact Hv|].
  cbn in H. destruct e; cbn in H.
  - exfalso. apply Hn. now left.
  - eapply IH; [|intros E; apply Hn; now right|exact H]. exact Hv.
  - destruct (b_released s); [|discriminate].
    eapply IH; [|intros E; apply Hn; now right|exact H]. exact Hv.
Qed.

(* capture before release: for EVERY schedule of the apply loop's writes around the engine's two
   events, the checkpoint holds exactly the content of the Backup call *)
Theorem capture_before_release_safe l h0 s' :
  engine_events l = [BCapture; BRelease] ->
  bsched_run (bstart h0) l = Some s' ->
  b_view s' = Some h0.
Proof.
  intros Hev H.
  (* split the schedule at the capture *)
  assert (Hsplit : exists pre post, l = pre ++ BCapture :: post /\
            (forall e, In e pre -> exists h, e = BWrite h) /\ engine_events post = [BRelease]).
  { clear H. revert Hev. induction l as [|e l IH]; cbn; [discriminate|].
    destruct e; cbn.
    - intros E. exists [], l. split; [reflexivity|]. split; [intros e []|]. unfold engine_events. now inversion E.
    - discriminate.
    - intros E. destruct (IH E) as [pre [post [-> [H1 H2]]]].
      exists (BWrite h :: pre), post. split; [reflexivity|]. split; [|exact H2].
      intros e [<-|He]; [eauto|auto]. }
  destruct Hsplit as [pre [post [-> [Hpre Hpost]]]].
  (* before the release no write is possible: pre must be empty *)
  destruct pre as [|e pre].
  - cbn in H. eapply view_stable; [| |exact H]; [reflexivity|].
    intros Hin. assert (In BCapture (engine_events post)) by (apply filter_In; auto).
    rewrite Hpost in H0. destruct H0 as [E|[]]. discriminate.
  - exfalso. destruct (Hpre e (or_introl eq_refl)) as [h ->]. cbn in H. discriminate.
Qed.

(* release before capture (what a timer that fires too early, or a notification sent before the
   engine call, amounts to): some schedule puts a later write into the checkpoint *)
Theorem release_before_capture_refuted :
  exists l h0 s', engine_events l = [BRelease; BCapture] /\
    bsched_run (bstart h0) l = Some s' /\ b_view s' <> Some h0.
Proof.
  exists [BRelease; BWrite 2; BCapture], 1, {| b_val := 2; b_released := true; b_view := Some 2 |}.
  split; [reflexivity|]. split; [reflexivity|]. discriminate.
Qed.


(* ---------- the value-level step OBackup is this protocol with the safe order ---------- *)
From ZV Require Import Ckpt.Proofs Ckpt.ProofsValue.

Definition writes_of (l : list bstep) : list vop :=
  flat_map (fun e => match e with BWrite h => [OWrite h] | _ => [] end) l.
Definition wval (v : N) (l : list bstep) : N :=
  fold_left (fun v e => match e with BWrite h => h | _ => v end) l v.

Lemma bsched_val : forall l st st', bsched_run st l = Some st' -> b_val st' = wval (b_val st) l.
Proof.
  induction l as [|e l IH]; intros st st' H; [now inversion H|].
  cbn in H. destruct e; cbn in H.
  - apply IH in H. exact H.
  - apply IH in H. exact H.
  - destruct (b_released st); [|discriminate]. apply IH in H. exact H.
Qed.

Lemma run_writes_val : forall l s, vs_val (run s (writes_of l)) = wval (vs_val s) l.
Proof.
  induction l as [|e l IH]; intros s; [reflexivity|].
  destruct e; cbn; apply IH.
Qed.

Lemma writes_not_finish l : Forall not_finish (writes_of l).
Proof. induction l as [|e l IH]; cbn; [constructor|]. destruct e; cbn; auto. constructor; [exact I|exact IH]. Qed.

(* Backup(t,i) as a schedule of engine events and apply-loop writes with the order capture, release:
   the value-level model's step OBackup (record the content of the call) followed by the writes is
   exactly what comes out — the recorded view is the content at the Backup call, the live content is
   that of the last write *)
Theorem backup_protocol_refines s t i l st' :
  vs_pending s = None ->
  engine_events l = [BCapture; BRelease] ->
  bsched_run (bstart (vs_val s)) l = Some st' ->
  let s2 := run (fst (vstep s (OBackup t i (vs_val s)))) (writes_of l) in
  b_view st' = Some (vs_val s) /\
  vs_pending s2 = Some (enc_name t i, vs_val s) /\ vs_val s2 = b_val st'.
Proof.
  intros Hp Hev H s2.
  split; [eapply capture_before_release_safe; eauto|].
  split.
  - unfold s2. apply run_pending; [apply writes_not_finish|]. cbn. rewrite Hp. reflexivity.
  - unfold s2. rewrite run_writes_val. apply bsched_val in H. cbn in H. rewrite H.
    cbn. rewrite Hp. reflexivity.
Qed.
