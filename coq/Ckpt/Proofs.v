(* Ckpt/Proofs.v — proofs about the name / sort / purge / latest part of Ckpt/Model.v (C14) *)
From ZV Require Import Common.Bytes Common.BytesFacts Ckpt.Consts Ckpt.Model.
From Coq Require Import ZifyN ZifyNat ZifyBool Permutation Sorted.
Open Scope N_scope.

(* ================= keys of names and the order Less computes ================= *)

Definition term_of (n : bytes) : N := match split_dash n with Some (a, _) => fst (parse_hex a) | None => 0 end.
Definition index_of_name (n : bytes) : N := match split_dash n with Some (_, b) => fst (parse_hex b) | None => 0 end.

(* lexicographic order on (term, index) *)
Definition key_ltb (a b : bytes) : bool :=
  if term_of a =? term_of b then index_of_name a <? index_of_name b else term_of a <? term_of b.
Definition key_le (a b : bytes) : Prop := key_ltb b a = false.

(* a name on which Less cannot panic when it is the left operand and which the glob matches *)
Definition sortable (n : bytes) : bool :=
  match split_dash n with Some (a, _) => snd (parse_hex a) | None => false end.

Lemma less_sortable a b : sortable a = true -> has_dash b = true -> less a b = Some (key_ltb a b).
Proof.
  unfold sortable, has_dash, less, key_ltb, term_of, index_of_name.
  destruct (split_dash a) as [[at_ ai]|]; [|discriminate].
  destruct (split_dash b) as [[bt bi]|]; [|discriminate].
  destruct (parse_hex at_) as [v ok]; cbn. intros -> _. reflexivity.
Qed.

Lemma sortable_has_dash n : sortable n = true -> has_dash n = true.
Proof. unfold sortable, has_dash. destruct (split_dash n) as [[? ?]|]; [reflexivity|discriminate]. Qed.

Lemma less_some a b v : less a b = Some v -> v = key_ltb a b.
Proof.
  unfold less, key_ltb, term_of, index_of_name.
  destruct (split_dash a) as [[at_ ai]|]; [|discriminate].
  destruct (split_dash b) as [[bt bi]|]; [|discriminate].
  destruct (parse_hex at_) as [v' [|]]; [|discriminate]. cbn. intros H. now inversion H.
Qed.

Lemma key_ltb_irrefl a : key_ltb a a = false.
Proof. unfold key_ltb. rewrite N.eqb_refl. apply N.ltb_irrefl. Qed.

Lemma key_ltb_trans a b c : key_ltb a b = true -> key_ltb b c = true -> key_ltb a c = true.
Proof.
  unfold key_ltb.
  destruct (term_of a =? term_of b) eqn:E1, (term_of b =? term_of c) eqn:E2, (term_of a =? term_of c) eqn:E3; lia.
Qed.

Lemma key_le_refl a : key_le a a.
Proof. apply key_ltb_irrefl. Qed.

Lemma key_le_trans a b c : key_le a b -> key_le b c -> key_le a c.
Proof.
  unfold key_le, key_ltb.
  destruct (term_of b =? term_of a) eqn:E1, (term_of c =? term_of b) eqn:E2, (term_of c =? term_of a) eqn:E3; lia.
Qed.

Lemma key_lt_le a b : key_ltb a b = true -> key_le a b.
Proof.
  unfold key_le, key_ltb.
  destruct (term_of a =? term_of b) eqn:E1, (term_of b =? term_of a) eqn:E2; lia.
Qed.

Lemma key_le_total a b : key_le a b \/ key_le b a.
Proof.
  unfold key_le, key_ltb.
  destruct (term_of a =? term_of b) eqn:E1, (term_of b =? term_of a) eqn:E2; lia.
Qed.

(* key_le, unfolded: the (term, index) pair of a is lexicographically at most that of b *)
Lemma key_le_spec a b :
  key_le a b <-> (term_of a < term_of b \/ (term_of a = term_of b /\ index_of_name a <= index_of_name b)).
Proof.
  unfold key_le, key_ltb. destruct (term_of b =? term_of a) eqn:E; lia.
Qed.

(* ================= insertion sort ================= *)

Lemma ins_perm x : forall rp r, ins x rp = Some r -> Permutation r (x :: rp).
Proof.
  induction rp as [|y rp IH]; cbn; intros r H.
  - inversion H. apply Permutation_refl.
  - destruct (less x y) as [[|]|]; [|inversion H; apply Permutation_refl|discriminate].
    destruct (ins x rp) as [r'|]; [|discriminate]. inversion H; subst.
    eapply Permutation_trans; [apply perm_skip, IH; reflexivity|apply perm_swap].
Qed.

Lemma isort_aux_perm : forall l rp r, isort_aux rp l = Some r -> Permutation r (rp ++ l).
Proof.
  induction l as [|x l IH]; cbn; intros rp r H.
  - inversion H. rewrite app_nil_r. apply Permutation_refl.
  - destruct (ins x rp) as [rp'|] eqn:E; [|discriminate].
    apply IH in H. eapply Permutation_trans; [exact H|].
    apply ins_perm in E.
    eapply Permutation_trans; [apply Permutation_app_tail; exact E|].
    cbn. apply Permutation_middle.
Qed.

Theorem go_sort_perm l s : go_sort l = Some s -> Permutation s l.
Proof.
  unfold go_sort. destruct (isort_aux [] l) as [rp|] eqn:E; [|discriminate].
  intros H; inversion H; subst. apply isort_aux_perm in E. cbn in E.
  eapply Permutation_trans; [apply Permutation_sym, Permutation_rev|exact E].
Qed.

(* descending lists: every element is >= the ones after it *)
Definition desc (l : list bytes) : Prop := StronglySorted (fun a b => key_le b a) l.
Definition asc (l : list bytes) : Prop := StronglySorted key_le l.

Lemma ins_total x : forall rp, sortable x = true -> forallb has_dash rp = true -> exists r, ins x rp = Some r.
Proof.
  induction rp as [|y rp IH]; cbn; intros Hx Hrp.
  - eauto.
  - apply andb_prop in Hrp as [Hy Hrp]. rewrite (less_sortable x y Hx Hy).
    destruct (key_ltb x y); [|eauto].
    destruct (IH Hx Hrp) as [r ->]. eauto.
Qed.

Lemma ins_desc x : forall rp r, desc rp -> ins x rp = Some r -> desc r.
Proof.
  induction rp as [|y rp IH]; cbn; intros r Hd H.
  - inversion H. constructor; constructor.
  - destruct (less x y) as [[|]|] eqn:EL; [| |discriminate].
    + destruct (ins x rp) as [r'|] eqn:E; [|discriminate]. inversion H; subst.
      apply StronglySorted_inv in Hd as [Hd Hall].
      constructor; [apply (IH _ Hd eq_refl)|].
      apply ins_perm in E.
      rewrite Forall_forall in *. intros z Hz.
      apply (Permutation_in _ E) in Hz. destruct Hz as [<-|Hz]; [|auto].
      apply less_some in EL. apply key_lt_le. now symmetry.
    + inversion H; subst. constructor; [exact Hd|].
      apply less_some in EL.
      assert (Hyx : key_le y x) by (unfold key_le; now symmetry).
      apply StronglySorted_inv in Hd as [_ Hall].
      constructor; [exact Hyx|].
      rewrite Forall_forall in *. intros z Hz. eapply key_le_trans; [apply Hall, Hz|exact Hyx].
Qed.

Lemma isort_aux_desc : forall l rp r, desc rp -> isort_aux rp l = Some r -> desc r.
Proof.
  induction l as [|x l IH]; cbn; intros rp r Hd H.
  - now inversion H; subst.
  - destruct (ins x rp) as [rp'|] eqn:E; [|discriminate].
    eapply IH; [eapply ins_desc; eauto|exact H].
Qed.

Lemma ss_snoc {A} (R : A -> A -> Prop) m x :
  StronglySorted R m -> Forall (fun z => R z x) m -> StronglySorted R (m ++ [x]).
Proof.
  induction m as [|a m IH]; cbn; intros Hs Hf; [constructor; constructor|].
  apply StronglySorted_inv in Hs as [Hs Ha]. inversion Hf as [|? ? Hax Hf']; subst.
  constructor; [apply IH; assumption|].
  apply Forall_app; split; [exact Ha|constructor; [exact Hax|constructor]].
Qed.

Lemma ss_rev {A} (R : A -> A -> Prop) l :
  StronglySorted R l -> StronglySorted (fun a b => R b a) (rev l).
Proof.
  induction l as [|x l IH]; cbn; intros H; [constructor|].
  apply StronglySorted_inv in H as [Hs Hall].
  apply ss_snoc; [apply IH, Hs|].
  rewrite Forall_forall in *. intros z Hz. apply Hall. now apply in_rev.
Qed.

Lemma desc_rev_asc l : desc l -> asc (rev l).
Proof. intros H. apply (ss_rev _ _ H). Qed.

(* sort.Sort on a listing whose names all carry a parsable term: no panic, a permutation, ascending *)
Theorem go_sort_sorted l :
  forallb sortable l = true -> exists s, go_sort l = Some s /\ Permutation s l /\ asc s.
Proof.
  intros Hall.
  assert (Ht : forall l rp, forallb sortable l = true -> forallb has_dash rp = true ->
                            exists r, isort_aux rp l = Some r).
  { clear. induction l as [|x l IH]; cbn; intros rp Hl Hrp; [eauto|].
    apply andb_prop in Hl as [Hx Hl].
    destruct (ins_total x rp Hx Hrp) as [rp' E]. rewrite E.
    apply IH; [exact Hl|].
    apply ins_perm in E. apply forallb_forall. intros z Hz.
    apply (Permutation_in _ E) in Hz. destruct Hz as [<-|Hz]; [now apply sortable_has_dash|].
    rewrite forallb_forall in Hrp. auto. }
  destruct (Ht l [] Hall eq_refl) as [rp E].
  exists (rev rp). unfold go_sort. rewrite E. split; [reflexivity|]. split.
  - apply go_sort_perm. unfold go_sort. now rewrite E.
  - apply desc_rev_asc. eapply isort_aux_desc; [|exact E]. constructor.
Qed.

Lemma go_sort_asc l s : go_sort l = Some s -> asc s.
Proof.
  unfold go_sort. destruct (isort_aux [] l) as [rp|] eqn:E; [|discriminate].
  intros H; inversion H; subst. apply desc_rev_asc. eapply isort_aux_desc; [|exact E]. constructor.
Qed.

(* ================= purgeOldCheckpoint ================= *)

Lemma mem_name_In x l : mem_name x l = true <-> In x l.
Proof.
  induction l as [|y l IH]; cbn; [split; [discriminate|tauto]|].
  rewrite orb_true_iff, IH, bytes_eqb_eq. split; intros [H|H]; auto.
Qed.

Lemma index_of_after_dash n : index_of_name n = fst (parse_hex (after_dash n)).
Proof. unfold index_of_name, after_dash. destruct (split_dash n) as [[? ?]|]; reflexivity. Qed.

Lemma purge_loop_in ps latest v :
  In v (purge_loop ps latest) ->
  exists look, In (v, look) ps /\ count_dash look = 1%nat /\
               snd (parse_hex (after_dash look)) = true /\ index_of_name look < latest.
Proof.
  induction ps as [|[vi lk] ps IH]; cbn; [tauto|].
  destruct (Nat.eqb (count_dash lk) 1) eqn:E; cbn.
  - destruct (parse_hex (after_dash lk)) as [sidx [|]] eqn:EP.
    + destruct (latest <=? sidx) eqn:EL; [intros []|].
      intros [<-|H].
      * exists lk. apply Nat.eqb_eq in E. rewrite index_of_after_dash, EP. cbn. repeat split; auto. lia.
      * destruct (IH H) as [look [? ?]]. exists look. split; [now right|assumption].
    + intros H. destruct (IH H) as [look [? ?]]. exists look. split; [now right|assumption].
  - intros H. destruct (IH H) as [look [? ?]]. exists look. split; [now right|assumption].
Qed.

Lemma in_combine_nth {A B} (l1 : list A) (l2 : list B) a b :
  In (a, b) (combine l1 l2) -> exists i, nth_error l1 i = Some a /\ nth_error l2 i = Some b.
Proof.
  revert l2. induction l1 as [|x l1 IH]; intros [|y l2]; cbn; try tauto.
  intros [H|H].
  - inversion H; subst. exists 0%nat. auto.
  - destruct (IH _ H) as [i [? ?]]. exists (S i). auto.
Qed.

Lemma nth_error_skipn_add {A} (l : list A) k i : nth_error (skipn k l) i = nth_error l (k + i).
Proof.
  revert l. induction k as [|k IH]; intros l; [reflexivity|].
  destruct l as [|x l]; [now destruct i|]. cbn. apply IH.
Qed.

Lemma asc_nth s : asc s -> forall i j a b, (i <= j)%nat -> nth_error s i = Some a -> nth_error s j = Some b -> key_le a b.
Proof.
  induction 1 as [|x s Hs IH Hall]; intros i j a b Hij Ha Hb.
  - now destruct i.
  - destruct i as [|i], j as [|j]; cbn in *.
    + inversion Ha; inversion Hb; subst. apply key_le_refl.
    + inversion Ha; subst. rewrite Forall_forall in Hall. apply Hall. eapply nth_error_In; eauto.
    + lia.
    + eapply IH; [|eauto|eauto]. lia.
Qed.

(* who can be removed: s[i] only when s[i+keep] exists, has exactly one dash, a parsable index, and that index is below latest *)
Lemma purge_removed_spec keep names latest v :
  In v (purge_removed keep names latest) ->
  exists s i look, go_sort (glob_dash names) = Some s /\
    nth_error s i = Some v /\ nth_error s (keep + i) = Some look /\
    count_dash look = 1%nat /\ snd (parse_hex (after_dash look)) = true /\ index_of_name look < latest.
Proof.
  unfold purge_removed.
  destruct (Nat.leb (length (glob_dash names)) keep); [intros []|].
  destruct (go_sort (glob_dash names)) as [s|] eqn:ES; [|intros []].
  intros H. apply purge_loop_in in H as [look [Hin [Hc [Hp Hl]]]].
  apply in_combine_nth in Hin as [i [Hi Hk]]. rewrite nth_error_skipn_add in Hk.
  exists s, i, look. auto 10.
Qed.

Theorem purge_removed_incl keep names latest v :
  In v (purge_removed keep names latest) -> In v (glob_dash names).
Proof.
  intros H. apply purge_removed_spec in H as [s [i [look [ES [Hi _]]]]].
  apply go_sort_perm in ES. eapply Permutation_in; [exact ES|]. eapply nth_error_In; eauto.
Qed.

(* never an entry whose index is >= latestSnapIndex, provided the (term, index) order of the
   listing agrees with its index order (true of raft: a later term never snapshots a smaller index) *)
Definition index_monotone (l : list bytes) : Prop :=
  forall a b, In a l -> In b l -> key_le a b -> index_of_name a <= index_of_name b.

Theorem purge_index_safe keep names latest v :
  index_monotone (glob_dash names) ->
  In v (purge_removed keep names latest) -> index_of_name v < latest.
Proof.
  intros Hm H. apply purge_removed_spec in H as [s [i [look [ES [Hi [Hk [_ [_ Hl]]]]]]]].
  pose proof (go_sort_asc _ _ ES) as Hasc.
  pose proof (go_sort_perm _ _ ES) as Hp.
  assert (key_le v look) by (eapply (asc_nth s Hasc i (keep + i)); eauto; lia).
  assert (index_of_name v <= index_of_name look).
  { apply Hm; [eapply Permutation_in; [exact Hp|]; eapply nth_error_In; eauto
              |eapply Permutation_in; [exact Hp|]; eapply nth_error_In; eauto|assumption]. }
  lia.
Qed.

(* every removed entry is followed, in the sorted listing, by at least keep entries: it lies in the
   first (n - keep) positions *)
Lemma nth_error_firstn_In {A} (l : list A) i m a : nth_error l i = Some a -> (i < m)%nat -> In a (firstn m l).
Proof.
  revert i m. induction l as [|x l IH]; intros [|i] [|m]; cbn; try discriminate; try lia.
  - intros H _. inversion H. now left.
  - intros H Hm. right. eapply IH; eauto. lia.
Qed.

Theorem purge_keeps_newest keep names latest s v :
  go_sort (glob_dash names) = Some s ->
  In v (purge_removed keep names latest) -> In v (firstn (length s - keep) s).
Proof.
  intros ES H. apply purge_removed_spec in H as [s' [i [look [ES' [Hi [Hk _]]]]]].
  rewrite ES in ES'. inversion ES'; subst s'.
  assert (keep + i < length s)%nat by (apply nth_error_Some; congruence).
  eapply nth_error_firstn_In; eauto. lia.
Qed.

Lemma NoDup_firstn_skipn {A} (l : list A) m x : NoDup l -> In x (firstn m l) -> ~ In x (skipn m l).
Proof.
  intros Hnd H1 H2. rewrite <- (firstn_skipn m l) in Hnd.
  revert Hnd H1 H2. generalize (firstn m l) (skipn m l). intros l1 l2 Hnd.
  induction l1 as [|y l1 IH]; cbn in *; [tauto|].
  inversion Hnd as [|? ? Hy Hnd']; subst. intros [<-|H1] H2.
  - apply Hy. apply in_or_app. now right.
  - now apply IH.
Qed.

(* the newest min(keep, n) entries are never removed *)
Theorem purge_newest_stay keep names latest s v :
  NoDup names -> go_sort (glob_dash names) = Some s ->
  In v (skipn (length s - keep) s) -> ~ In v (purge_removed keep names latest).
Proof.
  intros Hnd ES Hv Hr.
  assert (NoDup s).
  { eapply Permutation_NoDup; [apply Permutation_sym, go_sort_perm; exact ES|]. now apply NoDup_filter. }
  eapply NoDup_firstn_skipn; eauto. eapply purge_keeps_newest; eauto.
Qed.

Lemma purge_loop_length ps latest : (length (purge_loop ps latest) <= length ps)%nat.
Proof.
  induction ps as [|[v lk] ps IH]; cbn; [lia|].
  destruct (negb (Nat.eqb (count_dash lk) 1)); [lia|].
  destruct (parse_hex (after_dash lk)) as [sidx [|]]; [|lia].
  destruct (latest <=? sidx); cbn; lia.
Qed.

Theorem purge_removed_count keep names latest :
  (length (purge_removed keep names latest) + Nat.min keep (length (glob_dash names)) <= length (glob_dash names))%nat.
Proof.
  unfold purge_removed.
  destruct (Nat.leb (length (glob_dash names)) keep) eqn:E; [cbn; lia|].
  destruct (go_sort (glob_dash names)) as [s|] eqn:ES; [|cbn; lia].
  pose proof (purge_loop_length (combine s (skipn keep s)) latest) as H.
  rewrite combine_length, skipn_length in H.
  apply go_sort_perm, Permutation_length in ES. apply Nat.leb_gt in E. lia.
Qed.

Theorem purge_left_spec keep names latest n :
  In n (purge_left keep names latest) <-> In n names /\ ~ In n (purge_removed keep names latest).
Proof.
  unfold purge_left. rewrite filter_In, negb_true_iff.
  split; intros [H1 H2]; split; auto.
  - intros H. apply mem_name_In in H. congruence.
  - destruct (mem_name n (purge_removed keep names latest)) eqn:E; [|reflexivity].
    apply mem_name_In in E. contradiction.
Qed.

(* names the glob does not match are never touched; with keep >= the number of candidates nothing is removed *)
Theorem purge_small_noop keep names latest :
  (length (glob_dash names) <= keep)%nat -> purge_removed keep names latest = [].
Proof. unfold purge_removed. intros H. apply Nat.leb_le in H. now rewrite H. Qed.

(* ================= GetLatestCheckpoint ================= *)

Lemma latest_scan_spec m : forall d skip c,
  latest_scan d skip m = LSome c ->
  exists pre post, d = pre ++ c :: post /\ m c = true /\ length (filter m pre) = skip.
Proof.
  induction d as [|x d IH]; cbn; intros skip c H; [discriminate|].
  destruct (m x) eqn:E.
  - destruct skip as [|k].
    + inversion H; subst. exists [], d. auto.
    + destruct (IH _ _ H) as [pre [post [-> [Hc Hl]]]].
      exists (x :: pre), post. cbn. rewrite E. cbn. auto.
  - destruct (IH _ _ H) as [pre [post [-> [Hc Hl]]]].
    exists (x :: pre), post. cbn. rewrite E. auto.
Qed.

Lemma latest_scan_never_panics m d skip : latest_scan d skip m <> LPanic.
Proof. revert skip. induction d as [|x d IH]; cbn; intros skip; [discriminate|]. destruct (m x); [destruct skip|]; auto. discriminate. Qed.

(* the result matches and is a candidate; with skip = 0 it is the greatest matching candidate *)
Theorem latest_checkpoint_spec names skip m c :
  latest_checkpoint names skip m = LSome c ->
  In c (glob_dash names) /\ m c = true /\
  (skip = 0%nat -> forall d, In d (glob_dash names) -> m d = true -> key_le d c).
Proof.
  unfold latest_checkpoint.
  destruct (Nat.leb (length (glob_dash names)) skip); [discriminate|].
  destruct (go_sort (glob_dash names)) as [s|] eqn:ES; [|discriminate].
  intros H. apply latest_scan_spec in H as [pre [post [Hd [Hc Hl]]]].
  pose proof (go_sort_perm _ _ ES) as Hp. pose proof (go_sort_asc _ _ ES) as Ha.
  assert (Hin : In c s) by (apply in_rev; rewrite Hd; apply in_or_app; right; now left).
  split; [eapply Permutation_in; eauto|]. split; [exact Hc|].
  intros -> d Hdin Hmd.
  apply (Permutation_in _ (Permutation_sym Hp)) in Hdin. apply in_rev in Hdin.
  rewrite Hd in Hdin. apply in_app_or in Hdin as [Hpre|[<-|Hpost]].
  - exfalso. assert (In d (filter m pre)) by (apply filter_In; auto).
    destruct (filter m pre); [contradiction|discriminate].
  - apply key_le_refl.
  - (* d comes after c in the descending list *)
    assert (Hdesc : StronglySorted (fun a b => key_le b a) (rev s)) by (apply (ss_rev _ _ Ha)).
    rewrite Hd in Hdesc. clear -Hdesc Hpost.
    induction pre as [|x pre IH]; cbn in *.
    + apply StronglySorted_inv in Hdesc as [_ Hall]. rewrite Forall_forall in Hall. now apply Hall.
    + apply StronglySorted_inv in Hdesc as [Hs _]. auto.
Qed.

(* a checkpoint is only discarded when a strictly newer one stays behind (keepNum >= 1) *)
Lemma NoDup_nth_error_inj {A} (l : list A) i j x :
  NoDup l -> nth_error l i = Some x -> nth_error l j = Some x -> i = j.
Proof.
  intros Hnd Hi Hj. apply (proj1 (NoDup_nth_error l) Hnd); [apply nth_error_Some; congruence|congruence].
Qed.

Theorem purge_newer_stays keep names latest v :
  NoDup names -> (1 <= keep)%nat -> In v (purge_removed keep names latest) ->
  exists w, In w (glob_dash names) /\ ~ In w (purge_removed keep names latest) /\ key_le v w /\ w <> v.
Proof.
  intros Hnd Hk Hv.
  destruct (purge_removed_spec _ _ _ _ Hv) as [s [i [look [ES [Hi [Hlk _]]]]]].
  assert (Hlen : (keep + i < length s)%nat) by (apply nth_error_Some; congruence).
  destruct (nth_error s (length s - 1)) as [w|] eqn:Hw; [|apply nth_error_None in Hw; lia].
  pose proof (go_sort_perm _ _ ES) as Hp. pose proof (go_sort_asc _ _ ES) as Ha.
  assert (Hnds : NoDup s).
  { eapply Permutation_NoDup; [apply Permutation_sym; exact Hp|]. now apply NoDup_filter. }
  exists w. split; [eapply Permutation_in; [exact Hp|]; eapply nth_error_In; eauto|]. split; [|split].
  - eapply purge_newest_stay; eauto.
    assert (E : nth_error (skipn (length s - keep) s) (keep - 1) = Some w).
    { rewrite nth_error_skipn_add. replace (length s - keep + (keep - 1))%nat with (length s - 1)%nat by lia. exact Hw. }
    eapply nth_error_In; eauto.
  - eapply (asc_nth s Ha i (length s - 1)); eauto. lia.
  - intros ->. assert (i = (length s - 1)%nat) by (eapply NoDup_nth_error_inj; eauto). lia.
Qed.

(* without index_monotone the index clause fails: term 1 snapshot at index 100, term 2 snapshot at index 5 *)
Theorem purge_unsafe_without_monotone :
  exists keep names latest v, NoDup names /\ In v (purge_removed keep names latest) /\ latest <= index_of_name v.
Proof.
  exists 1%nat, [enc_name 1 100; enc_name 2 5], 50, (enc_name 1 100).
  split; [repeat constructor; cbn; intuition discriminate|].
  vm_compute. split; [now left|discriminate].
Qed.
