(* Ckpt/Extract.v — extraction of the C14 model (ExtrOcamlBasic only) *)
From Coq Require Import ExtrOcamlBasic.
From ZV Require Import Ckpt.Model.
Extraction Language OCaml.
Extraction "model.ml" Z.of_N N.of_nat Nat.add N.to_nat enc_name less parse_hex purge_left purge_removed latest_checkpoint
  mem_name restore_plan dir_lookup inode_meta vinit vstep vcopy vtransfer vfetch bsched_run bstart wrun backup_steps fetch_steps backup_ok restored_content rrun restore_steps open_after_crash fetch_run prepare backup_flush_then_capture h_logical valid_sources choose_source reuse_plan ck_lookup bytes_eqb.
