(* Ckpt/ProofsFetch.v — fetching a checkpoint from a peer on the same host never modifies an existing
   inode (so no older checkpoint and no live sst); the copy onto reused hard links did. *)
From ZV Require Import Common.Bytes Common.BytesFacts Ckpt.Consts Ckpt.Model Ckpt.ProofsPlan.
From Coq Require Import ZifyN ZifyNat ZifyBool.
Open Scope N_scope.

Lemma cp_file_fresh fs dst f :
  store_ok fs -> dir_lookup dst (fst f) = None ->
  extends fs (fst (cp_file (fs, dst) f)) /\ store_ok (fst (cp_file (fs, dst) f)).
Proof.
  intros Hok Hn. destruct f as [n m]. cbn in Hn. cbn. rewrite Hn. cbn. split.
  - intros i mi Hi. cbn. destruct (fs_next fs =? i) eqn:E; [|exact Hi].
    apply N.eqb_eq in E. apply Hok in Hi. lia.
  - intros i mi. cbn. destruct (fs_next fs =? i) eqn:E.
    + apply N.eqb_eq in E. lia.
    + intros Hi. apply Hok in Hi. lia.
Qed.

(* from an empty destination directory every file of a duplicate-free source listing is a fresh inode *)
Lemma fold_cp_extends : forall src fs dst,
  store_ok fs -> NoDup (map fst src) ->
  (forall n, In n (map fst src) -> dir_lookup dst n = None) ->
  extends fs (fst (fold_left cp_file src (fs, dst))).
Proof.
  induction src as [|[n m] src IH]; intros fs dst Hok Hnd Hfree; [apply extends_refl|].
  cbn [fold_left]. inversion Hnd as [|? ? Hn Hnd']; subst.
  assert (HN : dir_lookup dst n = None) by (apply Hfree; now left).
  destruct (cp_file_fresh fs dst (n, m) Hok HN) as [Hx Hok1].
  unfold cp_file in *. rewrite HN in *. cbn in Hx, Hok1.
  eapply extends_trans; [exact Hx|]. apply IH; [exact Hok1|exact Hnd'|].
  intros n' Hin. rewrite dir_lookup_insert by exact HN.
  rewrite bytes_eqb_neq; [apply Hfree; now right|]. intros ->. contradiction.
Qed.

(* the fetch as the code does it now: nothing that existed is modified, whatever was reused *)
Theorem fetch_local_never_damages fs old_ck src :
  store_ok fs -> NoDup (map fst src) ->
  extends fs (fst (fetch_local fs old_ck src)) /\
  forall n, (exists m, file_at fs old_ck n = Some m) -> file_at (fst (fetch_local fs old_ck src)) old_ck n = file_at fs old_ck n.
Proof.
  intros Hok Hnd.
  assert (Hx : extends fs (fst (fetch_local fs old_ck src))).
  { unfold fetch_local. apply fold_cp_extends; auto. }
  split; [exact Hx|]. intros n [m Hm]. unfold file_at in *.
  destruct (dir_lookup old_ck n) as [j|]; [|reflexivity]. rewrite Hm. now apply Hx.
Qed.

Lemma store_ok_single j m n : j < n -> store_ok {| fs_inodes := [(j, m)]; fs_next := n |}.
Proof.
  intros Hj i mi. cbn [fs_inodes fs_next inode_meta].
  destruct (j =? i) eqn:E; [intros _; apply N.eqb_eq in E; lia|discriminate].
Qed.

(* the copy onto the reused hard links: an sst name reused by the source with other content rewrites
   the inode the older checkpoint (and a live directory restored from it) still names *)
Theorem fetch_local_inplace_refuted :
  exists fs old_ck src n,
    store_ok fs /\ NoDup (map fst src) /\
    file_at (fst (fetch_local_inplace fs old_ck src)) old_ck n <> file_at fs old_ck n.
Proof.
  pose (sst10 := [48;48;48;48;49;48;46;115;115;116]).
  pose (f := fun s t => {| fm_kind := KFile; fm_size := s; fm_head := 0; fm_tail := t |}).
  exists {| fs_inodes := [(1, f 6163 1)]; fs_next := 2 |}, [(sst10, 1)], [(sst10, f 7361 2)], sst10.
  split; [apply store_ok_single; lia|].
  split; [repeat constructor; cbn; tauto|].
  vm_compute. discriminate.
Qed.
