(* Ckpt/ProofsName.v — GetCheckpointDir names parse back (strconv.ParseUint base 16) to their term and index *)
From ZV Require Import Common.Bytes Common.BytesFacts Ckpt.Consts Ckpt.Model Ckpt.Proofs.
From Coq Require Import ZifyN ZifyNat ZifyBool.
Open Scope N_scope.

Lemma small_cases d : d < 16 ->
  d = 0 \/ d = 1 \/ d = 2 \/ d = 3 \/ d = 4 \/ d = 5 \/ d = 6 \/ d = 7 \/ d = 8 \/ d = 9 \/ d = 10 \/
  d = 11 \/ d = 12 \/ d = 13 \/ d = 14 \/ d = 15.
Proof. lia. Qed.

Lemma digit_val_hex d : d < 16 -> digit_val (hex_digit d) = Some d /\ hex_digit d <> name_sep.
Proof.
  intros H. apply small_cases in H.
  repeat (destruct H as [->|H]; [vm_compute; split; [reflexivity|discriminate]|]).
  subst. vm_compute; split; [reflexivity|discriminate].
Qed.

Definition dstep (a d : N) : N := a * 16 + d.

Lemma fold_dstep_ge ds : forall a, a <= fold_left dstep ds a.
Proof.
  induction ds as [|d ds IH]; cbn; intros a; [lia|].
  specialize (IH (dstep a d)). unfold dstep in *. lia.
Qed.

Lemma parse_loop_digits : forall ds acc,
  Forall (fun d => d < 16) ds -> fold_left dstep ds acc < 2 ^ 64 ->
  parse_loop acc (map hex_digit ds) = (fold_left dstep ds acc, true).
Proof.
  induction ds as [|d ds IH]; intros acc Hf Hb; [reflexivity|].
  inversion Hf as [|? ? Hd Hf']; subst.
  cbn [map parse_loop fold_left].
  destruct (digit_val_hex d Hd) as [-> _].
  pose proof (fold_dstep_ge ds (dstep acc d)) as Hge. cbn [fold_left] in Hb.
  unfold dstep in Hge at 1.
  assert (E1 : (16 <=? d) = false) by lia. rewrite E1.
  assert (E2 : (cutoff16 <=? acc) = false) by (unfold cutoff16; change (2 ^ 64) with 18446744073709551616 in Hb; lia).
  rewrite E2.
  assert (E3 : (max_u64 <? acc * 16 + d) = false) by (unfold max_u64; change (2 ^ 64) with 18446744073709551616 in Hb; lia).
  rewrite E3. apply IH; assumption.
Qed.

Lemma land15 x : N.land x 15 = x mod 16.
Proof. change 15 with (N.ones 4). rewrite N.land_ones. reflexivity. Qed.

Lemma nibbles_small w v : Forall (fun d => d < 16) (nibbles w v).
Proof.
  induction w as [|w IH]; cbn [nibbles]; constructor; [|exact IH].
  rewrite land15. apply N.mod_lt. discriminate.
Qed.

Lemma nibbles_value : forall w v acc,
  fold_left dstep (nibbles w v) acc = acc * 16 ^ N.of_nat w + v mod 16 ^ N.of_nat w.
Proof.
  induction w as [|w IH]; intros v acc.
  - cbn. rewrite N.mod_1_r. lia.
  - cbn [nibbles fold_left]. rewrite IH. unfold dstep.
    rewrite land15, N.shiftr_div_pow2.
    replace (2 ^ (4 * N.of_nat w)) with (16 ^ N.of_nat w) by (rewrite N.pow_mul_r; reflexivity).
    rewrite Nat2N.inj_succ, N.pow_succ_r'.
    set (p := 16 ^ N.of_nat w).
    assert (Hp : p <> 0) by (apply N.pow_nonzero; discriminate).
    replace (16 * p) with (p * 16) by lia.
    rewrite (N.mod_mul_r v p 16) by (auto; discriminate). lia.
Qed.

Lemma hexw_length w v : length (hexw w v) = w.
Proof. unfold hexw. rewrite map_length. induction w; cbn; auto. Qed.

Theorem parse_hexw v : v < 2 ^ 64 -> parse_hex (hexw name_width v) = (v, true).
Proof.
  intros Hv.
  assert (Hval : fold_left dstep (nibbles name_width v) 0 = v).
  { rewrite nibbles_value. change (16 ^ N.of_nat name_width) with (2 ^ 64).
    rewrite N.mod_small by exact Hv. lia. }
  unfold parse_hex. destruct (hexw name_width v) as [|c r] eqn:E.
  - pose proof (hexw_length name_width v) as HL. rewrite E in HL. discriminate.
  - rewrite <- E. unfold hexw. rewrite parse_loop_digits; [now rewrite Hval|apply nibbles_small|now rewrite Hval].
Qed.

Lemma hexw_no_sep w v : Forall (fun c => c <> name_sep) (hexw w v).
Proof.
  unfold hexw. pose proof (nibbles_small w v) as H.
  induction H as [|d ds Hd _ IH]; cbn; constructor; [apply digit_val_hex, Hd|exact IH].
Qed.

Lemma split_dash_app a b : Forall (fun c => c <> name_sep) a -> split_dash (a ++ name_sep :: b) = Some (a, b).
Proof.
  induction 1 as [|c a Hc _ IH]; cbn.
  - reflexivity.
  - apply N.eqb_neq in Hc. now rewrite Hc, IH.
Qed.

Lemma count_dash_none a : Forall (fun c => c <> name_sep) a -> count_dash a = 0%nat.
Proof. induction 1 as [|c a Hc _ IH]; cbn; [reflexivity|]. apply N.eqb_neq in Hc. now rewrite Hc. Qed.

Lemma count_dash_app a b : count_dash (a ++ b) = (count_dash a + count_dash b)%nat.
Proof. induction a as [|c a IH]; cbn; [reflexivity|]. destruct (c =? name_sep); cbn; now rewrite IH. Qed.

(* the round trip: what purgeOldCheckpoint / Less read back from a name GetCheckpointDir made *)
Theorem name_roundtrip t i : t < 2 ^ 64 -> i < 2 ^ 64 ->
  term_of (enc_name t i) = t /\ index_of_name (enc_name t i) = i /\
  sortable (enc_name t i) = true /\ has_dash (enc_name t i) = true /\
  count_dash (enc_name t i) = 1%nat /\ parse_hex (after_dash (enc_name t i)) = (i, true).
Proof.
  intros Ht Hi.
  pose proof (split_dash_app (hexw name_width t) (hexw name_width i) (hexw_no_sep _ _)) as HS.
  unfold term_of, index_of_name, sortable, has_dash, after_dash, enc_name.
  rewrite HS, !parse_hexw by assumption. cbn [fst snd].
  repeat split; try reflexivity.
  rewrite count_dash_app. cbn [count_dash]. rewrite N.eqb_refl, !count_dash_none by apply hexw_no_sep. reflexivity.
Qed.

Theorem enc_name_inj t i t' i' : t < 2 ^ 64 -> i < 2 ^ 64 -> t' < 2 ^ 64 -> i' < 2 ^ 64 ->
  enc_name t i = enc_name t' i' -> t = t' /\ i = i'.
Proof.
  intros Ht Hi Ht' Hi' E.
  destruct (name_roundtrip t i Ht Hi) as [A [B _]]. destruct (name_roundtrip t' i' Ht' Hi') as [A' [B' _]].
  rewrite E in A, B. split; congruence.
Qed.

(* Less on two generated names is the lexicographic order on (term, index); it never panics *)
Theorem less_enc t i t' i' : t < 2 ^ 64 -> i < 2 ^ 64 -> t' < 2 ^ 64 -> i' < 2 ^ 64 ->
  less (enc_name t i) (enc_name t' i') = Some (if t =? t' then i <? i' else t <? t').
Proof.
  intros Ht Hi Ht' Hi'.
  destruct (name_roundtrip t i Ht Hi) as [A [B [C _]]]. destruct (name_roundtrip t' i' Ht' Hi') as [A' [B' [_ [D' _]]]].
  rewrite (less_sortable _ _ C D'). unfold key_ltb. now rewrite A, B, A', B'.
Qed.

Theorem key_le_enc t i t' i' : t < 2 ^ 64 -> i < 2 ^ 64 -> t' < 2 ^ 64 -> i' < 2 ^ 64 ->
  key_le (enc_name t i) (enc_name t' i') <-> (t < t' \/ (t = t' /\ i <= i')).
Proof.
  intros Ht Hi Ht' Hi'. rewrite key_le_spec.
  destruct (name_roundtrip t i Ht Hi) as [A [B _]]. destruct (name_roundtrip t' i' Ht' Hi') as [A' [B' _]].
  now rewrite A, B, A', B'.
Qed.
